// VERIF-TREES: asan
// C36 -- Mesh queries match brute force; bounding volumes contain (DESIGN.md section 5, C36).
// Modes (tape segment 0 word 0): Q = mesh queries, F = mesh file round trip, P = point clouds.
//  Q: generated closed mesh (tetra / octa- and icosphere / box grid / torus / prism / two components; radial noise,
//     anisotropic scaling down to 1e-3 (slivers), rigid motion, scale) -> ContactGeometry::TriangleMesh through one of
//     three routes (vertex+index arrays, PolygonalMesh possibly with inverted winding, PolygonalMesh loaded from a file
//     written by MY writer) -> every unit is one nearest-point or ray query judged against brute force over all faces
//     in long double; once per case: OBB-tree containment/partition, topology consistency, normals/areas, bounding sphere.
//  F: generated PolygonalMesh (also open patches, polygons, duplicated vertices) -> OBJ / VTP / ASCII+binary STL text by
//     my writer with benign syntactic variations -> PolygonalMesh::loadFile -> same vertices and faces (STL: per face
//     vertex coordinates within the documented merge tolerance, vertex count = number of distinct positions).
//  P: point clouds (generic, coplanar, collinear, coincident, clustered) -> OrientedBoundingBox(points),
//     Geo::Point bounding spheres / boxes contain their points; Welzl sphere not larger than an independent enclosing ball.
#include "pbt.h"
#include "SimTKmath.h"
#include "geo2_mesh.h"
#include <unistd.h>
using namespace SimTK;
using namespace geo2;

namespace {
const LD EPS = 2.220446049250313e-16L;
bool calib() { static const bool c = getenv("C36_CALIB") != nullptr; return c; }
void calibLabel(pbt::Ctx& ctx, const char* what, double ratio) { if (!calib()) return; int e = ratio <= 0 ? -99 : (int)std::floor(std::log10(ratio)); char b[96]; snprintf(b, sizeof b, "calib:%s:1e%+03d", what, std::max(e, -20)); ctx.label(b); }

struct MeshCase { GenMesh gm; double L; std::string desc; };

// ---- mesh from segment 0 (words 1..) -------------------------------------------------------
MeshCase decodeMesh(pbt::Reader& g, bool allowOpen) {
    MeshCase mc; int kind = g.pick(7), res = g.pick(64), a = g.pick(64), b = g.pick(64);
    if (kind == 1) res = res % 4; if (kind == 2) res = res % 3;
    double noise = g.chance(1, 2) ? g.uniform(0, 0.45) : 0; uint32_t seed = g.w();
    Rng rng(seed); GenMesh m = makeBase(kind, res, a, b, rng, noise);
    double sc[3] = {1, 1, 1}; int aniso = g.pick(4);        // 0 none, 1 mild, 2 one axis squashed (slivers), 3 stretched
    double sq = g.logreal(1e-3, 1); int ax = g.pick(3);
    if (aniso == 1) { sc[ax] = 0.3 + 0.7 * sq; } else if (aniso == 2) sc[ax] = sq; else if (aniso == 3) sc[ax] = 1 / std::max(sq, 0.02);
    double scale = g.logreal(1e-2, 1e2); double u[3]; g.unit3(u); double ang = g.angle(); double tr[3] = {g.real(-10, 10), g.real(-10, 10), g.real(-10, 10)};
    int defect = allowOpen ? (g.chance(1, 5) ? 1 + g.pick(3) : 0) : (g.chance(1, 16) ? 1 + g.pick(4) : 0);
    Rotation R(ang, UnitVec3(u[0], u[1], u[2]));
    for (auto& v : m.V) { Vec3 w(v[0] * sc[0], v[1] * sc[1], v[2] * sc[2]); v = scale * (R * w + Vec3(tr[0], tr[1], tr[2])); }
    if (signedVolume(m) < 0) for (auto& f : m.F) std::reverse(f.begin(), f.end());
    // defects: 1 open patch (drop a face), 2 duplicated (coincident) vertex used by one face, 3 unreferenced vertex, 4 degenerate face (queries mode only)
    m.defect = defect;
    if (defect == 1) { m.F.erase(m.F.begin() + (seed % m.F.size())); m.closed = false; }
    else if (defect == 2) { auto& f = m.F[seed % m.F.size()]; m.V.push_back(m.V[f[0]]); f[0] = (int)m.V.size() - 1; m.closed = false; }
    else if (defect == 3) { m.V.push_back(m.V[0] * 1.5 + Vec3(scale)); m.closed = false; }
    else if (defect == 4) { auto& f = m.F[seed % m.F.size()]; m.V[f[1]] = m.V[f[0]]; m.closed = false; }
    double L = 0; for (auto& v : m.V) for (int k = 0; k < 3; ++k) L = std::max(L, std::fabs(v[k]));
    std::ostringstream o; o.precision(6); o << m.kind << " V=" << m.V.size() << " F=" << m.F.size() << " noise=" << noise << " seed=" << seed << " aniso=" << aniso << "(axis " << ax << " factor " << sq << ") scale=" << scale
        << " rot=" << ang << "@(" << u[0] << "," << u[1] << "," << u[2] << ") trans=(" << tr[0] << "," << tr[1] << "," << tr[2] << ")*scale defect=" << defect;
    if (m.V.size() <= 8) { o.precision(17); o << "\n  vertices:"; for (auto& v : m.V) o << " (" << v[0] << "," << v[1] << "," << v[2] << ")"; o << " faces:"; for (auto& f : m.F) { o << " ["; for (int i : f) o << i << " "; o << "]"; } }
    mc.gm = m; mc.L = L; mc.desc = o.str(); return mc;
}

FileVar decodeFileVar(pbt::Reader& g) {
    FileVar fv; fv.fmt = g.pick(4); uint32_t bits = g.w();
    auto B = [&](int i) { return ((bits >> i) & 1u) != 0; };
    fv.crlf = B(0); fv.comments = B(1); fv.blanks = B(2); fv.negIdx = B(3); fv.interleave = B(4); fv.extraCmds = B(5); fv.cont = B(6) && !fv.crlf; fv.wcoord = B(7);
    fv.upper = B(8); fv.noLoop = B(9); fv.facetnormal = B(10); fv.zeroNormal = B(11); fv.solidHeader = B(12); fv.indent = B(13); fv.float32 = B(14); fv.pointData = B(15); fv.stla = B(16);
    fv.objRefs = B(17) ? 1 + (bits >> 18) % 3 : 0;
    return fv;
}

struct TmpFile { std::string path; TmpFile(const std::string& data, const char* ext, int k = 0) { const char* d = getenv("TMPDIR"); char b[256]; snprintf(b, sizeof b, "%s/verifC36_%d_%d%s", d ? d : "/tmp", (int)getpid(), k, ext); path = b;
    std::ofstream f(path, std::ios::binary); f.write(data.data(), (std::streamsize)data.size()); } ~TmpFile() { unlink(path.c_str()); } };

// Reference content of a written file = what a reader of the documented format must see.
struct RefMesh { std::vector<Vec3> V; std::vector<std::vector<int> > F; };
RefMesh referenceOf(const GenMesh& m, const FileVar& fv) {
    RefMesh r; if (fv.fmt == 3) { for (auto& v : m.V) r.V.push_back(Vec3((double)(float)v[0], (double)(float)v[1], (double)(float)v[2])); for (auto& t : m.tris()) r.F.push_back({t[0], t[1], t[2]}); }
    else { r.V = m.V; r.F = m.F; } return r;
}

// The round-trip oracle. Returns false (after ctx.fail) on violation. `base` = vertices/faces already in the mesh before loading (append).
bool checkLoaded(pbt::Ctx& ctx, const PolygonalMesh& pm, const RefMesh& ref, const FileVar& fv, int baseV, int baseF, double L, bool* stlWellSeparated = nullptr) {
    if (stlWellSeparated) *stlWellSeparated = false;
    const int nv = pm.getNumVertices(), nf = pm.getNumFaces();
    if (!ctx.check(nf == baseF + (int)ref.F.size(), "loaded mesh has " + std::to_string(nf - baseF) + " new faces, file has " + std::to_string(ref.F.size()))) return false;
    for (int f = baseF; f < nf; ++f) { int n = pm.getNumVerticesForFace(f);
        if (!ctx.check(n == (int)ref.F[f - baseF].size(), "face " + std::to_string(f) + " has " + std::to_string(n) + " vertices, file has " + std::to_string(ref.F[f - baseF].size()))) return false;
        for (int k = 0; k < n; ++k) { int ix = pm.getFaceVertex(f, k); if (!ctx.check(ix >= 0 && ix < nv, "face " + std::to_string(f) + " vertex index " + std::to_string(ix) + " out of range [0," + std::to_string(nv) + ")")) return false; } }
    if (fv.fmt <= 1) {   // OBJ, VTP: indexed formats -> identical vertex list and identical indices (after the append offset)
        if (!ctx.check(nv == baseV + (int)ref.V.size(), "loaded mesh has " + std::to_string(nv - baseV) + " new vertices, file has " + std::to_string(ref.V.size()))) return false;
        for (int i = baseV; i < nv; ++i) { const Vec3& p = pm.getVertexPosition(i); const Vec3& q = ref.V[i - baseV];
            for (int k = 0; k < 3; ++k) if (!(p[k] == q[k])) { ctx.fail("vertex " + std::to_string(i) + " coordinate " + std::to_string(k) + " = " + pbt::str(p[k]) + " but the file says " + pbt::str(q[k])); return false; } }
        for (int f = baseF; f < nf; ++f) for (int k = 0; k < (int)ref.F[f - baseF].size(); ++k) { int ix = pm.getFaceVertex(f, k), want = ref.F[f - baseF][k] + baseV;
            if (ix != want) { ctx.fail("face " + std::to_string(f) + " vertex " + std::to_string(k) + " refers to vertex " + std::to_string(ix) + ", the file says " + std::to_string(want) + (baseV ? " (file appended to a mesh that already had " + std::to_string(baseV) + " vertices)" : "")); return false; } }
    } else {             // STL: triangle soup, vertices merged within a small tolerance -> compare coordinates per face
        const double tol = 1e-5 + 1e-6 * L;
        for (int f = baseF; f < nf; ++f) for (int k = 0; k < (int)ref.F[f - baseF].size(); ++k) { const Vec3& p = pm.getVertexPosition(pm.getFaceVertex(f, k)); const Vec3& q = ref.V[ref.F[f - baseF][k]];
            for (int c = 0; c < 3; ++c) if (!(std::fabs(p[c] - q[c]) <= tol)) { ctx.fail("STL face " + std::to_string(f) + " vertex " + std::to_string(k) + " coordinate " + std::to_string(c) + " = " + pbt::str(p[c]) + " but the file says " + pbt::str(q[c])); return false; } }
        // nothing invented / "hope of a connected surface": with well separated positions, #vertices = #distinct positions used by faces
        std::set<std::array<double,3> > distinct; double minSep = 1e300;
        for (auto& f : ref.F) for (int i : f) distinct.insert({ref.V[i][0], ref.V[i][1], ref.V[i][2]});
        std::vector<std::array<double,3> > dv(distinct.begin(), distinct.end());
        if (dv.size() <= 3000) { for (size_t i = 0; i < dv.size(); ++i) for (size_t j = i + 1; j < dv.size(); ++j) { if (dv[j][0] - dv[i][0] > minSep) break; double d = std::max(std::max(std::fabs(dv[i][0] - dv[j][0]), std::fabs(dv[i][1] - dv[j][1])), std::fabs(dv[i][2] - dv[j][2])); minSep = std::min(minSep, d); }
            if (minSep > 1e-4) { ctx.label("stl:merge-count-checked"); if (stlWellSeparated) *stlWellSeparated = true; if (!ctx.check(nv - baseV == (int)dv.size() || baseV > 0, "STL loader produced " + std::to_string(nv - baseV) + " vertices for " + std::to_string(dv.size()) + " distinct, well separated positions")) return false; } }
    }
    return true;
}

// ---- mode F ------------------------------------------------------------------------------------
void fileMode(const pbt::Tape& t, pbt::Ctx& ctx) {
    pbt::Reader g(t[0]); g.skip(1); MeshCase mc = decodeMesh(g, true);
    pbt::Reader h(t[1]); FileVar fv = decodeFileVar(h); bool append = h.chance(1, 6);
    std::string data = writeMesh(mc.gm, fv); RefMesh ref = referenceOf(mc.gm, fv);
    if (ctx.wantDesc) ctx.desc << "mode=file " << mc.desc << "\nformat: " << fv.describe() << (append ? " APPEND(second load into the same mesh)" : "") << " bytes=" << data.size() << "\n" << (fv.fmt != 3 && data.size() < 1200 ? data : std::string()) << "\n";
    static const char* fn[] = {"obj", "vtp", "stl-ascii", "stl-binary"};
    ctx.label(std::string("file:") + fn[fv.fmt]); if (mc.gm.defect) ctx.label("file:defect" + std::to_string(mc.gm.defect)); if (append) ctx.label(std::string("file:append:") + fn[fv.fmt]);
    bool poly = false; for (auto& f : mc.gm.F) if (f.size() > 3) poly = true; if (poly && fv.fmt != 3) ctx.label("file:polygon-faces");
    ctx.nontrivial(mc.gm.F.size() >= 8 && (fv.crlf || fv.comments || fv.negIdx || fv.interleave || fv.objRefs || fv.upper || fv.noLoop || fv.fmt == 3 || poly));
    TmpFile tf(data, fileExt(fv));
    PolygonalMesh pm;
    try { pm.loadFile(tf.path); } catch (const std::exception& e) { ctx.fail(std::string("loader rejected a valid file: ") + std::string(e.what()).substr(0, 300)); return; }
    // known finding: OBJ "v//vn" references (no texture index) are mis-parsed: normal indices garbage (vertices/faces still right)
    bool stlSep = false; if (!checkLoaded(ctx, pm, ref, fv, 0, 0, mc.L, &stlSep)) return;
    if (append) {
        int bv = pm.getNumVertices(), bf = pm.getNumFaces();
        // second file = same mesh translated (distinct positions so that STL merging does not identify them)
        GenMesh m2 = mc.gm; Vec3 sh(3 * mc.L + 1, 0.5 * mc.L, 0); for (auto& v : m2.V) v += sh; std::string d2 = writeMesh(m2, fv); RefMesh r2 = referenceOf(m2, fv); TmpFile tf2(d2, fileExt(fv), 1);
        bool excl = false;
        if (fv.fmt == 0 && ctx.known("obj-append-indices-not-offset")) { ctx.label("excluded:obj-append"); excl = true; }
        if (fv.fmt == 1 && ctx.known("vtp-append-indices-not-offset")) { ctx.label("excluded:vtp-append"); excl = true; }
        if (!excl) {
            try { pm.loadFile(tf2.path); } catch (const std::exception& e) { ctx.fail(std::string("loader rejected a valid file on the second (appending) load: ") + std::string(e.what()).substr(0, 300)); return; }
            if (!checkLoaded(ctx, pm, r2, fv, bv, bf, 4 * mc.L + 1)) return;
            // the first file's content must be untouched
            PolygonalMesh first; first.loadFile(tf.path);
            for (int i = 0; i < bv; ++i) if (!ctx.check(pm.getVertexPosition(i) == first.getVertexPosition(i), "appending a second file changed vertex " + std::to_string(i) + " of the first")) return;
        }
        return;
    }
    // A closed mesh loaded from a file must be usable as a TriangleMesh (statement: "including meshes loaded from ... files")
    // (STL: only when no two distinct vertices are within the loader's documented merge tolerance of each other)
    if (mc.gm.closed && (fv.fmt <= 1 || stlSep)) { try { ContactGeometry::TriangleMesh tm(pm); ctx.label("file:trianglemesh-built");
            int want = 0; for (auto& f : ref.F) want += f.size() == 3 ? 1 : f.size() == 4 ? 2 : (int)f.size();
            ctx.check(tm.getNumFaces() == want, "TriangleMesh from loaded file has " + std::to_string(tm.getNumFaces()) + " faces, expected " + std::to_string(want));
        } catch (const std::exception& e) { ctx.fail(std::string("closed mesh loaded from file is rejected by TriangleMesh: ") + std::string(e.what()).substr(0, 300)); } }
}

// ---- mode P ------------------------------------------------------------------------------------
void cloudMode(const pbt::Tape& t, pbt::Ctx& ctx) {
    pbt::Reader g(t[0]); g.skip(1);
    int cls = g.pick(6);      // 0 generic, 1 coplanar, 2 collinear, 3 coincident, 4 clustered, 5 on a sphere (cospherical)
    double scale = g.logreal(1e-2, 1e2); double c0[3] = {g.real(-10, 10), g.real(-10, 10), g.real(-10, 10)}; double u[3]; g.unit3(u); double ang = g.angle();
    int mult = 1 + g.pick(40); uint32_t seed = g.w(); double jitter = g.chance(1, 3) ? g.logreal(1e-14, 1e-3) : 0;
    Rotation R(ang, UnitVec3(u[0], u[1], u[2])); Rng rng(seed);
    std::vector<Vec3> P;
    auto place = [&](Vec3 x) { if (cls == 1) x[2] = 0; if (cls == 2) x[1] = x[2] = 0; if (cls == 3) x = Vec3(0); if (cls == 5) { double l = x.norm(); x = l > 0 ? x / l : Vec3(1, 0, 0); }
        if (jitter > 0) x += jitter * Vec3(rng.sym(), rng.sym(), rng.sym()); return Vec3(scale * (R * x + Vec3(c0[0], c0[1], c0[2]))); };
    for (size_t k = 1; k < t.size(); ++k) { pbt::Reader r(t[k]); Vec3 x(r.real(-1, 1), r.real(-1, 1), r.real(-1, 1)); int copies = r.chance(1, 4) ? mult : 1; bool dup = r.chance(1, 8);
        for (int c = 0; c < copies && P.size() < 500; ++c) { Vec3 y = x; if (c > 0 && !dup) y = (cls == 4 ? x + 1e-3 * Vec3(rng.sym(), rng.sym(), rng.sym()) : Vec3(rng.sym(), rng.sym(), rng.sym())); P.push_back(place(y)); } }
    if (P.empty()) P.push_back(place(Vec3(0)));
    static const char* cn[] = {"generic", "coplanar", "collinear", "coincident", "clustered", "cospherical"};
    ctx.label(std::string("cloud:") + cn[cls]); ctx.label(P.size() == 1 ? "cloud:n=1" : P.size() <= 4 ? "cloud:n=2..4" : P.size() <= 50 ? "cloud:n=5..50" : "cloud:n>50");
    ctx.nontrivial(P.size() >= 5 && cls != 3);
    double L = 0; for (auto& p : P) for (int k = 0; k < 3; ++k) L = std::max(L, std::fabs(p[k]));
    if (ctx.wantDesc) { ctx.desc.precision(17); ctx.desc << "mode=cloud class=" << cn[cls] << " n=" << P.size() << " jitter=" << jitter << " points:"; for (size_t i = 0; i < P.size() && i < 12; ++i) ctx.desc << " (" << P[i][0] << "," << P[i][1] << "," << P[i][2] << ")"; ctx.desc << "\n"; }
    // --- OrientedBoundingBox(points)
    { Vector_<Vec3> pts((int)P.size()); for (size_t i = 0; i < P.size(); ++i) pts[(int)i] = P[i];
      OrientedBoundingBox box(pts); const Transform& X = box.getTransform(); const Vec3 sz = box.getSize();
      for (int k = 0; k < 3; ++k) if (!ctx.check(std::isfinite(sz[k]) && sz[k] >= 0, "OrientedBoundingBox size[" + std::to_string(k) + "] = " + pbt::str(sz[k]))) return;
      Mat33 RtR = ~X.R().asMat33() * X.R().asMat33(); double dev = 0; for (int i = 0; i < 3; ++i) for (int j = 0; j < 3; ++j) dev = std::max(dev, std::fabs(RtR(i, j) - (i == j)));
      if (!ctx.check(dev < 1e-12 && det(X.R().asMat33()) > 0, "OrientedBoundingBox orientation is not a proper rotation (dev " + pbt::str(dev) + ")")) return;
      for (size_t i = 0; i < P.size(); ++i) { if (!ctx.check(box.containsPoint(P[i]), "OrientedBoundingBox(points) does not contain point " + std::to_string(i) + " (containsPoint false)")) return;
          V3 pl = toL(P[i]) - toL(X.p()); LD out = 0; for (int k = 0; k < 3; ++k) { V3 axk = toL(Vec3(X.R().col(k))); LD c = dot(pl, axk); out = std::max(out, std::max(-c, c - (LD)sz[k])); }
          if (!ctx.check(out <= 0, "OrientedBoundingBox(points): point " + std::to_string(i) + " is outside the box by " + pbt::str((double)out))) return; }
      // findNearestPoint of a contained point is the point; of the box is inside the box
      Vec3 np = box.findNearestPoint(P[0]); if (!ctx.check((np - P[0]).norm() <= 1e-12 * (L + 1e-300) + 1e-300, "OrientedBoundingBox::findNearestPoint moved a contained point by " + pbt::str((np - P[0]).norm()))) return;
    }
    // --- Geo::Point bounding volumes
    Array_<Vec3> A(P.begin(), P.end()); Array_<const Vec3*> Ind; for (auto& p : A) Ind.push_back(&p);
    std::vector<V3> PL; for (auto& p : P) PL.push_back(toL(p));
    V3 bc; LD Rub = enclosingRadius(PL, bc);     // radius of SOME enclosing ball (>= minimal radius)
    auto contains = [&](const Geo::Sphere& s, const char* what) { for (size_t i = 0; i < P.size(); ++i) { if (s.isPointOutside(P[i])) { ctx.fail(std::string(what) + ": point " + std::to_string(i) + " tests outside the bounding sphere (isPointOutside)"); return false; }
            LD d = norm(PL[i] - toL(s.getCenter())); if (d > (LD)s.getRadius() + 8 * EPS * ((LD)L + (LD)s.getRadius())) { ctx.fail(std::string(what) + ": point " + std::to_string(i) + " is at distance " + pbt::str((double)d) + " > radius " + pbt::str(s.getRadius())); return false; } }
        return ctx.check(std::isfinite(s.getRadius()) && s.getRadius() > 0, std::string(what) + ": radius " + pbt::str(s.getRadius())); };
    // documented stretch: max(scale*eps, tol) with tol = Geo default tolerance; allowance below covers the stretch of the
    // sphere and of nested primitives
    const double stretch = 1e-9 * std::max(L, 1.0) + 1e-9;
    auto tight = [&](const Geo::Sphere& s, const char* what, double factor) { double r = s.getRadius(); calibLabel(ctx, what, (r - stretch) / (double)(Rub + 1e-300L) - 1); return ctx.check(r <= factor * (double)Rub + stretch, std::string(what) + ": radius " + pbt::str(r) + " but a ball of radius " + pbt::str((double)Rub) + " already encloses the points (documented near-minimal; allowed factor 2)"); };
    { Geo::Sphere s = Geo::Point::calcBoundingSphere(A); if (!contains(s, "calcBoundingSphere(Array)") || !tight(s, "welzl", 2.0)) return;
      Array_<int> which; Geo::Sphere s2 = Geo::Point::calcBoundingSphereIndirect(Ind, which); if (!contains(s2, "calcBoundingSphereIndirect") || !tight(s2, "welzl", 2.0)) return;
      if (!ctx.check(which.size() <= 4, "more than 4 support points")) return; for (int w : which) if (!ctx.check(w >= 0 && w < (int)P.size(), "support index out of range")) return;
      Geo::Sphere sa = Geo::Point::calcApproxBoundingSphere(A); if (!contains(sa, "calcApproxBoundingSphere")) return;
      if (!ctx.check(sa.getRadius() <= 2.0 * (double)Rub + stretch, "calcApproxBoundingSphere radius " + pbt::str(sa.getRadius()) + " > 2x an enclosing ball " + pbt::str((double)Rub))) return;
      if (!(s.getRadius() <= sa.getRadius() * (1 + 1e-9) + stretch)) ctx.label("observed:welzl-larger-than-ritter(not part of C36)");
      if (P.size() >= 2) { Geo::Sphere s = Geo::Point::calcBoundingSphere(P[0], P[1]); for (int i = 0; i < 2; ++i) if (!ctx.check(!s.isPointOutside(P[i]), "2-point bounding sphere leaves point " + std::to_string(i) + " outside")) return; }
      if (P.size() >= 3) { Geo::Sphere s = Geo::Point::calcBoundingSphere(P[0], P[1], P[2]); for (int i = 0; i < 3; ++i) if (!ctx.check(!s.isPointOutside(P[i]), "3-point bounding sphere leaves point " + std::to_string(i) + " outside")) return; }
      if (P.size() >= 4) { Geo::Sphere s = Geo::Point::calcBoundingSphere(P[0], P[1], P[2], P[3]); for (int i = 0; i < 4; ++i) if (!ctx.check(!s.isPointOutside(P[i]), "4-point bounding sphere leaves point " + std::to_string(i) + " outside")) return; }
    }
    { Geo::AlignedBox ab = Geo::Point::calcAxisAlignedBoundingBox(A); for (size_t i = 0; i < P.size(); ++i) if (!ctx.check(ab.containsPoint(P[i]), "calcAxisAlignedBoundingBox does not contain point " + std::to_string(i))) return;
      for (int opt = 0; opt < 2; ++opt) { Array_<int> sup; Geo::OrientedBox ob = Geo::Point::calcOrientedBoundingBox(A, sup, opt == 1); const Transform& X = ob.getTransform(); const Vec3 hl = ob.getHalfLengths();
          for (size_t i = 0; i < P.size(); ++i) { V3 pl = PL[i] - toL(X.p()); LD out = 0; for (int k = 0; k < 3; ++k) { LD c = std::fabs(dot(pl, toL(Vec3(X.R().col(k))))); out = std::max(out, c - (LD)hl[k]); }
              if (!ctx.check(out <= 64 * EPS * L, std::string("calcOrientedBoundingBox(optimize=") + (opt ? "true" : "false") + "): point " + std::to_string(i) + " is outside the box by " + pbt::str((double)out))) return;
              if (!ob.containsPoint(P[i])) {   // known finding: the roundoff stretch (max(scale*eps, 2e-14)) is smaller than the rounding error of centre/extent for degenerate (zero-extent) boxes
                  if (ctx.known("geo-obb-stretch-insufficient")) { ctx.label("excluded:geo-obb-stretch"); continue; }
                  ctx.fail(std::string("calcOrientedBoundingBox(optimize=") + (opt ? "true" : "false") + ") does not contain point " + std::to_string(i) + " (containsPoint false; exact excess " + pbt::str((double)out) + ")"); return; } } } }
}

// Site predicate of known finding nearest-point-to-face-region6: Eberly's point/triangle regions evaluated exactly as
// findNearestPointToFace does (vertex order of the face); true iff the query falls into region 6, sub-branch "temp1 <= temp0,
// temp1 > 0", where the code tests the sign of e instead of d and the two signs differ.
bool region6Site(V3 q, V3 v1, V3 v2, V3 v3) {
    V3 e0 = v2 - v1, e1 = v3 - v1, dl = v1 - q; LD a = dot(e0, e0), b = dot(e0, e1), c = dot(e1, e1), d = dot(e0, dl), e = dot(e1, dl), det = a * c - b * b, s = b * e - c * d, t = b * d - a * e;
    // (boundaries taken with a 1e-9 relative margin: the library evaluates the same expressions in double)
    LD m = 1e-9L * (std::fabs(b * e) + std::fabs(c * d) + std::fabs(b * d) + std::fabs(a * e) + a * c), m2 = 1e-9L * (a + std::fabs(b) + std::fabs(d) + std::fabs(e));
    if (s + t <= det - m || s < -m || !(t < m)) return false;
    LD temp0 = b + e, temp1 = a + d; if (temp1 > temp0 + m2 || temp1 <= -m2) return false;
    if (std::fabs(e) <= m2 || std::fabs(d) <= m2) return true;
    return (e >= 0) != (d >= 0);
}

// ---- mode Q ------------------------------------------------------------------------------------
struct Faces { std::vector<V3> A, B, C; std::vector<LD> hmin, emax; LD asp = 1; };

void queryMode(const pbt::Tape& t, pbt::Ctx& ctx) {
    pbt::Reader g(t[0]); g.skip(1); MeshCase mc = decodeMesh(g, false); const GenMesh& gm = mc.gm;
    pbt::Reader h(t[1]); int route = h.pick(4); FileVar fv = decodeFileVar(h); bool invert = h.chance(1, 4), smooth = h.chance(1, 8);
    if (route == 3 && fv.fmt == 3) { /* binary STL rounds to float: fine, geometry is taken from the built mesh */ }
    static const char* rn[] = {"arrays", "polygonalmesh", "arrays", "file"};
    if (ctx.wantDesc) ctx.desc << "mode=query " << mc.desc << " route=" << rn[route] << (route == 3 ? " (" + fv.describe() + ")" : "") << (invert && route == 1 ? " inverted-winding" : "") << (smooth ? " smooth" : "") << "\n";
    // ---- build
    std::unique_ptr<ContactGeometry::TriangleMesh> tmp; std::unique_ptr<TmpFile> tf;
    try {
        if (route == 0 || route == 2) { Array_<Vec3> V(gm.V.begin(), gm.V.end()); Array_<int> I; for (auto& tr : gm.tris()) for (int k = 0; k < 3; ++k) I.push_back(tr[k]); tmp.reset(new ContactGeometry::TriangleMesh(V, I, smooth)); }
        else { PolygonalMesh pm;
            if (route == 1) { for (auto& v : gm.V) pm.addVertex(v); for (auto f : gm.F) { if (invert) std::reverse(f.begin(), f.end()); Array_<int> a(f.begin(), f.end()); pm.addFace(a); } }
            else { tf.reset(new TmpFile(writeMesh(gm, fv), fileExt(fv))); pm.loadFile(tf->path); }
            tmp.reset(new ContactGeometry::TriangleMesh(pm, smooth)); }
    } catch (const std::exception& e) {
        if (gm.defect) { ctx.label("ctor-refused-defective-mesh:" + std::to_string(gm.defect)); ctx.reject("defective-mesh-refused"); return; }
        // extreme squashing of a binary-STL (float) mesh can make faces degenerate: clean refusal
        std::string w = e.what(); if (route == 3 && fv.fmt >= 2 && (w.find("degenerate") != std::string::npos || w.find("twice") != std::string::npos || w.find("shared by exactly two") != std::string::npos || w.find("same order") != std::string::npos)) { ctx.reject("stl-merge-made-mesh-degenerate"); return; }
        ctx.fail("TriangleMesh construction refused a valid closed mesh: " + w.substr(0, 300)); return; }
    if (gm.defect && gm.defect != 0) { if ((gm.defect == 2 || gm.defect == 3) && route == 3 && fv.fmt >= 2) { ctx.label("stl-repaired-defect"); /* STL is a triangle soup: merging repairs a duplicated vertex, unreferenced vertices are not written */ } else { ctx.fail("TriangleMesh accepted a defective mesh (defect " + std::to_string(gm.defect) + ": 1 open, 2 duplicated vertex, 3 unreferenced vertex, 4 degenerate face) without the documented exception"); return; } }
    const ContactGeometry::TriangleMesh& mesh = *tmp; const int nf = mesh.getNumFaces(), nv = mesh.getNumVertices(), ne = mesh.getNumEdges();
    ctx.label(std::string("route:") + rn[route]); ctx.label("mesh:" + gm.kind.substr(0, gm.kind.find_first_of("0123456789:")));
    ctx.label(nf < 50 ? "faces<50" : nf < 300 ? "faces:50-299" : "faces>=300");
    // ---- geometry as the library holds it (accessors), brute-force arrays
    Faces fc; double L = 0; for (int i = 0; i < nv; ++i) for (int k = 0; k < 3; ++k) L = std::max(L, std::fabs(mesh.getVertexPosition(i)[k]));
    for (int f = 0; f < nf; ++f) { int ix[3]; for (int k = 0; k < 3; ++k) { ix[k] = mesh.getFaceVertex(f, k); if (!ctx.check(ix[k] >= 0 && ix[k] < nv, "getFaceVertex out of range")) return; }
        V3 a = toL(mesh.getVertexPosition(ix[0])), b = toL(mesh.getVertexPosition(ix[1])), c = toL(mesh.getVertexPosition(ix[2])); fc.A.push_back(a); fc.B.push_back(b); fc.C.push_back(c);
        LD e = std::max(std::max(norm(b - a), norm(c - b)), norm(a - c)), ar2 = norm(cross(b - a, c - a)); fc.emax.push_back(e); fc.hmin.push_back(ar2 / e); fc.asp = std::max(fc.asp, e * e / ar2); }
    ctx.label(fc.asp < 20 ? "aspect<20" : fc.asp < 1e3 ? "aspect:20-1e3" : "aspect>=1e3(slivers)");
    // the library's geometry must be the generated geometry (vertices preserved, faces = triangulation)
    { int want = 0; for (auto& f : gm.F) want += (route == 0 || route == 2 || f.size() <= 4) ? (int)f.size() - 2 : (int)f.size(); if (route == 3 && fv.fmt == 3) want = (int)gm.tris().size();
      if (!ctx.check(nf == want, "TriangleMesh has " + std::to_string(nf) + " faces, expected " + std::to_string(want))) return;
      if (route != 3) for (size_t i = 0; i < gm.V.size(); ++i) if (!ctx.check(mesh.getVertexPosition((int)i) == gm.V[i], "vertex " + std::to_string(i) + " not preserved")) return; }
    // signed volume: outward orientation (PolygonalMesh route re-orients; array route keeps the given outward winding)
    { LD vol = 0; for (int f = 0; f < nf; ++f) vol += dot(fc.A[f], cross(fc.B[f], fc.C[f])); if (invert && route == 1) ctx.label("inverted-winding-input");
      // inverted winding violates PolygonalMesh::addFace's documented precondition (counter-clockwise about the outward normal); the
      // constructor's re-orientation is an undocumented courtesy (it fails e.g. for a regular tetrahedron) -> not demanded
      if (invert && route == 1 && !(vol > 0)) { ctx.label("inverted-winding-not-reoriented"); ctx.reject("inverted-winding-input-kept"); return; }
      if (!ctx.check(vol > 0, "faces are oriented inward (signed volume " + pbt::str((double)(vol / 6)) + ") although the mesh documents outward normals")) return; }
    // ---- normals, areas
    for (int f = 0; f < nf; ++f) { V3 n = cross(fc.B[f] - fc.A[f], fc.C[f] - fc.A[f]); LD l = norm(n); V3 nh = (1 / l) * n; V3 ln = toL(Vec3(mesh.getFaceNormal(f)));
        LD tolN = 1e3 * EPS * (1 + L / fc.hmin[f]); if (!ctx.check(norm(ln - nh) <= tolN, "getFaceNormal(" + std::to_string(f) + ") differs from the normalized cross product by " + pbt::str((double)norm(ln - nh)))) return;
        LD ar = mesh.getFaceArea(f); if (!ctx.check(std::fabs(ar - l / 2) <= 1e3 * EPS * (L * fc.emax[f] + l), "getFaceArea(" + std::to_string(f) + ") = " + pbt::str((double)ar) + " vs " + pbt::str((double)(l / 2)))) return; }
    // ---- topology
    if (!ctx.check(2 * ne == 3 * nf, "closed mesh: 2E != 3F")) return;
    { std::vector<std::set<int> > vEdges(nv);
      for (int e = 0; e < ne; ++e) { int v0 = mesh.getEdgeVertex(e, 0), v1 = mesh.getEdgeVertex(e, 1); if (!ctx.check(v0 >= 0 && v0 < nv && v1 >= 0 && v1 < nv && v0 != v1, "edge " + std::to_string(e) + " has bad vertices")) return; vEdges[v0].insert(e); vEdges[v1].insert(e);
          int f0 = mesh.getEdgeFace(e, 0), f1 = mesh.getEdgeFace(e, 1); if (!ctx.check(f0 >= 0 && f0 < nf && f1 >= 0 && f1 < nf && f0 != f1, "edge " + std::to_string(e) + " has bad faces")) return;
          for (int s = 0; s < 2; ++s) { int f = s ? f1 : f0; int cnt = 0, slot = -1; for (int k = 0; k < 3; ++k) { int fv_ = mesh.getFaceVertex(f, k); if (fv_ == v0 || fv_ == v1) cnt++; if (mesh.getFaceEdge(f, k) == e) slot = k; }
              if (!ctx.check(cnt == 2, "edge " + std::to_string(e) + ": face " + std::to_string(f) + " does not contain both edge vertices")) return;
              if (!ctx.check(slot >= 0, "edge " + std::to_string(e) + " is not among getFaceEdge of its face " + std::to_string(f))) return; } }
      static const int ev[3][2] = {{0, 1}, {1, 2}, {0, 2}};     // documented: edge 0 connects vertices 0,1; edge 1: 1,2; edge 2: 0,2
      for (int f = 0; f < nf; ++f) for (int k = 0; k < 3; ++k) { int e = mesh.getFaceEdge(f, k); if (!ctx.check(e >= 0 && e < ne, "getFaceEdge out of range")) return; int a = mesh.getFaceVertex(f, ev[k][0]), b = mesh.getFaceVertex(f, ev[k][1]), v0 = mesh.getEdgeVertex(e, 0), v1 = mesh.getEdgeVertex(e, 1);
          if (!ctx.check((a == v0 && b == v1) || (a == v1 && b == v0), "getFaceEdge(" + std::to_string(f) + "," + std::to_string(k) + ") does not connect the documented face vertices")) return;
          if (!ctx.check(mesh.getEdgeFace(e, 0) == f || mesh.getEdgeFace(e, 1) == f, "face " + std::to_string(f) + " not among the faces of its edge " + std::to_string(e))) return; }
      int step = std::max(1, nv / 40); for (int v = (int)(t[0][5] % (uint32_t)step); v < nv; v += step) { Array_<int> es; mesh.findVertexEdges(v, es); std::set<int> got(es.begin(), es.end());
          if (!ctx.check((int)got.size() == (int)es.size() && got == vEdges[v], "findVertexEdges(" + std::to_string(v) + ") returned " + std::to_string(es.size()) + " edges, incident edges are " + std::to_string(vEdges[v].size()))) return; }
    }
    // ---- OBB tree: containment, partition, counts
    { struct Item { ContactGeometry::TriangleMesh::OBBTreeNode nd; }; std::vector<int> seen(nf, 0); int leaves = 0;
      std::function<bool(const ContactGeometry::TriangleMesh::OBBTreeNode&, std::vector<int>&)> walk = [&](const ContactGeometry::TriangleMesh::OBBTreeNode& nd, std::vector<int>& out) -> bool {
          std::vector<int> mine;
          if (nd.isLeafNode()) { ++leaves; for (int f : nd.getTriangles()) { if (!ctx.check(f >= 0 && f < nf, "OBB leaf holds a bad face index")) return false; seen[f]++; mine.push_back(f); } if (!ctx.check(!mine.empty(), "empty OBB leaf")) return false; }
          else { if (!walk(nd.getFirstChildNode(), mine) || !walk(nd.getSecondChildNode(), mine)) return false; }
          if (!ctx.check(nd.getNumTriangles() == (int)mine.size(), "OBB node getNumTriangles " + std::to_string(nd.getNumTriangles()) + " != faces in its subtree " + std::to_string(mine.size()))) return false;
          const OrientedBoundingBox& bb = nd.getBounds(); const Transform& X = bb.getTransform(); const Vec3& sz = bb.getSize();
          V3 ax[3]; for (int k = 0; k < 3; ++k) ax[k] = toL(Vec3(X.R().col(k))); V3 p0 = toL(X.p());
          for (int f : mine) for (int k = 0; k < 3; ++k) { V3 p = (k == 0 ? fc.A[f] : k == 1 ? fc.B[f] : fc.C[f]) - p0; LD o = 0; for (int c = 0; c < 3; ++c) { LD x = dot(p, ax[c]); o = std::max(o, std::max(-x, x - (LD)sz[c])); }
              if (o > 0) { ctx.fail("OBB tree node (" + std::to_string(mine.size()) + " faces) does not contain vertex " + std::to_string(k) + " of its face " + std::to_string(f) + " (outside by " + pbt::str((double)o) + ")"); return false; }
              if (!bb.containsPoint(toD(k == 0 ? fc.A[f] : k == 1 ? fc.B[f] : fc.C[f]))) { ctx.fail("OBB tree node: containsPoint false for a vertex of face " + std::to_string(f)); return false; } }
          out.insert(out.end(), mine.begin(), mine.end()); return true; };
      std::vector<int> all; if (!walk(mesh.getOBBTreeNode(), all)) return;
      for (int f = 0; f < nf; ++f) if (!ctx.check(seen[f] == 1, "face " + std::to_string(f) + " appears in " + std::to_string(seen[f]) + " OBB leaves")) return;
      if (leaves > 1) ctx.label("obb:multi-leaf"); }
    // ---- bounding sphere of the mesh
    { Vec3 c; Real r; mesh.getBoundingSphere(c, r); for (int i = 0; i < nv; ++i) { LD d = norm(toL(mesh.getVertexPosition(i)) - toL(c)); if (!ctx.check(d <= (LD)r + 8 * EPS * ((LD)L + (LD)r), "mesh bounding sphere (r=" + pbt::str(r) + ") leaves vertex " + std::to_string(i) + " outside (distance " + pbt::str((double)d) + ")")) return; } }

    // ---- queries
    const bool embedded = gm.starEmbedded; bool anyNT = false;
    auto facePoint = [&](int f, LD u, LD v) { return u * fc.A[f] + v * fc.B[f] + (1 - u - v) * fc.C[f]; };
    for (size_t qi = 2; qi < t.size(); ++qi) {
        pbt::Reader r(t[qi]); int kind = r.pick(8); int f = (int)(r.w() % (uint32_t)nf); int bcls = r.pick(6); double b0 = r.unit(), b1 = r.unit();
        LD u, v; if (b0 + b1 > 1) { b0 = 1 - b0; b1 = 1 - b1; } u = b0; v = b1;
        if (bcls == 1) { int z = (int)(b0 * 3) % 3; if (z == 0) { u = 0; v = b1; } else if (z == 1) { v = 0; u = b1; } else { u = b1; v = 1 - b1; } }
        else if (bcls == 2) { int z = (int)(b0 * 3) % 3; u = z == 0; v = z == 1; }
        else if (bcls == 3) { u = v = 1.0L / 3; }
        else if (bcls == 4) { u = 1e-9 + 1e-6 * b0; }
        V3 T = facePoint(f, u, v);
        // direction = normalized sum of the normals of all faces touching T (normal cone axis)
        V3 nsum = {0, 0, 0}; for (int k = 0; k < nf; ++k) { Closest c = closestPtTri(T, fc.A[k], fc.B[k], fc.C[k]); if (c.d <= 1e-12L * L) { V3 n = cross(fc.B[k] - fc.A[k], fc.C[k] - fc.A[k]); nsum = nsum + (1 / norm(n)) * n; } }
        if (!(norm(nsum) > 1e-6)) nsum = cross(fc.B[f] - fc.A[f], fc.C[f] - fc.A[f]); nsum = (1 / norm(nsum)) * nsum;
        double offExp = r.uniform(-9, 0.3); bool neg = r.boolean(); bool zeroOff = r.chance(1, 10); LD off = zeroOff ? 0 : (neg ? -1 : 1) * std::pow(10.0L, (LD)offExp) * L;
        double d3[3]; r.unit3(d3); double rx = r.real(-1.5, 1.5), ry = r.real(-1.5, 1.5), rz = r.real(-1.5, 1.5);
        // random point relative to the mesh bounding sphere
        Vec3 bsC; Real bsR; mesh.getBoundingSphere(bsC, bsR); V3 rnd = toL(bsC) + (LD)bsR * V3{(LD)rx, (LD)ry, (LD)rz};
        std::ostringstream qd; qd.precision(17);
        if (kind <= 3) {
            // ------------------------------------------------ nearest point
            V3 Q = kind == 2 ? rnd : kind == 3 ? T + off * V3{(LD)d3[0], (LD)d3[1], (LD)d3[2]} : T + off * nsum;
            Vec3 Qd = toD(Q); Q = toL(Qd);
            bool inside = (qi & 1) != 0; const bool poison = inside; int face = -12345; Vec2 uv(NaN, NaN);
            Vec3 P = mesh.findNearestPoint(Qd, inside, face, uv);
            if (ctx.wantDesc) { qd << "  nearest Q=(" << Qd[0] << "," << Qd[1] << "," << Qd[2] << ") -> P=(" << P[0] << "," << P[1] << "," << P[2] << ") inside=" << inside << " face=" << face << " uv=(" << uv[0] << "," << uv[1] << ")"; }
            LD best = 1e4000L; int bestF = -1, bestFeat = 0, nTie = 0; std::vector<LD> dAll(nf); for (int k = 0; k < nf; ++k) { Closest c = closestPtTri(Q, fc.A[k], fc.B[k], fc.C[k]); dAll[k] = c.d; if (c.d < best) { best = c.d; bestF = k; bestFeat = c.feature; } }
            bool r6 = false; for (int k = 0; k < nf && !r6; ++k) r6 = region6Site(Q, fc.A[k], fc.B[k], fc.C[k]);
            const bool r6excl = r6 && ctx.known("nearest-point-to-face-region6"); if (r6excl) ctx.label("excluded:region6"); else if (r6) ctx.label("region6-site-checked");
            for (int k = 0; k < nf; ++k) if (dAll[k] <= best * (1 + 1e-10L) + 1e4 * EPS * (L + norm(Q))) nTie++;     // faces (numerically) equally near: nearest point on a shared edge/vertex
            if (ctx.wantDesc) { qd << " brute: dist=" << (double)best << " face=" << bestF << " feature=" << bestFeat << "\n"; ctx.desc << qd.str(); }
            if (!ctx.check(face >= 0 && face < nf, "findNearestPoint returned face " + std::to_string(face))) return;
            if (!ctx.check(uv[0] >= -1e-12 && uv[1] >= -1e-12 && uv[0] + uv[1] <= 1 + 1e-12, "findNearestPoint returned uv outside the triangle: " + pbt::str(uv[0]) + "," + pbt::str(uv[1]))) return;
            LD Lq = L + norm(Q); LD d = norm(Q - toL(P));
            // the Eberly point-triangle routine loses eps/sin^2 for slivers (cancellation in a*c-b*b): tolerance scales with the mesh aspect
            LD tolD = 1e3 * EPS * Lq * (1 + fc.asp);
            calibLabel(ctx, "nearest-dist", (double)(std::fabs(d - best) / (EPS * Lq * (1 + fc.asp))));
            if (!r6excl && !ctx.check(std::fabs(d - best) <= tolD, "findNearestPoint: |Q-P| = " + pbt::str((double)d) + " but brute force over all faces finds distance " + pbt::str((double)best) + " (face " + std::to_string(bestF) + "), tolerance " + pbt::str((double)tolD))) return;
            V3 P2 = toL(mesh.findPoint(face, uv)); if (!ctx.check(norm(P2 - toL(P)) <= 1e3 * EPS * Lq, "findPoint(face,uv) differs from the returned nearest point by " + pbt::str((double)norm(P2 - toL(P))))) return;
            { Closest c = closestPtTri(toL(P), fc.A[face], fc.B[face], fc.C[face]); if (!ctx.check(c.d <= 1e3 * EPS * Lq, "returned nearest point is off its reported face by " + pbt::str((double)c.d))) return; }
            { Vec2 uv2(NaN, NaN); Vec3 Pf = mesh.findNearestPointToFace(Qd, bestF, uv2); LD df = norm(Q - toL(Pf)); if (!r6excl && !ctx.check(std::fabs(df - best) <= tolD, "findNearestPointToFace(brute-force face) gives distance " + pbt::str((double)df) + " vs " + pbt::str((double)best))) return; }
            // inside flag vs generalized winding number
            if (embedded && !r6excl) { LD band = 1e6 * EPS * Lq * (1 + fc.asp); if (best > band) { LD w = windingNumber(Q, fc.A, fc.B, fc.C); LD wr = std::floor(w + 0.5L);
                    // >= 2 faces equally near (nearest point on a shared edge/vertex): the library resolves such ties by comparing squared
                    // distances within a RELATIVE band of 100 eps, which can only work while the rounding noise of the distances
                    // (~eps*L/d relative) is below that band; nearer ties are numerically ambiguous for this algorithm and are not judged.
                    if (nTie >= 2 && best < 0.25L * Lq) { ctx.label("inside-skipped:near-surface-tie"); }
                    else if (std::fabs(w - wr) < 1e-6 && (wr == 0 || wr == 1)) { bool ref = wr == 1; ctx.label(nTie < 2 ? "inside-checked:face" : bestFeat == 2 ? "inside-checked:vertex" : "inside-checked:edge");
                        bool excluded = false;
                        // known finding: the leaf loop of OBBTreeNodeImpl::findNearestPoint applies its "which face faces the point best" tie-break
                        // only when the later face is NOT closer by rounding noise. Site predicate (input): >= 2 faces equally near.
                        if (nTie == 2 && ctx.known("inside-flag-tiebreak-leaf-asymmetric")) { ctx.label("excluded:inside-tie-edge"); excluded = true; }
                        // known finding: among >= 3 equally near faces (nearest point = vertex) the face with the largest |offset.normal| is
                        // taken, which can be a face pointing AWAY from the query (sharp vertices). Site predicate (input): >= 3 faces equally near.
                        if (nTie >= 3 && (ctx.known("inside-flag-vertex-absdot-heuristic") || ctx.known("inside-flag-tiebreak-leaf-asymmetric"))) { ctx.label("excluded:inside-tie-vertex"); excluded = true; }
                        if (!excluded && !ctx.check(inside == ref, std::string("findNearestPoint: inside=") + (inside ? "true" : "false") + " but the winding number of the mesh around Q is " + pbt::str((double)w) + " (nearest feature: " + (bestFeat == 0 ? "face interior" : bestFeat == 1 ? "edge" : "vertex") + ", distance " + pbt::str((double)best) + ")")) return; } }
                else { ctx.label("inside-skipped:on-surface"); (void)poison; } }
            { bool in2 = !inside; UnitVec3 nrm; Vec3 Pn = mesh.findNearestPoint(Qd, in2, nrm); if (!ctx.check((Pn - P).norm() == 0 && in2 == inside, "the two findNearestPoint overloads disagree")) return;
              if (!ctx.check(std::fabs(Vec3(nrm).norm() - 1) < 1e-12, "returned normal is not unit")) return;
              if (!smooth) { V3 n = cross(fc.B[face] - fc.A[face], fc.C[face] - fc.A[face]); n = (1 / norm(n)) * n; if (!ctx.check(norm(toL(Vec3(nrm)) - n) <= 1e3 * EPS * (1 + L / fc.hmin[face]), "returned normal is not the normal of the reported face")) return; } }
            if (bestFeat != 0 || nf >= 50) anyNT = anyNT || (nf >= 50 && bestFeat != 0);
            ctx.label(bestFeat == 0 ? "nearest:face-interior" : bestFeat == 1 ? "nearest:edge" : "nearest:vertex");
        } else {
            // ------------------------------------------------ ray
            V3 o, dir;
            if (kind == 4) { o = rnd; dir = T - o; } else if (kind == 5) { LD w = windingNumber(T + (-1e-3L * L) * nsum, fc.A, fc.B, fc.C); (void)w; o = T + (neg ? -1 : 1) * std::fabs(off) * nsum + 0.3L * std::fabs(off) * V3{(LD)d3[0], (LD)d3[1], (LD)d3[2]}; dir = T - o; }
            else if (kind == 6) { o = rnd; dir = {(LD)d3[0], (LD)d3[1], (LD)d3[2]}; }
            else { V3 n = cross(fc.B[f] - fc.A[f], fc.C[f] - fc.A[f]); n = (1 / norm(n)) * n; V3 tg = cross(n, V3{(LD)d3[0], (LD)d3[1], (LD)d3[2]}); if (!(norm(tg) > 1e-3)) tg = cross(n, V3{n.y, n.z, n.x}); tg = (1 / norm(tg)) * tg; o = T + (-(LD)bsR * (LD)(0.5 + b0)) * tg + (zeroOff ? 0 : off * 1e-3L) * n; dir = tg; }
            if (!(norm(dir) > 1e-300L)) dir = {0, 0, 1}; if (r.chance(1, 12)) dir = -1.0L * dir;
            Vec3 od = toD(o); UnitVec3 dd(toD(dir)); o = toL(od); dir = toL(Vec3(dd));
            Real dist = -777.25; int face = -12345; Vec2 uv(-5, -5);
            bool hit = mesh.intersectsRay(od, dd, dist, face, uv);
            // brute force
            LD Lq = L + norm(o); LD tDef = 1e4000L, tPos = 1e4000L; int nDef = 0, nPos = 0; bool grazing = false; bool matched = false; LD matchErr = 1e4000L;
            for (int k = 0; k < nf; ++k) { RayHit hh = rayTri(o, dir, fc.A[k], fc.B[k], fc.C[k]);
                LD reach = fc.emax[k];
                if (hh.parallel || hh.cosang < 1e-7L) { V3 cen = (1.0L / 3) * (fc.A[k] + fc.B[k] + fc.C[k]); if (distPointLine(cen, o, dir) <= reach * 1.0001L + 1e-9L * Lq) grazing = true; continue; }
                LD Lt = Lq + std::fabs(hh.t); LD db = 1e4 * EPS * Lt / fc.hmin[k] / hh.cosang; LD tolT = 1e2 * EPS * Lt * (1 + fc.emax[k] / fc.hmin[k]) / hh.cosang;
                if (db > 0.05L) { if (distPointLine((1.0L / 3) * (fc.A[k] + fc.B[k] + fc.C[k]), o, dir) <= reach * 1.0001L) grazing = true; continue; }
                bool pos = hh.u >= -db && hh.v >= -db && hh.w >= -db && hh.t >= -tolT; bool def = hh.u >= db && hh.v >= db && hh.w >= db && hh.t >= tolT;
                if (pos) { nPos++; tPos = std::min(tPos, hh.t - tolT); if (hit) { LD e = std::fabs((LD)dist - hh.t); if (e <= tolT) matched = true; matchErr = std::min(matchErr, e / tolT); } }
                if (def) { nDef++; tDef = std::min(tDef, hh.t + tolT); } }
            if (ctx.wantDesc) { qd << "  ray o=(" << od[0] << "," << od[1] << "," << od[2] << ") d=(" << dd[0] << "," << dd[1] << "," << dd[2] << ") -> hit=" << hit << " dist=" << dist << " face=" << face << " uv=(" << uv[0] << "," << uv[1] << ") brute: definite=" << nDef << " possible=" << nPos << " firstDefinite<=" << (double)tDef << (grazing ? " grazing" : "") << "\n"; ctx.desc << qd.str(); }
            if (hit) {
                if (!ctx.check(face >= 0 && face < nf && dist >= 0, "intersectsRay returned face " + std::to_string(face) + " distance " + pbt::str(dist))) return;
                if (!ctx.check(uv[0] >= -1e-9 && uv[1] >= -1e-9 && uv[0] + uv[1] <= 1 + 1e-9, "intersectsRay returned uv outside the triangle")) return;
                // validity of the reported hit: the point is on the ray and on the reported face
                V3 X = o + (LD)dist * dir; RayHit hh = rayTri(o, dir, fc.A[face], fc.B[face], fc.C[face]); LD tolX = 1e4 * EPS * (Lq + dist) * (1 + fc.emax[face] / fc.hmin[face]) / std::max(hh.cosang, 1e-12L);
                Closest c = closestPtTri(X, fc.A[face], fc.B[face], fc.C[face]); if (!ctx.check(c.d <= tolX, "intersectsRay: origin+distance*direction is off the reported face by " + pbt::str((double)c.d) + " (tolerance " + pbt::str((double)tolX) + ")")) return;
                V3 X2 = toL(mesh.findPoint(face, uv)); if (!ctx.check(norm(X2 - X) <= tolX, "intersectsRay: findPoint(face,uv) differs from the hit point by " + pbt::str((double)norm(X2 - X)))) return;
                if (!grazing) { calibLabel(ctx, "ray-dist", (double)matchErr); if (!ctx.check(matched, "intersectsRay distance " + pbt::str(dist) + " matches no brute-force ray/triangle intersection")) return; }
                if (!ctx.check(nDef == 0 || (LD)dist <= tDef, "intersectsRay distance " + pbt::str(dist) + " but brute force finds an earlier definite hit at t <= " + pbt::str((double)tDef))) return;
                UnitVec3 nn(1, 0, 0); Real d2 = -1; bool h2 = mesh.intersectsRay(od, dd, d2, nn); if (!ctx.check(h2 && d2 == dist, "the two intersectsRay overloads disagree")) return;
            } else {
                if (!ctx.check(dist == -777.25 && face == -12345 && uv[0] == -5, "intersectsRay returned false but modified its outputs (documented: left unchanged)")) return;
                if (!ctx.check(nDef == 0, "intersectsRay reports no hit but brute force finds " + std::to_string(nDef) + " definite hit(s), first at t <= " + pbt::str((double)tDef))) return;
            }
            ctx.label(grazing ? "ray:grazing" : nDef == 0 ? (nPos ? "ray:marginal-only" : "ray:miss") : nDef == 1 ? "ray:1-hit" : "ray:>=2-hits");
            if (nf >= 50 && nDef >= 2) anyNT = true;
        }
    }
    ctx.nontrivial(anyNT);
}

void property(const pbt::Tape& t, pbt::Ctx& ctx) {
    int m = pbt::Reader(t[0]).pick(8);
    if (m <= 3) queryMode(t, ctx); else if (m <= 5) fileMode(t, ctx); else cloudMode(t, ctx);
}

pbt::Config config() {
    pbt::Config c; c.prop = "C36"; c.K = 24; c.minUnits = 2; c.maxShrinkSecs = 20;
    c.quick = {1500, 6000, 40, 25}; c.thorough = {8000, 60000, 60, 150};
    c.rule = "tape -> mode {mesh queries 1/2, file round trip 1/4, point cloud 1/4}; meshes: tetra/octasphere(8..512 faces)/icosphere(20..320)/box grid/torus/prism/two components with radial noise <=45%, anisotropic squash to 1e-3, rigid motion, scale 1e-2..1e2; each further tape unit = one nearest-point or ray query (targets on faces, edges, vertices, offsets 1e-9..2 mesh sizes) or one cloud point. Non-trivial: query mode: mesh >= 50 faces and a nearest point on an edge/vertex or a ray through >= 2 faces; file mode: >= 8 faces with a syntactic variation; cloud: >= 5 non-coincident points.";
    c.assumptions = {"long double brute force over all faces is the reference", "inside/outside reference = generalized winding number; generated meshes are star-shaped about a centre (or tube-star-shaped tori), hence embedded", "domain: |coordinates| <= ~2e3, mesh scale 1e-2..1e2 (the OBB code uses absolute tolerances 1e-10)", "malformed files are outside the property: only files produced by the harness's own writer are loaded"};
    c.directed.push_back({"tetra-outside-point-reported-inside", "inside-flag-tiebreak-leaf-asymmetric", [](pbt::Ctx& ctx) {
        Array_<Vec3> V; V.push_back(Vec3(-1.3660273200171118, -0.36601825223186302, 1)); V.push_back(Vec3(-0.36601825223186302, 1.3660273200171118, -1)); V.push_back(Vec3(0.36601825223186302, -1.3660273200171118, -1)); V.push_back(Vec3(1.3660273200171118, 0.36601825223186302, 1));
        int F[12] = {0,1,2, 0,3,1, 0,2,3, 1,3,2}; Array_<int> I(F, F + 12); ContactGeometry::TriangleMesh m(V, I);
        Vec3 Q(-2.0000000157226969, 1.2328230420521271, -1.9323562182792939); bool in = false; int face = -1; Vec2 uv; Vec3 P = m.findNearestPoint(Q, in, face, uv);
        ctx.desc << "regular tetrahedron (circumradius 1.73), Q=(-2.0000000157,1.2328230421,-1.9323562183) at distance 1.886 outside, nearest point = vertex 1; findNearestPoint says inside=" << in << " face=" << face << " P=(" << P[0] << "," << P[1] << "," << P[2] << ")\n";
        ctx.check(!in, "findNearestPoint reports inside=true for a point 1.886 outside a convex tetrahedron (nearest point is a vertex; face 3, which faces away, replaced face 0 because its squared distance is 1 ulp smaller)");
    }});
    c.directed.push_back({"needle-octahedron-tip", "inside-flag-vertex-absdot-heuristic", [](pbt::Ctx& ctx) {
        Array_<Vec3> V; V.push_back(Vec3(49.496713370100629, 0, 0)); V.push_back(Vec3(-50.464054258025591, 0, 0)); V.push_back(Vec3(0, 0.9003782223805461, -0.44502644626064952)); V.push_back(Vec3(0, -0.90157596173325094, 0.44561844823763153));
        V.push_back(Vec3(0, 0.44691369265280251, 0.90419650231882542)); V.push_back(Vec3(0, -0.4407923020174041, -0.89181169493241486));
        int F[24] = {0,2,4, 2,1,4, 1,3,4, 3,0,4, 2,0,5, 1,2,5, 3,1,5, 0,3,5}; Array_<int> I(F, F + 24); ContactGeometry::TriangleMesh m(V, I);
        Vec3 Q(-66.337681846488778, 37.086534782274704, 74.97057572109469); bool in = false; int face = -1; Vec2 uv; m.findNearestPoint(Q, in, face, uv);
        ctx.desc << "needle-shaped octahedron (length 100, width 2), Q=(-66.34,37.09,74.97) 85 away from the tip (-50.46,0,0): findNearestPoint says inside=" << in << " face=" << face << "\n";
        ctx.check(!in, "findNearestPoint reports inside=true for a point 85 outside a convex needle-shaped octahedron (nearest point = tip vertex; the face with the largest |offset.normal| faces away from the query)");
    }});
    c.directed.push_back({"obj-second-file-appended", "obj-append-indices-not-offset", [](pbt::Ctx& ctx) {
        PolygonalMesh pm; std::istringstream a("v 0 0 0\nv 1 0 0\nv 0 1 0\nf 1 2 3\n"), b("v 5 0 0\nv 6 0 0\nv 5 1 0\nf 1 2 3\n"); pm.loadObjFile(a); pm.loadObjFile(b);
        ctx.desc << "two OBJ streams (3 vertices + face '1 2 3' each) loaded into one PolygonalMesh: second face refers to vertices " << pm.getFaceVertex(1, 0) << "," << pm.getFaceVertex(1, 1) << "," << pm.getFaceVertex(1, 2) << " (expected 3,4,5)\n";
        ctx.check(pm.getNumVertices() == 6 && pm.getFaceVertex(1, 0) == 3 && pm.getFaceVertex(1, 1) == 4 && pm.getFaceVertex(1, 2) == 5, "loadObjFile into a non-empty mesh: the new face refers to the OLD vertices (indices not offset by the vertices already present)");
    }});
    c.directed.push_back({"vtp-second-file-appended", "vtp-append-indices-not-offset", [](pbt::Ctx& ctx) {
        GenMesh m; m.V = {Vec3(0,0,0), Vec3(1,0,0), Vec3(0,1,0)}; m.F = {{0,1,2}}; FileVar fv; fv.fmt = 1; GenMesh m2 = m; for (auto& v : m2.V) v += Vec3(5, 0, 0);
        TmpFile f1(writeMesh(m, fv), ".vtp", 2), f2(writeMesh(m2, fv), ".vtp", 3); PolygonalMesh pm; pm.loadVtpFile(f1.path); pm.loadVtpFile(f2.path);
        ctx.desc << "two VTP files (3 points + one triangle each) loaded into one PolygonalMesh: second face refers to vertices " << pm.getFaceVertex(1, 0) << "," << pm.getFaceVertex(1, 1) << "," << pm.getFaceVertex(1, 2) << " (expected 3,4,5)\n";
        ctx.check(pm.getNumVertices() == 6 && pm.getFaceVertex(1, 0) == 3 && pm.getFaceVertex(1, 1) == 4 && pm.getFaceVertex(1, 2) == 5, "loadVtpFile into a non-empty mesh: the new face refers to the OLD vertices (connectivity not offset by the vertices already present)");
    }});
    c.directed.push_back({"geo-obb-two-points", "geo-obb-stretch-insufficient", [](pbt::Ctx& ctx) {
        Array_<Vec3> A; A.push_back(Vec3(-34.029547689255992, -32.527183815673723, 11.354330453084986)); A.push_back(Vec3(-31.550109510941102, -31.590755582501188, 9.0463443994727513));
        Array_<int> sup; Geo::OrientedBox ob = Geo::Point::calcOrientedBoundingBox(A, sup, false); bool c0 = ob.containsPoint(A[0]), c1 = ob.containsPoint(A[1]);
        ctx.desc << "Geo::Point::calcOrientedBoundingBox of 2 points (-34.03,-32.53,11.35),(-31.55,-31.59,9.05): containsPoint = " << c0 << "," << c1 << " half lengths " << ob.getHalfLengths() << "\n";
        ctx.check(c0 && c1, "the oriented bounding box of two points does not contain one of them (containsPoint false): roundoff stretch too small for a zero-extent box");
    }});
    c.directed.push_back({"point-triangle-region6", "nearest-point-to-face-region6", [](pbt::Ctx& ctx) {
        Array_<Vec3> V; V.push_back(Vec3(0, 0, 0)); V.push_back(Vec3(1, 0, 0)); V.push_back(Vec3(2, 1, 0)); V.push_back(Vec3(1, 0.3, -1));
        int F[12] = {0,1,2, 0,3,1, 1,3,2, 2,3,0}; Array_<int> I(F, F + 12); ContactGeometry::TriangleMesh m(V, I);
        Vec3 q(0.9175481636980658, -2.8225502161985574, 0); Vec2 uv; Vec3 p = m.findNearestPointToFace(q, 0, uv); double dl = (p - q).norm();
        double ex = (double)closestPtTri(toL(q), toL(V[0]), toL(V[1]), toL(V[2])).d;
        ctx.desc << "findNearestPointToFace(q=(0.91755,-2.82255,0), face (0,0,0),(1,0,0),(2,1,0)) returns (" << p[0] << "," << p[1] << "," << p[2] << ") at distance " << dl << "; the nearest point of the face is (0.91755,0,0) at distance " << ex << "\n";
        ctx.check(std::fabs(dl - ex) < 1e-12, "findNearestPointToFace returns a point at distance " + pbt::str(dl) + " although the face has a point at distance " + pbt::str(ex) + " (Eberly region 6 tests the sign of e instead of d)");
    }});
    c.requiredLabels = {"route:arrays", "route:polygonalmesh", "route:file", "nearest:edge", "nearest:vertex", "inside-checked:edge", "ray:>=2-hits", "ray:miss", "file:obj", "file:vtp", "file:stl-ascii", "file:stl-binary", "cloud:coplanar", "cloud:collinear", "obb:multi-leaf", "aspect>=1e3(slivers)"};
    return c;
}
} // namespace

#ifndef C36_NO_MAIN
PBT_MAIN(config(), property)
#endif
