// C06 -- Physics is independent of the chosen representation (DESIGN.md 5, C06).
// Four metamorphic sub-properties over mbgen trees (1..5 bodies), selected by a word of the global segment:
//  (a) convert: SimbodyMatterSubsystem::convertToEulerAngles / convertToQuaternions of a state keeps u, body poses, body
//      velocities and -- under identical applied forces -- udot, body accelerations, reaction forces; converting back gives
//      the same coordinates (quaternion up to sign/normalisation).
//  (b) mirror: built-in mobilizers replaced by MobilizedBody::FunctionBased (Pin, Slider, Universal, Cylinder, Planar,
//      Translation, Gimbal, Bushing; forward and reversed) or hand-written MobilizedBody::Custom (Pin, Slider, quaternion
//      Ball with qdot != u) mirrors: same q,u => same poses, velocities, M, qdot, udot, accelerations, reactions.
//  (c) reverse: one mobilizer replaced by the reversed mobilizer of the same type between the same frames (types whose set
//      of relative motions is closed under inversion); coordinates mapped with setQToFitTransform / setUToFitVelocity
//      (validated by C05); same spatial forces, no mobility force on that joint => same body accelerations, reactions,
//      kinetic energy, and same udot on all other joints.
//  (d) relocate: every base body's inboard frame pre-multiplied by a rigid X, gravity and Ground-frame body forces rotated
//      => poses X*X_GB, velocities/accelerations/reactions rotated, M, udot, kinetic energy unchanged.
#include "pbt.h"
#include "mbgen.h"
#include "refmob.h"
#include "refdyn.h"
using namespace SimTK;

namespace {
const int K6 = mbgen::K + 4;     // word 52: mirror choice, 53: spare
const Real Eps = 2.220446049250313e-16;
std::string S(double a) { return pbt::str(a); }
struct Rng { uint64_t s; double next() { s += 0x9E3779B97F4A7C15ull; uint64_t z = s; z = (z ^ (z >> 30)) * 0xBF58476D1CE4E5B9ull; z = (z ^ (z >> 27)) * 0x94D049BB133111EBull; z ^= z >> 31; return (z >> 11) / 9007199254740992.0 * 2 - 1; } };

// ------------------------------------------------------------------------------------------------ user-defined mirrors
class ConstFn : public Function { public:
    Real calcValue(const Vector&) const override { return 0; }
    Real calcDerivative(const Array_<int>&, const Vector&) const override { return 0; }
    int getArgumentSize() const override { return 0; } int getMaxDerivativeOrder() const override { return 10; } };
class IdentFn : public Function { public:
    Real calcValue(const Vector& x) const override { return x[0]; }
    Real calcDerivative(const Array_<int>& d, const Vector&) const override { return d.size() == 1 ? 1.0 : 0.0; }
    int getArgumentSize() const override { return 1; } int getMaxDerivativeOrder() const override { return 10; } };

// a + b*x
class LinFn : public Function { Real a, b; public:
    LinFn(Real slope, Real intercept) : a(intercept), b(slope) {}
    Real calcValue(const Vector& x) const override { return a + b * x[0]; }
    Real calcDerivative(const Array_<int>& d, const Vector&) const override { return d.size() == 1 ? b : 0.0; }
    int getArgumentSize() const override { return 1; } int getMaxDerivativeOrder() const override { return 10; } };
// coef * prod_i T_i(s_i x_i + o_i), T in {1, identity, cos, sin}: multi-argument functions with non-zero MIXED second partials
class TrigProdFn : public Function { public:
    struct Fac { int kind; Real s, o; };   // kind 0: 1; 1: s*x+o; 2: cos(s*x+o); 3: sin(s*x+o)
    TrigProdFn(Real c, std::initializer_list<Fac> fl) : coef(c), f(fl) {}
    static Real dn(const Fac& k, Real x, int n) {
        const Real a = k.s * x + k.o; Real sn = 1; for (int i = 0; i < n; ++i) sn *= k.s;
        switch (k.kind) {
            case 0: return n == 0 ? 1.0 : 0.0;
            case 1: return n == 0 ? a : n == 1 ? k.s : 0.0;
            case 2: { int m = n % 4; return sn * (m == 0 ? std::cos(a) : m == 1 ? -std::sin(a) : m == 2 ? -std::cos(a) : std::sin(a)); }
            default: { int m = n % 4; return sn * (m == 0 ? std::sin(a) : m == 1 ? std::cos(a) : m == 2 ? -std::sin(a) : -std::cos(a)); }
        } }
    Real calcValue(const Vector& x) const override { Real v = coef; for (size_t i = 0; i < f.size(); ++i) v *= dn(f[i], x[(int)i], 0); return v; }
    Real calcDerivative(const Array_<int>& d, const Vector& x) const override {
        std::vector<int> n(f.size(), 0); for (int i = 0; i < (int)d.size(); ++i) n[d[i]]++;
        Real v = coef; for (size_t i = 0; i < f.size(); ++i) v *= dn(f[i], x[(int)i], n[i]); return v; }
    int getArgumentSize() const override { return (int)f.size(); } int getMaxDerivativeOrder() const override { return 10; }
private: Real coef; std::vector<Fac> f; };
// c0 + lin.x + sum_t a_t sin(w_t.x + c_t) + sum_p b_p (l1_p.x)(l2_p.x): generated smooth multi-argument function, analytic partials of any order
struct GenSpec { int n = 0; Real c0 = 0; std::vector<Real> lin; struct ST { Real a, c; std::vector<Real> w; }; struct PT { Real b; std::vector<Real> l1, l2; }; std::vector<ST> st; std::vector<PT> pt; };
class GenFn : public Function { GenSpec g; public:
    explicit GenFn(const GenSpec& gs) : g(gs) {}
    static Real dotv(const std::vector<Real>& a, const Vector& x) { Real v = 0; for (size_t i = 0; i < a.size(); ++i) v += a[i] * x[(int)i]; return v; }
    Real calcValue(const Vector& x) const override {
        Real v = g.c0 + dotv(g.lin, x); for (auto& t : g.st) v += t.a * std::sin(dotv(t.w, x) + t.c); for (auto& p : g.pt) v += p.b * dotv(p.l1, x) * dotv(p.l2, x); return v; }
    Real calcDerivative(const Array_<int>& d, const Vector& x) const override {
        const int m = (int)d.size(); Real v = 0;
        if (m == 1) v += g.lin[d[0]];
        for (auto& t : g.st) { Real ph = dotv(t.w, x) + t.c, c = t.a; for (int i = 0; i < m; ++i) c *= t.w[d[i]];
            int k = m % 4; v += c * (k == 0 ? std::sin(ph) : k == 1 ? std::cos(ph) : k == 2 ? -std::sin(ph) : -std::cos(ph)); }
        for (auto& p : g.pt) { if (m == 1) v += p.b * (p.l1[d[0]] * dotv(p.l2, x) + dotv(p.l1, x) * p.l2[d[0]]); else if (m == 2) v += p.b * (p.l1[d[0]] * p.l2[d[1]] + p.l1[d[1]] * p.l2[d[0]]); }
        return v; }
    int getArgumentSize() const override { return g.n; } int getMaxDerivativeOrder() const override { return 10; } };
// g(q') = f(A q'): the same spatial-coordinate function in re-parameterised coordinates q = A q' (chain rule, any order)
class ComposeFn : public Function { const Function* f; int n; std::vector<Real> A; public:
    ComposeFn(const Function* inner, int nn, const std::vector<Real>& a) : f(inner), n(nn), A(a) {}
    ~ComposeFn() { delete f; }
    Vector inner(const Vector& qp) const { Vector x(n); for (int i = 0; i < n; ++i) { x[i] = 0; for (int j = 0; j < n; ++j) x[i] += A[i * n + j] * qp[j]; } return x; }
    Real calcValue(const Vector& qp) const override { return f->calcValue(inner(qp)); }
    Real calcDerivative(const Array_<int>& d, const Vector& qp) const override {
        const int m = (int)d.size(); const Vector x = inner(qp); Array_<int> a(m, 0); Real v = 0;
        for (;;) {   // all index tuples a in {0..n-1}^m
            Real c = 1; for (int i = 0; i < m; ++i) c *= A[a[i] * n + d[i]];
            if (c != 0) v += c * f->calcDerivative(a, x);
            int i = 0; while (i < m && ++a[i] == n) { a[i] = 0; ++i; } if (i == m) break;
        }
        return v; }
    int getArgumentSize() const override { return n; } int getMaxDerivativeOrder() const override { return 10; } };

// which of the six spatial coordinates (rx,ry,rz,tx,ty,tz) is driven by which q, for the FunctionBased mirror of a built-in
bool functionBasedMap(int type, int map[6], int& nm) {
    using namespace mbgen; for (int k = 0; k < 6; ++k) map[k] = -1;
    switch (type) {
        case Pin: map[2] = 0; nm = 1; return true;
        case Slider: map[3] = 0; nm = 1; return true;
        case Universal: map[0] = 0; map[1] = 1; nm = 2; return true;
        case Cylinder: map[2] = 0; map[5] = 1; nm = 2; return true;
        case Planar: map[2] = 0; map[3] = 1; map[4] = 2; nm = 3; return true;
        case Translation: map[3] = 0; map[4] = 1; map[5] = 2; nm = 3; return true;
        case Gimbal: map[0] = 0; map[1] = 1; map[2] = 2; nm = 3; return true;
        case Bushing: for (int k = 0; k < 6; ++k) map[k] = k; nm = 6; return true;
        default: nm = 0; return false;
    }
}
// mirrors that need functions of SEVERAL coordinates (BendStretch, SphericalCoords: non-zero mixed second partials) or non-identity
// single-argument functions (Screw, CantileverFreeBeam)
bool multiArgMirror(int t) { using namespace mbgen; return t == BendStretch || t == SphericalCoords || t == CantileverFreeBeam || t == Screw; }
MobilizedBody makeMultiArgFunctionBased(MobilizedBody& par, const mbgen::BodySpec& b, const Body& body) {
    using namespace mbgen; typedef TrigProdFn::Fac Fac;
    std::vector<const Function*> fn(6, (const Function*)nullptr); std::vector<std::vector<int>> idx(6); int nm = 0;
    MobilizedBody::Direction dir = b.reversed ? MobilizedBody::Reverse : MobilizedBody::Forward;
    auto fill = [&]() { for (int k = 0; k < 6; ++k) if (!fn[k]) fn[k] = new ConstFn(); };
    if (b.type == BendStretch) {          // R = Rz(q0); p = Rz(q0)(q1,0,0) = (q1 cos q0, q1 sin q0, 0)
        nm = 2; fn[2] = new IdentFn(); idx[2] = {0};
        fn[3] = new TrigProdFn(1, {Fac{2, 1, 0}, Fac{1, 1, 0}}); idx[3] = {0, 1};
        fn[4] = new TrigProdFn(1, {Fac{3, 1, 0}, Fac{1, 1, 0}}); idx[4] = {0, 1};
    } else if (b.type == Screw) {         // R = Rz(q); p = (0,0,pitch q)
        nm = 1; fn[2] = new IdentFn(); idx[2] = {0}; fn[5] = new LinFn(b.pitch, 0); idx[5] = {0};
    } else if (b.type == CantileverFreeBeam) {   // body-fixed XYZ angles; p = (2/3 q1 L, -2/3 q0 L, L - 4/15 (q0^2+q1^2) L)
        nm = 3; const Real L = b.beamLen; for (int k = 0; k < 3; ++k) { fn[k] = new IdentFn(); idx[k] = {k}; }
        fn[3] = new LinFn(2.0 / 3 * L, 0); idx[3] = {1}; fn[4] = new LinFn(-2.0 / 3 * L, 0); idx[4] = {0};
        GenSpec gz; gz.n = 2; gz.c0 = L; gz.lin = {0, 0}; gz.pt.push_back({-4.0 / 15 * L, {1, 0}, {1, 0}}); gz.pt.push_back({-4.0 / 15 * L, {0, 1}, {0, 1}});
        fn[5] = new GenFn(gz); idx[5] = {0, 1};
    } else {                              // SphericalCoords: R = Rz(az) Ry(ze), p = R * (rad * axis): rotation axes (z, y, x)
        nm = 3; const Real s0 = b.negAz ? -1 : 1, s1 = b.negZe ? -1 : 1, s2 = b.negRad ? -1 : 1;
        fn[0] = new LinFn(s0, b.az0); idx[0] = {0}; fn[1] = new LinFn(s1, b.ze0); idx[1] = {1};
        const Fac caz{2, s0, b.az0}, saz{3, s0, b.az0}, cze{2, s1, b.ze0}, sze{3, s1, b.ze0}, r{1, s2, 0}, one{0, 1, 0};
        if (b.radAxis == 0) { fn[3] = new TrigProdFn(1, {caz, cze, r}); fn[4] = new TrigProdFn(1, {saz, cze, r}); fn[5] = new TrigProdFn(-1, {one, sze, r}); }
        else               { fn[3] = new TrigProdFn(1, {caz, sze, r}); fn[4] = new TrigProdFn(1, {saz, sze, r}); fn[5] = new TrigProdFn(1, {one, cze, r}); }
        for (int k = 3; k < 6; ++k) idx[k] = {0, 1, 2};
        fill();
        std::vector<Vec3> axes = {Vec3(0, 0, 1), Vec3(0, 1, 0), Vec3(1, 0, 0), Vec3(1, 0, 0), Vec3(0, 1, 0), Vec3(0, 0, 1)};
        return MobilizedBody::FunctionBased(par, b.X_PF, body, b.X_BM, nm, fn, idx, axes, dir);
    }
    fill();
    return MobilizedBody::FunctionBased(par, b.X_PF, body, b.X_BM, nm, fn, idx, dir);
}
MobilizedBody makeFunctionBased(MobilizedBody& par, const mbgen::BodySpec& b, const Body& body) {
    if (multiArgMirror(b.type)) return makeMultiArgFunctionBased(par, b, body);
    int map[6], nm; functionBasedMap(b.type, map, nm);
    std::vector<const Function*> fn; std::vector<std::vector<int>> idx;
    for (int k = 0; k < 6; ++k) { if (map[k] >= 0) { fn.push_back(new IdentFn()); idx.push_back(std::vector<int>(1, map[k])); } else { fn.push_back(new ConstFn()); idx.push_back(std::vector<int>()); } }
    return MobilizedBody::FunctionBased(par, b.X_PF, body, b.X_BM, nm, fn, idx, b.reversed ? MobilizedBody::Reverse : MobilizedBody::Forward);
}
// hand-written Custom mirrors -------------------------------------------------------------------------
class CustomPin : public MobilizedBody::Custom::Implementation { public:
    explicit CustomPin(SimbodyMatterSubsystem& m) : Implementation(m, 1, 1, 0) {}
    Implementation* clone() const override { return new CustomPin(*this); }
    Transform calcMobilizerTransformFromQ(const State&, int, const Real* q) const override { return Transform(Rotation(q[0], ZAxis), Vec3(0)); }
    SpatialVec multiplyByHMatrix(const State&, int, const Real* u) const override { return SpatialVec(Vec3(0, 0, u[0]), Vec3(0)); }
    void multiplyByHTranspose(const State&, const SpatialVec& F, int, Real* f) const override { f[0] = F[0][2]; }
    SpatialVec multiplyByHDotMatrix(const State&, int, const Real*) const override { return SpatialVec(Vec3(0), Vec3(0)); }
    void multiplyByHDotTranspose(const State&, const SpatialVec&, int, Real* f) const override { f[0] = 0; } };
class CustomSlider : public MobilizedBody::Custom::Implementation { public:
    explicit CustomSlider(SimbodyMatterSubsystem& m) : Implementation(m, 1, 1, 0) {}
    Implementation* clone() const override { return new CustomSlider(*this); }
    Transform calcMobilizerTransformFromQ(const State&, int, const Real* q) const override { return Transform(Vec3(q[0], 0, 0)); }
    SpatialVec multiplyByHMatrix(const State&, int, const Real* u) const override { return SpatialVec(Vec3(0), Vec3(u[0], 0, 0)); }
    void multiplyByHTranspose(const State&, const SpatialVec& F, int, Real* f) const override { f[0] = F[1][0]; }
    SpatialVec multiplyByHDotMatrix(const State&, int, const Real*) const override { return SpatialVec(Vec3(0), Vec3(0)); }
    void multiplyByHDotTranspose(const State&, const SpatialVec&, int, Real* f) const override { f[0] = 0; } };
// Ball with a quaternion: qdot = N(q) u != u. N written out here (q = (w,x,y,z), u = w_FM in F): qdot = 1/2 [ -v' ; w I - [v]x ]' ...
class CustomBall : public MobilizedBody::Custom::Implementation { public:
    explicit CustomBall(SimbodyMatterSubsystem& m) : Implementation(m, 3, 4, 4) {}
    Implementation* clone() const override { return new CustomBall(*this); }
    static Mat43 N(const Vec4& q) {   // qdot = N u for angular velocity expressed in the parent (F) frame
        return Mat43(-q[1], -q[2], -q[3],
                      q[0],  q[3], -q[2],
                     -q[3],  q[0],  q[1],
                      q[2], -q[1],  q[0]) * 0.5; }
    Transform calcMobilizerTransformFromQ(const State&, int nq, const Real* q) const override {
        SimTK_ASSERT_ALWAYS(nq == 4, "CustomBall is only used in quaternion mode");
        return Transform(Rotation(refmob::Rquat(Vec4::getAs(q)), true), Vec3(0)); }
    SpatialVec multiplyByHMatrix(const State&, int, const Real* u) const override { return SpatialVec(Vec3::getAs(u), Vec3(0)); }
    void multiplyByHTranspose(const State&, const SpatialVec& F, int, Real* f) const override { Vec3::updAs(f) = F[0]; }
    SpatialVec multiplyByHDotMatrix(const State&, int, const Real*) const override { return SpatialVec(Vec3(0), Vec3(0)); }
    void multiplyByHDotTranspose(const State&, const SpatialVec&, int, Real* f) const override { Vec3::updAs(f) = Vec3(0); }
    void multiplyByN(const State& s, bool transposeMatrix, int nIn, const Real* in, int nOut, Real* out) const override {
        const Vector q = getQ(s); const Mat43 n = N(Vec4::getAs(&q[0]));
        if (transposeMatrix) Row3::updAs(out) = Row4::getAs(in) * n; else Vec4::updAs(out) = n * Vec3::getAs(in); }
    void multiplyByNInv(const State& s, bool transposeMatrix, int nIn, const Real* in, int nOut, Real* out) const override {
        const Vector q = getQ(s); const Vec4& qq = Vec4::getAs(&q[0]); const Mat34 ni = 4 * ~N(qq);     // NInv = 4 N' (gives |q|^2 I on N, as the built-in)
        if (transposeMatrix) Row4::updAs(out) = Row3::getAs(in) * ni; else Vec3::updAs(out) = ni * Vec4::getAs(in); }
    void multiplyByNDot(const State& s, bool transposeMatrix, int nIn, const Real* in, int nOut, Real* out) const override {
        const Vector q = getQ(s), u = getU(s); const Vec4 qd = N(Vec4::getAs(&q[0])) * Vec3::getAs(&u[0]); const Mat43 nd = N(qd);   // N is linear in q
        if (transposeMatrix) Row3::updAs(out) = Row4::getAs(in) * nd; else Vec4::updAs(out) = nd * Vec3::getAs(in); } };

enum Mirror { NoMirror = 0, MirrorFB, MirrorCustom };
Mirror chooseMirror(const mbgen::BodySpec& b, bool euler, uint32_t w) {
    int map[6], nm; bool fb = functionBasedMap(b.type, map, nm) || multiArgMirror(b.type);
    bool cu = (b.type == mbgen::Pin || b.type == mbgen::Slider || (b.type == mbgen::Ball && !euler));
    int c = w % 4;           // 0 -> keep the built-in
    if (c == 0) return NoMirror;
    if (cu && (c == 1 || !fb)) return MirrorCustom;
    if (fb) return MirrorFB;
    return NoMirror;
}
MobilizedBody makeMirror(SimbodyMatterSubsystem& matter, MobilizedBody& par, const mbgen::BodySpec& b, const Body& body, Mirror mir) {
    MobilizedBody::Direction d = b.reversed ? MobilizedBody::Reverse : MobilizedBody::Forward;
    if (mir == MirrorFB) return makeFunctionBased(par, b, body);
    if (mir == MirrorCustom) {
        MobilizedBody::Custom::Implementation* impl = b.type == mbgen::Pin ? (MobilizedBody::Custom::Implementation*)new CustomPin(matter) : b.type == mbgen::Slider ? (MobilizedBody::Custom::Implementation*)new CustomSlider(matter) : new CustomBall(matter);
        return MobilizedBody::Custom(par, impl, b.X_PF, body, b.X_BM, d);
    }
    return mbgen::Built::makeMobilizer(par, b, body);
}

// ------------------------------------------------------------------------------------------------ systems and observables
struct Sys {
    mbgen::Built m; std::unique_ptr<Force::DiscreteForces> df;
    typedef std::function<bool(int, MobilizedBody&, const mbgen::BodySpec&, const Body&, MobilizedBody&)> Factory;   // returns true if it built body i
    Sys(const mbgen::ModelSpec& spec, const Vec3& gravity, const std::vector<Mirror>* mir = nullptr, const Factory* fac = nullptr) {
        m.mb.push_back(m.matter.Ground());
        for (size_t i = 0; i < spec.bodies.size(); ++i) { const mbgen::BodySpec& b = spec.bodies[i]; Body::Rigid body(b.massProps());
            MobilizedBody made; if (fac && (*fac)((int)i, m.mb[b.parent], b, body, made)) { m.mb.push_back(made); continue; }
            m.mb.push_back(makeMirror(m.matter, m.mb[b.parent], b, body, mir ? (*mir)[i] : NoMirror)); }
        df.reset(new Force::DiscreteForces(m.forces, m.matter));
        Force::UniformGravity(m.forces, m.matter, gravity);
        m.finish(spec);
    }
    void applyForces(State& s, const Vector_<SpatialVec>& F, const Vector& f) const { df->setAllBodyForces(s, F); df->setAllMobilityForces(s, f); }
};
struct Obs { std::vector<Transform> X; std::vector<SpatialVec> V, A, Rn, Cor; Vector udot, qdot; Matrix M; Real ke = 0; };
Obs observe(const Sys& y, State& s, bool wantM) {
    Obs o; y.m.sys.realize(s, Stage::Acceleration); const SimbodyMatterSubsystem& matter = y.m.matter; int NB = matter.getNumBodies();
    Vector_<SpatialVec> R; matter.calcMobilizerReactionForces(s, R);
    for (int b = 0; b < NB; ++b) { const MobilizedBody& mb = matter.getMobilizedBody(MobilizedBodyIndex(b)); o.X.push_back(mb.getBodyTransform(s)); o.V.push_back(mb.getBodyVelocity(s)); o.A.push_back(mb.getBodyAcceleration(s)); o.Rn.push_back(R[b]); o.Cor.push_back(matter.getTotalCoriolisAcceleration(s, MobilizedBodyIndex(b))); }
    o.udot = s.getUDot(); o.qdot = s.getQDot(); o.ke = y.m.sys.calcKineticEnergy(s);
    if (wantM) matter.calcM(s, o.M);
    return o;
}
struct Track { bool on = getenv("C06_EXPLORE") != nullptr; std::map<std::string, double> w; void operator()(const std::string& k, double ratio) { if (on && !(ratio <= w[k])) w[k] = ratio; }
    ~Track() { if (on) for (auto& kv : w) fprintf(stderr, "EXPLORE %-60s worst err/tol = %.3e\n", kv.first.c_str(), kv.second); } };
Track& track() { static Track t; return t; }
Real nrm(const SpatialVec& v) { return v[0].norm() + v[1].norm(); }
SpatialVec rot(const Rotation& R, const SpatialVec& v) { return SpatialVec(R * v[0], R * v[1]); }

// compare B against A transformed by the rigid motion X_GA (B's world = X * A's world). tolK multiplies the dynamic tolerances.
bool compareObs(pbt::Ctx& ctx, const std::string& what, const Obs& a, const Obs& b, const Transform& X, Real tolK, Real fscale, bool cmpUdot, bool cmpM, bool cmpReact, const std::vector<bool>* udotMask = nullptr, const std::vector<bool>* skipReact = nullptr, bool cmpCor = false) {
    const Rotation& R = X.R(); int NB = (int)a.X.size();
    Real ascale = 1; for (int i = 0; i < NB; ++i) ascale = std::max(ascale, nrm(a.A[i]));
    Real rscale = fscale; for (int i = 0; i < NB; ++i) rscale = std::max(rscale, nrm(a.Rn[i]));
    for (int i = 1; i < NB; ++i) {
        Transform XA = X * a.X[i];
        Real dx = refmob::diff(refmob::fromTransform(XA), refmob::fromTransform(b.X[i]));
        track()(what + " pose", dx / (1e-10 * (1 + XA.p().norm())));
        if (!(dx <= 1e-10 * (1 + XA.p().norm()))) { ctx.fail(what + ": body " + std::to_string(i) + " pose differs by " + S(dx)); return false; }
        Real dv = refmob::diff(rot(R, a.V[i]), b.V[i]);
        track()(what + " vel", dv / (1e-10 * (1 + nrm(a.V[i]))));
        if (!(dv <= 1e-10 * (1 + nrm(a.V[i])))) { ctx.fail(what + ": body " + std::to_string(i) + " velocity differs by " + S(dv)); return false; }
        if (cmpCor) {   // total Coriolis acceleration Jdot*u: the same whenever the speeds of the two models are related by a constant matrix
            Real dc = refmob::diff(rot(R, a.Cor[i]), b.Cor[i]), tc = 1e-9 * (1 + nrm(a.Cor[i]) + nrm(a.V[i]) * nrm(a.V[i]));
            track()(what + " coriolis", dc / tc);
            if (!(dc <= tc)) { ctx.fail(what + ": body " + std::to_string(i) + " total Coriolis acceleration differs by " + S(dc)); return false; } }
        Real da = refmob::diff(rot(R, a.A[i]), b.A[i]);
        track()(what + " acc", da / (tolK * ascale));
        if (!(da <= tolK * ascale)) { ctx.fail(what + ": body " + std::to_string(i) + " acceleration differs by " + S(da) + " (tol " + S(tolK * ascale) + ")"); return false; }
        if (cmpReact && !(skipReact && (*skipReact)[i])) { Real dr = refmob::diff(rot(R, a.Rn[i]), b.Rn[i]);
            track()(what + " react", dr / (tolK * rscale));
            if (!(dr <= tolK * rscale)) { ctx.fail(what + ": body " + std::to_string(i) + " mobilizer reaction differs by " + S(dr) + " (tol " + S(tolK * rscale) + ")"); return false; } }
    }
    track()(what + " ke", std::abs(a.ke - b.ke) / (1e-10 * (1 + std::abs(a.ke))));
    if (!(std::abs(a.ke - b.ke) <= 1e-10 * (1 + std::abs(a.ke)))) { ctx.fail(what + ": kinetic energy " + S(a.ke) + " vs " + S(b.ke)); return false; }
    if (cmpUdot) {
        if (!ctx.check(a.udot.size() == b.udot.size(), what + ": different number of mobilities")) return false;
        Real us = 1 + refdyn::maxAbs(a.udot);
        for (int i = 0; i < a.udot.size(); ++i) { if (udotMask && !(*udotMask)[i]) continue;
            track()(what + " udot", std::abs(a.udot[i] - b.udot[i]) / (tolK * us));
            if (!(std::abs(a.udot[i] - b.udot[i]) <= tolK * us)) { ctx.fail(what + ": udot[" + std::to_string(i) + "] " + S(a.udot[i]) + " vs " + S(b.udot[i]) + " (tol " + S(tolK * us) + ")"); return false; } }
    }
    if (cmpM) {
        Real ms = refdyn::maxAbs(a.M);
        for (int i = 0; i < a.M.nrow(); ++i) for (int j = 0; j < a.M.ncol(); ++j) {
            if (track().on) track()(what + " M", std::abs(a.M(i, j) - b.M(i, j)) / (1e-11 * (1 + ms)));
            if (!(std::abs(a.M(i, j) - b.M(i, j)) <= 1e-11 * (1 + ms))) { ctx.fail(what + ": M(" + std::to_string(i) + "," + std::to_string(j) + ") " + S(a.M(i, j)) + " vs " + S(b.M(i, j))); return false; } }
    }
    return true;
}
// derivative oracle for user-function mobilizers: the reported body acceleration at udot = 0 (velocity-dependent part, Jdot*u) equals
// d/dt of the reported body velocities along the motion with udot = 0 (5-point central differences, refdyn.h)
bool fdBiasOracle(pbt::Ctx& ctx, const std::string& what, const Sys& y, State& s) {
    y.m.sys.realize(s, Stage::Velocity); const SimbodyMatterSubsystem& matter = y.m.matter;
    Vector zero(s.getNU()); zero = 0; Vector_<SpatialVec> A0; matter.calcBodyAccelerationFromUDot(s, zero, A0);
    std::vector<SpatialVec> Afd = refdyn::referenceAccelerations(y.m.sys, matter, s, zero, 1e-3);
    const Real us = 1 + refdyn::maxAbs(s.getU());
    for (int b = 1; b < matter.getNumBodies(); ++b) {
        Real d = refmob::diff(A0[b], Afd[b]), sc = 1 + nrm(A0[b]) + matter.getMobilizedBody(MobilizedBodyIndex(b)).getBodyOriginLocation(s).norm();
        track()("FD bias acceleration (" + what + ")", d / (1e-6 * sc * us * us));
        if (!(d <= 1e-6 * sc * us * us)) { ctx.fail(what + ": body " + std::to_string(b) + ": reported acceleration at udot=0 differs from d/dt of the reported velocity along qdot by " + S(d)); return false; }
    }
    return true;
}
// condition number of the mass matrix (own Jacobi eigenvalues) -> tolerance factor for anything that involves M^-1
Real dynTol(const Matrix& M, pbt::Ctx& ctx, bool& ok) {
    std::vector<Real> ev; refdyn::symEig(M, ev); ok = ev.size() && ev.front() > 0 && ev.back() / ev.front() < 1e9;
    if (!ok) return 0; Real kappa = ev.back() / ev.front();
    ctx.label(kappa < 1e2 ? "kappa<1e2" : kappa < 1e4 ? "kappa<1e4" : kappa < 1e6 ? "kappa<1e6" : "kappa>=1e6");
    return 1e5 * Eps * M.nrow() * kappa;
}
void randomForces(Rng& rng, int NB, int nu, Vector_<SpatialVec>& F, Vector& f) {
    F.resize(NB); f.resize(nu);
    for (int b = 0; b < NB; ++b) F[b] = SpatialVec(3 * Vec3(rng.next(), rng.next(), rng.next()), 3 * Vec3(rng.next(), rng.next(), rng.next()));
    for (int i = 0; i < nu; ++i) f[i] = 2 * rng.next();
}
// known finding loneparticle-reaction-ignores-com: a forward leaf Translation on Ground with identity frames is implemented by
// RBNodeLoneParticle, whose reaction torque ignores the mass-centre offset. Site = that body (by the INPUT model), clause =
// its mobilizer reaction when the two models of a pair implement it differently (LoneParticle vs anything else).
bool isLoneParticle(const mbgen::ModelSpec& spec, int i /*0-based*/, Mirror mir = NoMirror) {
    const mbgen::BodySpec& b = spec.bodies[i];
    if (!(b.type == mbgen::Translation && mir == NoMirror && b.parent == 0 && !b.reversed && b.inKind == 0 && b.outKind == 0)) return false;
    for (auto& c : spec.bodies) if (c.parent == i + 1) return false;
    return true;
}
std::vector<bool> loneParticleSites(pbt::Ctx& ctx, const mbgen::ModelSpec& a, const mbgen::ModelSpec& b, const std::vector<Mirror>* mirB = nullptr) {
    std::vector<bool> skip(a.bodies.size() + 1, false);
    for (int i = 0; i < (int)a.bodies.size(); ++i) {
        bool la = isLoneParticle(a, i), lb = isLoneParticle(b, i, mirB ? (*mirB)[i] : NoMirror);
        if (la != lb && a.bodies[i].com.norm() != 0 && ctx.known("loneparticle-reaction-ignores-com")) { skip[i + 1] = true; ctx.label("excluded:loneparticle-reaction-ignores-com"); }
        if (la != lb) ctx.label("loneparticle-vs-general-node");
    }
    return skip;
}
bool closedUnderInversion(int t) { using namespace mbgen; return t == Pin || t == Slider || t == Cylinder || t == Screw || t == Planar || t == Ball || t == Free || t == Translation || t == Gimbal || t == Bushing; }

// ------------------------------------------------------------------------------------------------ the property
void property(const pbt::Tape& t, pbt::Ctx& ctx) {
    pbt::Reader g(t[0]);
    const int mode = g.pick(5); const int nbWanted = 1 + g.pick(5);
    mbgen::Options opt; opt.maxBodies = 5; opt.allowUnnormalizedQuat = (mode == 0 || mode == 3);
    if (mode == 0) opt.typeMask |= 0;   // all types
    mbgen::ModelSpec spec = mbgen::decodeModel(t, 1, std::min((int)t.size() - 1, nbWanted), g, opt);
    {   // make the interesting class certain: convert -> every other body has a quaternion-capable mobilizer; reverse -> the chosen body is invertible
        static const pbt::Seg zero(K6, 0u);
        auto seg = [&](int i) -> const pbt::Seg& { return (size_t)(i + 1) < t.size() ? t[i + 1] : zero; };
        if (mode == 0) { mbgen::Options oq = opt; oq.only({mbgen::Ball, mbgen::Free, mbgen::Ellipsoid, mbgen::LineOrientation, mbgen::FreeLine});
            for (int i = 0; i < spec.nBodies(); i += 2) spec.bodies[i] = mbgen::decodeBody(seg(i), i, spec.euler, spec.unnormQuat, oq); }
    }
    Rng rng{(uint64_t)g.w() * 0x100000001ull + 606};
    const Vec3 gravity(g.real(-10, 10), g.real(-10, 10), g.real(-10, 10));
    const int pickBody = g.pick(1 << 20);
    const Rotation Rrel = mbgen::readRotation(g); const Vec3 prel = mbgen::readVec3(g, -2, 2);
    static const char* modeName[] = {"convert", "mirror", "reverse", "relocate", "reparam"};
    ctx.label(std::string("mode:") + modeName[mode]);
    const int nb = spec.nBodies();
    const Real fscale = 10 + gravity.norm() * 20;

    if (mode != 2) { if (ctx.wantDesc) { ctx.desc << "mode=" << modeName[mode] << " gravity=" << gravity << "\n"; spec.describe(ctx.desc); } mbgen::labelModel(ctx, spec); }
    if (mode == 0) {   // ------------------------------------------------------------------ (a) Euler <-> quaternion conversion
        Sys y(spec, gravity); State& sA = y.m.state; y.m.setState(spec);
        const int nu = sA.getNU(); if (nu == 0) { ctx.reject("nu=0"); return; }
        Vector_<SpatialVec> F; Vector f; randomForces(rng, nb + 1, nu, F, f); y.applyForces(sA, F, f);
        bool anyQuat = false; for (auto& b : spec.bodies) if (mbgen::mobHasQuaternion(b.type)) anyQuat = true;
        ctx.label(spec.euler ? "convert:euler->quat" : "convert:quat->euler"); if (!anyQuat) ctx.label("convert:no-quaternion-mobilizer");
        ctx.nontrivial(anyQuat && (nb >= 2 || nu >= 3));
        State sB;
        if (spec.euler) y.m.matter.convertToQuaternions(sA, sB); else y.m.matter.convertToEulerAngles(sA, sB);
        if (!ctx.check(y.m.matter.getUseEulerAngles(sB) == !spec.euler, "converted state does not use the other representation")) return;
        // "All continuous and discrete State variables will be copied to the outputState"
        if (!ctx.check(sB.getNU() == nu, "conversion changed the number of speeds")) return;
        // known findings, clause "u is copied" (everything else is still judged after restoring u by hand, as every caller in the
        // library effectively does): convert-state-loses-u = any conversion that really changes the representation;
        // lineorientation-convert-overflow = the mobilizer owning the LAST q slots is a LineOrientation (its conversion routines
        // write three slots past its own four, i.e. into u).
        const bool lastIsLineOrientation = spec.bodies.back().type == mbgen::LineOrientation;
        auto uKept = [&](const State& from, State& to, const char* what) {
            for (int i = 0; i < nu; ++i) if (!(to.getU()[i] == from.getU()[i])) {
                if (lastIsLineOrientation && ctx.known("lineorientation-convert-overflow")) { ctx.label("excluded:lineorientation-convert-overflow"); to.updU() = from.getU(); return true; }
                if (ctx.known("convert-state-loses-u")) { ctx.label("excluded:convert-state-loses-u"); to.updU() = from.getU(); return true; }
                ctx.fail(std::string(what) + " did not copy u[" + std::to_string(i) + "]: " + S(from.getU()[i]) + " -> " + S(to.getU()[i])); return false; }
            return true; };
        if (!uKept(sA, sB, spec.euler ? "convertToQuaternions" : "convertToEulerAngles")) return;
        // near an Euler singularity the qdot/N are ill-conditioned but poses, velocities and u-space dynamics are not
        Obs a = observe(y, sA, true); bool ok; Real tolK = dynTol(a.M, ctx, ok); if (!ok) { ctx.reject("ill-conditioned-M"); return; }
        Obs b = observe(y, sB, true);
        if (!compareObs(ctx, "state converted to the other rotation representation", a, b, Transform(), tolK, fscale, true, true, true)) return;
        // and back
        State sC; if (spec.euler) y.m.matter.convertToEulerAngles(sB, sC); else y.m.matter.convertToQuaternions(sB, sC);
        if (!ctx.check(sC.getNQ() == sA.getNQ() && sC.getNU() == nu, "round trip changed the number of coordinates")) return;
        for (int i = 1; i <= nb; ++i) { const mbgen::BodySpec& bs = spec.bodies[i - 1]; const MobilizedBody& mb = y.m.mb[i]; int nq = mb.getNumQ(sA);
            Vector qa = mb.getQAsVector(sA), qc = mb.getQAsVector(sC);
            if (mbgen::mobHasQuaternion(bs.type) && !spec.euler) {   // quaternion up to sign and normalisation
                Vec4 x(qa[0], qa[1], qa[2], qa[3]), z(qc[0], qc[1], qc[2], qc[3]); x /= x.norm(); Real d = std::min((x - z).norm(), (x + z).norm());
                // Euler middle angle near +-pi/2: the decomposition is ill-conditioned (error ~ eps/|cos|); accept sqrt(eps) there
                if (!(d <= 1e-7)) { ctx.fail("quaternion -> Euler -> quaternion changed the rotation of body " + std::to_string(i) + " by " + S(d)); return; }
                for (int k = 4; k < nq; ++k) if (!(std::abs(qa[k] - qc[k]) <= 1e-14 * (1 + std::abs(qa[k])))) { ctx.fail("round trip changed a translational coordinate"); return; }
            } else for (int k = 0; k < nq; ++k) if (!(std::abs(qa[k] - qc[k]) <= 1e-9 * (1 + std::abs(qa[k])))) { ctx.fail("round trip changed q[" + std::to_string(k) + "] of body " + std::to_string(i) + ": " + S(qa[k]) + " -> " + S(qc[k])); return; }
        }
        if (!uKept(sB, sC, "conversion back")) return;
        return;
    }
    if (mode == 1) {   // ------------------------------------------------------------------ (b) FunctionBased / Custom mirrors
        std::vector<Mirror> mir(nb, NoMirror); bool any = false, multi = false, anyFB = false;
        for (int i = 0; i < nb; ++i) { uint32_t w = t[i + 1].size() > (size_t)mbgen::K ? t[i + 1][mbgen::K] : 0u; mir[i] = chooseMirror(spec.bodies[i], spec.euler, w);
            if (mir[i] != NoMirror) { any = true; ctx.label(std::string(mir[i] == MirrorFB ? "mirror:FunctionBased:" : "mirror:Custom:") + mbgen::mobName(spec.bodies[i].type) + (spec.bodies[i].reversed ? "/rev" : "/fwd"));
                if (mbgen::mobNU(spec.bodies[i].type) >= 2 || spec.bodies[i].parent != 0) multi = true;
                if (mir[i] == MirrorFB) { anyFB = true; int ty = spec.bodies[i].type;
                    if (ty == mbgen::BendStretch || ty == mbgen::SphericalCoords || ty == mbgen::CantileverFreeBeam) { ctx.label("fb:multi-argument"); ctx.label(std::string("fb:mirror:") + mbgen::mobName(ty)); }
                    if (ty == mbgen::BendStretch || ty == mbgen::SphericalCoords) ctx.label("fb:mixed-second-partial"); } } }
        if (!any) ctx.label("mirror:none");
        ctx.nontrivial(any && multi);
        Sys ya(spec, gravity), yb(spec, gravity, &mir); ya.m.setState(spec); yb.m.setState(spec);
        const int nu = ya.m.state.getNU(); if (nu == 0) { ctx.reject("nu=0"); return; }
        if (!ctx.check(yb.m.state.getNU() == nu && yb.m.state.getNQ() == ya.m.state.getNQ(), "mirror model has a different number of coordinates")) return;
        Vector_<SpatialVec> F; Vector f; randomForces(rng, nb + 1, nu, F, f); ya.applyForces(ya.m.state, F, f); yb.applyForces(yb.m.state, F, f);
        Obs a = observe(ya, ya.m.state, true); bool ok; Real tolK = dynTol(a.M, ctx, ok); if (!ok) { ctx.reject("ill-conditioned-M"); return; }
        Obs b = observe(yb, yb.m.state, true);
        std::vector<bool> skipR = loneParticleSites(ctx, spec, spec, &mir);
        if (!compareObs(ctx, "user-defined mirror of built-in mobilizers", a, b, Transform(), tolK, fscale, true, true, true, nullptr, &skipR, true)) return;
        if (anyFB && !fdBiasOracle(ctx, "FunctionBased mirror model", yb, yb.m.state)) return;
        Real qs = 1 + refdyn::maxAbs(a.qdot);
        for (int i = 0; i < a.qdot.size(); ++i) if (!(std::abs(a.qdot[i] - b.qdot[i]) <= 1e-12 * qs)) { ctx.fail("mirror: qdot[" + std::to_string(i) + "] " + S(a.qdot[i]) + " vs " + S(b.qdot[i])); return; }
        Vector qa = ya.m.state.getQDotDot(), qb = yb.m.state.getQDotDot(); Real qds = 1 + refdyn::maxAbs(qa);
        for (int i = 0; i < qa.size(); ++i) if (!(std::abs(qa[i] - qb[i]) <= tolK * qds)) { ctx.fail("mirror: qdotdot[" + std::to_string(i) + "] " + S(qa[i]) + " vs " + S(qb[i])); return; }
        return;
    }
    if (mode == 2) {   // ------------------------------------------------------------------ (c) forward vs reversed mobilizer
        {   static const pbt::Seg zero(K6, 0u); int kk = pickBody % nb; const pbt::Seg& sg = (size_t)(kk + 1) < t.size() ? t[kk + 1] : zero;
            mbgen::Options oi = opt; oi.only({mbgen::Pin, mbgen::Slider, mbgen::Cylinder, mbgen::Screw, mbgen::Planar, mbgen::Ball, mbgen::Free, mbgen::Translation, mbgen::Gimbal, mbgen::Bushing});
            if (!closedUnderInversion(spec.bodies[kk].type)) { int par = spec.bodies[kk].parent; spec.bodies[kk] = mbgen::decodeBody(sg, kk, spec.euler, spec.unnormQuat, oi); spec.bodies[kk].parent = par; } }
        std::vector<int> cand; for (int i = 0; i < nb; ++i) if (closedUnderInversion(spec.bodies[i].type) && !(spec.bodies[i].type == mbgen::Screw && spec.bodies[i].pitch == 0)) cand.push_back(i);   // zero-pitch Screw: fit routines are a listed C05 finding
        if (cand.empty()) { ctx.reject("no-invertible-mobilizer"); return; }
        const int k = cand[pickBody % cand.size()];
        if (ctx.wantDesc) { ctx.desc << "mode=reverse (body " << k + 1 << ") gravity=" << gravity << "\n"; spec.describe(ctx.desc); } mbgen::labelModel(ctx, spec);
        mbgen::ModelSpec spec2 = spec; spec2.bodies[k].reversed = !spec.bodies[k].reversed;
        ctx.label(std::string("reverse:") + mbgen::mobName(spec.bodies[k].type) + (spec.bodies[k].reversed ? "/rev->fwd" : "/fwd->rev") + (mbgen::mobHasQuaternion(spec.bodies[k].type) ? (spec.euler ? "/euler" : "/quat") : ""));
        ctx.nontrivial(mbgen::mobNU(spec.bodies[k].type) >= 2 || spec.bodies[k].parent != 0);
        Sys ya(spec, gravity), yb(spec2, gravity); ya.m.setState(spec); yb.m.setState(spec);   // same q,u everywhere, then body k is refitted
        State& sA = ya.m.state; State& sB = yb.m.state; const int nu = sA.getNU();
        ya.m.sys.realize(sA, Stage::Velocity);
        const MobilizedBody& ka = ya.m.mb[k + 1]; const MobilizedBody& kb = yb.m.mb[k + 1];
        const Transform Xk = ka.getMobilizerTransform(sA); const SpatialVec Vk = ka.getMobilizerVelocity(sA);
        for (int j = 0; j < kb.getNumQ(sB); ++j) kb.setOneQ(sB, j, mbgen::mobHasQuaternion(spec.bodies[k].type) && !spec.euler && j == 0 ? 1.0 : 0.0);
        kb.setQToFitTransform(sB, Xk); yb.m.sys.realize(sB, Stage::Position);
        if (spec.bodies[k].type == mbgen::Gimbal || spec.bodies[k].type == mbgen::Bushing || (spec.euler && mbgen::mobHasQuaternion(spec.bodies[k].type)))
            if (std::abs(std::cos(kb.getOneQ(sB, 1))) < 0.3) { ctx.reject("reversed-euler-angles-near-singular"); return; }
        kb.setUToFitVelocity(sB, Vk); yb.m.sys.realize(sB, Stage::Velocity);
        Real dX = refmob::diff(refmob::fromTransform(kb.getMobilizerTransform(sB)), refmob::fromTransform(Xk)), dV = refmob::diff(kb.getMobilizerVelocity(sB), Vk);
        if (!(dX <= 1e-10 * (1 + Xk.p().norm()) && dV <= 1e-9 * (1 + nrm(Vk)))) { ctx.fail("reversed " + std::string(mbgen::mobName(spec.bodies[k].type)) + " could not be put into the forward mobilizer's state by setQToFitTransform/setUToFitVelocity: pose off by " + S(dX) + ", velocity off by " + S(dV)); return; }
        Vector_<SpatialVec> F; Vector f; randomForces(rng, nb + 1, nu, F, f);
        std::vector<bool> mask(nu, true); { int u0 = ka.getFirstUIndex(sA); for (int j = 0; j < ka.getNumU(sA); ++j) { f[u0 + j] = 0; mask[u0 + j] = false; } }
        ya.applyForces(sA, F, f); yb.applyForces(sB, F, f);
        Obs a = observe(ya, sA, true); bool ok; Real tolK = dynTol(a.M, ctx, ok); if (!ok) { ctx.reject("ill-conditioned-M"); return; }
        Obs b = observe(yb, sB, false);
        std::vector<bool> skipR = loneParticleSites(ctx, spec, spec2);
        if (!compareObs(ctx, "reversed mobilizer in the same physical state", a, b, Transform(), tolK * 10, fscale, true, false, true, &mask, &skipR)) return;
        // The udot of the re-parameterised joint has no counterpart to compare with, and an error of its bias term inside range(H) is
        // absorbed by udot without changing the reported A_GB. "Same body motion" therefore also demands that the reversed model's
        // (qdot, udot) really produce those accelerations: d/dt of its reported body velocities along its own motion (5-point FD)
        // must equal the forward model's accelerations.
        {
            // step: 1e-3, reduced for violent accelerations (light bodies under O(1) forces): the stencil's truncation error grows like
            // |udot|^3 h^4, with h ~ 0.02/sqrt|udot| it stays ~1e-8 relative
            const Real hfd = std::min(1e-3, 0.02 / std::sqrt(1 + refdyn::maxAbs(sB.getUDot())));
            std::vector<SpatialVec> Afd = refdyn::referenceAccelerations(yb.m.sys, yb.m.matter, sB, sB.getUDot(), hfd);
            Real ascale = 1; for (auto& x : a.A) ascale = std::max(ascale, nrm(x)); Real us = 1 + refdyn::maxAbs(sB.getU());
            for (int i = 1; i <= nb; ++i) { Real d = refdyn::dot(Afd[i] - a.A[i], Afd[i] - a.A[i]); d = std::sqrt(d);
                track()("reversed: FD acceleration along own udot", d / (1e-5 * ascale * us * us));
                if (!(d <= 1e-5 * ascale * us * us)) { ctx.fail("reversed mobilizer: body " + std::to_string(i) + " d/dt of velocity along the reversed model's own qdot/udot differs from the forward model's acceleration by " + S(d)); return; } }
        }
        return;
    }
    if (mode == 4) {   // ------------------------------------------------------------------ (e) FunctionBased re-parameterisation q = A q'
        // Body k gets a FunctionBased mobilizer with GENERATED smooth functions of all its nm = 2..3 coordinates (non-zero mixed second
        // partials); model B uses the same functions composed with q = A q' (A generated, strictly diagonally dominant => invertible).
        const int k = pickBody % nb, nm = 2 + (int)((rng.next() + 1) * 0.999999);
        // half of the cases use only the three translational slots (fully judged); the others also drive rotations by multi-argument
        // functions, which is the site of known finding functionbased-hdot-rotation-coupling
        const bool transOnly = rng.next() < 0;
        int slot[6] = {0, 1, 2, 3, 4, 5}; for (int i = 5; i > 0; --i) { int j = (int)((rng.next() + 1) * 0.4999999 * (i + 1)); std::swap(slot[i], slot[j]); }
        if (transOnly) { int tr[3] = {3, 4, 5}; for (int i = 2; i > 0; --i) { int j = (int)((rng.next() + 1) * 0.4999999 * (i + 1)); std::swap(tr[i], tr[j]); } slot[0] = tr[0]; slot[1] = tr[1]; slot[2] = tr[2]; slot[3] = 0; slot[4] = 1; slot[5] = 2; }
        auto unit = [&](Real lo, Real hi) { Real x = rng.next(); return (x < 0 ? -1 : 1) * (lo + (hi - lo) * std::abs(x)); };   // +-[lo,hi]
        std::vector<GenSpec> gs(6);    // n == 0 -> constant zero
        for (int i = 0; i < 6; ++i) { const int sl = slot[i]; bool main = i < nm; if (!main && (rng.next() > -0.3 || (transOnly && sl < 3))) continue;    // ~1/3 of the other slots: purely nonlinear
            GenSpec& G = gs[sl]; G.n = nm; G.lin.assign(nm, 0.0); if (main) G.lin[i] = 1; G.c0 = 0.2 * rng.next();
            for (int tt = 0; tt < 2; ++tt) { GenSpec::ST st; st.a = unit(0.05, 0.15); st.c = 3 * rng.next(); for (int j = 0; j < nm; ++j) st.w.push_back(unit(0.3, 1.0)); G.st.push_back(st); }
            GenSpec::PT pt; pt.b = unit(0.02, 0.05); for (int j = 0; j < nm; ++j) { pt.l1.push_back(unit(0.3, 1.0)); pt.l2.push_back(unit(0.3, 1.0)); } G.pt.push_back(pt); }
        std::vector<Real> A(nm * nm); for (int i = 0; i < nm; ++i) for (int j = 0; j < nm; ++j) A[i * nm + j] = i == j ? unit(0.6, 1.6) : 0.25 * rng.next();
        Mat33 A3(1); for (int i = 0; i < nm; ++i) for (int j = 0; j < nm; ++j) A3(i, j) = A[i * nm + j]; const Mat33 A3inv = A3.invert();
        auto factory = [&](bool composed) { return Sys::Factory([&, composed](int i, MobilizedBody& par, const mbgen::BodySpec& b, const Body& body, MobilizedBody& out) {
            if (i != k) return false;
            std::vector<const Function*> fn; std::vector<std::vector<int>> idx; std::vector<int> all; for (int j = 0; j < nm; ++j) all.push_back(j);
            for (int sl = 0; sl < 6; ++sl) { if (gs[sl].n == 0) { fn.push_back(new ConstFn()); idx.push_back(std::vector<int>()); continue; }
                const Function* f = new GenFn(gs[sl]); fn.push_back(composed ? (const Function*)new ComposeFn(f, nm, A) : f); idx.push_back(all); }
            out = MobilizedBody::FunctionBased(par, b.X_PF, body, b.X_BM, nm, fn, idx, b.reversed ? MobilizedBody::Reverse : MobilizedBody::Forward); return true; }); };
        ctx.label("fb:multi-argument"); ctx.label("fb:mixed-second-partial"); ctx.label(nm == 2 ? "reparam:2-coordinates" : "reparam:3-coordinates"); ctx.label(spec.bodies[k].reversed ? "reparam:reversed" : "reparam:forward");
        if (ctx.wantDesc) { ctx.desc << " body " << k + 1 << " replaced by a generated FunctionBased mobilizer with " << nm << " coordinates; A=";  for (Real x : A) ctx.desc << x << " "; ctx.desc << "\n"; }
        ctx.nontrivial(true);
        // known finding functionbased-hdot-rotation-coupling: buildHdot differentiates the rotation axes assuming that rotation function i
        // depends on coordinate i only; site (on the INPUT) = a rotation slot driven by a multi-argument function; clauses excluded =
        // everything at acceleration level (poses, velocities, kinetic energy are still judged).
        bool rotCoupled = false; for (int sl = 0; sl < 3; ++sl) if (gs[sl].n) rotCoupled = true;
        ctx.label(rotCoupled ? "reparam:rotation-functions" : "reparam:translation-functions-only");
        const bool skipAcc = rotCoupled && ctx.known("functionbased-hdot-rotation-coupling");
        if (skipAcc) ctx.label("excluded:functionbased-hdot-rotation-coupling");
        Sys::Factory fa = factory(false), fb = factory(true);
        Sys ya(spec, gravity, nullptr, &fa), yb(spec, gravity, nullptr, &fb); ya.m.setState(spec); yb.m.setState(spec);
        State& sA = ya.m.state; State& sB = yb.m.state; const int nu = sA.getNU();
        if (!ctx.check(sB.getNU() == nu && sB.getNQ() == sA.getNQ() && ya.m.mb[k + 1].getNumU(sA) == nm, "generated FunctionBased mobilizer has an unexpected number of coordinates")) return;
        Vec3 qk(0), uk(0); for (int j = 0; j < nm; ++j) { qk[j] = rng.next(); uk[j] = unit(0.3, 2.0) + 0.1 * j; }    // generic, non-zero, unequal speeds
        const Vec3 qk2 = A3inv * qk, uk2 = A3inv * uk;
        for (int j = 0; j < nm; ++j) { ya.m.mb[k + 1].setOneQ(sA, j, qk[j]); ya.m.mb[k + 1].setOneU(sA, j, uk[j]); yb.m.mb[k + 1].setOneQ(sB, j, qk2[j]); yb.m.mb[k + 1].setOneU(sB, j, uk2[j]); }
        Vector_<SpatialVec> F; Vector f; randomForces(rng, nb + 1, nu, F, f); Vector f2 = f;
        const int u0 = ya.m.mb[k + 1].getFirstUIndex(sA); std::vector<bool> mask(nu, true);
        for (int j = 0; j < nm; ++j) { mask[u0 + j] = false; f2[u0 + j] = 0; for (int i = 0; i < nm; ++i) f2[u0 + j] += A[i * nm + j] * f[u0 + i]; }   // f' = A^T f (same virtual power)
        ya.applyForces(sA, F, f); yb.applyForces(sB, F, f2);
        Obs a = observe(ya, sA, true); bool ok; Real tolK = dynTol(a.M, ctx, ok); if (!ok) { ctx.reject("ill-conditioned-M"); return; }
        Obs b = observe(yb, sB, false);
        if (skipAcc) { compareObs(ctx, "FunctionBased mobilizer re-parameterised by q = A q' (poses, velocities)", a, b, Transform(), Infinity, fscale, false, false, false); return; }
        if (!compareObs(ctx, "FunctionBased mobilizer re-parameterised by q = A q'", a, b, Transform(), tolK * 10, fscale, true, false, true, &mask, nullptr, true)) return;
        { Real us = 1 + refdyn::maxAbs(a.udot);     // udot = A udot'
          for (int i = 0; i < nm; ++i) { Real v = 0; for (int j = 0; j < nm; ++j) v += A[i * nm + j] * b.udot[u0 + j];
              track()("reparam udot = A udot'", std::abs(v - a.udot[u0 + i]) / (tolK * 10 * us));
              if (!(std::abs(v - a.udot[u0 + i]) <= tolK * 10 * us)) { ctx.fail("re-parameterised FunctionBased: udot[" + std::to_string(i) + "] " + S(a.udot[u0 + i]) + " vs A*udot' " + S(v) + " (tol " + S(tolK * 10 * us) + ")"); return; } } }
        if (!fdBiasOracle(ctx, "generated FunctionBased model", ya, sA)) return;
        if (!fdBiasOracle(ctx, "re-parameterised FunctionBased model", yb, sB)) return;
        return;
    }
    {                  // ------------------------------------------------------------------ (d) rigid relocation of the whole model
        const Transform X(Rrel, prel);
        mbgen::ModelSpec spec2 = spec; int nbase = 0;
        for (auto& b : spec2.bodies) if (b.parent == 0) { b.X_PF = X * b.X_PF; b.inKind = 2; ++nbase; }
        ctx.nontrivial(nb >= 2 && spec.bodies[0].type != mbgen::Weld);
        Sys ya(spec, gravity), yb(spec2, X.R() * gravity); ya.m.setState(spec); yb.m.setState(spec);
        const int nu = ya.m.state.getNU(); if (nu == 0) { ctx.reject("nu=0"); return; }
        Vector_<SpatialVec> F, F2; Vector f; randomForces(rng, nb + 1, nu, F, f); F2 = F; for (int b = 0; b <= nb; ++b) F2[b] = rot(X.R(), F[b]);
        ya.applyForces(ya.m.state, F, f); yb.applyForces(yb.m.state, F2, f);
        Obs a = observe(ya, ya.m.state, true); bool ok; Real tolK = dynTol(a.M, ctx, ok); if (!ok) { ctx.reject("ill-conditioned-M"); return; }
        Obs b = observe(yb, yb.m.state, true);
        std::vector<bool> skipR = loneParticleSites(ctx, spec, spec2);
        compareObs(ctx, "model relocated by a rigid transform", a, b, X, tolK, fscale, true, true, true, nullptr, &skipR, true);
    }
}

pbt::Config config() {
    pbt::Config c; c.prop = "C06"; c.K = K6; c.minUnits = 1;
    c.quick = {3000, 10000, 30, 25}; c.thorough = {15000, 40000, 30, 240};
    c.rule = "rapidcheck tape -> mbgen tree of 1..5 bodies (mode reparam: one body replaced by a FunctionBased mobilizer with generated multi-argument functions and its q=Aq' re-parameterisation) (18 mobilizer types, forward/reversed, frame kinds, quaternion or Euler, non-singular q, u in [-2,2]), gravity in [-10,10]^3, tape-seeded body and mobility forces; mode in {convert, mirror, reverse, relocate, reparam}. Non-trivial: convert: a quaternion-capable mobilizer and (>=2 bodies or >=3 dofs); mirror: a mirrored mobilizer with >=2 dofs or not on Ground; reverse: the reversed mobilizer has >=2 dofs or is not a base body; relocate: >=2 bodies and the first is not welded.";
    c.assumptions = {"reverse: only mobilizer types whose set of relative motions is closed under inversion are reversed (Pin, Slider, Cylinder, Screw with pitch != 0, Planar, Ball, Free, Translation, Gimbal, Bushing); setQToFitTransform/setUToFitVelocity of these types are trusted (C05)",
                     "tolerances: poses/velocities/KE 1e-10 relative, M 1e-11, accelerations/reactions/udot 1e5*eps*nu*kappa(M) (observed <= 1e-3 of that), FD acceleration clause 1e-5 (observed <= 0.23e-6/1e-6 i.e. 40x margin); kappa(M) >= 1e9 rejected",
                     "mirror: FunctionBased built from identity/constant Functions; Custom Ball only in quaternion models"};
    c.requiredLabels = {"mode:convert", "mode:mirror", "mode:reverse", "mode:relocate", "mode:reparam", "fb:multi-argument", "fb:mixed-second-partial", "fb:mirror:BendStretch", "fb:mirror:SphericalCoords", "fb:mirror:CantileverFreeBeam", "mirror:FunctionBased:BendStretch/rev", "mirror:FunctionBased:SphericalCoords/fwd", "mirror:FunctionBased:Screw/fwd", "reparam:2-coordinates", "reparam:3-coordinates", "reparam:reversed", "reparam:translation-functions-only", "reparam:rotation-functions", "convert:quat->euler", "convert:euler->quat", "mob:Ellipsoid/rev/quat", "mob:FreeLine/fwd/euler", "mob:LineOrientation/rev/quat",
                        "mirror:FunctionBased:Universal/rev", "mirror:FunctionBased:Bushing/fwd", "mirror:FunctionBased:Planar/rev", "mirror:FunctionBased:Gimbal/fwd", "mirror:FunctionBased:Cylinder/rev", "mirror:Custom:Ball/fwd", "mirror:Custom:Ball/rev", "mirror:Custom:Pin/rev", "mirror:Custom:Slider/fwd",
                        "reverse:Free/fwd->rev/quat", "reverse:Free/rev->fwd/euler", "reverse:Planar/fwd->rev", "reverse:Bushing/rev->fwd", "reverse:Gimbal/fwd->rev", "reverse:Screw/fwd->rev", "reverse:Ball/rev->fwd/quat", "loneparticle-vs-general-node", "nbodies:4-6"};
    c.directed.push_back({"functionbased-rotation-functions-swapped-coordinates", "functionbased-hdot-rotation-coupling", [](pbt::Ctx& ctx) {
        // the same universal-type joint twice: rx = q0, ry = q1 and rx = q1', ry = q0' (coordinates swapped); same physical state
        SpatialVec cor[2]; Vector ud[2];
        for (int v = 0; v < 2; ++v) {
            MultibodySystem sys; SimbodyMatterSubsystem matter(sys); GeneralForceSubsystem forces(sys); Force::UniformGravity(forces, matter, Vec3(0, -9.8, 0));
            Body::Rigid body(MassProperties(1.5, Vec3(0.1, 0.2, 0.3), Inertia(1, 1.2, 1.4)));
            std::vector<const Function*> fn; std::vector<std::vector<int>> idx;
            fn.push_back(new IdentFn()); idx.push_back(std::vector<int>(1, v ? 1 : 0)); fn.push_back(new IdentFn()); idx.push_back(std::vector<int>(1, v ? 0 : 1));
            for (int k = 2; k < 6; ++k) { fn.push_back(new ConstFn()); idx.push_back(std::vector<int>()); }
            MobilizedBody::FunctionBased fb(matter.Ground(), Transform(), body, Transform(Vec3(0.3, 0, 0.1)), 2, fn, idx);
            State s = sys.realizeTopology(); sys.realizeModel(s);
            const Real q[2] = {0.4, 0.7}, u[2] = {1.0, -1.5};
            for (int j = 0; j < 2; ++j) { fb.setOneQ(s, v ? 1 - j : j, q[j]); fb.setOneU(s, v ? 1 - j : j, u[j]); }
            sys.realize(s, Stage::Acceleration); cor[v] = matter.getTotalCoriolisAcceleration(s, fb.getMobilizedBodyIndex());
            ud[v] = s.getUDot(); if (v) std::swap(ud[v][0], ud[v][1]);
        }
        ctx.desc << "FunctionBased rx=q0, ry=q1: Coriolis " << cor[0] << " udot " << ud[0] << "; coordinates swapped (rx=q1, ry=q0): Coriolis " << cor[1] << " udot (swapped back) " << ud[1] << "\n";
        ctx.check(refmob::diff(cor[0], cor[1]) <= 1e-12 && (ud[0] - ud[1]).norm() <= 1e-10, "FunctionBased joint with the coordinate indices of its two rotation functions swapped has a different Coriolis acceleration / udot: differs by " + S(refmob::diff(cor[0], cor[1])) + " / " + S((ud[0] - ud[1]).norm()));
    }});
    c.directed.push_back({"loneparticle-reaction", "loneparticle-reaction-ignores-com", [](pbt::Ctx& ctx) {
        // the same physical model twice: identity frames (RBNodeLoneParticle) and inboard frame shifted by 1e-300 (general node)
        SpatialVec R[2];
        for (int v = 0; v < 2; ++v) {
            MultibodySystem sys; SimbodyMatterSubsystem matter(sys); GeneralForceSubsystem forces(sys);
            Force::UniformGravity(forces, matter, Vec3(0, -9.8, 0)); Force::DiscreteForces df(forces, matter);
            Vec3 c(0, 0, -0.5); Body::Rigid body(MassProperties(1, c, Inertia(0.005, 0.005, 0.005).shiftFromMassCenter(c, 1)));
            MobilizedBody::Translation tr(matter.Ground(), Transform(Vec3(v ? 1e-300 : 0, 0, 0)), body, Transform());
            State s = sys.realizeTopology(); sys.realizeModel(s); df.setOneBodyForce(s, tr, SpatialVec(Vec3(1, 2, 3), Vec3(0.5, -0.25, 0.75)));
            sys.realize(s, Stage::Acceleration); Vector_<SpatialVec> all; matter.calcMobilizerReactionForces(s, all); R[v] = all[1];
        }
        ctx.desc << "leaf Translation on Ground, com=(0,0,-0.5): reaction with identity frames " << R[0] << ", with X_PF.p=(1e-300,0,0) " << R[1] << "\n";
        ctx.check(refmob::diff(R[0], R[1]) <= 1e-12, "mobilizer reaction of a lone Translation body depends on whether the frames are exactly the identity: torque differs by " + S((R[0][0] - R[1][0]).norm()));
    }});
    c.directed.push_back({"lineorientation-convert-overflow", "lineorientation-convert-overflow", [](pbt::Ctx& ctx) {
        // u = 0 on input (so a reset of u is invisible); the unused 4th q slot of the Euler state carries 5 (the library itself leaves
        // garbage there); LineOrientation::convertToQuaternions copies q[3..5] of its partition to q[4..6], i.e. into u[0..]
        MultibodySystem sys; SimbodyMatterSubsystem matter(sys); Body::Rigid body(MassProperties(1, Vec3(0), Inertia(1, 1, 1)));
        MobilizedBody::Translation tr(matter.Ground(), body); MobilizedBody::LineOrientation lo(matter.Ground(), body);
        State s = sys.realizeTopology(); matter.setUseEulerAngles(s, true); sys.realizeModel(s);
        const int q0 = lo.getFirstQIndex(s); s.updQ()[q0 + 3] = 5;
        State k; matter.convertToQuaternions(s, k);
        ctx.desc << "Translation + LineOrientation (Euler state, u=0, unused q slot = 5): after convertToQuaternions u=" << k.getU() << "\n";
        Real m = 0; for (int i = 0; i < k.getNU(); ++i) m = std::max(m, std::abs(k.getU()[i]));
        ctx.check(m == 0, "LineOrientation::convertToQuaternions wrote outside its q partition: u (all zero before) now has an entry " + S(m));
    }});
    c.directed.push_back({"convert-keeps-u", "convert-state-loses-u", [](pbt::Ctx& ctx) {
        MultibodySystem sys; SimbodyMatterSubsystem matter(sys); Body::Rigid body(MassProperties(1, Vec3(0), Inertia(1, 1, 1)));
        MobilizedBody::Pin pin(matter.Ground(), body); MobilizedBody::Ball ball(pin, Transform(Vec3(1, 0, 0)), body, Transform());
        State s = sys.realizeTopology(); sys.realizeModel(s); pin.setOneU(s, 0, -2.0); ball.setOneU(s, 1, 0.5); s.updTime() = 1.25;
        State e; matter.convertToEulerAngles(s, e);
        ctx.desc << "Pin + Ball, u=" << s.getU() << " -> convertToEulerAngles -> u=" << e.getU() << " t=" << e.getTime() << "\n";
        ctx.check(e.getNU() == s.getNU() && e.getU()[0] == -2.0 && e.getU()[2] == 0.5, "convertToEulerAngles did not copy u (documented: all continuous and discrete state variables are copied): u[0] -2 -> " + S(e.getU()[0]));
        ctx.check(e.getTime() == 1.25, "convertToEulerAngles did not copy time");
    }});
    return c;
}
} // namespace

PBT_MAIN(config(), property)
