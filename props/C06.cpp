// C06 -- Physics is independent of the chosen representation (DESIGN.md 5, C06).
// Four metamorphic sub-properties over mbgen trees (1..5 bodies), selected by a word of the global segment:
//  (a) convert: SimbodyMatterSubsystem::convertToEulerAngles / convertToQuaternions of a state keeps u, body poses, body
//      velocities and -- under identical applied forces -- udot, body accelerations, reaction forces; converting back gives
//      the same coordinates (quaternion up to sign/normalisation).
//  (b) mirror: built-in mobilizers replaced by MobilizedBody::FunctionBased (Pin, Slider, Universal, Cylinder, Planar,
//      Translation, Gimbal, Bushing; forward and reversed) or hand-written MobilizedBody::Custom (Pin, Slider, quaternion
//      Ball with qdot != u) mirrors: same q,u => same poses, velocities, M, qdot, udot, accelerations, reactions.
//  (c) reverse: one mobilizer replaced by the reversed mobilizer of the same type between the same frames (types whose set
//      of relative motions is closed under inversion); coordinates mapped with setQToFitTransform / setUToFitVelocity
//      (validated by C05); same spatial forces, no mobility force on that joint => same body accelerations, reactions,
//      kinetic energy, and same udot on all other joints.
//  (d) relocate: every base body's inboard frame pre-multiplied by a rigid X, gravity and Ground-frame body forces rotated
//      => poses X*X_GB, velocities/accelerations/reactions rotated, M, udot, kinetic energy unchanged.
#include "pbt.h"
#include "mbgen.h"
#include "refmob.h"
#include "refdyn.h"
using namespace SimTK;

namespace {
const int K6 = mbgen::K + 4;     // word 52: mirror choice, 53: spare
const Real Eps = 2.220446049250313e-16;
std::string S(double a) { return pbt::str(a); }
struct Rng { uint64_t s; double next() { s += 0x9E3779B97F4A7C15ull; uint64_t z = s; z = (z ^ (z >> 30)) * 0xBF58476D1CE4E5B9ull; z = (z ^ (z >> 27)) * 0x94D049BB133111EBull; z ^= z >> 31; return (z >> 11) / 9007199254740992.0 * 2 - 1; } };

// ------------------------------------------------------------------------------------------------ user-defined mirrors
class ConstFn : public Function { public:
    Real calcValue(const Vector&) const override { return 0; }
    Real calcDerivative(const Array_<int>&, const Vector&) const override { return 0; }
    int getArgumentSize() const override { return 0; } int getMaxDerivativeOrder() const override { return 10; } };
class IdentFn : public Function { public:
    Real calcValue(const Vector& x) const override { return x[0]; }
    Real calcDerivative(const Array_<int>& d, const Vector&) const override { return d.size() == 1 ? 1.0 : 0.0; }
    int getArgumentSize() const override { return 1; } int getMaxDerivativeOrder() const override { return 10; } };

// which of the six spatial coordinates (rx,ry,rz,tx,ty,tz) is driven by which q, for the FunctionBased mirror of a built-in
bool functionBasedMap(int type, int map[6], int& nm) {
    using namespace mbgen; for (int k = 0; k < 6; ++k) map[k] = -1;
    switch (type) {
        case Pin: map[2] = 0; nm = 1; return true;
        case Slider: map[3] = 0; nm = 1; return true;
        case Universal: map[0] = 0; map[1] = 1; nm = 2; return true;
        case Cylinder: map[2] = 0; map[5] = 1; nm = 2; return true;
        case Planar: map[2] = 0; map[3] = 1; map[4] = 2; nm = 3; return true;
        case Translation: map[3] = 0; map[4] = 1; map[5] = 2; nm = 3; return true;
        case Gimbal: map[0] = 0; map[1] = 1; map[2] = 2; nm = 3; return true;
        case Bushing: for (int k = 0; k < 6; ++k) map[k] = k; nm = 6; return true;
        default: nm = 0; return false;
    }
}
MobilizedBody makeFunctionBased(MobilizedBody& par, const mbgen::BodySpec& b, const Body& body) {
    int map[6], nm; functionBasedMap(b.type, map, nm);
    std::vector<const Function*> fn; std::vector<std::vector<int>> idx;
    for (int k = 0; k < 6; ++k) { if (map[k] >= 0) { fn.push_back(new IdentFn()); idx.push_back(std::vector<int>(1, map[k])); } else { fn.push_back(new ConstFn()); idx.push_back(std::vector<int>()); } }
    return MobilizedBody::FunctionBased(par, b.X_PF, body, b.X_BM, nm, fn, idx, b.reversed ? MobilizedBody::Reverse : MobilizedBody::Forward);
}
// hand-written Custom mirrors -------------------------------------------------------------------------
class CustomPin : public MobilizedBody::Custom::Implementation { public:
    explicit CustomPin(SimbodyMatterSubsystem& m) : Implementation(m, 1, 1, 0) {}
    Implementation* clone() const override { return new CustomPin(*this); }
    Transform calcMobilizerTransformFromQ(const State&, int, const Real* q) const override { return Transform(Rotation(q[0], ZAxis), Vec3(0)); }
    SpatialVec multiplyByHMatrix(const State&, int, const Real* u) const override { return SpatialVec(Vec3(0, 0, u[0]), Vec3(0)); }
    void multiplyByHTranspose(const State&, const SpatialVec& F, int, Real* f) const override { f[0] = F[0][2]; }
    SpatialVec multiplyByHDotMatrix(const State&, int, const Real*) const override { return SpatialVec(Vec3(0), Vec3(0)); }
    void multiplyByHDotTranspose(const State&, const SpatialVec&, int, Real* f) const override { f[0] = 0; } };
class CustomSlider : public MobilizedBody::Custom::Implementation { public:
    explicit CustomSlider(SimbodyMatterSubsystem& m) : Implementation(m, 1, 1, 0) {}
    Implementation* clone() const override { return new CustomSlider(*this); }
    Transform calcMobilizerTransformFromQ(const State&, int, const Real* q) const override { return Transform(Vec3(q[0], 0, 0)); }
    SpatialVec multiplyByHMatrix(const State&, int, const Real* u) const override { return SpatialVec(Vec3(0), Vec3(u[0], 0, 0)); }
    void multiplyByHTranspose(const State&, const SpatialVec& F, int, Real* f) const override { f[0] = F[1][0]; }
    SpatialVec multiplyByHDotMatrix(const State&, int, const Real*) const override { return SpatialVec(Vec3(0), Vec3(0)); }
    void multiplyByHDotTranspose(const State&, const SpatialVec&, int, Real* f) const override { f[0] = 0; } };
// Ball with a quaternion: qdot = N(q) u != u. N written out here (q = (w,x,y,z), u = w_FM in F): qdot = 1/2 [ -v' ; w I - [v]x ]' ...
class CustomBall : public MobilizedBody::Custom::Implementation { public:
    explicit CustomBall(SimbodyMatterSubsystem& m) : Implementation(m, 3, 4, 4) {}
    Implementation* clone() const override { return new CustomBall(*this); }
    static Mat43 N(const Vec4& q) {   // qdot = N u for angular velocity expressed in the parent (F) frame
        return Mat43(-q[1], -q[2], -q[3],
                      q[0],  q[3], -q[2],
                     -q[3],  q[0],  q[1],
                      q[2], -q[1],  q[0]) * 0.5; }
    Transform calcMobilizerTransformFromQ(const State&, int nq, const Real* q) const override {
        SimTK_ASSERT_ALWAYS(nq == 4, "CustomBall is only used in quaternion mode");
        return Transform(Rotation(refmob::Rquat(Vec4::getAs(q)), true), Vec3(0)); }
    SpatialVec multiplyByHMatrix(const State&, int, const Real* u) const override { return SpatialVec(Vec3::getAs(u), Vec3(0)); }
    void multiplyByHTranspose(const State&, const SpatialVec& F, int, Real* f) const override { Vec3::updAs(f) = F[0]; }
    SpatialVec multiplyByHDotMatrix(const State&, int, const Real*) const override { return SpatialVec(Vec3(0), Vec3(0)); }
    void multiplyByHDotTranspose(const State&, const SpatialVec&, int, Real* f) const override { Vec3::updAs(f) = Vec3(0); }
    void multiplyByN(const State& s, bool transposeMatrix, int nIn, const Real* in, int nOut, Real* out) const override {
        const Vector q = getQ(s); const Mat43 n = N(Vec4::getAs(&q[0]));
        if (transposeMatrix) Row3::updAs(out) = Row4::getAs(in) * n; else Vec4::updAs(out) = n * Vec3::getAs(in); }
    void multiplyByNInv(const State& s, bool transposeMatrix, int nIn, const Real* in, int nOut, Real* out) const override {
        const Vector q = getQ(s); const Vec4& qq = Vec4::getAs(&q[0]); const Mat34 ni = 4 * ~N(qq);     // NInv = 4 N' (gives |q|^2 I on N, as the built-in)
        if (transposeMatrix) Row4::updAs(out) = Row3::getAs(in) * ni; else Vec3::updAs(out) = ni * Vec4::getAs(in); }
    void multiplyByNDot(const State& s, bool transposeMatrix, int nIn, const Real* in, int nOut, Real* out) const override {
        const Vector q = getQ(s), u = getU(s); const Vec4 qd = N(Vec4::getAs(&q[0])) * Vec3::getAs(&u[0]); const Mat43 nd = N(qd);   // N is linear in q
        if (transposeMatrix) Row3::updAs(out) = Row4::getAs(in) * nd; else Vec4::updAs(out) = nd * Vec3::getAs(in); } };

enum Mirror { NoMirror = 0, MirrorFB, MirrorCustom };
Mirror chooseMirror(const mbgen::BodySpec& b, bool euler, uint32_t w) {
    int map[6], nm; bool fb = functionBasedMap(b.type, map, nm);
    bool cu = (b.type == mbgen::Pin || b.type == mbgen::Slider || (b.type == mbgen::Ball && !euler));
    int c = w % 4;           // 0 -> keep the built-in
    if (c == 0) return NoMirror;
    if (cu && (c == 1 || !fb)) return MirrorCustom;
    if (fb) return MirrorFB;
    return NoMirror;
}
MobilizedBody makeMirror(SimbodyMatterSubsystem& matter, MobilizedBody& par, const mbgen::BodySpec& b, const Body& body, Mirror mir) {
    MobilizedBody::Direction d = b.reversed ? MobilizedBody::Reverse : MobilizedBody::Forward;
    if (mir == MirrorFB) return makeFunctionBased(par, b, body);
    if (mir == MirrorCustom) {
        MobilizedBody::Custom::Implementation* impl = b.type == mbgen::Pin ? (MobilizedBody::Custom::Implementation*)new CustomPin(matter) : b.type == mbgen::Slider ? (MobilizedBody::Custom::Implementation*)new CustomSlider(matter) : new CustomBall(matter);
        return MobilizedBody::Custom(par, impl, b.X_PF, body, b.X_BM, d);
    }
    return mbgen::Built::makeMobilizer(par, b, body);
}

// ------------------------------------------------------------------------------------------------ systems and observables
struct Sys {
    mbgen::Built m; std::unique_ptr<Force::DiscreteForces> df;
    Sys(const mbgen::ModelSpec& spec, const Vec3& gravity, const std::vector<Mirror>* mir = nullptr) {
        m.mb.push_back(m.matter.Ground());
        for (size_t i = 0; i < spec.bodies.size(); ++i) { const mbgen::BodySpec& b = spec.bodies[i]; Body::Rigid body(b.massProps());
            m.mb.push_back(makeMirror(m.matter, m.mb[b.parent], b, body, mir ? (*mir)[i] : NoMirror)); }
        df.reset(new Force::DiscreteForces(m.forces, m.matter));
        Force::UniformGravity(m.forces, m.matter, gravity);
        m.finish(spec);
    }
    void applyForces(State& s, const Vector_<SpatialVec>& F, const Vector& f) const { df->setAllBodyForces(s, F); df->setAllMobilityForces(s, f); }
};
struct Obs { std::vector<Transform> X; std::vector<SpatialVec> V, A, Rn; Vector udot, qdot; Matrix M; Real ke = 0; };
Obs observe(const Sys& y, State& s, bool wantM) {
    Obs o; y.m.sys.realize(s, Stage::Acceleration); const SimbodyMatterSubsystem& matter = y.m.matter; int NB = matter.getNumBodies();
    Vector_<SpatialVec> R; matter.calcMobilizerReactionForces(s, R);
    for (int b = 0; b < NB; ++b) { const MobilizedBody& mb = matter.getMobilizedBody(MobilizedBodyIndex(b)); o.X.push_back(mb.getBodyTransform(s)); o.V.push_back(mb.getBodyVelocity(s)); o.A.push_back(mb.getBodyAcceleration(s)); o.Rn.push_back(R[b]); }
    o.udot = s.getUDot(); o.qdot = s.getQDot(); o.ke = y.m.sys.calcKineticEnergy(s);
    if (wantM) matter.calcM(s, o.M);
    return o;
}
struct Track { bool on = getenv("C06_EXPLORE") != nullptr; std::map<std::string, double> w; void operator()(const std::string& k, double ratio) { if (on && !(ratio <= w[k])) w[k] = ratio; }
    ~Track() { if (on) for (auto& kv : w) fprintf(stderr, "EXPLORE %-60s worst err/tol = %.3e\n", kv.first.c_str(), kv.second); } };
Track& track() { static Track t; return t; }
Real nrm(const SpatialVec& v) { return v[0].norm() + v[1].norm(); }
SpatialVec rot(const Rotation& R, const SpatialVec& v) { return SpatialVec(R * v[0], R * v[1]); }

// compare B against A transformed by the rigid motion X_GA (B's world = X * A's world). tolK multiplies the dynamic tolerances.
bool compareObs(pbt::Ctx& ctx, const std::string& what, const Obs& a, const Obs& b, const Transform& X, Real tolK, Real fscale, bool cmpUdot, bool cmpM, bool cmpReact, const std::vector<bool>* udotMask = nullptr, const std::vector<bool>* skipReact = nullptr) {
    const Rotation& R = X.R(); int NB = (int)a.X.size();
    Real ascale = 1; for (int i = 0; i < NB; ++i) ascale = std::max(ascale, nrm(a.A[i]));
    Real rscale = fscale; for (int i = 0; i < NB; ++i) rscale = std::max(rscale, nrm(a.Rn[i]));
    for (int i = 1; i < NB; ++i) {
        Transform XA = X * a.X[i];
        Real dx = refmob::diff(refmob::fromTransform(XA), refmob::fromTransform(b.X[i]));
        track()(what + " pose", dx / (1e-10 * (1 + XA.p().norm())));
        if (!(dx <= 1e-10 * (1 + XA.p().norm()))) { ctx.fail(what + ": body " + std::to_string(i) + " pose differs by " + S(dx)); return false; }
        Real dv = refmob::diff(rot(R, a.V[i]), b.V[i]);
        track()(what + " vel", dv / (1e-10 * (1 + nrm(a.V[i]))));
        if (!(dv <= 1e-10 * (1 + nrm(a.V[i])))) { ctx.fail(what + ": body " + std::to_string(i) + " velocity differs by " + S(dv)); return false; }
        Real da = refmob::diff(rot(R, a.A[i]), b.A[i]);
        track()(what + " acc", da / (tolK * ascale));
        if (!(da <= tolK * ascale)) { ctx.fail(what + ": body " + std::to_string(i) + " acceleration differs by " + S(da) + " (tol " + S(tolK * ascale) + ")"); return false; }
        if (cmpReact && !(skipReact && (*skipReact)[i])) { Real dr = refmob::diff(rot(R, a.Rn[i]), b.Rn[i]);
            track()(what + " react", dr / (tolK * rscale));
            if (!(dr <= tolK * rscale)) { ctx.fail(what + ": body " + std::to_string(i) + " mobilizer reaction differs by " + S(dr) + " (tol " + S(tolK * rscale) + ")"); return false; } }
    }
    track()(what + " ke", std::abs(a.ke - b.ke) / (1e-10 * (1 + std::abs(a.ke))));
    if (!(std::abs(a.ke - b.ke) <= 1e-10 * (1 + std::abs(a.ke)))) { ctx.fail(what + ": kinetic energy " + S(a.ke) + " vs " + S(b.ke)); return false; }
    if (cmpUdot) {
        if (!ctx.check(a.udot.size() == b.udot.size(), what + ": different number of mobilities")) return false;
        Real us = 1 + refdyn::maxAbs(a.udot);
        for (int i = 0; i < a.udot.size(); ++i) { if (udotMask && !(*udotMask)[i]) continue;
            track()(what + " udot", std::abs(a.udot[i] - b.udot[i]) / (tolK * us));
            if (!(std::abs(a.udot[i] - b.udot[i]) <= tolK * us)) { ctx.fail(what + ": udot[" + std::to_string(i) + "] " + S(a.udot[i]) + " vs " + S(b.udot[i]) + " (tol " + S(tolK * us) + ")"); return false; } }
    }
    if (cmpM) {
        Real ms = refdyn::maxAbs(a.M);
        for (int i = 0; i < a.M.nrow(); ++i) for (int j = 0; j < a.M.ncol(); ++j) {
            if (track().on) track()(what + " M", std::abs(a.M(i, j) - b.M(i, j)) / (1e-11 * (1 + ms)));
            if (!(std::abs(a.M(i, j) - b.M(i, j)) <= 1e-11 * (1 + ms))) { ctx.fail(what + ": M(" + std::to_string(i) + "," + std::to_string(j) + ") " + S(a.M(i, j)) + " vs " + S(b.M(i, j))); return false; } }
    }
    return true;
}
// condition number of the mass matrix (own Jacobi eigenvalues) -> tolerance factor for anything that involves M^-1
Real dynTol(const Matrix& M, pbt::Ctx& ctx, bool& ok) {
    std::vector<Real> ev; refdyn::symEig(M, ev); ok = ev.size() && ev.front() > 0 && ev.back() / ev.front() < 1e9;
    if (!ok) return 0; Real kappa = ev.back() / ev.front();
    ctx.label(kappa < 1e2 ? "kappa<1e2" : kappa < 1e4 ? "kappa<1e4" : kappa < 1e6 ? "kappa<1e6" : "kappa>=1e6");
    return 1e5 * Eps * M.nrow() * kappa;
}
void randomForces(Rng& rng, int NB, int nu, Vector_<SpatialVec>& F, Vector& f) {
    F.resize(NB); f.resize(nu);
    for (int b = 0; b < NB; ++b) F[b] = SpatialVec(3 * Vec3(rng.next(), rng.next(), rng.next()), 3 * Vec3(rng.next(), rng.next(), rng.next()));
    for (int i = 0; i < nu; ++i) f[i] = 2 * rng.next();
}
// known finding loneparticle-reaction-ignores-com: a forward leaf Translation on Ground with identity frames is implemented by
// RBNodeLoneParticle, whose reaction torque ignores the mass-centre offset. Site = that body (by the INPUT model), clause =
// its mobilizer reaction when the two models of a pair implement it differently (LoneParticle vs anything else).
bool isLoneParticle(const mbgen::ModelSpec& spec, int i /*0-based*/, Mirror mir = NoMirror) {
    const mbgen::BodySpec& b = spec.bodies[i];
    if (!(b.type == mbgen::Translation && mir == NoMirror && b.parent == 0 && !b.reversed && b.inKind == 0 && b.outKind == 0)) return false;
    for (auto& c : spec.bodies) if (c.parent == i + 1) return false;
    return true;
}
std::vector<bool> loneParticleSites(pbt::Ctx& ctx, const mbgen::ModelSpec& a, const mbgen::ModelSpec& b, const std::vector<Mirror>* mirB = nullptr) {
    std::vector<bool> skip(a.bodies.size() + 1, false);
    for (int i = 0; i < (int)a.bodies.size(); ++i) {
        bool la = isLoneParticle(a, i), lb = isLoneParticle(b, i, mirB ? (*mirB)[i] : NoMirror);
        if (la != lb && a.bodies[i].com.norm() != 0 && ctx.known("loneparticle-reaction-ignores-com")) { skip[i + 1] = true; ctx.label("excluded:loneparticle-reaction-ignores-com"); }
        if (la != lb) ctx.label("loneparticle-vs-general-node");
    }
    return skip;
}
bool closedUnderInversion(int t) { using namespace mbgen; return t == Pin || t == Slider || t == Cylinder || t == Screw || t == Planar || t == Ball || t == Free || t == Translation || t == Gimbal || t == Bushing; }

// ------------------------------------------------------------------------------------------------ the property
void property(const pbt::Tape& t, pbt::Ctx& ctx) {
    pbt::Reader g(t[0]);
    const int mode = g.pick(4); const int nbWanted = 1 + g.pick(5);
    mbgen::Options opt; opt.maxBodies = 5; opt.allowUnnormalizedQuat = (mode == 0 || mode == 3);
    if (mode == 0) opt.typeMask |= 0;   // all types
    mbgen::ModelSpec spec = mbgen::decodeModel(t, 1, std::min((int)t.size() - 1, nbWanted), g, opt);
    {   // make the interesting class certain: convert -> every other body has a quaternion-capable mobilizer; reverse -> the chosen body is invertible
        static const pbt::Seg zero(K6, 0u);
        auto seg = [&](int i) -> const pbt::Seg& { return (size_t)(i + 1) < t.size() ? t[i + 1] : zero; };
        if (mode == 0) { mbgen::Options oq = opt; oq.only({mbgen::Ball, mbgen::Free, mbgen::Ellipsoid, mbgen::LineOrientation, mbgen::FreeLine});
            for (int i = 0; i < spec.nBodies(); i += 2) spec.bodies[i] = mbgen::decodeBody(seg(i), i, spec.euler, spec.unnormQuat, oq); }
    }
    Rng rng{(uint64_t)g.w() * 0x100000001ull + 606};
    const Vec3 gravity(g.real(-10, 10), g.real(-10, 10), g.real(-10, 10));
    const int pickBody = g.pick(1 << 20);
    const Rotation Rrel = mbgen::readRotation(g); const Vec3 prel = mbgen::readVec3(g, -2, 2);
    static const char* modeName[] = {"convert", "mirror", "reverse", "relocate"};
    ctx.label(std::string("mode:") + modeName[mode]);
    const int nb = spec.nBodies();
    const Real fscale = 10 + gravity.norm() * 20;

    if (mode != 2) { if (ctx.wantDesc) { ctx.desc << "mode=" << modeName[mode] << " gravity=" << gravity << "\n"; spec.describe(ctx.desc); } mbgen::labelModel(ctx, spec); }
    if (mode == 0) {   // ------------------------------------------------------------------ (a) Euler <-> quaternion conversion
        Sys y(spec, gravity); State& sA = y.m.state; y.m.setState(spec);
        const int nu = sA.getNU(); if (nu == 0) { ctx.reject("nu=0"); return; }
        Vector_<SpatialVec> F; Vector f; randomForces(rng, nb + 1, nu, F, f); y.applyForces(sA, F, f);
        bool anyQuat = false; for (auto& b : spec.bodies) if (mbgen::mobHasQuaternion(b.type)) anyQuat = true;
        ctx.label(spec.euler ? "convert:euler->quat" : "convert:quat->euler"); if (!anyQuat) ctx.label("convert:no-quaternion-mobilizer");
        ctx.nontrivial(anyQuat && (nb >= 2 || nu >= 3));
        State sB;
        if (spec.euler) y.m.matter.convertToQuaternions(sA, sB); else y.m.matter.convertToEulerAngles(sA, sB);
        if (!ctx.check(y.m.matter.getUseEulerAngles(sB) == !spec.euler, "converted state does not use the other representation")) return;
        // "All continuous and discrete State variables will be copied to the outputState"
        if (!ctx.check(sB.getNU() == nu, "conversion changed the number of speeds")) return;
        // known findings, clause "u is copied" (everything else is still judged after restoring u by hand, as every caller in the
        // library effectively does): convert-state-loses-u = any conversion that really changes the representation;
        // lineorientation-convert-overflow = the mobilizer owning the LAST q slots is a LineOrientation (its conversion routines
        // write three slots past its own four, i.e. into u).
        const bool lastIsLineOrientation = spec.bodies.back().type == mbgen::LineOrientation;
        auto uKept = [&](const State& from, State& to, const char* what) {
            for (int i = 0; i < nu; ++i) if (!(to.getU()[i] == from.getU()[i])) {
                if (lastIsLineOrientation && ctx.known("lineorientation-convert-overflow")) { ctx.label("excluded:lineorientation-convert-overflow"); to.updU() = from.getU(); return true; }
                if (ctx.known("convert-state-loses-u")) { ctx.label("excluded:convert-state-loses-u"); to.updU() = from.getU(); return true; }
                ctx.fail(std::string(what) + " did not copy u[" + std::to_string(i) + "]: " + S(from.getU()[i]) + " -> " + S(to.getU()[i])); return false; }
            return true; };
        if (!uKept(sA, sB, spec.euler ? "convertToQuaternions" : "convertToEulerAngles")) return;
        // near an Euler singularity the qdot/N are ill-conditioned but poses, velocities and u-space dynamics are not
        Obs a = observe(y, sA, true); bool ok; Real tolK = dynTol(a.M, ctx, ok); if (!ok) { ctx.reject("ill-conditioned-M"); return; }
        Obs b = observe(y, sB, true);
        if (!compareObs(ctx, "state converted to the other rotation representation", a, b, Transform(), tolK, fscale, true, true, true)) return;
        // and back
        State sC; if (spec.euler) y.m.matter.convertToEulerAngles(sB, sC); else y.m.matter.convertToQuaternions(sB, sC);
        if (!ctx.check(sC.getNQ() == sA.getNQ() && sC.getNU() == nu, "round trip changed the number of coordinates")) return;
        for (int i = 1; i <= nb; ++i) { const mbgen::BodySpec& bs = spec.bodies[i - 1]; const MobilizedBody& mb = y.m.mb[i]; int nq = mb.getNumQ(sA);
            Vector qa = mb.getQAsVector(sA), qc = mb.getQAsVector(sC);
            if (mbgen::mobHasQuaternion(bs.type) && !spec.euler) {   // quaternion up to sign and normalisation
                Vec4 x(qa[0], qa[1], qa[2], qa[3]), z(qc[0], qc[1], qc[2], qc[3]); x /= x.norm(); Real d = std::min((x - z).norm(), (x + z).norm());
                // Euler middle angle near +-pi/2: the decomposition is ill-conditioned (error ~ eps/|cos|); accept sqrt(eps) there
                if (!(d <= 1e-7)) { ctx.fail("quaternion -> Euler -> quaternion changed the rotation of body " + std::to_string(i) + " by " + S(d)); return; }
                for (int k = 4; k < nq; ++k) if (!(std::abs(qa[k] - qc[k]) <= 1e-14 * (1 + std::abs(qa[k])))) { ctx.fail("round trip changed a translational coordinate"); return; }
            } else for (int k = 0; k < nq; ++k) if (!(std::abs(qa[k] - qc[k]) <= 1e-9 * (1 + std::abs(qa[k])))) { ctx.fail("round trip changed q[" + std::to_string(k) + "] of body " + std::to_string(i) + ": " + S(qa[k]) + " -> " + S(qc[k])); return; }
        }
        if (!uKept(sB, sC, "conversion back")) return;
        return;
    }
    if (mode == 1) {   // ------------------------------------------------------------------ (b) FunctionBased / Custom mirrors
        std::vector<Mirror> mir(nb, NoMirror); bool any = false, multi = false;
        for (int i = 0; i < nb; ++i) { uint32_t w = t[i + 1].size() > (size_t)mbgen::K ? t[i + 1][mbgen::K] : 0u; mir[i] = chooseMirror(spec.bodies[i], spec.euler, w);
            if (mir[i] != NoMirror) { any = true; ctx.label(std::string(mir[i] == MirrorFB ? "mirror:FunctionBased:" : "mirror:Custom:") + mbgen::mobName(spec.bodies[i].type) + (spec.bodies[i].reversed ? "/rev" : "/fwd"));
                if (mbgen::mobNU(spec.bodies[i].type) >= 2 || spec.bodies[i].parent != 0) multi = true; } }
        if (!any) ctx.label("mirror:none");
        ctx.nontrivial(any && multi);
        Sys ya(spec, gravity), yb(spec, gravity, &mir); ya.m.setState(spec); yb.m.setState(spec);
        const int nu = ya.m.state.getNU(); if (nu == 0) { ctx.reject("nu=0"); return; }
        if (!ctx.check(yb.m.state.getNU() == nu && yb.m.state.getNQ() == ya.m.state.getNQ(), "mirror model has a different number of coordinates")) return;
        Vector_<SpatialVec> F; Vector f; randomForces(rng, nb + 1, nu, F, f); ya.applyForces(ya.m.state, F, f); yb.applyForces(yb.m.state, F, f);
        Obs a = observe(ya, ya.m.state, true); bool ok; Real tolK = dynTol(a.M, ctx, ok); if (!ok) { ctx.reject("ill-conditioned-M"); return; }
        Obs b = observe(yb, yb.m.state, true);
        std::vector<bool> skipR = loneParticleSites(ctx, spec, spec, &mir);
        if (!compareObs(ctx, "user-defined mirror of built-in mobilizers", a, b, Transform(), tolK, fscale, true, true, true, nullptr, &skipR)) return;
        Real qs = 1 + refdyn::maxAbs(a.qdot);
        for (int i = 0; i < a.qdot.size(); ++i) if (!(std::abs(a.qdot[i] - b.qdot[i]) <= 1e-12 * qs)) { ctx.fail("mirror: qdot[" + std::to_string(i) + "] " + S(a.qdot[i]) + " vs " + S(b.qdot[i])); return; }
        Vector qa = ya.m.state.getQDotDot(), qb = yb.m.state.getQDotDot(); Real qds = 1 + refdyn::maxAbs(qa);
        for (int i = 0; i < qa.size(); ++i) if (!(std::abs(qa[i] - qb[i]) <= tolK * qds)) { ctx.fail("mirror: qdotdot[" + std::to_string(i) + "] " + S(qa[i]) + " vs " + S(qb[i])); return; }
        return;
    }
    if (mode == 2) {   // ------------------------------------------------------------------ (c) forward vs reversed mobilizer
        {   static const pbt::Seg zero(K6, 0u); int kk = pickBody % nb; const pbt::Seg& sg = (size_t)(kk + 1) < t.size() ? t[kk + 1] : zero;
            mbgen::Options oi = opt; oi.only({mbgen::Pin, mbgen::Slider, mbgen::Cylinder, mbgen::Screw, mbgen::Planar, mbgen::Ball, mbgen::Free, mbgen::Translation, mbgen::Gimbal, mbgen::Bushing});
            if (!closedUnderInversion(spec.bodies[kk].type)) { int par = spec.bodies[kk].parent; spec.bodies[kk] = mbgen::decodeBody(sg, kk, spec.euler, spec.unnormQuat, oi); spec.bodies[kk].parent = par; } }
        std::vector<int> cand; for (int i = 0; i < nb; ++i) if (closedUnderInversion(spec.bodies[i].type) && !(spec.bodies[i].type == mbgen::Screw && spec.bodies[i].pitch == 0)) cand.push_back(i);   // zero-pitch Screw: fit routines are a listed C05 finding
        if (cand.empty()) { ctx.reject("no-invertible-mobilizer"); return; }
        const int k = cand[pickBody % cand.size()];
        if (ctx.wantDesc) { ctx.desc << "mode=reverse (body " << k + 1 << ") gravity=" << gravity << "\n"; spec.describe(ctx.desc); } mbgen::labelModel(ctx, spec);
        mbgen::ModelSpec spec2 = spec; spec2.bodies[k].reversed = !spec.bodies[k].reversed;
        ctx.label(std::string("reverse:") + mbgen::mobName(spec.bodies[k].type) + (spec.bodies[k].reversed ? "/rev->fwd" : "/fwd->rev") + (mbgen::mobHasQuaternion(spec.bodies[k].type) ? (spec.euler ? "/euler" : "/quat") : ""));
        ctx.nontrivial(mbgen::mobNU(spec.bodies[k].type) >= 2 || spec.bodies[k].parent != 0);
        Sys ya(spec, gravity), yb(spec2, gravity); ya.m.setState(spec); yb.m.setState(spec);   // same q,u everywhere, then body k is refitted
        State& sA = ya.m.state; State& sB = yb.m.state; const int nu = sA.getNU();
        ya.m.sys.realize(sA, Stage::Velocity);
        const MobilizedBody& ka = ya.m.mb[k + 1]; const MobilizedBody& kb = yb.m.mb[k + 1];
        const Transform Xk = ka.getMobilizerTransform(sA); const SpatialVec Vk = ka.getMobilizerVelocity(sA);
        for (int j = 0; j < kb.getNumQ(sB); ++j) kb.setOneQ(sB, j, mbgen::mobHasQuaternion(spec.bodies[k].type) && !spec.euler && j == 0 ? 1.0 : 0.0);
        kb.setQToFitTransform(sB, Xk); yb.m.sys.realize(sB, Stage::Position);
        if (spec.bodies[k].type == mbgen::Gimbal || spec.bodies[k].type == mbgen::Bushing || (spec.euler && mbgen::mobHasQuaternion(spec.bodies[k].type)))
            if (std::abs(std::cos(kb.getOneQ(sB, 1))) < 0.3) { ctx.reject("reversed-euler-angles-near-singular"); return; }
        kb.setUToFitVelocity(sB, Vk); yb.m.sys.realize(sB, Stage::Velocity);
        Real dX = refmob::diff(refmob::fromTransform(kb.getMobilizerTransform(sB)), refmob::fromTransform(Xk)), dV = refmob::diff(kb.getMobilizerVelocity(sB), Vk);
        if (!(dX <= 1e-10 * (1 + Xk.p().norm()) && dV <= 1e-9 * (1 + nrm(Vk)))) { ctx.fail("reversed " + std::string(mbgen::mobName(spec.bodies[k].type)) + " could not be put into the forward mobilizer's state by setQToFitTransform/setUToFitVelocity: pose off by " + S(dX) + ", velocity off by " + S(dV)); return; }
        Vector_<SpatialVec> F; Vector f; randomForces(rng, nb + 1, nu, F, f);
        std::vector<bool> mask(nu, true); { int u0 = ka.getFirstUIndex(sA); for (int j = 0; j < ka.getNumU(sA); ++j) { f[u0 + j] = 0; mask[u0 + j] = false; } }
        ya.applyForces(sA, F, f); yb.applyForces(sB, F, f);
        Obs a = observe(ya, sA, true); bool ok; Real tolK = dynTol(a.M, ctx, ok); if (!ok) { ctx.reject("ill-conditioned-M"); return; }
        Obs b = observe(yb, sB, false);
        std::vector<bool> skipR = loneParticleSites(ctx, spec, spec2);
        if (!compareObs(ctx, "reversed mobilizer in the same physical state", a, b, Transform(), tolK * 10, fscale, true, false, true, &mask, &skipR)) return;
        // The udot of the re-parameterised joint has no counterpart to compare with, and an error of its bias term inside range(H) is
        // absorbed by udot without changing the reported A_GB. "Same body motion" therefore also demands that the reversed model's
        // (qdot, udot) really produce those accelerations: d/dt of its reported body velocities along its own motion (5-point FD)
        // must equal the forward model's accelerations.
        {
            // step: 1e-3, reduced for violent accelerations (light bodies under O(1) forces): the stencil's truncation error grows like
            // |udot|^3 h^4, with h ~ 0.02/sqrt|udot| it stays ~1e-8 relative
            const Real hfd = std::min(1e-3, 0.02 / std::sqrt(1 + refdyn::maxAbs(sB.getUDot())));
            std::vector<SpatialVec> Afd = refdyn::referenceAccelerations(yb.m.sys, yb.m.matter, sB, sB.getUDot(), hfd);
            Real ascale = 1; for (auto& x : a.A) ascale = std::max(ascale, nrm(x)); Real us = 1 + refdyn::maxAbs(sB.getU());
            for (int i = 1; i <= nb; ++i) { Real d = refdyn::dot(Afd[i] - a.A[i], Afd[i] - a.A[i]); d = std::sqrt(d);
                track()("reversed: FD acceleration along own udot", d / (1e-5 * ascale * us * us));
                if (!(d <= 1e-5 * ascale * us * us)) { ctx.fail("reversed mobilizer: body " + std::to_string(i) + " d/dt of velocity along the reversed model's own qdot/udot differs from the forward model's acceleration by " + S(d)); return; } }
        }
        return;
    }
    {                  // ------------------------------------------------------------------ (d) rigid relocation of the whole model
        const Transform X(Rrel, prel);
        mbgen::ModelSpec spec2 = spec; int nbase = 0;
        for (auto& b : spec2.bodies) if (b.parent == 0) { b.X_PF = X * b.X_PF; b.inKind = 2; ++nbase; }
        ctx.nontrivial(nb >= 2 && spec.bodies[0].type != mbgen::Weld);
        Sys ya(spec, gravity), yb(spec2, X.R() * gravity); ya.m.setState(spec); yb.m.setState(spec);
        const int nu = ya.m.state.getNU(); if (nu == 0) { ctx.reject("nu=0"); return; }
        Vector_<SpatialVec> F, F2; Vector f; randomForces(rng, nb + 1, nu, F, f); F2 = F; for (int b = 0; b <= nb; ++b) F2[b] = rot(X.R(), F[b]);
        ya.applyForces(ya.m.state, F, f); yb.applyForces(yb.m.state, F2, f);
        Obs a = observe(ya, ya.m.state, true); bool ok; Real tolK = dynTol(a.M, ctx, ok); if (!ok) { ctx.reject("ill-conditioned-M"); return; }
        Obs b = observe(yb, yb.m.state, true);
        std::vector<bool> skipR = loneParticleSites(ctx, spec, spec2);
        compareObs(ctx, "model relocated by a rigid transform", a, b, X, tolK, fscale, true, true, true, nullptr, &skipR);
    }
}

pbt::Config config() {
    pbt::Config c; c.prop = "C06"; c.K = K6; c.minUnits = 1;
    c.quick = {3000, 10000, 30, 25}; c.thorough = {15000, 40000, 30, 240};
    c.rule = "rapidcheck tape -> mbgen tree of 1..5 bodies (18 mobilizer types, forward/reversed, frame kinds, quaternion or Euler, non-singular q, u in [-2,2]), gravity in [-10,10]^3, tape-seeded body and mobility forces; mode in {convert, mirror, reverse, relocate}. Non-trivial: convert: a quaternion-capable mobilizer and (>=2 bodies or >=3 dofs); mirror: a mirrored mobilizer with >=2 dofs or not on Ground; reverse: the reversed mobilizer has >=2 dofs or is not a base body; relocate: >=2 bodies and the first is not welded.";
    c.assumptions = {"reverse: only mobilizer types whose set of relative motions is closed under inversion are reversed (Pin, Slider, Cylinder, Screw with pitch != 0, Planar, Ball, Free, Translation, Gimbal, Bushing); setQToFitTransform/setUToFitVelocity of these types are trusted (C05)",
                     "tolerances: poses/velocities/KE 1e-10 relative, M 1e-11, accelerations/reactions/udot 1e5*eps*nu*kappa(M) (observed <= 1e-3 of that), FD acceleration clause 1e-5 (observed <= 0.23e-6/1e-6 i.e. 40x margin); kappa(M) >= 1e9 rejected",
                     "mirror: FunctionBased built from identity/constant Functions; Custom Ball only in quaternion models"};
    c.requiredLabels = {"mode:convert", "mode:mirror", "mode:reverse", "mode:relocate", "convert:quat->euler", "convert:euler->quat", "mob:Ellipsoid/rev/quat", "mob:FreeLine/fwd/euler", "mob:LineOrientation/rev/quat",
                        "mirror:FunctionBased:Universal/rev", "mirror:FunctionBased:Bushing/fwd", "mirror:FunctionBased:Planar/rev", "mirror:FunctionBased:Gimbal/fwd", "mirror:FunctionBased:Cylinder/rev", "mirror:Custom:Ball/fwd", "mirror:Custom:Ball/rev", "mirror:Custom:Pin/rev", "mirror:Custom:Slider/fwd",
                        "reverse:Free/fwd->rev/quat", "reverse:Free/rev->fwd/euler", "reverse:Planar/fwd->rev", "reverse:Bushing/rev->fwd", "reverse:Gimbal/fwd->rev", "reverse:Screw/fwd->rev", "reverse:Ball/rev->fwd/quat", "loneparticle-vs-general-node", "nbodies:4-6"};
    c.directed.push_back({"loneparticle-reaction", "loneparticle-reaction-ignores-com", [](pbt::Ctx& ctx) {
        // the same physical model twice: identity frames (RBNodeLoneParticle) and inboard frame shifted by 1e-300 (general node)
        SpatialVec R[2];
        for (int v = 0; v < 2; ++v) {
            MultibodySystem sys; SimbodyMatterSubsystem matter(sys); GeneralForceSubsystem forces(sys);
            Force::UniformGravity(forces, matter, Vec3(0, -9.8, 0)); Force::DiscreteForces df(forces, matter);
            Vec3 c(0, 0, -0.5); Body::Rigid body(MassProperties(1, c, Inertia(0.005, 0.005, 0.005).shiftFromMassCenter(c, 1)));
            MobilizedBody::Translation tr(matter.Ground(), Transform(Vec3(v ? 1e-300 : 0, 0, 0)), body, Transform());
            State s = sys.realizeTopology(); sys.realizeModel(s); df.setOneBodyForce(s, tr, SpatialVec(Vec3(1, 2, 3), Vec3(0.5, -0.25, 0.75)));
            sys.realize(s, Stage::Acceleration); Vector_<SpatialVec> all; matter.calcMobilizerReactionForces(s, all); R[v] = all[1];
        }
        ctx.desc << "leaf Translation on Ground, com=(0,0,-0.5): reaction with identity frames " << R[0] << ", with X_PF.p=(1e-300,0,0) " << R[1] << "\n";
        ctx.check(refmob::diff(R[0], R[1]) <= 1e-12, "mobilizer reaction of a lone Translation body depends on whether the frames are exactly the identity: torque differs by " + S((R[0][0] - R[1][0]).norm()));
    }});
    c.directed.push_back({"lineorientation-convert-overflow", "lineorientation-convert-overflow", [](pbt::Ctx& ctx) {
        // u = 0 on input (so a reset of u is invisible); the unused 4th q slot of the Euler state carries 5 (the library itself leaves
        // garbage there); LineOrientation::convertToQuaternions copies q[3..5] of its partition to q[4..6], i.e. into u[0..]
        MultibodySystem sys; SimbodyMatterSubsystem matter(sys); Body::Rigid body(MassProperties(1, Vec3(0), Inertia(1, 1, 1)));
        MobilizedBody::Translation tr(matter.Ground(), body); MobilizedBody::LineOrientation lo(matter.Ground(), body);
        State s = sys.realizeTopology(); matter.setUseEulerAngles(s, true); sys.realizeModel(s);
        const int q0 = lo.getFirstQIndex(s); s.updQ()[q0 + 3] = 5;
        State k; matter.convertToQuaternions(s, k);
        ctx.desc << "Translation + LineOrientation (Euler state, u=0, unused q slot = 5): after convertToQuaternions u=" << k.getU() << "\n";
        Real m = 0; for (int i = 0; i < k.getNU(); ++i) m = std::max(m, std::abs(k.getU()[i]));
        ctx.check(m == 0, "LineOrientation::convertToQuaternions wrote outside its q partition: u (all zero before) now has an entry " + S(m));
    }});
    c.directed.push_back({"convert-keeps-u", "convert-state-loses-u", [](pbt::Ctx& ctx) {
        MultibodySystem sys; SimbodyMatterSubsystem matter(sys); Body::Rigid body(MassProperties(1, Vec3(0), Inertia(1, 1, 1)));
        MobilizedBody::Pin pin(matter.Ground(), body); MobilizedBody::Ball ball(pin, Transform(Vec3(1, 0, 0)), body, Transform());
        State s = sys.realizeTopology(); sys.realizeModel(s); pin.setOneU(s, 0, -2.0); ball.setOneU(s, 1, 0.5); s.updTime() = 1.25;
        State e; matter.convertToEulerAngles(s, e);
        ctx.desc << "Pin + Ball, u=" << s.getU() << " -> convertToEulerAngles -> u=" << e.getU() << " t=" << e.getTime() << "\n";
        ctx.check(e.getNU() == s.getNU() && e.getU()[0] == -2.0 && e.getU()[2] == 0.5, "convertToEulerAngles did not copy u (documented: all continuous and discrete state variables are copied): u[0] -2 -> " + S(e.getU()[0]));
        ctx.check(e.getTime() == 1.25, "convertToEulerAngles did not copy time");
    }});
    return c;
}
} // namespace

PBT_MAIN(config(), property)
