// C45 -- Cable paths are geometrically and energetically consistent (DESIGN.md section 5, C45).
// Domain: CableSpan (both CableSpanAlgorithms) over 0..3 obstacles (sphere, cylinder, ellipsoid, torus through its
// hole) and 0..2 via points, interleaved in generated order; origin, termination, obstacles and via points attached to
// Ground or to bodies of a 1..3 body mbgen tree (all mobilizer types) at a generated state with u != 0. The scene is
// laid out along a nominal line so that every obstacle with positive "depth" obstructs the straight path and the
// contact point hint lies on the obstructing side (a wrapping solution exists); negative depth = lift-off.
// Oracle (only where the path solver reports convergence: getSmoothness <= getSmoothnessTolerance):
//  V1 calcLength = sum of straight segments + sum of calcCurveSegmentArcLength, rebuilt from the reported segment end
//     points (Frenet frame origins, via point locations, end stations);
//  V2 length >= distance origin -> via points -> termination (hence >= straight-line distance);
//  V3 curve segment points (calcCurveSegmentResampledPoints, frame origins) satisfy MY implicit surface equations;
//     chord sum of the resampled points <= arc length and -> arc length;
//  V4 straight segments do not penetrate the obstacle they touch / skip (48 samples, my implicit functions);
//  V5 tangent continuity: the angle between each straight segment and the Frenet tangent at its junction is within
//     the tolerance the solver claims; Frenet normal = my surface normal; end tangent directions = segment directions;
//  FD calcLengthDot = d/dt calcLength along q + h*qdot (5-point stencil, warm-started re-solve), only if all four
//     stencil states converge with the same contact topology;
//  W  sum_b F_b.V_b of applyBodyForces(T) = -T*calcLengthDot = calcCablePower(T); net force and net moment of the
//     cable forces vanish (internal force system); tension <= 0 applies nothing;
//  D  the two algorithms agree on the length when both converge to the same topology and the same arcs.
#include "pbt.h"
#include "mbgen.h"
#include <iostream>
using namespace SimTK;

namespace {

enum ItemKind { SPHERE = 0, CYLINDER, ELLIPSOID, TORUS, VIA };
const char* kindName[] = {"sphere", "cylinder", "ellipsoid", "torus", "via"};

struct Item {
    int kind = SPHERE, body = 0;
    double r = 0.4; Vec3 radii = Vec3(0.4); double R = 1.2;     // sphere/cylinder radius r; ellipsoid radii; torus (R, tube r)
    double depth = 0.1;                                          // how far the obstacle's top reaches above the nominal line (<0: clear of it)
    Transform X_GS;                                              // designed pose of the surface frame (obstacles) at the initial state
    Vec3 hint_S = Vec3(0), p_G = Vec3(0);                        // contact hint in S; via point location in G
    Transform X_BS; Vec3 station = Vec3(0);                      // as attached to the body
    int obstIx = -1, viaIx = -1;
    // my own implicit function: > 0 outside, < 0 inside, in length units near the surface; and its gradient direction
    double value(const Vec3& p) const {
        switch (kind) {
            case SPHERE: return p.norm() - r;
            case CYLINDER: return std::sqrt(p[0] * p[0] + p[1] * p[1]) - r;
            case ELLIPSOID: {   // first-order distance (F-1)/|grad F| with F = sum (p_i/a_i)^2, grad F = 2 p_i/a_i^2
                double F = 0; Vec3 g; for (int i = 0; i < 3; ++i) { F += square(p[i] / radii[i]); g[i] = 2 * p[i] / square(radii[i]); }
                double gn = g.norm(); return gn > 0 ? (F - 1) / gn : -radii[0]; }
            case TORUS: { double rho = std::sqrt(p[0] * p[0] + p[1] * p[1]); return std::sqrt((rho - R) * (rho - R) + p[2] * p[2]) - r; }
        }
        return 0;
    }
    Vec3 normal(const Vec3& p) const {
        switch (kind) {
            case SPHERE: return p / p.norm();
            case CYLINDER: { Vec3 n(p[0], p[1], 0); return n / n.norm(); }
            case ELLIPSOID: { Vec3 g(p[0] / (radii[0] * radii[0]), p[1] / (radii[1] * radii[1]), p[2] / (radii[2] * radii[2])); return g / g.norm(); }
            case TORUS: { double rho = std::sqrt(p[0] * p[0] + p[1] * p[1]); Vec3 c(p[0] / rho * R, p[1] / rho * R, 0); Vec3 n = p - c; return n / n.norm(); }
        }
        return Vec3(0, 1, 0);
    }
    double minCurvRadius() const { return kind == ELLIPSOID ? square(std::min(radii[0], std::min(radii[1], radii[2]))) / std::max(radii[0], std::max(radii[1], radii[2])) : r; }
    double size() const { return kind == ELLIPSOID ? std::max(radii[0], std::max(radii[1], radii[2])) : kind == TORUS ? R + r : r; }
};
double surfaceValue(const Item& it, const Vec3& p_S) { return it.value(p_S); }

bool g_noExclusions = false;   // set by directed reproducers

struct Scene {
    mbgen::ModelSpec model; int nb = 1;
    std::vector<Item> items;          // in path order
    int originBody = 0, termBody = 0; Vec3 O_G, T_G, originStation, termStation;
    int alg = 0, tolKind = 0; double smoothTol = 1e-9, curveAcc = 1e-11, tension = 3; bool defaultTol = false;
    int nObst = 0, nVia = 0; bool pathVariant = false;
    double histU[8] = {1, -0.5, 0.7, -1.2, 0.3, 0.9, -0.8, 0.4}, histDq = 0.5; bool histQFirst = false;   // same-State history: new speeds, q displacement, order
};

Scene decode(const pbt::Tape& t) {
    Scene S; pbt::Reader g(t[0]);
    const int nUnits = (int)t.size() - 1;
    S.nb = 1 + g.pick(3);
    mbgen::Options opt; opt.maxBodies = 3;
    S.model = mbgen::decodeModel(t, 1, S.nb, g, opt); S.nb = S.model.nBodies();
    S.model.zeroU = false;     // the property is about motion: never the all-zero-u class
    S.alg = g.pick(2);
    S.tolKind = g.pick(8);     // 0..4: 1e-9, 5: 1e-8, 6: 1e-6, 7: library default (0.1 degree)
    S.smoothTol = S.tolKind <= 4 ? 1e-9 : S.tolKind == 5 ? 1e-8 : S.tolKind == 6 ? 1e-6 : 0.1 / 180 * Pi; S.defaultTol = S.tolKind == 7;
    S.curveAcc = g.boolean() ? 1e-12 : 1e-11;
    S.tension = g.logreal(0.1, 100);
    bool allOnOneBody = g.chance(1, 16);
    S.pathVariant = g.chance(1, 3);
    S.originBody = g.pick(S.nb + 1); S.termBody = g.pick(S.nb + 1);
    Vec3 oOff(0, g.real(-0.3, 0.3), g.real(-0.3, 0.3)), tOff(0, g.real(-0.3, 0.3), g.real(-0.3, 0.3));
    // items from the units after the body units
    for (int u = 1 + S.nb; u <= nUnits && (int)S.items.size() < 5; ++u) {
        pbt::Reader r(t[u]); Item it;
        it.kind = (r.pick(5) + (u - 1 - S.nb)) % 5;   // the unit position offsets the kind: zero units give sphere, cylinder, ellipsoid, torus, via
        it.body = (r.pick(S.nb + 1) + 1) % (S.nb + 1);   // word 0 -> body 1 (moving)
        if (it.kind == VIA ? S.nVia >= 2 : S.nObst >= 3) continue;
        double rr = r.uniform(0.25, 0.5), fa = r.uniform(0.6, 1.4), fc = r.uniform(0.6, 1.4), fR = r.uniform(3.5, 5.0);
        double depthFrac = r.real(-0.3, 0.8); if (depthFrac == 0) depthFrac = 0.3;
        double zoff = r.real(-0.2, 0.2), yoff = r.real(-0.5, 0.5);
        double ax[3]; r.unit3(ax); double ang = r.real(-0.4, 0.4);
        it.r = it.kind == TORUS ? 0.5 * rr : rr; it.radii = Vec3(fa * rr, rr, fc * rr); it.R = fR * it.r;
        it.depth = depthFrac * (it.kind == ELLIPSOID ? it.radii[1] : it.r);
        // provisional data kept in X_GS / p_G: x position is assigned below
        it.X_GS = Transform(Rotation(ang, UnitVec3(Vec3(ax[0], ax[1], ax[2]))), Vec3(0, yoff, zoff));
        if (it.kind == VIA) S.nVia++; else S.nObst++;
        S.items.push_back(it);
    }
    const int n = (int)S.items.size(); const double spacing = 2.0, Lx = 0.5 * spacing * (n + 1);
    S.O_G = Vec3(-Lx, 0, 0) + oOff; S.T_G = Vec3(Lx, 0, 0) + tOff;
    int oi = 0, vi = 0;
    // via points first: offsets from the nominal line origin -> termination; then the obstacles are placed relative to
    // the polyline origin -> via points -> termination (the path the cable takes when nothing is wrapped)
    std::vector<Vec3> poly; poly.push_back(S.O_G);
    for (int i = 0; i < n; ++i) { Item& it = S.items[i]; if (it.kind != VIA) continue; const double x = -Lx + spacing * (i + 1), f = (x + Lx) / (2 * Lx);
        it.p_G = S.O_G + f * (S.T_G - S.O_G) + Vec3(0, it.X_GS.p()[1], it.X_GS.p()[2]); it.viaIx = vi++; poly.push_back(it.p_G); }
    poly.push_back(S.T_G);
    auto onPolyline = [&](double x) { for (size_t k = 0; k + 1 < poly.size(); ++k) if (x <= poly[k + 1][0] || k + 2 == poly.size()) { double f = (x - poly[k][0]) / (poly[k + 1][0] - poly[k][0]); return Vec3(poly[k] + f * (poly[k + 1] - poly[k])); } return poly.back(); };
    for (int i = 0; i < n; ++i) {
        Item& it = S.items[i]; if (it.kind == VIA) continue; const double x = -Lx + spacing * (i + 1);
        const Vec3 onLine = onPolyline(x); const Rotation smallRot = it.X_GS.R(); const double zoff = it.X_GS.p()[2];
        it.obstIx = oi++;
        const double rho = it.kind == ELLIPSOID ? it.radii[1] : it.r;    // extent towards +y
        if (it.kind == TORUS) {
            // ring in the y-z plane (axis along x), the cable passes through the hole over the lower part of the tube
            Rotation R_GS = smallRot * Rotation(Pi / 2, YAxis); Vec3 c = onLine + Vec3(0, it.depth - it.r + it.R, zoff);
            it.X_GS = Transform(R_GS, c); it.hint_S = ~R_GS * Vec3(0, -it.R + it.r, 0);
        } else {
            Vec3 c = onLine + Vec3(0, it.depth - rho, zoff);
            it.X_GS = Transform(smallRot, c); it.hint_S = ~smallRot * Vec3(0, rho, 0);
        }
    }
    if (allOnOneBody) { int b = S.originBody; S.termBody = b; for (auto& it : S.items) it.body = b; }
    // same-State history (read last so that older tapes keep their meaning): replacement speeds, q displacement, order of the steps
    { bool any = false; double hu[8]; for (int i = 0; i < 8; ++i) { hu[i] = g.real(-2, 2); if (hu[i] != 0) any = true; } if (any) for (int i = 0; i < 8; ++i) S.histU[i] = hu[i];
      double dq = g.real(-1, 1); if (dq != 0) S.histDq = dq; S.histQFirst = g.boolean(); }
    return S;
}

struct Built {
    std::unique_ptr<mbgen::Built> m; std::unique_ptr<CableSubsystem> cables; std::unique_ptr<CableSpan> cable;
};

// attach the designed scene to the bodies as they stand at the initial state
void attach(Scene& S) {
    mbgen::Built pre(S.model); pre.finish(S.model); pre.setState(S.model); pre.sys.realize(pre.state, Stage::Position);
    auto X_GB = [&](int b) { return pre.mb[b].getBodyTransform(pre.state); };
    S.originStation = ~X_GB(S.originBody) * S.O_G; S.termStation = ~X_GB(S.termBody) * S.T_G;
    for (auto& it : S.items) { Transform X = X_GB(it.body); Transform Xinv = ~X; if (it.kind == VIA) it.station = Xinv * it.p_G; else it.X_BS = Xinv * it.X_GS; }
}

void build(const Scene& S, int alg, Built& B) {
    B.m.reset(new mbgen::Built(S.model));
    B.cables.reset(new CableSubsystem(B.m->sys));
    B.cable.reset(new CableSpan(*B.cables, B.m->mb[S.originBody], S.originStation, B.m->mb[S.termBody], S.termStation));
    CableSpan& c = *B.cable;
    for (const Item& it : S.items) {
        if (it.kind == VIA) { c.addViaPoint(B.m->mb[it.body], it.station); continue; }
        std::shared_ptr<ContactGeometry> geo;
        switch (it.kind) { case SPHERE: geo.reset(new ContactGeometry::Sphere(it.r)); break; case CYLINDER: geo.reset(new ContactGeometry::Cylinder(it.r)); break;
            case ELLIPSOID: geo.reset(new ContactGeometry::Ellipsoid(it.radii)); break; default: geo.reset(new ContactGeometry::Torus(it.R, it.r)); break; }
        c.addObstacle(B.m->mb[it.body], it.X_BS, geo, it.hint_S);
    }
    c.setCurveSegmentAccuracy(S.curveAcc);
    if (!S.defaultTol) c.setSmoothnessTolerance(S.smoothTol);
    c.setAlgorithm(alg == 0 ? CableSpanAlgorithm::MinimumLength : CableSpanAlgorithm::Scholz2015);
    B.m->finish(S.model); B.m->setState(S.model);
}

std::string fmt(double x) { return pbt::str(x); }
std::string fmt(const Vec3& v) { std::ostringstream o; o.precision(12); o << "(" << v[0] << "," << v[1] << "," << v[2] << ")"; return o.str(); }

// Everything read from one solved state
struct PathData {
    bool ok = false; std::string why;
    double L = 0, smooth = 0; std::vector<char> contact; std::vector<Transform> XP, XQ; std::vector<double> arc; std::vector<Vec3> via;
    Vec3 O, T;
};
PathData readPath(const Scene& S, const Built& B, const State& s) {
    PathData d; const CableSpan& c = *B.cable;
    d.L = c.calcLength(s); d.smooth = c.getSmoothness(s);
    d.O = B.m->mb[S.originBody].getBodyTransform(s) * S.originStation; d.T = B.m->mb[S.termBody].getBodyTransform(s) * S.termStation;
    d.contact.resize(S.nObst); d.XP.resize(S.nObst); d.XQ.resize(S.nObst); d.arc.assign(S.nObst, 0.0); d.via.resize(S.nVia);
    for (int i = 0; i < S.nObst; ++i) { CableSpanObstacleIndex ix(i); d.contact[i] = c.isInContactWithObstacle(s, ix);
        if (d.contact[i]) { d.XP[i] = c.calcCurveSegmentInitialFrenetFrame(s, ix); d.XQ[i] = c.calcCurveSegmentFinalFrenetFrame(s, ix); d.arc[i] = c.calcCurveSegmentArcLength(s, ix); } }
    for (int i = 0; i < S.nVia; ++i) d.via[i] = c.calcViaPointLocation(s, CableSpanViaPointIndex(i));
    d.ok = true; return d;
}

void judge(Scene& S, pbt::Ctx& ctx) {
    attach(S);
    if (ctx.wantDesc) {
        ctx.desc.precision(17);
        ctx.desc << "CableSpan algorithm=" << (S.alg == 0 ? "MinimumLength" : "Scholz2015") << " smoothnessTolerance=" << (S.defaultTol ? std::string("default") : fmt(S.smoothTol)) << " curveAccuracy=" << S.curveAcc << " tension=" << S.tension << "\n";
        ctx.desc << "origin: body " << S.originBody << " station " << S.originStation << " (G: " << S.O_G << ")  termination: body " << S.termBody << " station " << S.termStation << " (G: " << S.T_G << ")\n";
        for (auto& it : S.items) { ctx.desc << " item " << kindName[it.kind] << " body=" << it.body;
            if (it.kind == VIA) ctx.desc << " station=" << it.station << " (G: " << it.p_G << ")";
            else { ctx.desc << " r=" << it.r; if (it.kind == ELLIPSOID) ctx.desc << " radii=" << it.radii; if (it.kind == TORUS) ctx.desc << " R=" << it.R; ctx.desc << " depth=" << it.depth << " X_BS.p=" << it.X_BS.p() << " X_BS.R(quat)=" << it.X_BS.R().convertRotationToQuaternion().asVec4() << " hint_S=" << it.hint_S << " centre_G=" << it.X_GS.p(); }
            ctx.desc << "\n"; }
        S.model.describe(ctx.desc);
    }
    mbgen::labelModel(ctx, S.model);
    for (auto& it : S.items) ctx.label(std::string("item:") + kindName[it.kind]);
    ctx.label("obstacles:" + std::to_string(S.nObst)); ctx.label("viapoints:" + std::to_string(S.nVia));
    ctx.label(S.alg == 0 ? "alg:MinimumLength" : "alg:Scholz2015");
    ctx.label(S.defaultTol ? "tol:default" : S.smoothTol <= 1e-9 ? "tol:1e-9" : S.smoothTol <= 1e-8 ? "tol:1e-8" : "tol:1e-6");

    Built B; State s; PathData d;
    try {
        build(S, S.alg, B); s = B.m->state;
        B.m->sys.realize(s, Stage::Velocity);
        d = readPath(S, B, s);
    } catch (const std::exception& e) { ctx.reject("solver-exception"); if (ctx.wantDesc) ctx.desc << "exception: " << std::string(e.what()).substr(0, 300) << "\n"; return; }
    const CableSpan& cable = *B.cable; const MultibodySystem& sys = B.m->sys; const SimbodyMatterSubsystem& matter = B.m->matter;
    const double tol = cable.getSmoothnessTolerance();
    if (!ctx.check(S.defaultTol || tol == S.smoothTol, "getSmoothnessTolerance does not return the value set")) return;
    if (!(d.smooth <= tol)) { ctx.reject("unconverged"); if (ctx.wantDesc) ctx.desc << "smoothness " << d.smooth << " > tolerance " << tol << " after " << cable.getNumSolverIterations(s) << " iterations\n"; return; }
    if (!std::isfinite(d.L)) { ctx.fail("converged path (smoothness " + fmt(d.smooth) + ") has non-finite length " + fmt(d.L)); return; }

    int nContact = 0; for (int i = 0; i < S.nObst; ++i) if (d.contact[i]) ++nContact;
    ctx.label("in-contact:" + std::to_string(nContact)); if (nContact < S.nObst) ctx.label("lift-off");
    for (auto& it : S.items) if (it.kind != VIA) ctx.label(std::string(d.contact[it.obstIx] ? "contact:" : "lifted:") + kindName[it.kind]);
    bool movingObstacleInContact = false; for (auto& it : S.items) if (it.kind != VIA && d.contact[it.obstIx] && it.body != 0) movingObstacleInContact = true;
    ctx.nontrivial(nContact >= 1 && movingObstacleInContact);

    // ---------------- path points in order: (point, obstacle index it belongs to or -1)
    struct Node { Vec3 in, out; int item; };   // straight segment arrives at `in`, next straight segment leaves from `out`
    std::vector<Node> nodes; nodes.push_back({d.O, d.O, -1});
    for (int k = 0; k < (int)S.items.size(); ++k) { const Item& it = S.items[k];
        if (it.kind == VIA) nodes.push_back({d.via[it.viaIx], d.via[it.viaIx], k});
        else if (d.contact[it.obstIx]) nodes.push_back({d.XP[it.obstIx].p(), d.XQ[it.obstIx].p(), k}); }
    nodes.push_back({d.T, d.T, -2});
    double scale = 0; for (size_t i = 0; i + 1 < nodes.size(); ++i) scale += (nodes[i + 1].in - nodes[i].out).norm();
    double sumStraight = scale, sumArc = 0; for (int i = 0; i < S.nObst; ++i) if (d.contact[i]) sumArc += d.arc[i];
    scale = std::max(scale + sumArc, 1.0);
    if (ctx.wantDesc) { ctx.desc << "length=" << d.L << " smoothness=" << d.smooth << " iterations=" << cable.getNumSolverIterations(s) << " straight=" << sumStraight << " arcs=" << sumArc << " contact="; for (char c : d.contact) ctx.desc << int(c); ctx.desc << "\n"; }

    // V1 length = straight + arcs
    for (int i = 0; i < S.nObst; ++i) if (d.contact[i] && !(d.arc[i] >= 0)) { ctx.fail("obstacle " + std::to_string(i) + " in contact but calcCurveSegmentArcLength = " + fmt(d.arc[i])); return; }
    if (!(std::abs(d.L - (sumStraight + sumArc)) <= 1e-9 * scale)) { ctx.fail("calcLength " + fmt(d.L) + " != straight segments " + fmt(sumStraight) + " + curve segments " + fmt(sumArc) + " rebuilt from the reported segment end points (difference " + fmt(d.L - sumStraight - sumArc) + ")"); return; }
    // V2 length >= polyline origin -> via points -> termination >= straight-line distance
    { double poly = 0; Vec3 prev = d.O; for (auto& it : S.items) if (it.kind == VIA) { poly += (d.via[it.viaIx] - prev).norm(); prev = d.via[it.viaIx]; } poly += (d.T - prev).norm();
      if (!(d.L >= poly - 1e-9 * scale)) { ctx.fail("cable length " + fmt(d.L) + " is shorter than the straight connection of its end and via points " + fmt(poly)); return; }
      if (!(d.L >= (d.T - d.O).norm() - 1e-9 * scale)) { ctx.fail("cable length " + fmt(d.L) + " is shorter than the end point distance " + fmt((d.T - d.O).norm())); return; } }
    // via point locations = body station
    for (auto& it : S.items) if (it.kind == VIA) { Vec3 p = B.m->mb[it.body].getBodyTransform(s) * it.station; if (!((p - d.via[it.viaIx]).norm() <= 1e-12 * scale)) { ctx.fail("calcViaPointLocation " + fmt(d.via[it.viaIx]) + " != station in Ground " + fmt(p)); return; } }

    // V3 curve points on the surfaces, chord sum vs arc length; V5 frames
    static const bool calib = getenv("C45_CALIB") != nullptr;
    double worstSurfEnd = 0, worstSurfMid = 0, worstChord = 0, worstAngle = 0, worstNormal = 0, worstPen = 0;
    for (int k = 0; k < (int)S.items.size(); ++k) { const Item& it = S.items[k]; if (it.kind == VIA || !d.contact[it.obstIx]) continue;
        const int i = it.obstIx; const Transform X_GS = B.m->mb[it.body].getBodyTransform(s) * it.X_BS; const Transform X_SG = ~X_GS;
        const bool analytic = it.kind == SPHERE || it.kind == CYLINDER;
        const double tolEnd = 1e-8 * it.size(), tolMid = (analytic ? 1e-8 : 1e-6) * it.size();   // calibration: observed <= 5e-11 (end points and resampled points)
        for (int e = 0; e < 2; ++e) { const Transform& F = e == 0 ? d.XP[i] : d.XQ[i]; Vec3 pS = X_SG * F.p(); double v = surfaceValue(it, pS); worstSurfEnd = std::max(worstSurfEnd, std::abs(v) / it.size());
            if (!calib && !(std::abs(v) <= tolEnd)) { ctx.fail(std::string(e == 0 ? "initial" : "final") + " contact point of obstacle " + std::to_string(i) + " (" + kindName[it.kind] + ") is off the surface by " + fmt(v)); return; }
            // Frenet frame: x tangent, y surface normal, z binormal; right handed orthonormal is guaranteed by Rotation; y must be my outward normal
            Vec3 nG = X_GS.R() * it.normal(pS); double mis = (Vec3(F.R()(1)) % nG).norm(); worstNormal = std::max(worstNormal, mis);
            if (!calib && !(mis <= 1e-9 && dot(Vec3(F.R()(1)), nG) > 0)) { ctx.fail("Frenet frame of obstacle " + std::to_string(i) + " (" + kindName[it.kind] + "): y axis " + fmt(Vec3(F.R()(1))) + " is not the outward surface normal " + fmt(nG)); return; } }
        std::vector<Vec3> pts; const int N = 33;
        cable.calcCurveSegmentResampledPoints(s, CableSpanObstacleIndex(i), N, [&](Vec3 p) { pts.push_back(p); });
        if (!ctx.check((int)pts.size() == N, "calcCurveSegmentResampledPoints delivered " + std::to_string(pts.size()) + " points instead of " + std::to_string(N))) return;
        if (!((pts.front() - d.XP[i].p()).norm() <= 1e-8 * it.size() + 1e-9 && (pts.back() - d.XQ[i].p()).norm() <= 1e-8 * it.size() + 1e-9)) { ctx.fail("resampled curve points of obstacle " + std::to_string(i) + " do not start/end at the Frenet frame origins: " + fmt(pts.front()) + " vs " + fmt(d.XP[i].p()) + ", " + fmt(pts.back()) + " vs " + fmt(d.XQ[i].p())); return; }
        double chord = 0; for (int j = 0; j < N; ++j) { double v = surfaceValue(it, X_SG * pts[j]); worstSurfMid = std::max(worstSurfMid, std::abs(v) / it.size());
            if (!calib && !(std::abs(v) <= tolMid)) { ctx.fail("curve segment point " + std::to_string(j) + "/" + std::to_string(N) + " of obstacle " + std::to_string(i) + " (" + kindName[it.kind] + ") is off the surface by " + fmt(v)); return; }
            if (j) chord += (pts[j] - pts[j - 1]).norm(); }
        const double theta = d.arc[i] / it.minCurvRadius(), defect = d.arc[i] * square(theta / (N - 1)) / 24;   // arc - chord sum for curvature <= 1/minCurvRadius
        worstChord = std::max(worstChord, (chord - d.arc[i]) / scale);
        if (!calib && !(chord <= d.arc[i] + 1e-6 * it.size() + 1e-9 * scale)) { ctx.fail("chord sum " + fmt(chord) + " of the curve segment points of obstacle " + std::to_string(i) + " exceeds its arc length " + fmt(d.arc[i])); return; }
        if (!calib && !(chord >= d.arc[i] - 4 * defect - 1e-5 * it.size())) { ctx.fail("arc length " + fmt(d.arc[i]) + " of obstacle " + std::to_string(i) + " (" + kindName[it.kind] + ") is longer than the curve through its points (chord sum " + fmt(chord) + ", allowed defect " + fmt(4 * defect) + ")"); return; }
    }
    // V5 tangent continuity at the junctions; end tangent directions
    const double angTol = 10 * tol + 1e-8; bool cusp = false;   // calibration: observed angle <= 1.22 * tolerance
    for (size_t n = 0; n + 1 < nodes.size(); ++n) {
        Vec3 e = nodes[n + 1].in - nodes[n].out; double len = e.norm(); if (!(len > 1e-9 * scale)) continue; e /= len;
        auto junction = [&](int itemK, bool atP) { if (itemK < 0) return true; const Item& it = S.items[itemK]; if (it.kind == VIA) return true;
            const Transform& F = atP ? d.XP[it.obstIx] : d.XQ[it.obstIx]; Vec3 tg(F.R()(0)); double a = std::atan2((tg % e).norm(), dot(tg, e)); worstAngle = std::max(worstAngle, a / tol);
            if (calib && a > 1.0) ctx.label(std::string("calib:cusp:") + kindName[it.kind] + (S.alg == 0 ? ":MinimumLength" : ":Scholz2015"));
            // known finding cusp-accepted-as-smooth: the solver's path error (and getSmoothness) only measures the normal and
            // binormal components of the segment direction in the Frenet frame, which vanish for an ANTIPARALLEL tangent as
            // well: a path that reverses direction at a contact point (cusp, angle pi) is reported as smooth and converged.
            // Site predicate: reported smoothness <= tolerance and a junction whose straight segment points against the tangent.
            if (dot(tg, e) < 0 && !g_noExclusions && ctx.known("cusp-accepted-as-smooth")) { cusp = true; return false; }
            if (!calib && !(a <= angTol)) { ctx.fail("tangent discontinuity " + fmt(a) + " rad between the straight segment and the curve on obstacle " + std::to_string(it.obstIx) + " (" + kindName[it.kind] + ", " + (atP ? "initial" : "final") + " contact) although smoothness " + fmt(d.smooth) + " <= tolerance " + fmt(tol) + " is reported"); return false; }
            return true; };
        if (!junction(nodes[n].item, false) || !junction(nodes[n + 1].item, true)) { if (cusp) { ctx.label("excluded:cusp-accepted-as-smooth"); ctx.reject("known:cusp"); } return; }
        if (n == 0) { Vec3 to(cable.calcOriginTangentDirection(s)); if (!((to - e).norm() <= 1e-9)) { ctx.fail("calcOriginTangentDirection " + fmt(to) + " != direction of the first straight segment " + fmt(e)); return; } }
        if (n + 2 == nodes.size()) { Vec3 tt(cable.calcTerminationTangentDirection(s)); if (!((tt - e).norm() <= 1e-9)) { ctx.fail("calcTerminationTangentDirection " + fmt(tt) + " != direction of the last straight segment " + fmt(e)); return; } }
    }
    // V4 straight segments do not penetrate the obstacles they touch or skip
    {
        size_t n = 0;   // index of the node the current straight segment starts from
        // tolerance: a segment tangent to the obstacle dips in by <= (angular misalignment)^2 * size (calibration: 1e-16); a skipped
        // convex obstacle may be grazed (calibration: 1.5e-6 * size once in 60000 cases) -> 1e-4 * size
        auto checkSeg = [&](const Vec3& a, const Vec3& b, const Item& it, const char* rel, bool skipped) {
            const Transform X_SG = ~(B.m->mb[it.body].getBodyTransform(s) * it.X_BS); const double tolPen = (skipped ? 1e-4 : 1e-6) * it.size() + 2 * tol * tol * it.size();
            for (int j = 1; j < 48; ++j) { Vec3 p = a + (b - a) * (j / 48.0); double v = surfaceValue(it, X_SG * p); worstPen = std::max(worstPen, -v / it.size());
                if (v < -1e-6 * it.size() && v >= -tolPen) ctx.label("grazed-while-skipped");
                if (calib && v < -tolPen) { ctx.label(std::string("calib:penetration:") + kindName[it.kind] + ":" + rel + (S.alg == 0 ? ":MinimumLength" : ":Scholz2015")); break; }
                if (!calib && !(v >= -tolPen)) {
                    // known finding liftoff-without-touchdown-recheck: per iteration a curve gets either the lift-off or the
                    // touchdown test, and the solve ends as soon as the remaining path is smooth; a curve that lifted off in the
                    // last iteration is never tested against the straight line that replaces it (only the NEXT solve does that).
                    // Site predicate: obstacle reported as not in contact, penetrated by the segment that skips it, and a fresh
                    // solve from this state (which starts with the touchdown test) does detect the contact.
                    if (skipped && !g_noExclusions) {
                        bool touches = false; try { State u = s; u.updQ() = s.getQ(); sys.realize(u, Stage::Position); touches = cable.isInContactWithObstacle(u, CableSpanObstacleIndex(it.obstIx)); } catch (const std::exception&) {}
                        if (touches && ctx.known("liftoff-without-touchdown-recheck")) { ctx.label(std::string("excluded:liftoff-without-touchdown-recheck:") + kindName[it.kind]); ctx.reject("known:liftoff-no-recheck"); return false; } }
                    ctx.fail(std::string("straight segment ") + fmt(a) + " -> " + fmt(b) + " penetrates the " + kindName[it.kind] + " obstacle " + std::to_string(it.obstIx) + " it " + rel + " by " + fmt(-v) + " at " + fmt(p)); return false; } }
            return true; };
        for (int k = 0; k < (int)S.items.size(); ++k) { const Item& it = S.items[k];
            // the straight segment that starts at nodes[n] ends at nodes[n+1]
            if (it.kind == VIA) { ++n; continue; }
            if (d.contact[it.obstIx]) { if (!checkSeg(nodes[n].out, nodes[n + 1].in, it, "arrives at", false) || !checkSeg(nodes[n + 1].out, nodes[n + 2].in, it, "leaves", false)) return; ++n; }
            else if (!checkSeg(nodes[n].out, nodes[n + 1].in, it, "skips (reported as not in contact)", true)) return;
        }
    }
    if (calib) { static double mx[6] = {0, 0, 0, 0, 0, 0}; double cur[6] = {worstSurfEnd, worstSurfMid, worstChord, worstAngle, worstNormal, worstPen}; bool up = false; for (int i = 0; i < 6; ++i) if (cur[i] > mx[i]) { mx[i] = cur[i]; up = true; }
        if (up) fprintf(stderr, "CALIB max surfEnd=%.3g surfMid=%.3g chord-arc=%.3g angle/tol=%.3g (tol %.3g) normal=%.3g pen=%.3g\n", mx[0], mx[1], mx[2], mx[3], tol, mx[4], mx[5]);
        auto lab = [&](const char* w, double x) { char b[96]; snprintf(b, sizeof b, "calib:%s:1e%+03d", w, x <= 0 ? -99 : (int)std::ceil(std::log10(x))); ctx.label(b); };
        lab("surfEnd", worstSurfEnd); lab("surfMid", worstSurfMid); lab("chord-arc", worstChord); lab("angle/tol", worstAngle); lab("normal", worstNormal); lab("pen", worstPen); }

    // W forces: power identity, internal force system  (a lambda: also applied to every state of the same-State history below)
    const double T = S.tension; const int nB = matter.getNumBodies();
    auto speedOf = [&](const State& st) { double sp = 0; for (MobilizedBodyIndex b(0); b < nB; ++b) { SpatialVec V = matter.getMobilizedBody(b).getBodyVelocity(st); sp = std::max(sp, V[1].norm() + V[0].norm() * scale); } return sp; };
    struct VelData { double Ld = 0, P = 0, Pc = 0; };
    auto checkW = [&](const State& st, const std::string& tag, VelData& out) -> bool {
        const double Ld = cable.calcLengthDot(st), speed = speedOf(st); out.Ld = Ld;
        Vector_<SpatialVec> F(nB); F = SpatialVec(Vec3(0), Vec3(0)); cable.applyBodyForces(st, T, F);
        double P = 0; Vec3 netF(0), netM(0);
        for (MobilizedBodyIndex b(0); b < nB; ++b) { const MobilizedBody& mb = matter.getMobilizedBody(b); SpatialVec V = mb.getBodyVelocity(st); P += dot(F[b][0], V[0]) + dot(F[b][1], V[1]);
            netF += F[b][1]; netM += F[b][0] + mb.getBodyOriginLocation(st) % F[b][1]; }
        const double Pc = cable.calcCablePower(st, T); out.P = P; out.Pc = Pc;
        const double tolP = (1e-9 + 10 * tol) * T * std::max(speed, 1.0);
        if (!(std::abs(Pc - P) <= 1e-9 * T * std::max(speed, 1.0))) { ctx.fail(tag + "calcCablePower " + fmt(Pc) + " != sum over bodies of applied force . velocity " + fmt(P)); return false; }
        if (!(std::abs(P + T * Ld) <= tolP)) { ctx.fail(tag + "power of the applied cable forces " + fmt(P) + " != -tension*lengthDot = " + fmt(-T * Ld) + " (tension " + fmt(T) + ", lengthDot " + fmt(Ld) + ")"); return false; }
        const double tolF = (1e-9 + 10 * tol) * T;
        if (!(netF.norm() <= tolF)) { ctx.fail(tag + "cable forces do not sum to zero: net force " + fmt(netF) + " (tension " + fmt(T) + ")"); return false; }
        if (!(netM.norm() <= tolF * scale)) { ctx.fail(tag + "cable forces have a net moment about the Ground origin " + fmt(netM) + " (tension " + fmt(T) + "): not an internal force system"); return false; }
        Vector_<SpatialVec> F0(nB); F0 = SpatialVec(Vec3(0), Vec3(0)); cable.applyBodyForces(st, -1.0, F0);
        for (int b = 0; b < nB; ++b) if (F0[b][0].norm() + F0[b][1].norm() != 0) { ctx.fail(tag + "applyBodyForces with negative tension applied a force to body " + std::to_string(b)); return false; }
        return true;
    };
    VelData vd0; if (!checkW(s, "", vd0)) return;
    const double Ld = vd0.Ld; const double speed = speedOf(s);

    // FD lengthDot = d/dt length along the motion  (a lambda as well; `contactRef` = contact pattern of the judged state)
    auto checkFD = [&](const State& st, double LdSt, const std::vector<char>& contactRef, const std::string& tag, const std::string& lab) -> bool {
        const double speed = speedOf(st);
        const Vector q0 = st.getQ(), qd = st.getQDot(); double qdn = 0; for (int i = 0; i < qd.size(); ++i) qdn = std::max(qdn, std::abs(qd[i]));
        const double h = 1e-4 / std::max(1.0, qdn);
        bool bad = false, topo = false; std::string why;
        auto lenAt = [&](double hh) { State u = st; u.updQ() = q0 + hh * qd; sys.realize(u, Stage::Position); double l = cable.calcLength(u);
            if (!(cable.getSmoothness(u) <= tol)) bad = true;
            for (int i = 0; i < S.nObst; ++i) if ((bool)contactRef[i] != cable.isInContactWithObstacle(u, CableSpanObstacleIndex(i))) topo = true;
            return l; };
        auto fdAt = [&](double hh) { double lp = lenAt(hh), lm = lenAt(-hh), lpp = lenAt(2 * hh), lmm = lenAt(-2 * hh); return (8 * (lp - lm) - (lpp - lmm)) / (12 * hh); };
        // rounding/solver noise of one estimate ~ (1e-11 + 10 tol^2) * scale / h; lengthDot itself is first order in the tangent misalignment
        auto tolAt = [&](double hh) { return 1e-6 * std::max(speed, 1.0) + 10 * tol * std::max(speed, 1.0) + (1e-11 + 10 * tol * tol) * scale / hh; };
        double fd = 0, tolFD = tolAt(h), errEst = 0; bool exc = false, refined = false, nonsmooth = false;
        try {
            fd = fdAt(h);
            if (!bad && !topo && !(std::abs(fd - LdSt) <= tolFD)) {
                // near lift-off the length has large higher derivatives: refine the step and judge with a measured truncation estimate
                refined = true; double f1 = fdAt(h / 3), f2 = fdAt(h / 9); errEst = std::abs(f2 - f1); fd = f2; tolFD = tolAt(h / 9) + 2 * errEst;
                if (errEst > 1e-3 * std::max(speed, 1.0)) nonsmooth = true;
            }
        } catch (const std::exception&) { exc = true; }
        if (getenv("C45_FDSCAN")) for (double hh : {1e-3, 3e-4, 1e-4, 3e-5, 1e-5, 3e-6, 1e-6}) { bool b0 = bad, t0 = topo; bad = topo = false; double v = fdAt(hh); fprintf(stderr, "FDSCAN h=%g fd5=%.10g (lengthDot %.10g) bad=%d topo=%d\n", hh, v, LdSt, (int)bad, (int)topo); bad = b0; topo = t0; }
        if (exc) ctx.label(lab + ":skipped-exception"); else if (topo) ctx.label(lab + ":skipped-topology-change"); else if (bad) ctx.label(lab + ":skipped-stencil-unconverged"); else if (nonsmooth) ctx.label(lab + ":skipped-nonsmooth");
        else {
            ctx.label(lab + (refined ? ":checked-refined" : ":checked"));
            if (ctx.wantDesc) ctx.desc << tag << "lengthDot=" << LdSt << " finite difference=" << fd << " h=" << (refined ? h / 9 : h) << " tolerance=" << tolFD << (refined ? " (refined; truncation estimate " + fmt(errEst) + ")" : std::string()) << "\n";
            if (!(std::abs(fd - LdSt) <= tolFD)) { ctx.fail(tag + "calcLengthDot " + fmt(LdSt) + " != d(length)/dt by finite differences " + fmt(fd) + " (h=" + fmt(refined ? h / 9 : h) + ", tolerance " + fmt(tolFD) + ", all stencil states converged with the same contacts)"); return false; }
        }
        return true;
    };
    if (S.defaultTol) ctx.label("fd:skipped-loose-tolerance");
    else if (!checkFD(s, Ld, d.contact, "", "fd")) return;

    // R closed form when no obstacle is in contact: lengthDot = sum over straight segments of e . (v_end - v_start)
    auto stationVel = [&](const mbgen::Built& M, const State& st, int body, const Vec3& station) { return M.mb[body].findStationVelocityInGround(st, station); };
    if (nContact == 0) {
        std::vector<Vec3> p, v; p.push_back(d.O); v.push_back(stationVel(*B.m, s, S.originBody, S.originStation));
        for (auto& it : S.items) if (it.kind == VIA) { p.push_back(d.via[it.viaIx]); v.push_back(stationVel(*B.m, s, it.body, it.station)); }
        p.push_back(d.T); v.push_back(stationVel(*B.m, s, S.termBody, S.termStation));
        double ref = 0; bool degenerate = false; for (size_t i = 0; i + 1 < p.size(); ++i) { Vec3 e = p[i + 1] - p[i]; double l = e.norm(); if (l < 1e-6) { degenerate = true; break; } ref += dot(e / l, v[i + 1] - v[i]); }
        if (!degenerate) { ctx.label("lengthdot:closed-form-checked");
            if (!(std::abs(ref - Ld) <= 1e-10 * std::max(speed, 1.0))) { ctx.fail("no obstacle in contact: calcLengthDot " + fmt(Ld) + " != sum over straight segments of direction . relative end velocity " + fmt(ref)); return; } }
    }

    // CablePath + CableTrackerSubsystem with the same end points and via points (no surfaces: the convergence of its surface
    // solver is not observable through the public interface): closed-form length and length rate, power identity
    if (S.pathVariant) {
        ctx.label("cablepath:via-only");
        mbgen::Built M(S.model); CableTrackerSubsystem tracker(M.sys);
        CablePath path(tracker, M.mb[S.originBody], S.originStation, M.mb[S.termBody], S.termStation);
        for (auto& it : S.items) if (it.kind == VIA) CableObstacle::ViaPoint(path, M.mb[it.body], it.station);
        struct PD { double Lp = NaN, Lpd = NaN, Pp = NaN, Pc = NaN; Vec3 netF = Vec3(0), netM = Vec3(0); std::vector<Vec3> p, v; bool threw = false; std::string what; };
        // everything CablePath reports at one state (stdout silenced: CablePath.cpp prints debugging text); `prep` runs first, inside the guard
        auto evalPath = [&](State& sp, const std::function<void()>& prep) { PD o;
            fflush(stdout); std::cout.flush(); int saved = dup(1), nul = open("/dev/null", O_WRONLY); if (nul >= 0) { dup2(nul, 1); close(nul); }
            try {
                if (prep) prep();
                M.sys.realize(sp, Stage::Velocity);
                o.Lp = path.getCableLength(sp); o.Lpd = path.getCableLengthDot(sp);
                const int nBp = M.matter.getNumBodies(); Vector_<SpatialVec> F(nBp); F = SpatialVec(Vec3(0), Vec3(0)); path.applyBodyForces(sp, T, F); o.Pp = 0;
                for (MobilizedBodyIndex b(0); b < nBp; ++b) { const MobilizedBody& mb = M.matter.getMobilizedBody(b); SpatialVec V = mb.getBodyVelocity(sp); o.Pp += dot(F[b][0], V[0]) + dot(F[b][1], V[1]); o.netF += F[b][1]; o.netM += F[b][0] + mb.getBodyOriginLocation(sp) % F[b][1]; }
                o.Pc = path.calcCablePower(sp, T);
                o.p.push_back(M.mb[S.originBody].findStationLocationInGround(sp, S.originStation)); o.v.push_back(stationVel(M, sp, S.originBody, S.originStation));
                for (auto& it : S.items) if (it.kind == VIA) { o.p.push_back(M.mb[it.body].findStationLocationInGround(sp, it.station)); o.v.push_back(stationVel(M, sp, it.body, it.station)); }
                o.p.push_back(M.mb[S.termBody].findStationLocationInGround(sp, S.termStation)); o.v.push_back(stationVel(M, sp, S.termBody, S.termStation));
            } catch (const std::exception& e) { o.threw = true; o.what = e.what(); }
            fflush(stdout); std::cout.flush(); if (saved >= 0) { dup2(saved, 1); close(saved); }
            return o; };
        // judge one evaluation against the closed forms; returns 0 failed, 1 judged, 2 not judgeable
        auto judgePath = [&](const PD& o, const State& sp, const std::string& tag, bool first) -> int {
            if (o.threw) { ctx.label("cablepath:exception"); if (ctx.wantDesc) ctx.desc << tag << "CablePath exception: " << o.what.substr(0, 200) << "\n"; return 2; }
            double spd = 0; for (MobilizedBodyIndex b(0); b < M.matter.getNumBodies(); ++b) { SpatialVec V = M.matter.getMobilizedBody(b).getBodyVelocity(sp); spd = std::max(spd, V[1].norm() + V[0].norm() * scale); }
            double refL = 0, refLd = 0; bool degenerate = false; for (size_t i = 0; i + 1 < o.p.size(); ++i) { Vec3 e = o.p[i + 1] - o.p[i]; double l = e.norm(); if (l < 1e-6) { degenerate = true; break; } refL += l; refLd += dot(e / l, o.v[i + 1] - o.v[i]); }
            if (degenerate) { ctx.label("cablepath:degenerate-segment"); return 2; }
            if (first) ctx.label("cablepath:checked");
            if (ctx.wantDesc) ctx.desc << tag << "CablePath length=" << o.Lp << " (polyline " << refL << ") lengthDot=" << o.Lpd << " (closed form " << refLd << ") power=" << o.Pp << "\n";
            if (!(std::abs(o.Lp - refL) <= 1e-12 * std::max(refL, 1.0))) { ctx.fail(tag + "CablePath (via points only): getCableLength " + fmt(o.Lp) + " != length of the polyline through its points " + fmt(refL)); return 0; }
            if (!(std::abs(o.Lpd - refLd) <= 1e-10 * std::max(spd, 1.0))) { ctx.fail(tag + "CablePath (via points only): getCableLengthDot " + fmt(o.Lpd) + " != sum of direction . relative end velocity " + fmt(refLd)); return 0; }
            if (!(std::abs(o.Pp + T * o.Lpd) <= 1e-9 * T * std::max(spd, 1.0))) { ctx.fail(tag + "CablePath (via points only): power of applied forces " + fmt(o.Pp) + " != -tension*lengthDot " + fmt(-T * o.Lpd)); return 0; }
            if (!(std::abs(o.Pc - o.Pp) <= 1e-9 * T * std::max(spd, 1.0))) { ctx.fail(tag + "CablePath (via points only): calcCablePower " + fmt(o.Pc) + " != sum of force . velocity " + fmt(o.Pp)); return 0; }
            if (!(o.netF.norm() <= 1e-9 * T && o.netM.norm() <= 1e-9 * T * std::max(refL, 1.0))) { ctx.fail(tag + "CablePath (via points only): applied forces are not an internal force system: net force " + fmt(o.netF) + " net moment " + fmt(o.netM)); return 0; }
            return 1; };
        State& sp = M.state;
        PD o0 = evalPath(sp, [&]() { M.finish(S.model); M.setState(S.model); });
        int r0 = judgePath(o0, sp, "", true); if (r0 == 0) return;
        if (r0 == 1 && S.nObst == 0 && !(std::abs(o0.Lp - d.L) <= 1e-12 * std::max(o0.Lp, 1.0))) { ctx.fail("CablePath and CableSpan with the same via points disagree on the length: " + fmt(o0.Lp) + " vs " + fmt(d.L)); return; }
        // same-State history on the CablePath state: u only, q only, t only; each judged by the closed forms and against a fresh State
        if (r0 == 1) {
            auto againstFresh = [&](const PD& o, const std::string& tag) -> bool {
                State f = sp; PD of = evalPath(f, [&]() { f.updQ() = sp.getQ(); f.updU() = sp.getU(); });     // a copy whose q and u are written again: Position and Velocity stages recomputed
                if (of.threw || o.threw) return true;
                const double sc = std::max(1.0, std::abs(of.Lp)), vs = std::max(1.0, std::abs(of.Lpd));
                if (!(std::abs(o.Lp - of.Lp) <= 1e-12 * sc && std::abs(o.Lpd - of.Lpd) <= 1e-10 * vs && std::abs(o.Pp - of.Pp) <= 1e-9 * T * vs && std::abs(o.Pc - of.Pc) <= 1e-9 * T * vs)) {
                    ctx.fail(tag + "CablePath on the re-used State differs from a fresh State at the same (t,q,u): length " + fmt(o.Lp) + " vs " + fmt(of.Lp) + ", lengthDot " + fmt(o.Lpd) + " vs " + fmt(of.Lpd) + ", power " + fmt(o.Pp) + " vs " + fmt(of.Pp) + ", calcCablePower " + fmt(o.Pc) + " vs " + fmt(of.Pc)); return false; }
                return true; };
            const int nu = sp.getNU(); Vector un(nu); for (int i = 0; i < nu; ++i) un[i] = S.histU[i % 8] * (1 + 0.125 * (i / 8)); if ((un - sp.getU()).norm() == 0 && nu) un[0] += 1;
            for (int step = 0; step < 3; ++step) {
                const int what = step == 2 ? 2 : (S.histQFirst ? 1 - step : step);     // 0 u only, 1 q only, 2 t only
                static const char* nm[] = {"u-only", "q-only", "t-only"}; const std::string tag = std::string("[CablePath history ") + nm[what] + "] ";
                PD o = evalPath(sp, [&]() { if (what == 0) sp.updU() = un; else if (what == 1) { Vector qd = sp.getQDot(); double m = 0; for (int i = 0; i < qd.size(); ++i) m = std::max(m, std::abs(qd[i])); sp.updQ() = sp.getQ() + (0.05 * S.histDq / std::max(1.0, m)) * qd; } else sp.updTime() = sp.getTime() + 0.37; });
                int r = judgePath(o, sp, tag, false); if (r == 0) return; if (r == 2) break;
                if (!againstFresh(o, tag)) return;
                ctx.label(std::string("history:cablepath:") + nm[what]);
            }
        }
    }

    // D the other algorithm
    {
        Built B2; State s2; PathData d2; bool ok2 = true;
        try { build(S, 1 - S.alg, B2); s2 = B2.m->state; B2.m->sys.realize(s2, Stage::Velocity); d2 = readPath(S, B2, s2); } catch (const std::exception&) { ok2 = false; }
        if (!ok2) ctx.label("alg-compare:other-exception");
        else if (!(d2.smooth <= B2.cable->getSmoothnessTolerance())) ctx.label("alg-compare:other-unconverged");
        else {
            // "the same topology" = the same local solution: equal contact pattern and contact points within 1e-4 of the path
            // scale (the solvers may legitimately converge to different stationary paths over a doubly curved surface)
            bool same = true; for (int i = 0; i < S.nObst; ++i) { if (d.contact[i] != d2.contact[i]) same = false;
                else if (d.contact[i] && ((d.XP[i].p() - d2.XP[i].p()).norm() > 1e-4 * scale || (d.XQ[i].p() - d2.XQ[i].p()).norm() > 1e-4 * scale)) same = false; }
            if (!same) ctx.label("alg-compare:different-branch");
            else { ctx.label("alg-compare:checked");
                const double tolL = 1e-6 * scale;   // contact points within 1e-4*scale of each other on a stationary path: second-order length difference
                if (!(std::abs(d.L - d2.L) <= tolL)) { ctx.fail("the two path algorithms converge to the same contacts and arcs but lengths differ: " + fmt(d.L) + " (" + (S.alg == 0 ? "MinimumLength" : "Scholz2015") + ") vs " + fmt(d2.L)); return; }
                const double Ld2 = B2.cable->calcLengthDot(s2);
                if (!(std::abs(Ld - Ld2) <= (1e-6 + 20 * tol) * std::max(speed, 1.0))) { ctx.fail("the two path algorithms agree on the path but not on lengthDot: " + fmt(Ld) + " vs " + fmt(Ld2)); return; }
            }
        }
    }

    // H same-State history: on the ONE State judged above change only u, only q, only t (generated order for u/q), re-realize, and
    //   judge every velocity-level quantity again: by the oracles above (power identity, internal force system, finite differences
    //   with the new qdot) and against a FRESH evaluation at identical (t,q,u) (a copy whose q and u were written again, so that the
    //   Position and Velocity stages are recomputed from the same warm start). Finally a parameter change on the same System.
    {
        const int nu = s.getNU(); Vector un(nu); for (int i = 0; i < nu; ++i) un[i] = S.histU[i % 8] * (1 + 0.125 * (i / 8)); if (nu && (un - s.getU()).norm() == 0) un[0] += 1;
        std::vector<char> contactNow = d.contact; double Lnow = d.L;
        auto contactsOf = [&](const State& st) { std::vector<char> c(S.nObst); for (int i = 0; i < S.nObst; ++i) c[i] = cable.isInContactWithObstacle(st, CableSpanObstacleIndex(i)); return c; };
        // returns 0 failed, 1 judged, 2 stop (not judgeable)
        auto judgeStep = [&](const std::string& nm, bool positionChanged) -> int {
            const std::string tag = "[history " + nm + "] ";
            try { sys.realize(s, Stage::Velocity); } catch (const std::exception&) { ctx.label("history:" + nm + ":exception"); return 2; }
            if (!(cable.getSmoothness(s) <= tol)) { ctx.label("history:" + nm + ":unconverged"); return 2; }
            const double L = cable.calcLength(s);
            if (!positionChanged) {   // q untouched: the Position stage must not have been recomputed differently
                if (nm == "u-only" && !(L == Lnow)) { ctx.fail(tag + "calcLength changed from " + fmt(Lnow) + " to " + fmt(L) + " although only u was changed"); return 0; }
                if (!(std::abs(L - Lnow) <= (1e-9 + tol) * scale)) { ctx.fail(tag + "calcLength changed from " + fmt(Lnow) + " to " + fmt(L) + " although q was not changed"); return 0; }
            }
            contactNow = contactsOf(s); Lnow = L;
            VelData v; if (!checkW(s, tag, v)) return 0;
            // (i) fresh evaluation at identical (t,q,u)
            State f = s; f.updQ() = s.getQ(); f.updU() = s.getU();
            try { sys.realize(f, Stage::Velocity); } catch (const std::exception&) { ctx.label("history:" + nm + ":fresh-exception"); return 2; }
            if (!(cable.getSmoothness(f) <= tol) || contactsOf(f) != contactNow) { ctx.label("history:" + nm + ":fresh-differs-in-topology"); return 2; }
            const double spd = std::max(speedOf(s), 1.0), Lf = cable.calcLength(f), Ldf = cable.calcLengthDot(f), Pcf = cable.calcCablePower(f, T);
            if (!(std::abs(L - Lf) <= (1e-9 + tol) * scale)) { ctx.fail(tag + "calcLength on the re-used State " + fmt(L) + " != fresh evaluation at the same (t,q,u) " + fmt(Lf)); return 0; }
            if (!(std::abs(v.Ld - Ldf) <= (1e-8 + 20 * tol) * spd)) { ctx.fail(tag + "calcLengthDot on the re-used State " + fmt(v.Ld) + " != fresh evaluation at the same (t,q,u) " + fmt(Ldf)); return 0; }
            if (!(std::abs(v.Pc - Pcf) <= (1e-8 + 20 * tol) * spd * T)) { ctx.fail(tag + "calcCablePower on the re-used State " + fmt(v.Pc) + " != fresh evaluation at the same (t,q,u) " + fmt(Pcf)); return 0; }
            // (ii) lengthDot = dL/dq . qdot by finite differences with the CURRENT qdot
            if (!S.defaultTol && !checkFD(s, v.Ld, contactNow, tag, "fd-history")) return 0;
            ctx.label("history:" + nm);
            return 1;
        };
        bool go = true;
        for (int step = 0; step < 3 && go; ++step) {
            const int what = step == 2 ? 2 : (S.histQFirst ? 1 - step : step);     // 0 u only, 1 q only, 2 t only
            int r;
            if (what == 0) { s.updU() = un; r = judgeStep("u-only", false); }
            else if (what == 1) { Vector qd = s.getQDot(); double m = 0; for (int i = 0; i < qd.size(); ++i) m = std::max(m, std::abs(qd[i]));
                Vector qn = s.getQ() + (0.02 * S.histDq / std::max(1.0, m)) * qd; s.updQ() = qn; r = judgeStep("q-only", true); }
            else { s.updTime() = s.getTime() + 0.37; r = judgeStep("t-only", false); }
            if (r == 0) return; if (r == 2) go = false;
        }
        // parameter-only change (CableSpan's parameters are topology-level: same System and cable object, new topology realization and State)
        if (go) {
            const Vector qk = s.getQ(), uk = s.getU(); const std::vector<char> contactK = contactNow; const double Lk = Lnow, Ldk = cable.calcLengthDot(s);
            std::vector<Vec3> Pk, Qk; for (int i = 0; i < S.nObst; ++i) if (contactK[i]) { Pk.push_back(cable.calcCurveSegmentInitialFrenetFrame(s, CableSpanObstacleIndex(i)).p()); Qk.push_back(cable.calcCurveSegmentFinalFrenetFrame(s, CableSpanObstacleIndex(i)).p()); }
            try {
                B.cable->setCurveSegmentAccuracy(S.curveAcc == 1e-12 ? 1e-11 : 1e-12);
                const double tk = s.getTime(); B.m->finish(S.model); State& n = B.m->state; n.updTime() = tk; n.updQ() = qk; n.updU() = uk; B.m->sys.realize(n, Stage::Velocity);   // (finish: realizeTopology + the modelling options)
                bool same = cable.getSmoothness(n) <= tol && contactsOf(n) == contactK; size_t c = 0;
                for (int i = 0; i < S.nObst && same; ++i) if (contactK[i]) { if ((cable.calcCurveSegmentInitialFrenetFrame(n, CableSpanObstacleIndex(i)).p() - Pk[c]).norm() > 1e-4 * scale || (cable.calcCurveSegmentFinalFrenetFrame(n, CableSpanObstacleIndex(i)).p() - Qk[c]).norm() > 1e-4 * scale) same = false; ++c; }
                if (!same) ctx.label("history:param-rebuild:different-branch");
                else { ctx.label("history:param-rebuild");
                    const double spd = std::max(speedOf(n), 1.0);
                    if (!(std::abs(cable.calcLength(n) - Lk) <= 1e-6 * scale)) { ctx.fail("[history parameter] after changing only the curve segment accuracy (same path, same contacts) calcLength went from " + fmt(Lk) + " to " + fmt(cable.calcLength(n))); return; }
                    if (!(std::abs(cable.calcLengthDot(n) - Ldk) <= (1e-6 + 20 * tol) * spd)) { ctx.fail("[history parameter] after changing only the curve segment accuracy (same path, same contacts) calcLengthDot went from " + fmt(Ldk) + " to " + fmt(cable.calcLengthDot(n))); return; }
                    VelData v; if (!checkW(n, "[history parameter] ", v)) return; }
            } catch (const std::exception&) { ctx.label("history:param-rebuild:exception"); }
        }
    }
}

void property(const pbt::Tape& t, pbt::Ctx& ctx) { Scene S = decode(t); judge(S, ctx); }

// hand-built static scenes for the directed reproducers: everything on Ground except that body 1 (a Pin) exists
Scene handScene(int alg) { Scene S; S.nb = 1; S.model.bodies.push_back(mbgen::BodySpec()); S.alg = alg; S.smoothTol = 1e-9; S.curveAcc = 1e-11; S.tension = 1; return S; }
Item handObstacle(int kind, double r, double R, const Vec3& radii, const Vec4& quat, const Vec3& centre, const Vec3& hint, int obstIx) {
    Item it; it.kind = kind; it.body = 0; it.r = r; it.R = R; it.radii = radii; it.X_GS = Transform(Rotation(Quaternion(quat)), centre); it.hint_S = hint; it.obstIx = obstIx; it.depth = 0; return it; }

pbt::Config config() {
    pbt::Config c; c.prop = "C45"; c.K = mbgen::K; c.minUnits = 4;
    c.quick = {1000, 20000, 10, 25}; c.thorough = {10000, 400000, 10, 200};
    c.rule = "rapidcheck tape -> CableSpan scene: 1..3 mbgen bodies (all mobilizer types, generated q, u != 0), origin/termination/obstacles/via points on Ground or any body; 0..3 obstacles {sphere, cylinder, ellipsoid, torus through the hole} and 0..2 via points in generated order along a nominal line, obstacle depth in [-0.3,0.8] radii (negative = clear of the line), contact hints on the obstructing side; both algorithms; smoothness tolerance {1e-9,1e-8,1e-6,default}. Non-trivial: converged path with >= 1 obstacle in contact that is fixed to a moving body.";
    c.assumptions = {"'the path solver converges' = getSmoothness(state) <= getSmoothnessTolerance() at the state and at all four finite-difference stencil states; anything else is rejected/classified, never judged",
                     "surface equations, normals and curvature bounds of sphere/cylinder/ellipsoid/torus are my own (first-order distance for the ellipsoid)",
                     "finite differences along q + h*qdot with the path re-solved from the copied (warm) state; contact topology must be unchanged over the stencil",
                     "straight segments are only required to stay outside the obstacle they arrive at, leave, or skip (the cable is documented to interact with obstacles in order only)"};
    c.directed.push_back({"torus-cusp-reported-smooth", "cusp-accepted-as-smooth", [](pbt::Ctx& ctx) {
        // shrunk from a generated case: Scholz2015, torus then sphere between (-3,0,0) and (3,0.3,0)
        Scene S = handScene(1); S.O_G = Vec3(-3, 0, 0); S.T_G = Vec3(3, 0.29999999999999999, 0);
        S.items.push_back(handObstacle(TORUS, 0.125, 0.44631287614174653, Vec3(0.125), Vec4(0.69321750736237575, -0.0009935881058023273, 0.71103704818198132, -0.11779141047472655),
                                       Vec3(-1, 0.39439198170148299, 0.076638225466012955), Vec3(0.052927650400831985, -0.31239592741543365, 0.053379890705955897), 0));
        S.items.push_back(handObstacle(SPHERE, 0.47051607794128358, 1, Vec3(0.47), Vec4(0.99875026039496617, 0, 0, -0.049979169270678331),
                                       Vec3(1, 0.059053693315499339, 0.095693670213222504), Vec3(-0.046973227648143635, 0.46816545738185739, 0), 1));
        S.nObst = 2; g_noExclusions = true; judge(S, ctx); g_noExclusions = false;
        if (ctx.isRejected) ctx.desc << "(rejected: " << ctx.rejectReason << ")\n";
    }});
    c.directed.push_back({"torus-upper-tube-skipped", "liftoff-without-touchdown-recheck", [](pbt::Ctx& ctx) {
        // ring in the y-z plane, hint on top of the lower part of the tube, but the straight line passes through the upper part
        Scene S = handScene(0); S.O_G = Vec3(-2, 0.5, 0); S.T_G = Vec3(2, 0.45, -0.05);
        Rotation R_GS(Pi / 2, YAxis); const double R = 0.346, r = 0.125;
        S.items.push_back(handObstacle(TORUS, r, R, Vec3(r), R_GS.convertRotationToQuaternion().asVec4(), Vec3(0, 0.185, -0.057), ~R_GS * Vec3(0, -R + r, 0), 0));
        S.nObst = 1; g_noExclusions = true; judge(S, ctx); g_noExclusions = false;
        if (ctx.isRejected) ctx.desc << "(rejected: " << ctx.rejectReason << ")\n";
    }});
    c.requiredLabels = {"history:u-only", "history:q-only", "history:t-only", "history:param-rebuild", "history:cablepath:u-only", "history:cablepath:q-only", "history:cablepath:t-only", "fd-history:checked", "cablepath:checked", "lengthdot:closed-form-checked", "contact:sphere", "contact:cylinder", "contact:ellipsoid", "contact:torus", "item:via", "lift-off", "fd:checked", "alg-compare:checked", "alg:Scholz2015", "alg:MinimumLength"};
    return c;
}
} // namespace

PBT_MAIN(config(), property)
