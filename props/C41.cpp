// C41 -- Functions, splines and smooth steps are self-consistent (DESIGN.md section 5, C41).
// Domain: Function::Constant/Linear/Polynomial/Sinusoid/Step<Real>/Step<Vec3> with random parameters, argument
// counts and derivative index lists; stepUp/stepDown/stepAny and their three derivative helpers (double and
// float) at points inside, at and next to the ends; Spline_<Real>/<Vec3> from SplineFitter::fitForSmoothingParameter
// (degree 1,3,5,7; p = 0 and p > 0) over uniform / random / clustered strictly increasing knots, Spline_(1,x,y).
// Oracle: closed forms of the documented formulas evaluated in long double; k-th derivative = finite difference
// of the (k-1)-th (one-sided next to Step transition ends, exact 9-point stencil inside a knot interval for
// splines); exact zeros above the non-vanishing order; step end values, monotonicity, symmetry, C2 join;
// interpolation of the data points, continuity of derivatives 0..degree-1 across interior knots, residual
// monotone in the smoothing parameter; Function_ interface = direct interface; Vec3 = per-component Real.
#include "pbt.h"
#include "SimTKmath.h"
using namespace SimTK;
typedef long double LD;

namespace {
const double EPS = 2.220446049250313e-16;
const bool CALIB = getenv("C41_CALIB") != nullptr;

struct Worst { double r = 0; void see(double err, double tol) { if (tol > 0) r = std::max(r, err / tol); else if (err > 0) r = 1e300; } };
std::string calibLabel(const char* what, double r) { char b[96]; int e = r <= 0 ? -99 : (int)std::floor(std::log10(r)); snprintf(b, sizeof b, "calib:%s:1e%+03d", what, e < -20 ? -20 : e); return b; }

// 4th-order first derivative of g at x; side 0 central (x-2h..x+2h), +1 uses x..x+4h, -1 uses x-4h..x
template <class G> LD fd5(G g, double x, double h, int side, LD* maxAbs = nullptr) {
    LD v[5]; LD m = 0;
    if (side == 0) { v[0] = g(x - 2 * h); v[1] = g(x - h); v[2] = g(x); v[3] = g(x + h); v[4] = g(x + 2 * h); }
    else for (int i = 0; i < 5; ++i) v[i] = g(x + side * i * h);
    for (int i = 0; i < 5; ++i) m = std::max(m, std::abs(v[i]));
    if (maxAbs) *maxAbs = m;
    if (side == 0) return (8 * (v[3] - v[1]) - (v[4] - v[0])) / (12 * (LD)h);
    return side * (-25 * v[0] + 48 * v[1] - 36 * v[2] + 16 * v[3] - 3 * v[4]) / (12 * (LD)h);
}
// exact (for polynomials of degree <= 8) 9-point central first derivative
template <class G> LD fd9(G g, double x, double h, LD* maxAbs) {
    LD s = 0, m = 0; static const LD c[5] = {0, 4.0L / 5, -1.0L / 5, 4.0L / 105, -1.0L / 280};
    for (int i = 1; i <= 4; ++i) { LD a = g(x + i * h), b = g(x - i * h); s += c[i] * (a - b); m = std::max(m, std::max(std::abs(a), std::abs(b))); }
    *maxAbs = m; return s / (LD)h;
}

// ------------------------------------------------------------------ mode 0: Function objects
struct Fn {
    int kind = 0;      // 0 Constant, 1 Linear, 2 Polynomial, 3 Sinusoid, 4 Step<Real>, 5 Step<Vec3>
    int nargs = 1;
    std::vector<double> c;   // Constant: value; Linear: coefficients (nargs+1); Polynomial: decreasing powers
    double a = 1, w = 1, p = 0;            // Sinusoid
    double y0 = 0, y1 = 1, x0 = 0, x1 = 1; // Step
    Vec3 Y0, Y1;
    std::unique_ptr<Function> f; std::unique_ptr<Function_<Vec3> > f3;
    double L = 1;      // characteristic length of the argument
};

void buildFn(Fn& F, pbt::Reader& g) {
    F.kind = g.pick(6);
    switch (F.kind) {
        case 0: F.nargs = 1 + g.pick(4); F.c = {g.real(-10, 10)}; F.f.reset(new Function::Constant(F.c[0], F.nargs)); break;
        case 1: { F.nargs = 1 + g.pick(5); Vector co(F.nargs + 1); for (int i = 0; i <= F.nargs; ++i) { F.c.push_back(g.real(-5, 5)); co[i] = F.c[i]; } F.f.reset(new Function::Linear(co)); break; }
        case 2: { int deg = g.pick(9); Vector co(deg + 1); for (int i = 0; i <= deg; ++i) { F.c.push_back(g.real(-3, 3)); co[i] = F.c[i]; } F.f.reset(new Function::Polynomial(co)); break; }
        case 3: { F.a = g.real(-5, 5); F.w = g.logreal(0.05, 50) * (g.boolean() ? -1 : 1); F.p = g.real(-7, 7); F.f.reset(new Function::Sinusoid(F.a, F.w, F.p)); F.L = 1 / std::abs(F.w); break; }
        case 4: case 5: {
            F.y0 = g.real(-5, 5); F.y1 = g.real(-5, 5); F.x0 = g.real(-3, 3); double len = g.logreal(1e-3, 1e3) * (g.boolean() ? -1 : 1); F.x1 = F.x0 + len;
            if (F.x1 == F.x0) F.x1 = F.x0 + 1;
            F.L = std::abs(F.x1 - F.x0);
            F.f.reset(new Function::Step(F.y0, F.y1, F.x0, F.x1));
            if (F.kind == 5) { F.Y0 = Vec3(F.y0, g.real(-5, 5), g.real(-5, 5)); F.Y1 = Vec3(F.y1, g.real(-5, 5), g.real(-5, 5)); F.f3.reset(new Function_<Vec3>::Step(F.Y0, F.Y1, F.x0, F.x1)); }
            break; }
    }
}

void describeFn(const Fn& F, std::ostream& o) {
    static const char* n[] = {"Constant", "Linear", "Polynomial", "Sinusoid", "Step<Real>", "Step<Vec3>"};
    o.precision(17); o << n[F.kind] << " nargs=" << F.nargs;
    if (F.kind <= 2) { o << " coef="; for (double x : F.c) o << x << " "; }
    if (F.kind == 3) o << " a=" << F.a << " w=" << F.w << " p=" << F.p;
    if (F.kind >= 4) o << " y0=" << F.y0 << " y1=" << F.y1 << " x0=" << F.x0 << " x1=" << F.x1;
    if (F.kind == 5) o << " Y0=" << F.Y0 << " Y1=" << F.Y1;
    o << "\n";
}

// closed form of derivative `comps` (empty = value) in long double with a rounding scale
bool closedForm(const Fn& F, const std::vector<int>& comps, const Vector& x, LD& val, LD& scale) {
    const int k = (int)comps.size();
    switch (F.kind) {
        case 0: val = k == 0 ? (LD)F.c[0] : 0; scale = 0; return true;     // exact
        case 1: if (k == 0) { val = F.c[F.nargs]; scale = std::abs(val); for (int i = 0; i < F.nargs; ++i) { val += (LD)F.c[i] * x[i]; scale += std::abs((LD)F.c[i] * x[i]); } scale *= (F.nargs + 2); }
                else if (k == 1) { val = F.c[comps[0]]; scale = 0; } else { val = 0; scale = 0; }
                return true;
        case 2: { int deg = (int)F.c.size() - 1; val = 0; scale = 0; LD t = x[0];
                  for (int i = 0; i <= deg - k; ++i) { LD co = F.c[i]; for (int j = 0; j < k; ++j) co *= (deg - i - j); val += co * std::pow(t, (LD)(deg - i - k)); scale += std::abs(co * std::pow(t, (LD)(deg - i - k))); }
                  scale *= 2 * (deg + 2); return true; }
        case 3: { LD arg = (LD)F.w * x[0] + F.p; LD amp = (LD)F.a * std::pow((LD)F.w, (LD)k);
                  val = amp * std::sin(arg + k * 1.57079632679489661923132169163975144L); scale = std::abs(amp) * (4 + k + std::abs((LD)F.w * x[0]) + std::abs((LD)F.p)); return true; }
        default: return false;
    }
}

void functionsMode(const pbt::Tape& t, pbt::Ctx& ctx) {
    pbt::Reader g(t[0]); g.skip(1);
    Fn F; buildFn(F, g);
    if (ctx.wantDesc) describeFn(F, ctx.desc);
    static const char* names[] = {"Constant", "Linear", "Polynomial", "Sinusoid", "Step<Real>", "Step<Vec3>"};
    ctx.label(std::string("fn:") + names[F.kind]);
    const Function& f = *F.f;
    if (!ctx.check(f.getArgumentSize() == F.nargs, "getArgumentSize() wrong")) return;
    const int maxOrd = f.getMaxDerivativeOrder();
    if (!ctx.check(F.kind >= 4 ? maxOrd == 3 : maxOrd >= 1000, "getMaxDerivativeOrder() = " + std::to_string(maxOrd))) return;
    std::unique_ptr<Function> cl(f.clone());
    Worst wClosed, wFD, wFDr;
    const bool isStep = F.kind >= 4;
    const double sgn = F.x1 > F.x0 ? 1 : -1;
    for (size_t u = 1; u < t.size(); ++u) {
        pbt::Reader r(t[u]);
        Vector x(F.nargs);
        int place = -1;
        if (isStep) {
            // position relative to the transition: inside, outside, exactly at an end, a few FD steps from an end
            place = r.pick(8); double uu = r.unit(); double len = F.x1 - F.x0; double tiny = (1 + r.pick(6)) * 2e-3 * F.L * (r.boolean() ? 1 : -1);
            switch (place) { case 0: case 1: case 2: x[0] = F.x0 + uu * len; break; case 3: x[0] = F.x0 - (0.01 + 3 * uu) * len; break; case 4: x[0] = F.x1 + (0.01 + 3 * uu) * len; break;
                             case 5: x[0] = r.boolean() ? F.x0 : F.x1; r.skip(0); break; case 6: x[0] = F.x0 + tiny; break; default: x[0] = F.x1 + tiny; break; }
        } else for (int i = 0; i < F.nargs; ++i) x[i] = r.real(-3, 3) * (F.kind == 3 ? std::min(1.0, 10 * F.L) : 1);
        int order = F.kind == 3 ? 1 + r.pick(9) : F.kind == 2 ? 1 + r.pick(10) : isStep ? 1 + r.pick(3) : 1 + r.pick(4);
        std::vector<int> comps(order); for (int k = 0; k < order; ++k) comps[k] = r.pick(F.nargs);
        Array_<int> ac(comps.begin(), comps.end());
        if (ctx.wantDesc) { ctx.desc << "  eval x=" << x << " comps="; for (int c : comps) ctx.desc << c << ","; ctx.desc << "\n"; }
        ctx.label("order:" + std::to_string(std::min(order, 5)) + (order >= 5 ? "+" : ""));
        if (order >= 2) ctx.nontrivial(true);
        const Real value = f.calcValue(x), an = f.calcDerivative(ac, x);
        if (!ctx.check(std::isfinite(value) && std::isfinite(an), "non-finite value/derivative")) return;
        // std::vector overload and clone agree exactly
        if (!ctx.check(F.f->calcDerivative(ac, x) == cl->calcDerivative(ac, x) && cl->calcValue(x) == value, "clone() differs from the original")) return;
        {   bool same = true;
            switch (F.kind) { case 0: same = static_cast<const Function::Constant&>(f).calcDerivative(comps, x) == an; break; case 1: same = static_cast<const Function::Linear&>(f).calcDerivative(comps, x) == an; break;
                              case 2: same = static_cast<const Function::Polynomial&>(f).calcDerivative(comps, x) == an; break; case 3: same = static_cast<const Function::Sinusoid&>(f).calcDerivative(comps, x) == an; break;
                              default: same = static_cast<const Function::Step&>(f).calcDerivative(comps, x) == an; }
            if (!ctx.check(same, "std::vector overload of calcDerivative differs from the Array_ overload")) return; }
        // ---- closed forms (Constant, Linear, Polynomial, Sinusoid)
        LD ref, sc;
        if (closedForm(F, {}, x, ref, sc)) {
            double tol = 16 * EPS * (double)sc; wClosed.see(std::abs((double)(value - ref)), tol > 0 ? tol : 1e-300);
            if (!CALIB && std::abs((LD)value - ref) > tol) { ctx.fail("calcValue = " + pbt::str(value) + " but documented formula gives " + pbt::str((double)ref)); return; }
        }
        if (closedForm(F, comps, x, ref, sc)) {
            double tol = 16 * EPS * (double)sc;
            if (sc == 0) { if (!ctx.check((LD)an == ref, "derivative of order " + std::to_string(order) + " = " + pbt::str(an) + " must be exactly " + pbt::str((double)ref))) return; if (order > 1 || F.kind == 0) ctx.label("exact-zero-above-order"); }
            else { wClosed.see(std::abs((double)((LD)an - ref)), tol); if (!CALIB && std::abs((LD)an - ref) > tol) { ctx.fail("derivative order " + std::to_string(order) + " = " + pbt::str(an) + " but documented formula gives " + pbt::str((double)ref) + " (tolerance " + pbt::str(tol) + ")"); return; } }
            if (F.kind == 2 && order > (int)F.c.size() - 1) { if (!ctx.check(an == 0, "polynomial derivative above its degree is not exactly 0")) return; ctx.label("exact-zero-above-order"); }
        }
        // ---- Step: documented end values, range, monotonicity
        if (isStep) {
            const double s0 = (x[0] - F.x0) * sgn, s1 = (x[0] - F.x1) * sgn;
            if (s0 <= 0) { ctx.label("step:before/at-x0"); if (!ctx.check(value == F.y0 && an == 0, "Step must equal y0 with zero derivatives when (x-x0)*sign(x1-x0) <= 0: value " + pbt::str(value) + " derivative " + pbt::str(an))) return; }
            else if (s1 >= 0) { ctx.label("step:after/at-x1"); if (!ctx.check(value == F.y1 && an == 0, "Step must equal y1 with zero derivatives when (x-x1)*sign(x1-x0) >= 0: value " + pbt::str(value) + " derivative " + pbt::str(an))) return; }
            else {
                ctx.label("step:inside");
                double lo = std::min(F.y0, F.y1), hi = std::max(F.y0, F.y1), slack = 32 * EPS * (std::abs(F.y0) + std::abs(F.y1));
                if (!ctx.check(value >= lo - slack && value <= hi + slack, "Step value " + pbt::str(value) + " outside [y0,y1]")) return;
                // monotone: a second inside point
                double u2 = r.unit(); Vector x2(1); x2[0] = F.x0 + u2 * (F.x1 - F.x0); double v2 = f.calcValue(x2);
                double dir = (F.y1 - F.y0) * (x2[0] - x[0]) * sgn;     // expected sign of v2 - value
                if (!ctx.check((v2 - value) * (dir > 0 ? 1 : dir < 0 ? -1 : 0) >= -slack, "Step not monotone between x0 and x1: f(" + pbt::str(x[0]) + ")=" + pbt::str(value) + " f(" + pbt::str(x2[0]) + ")=" + pbt::str(v2))) return;
                // first derivative has the sign of (y1-y0)/(x1-x0)
                if (order == 1 && !ctx.check(an * (F.y1 - F.y0) * sgn >= 0, "Step first derivative has the wrong sign")) return;
            }
            // C2 join: derivatives 1 and 2 just inside either end are ~0 relative to their mid-interval size
            if (order <= 2) {
                const double d = 1e-6; Vector xe(1), xm(1); xm[0] = F.x0 + (order == 1 ? 0.5 : 0.2113248654) * (F.x1 - F.x0);
                double mid = std::abs(f.calcDerivative(ac, xm));
                for (int e = 0; e < 2; ++e) { xe[0] = e == 0 ? F.x0 + d * (F.x1 - F.x0) : F.x1 - d * (F.x1 - F.x0); double v = std::abs(f.calcDerivative(ac, xe));
                    if (!ctx.check(v <= (order == 1 ? 1e-10 : 1e-4) * mid, "Step derivative " + std::to_string(order) + " does not vanish at the " + (e ? "x1" : "x0") + " end (C2 join): " + pbt::str(v) + " vs mid-interval " + pbt::str(mid))) return; }
            }
            if (F.kind == 5) {   // Vec3 step = three Real steps
                Vec3 v3 = F.f3->calcValue(x), d3 = F.f3->calcDerivative(ac, x);
                if (!ctx.check(v3[0] == value && d3[0] == an, "Step<Vec3> component 0 differs from Step<Real>")) return;
                for (int j = 1; j < 3; ++j) { Function::Step fj(F.Y0[j], F.Y1[j], F.x0, F.x1); if (!ctx.check(v3[j] == fj.calcValue(x) && d3[j] == fj.calcDerivative(ac, x), "Step<Vec3> component differs from Step<Real>")) return; }
            }
        }
        // ---- k-th derivative = finite difference of the (k-1)-th with respect to the last listed component
        {
            std::vector<int> lower(comps.begin(), comps.end() - 1); Array_<int> al(lower.begin(), lower.end()); const int dv = comps.back();
            auto lowerVal = [&](double s) -> LD { Vector y = x; y[dv] = s; return order == 1 ? f.calcValue(y) : f.calcDerivative(al, y); };
            double h = 2e-3 * F.L; int side = 0;
            if (isStep) {
                // pieces (-inf,x0], (x0,x1), [x1,inf); an end point itself belongs to the outer piece. Stencils must stay inside one piece.
                double xs = x[0] * sgn, a = F.x0 * sgn, b = F.x1 * sgn;    // oriented so that a < b
                int s = 0;   // orientation-space side
                if (xs <= a) s = (xs > a - 2 * h) ? -1 : 0;
                else if (xs >= b) s = (xs < b + 2 * h) ? +1 : 0;
                else { if (xs - a < 2 * h * 1.001) s = +1; if (b - xs < 2 * h * 1.001) s = s == +1 ? 2 : -1; }
                if (s == 2) { h = (b - a) / 8.5; s = (xs - a < b - xs) ? +1 : -1; if (xs - a < 2 * h * 1.001 && b - xs < 2 * h * 1.001) s = 0; }  // (never for L-relative h)
                if (s != 0) ctx.label("nonsmooth-neighbourhood:one-sided");
                side = int(s * sgn);
            }
            LD m; LD fd = fd5(lowerVal, x[dv], h, side, &m);
            // Derived bound: |fd - f^(k)| <= C h^4 sup|f^(k+4)| + (3/2h) * (rounding of the library's f^(k-1) values),
            // C = 1/30 (central 5-point) or 1/5 (one-sided 5-point); sup over the stencil from the documented formula.
            LD B = 0, noise = 0;
            {   LD X = std::abs((LD)x[dv]) + 4 * h; LD rs = 0, dummy;
                switch (F.kind) {
                    case 0: break;
                    case 1: if (order == 1) { Vector xx = x; xx[dv] = (double)X; closedForm(F, lower, xx, dummy, rs); noise = 4 * EPS * rs; } break;
                    case 2: { int deg = (int)F.c.size() - 1, q = order + 4;
                              for (int i = 0; i <= deg - q; ++i) { LD co = std::abs((LD)F.c[i]); for (int j = 0; j < q; ++j) co *= (deg - i - j); B += co * std::pow(X, (LD)(deg - i - q)); }
                              Vector xx(1); xx[0] = (double)X; closedForm(F, lower, xx, dummy, rs); noise = 4 * EPS * rs; break; }
                    case 3: B = std::abs((LD)F.a) * std::pow(std::abs((LD)F.w), (LD)(order + 4)); { Vector xx(1); xx[0] = (double)X; closedForm(F, lower, xx, dummy, rs); noise = 4 * EPS * rs; } break;
                    default: { LD yr = std::abs((LD)F.y1 - F.y0);
                               const bool insidePiece = (x[0] - F.x0) * sgn > 0 && (x[0] - F.x1) * sgn < 0;
                               if (order == 1 && insidePiece) B = 720 * yr / std::pow((LD)F.L, 5);     // s(u) is the quintic of the header: s^(5) = 720, s^(6) = 0
                               static const LD Ck[3] = {40, 40, 400};   // magnitudes of the intermediate terms of stepUp, dstepUp, d2stepUp
                               noise = 16 * EPS * Ck[order - 1] * yr / std::pow((LD)F.L, (LD)(order - 1)) * (1 + (X + std::abs((LD)F.x0)) / F.L) + (order == 1 ? 8 * EPS * (std::abs((LD)F.y0) + std::abs((LD)F.y1)) : 0);
                               break; }
                } }
            LD trunc = (side == 0 ? 1 / 30.0L : 1 / 5.0L) * std::pow((LD)h, 4) * B, round = 1.5L / h * noise * 4;
            LD tol = 1.02L * trunc + round + 1e-300L;
            LD scaleK = std::max((LD)std::abs(an), m / F.L);
            if (isStep) scaleK = std::max(scaleK, (LD)std::abs(F.y1 - F.y0) / std::pow((LD)F.L, (LD)order));
            wFD.see((double)std::abs(fd - an), (double)tol); wFDr.see((double)std::max((LD)0, std::abs(fd - an) - trunc), (double)round + 1e-300);   // overall ratio; excess over the rigorous truncation bound relative to the rounding allowance
            if (!CALIB && std::abs(fd - an) > tol) { ctx.fail("derivative order " + std::to_string(order) + " = " + pbt::str(an) + " but the finite difference of order " + std::to_string(order - 1) + " gives " + pbt::str((double)fd) + " (tolerance " + pbt::str((double)tol) + ", side " + std::to_string(side) + ")"); return; }
            // sensitivity guard: the tolerance must be far below the size of the derivative scale
            if (tol < 1e-4 * scaleK) ctx.label("fd-checked"); else ctx.label("fd-insensitive");
        }
    }
    if (CALIB) { ctx.label(calibLabel((std::string("closed/") + names[F.kind]).c_str(), wClosed.r)); ctx.label(calibLabel((std::string("fdTrunc/") + names[F.kind]).c_str(), wFD.r)); ctx.label(calibLabel((std::string("fdRound/") + names[F.kind]).c_str(), wFDr.r)); }
}

// ------------------------------------------------------------------ mode 1: stepUp / stepDown / stepAny helpers
template <class R> void stepHelpers(const pbt::Tape& t, pbt::Ctx& ctx, const char* prec) {
    const double eps = sizeof(R) == 4 ? 1.1920929e-07 : EPS;
    pbt::Reader g(t[0]); g.skip(2);
    const R y0 = (R)g.real(-5, 5), yr = (R)g.real(-5, 5), x0 = (R)g.real(-3, 3); R xr = (R)(g.logreal(1e-2, 1e2) * (g.boolean() ? -1 : 1));
    const R ooxr = 1 / xr;
    if (ctx.wantDesc) { ctx.desc.precision(17); ctx.desc << "step helpers (" << prec << ") stepAny: y0=" << y0 << " yRange=" << yr << " x0=" << x0 << " xRange=" << xr << "\n"; }
    ctx.label(std::string("helpers:") + prec);
    // documented end values, exactly
    if (!ctx.check(stepUp(R(0)) == 0 && stepUp(R(1)) == 1 && stepDown(R(0)) == 1 && stepDown(R(1)) == 0, "stepUp/stepDown end values")) return;
    if (!ctx.check(dstepUp(R(0)) == 0 && dstepUp(R(1)) == 0 && d2stepUp(R(0)) == 0 && d2stepUp(R(1)) == 0 && dstepDown(R(0)) == 0 && dstepDown(R(1)) == 0 && d2stepDown(R(0)) == 0 && d2stepDown(R(1)) == 0,
                   "first and second derivatives must vanish at both ends")) return;
    if (!ctx.check(stepAny(y0, yr, x0, ooxr, x0) == y0, "stepAny(x0) != y0")) return;
    {   R ye = stepAny(y0, yr, x0, ooxr, R(x0 + xr)); if (!ctx.check(std::abs(ye - (y0 + yr)) <= 8 * eps * (std::abs(y0) + std::abs(yr)), "stepAny(x1) != y0+yRange: " + pbt::str(ye))) return; }
    Worst wFD;
    for (size_t u = 1; u < t.size(); ++u) {
        pbt::Reader r(t[u]);
        int cls = r.pick(8); double uu = r.unit(), vv = r.unit();
        R x = cls == 0 ? R(0) : cls == 1 ? R(1) : cls == 2 ? R(uu * 1e-3) : cls == 3 ? R(1 - uu * 1e-3) : cls == 4 ? R(0.5) : R(uu);
        if (x < 0) x = 0; if (x > 1) x = 1;
        R x2 = R(vv);
        if (ctx.wantDesc) ctx.desc << "  x=" << x << " x2=" << x2 << "\n";
        ctx.label(cls < 2 ? "x:end" : cls < 4 ? "x:near-end" : "x:interior"); ctx.nontrivial(true);
        const R s = stepUp(x), d1 = dstepUp(x), d2 = d2stepUp(x), d3 = d3stepUp(x);
        if (!ctx.check(s >= -32 * eps && s <= 1 + 32 * eps, "stepUp outside [0,1] by more than 32 eps (2 ulp of the intermediate 15x^4): " + pbt::str(s))) return;
        if (!ctx.check(d1 >= 0, "dstepUp negative: " + pbt::str(d1))) return;
        // monotone, symmetric about the midpoint
        {   R s2 = stepUp(x2); if (!ctx.check((x2 >= x ? s2 - s : s - s2) >= -32 * eps, "stepUp not monotone: stepUp(" + pbt::str(x) + ")=" + pbt::str(s) + " stepUp(" + pbt::str(x2) + ")=" + pbt::str(s2))) return; }
        if (!ctx.check(std::abs((double)s + (double)stepUp(R(1 - x)) - 1) <= 64 * eps, "stepUp not symmetric about x=0.5: " + pbt::str((double)s + (double)stepUp(R(1 - x)) - 1))) return;
        if (!ctx.check(std::abs((double)d1 - (double)dstepUp(R(1 - x))) <= 64 * eps * (1 + d1) && std::abs((double)d2 + (double)d2stepUp(R(1 - x))) <= 256 * eps * (1 + std::abs(d2)), "derivatives of stepUp not (anti)symmetric about x=0.5")) return;
        // stepDown is the mirror image
        if (!ctx.check(stepDown(x) == 1 - s && dstepDown(x) == -d1 && d2stepDown(x) == -d2 && d3stepDown(x) == -d3, "stepDown is not 1-stepUp (or derivatives not negated)")) return;
        // derivative chain on [0,1] (one-sided next to the ends; the helpers are defined on [0,1] only)
        {
            const double h = sizeof(R) == 4 ? 2e-2 : 2e-3; int side = x < 2 * h * 1.001 ? +1 : (x > 1 - 2 * h * 1.001 ? -1 : 0);
            if (side) ctx.label("nonsmooth-neighbourhood:one-sided");
            auto clampd = [](double z) { return z < 0 ? 0.0 : z > 1 ? 1.0 : z; };
            struct { const char* n; std::function<LD(double)> lo; double an; double scale; } ch[3] = {
                {"dstepUp", [&](double z) { return (LD)stepUp(R(clampd(z))); }, (double)d1, 5}, {"d2stepUp", [&](double z) { return (LD)dstepUp(R(clampd(z))); }, (double)d2, 5}, {"d3stepUp", [&](double z) { return (LD)d2stepUp(R(clampd(z))); }, (double)d3, 50}};
            for (auto& c : ch) {
                // in float the abscissae x+ih are rounded to float: use the rounded abscissa spacing by evaluating at float points only
                LD m; LD fd = fd5(c.lo, (double)x, h, side, &m);
                // stepUp is the quintic 10x^3-15x^4+6x^5 (header): 5th derivative 720, higher 0 => only the first chain link has truncation error
                LD trunc = (&c == &ch[0]) ? (side == 0 ? 1 / 30.0L : 1 / 5.0L) * std::pow((LD)h, 4) * 720 : 0;
                LD tol = 1.02L * trunc + 1.5L / h * 16 * eps * (c.scale * 8) * 4;
                (void)m;
                wFD.see((double)std::max((LD)0, std::abs(fd - c.an) - trunc), (double)(tol - 1.02L * trunc));
                if (!CALIB && std::abs(fd - c.an) > tol) { ctx.fail(std::string(c.n) + "(" + pbt::str(x) + ") = " + pbt::str(c.an) + " but the finite difference of the next lower helper gives " + pbt::str((double)fd) + " (tolerance " + pbt::str((double)tol) + ")"); return; }
            }
        }
        // stepAny and derivatives: the documented composition (header "Theory") ...
        const R xa = R(x0 + x * xr);        // a point of [x0,x1] (either orientation)
        R xadj = (xa - x0) * ooxr; if (xadj < 0) xadj = 0; if (xadj > 1) xadj = 1;
        const double tolc = 64 * eps;
        const R ya = stepAny(y0, yr, x0, ooxr, xa), da = dstepAny(yr, x0, ooxr, xa), d2a = d2stepAny(yr, x0, ooxr, xa), d3a = d3stepAny(yr, x0, ooxr, xa);
        if (!ctx.check(std::abs((double)ya - ((double)y0 + (double)yr * stepUp(xadj))) <= tolc * (std::abs(y0) + std::abs(yr)), "stepAny != y0 + yRange*stepUp(xadj)")) return;
        if (!ctx.check(std::abs((double)da - (double)yr * ooxr * dstepUp(xadj)) <= tolc * std::abs((double)yr * ooxr) * 2, "dstepAny != yRange*ooxr*dstepUp(xadj): " + pbt::str(da))) return;
        if (!ctx.check(std::abs((double)d2a - (double)yr * ooxr * ooxr * d2stepUp(xadj)) <= tolc * std::abs((double)yr * ooxr * ooxr) * 6, "d2stepAny != yRange*ooxr^2*d2stepUp(xadj): " + pbt::str(d2a))) return;
        if (!ctx.check(std::abs((double)d3a - (double)yr * ooxr * ooxr * ooxr * d3stepUp(xadj)) <= tolc * std::abs((double)yr * ooxr * ooxr * ooxr) * 60, "d3stepAny != yRange*ooxr^3*d3stepUp(xadj): " + pbt::str(d3a))) return;
        {   double lo = std::min((double)y0, (double)y0 + yr), hi = std::max((double)y0, (double)y0 + yr);
            if (!ctx.check(ya >= lo - tolc * (std::abs(y0) + std::abs(yr)) && ya <= hi + tolc * (std::abs(y0) + std::abs(yr)), "stepAny outside [y0,y1]")) return; }
        // ... and, independently, as derivatives with respect to x itself (double only: float abscissae are too coarse)
        if (sizeof(R) == 8) {
            const double L = std::abs(xr), h = 2e-3 * L; const double lo = std::min((double)x0, (double)x0 + xr), hi = std::max((double)x0, (double)x0 + xr);
            int side = xa - lo < 2 * h * 1.001 ? +1 : (hi - xa < 2 * h * 1.001 ? -1 : 0);
            auto cl = [&](double z) { return z < lo ? lo : z > hi ? hi : z; };
            struct { const char* n; std::function<LD(double)> lo; double an; int k; } ch[3] = {
                {"dstepAny", [&](double z) { return (LD)stepAny(y0, yr, x0, ooxr, R(cl(z))); }, (double)da, 1}, {"d2stepAny", [&](double z) { return (LD)dstepAny(yr, x0, ooxr, R(cl(z))); }, (double)d2a, 2}, {"d3stepAny", [&](double z) { return (LD)d2stepAny(yr, x0, ooxr, R(cl(z))); }, (double)d3a, 3}};
            for (auto& c : ch) {
                LD m; LD fd = fd5(c.lo, (double)xa, h, side, &m);
                LD scaleK = std::abs((LD)yr) / std::pow((LD)L, (LD)c.k);
                static const LD Ck[3] = {40, 40, 400};
                LD trunc = c.k == 1 ? (side == 0 ? 1 / 30.0L : 1 / 5.0L) * std::pow((LD)2e-3, 4) * 720 * scaleK : 0;
                LD noise = 16 * eps * Ck[c.k - 1] * std::abs((LD)yr) / std::pow((LD)L, (LD)(c.k - 1)) * (1 + (std::abs((LD)xa) + 4 * h + std::abs((LD)x0)) / L) + (c.k == 1 ? 8 * eps * (std::abs((LD)y0) + std::abs((LD)yr)) : 0);
                LD tol = 1.02L * trunc + 1.5L / h * noise * 4 + 1e-300L; (void)m;
                wFD.see((double)std::max((LD)0, std::abs(fd - c.an) - trunc), (double)(tol - 1.02L * trunc));
                if (!CALIB && std::abs(fd - c.an) > tol) { ctx.fail(std::string(c.n) + " = " + pbt::str(c.an) + " at x=" + pbt::str(xa) + " but the finite difference in x of the next lower helper gives " + pbt::str((double)fd) + " (tolerance " + pbt::str((double)tol) + ")"); return; }
            }
            ctx.label("stepAny:fd-in-x");
        }
    }
    if (CALIB) ctx.label(calibLabel((std::string("fd/helpers-") + prec).c_str(), wFD.r));
}

// ------------------------------------------------------------------ mode 2: splines
template <class T> struct Comp;
template <> struct Comp<Real> { enum { N = 1 }; static Real get(const Real& v, int) { return v; } static void set(Real& v, int, Real x) { v = x; } };
template <> struct Comp<Vec3> { enum { N = 3 }; static Real get(const Vec3& v, int j) { return v[j]; } static void set(Vec3& v, int j, Real x) { v[j] = x; } };

template <class T> void splineMode(const pbt::Tape& t, pbt::Ctx& ctx) {
    const int NC = Comp<T>::N;
    pbt::Reader g(t[0]); g.skip(2);
    const int degree = 1 + 2 * g.pick(4), m = (degree + 1) / 2;
    const int knotClass = g.pick(3);           // 0 uniform, 1 random gaps in [0.2,5], 2 clustered (gap ratios down to 1e-2 / 1e-3)
    const double xscale = g.logreal(1e-2, 1e2), xoff = g.real(-10, 10) * xscale, yscale = g.logreal(1e-2, 1e2);
    const int pClass = g.pick(4);              // 0,1: interpolating (p=0) ; 2,3: smoothing
    const bool direct = degree == 1 && g.chance(1, 3);    // Spline_(1,x,y) constructed directly
    const int units = (int)t.size() - 1;
    const int n = std::max(2 * m, std::min(units, 40));
    Vector x(n); Vector_<T> y(n);
    double minGap = 1e300, maxGap = 0;
    {   double cur = xoff;
        for (int i = 0; i < n; ++i) {
            pbt::Reader r = i + 1 < (int)t.size() ? pbt::Reader(t[i + 1]) : pbt::Reader(t[1 + i % std::max(1, units)]);
            if (i + 1 >= (int)t.size()) r.skip(4);
            double gap = 1;
            if (knotClass == 1) gap = 0.2 + 4.8 * r.unit(); else if (knotClass == 2) { int c = r.pick(6); gap = c == 0 ? 1e-2 : c == 1 ? (degree <= 3 ? 1e-3 : 3e-2) : 0.5 + r.unit(); (void)0; } else r.skip(1);
            gap *= xscale;
            if (i > 0) { cur += gap; minGap = std::min(minGap, gap); maxGap = std::max(maxGap, gap); }
            x[i] = cur;
            T v; for (int j = 0; j < NC; ++j) Comp<T>::set(v, j, r.real(-1, 1) * yscale);
            y[i] = v;
        }
        for (int i = 1; i < n; ++i) if (!(x[i] > x[i - 1])) { ctx.reject("knots-not-increasing-after-rounding"); return; }
    }
    double ymax = 0; for (int i = 0; i < n; ++i) for (int j = 0; j < NC; ++j) ymax = std::max(ymax, std::abs(Comp<T>::get(y[i], j)));
    if (ymax == 0) ymax = yscale;
    const double prel = g.logreal(1e-6, 1e2);   // smoothing parameter relative to minGap^(2m-1): beyond ~1e6 GCVSPL's band system (B + p W^-1 E) is ill-conditioned and residuals are noise
    double p = 0;
    if (pClass >= 2) p = prel * std::pow(minGap, 2 * m - 1);
    if (ctx.wantDesc) { ctx.desc.precision(17); ctx.desc << "spline<" << (NC == 1 ? "Real" : "Vec3") << "> degree=" << degree << " n=" << n << " knotClass=" << knotClass << " p=" << p << (direct ? " direct Spline_(1,x,y)" : "") << "\n x=" << x << "\n y=" << y << "\n"; }
    ctx.label(std::string("spline:") + (NC == 1 ? "Real" : "Vec3") + "/deg" + std::to_string(degree));
    ctx.label(knotClass == 0 ? "knots:uniform" : knotClass == 1 ? "knots:random" : "knots:clustered");
    ctx.label(p == 0 ? "p=0:interpolating" : "p>0:smoothing");
    if (degree >= 5 && knotClass != 0) ctx.nontrivial(true);
    Spline_<T> spl;
    try {
        if (direct) spl = Spline_<T>(1, x, y);
        else { SplineFitter<T> fit = SplineFitter<T>::fitForSmoothingParameter(degree, x, y, p); spl = fit.getSpline();
               // GCVSPL clamps the requested p into [eps/el, 1/(eps*el)] (el = scale of the roughness matrix) and reports the value used: 0 or a smaller p
               const Real pu = fit.getSmoothingParameter();
               if (!ctx.check(pu == p || (pu >= 0 && pu < p), "getSmoothingParameter() = " + pbt::str(pu) + " is neither the requested " + pbt::str(p) + " nor a clamped smaller value")) return;
               if (pu != p) ctx.label("p-clamped-by-gcvspl"); }
    } catch (const std::exception& e) { ctx.reject("gcvspl-exception"); if (ctx.wantDesc) ctx.desc << "exception: " << e.what() << "\n"; return; }
    if (!ctx.check(spl.getSplineDegree() == degree && spl.getArgumentSize() == 1, "getSplineDegree/getArgumentSize wrong")) return;
    {   const Vector& xl = spl.getControlPointLocations(); bool same = xl.size() == n; for (int i = 0; same && i < n; ++i) same = xl[i] == x[i];
        if (!ctx.check(same && spl.getControlPointValues().size() == n, "control point locations differ from the knots given")) return; }
    const Vector_<T>& coef = spl.getControlPointValues();
    double cmax = 0; for (int i = 0; i < n; ++i) for (int j = 0; j < NC; ++j) cmax = std::max(cmax, std::abs(Comp<T>::get(coef[i], j)));
    if (!ctx.check(std::isfinite(cmax), "non-finite spline coefficients")) return;
    cmax = std::max(cmax, ymax);
    Worst wInterp, wFD, wCont, wMono;
    // ---- interpolation of the data points (p = 0), piecewise-linear closed form for degree 1
    if (p == 0) {
        const double cond = std::pow(maxGap / minGap, degree <= 1 ? 0 : 1.0);
        for (int i = 0; i < n; ++i) { T v = spl.calcValue(x[i]);
            for (int j = 0; j < NC; ++j) { double err = std::abs(Comp<T>::get(v, j) - Comp<T>::get(y[i], j)), tol = 1e-9 * cmax * cond;
                wInterp.see(err, tol);
                if (!CALIB && !(err <= tol)) { ctx.fail("interpolating spline (p=0) misses data point " + std::to_string(i) + ": s(" + pbt::str(x[i]) + ")=" + pbt::str(Comp<T>::get(v, j)) + " vs y=" + pbt::str(Comp<T>::get(y[i], j)) + " (tolerance " + pbt::str(tol) + ")"); return; } } }
        ctx.label("interpolation-checked");
    }
    // ---- evaluation requests: a few per case, taken from the unit words
    const int nEval = std::min(units, 6);
    for (int e = 0; e < nEval; ++e) {
        pbt::Reader r(t[1 + e]); r.skip(8);
        const int iv = r.pick(n - 1); const double a = x[iv], b = x[iv + 1], len = b - a;
        double localGap = len; for (int k = std::max(0, iv - m); k < std::min(n - 1, iv + m + 1); ++k) localGap = std::min(localGap, x[k + 1] - x[k]);
        const double uu = 0.06 + 0.88 * r.unit(); const double tt = a + uu * len; const double h = len * std::min(uu, 1 - uu) / 4.4;
        const int order = 1 + r.pick(degree + 1);        // 1..degree+1
        const int j = r.pick(NC);
        if (ctx.wantDesc) ctx.desc << "  eval interval " << iv << " t=" << tt << " order=" << order << "\n";
        ctx.label("order:" + std::to_string(std::min(order, 5)) + (order >= 5 ? "+" : "")); if (order >= 2) ctx.nontrivial(true);
        // Function_ interface == direct interface
        {   Vector xv(1); xv[0] = tt; Array_<int> dc(order, 0); std::vector<int> dv(order, 0);
            T a1 = spl.calcDerivative(order, tt), a2 = spl.calcDerivative(dc, xv), a3 = spl.calcDerivative(dv, xv), v1 = spl.calcValue(tt), v2 = spl.calcValue(xv);
            for (int q = 0; q < NC; ++q) if (!ctx.check(Comp<T>::get(a1, q) == Comp<T>::get(a2, q) && Comp<T>::get(a1, q) == Comp<T>::get(a3, q) && Comp<T>::get(v1, q) == Comp<T>::get(v2, q), "Function_ interface of Spline_ differs from the direct interface")) return;
            std::unique_ptr<Spline_<T> > cl(spl.clone()); T a4 = cl->calcDerivative(order, tt);
            for (int q = 0; q < NC; ++q) if (!ctx.check(Comp<T>::get(a1, q) == Comp<T>::get(a4, q), "clone() of Spline_ differs")) return; }
        auto D = [&](int k, double z) -> LD { return k == 0 ? (LD)Comp<T>::get(spl.calcValue(z), j) : (LD)Comp<T>::get(spl.calcDerivative(k, z), j); };
        const LD an = D(order, tt);
        if (!ctx.check(std::isfinite((double)an), "non-finite spline derivative")) return;
        LD mx; LD fd = fd9([&](double z) { return D(order - 1, z); }, tt, h, &mx);
        // rounding of the library's own evaluation of derivative order-1: ~ eps * cmax / localGap^(order-1) (B-spline basis derivative scale)
        LD ffac = 1; for (int q = 0; q < order - 1 && q < degree; ++q) ffac *= (degree - q);    // size of the (order-1)-th derivative of a degree-d B-spline basis: d!/(d-k)! / gap^k
        LD evalNoise = (LD)cmax * ffac / std::pow((LD)localGap, (LD)(order - 1));
        LD tol = 1e-10L * (mx + evalNoise) / h;
        wFD.see((double)std::abs(fd - an), (double)tol);
        if (!CALIB && std::abs(fd - an) > tol) { ctx.fail("spline derivative order " + std::to_string(order) + " at t=" + pbt::str(tt) + " is " + pbt::str((double)an) + " but the (exact-for-polynomials) 9-point difference of order " + std::to_string(order - 1) + " gives " + pbt::str((double)fd) + " (tolerance " + pbt::str((double)tol) + ")"); return; }
        LD scaleK = std::max(std::abs(an), mx / (LD)len);
        ctx.label(tol < 1e-3 * scaleK || (order == degree + 1 && tol < 1e-3 * evalNoise / localGap) ? "spline-fd-checked" : "spline-fd-insensitive");
        if (order == degree + 1) { if (!ctx.check(an == 0, "spline derivative of order degree+1 is not exactly 0: " + pbt::str((double)an))) return; ctx.label("exact-zero-above-order"); }
    }
    // ---- continuity of derivatives 0..degree-1 across interior knots
    if (n >= 3) for (int e = 0; e < std::min(units, 4); ++e) {
        pbt::Reader r(t[1 + e]); r.skip(13);
        const int ik = 1 + r.pick(n - 2); const int j = r.pick(NC); const int k = r.pick(degree);   // derivative order 0..degree-1
        const double gl = x[ik] - x[ik - 1], gr = x[ik + 1] - x[ik], d = 1e-6 * std::min(gl, gr);
        double localGap = std::min(gl, gr); for (int q = std::max(0, ik - m); q < std::min(n - 1, ik + m); ++q) localGap = std::min(localGap, x[q + 1] - x[q]);
        auto D = [&](int kk, double z) -> LD { return kk == 0 ? (LD)Comp<T>::get(spl.calcValue(z), j) : (LD)Comp<T>::get(spl.calcDerivative(kk, z), j); };
        LD Lv = D(k, x[ik] - d), Rv = D(k, x[ik] + d), Cv = D(k, x[ik]);
        LD lip = std::abs(D(k + 1, x[ik] - d)) + std::abs(D(k + 1, x[ik] + d));
        LD ffac = 1; for (int q = 0; q < k; ++q) ffac *= (degree - q);
        LD noise = 1e-10L * (LD)cmax * ffac / std::pow((LD)localGap, (LD)k);
        LD tol = 1.5L * d * lip + noise;
        wCont.see((double)std::max((LD)0, std::abs(Rv - Lv) - d * lip), (double)noise);   // excess over the rigorous Lipschitz part, relative to the rounding allowance
        if (!CALIB && std::abs(Rv - Lv) > tol) { ctx.fail("derivative " + std::to_string(k) + " of the degree-" + std::to_string(degree) + " spline jumps at interior knot " + std::to_string(ik) + " (x=" + pbt::str(x[ik]) + "): left " + pbt::str((double)Lv) + " right " + pbt::str((double)Rv) + " (tolerance " + pbt::str((double)tol) + ")"); return; }
        if (!CALIB && (Cv < std::min(Lv, Rv) - tol || Cv > std::max(Lv, Rv) + tol)) { ctx.fail("derivative " + std::to_string(k) + " at interior knot " + std::to_string(ik) + " is " + pbt::str((double)Cv) + ", not between its one-sided neighbours " + pbt::str((double)Lv) + " / " + pbt::str((double)Rv)); return; }
        LD scaleK = std::max(std::abs(Cv), (LD)ymax / std::pow((LD)std::max(gl, gr), (LD)k));
        ctx.label(tol < 1e-3 * scaleK ? "continuity-checked" : "continuity-insensitive");
    }
    // ---- Vec3 spline = three Real splines ; smoothing: residual is monotone in p and 0 at p=0
    if (!direct) {
        if (NC == 3) {
            pbt::Reader r(t[1]); r.skip(15); const double tt = x[0] + r.unit() * (x[n - 1] - x[0]); const int ord = r.pick(degree + 1);
            for (int j = 0; j < NC; ++j) {
                Vector yj(n); for (int i = 0; i < n; ++i) yj[i] = Comp<T>::get(y[i], j);
                try { SplineFitter<Real> fj = SplineFitter<Real>::fitForSmoothingParameter(degree, x, yj, p);
                      Real a = ord == 0 ? fj.getSpline().calcValue(tt) : fj.getSpline().calcDerivative(ord, tt);
                      Real b = Comp<T>::get(ord == 0 ? spl.calcValue(tt) : spl.calcDerivative(ord, tt), j);
                      if (!ctx.check(std::abs(a - b) <= 1e-9 * (std::abs(a) + std::abs(b)) + 1e-9 * cmax / std::pow(minGap, ord), "Vec3 spline component " + std::to_string(j) + " differs from the Real spline of that component: " + pbt::str(b) + " vs " + pbt::str(a))) return;
                } catch (const std::exception&) { ctx.reject("gcvspl-exception"); return; }
            }
            ctx.label("vec3-vs-real");
        }
        if (p > 0) {
            auto residual = [&](double pp, bool& ok) -> LD { LD s = 0; ok = true;
                try { SplineFitter<T> f = SplineFitter<T>::fitForSmoothingParameter(degree, x, y, pp); const Spline_<T>& sp = f.getSpline();
                      for (int i = 0; i < n; ++i) { T v = sp.calcValue(x[i]); for (int j = 0; j < NC; ++j) { LD d = (LD)Comp<T>::get(v, j) - Comp<T>::get(y[i], j); s += d * d; } } }
                catch (const std::exception&) { ok = false; }
                return s; };
            bool o1, o2, o3, o4; LD r4 = residual(p * 100, o4), r1 = residual(p, o1), r2 = residual(p / 30, o2), r3 = residual(0, o3);
            if (!(o1 && o2 && o3 && o4)) { ctx.reject("gcvspl-exception"); return; }
            LD slack = 1e-10L * n * NC * (LD)cmax * cmax;
            wMono.see((double)std::max(std::max((LD)0, r1 - r4), std::max(r2 - r1, r3 - r2)), (double)slack); wMono.see((double)r3, (double)slack);
            if (!CALIB && !(r4 >= r1 - slack && r1 >= r2 - slack && r2 >= r3 - slack)) { ctx.fail("smoothing-spline residual is not monotone in p: R(100p)=" + pbt::str((double)r4) + " R(p)=" + pbt::str((double)r1) + " R(p/30)=" + pbt::str((double)r2) + " R(0)=" + pbt::str((double)r3)); return; }
            if (!CALIB && !(r3 <= slack)) { ctx.fail("residual at p=0 is not ~0: " + pbt::str((double)r3)); return; }
            ctx.label(r1 > 100 * slack ? "smoothing:residual-monotone(nonzero)" : "smoothing:residual-monotone(tiny)");
        }
    }
    if (CALIB) { std::string d = "deg" + std::to_string(degree) + "/k" + std::to_string(knotClass); ctx.label(calibLabel(("interp/" + d).c_str(), wInterp.r)); ctx.label(calibLabel(("splfd/" + d).c_str(), wFD.r)); ctx.label(calibLabel(("cont/" + d).c_str(), wCont.r)); if (p > 0) ctx.label(calibLabel(("mono/" + d).c_str(), wMono.r)); }
}

void property(const pbt::Tape& t, pbt::Ctx& ctx) {
    pbt::Reader g(t[0]);
    int mode = g.pick(8);     // 0,1,2 functions; 3 helpers double; 4 helpers float; 5,6 spline Real; 7 spline Vec3
    if (mode <= 2) { ctx.label("mode:functions"); functionsMode(t, ctx); }
    else if (mode == 3) { ctx.label("mode:step-helpers"); stepHelpers<double>(t, ctx, "double"); }
    else if (mode == 4) { ctx.label("mode:step-helpers"); stepHelpers<float>(t, ctx, "float"); }
    else if (mode <= 6) { ctx.label("mode:spline"); splineMode<Real>(t, ctx); }
    else { ctx.label("mode:spline"); splineMode<Vec3>(t, ctx); }
}

pbt::Config config() {
    pbt::Config c; c.prop = "C41"; c.K = 16; c.minUnits = 1;
    c.quick = {20000, 150000, 30, 25}; c.thorough = {100000, 1000000, 40, 240};
    c.rule = "rapidcheck tape -> (3/8) a Function object {Constant, Linear(1..5 args), Polynomial(deg 0..8), Sinusoid, Step<Real>, Step<Vec3>} with one evaluation request per unit (point incl. Step transition ends and their neighbourhoods, derivative index list of order 1..10); (2/8) stepUp/stepDown/stepAny helper families in double/float at end, near-end and interior points; (3/8) Spline_<Real>/<Vec3> of degree 1,3,5,7 fitted by SplineFitter::fitForSmoothingParameter (p=0 or p>0) or built directly (degree 1) over max(degree+1, units)<=40 uniform/random/clustered knots. Non-trivial: derivative order >= 2, step helper chains, or spline degree >= 5 with non-uniform knots; distinct by tape hash.";
    c.assumptions = {"long double closed forms and 4th-order / exact 9-point difference stencils are the reference; tolerances = derived truncation bound + rounding bound, calibration in notes/C41.md",
                     "spline evaluation is judged inside [x_0, x_{n-1}] only (GCVSPLUtil::splder documents that range by assertion)"};
    c.requiredLabels = {"fn:Constant", "fn:Linear", "fn:Polynomial", "fn:Sinusoid", "fn:Step<Real>", "fn:Step<Vec3>", "helpers:double", "helpers:float", "spline:Real/deg1", "spline:Real/deg3", "spline:Real/deg5", "spline:Real/deg7", "spline:Vec3/deg5",
                        "nonsmooth-neighbourhood:one-sided", "step:inside", "step:before/at-x0", "step:after/at-x1", "interpolation-checked", "continuity-checked", "spline-fd-checked", "smoothing:residual-monotone(nonzero)", "vec3-vs-real", "knots:clustered"};
    return c;
}
} // namespace

PBT_MAIN(config(), property)
