// VERIF-TREES: asan fuzz
// C26 -- Array_ / ArrayView_ and the pointer wrappers have value semantics (DESIGN.md section 5, C26).
// Stateful, model based: one tape unit = one operation; after EVERY operation every real object is compared with
// the model. Array scenarios: a pool of 3 Array_<T,X> objects (owners and shareData() non-owners onto 2 fixed
// backing stores) mirrored by std::vector<int> tag models, for T in {Counted, int, std::string, MoveOnly} and
// X in {unsigned, unsigned char (max_size 255)}. Element types Counted/MoveOnly keep a live-object registry
// (construct over a live object, destroy a non-live object, bitwise relocation, leaks) and constructor /
// destructor / assignment counters that are compared with the "Complexity" paragraphs of Array.h.
// Pointer scenario: pools of ClonePtr, CloneOnWritePtr, ReferencePtr, ResetOnCopy, ReinitOnCopy objects against
// a model of the documented copy/move/assign semantics (object identity, use counts, clone counts).
#include "pbt.h"
#include "SimTKcommon.h"
#include <deque>
#include <list>
#include <memory>
#include <unordered_set>
using namespace SimTK;

#if defined(__has_feature)
#if __has_feature(address_sanitizer)
// histories allocate and free many small blocks: the default 256 MB quarantine makes the sanitizer run page-fault bound
extern "C" const char* __asan_default_options() { return "quarantine_size_mb=16"; }
#endif
#endif

namespace {

// ------------------------------------------------------------------ registry (per case; no state between cases)
struct Cn { long def = 0, val = 0, copy = 0, move = 0, dtor = 0, casg = 0, masg = 0, clones = 0; };
struct Reg {
    std::unordered_set<const void*> live; Cn n; std::string err;
    void bad(const std::string& m) { if (err.empty()) err = m; }
    void born(const void* p) { if (!live.insert(p).second) bad("an object was constructed on top of a live object (missing destructor call)"); }
    void died(const void* p, const void* self) {
        if (!live.erase(p)) bad("destructor ran on an object that is not alive (double destruction or never constructed)");
        else if (self != p) bad("a live object was relocated bitwise (self pointer does not match)");
    }
    void used(const void* p) { if (!live.count(p)) bad("assignment to/from an object that is not alive"); }
};
Reg* R = nullptr;

struct Counted {
    int v; const Counted* self;
    Counted() : v(0), self(this) { R->born(this); R->n.def++; }
    Counted(int x) : v(x), self(this) { R->born(this); R->n.val++; }
    Counted(const Counted& o) : v(o.v), self(this) { R->used(&o); R->born(this); R->n.copy++; }
    Counted(Counted&& o) noexcept : v(o.v), self(this) { R->used(&o); o.v = -777; R->born(this); R->n.move++; }
    Counted& operator=(const Counted& o) { R->used(this); R->used(&o); v = o.v; R->n.casg++; return *this; }
    Counted& operator=(Counted&& o) noexcept { R->used(this); R->used(&o); v = o.v; if (&o != this) o.v = -777; R->n.masg++; return *this; }
    ~Counted() { R->died(this, self); R->n.dtor++; }
    bool operator==(const Counted& o) const { return v == o.v; }
    bool operator<(const Counted& o) const { return v < o.v; }
};
struct MoveOnly {
    int v; const MoveOnly* self;
    MoveOnly() : v(0), self(this) { R->born(this); R->n.def++; }
    MoveOnly(int x) : v(x), self(this) { R->born(this); R->n.val++; }
    MoveOnly(const MoveOnly&) = delete;
    MoveOnly& operator=(const MoveOnly&) = delete;
    MoveOnly(MoveOnly&& o) noexcept : v(o.v), self(this) { R->used(&o); o.v = -777; R->born(this); R->n.move++; }
    MoveOnly& operator=(MoveOnly&& o) noexcept { R->used(this); R->used(&o); v = o.v; if (&o != this) o.v = -777; R->n.masg++; return *this; }
    ~MoveOnly() { R->died(this, self); R->n.dtor++; }
    bool operator==(const MoveOnly& o) const { return v == o.v; }
    bool operator<(const MoveOnly& o) const { return v < o.v; }
};
struct Obj {   // clonable payload of the pointer wrappers
    int v; const Obj* self;
    explicit Obj(int x) : v(x), self(this) { R->born(this); }
    Obj(const Obj& o) : v(o.v), self(this) { R->born(this); }
    Obj* clone() const { R->n.clones++; return new Obj(*this); }
    ~Obj() { R->died(this, self); }
};

template <class T> struct Tr;
template <> struct Tr<int> { static const bool copyable = true, counted = false; static int make(int t) { return t; } static int tag(const int& x) { return x; } static bool ok(const int&) { return true; } static const char* name() { return "int"; } };
template <> struct Tr<Counted> { static const bool copyable = true, counted = true; static Counted make(int t) { return Counted(t); } static int tag(const Counted& x) { return x.v; } static bool ok(const Counted& x) { return x.self == &x; } static const char* name() { return "Counted"; } };
template <> struct Tr<MoveOnly> { static const bool copyable = false, counted = true; static MoveOnly make(int t) { return MoveOnly(t); } static int tag(const MoveOnly& x) { return x.v; } static bool ok(const MoveOnly& x) { return x.self == &x; } static const char* name() { return "MoveOnly"; } };
template <> struct Tr<std::string> { static const bool copyable = true, counted = false;
    static std::string make(int t) { if (t == 0) return std::string(); std::string s = std::to_string(t); if (t % 2) s += std::string(20, char('a' + t % 26)); return s; }
    static int tag(const std::string& s) { return s.empty() ? 0 : atoi(s.c_str()); } static bool ok(const std::string& s) { return s == make(tag(s)); } static const char* name() { return "string"; } };

// an input iterator (single pass category) over a T range: exercises the push-one-at-a-time code paths
template <class T> struct InIt {
    typedef std::input_iterator_tag iterator_category; typedef T value_type; typedef std::ptrdiff_t difference_type; typedef const T* pointer; typedef const T& reference;
    const T* p; explicit InIt(const T* q) : p(q) {}
    const T& operator*() const { return *p; } InIt& operator++() { ++p; return *this; } InIt operator++(int) { InIt c(*this); ++p; return c; }
    bool operator==(const InIt& o) const { return p == o.p; } bool operator!=(const InIt& o) const { return p != o.p; }
};

struct Exp { long def = -1, val = -1, copy = -1, move = -1, dtor = -1, casg = -1, masg = -1;   // -1: not specified by the documentation
    static Exp zero() { Exp e; e.def = e.val = e.copy = e.move = e.dtor = e.casg = e.masg = 0; return e; } };

// =================================================================== Array_ scenario
template <class T, class X> struct ArrayRun {
    typedef Array_<T, X> A; typedef typename A::size_type S; typedef Tr<T> TT;
    static const int NS = 3, NB = 2;
    pbt::Ctx& ctx; const long MAXN; const bool small;
    std::unique_ptr<A> a[NS];
    struct MS { bool owner = true; std::vector<int> own; int bk = -1, off = 0, len = 0; } m[NS];
    std::vector<T> back[NB]; std::vector<int> mback[NB];
    int next = 1; std::string op; bool sawReallocInsert = false, sawNonOwner = false, sawIllegal = false, sawMaxSize = false;
    std::set<int> kindsDone; bool excludedKnown = false; int lastSlot = 0;
    static long MAXNidx() { return (long)ArrayIndexTraits<X>::max_size(); }
    // temporaries handed to the library live until the next step so that their destruction is not counted as library activity
    std::deque<T> hv; std::deque<std::vector<T>> hvv; std::deque<std::list<T>> hl;
    T& val(int tag) { hv.emplace_back(TT::make(tag)); return hv.back(); }
    std::list<T>& lst(const std::vector<T>& src) { hl.emplace_back(); if constexpr (TT::copyable) hl.back().assign(src.begin(), src.end()); return hl.back(); }

    ArrayRun(pbt::Ctx& c, long maxn, bool sm) : ctx(c), MAXN(maxn), small(sm) {}
    int msize(int s) const { return m[s].owner ? (int)m[s].own.size() : m[s].len; }
    int& mel(int s, int j) { return m[s].owner ? m[s].own[j] : mback[m[s].bk][m[s].off + j]; }
    std::vector<int> mcopy(int s) { std::vector<int> v(msize(s)); for (int j = 0; j < (int)v.size(); ++j) v[j] = mel(s, j); return v; }
    bool backingInUse(int k, int except) const { for (int s = 0; s < NS; ++s) if (s != except && !m[s].owner && m[s].bk == k) return true; return false; }
    std::vector<T>& mk(long n) { hvv.emplace_back(); std::vector<T>& v = hvv.back(); v.reserve(n); for (long i = 0; i < n; ++i) v.emplace_back(TT::make(next++)); return v; }
    static std::vector<int> tags(const std::vector<T>& v) { std::vector<int> t; for (auto& x : v) t.push_back(TT::tag(x)); return t; }

    bool fail(const std::string& msg) { ctx.fail("[" + std::string(TT::name()) + (small ? ",uchar" : "") + "] after " + op + ": " + msg); return false; }

    bool verify() {
        if (!R->err.empty()) return fail(R->err);
        long expectLive = (long)hv.size(); for (auto& v : hvv) expectLive += (long)v.size(); for (auto& l : hl) expectLive += (long)l.size();   // temporaries held by the harness
        for (int k = 0; k < NB; ++k) {
            expectLive += (long)back[k].size();
            for (size_t j = 0; j < back[k].size(); ++j) if (TT::tag(back[k][j]) != mback[k][j] || !TT::ok(back[k][j])) return fail("backing store " + std::to_string(k) + " element " + std::to_string(j) + " = " + std::to_string(TT::tag(back[k][j])) + ", model " + std::to_string(mback[k][j]));
        }
        for (int s = 0; s < NS; ++s) {
            const A& x = *a[s]; int n = msize(s);
            if ((long)x.size() != n) return fail("slot " + std::to_string(s) + " size " + std::to_string((long)x.size()) + ", model " + std::to_string(n));
            if (x.empty() != (n == 0)) return fail("empty() disagrees with size()");
            if ((long)x.capacity() < n) return fail("capacity() < size()");
            if (x.end() - x.begin() != n || x.cend() - x.cbegin() != n) return fail("end()-begin() != size()");
            if (x.isOwner() != m[s].owner) return fail("slot " + std::to_string(s) + " isOwner()=" + std::to_string(x.isOwner()) + ", model " + std::to_string(m[s].owner));
            if (m[s].owner) { expectLive += n; if ((long)x.allocated() != (long)x.capacity()) return fail("owner: allocated() != capacity()"); if (x.capacity() == 0 && x.data() != nullptr) return fail("zero capacity but non-null data()"); }
            else { if (x.allocated() != 0 || (long)x.capacity() != n) return fail("non-owner: allocated() != 0 or capacity() != size()"); if (x.data() != back[m[s].bk].data() + m[s].off) return fail("non-owner does not reference the shared data"); }
            for (int j = 0; j < n; ++j) {
                const T& e = x[(X)j];
                if (TT::tag(e) != mel(s, j)) return fail("slot " + std::to_string(s) + " element " + std::to_string(j) + " = " + std::to_string(TT::tag(e)) + ", model " + std::to_string(mel(s, j)) + " (size " + std::to_string(n) + ")");
                if (!TT::ok(e)) return fail("element is corrupted/relocated");
            }
            if (n) { if (&x.front() != x.data() || &x.back() != x.data() + (n - 1) || &x.at((X)(n - 1)) != &x.back() || &x.getElt((X)0) != x.data()) return fail("front()/back()/at()/getElt() address wrong");
                     if (TT::tag(*x.rbegin()) != mel(s, n - 1) || x.rend().base() != x.begin()) return fail("reverse iterators wrong"); }
        }
        if (TT::counted && (long)R->live.size() != expectLive) return fail("live element objects = " + std::to_string(R->live.size()) + ", model expects " + std::to_string(expectLive) + " (leak or lost destructor/constructor)");
        return true;
    }
    bool counts(const Cn& b, const Cn& n, const Exp& e) {
        if (!TT::counted) return true;
        const long got[7] = {n.def - b.def, n.val - b.val, n.copy - b.copy, n.move - b.move, n.dtor - b.dtor, n.casg - b.casg, n.masg - b.masg};
        const long want[7] = {e.def, e.val, e.copy, e.move, e.dtor, e.casg, e.masg}; static const char* nm[7] = {"default ctor", "value ctor", "copy ctor", "move ctor", "destructor", "copy assignment", "move assignment"};
        for (int i = 0; i < 7; ++i) if (want[i] >= 0 && got[i] != want[i]) return fail(std::string("documented complexity violated: ") + nm[i] + " calls = " + std::to_string(got[i]) + ", documented " + std::to_string(want[i]));
        return true;
    }

    // expectation of a gap-opening insertion of n elements at pos into owner slot (n0 elements, capacity c0)
    static Exp insExp(long n0, long c0, long pos, long n) { Exp e = Exp::zero(); if (n == 0) return e; if (c0 < n0 + n) e.move = e.dtor = n0; else e.move = e.dtor = n0 - pos; return e; }

    // One operation.
    bool step(pbt::Reader r) {
        hv.clear(); hvv.clear(); hl.clear();
        int kind = r.pick(44); const int s = r.pick(NS); int t = r.pick(NS);
        A& x = *a[s]; MS& ms = m[s]; lastSlot = s;
        const long n0 = msize(s), c0 = (long)x.capacity(); const T* d0 = x.data();
        const uint32_t wa = r.w(), wb = r.w(), wc = r.w();
        const long pos = long(wa % uint32_t(n0 + 1));                             // insertion point 0..n0
        const long epos = n0 > 0 ? long(wa % uint32_t(n0)) : 0;                   // element index 0..n0-1
        const long cnt = long(wb % uint32_t(small ? 70 : 9));
        const long bign = long(wa % uint32_t(small ? 256 : 30));
        bool threw = false, expectThrow = false; std::string what;
        // size bound: for the default index type a soft bound of the generator (operation skipped); for the
        // unsigned char index the documented max_size(): the library must refuse with an exception
        auto bound = [&](long add) { if (n0 + add <= MAXN) return false; if (small) { expectThrow = true; sawMaxSize = true; return false; } op += " (skipped: generator size bound)"; return true; };
        // known finding array-growth-check-uses-capacity: Array_::calcNewCapacityForGrowthBy()/isGrowthOK() test capacity()+n (not size()+n)
        // against max_size(), so a multi-element insertion that needs reallocation is refused although size()+n <= max_size().
        // Site predicate (on the input): insertion of n >= 2 elements, size+n <= max_size, capacity < size+n, capacity+n > max_size.
        auto growthSite = [&](long n) { if (!(n0 + n <= MAXNidx() && c0 < n0 + n && c0 + n > MAXNidx())) return false; if (!ctx.known("array-growth-check-uses-capacity")) return false;
                                        op += " (excluded: known finding array-growth-check-uses-capacity)"; excludedKnown = true; return true; };
        static const bool sizeChanging[44] = {1,1,1,1,1,1,1,1,1,1, 1,1,1,1,1,1,0,0,1,1, 1,1,0,0,0,0,0,0,1,0, 0,0,0,0,0,0,0,0,0,0, 0,0,0,0};
        static const bool needsCopy[44]    = {1,0,0,0,0,1,0,1,1,1, 1,0,0,0,0,1,0,0,1,1, 1,1,0,0,1,0,1,0,0,0, 1,1,0,0,0,0,0,1,0,0, 0,0,1,0};
        if (!TT::copyable && needsCopy[kind]) kind = (kind == 0) ? 1 : (kind == 5 || kind == 7 || kind == 8 || kind == 9 || kind == 10) ? 6 : (kind == 15) ? 14 : (kind == 24) ? 25 : 29;
        if (!ms.owner && sizeChanging[kind]) {
            bool insertKind = kind == 5 || kind == 6 || kind == 7 || kind == 8;
            kind = (insertKind && wc % 4 == 0) ? 40 : (TT::copyable ? 30 : 29);
        }
        Cn before = R->n, after; bool haveAfter = false; Exp e;   // e: all -1 = nothing documented
        auto snap = [&]() { before = R->n; };
        auto done = [&]() { after = R->n; haveAfter = true; };
        std::vector<int>& mo = ms.own;
        bool skipped = false;
        try {
        switch (kind) {
        case 0: { op = "push_back(const T&)"; if ((skipped = bound(1))) break; T& v = val(next); snap(); pushCopy(x, v); done(); mo.push_back(next++); e = Exp::zero(); e.copy = 1; if (n0 == c0) e.move = e.dtor = n0; } break;
        case 1: { op = "push_back(T&&)"; if ((skipped = bound(1))) break; T& v = val(next); snap(); x.push_back(std::move(v)); done(); mo.push_back(next++); e = Exp::zero(); e.move = 1; if (n0 == c0) { e.move += n0; e.dtor = n0; } } break;
        case 2: { op = "emplace_back(int)"; if ((skipped = bound(1))) break; snap(); if constexpr (TT::counted) x.emplace_back(int(next)); else x.emplace_back(TT::make(next)); done(); mo.push_back(next++); if (TT::counted) { e = Exp::zero(); e.val = 1; if (n0 == c0) e.move = e.dtor = n0; } } break;
        case 3: { op = (wc & 1) ? "push_back()" : "raw_push_back()+placement new"; if ((skipped = bound(1))) break; snap();
                  if (wc & 1) { x.push_back(); done(); mo.push_back(0); e = Exp::zero(); e.def = 1; if (n0 == c0) e.move = e.dtor = n0; }
                  else { T* slot = x.raw_push_back(); new (slot) T(TT::make(next)); mo.push_back(next++); } } break;
        case 4: { op = "pop_back"; if (n0 == 0) { op += " (skipped: empty)"; skipped = true; break; } snap(); x.pop_back(); done(); mo.pop_back(); e = Exp::zero(); e.dtor = 1; if (x.data() != d0 || (long)x.capacity() != c0) return fail("capacity/data changed"); } break;
        case 5: { op = "insert(p,value) at " + std::to_string(pos); if ((skipped = bound(1))) break; T& v = val(next); snap(); T* q = insCopy(x, pos, v); done(); mo.insert(mo.begin() + pos, next++);
                  if (q != x.data() + pos) return fail("returned pointer is not the new element"); e = insExp(n0, c0, pos, 1); e.copy = 1; mark(n0, c0, pos, 1); } break;
        case 6: { op = "emplace(p,int) at " + std::to_string(pos); if ((skipped = bound(1))) break; snap(); T* q; if constexpr (TT::counted) q = x.emplace(x.begin() + pos, int(next)); else q = x.emplace(x.begin() + pos, TT::make(next)); done(); mo.insert(mo.begin() + pos, next++);
                  if (q != x.data() + pos) return fail("returned pointer is not the new element"); if (TT::counted) { e = insExp(n0, c0, pos, 1); e.val = 1; } mark(n0, c0, pos, 1); } break;
        case 7: { op = "insert(p," + std::to_string(cnt) + ",value) at " + std::to_string(pos); if ((skipped = bound(cnt) || growthSite(cnt))) break; T& v = val(next); snap(); T* q = insN(x, pos, cnt, v); done();
                  mo.insert(mo.begin() + pos, (size_t)cnt, next++); if (q != x.data() + pos) return fail("returned pointer is not the first new element"); e = insExp(n0, c0, pos, cnt); e.copy = cnt; mark(n0, c0, pos, cnt); } break;
        case 8: case 9: case 10: {   // range insertion from foreign storage: pointers / vector iterators / list (bidirectional) / input iterators / another slot
            int flavour = kind == 10 ? 4 : int(wc % 4); long n = cnt;
            if (flavour == 3 && n0 + n > MAXN) n = std::max(0L, MAXN - n0);   // single-pass source: an overflow is detected only part-way (says the error text); keep it in range
            static const char* fn[] = {"T* range", "vector iterators", "list iterators", "input iterators", "range of another slot"};
            std::vector<int> st; T* q = nullptr;
            if (flavour == 4) { if (t == s) t = (s + 1) % NS; long tn = msize(t), o = long((wc / 4) % uint32_t(tn + 1)); n = std::min<long>(n, tn - o); st.resize(n); for (long j = 0; j < n; ++j) st[j] = mel(t, int(o + j));
                                op = std::string("insert(p,") + fn[flavour] + " n=" + std::to_string(n) + ") at " + std::to_string(pos); if ((skipped = bound(n) || growthSite(n))) break; snap();
                                q = insRange(x, pos, a[t]->cbegin() + o, a[t]->cbegin() + o + n); done(); }
            else { std::vector<T>& src = mk(n); st = tags(src); op = std::string("insert(p,") + fn[flavour] + " n=" + std::to_string(n) + ") at " + std::to_string(pos); if ((skipped = bound(n) || (flavour != 3 && growthSite(n)))) break;
                   if (flavour == 0) { snap(); q = insRange(x, pos, src.data(), src.data() + n); done(); }
                   else if (flavour == 1) { snap(); q = insRange(x, pos, src.cbegin(), src.cend()); done(); }
                   else if (flavour == 2) { std::list<T>& l = lst(src); snap(); q = insRange(x, pos, l.cbegin(), l.cend()); done(); }
                   else { snap(); q = insRange(x, pos, InIt<T>(src.data()), InIt<T>(src.data() + n)); done(); } }
            if (q != x.data() + pos) return fail("returned pointer is not the first new element");
            mo.insert(mo.begin() + pos, st.begin(), st.end());
            if (flavour != 3) { e = insExp(n0, c0, pos, n); e.copy = n; } mark(n0, c0, pos, n); } break;
        case 11: { op = "erase(p) at " + std::to_string(epos); if (n0 == 0) { op += " (skipped: empty)"; skipped = true; break; } snap(); T* q = x.erase(x.begin() + epos); done(); mo.erase(mo.begin() + epos);
                   if (q != d0 + epos || x.data() != d0 || (long)x.capacity() != c0) return fail("erase must not reallocate and must return p"); e = Exp::zero(); e.dtor = 1 + (n0 - epos - 1); e.move = n0 - epos - 1; } break;
        case 12: { long f = pos, l = f + long(wb % uint32_t(n0 - f + 1)); op = "erase([" + std::to_string(f) + "," + std::to_string(l) + "))"; snap(); T* q = x.erase(x.begin() + f, x.cbegin() + l); done();
                   mo.erase(mo.begin() + f, mo.begin() + l); if (q != d0 + f || x.data() != d0 || (long)x.capacity() != c0) return fail("erase must not reallocate and must return first");
                   e = Exp::zero(); if (l > f) { e.dtor = (l - f) + (n0 - l); e.move = n0 - l; } } break;
        case 13: { op = "eraseFast(p) at " + std::to_string(epos); if (n0 == 0) { op += " (skipped: empty)"; skipped = true; break; } snap(); T* q = x.eraseFast(x.begin() + epos); done(); mo[epos] = mo.back(); mo.pop_back();
                   if (q != d0 + epos || x.data() != d0 || (long)x.capacity() != c0) return fail("eraseFast must not reallocate and must return p"); e = Exp::zero(); e.dtor = 1 + (epos != n0 - 1); e.move = (epos != n0 - 1); } break;
        case 14: case 15: { long n = long(wa % uint32_t(small ? 256 : 41)); bool withVal = kind == 15; op = std::string("resize(") + std::to_string(n) + (withVal ? ",value)" : ")"); int tg = withVal ? next++ : 0;
                   if (withVal) { T& v = val(tg); snap(); resizeVal(x, n, v); done(); } else { snap(); x.resize((S)n); done(); }
                   mo.resize((size_t)n, tg); e = Exp::zero(); if (n < n0) e.dtor = n0 - n; else if (n > n0) { (withVal ? e.copy : e.def) = n - n0; if (n > c0) e.move = e.dtor = n0; }
                   if (n <= c0 && (x.data() != d0 || (long)x.capacity() != c0)) return fail("resize within capacity must not reallocate"); } break;
        case 16: { long n = long(wa % uint32_t(small ? 256 : 80)); op = "reserve(" + std::to_string(n) + ")"; if (!ms.owner && n > c0) { op += " (skipped: non-owner)"; skipped = true; break; } snap(); x.reserve((S)n); done();
                   if ((long)x.capacity() < n || (long)x.capacity() < c0) return fail("capacity after reserve too small or reduced"); if (c0 >= n && (x.data() != d0 || (long)x.capacity() != c0)) return fail("reserve() without need changed the allocation");
                   e = Exp::zero(); if (c0 < n) e.move = e.dtor = n0; } break;
        case 17: { op = "shrink_to_fit"; snap(); x.shrink_to_fit(); done(); long c1 = (long)x.capacity(); if (c1 > c0 || c1 < n0) return fail("capacity after shrink_to_fit out of [size, old capacity]");
                   if (ms.owner && n0 == 0 && (c1 != 0 || x.data() != nullptr)) return fail("shrink_to_fit on an empty array must release all heap space"); e = Exp::zero(); if (c1 < c0) e.move = e.dtor = n0; else if (x.data() != d0) return fail("data moved although capacity was not reduced"); } break;
        case 18: { long n = bign; op = "assign(" + std::to_string(n) + ",value)"; T& v = val(next); snap(); assignN(x, n, v); done(); mo.assign((size_t)n, next++); e = Exp::zero(); e.dtor = n0; e.copy = n; } break;
        case 19: { int flavour = int(wc % 4); long n = bign; std::vector<T>& src = mk(n); static const char* fn[] = {"T* range", "vector iterators", "list iterators", "input iterators"};
                   op = std::string("assign(") + fn[flavour] + " n=" + std::to_string(n) + ")";
                   if (flavour == 0) { snap(); assignRange(x, src.data(), src.data() + n); done(); } else if (flavour == 1) { snap(); assignRange(x, src.cbegin(), src.cend()); done(); }
                   else if (flavour == 2) { std::list<T>& l = lst(src); snap(); assignRange(x, l.cbegin(), l.cend()); done(); } else { snap(); assignRange(x, InIt<T>(src.data()), InIt<T>(src.data() + n)); done(); }
                   mo = tags(src); if (flavour != 3) { e = Exp::zero(); e.dtor = n0; e.copy = n; } } break;
        case 20: { op = "operator=(slot " + std::to_string(t) + ")"; std::vector<int> src = mcopy(t); snap(); copyAssign(x, *a[t]); done(); e = Exp::zero(); if (t != s) { mo = src; e.dtor = n0; e.copy = (long)src.size(); } } break;
        case 21: { long n = bign; std::vector<T>& src = mk(n); op = "operator=(std::vector n=" + std::to_string(n) + ")"; snap(); assignVec(x, src); done(); mo = tags(src); e = Exp::zero(); e.dtor = n0; e.copy = n; } break;
        case 22: { if (t == s) t = (s + 1) % NS; op = "move-assign from slot " + std::to_string(t) + " (documented: swaps)"; snap(); x = std::move(*a[t]); done(); std::swap(m[s], m[t]); e = Exp::zero(); } break;
        case 23: { op = "swap with slot " + std::to_string(t); snap(); if (wc & 1) x.swap(*a[t]); else std::swap(x, *a[t]); done(); if (t != s) std::swap(m[s], m[t]); e = Exp::zero(); } break;
        case 24: { op = "copy-construct from slot " + std::to_string(t); std::vector<int> src = mcopy(t); snap(); A* y = copyCtor(*a[t]); done(); e = Exp::zero(); e.copy = (long)src.size();
                   if ((long)y->capacity() != (long)src.size() || (src.empty() && y->data() != nullptr)) { delete y; return fail("copy constructor must allocate exactly size() elements"); }
                   a[s].reset(y); m[s] = MS(); m[s].own = src; } break;
        case 25: { if (t == s) t = (s + 1) % NS; op = "move-construct from slot " + std::to_string(t); snap(); A* y = new A(std::move(*a[t])); done(); e = Exp::zero();
                   if (a[t]->size() != 0 || a[t]->data() != nullptr || a[t]->capacity() != 0 || !a[t]->isOwner()) { delete y; return fail("move constructor must leave the source default constructed"); }
                   a[s].reset(y); m[s] = m[t]; m[t] = MS(); } break;
        case 26: { int flavour = int(wc % 5); long n = bign; static const char* fn[] = {"A(n,value)", "A(T*,T*)", "A(std::vector)", "A(vector iterators)", "A(input iterators)"};
                   op = std::string("construct ") + fn[flavour] + " n=" + std::to_string(n); A* y = nullptr; std::vector<int> st;
                   if (flavour == 0) { T& v = val(next); snap(); y = ctorN(n, v); done(); st.assign((size_t)n, next++); }
                   else { std::vector<T>& src = mk(n); st = tags(src); snap(); y = ctorRange(flavour, src); done(); }
                   if (flavour != 4) { e = Exp::zero(); e.copy = n; }
                   if (flavour != 4 && ((long)y->capacity() != n || (n == 0 && y->data() != nullptr))) { delete y; return fail("constructor must allocate exactly n elements (none for n==0)"); }
                   a[s].reset(y); m[s] = MS(); m[s].own = st; } break;
        case 27: { long n = bign; op = "construct A(n) n=" + std::to_string(n); snap(); A* y = new A((S)n); done(); e = Exp::zero(); e.def = n; a[s].reset(y); m[s] = MS(); m[s].own.assign((size_t)n, 0); } break;
        case 28: { op = "clear"; snap(); x.clear(); done(); mo.clear(); e = Exp::zero(); e.dtor = n0; if (x.data() != d0 || (long)x.capacity() != c0) return fail("clear() must not change the allocation"); } break;
        case 29: { op = "element write (move assignment) at " + std::to_string(epos); if (n0 == 0) { op += " (skipped: empty)"; skipped = true; break; } T& v = val(next); int how = int(wc % 4); long at = epos;
                   if (how == 0) x[(X)epos] = std::move(v); else if (how == 1) x.at((X)epos) = std::move(v); else if (how == 2) x.updElt((X)epos) = std::move(v); else if (wb & 1) { x.front() = std::move(v); at = 0; } else { x.back() = std::move(v); at = n0 - 1; }
                   mel(s, (int)at) = next++; } break;
        case 30: { op = "fill(value)"; T& v = val(next); snap(); fillAll(x, v, wc & 1); done(); for (int j = 0; j < n0; ++j) mel(s, j) = next; next++; e = Exp::zero(); e.casg = n0; } break;
        case 31: { long i = pos, len = long(wb % uint32_t(n0 - i + 1)); int how = int(wc % 5); static const char* fn[] = {"fill", "assign(n,value)", "= view of another slot", "= std::vector", "assign(range)"};
                   op = std::string("view(") + std::to_string(i) + "," + std::to_string(len) + ") " + fn[how]; if (!viewWrite(s, t, i, len, how, wc / 5, before, after, e)) return false; haveAfter = true; } break;
        case 32: { long i = pos, len = long(wb % uint32_t(n0 - i + 1)); op = "const view(" + std::to_string(i) + "," + std::to_string(len) + ") reads"; const A& cx = x; snap();
                   { ArrayViewConst_<T, X> v = cx((X)i, (S)len); ArrayViewConst_<T, X> v2(v); ArrayViewConst_<T, X> v3 = cx.getSubArray((X)i, (S)len);
                   if ((long)v.size() != len || (long)v.capacity() != len || v.allocated() != 0) return fail("sub-array view size/capacity wrong");
                   if (len == 0 ? (v.data() != nullptr || !v.isOwner()) : (v.data() != cx.data() + i || v.isOwner() || v2.data() != v.data() || v3.data() != v.data())) return fail("sub-array view does not reference the original data (or empty view not null)");
                   for (long j = 0; j < len; ++j) if (TT::tag(v[(X)j]) != mel(s, int(i + j))) return fail("view element differs");
                   if (len >= 2) { ArrayViewConst_<T, X> w = v((X)1, (S)(len - 1)); if (w.data() != v.data() + 1 || (long)w.size() != len - 1) return fail("view of view wrong"); }
                   ArrayView_<T, X> wv = x.updSubArray((X)i, (S)len); if ((long)wv.size() != len || (len && wv.data() != x.data() + i)) return fail("updSubArray wrong"); }
                   done(); e = Exp::zero(); } break;
        case 33: case 34: { int k = int(wa % NB); if (backingInUse(k, -1)) { op = "shareData (skipped: backing store already shared)"; skipped = true; break; }
                   long bn = (long)back[k].size(), o = long(wb % uint32_t(bn + 1)), len = long(wc % uint32_t(bn - o + 1)); op = "shareData(backing " + std::to_string(k) + " [" + std::to_string(o) + "," + std::to_string(o + len) + "))"; snap();
                   T* base = len ? back[k].data() + o : nullptr;   // empty range: the documented form is the null pointer
                   if (kind == 33) x.shareData(base, (S)len); else x.shareData(base, base + len); done(); e = Exp::zero(); e.dtor = ms.owner ? n0 : 0;
                   m[s] = MS(); if (len > 0) { m[s].owner = false; m[s].bk = k; m[s].off = (int)o; m[s].len = (int)len; sawNonOwner = true; } } break;
        case 35: { op = "deallocate"; snap(); x.deallocate(); done(); e = Exp::zero(); e.dtor = ms.owner ? n0 : 0; m[s] = MS(); if (x.data() != nullptr || x.capacity() != 0) return fail("deallocate() must restore the default-constructed state"); } break;
        case 36: { op = "move round trip through a temporary (move ctor + move assign)"; snap(); { A y(std::move(x)); if (x.size() != 0 || x.data() != nullptr) return fail("move constructor must leave the source default constructed"); x = std::move(y); } done(); e = Exp::zero(); } break;
        case 37: { op = "copy to Array_<T,long long> and back"; roundTripCopy(x, ms.owner); } break;
        case 38: case 39: { op = "comparison operators with slot " + std::to_string(t); if (!compare(s, t)) return false; } break;
        case 40: { op = "ILLEGAL insert into non-owner"; if (ms.owner) { op += " (skipped: owner)"; skipped = true; break; } expectThrow = true; sawIllegal = true; illegalInsert(x, pos, int(wb % 3)); } break;
        case 41: { long i = n0 + long(wb % 3); if (small && i > 255) i = 255; if (i < n0) { op = "at (skipped)"; skipped = true; break; } op = "ILLEGAL at(" + std::to_string(i) + ")"; expectThrow = true; sawIllegal = true; const A& cx = x; if (wc & 1) (void)cx.at((X)i); else (void)x.at((X)i); } break;
        case 42: { op = "ILLEGAL view assignment (size mismatch / overlap)"; if (!illegalView(s, t, wa, wb, wc, expectThrow, skipped)) return false; } break;
        default: { op = "reads"; const A& cx = x; long sum = 0; for (auto it = cx.begin(); it != cx.end(); ++it) sum += TT::tag(*it); long sum2 = 0; for (auto it = cx.crbegin(); it != cx.crend(); ++it) sum2 += TT::tag(*it);
                   if (sum != sum2) return fail("forward and reverse iteration disagree"); if ((long)x.max_size() != (long)ArrayIndexTraits<X>::max_size()) return fail("max_size() wrong"); } break;
        }
        } catch (const std::exception& ex) { threw = true; what = ex.what(); }
        if (skipped) expectThrow = false;
        if (threw != expectThrow) return fail(threw ? "unexpected exception: " + what.substr(0, 300) : "expected an exception (documented always-on check) but the call succeeded");
        if (!skipped) kindsDone.insert(kind);
        if (!threw && haveAfter && !counts(before, after, e)) return false;
        // documented: no reallocation (iterators and element addresses stay valid) while the array is not grown beyond its capacity
        if (!threw && kind <= 10 && m[s].owner && msize(s) <= c0 && c0 > 0 && (a[s]->data() != d0 || (long)a[s]->capacity() != c0)) return fail("insertion within the current capacity reallocated the array");
        return verify();
    }
    void mark(long n0, long c0, long pos, long n) { if (n > 0 && c0 < n0 + n && pos > 0 && pos < n0) sawReallocInsert = true; }

    // ---- helpers that need a copyable T (never instantiated into calls for MoveOnly thanks to if constexpr)
    static void pushCopy(A& x, const T& v) { if constexpr (TT::copyable) x.push_back(v); }
    static T* insCopy(A& x, long pos, const T& v) { if constexpr (TT::copyable) return x.insert(x.begin() + pos, v); else return nullptr; }
    static T* insN(A& x, long pos, long n, const T& v) { if constexpr (TT::copyable) return x.insert(x.begin() + pos, (S)n, v); else return nullptr; }
    template <class It> static T* insRange(A& x, long pos, It f, It l) { if constexpr (TT::copyable) return x.insert(x.begin() + pos, f, l); else return nullptr; }
    static void resizeVal(A& x, long n, const T& v) { if constexpr (TT::copyable) x.resize((S)n, v); }
    static void assignN(A& x, long n, const T& v) { if constexpr (TT::copyable) x.assign((S)n, v); }
    template <class It> static void assignRange(A& x, It f, It l) { if constexpr (TT::copyable) x.assign(f, l); }
    static void copyAssign(A& x, const A& y) { if constexpr (TT::copyable) x = y; }
    static void assignVec(A& x, const std::vector<T>& v) { if constexpr (TT::copyable) x = v; }
    static A* copyCtor(const A& y) { if constexpr (TT::copyable) return new A(y); else return nullptr; }
    static A* ctorN(long n, const T& v) { if constexpr (TT::copyable) return new A((S)n, v); else return nullptr; }
    static A* ctorRange(int flavour, const std::vector<T>& src) {
        if constexpr (TT::copyable) { const T* p = src.data(); size_t n = src.size();
            if (flavour == 1) return new A(p, p + n); if (flavour == 2) return new A(src); if (flavour == 3) return new A(src.begin(), src.end()); return new A(InIt<T>(p), InIt<T>(p + n)); }
        else return nullptr; }
    static void fillAll(A& x, const T& v, bool viaView) { if constexpr (TT::copyable) { if (viaView) { ArrayView_<T, X>& vw = x; vw = v; } else x.fill(v); } }
    void illegalInsert(A& x, long pos, int how) {
        if constexpr (TT::copyable) { T& v = val(next); if (how == 0) x.insert(x.begin() + pos, v); else if (how == 1) x.insert(x.begin() + pos, (S)2, v); else { std::vector<T>& src = mk(2); x.insert(x.begin() + pos, src.data(), src.data() + 2); } }
        else x.emplace(x.begin() + pos, TT::make(next));
    }
    void roundTripCopy(A& x, bool owner) {
        if constexpr (TT::copyable) {
            Array_<T, long long> y(x); if ((long)y.size() != (long)x.size() || !(y == x)) R->bad("copy with a different index type differs from the original");
            if (owner) x = y; else { A z(x); if (!(z == x) || z.data() == x.data()) R->bad("copy of a non-owner must be an independent owner"); }
        }
    }
    bool compare(int s, int t) {
        const A& x = *a[s]; const A& y = *a[t]; std::vector<int> mx = mcopy(s), my = mcopy(t);
        bool eq = mx == my, lt; if constexpr (std::is_same<T, std::string>::value) { std::vector<std::string> sx, sy; for (int v : mx) sx.push_back(TT::make(v)); for (int v : my) sy.push_back(TT::make(v)); lt = sx < sy; } else lt = mx < my;
        if ((x == y) != eq || (x != y) == eq) return fail("operator==/!= disagree with the model");
        if ((x < y) != lt || (x >= y) == lt || (y > x) != lt || (y <= x) == lt) return fail("lexicographic comparison disagrees with the model");
        std::vector<T> vy; for (int v : my) vy.emplace_back(TT::make(v));
        if ((x == vy) != eq || (vy == x) != eq || (x != vy) == eq || (x < vy) != lt || (vy > x) != lt) return fail("comparison with std::vector disagrees with the model");
        ArrayViewConst_<T, X> vv(vy); if ((long)vv.size() != (long)vy.size() || (vy.size() && vv.data() != vy.data()) || (vv == y) != true) return fail("ArrayViewConst_ over std::vector wrong");
        return true;
    }
    bool viewWrite(int s, int t, long i, long len, int how, uint32_t extra, Cn& before, Cn& after, Exp& e) {
        if constexpr (!TT::copyable) { op += " (skipped: move-only)"; before = after = R->n; return true; } else {
        A& x = *a[s]; long o = 0;
        if (how == 2) { if (t == s) t = (s + 1) % NS; long tn = msize(t); if (tn < len) { len = tn; op += " ->len " + std::to_string(len); } o = long(extra % uint32_t(tn - len + 1)); }
        ArrayView_<T, X> v = x((X)i, (S)len);
        if (how == 0) { T& vl = val(next); before = R->n; if (extra & 1) v.fill(vl); else v = vl; after = R->n; for (long j = 0; j < len; ++j) mel(s, int(i + j)) = next; next++; }
        else if (how == 1) { T& vl = val(next); before = R->n; v.assign((S)len, vl); after = R->n; for (long j = 0; j < len; ++j) mel(s, int(i + j)) = next; next++; }
        else if (how == 2) { before = R->n; if (extra & 1) v = (*a[t])((X)o, (S)len); else { const A& cy = *a[t]; v = cy((X)o, (S)len); } after = R->n; for (long j = 0; j < len; ++j) mel(s, int(i + j)) = mel(t, int(o + j)); }
        else { std::vector<T>& src = mk(len);
               if (how == 3) { before = R->n; v = src; after = R->n; } else if (extra & 1) { before = R->n; v.assign(src.data(), src.data() + len); after = R->n; } else { std::list<T>& l = lst(src); before = R->n; v.assign(l.begin(), l.end()); after = R->n; }
               for (long j = 0; j < len; ++j) mel(s, int(i + j)) = TT::tag(src[j]); }
        e = Exp::zero(); e.casg = len; return true; }
    }
    bool illegalView(int s, int t, uint32_t wa, uint32_t wb, uint32_t wc, bool& expectThrow, bool& skipped) {
        if constexpr (!TT::copyable) { op += " (skipped: move-only)"; skipped = true; return true; } else {
        A& x = *a[s]; long n0 = msize(s);
        if (wc & 1) {   // size mismatch
            if (t == s) t = (s + 1) % NS; long tn = msize(t); long len = n0 ? long(wa % uint32_t(n0 + 1)) : 0; long len2 = tn ? long(wb % uint32_t(tn + 1)) : 0; if (len == len2) { op += " (skipped: equal sizes)"; skipped = true; return true; }
            expectThrow = true; sawIllegal = true; ArrayView_<T, X> v = x((X)0, (S)len); if (wc & 2) v = (*a[t])((X)0, (S)len2); else { std::vector<T>& src = mk(len2); v = src; }
        } else {        // overlapping source inside the same array
            if (n0 < 2) { op += " (skipped: too small)"; skipped = true; return true; } long len = 1 + long(wa % uint32_t(n0 - 1)); long maxShift = std::min(len - 1, n0 - len); if (maxShift < 1) { op += " (skipped: no overlapping pair)"; skipped = true; return true; }
            long sh = 1 + long(wb % uint32_t(maxShift)); expectThrow = true; sawIllegal = true; ArrayView_<T, X> v = x((X)0, (S)len); if (wc & 2) v = x((X)sh, (S)len); else v.assign(x.cbegin() + sh, x.cbegin() + sh + len);
        }
        return true; }
    }

    void run(const pbt::Tape& tp) {
        pbt::Reader g(tp[0]); g.skip(1);
        int bsz[NB] = {g.range(0, 6), g.range(1, 12)};
        for (int k = 0; k < NB; ++k) { back[k] = std::vector<T>(); back[k].reserve(bsz[k]); for (int j = 0; j < bsz[k]; ++j) { back[k].emplace_back(TT::make(next)); mback[k].push_back(next++); } }
        for (int s = 0; s < NS; ++s) a[s].reset(new A());
        op = "default construction";
        for (int s = 0; s < NS; ++s) if (a[s]->data() != nullptr || a[s]->begin() != nullptr || a[s]->end() != nullptr) { fail("default-constructed array must have null begin()/end()"); return; }
        if (small) {   // start near max_size so that the boundary is actually exercised
            int pre = g.pick(4); long n = pre == 0 ? 0 : pre == 1 ? 200 : pre == 2 ? 250 : 120; long cap = std::min<long>(255, n + g.pick(12));
            a[0]->reserve((S)cap); for (long j = 0; j < n; ++j) { a[0]->push_back(TT::make(next)); m[0].own.push_back(next++); } op = "pre-fill";
        }
        if (!verify()) return;
        size_t nops = tp.size() - 1;
        for (size_t u = 0; u < nops; ++u) {
            if (!step(pbt::Reader(tp[u + 1]))) { if (ctx.wantDesc) ctx.desc << "  #" << u << " slot" << lastSlot << ": " << op << "   <-- FAILED\n"; return; }
            if (ctx.wantDesc) { ctx.desc << "  #" << u << " slot" << lastSlot << ": " << op << "  sizes"; for (int s = 0; s < NS; ++s) ctx.desc << " " << msize(s) << (m[s].owner ? "" : "(shared)") << "/" << (long)a[s]->capacity(); ctx.desc << "\n"; }
        }
        // end of history: destroy everything, every constructed element must have been destroyed exactly once
        op = "final destruction"; hv.clear(); hvv.clear(); hl.clear(); for (int s = 0; s < NS; ++s) a[s].reset(); for (int k = 0; k < NB; ++k) { back[k].clear(); back[k].shrink_to_fit(); }
        if (!R->err.empty()) { fail(R->err); return; }
        if (TT::counted && !R->live.empty()) { fail(std::to_string(R->live.size()) + " element objects leaked (never destroyed)"); return; }
        if (TT::counted) { const Cn& n = R->n; if (n.def + n.val + n.copy + n.move != n.dtor) { fail("constructions " + std::to_string(n.def + n.val + n.copy + n.move) + " != destructions " + std::to_string(n.dtor)); return; } }
        static const char* kn[44] = {"push_back(copy)", "push_back(move)", "emplace_back", "push_back()/raw", "pop_back", "insert(p,v)", "emplace", "insert(p,n,v)", "insert(range)", "insert(range)", "insert(slot range)", "erase(p)", "erase(range)", "eraseFast", "resize(n)", "resize(n,v)", "reserve", "shrink_to_fit", "assign(n,v)", "assign(range)",
            "operator=(Array_)", "operator=(vector)", "move-assign", "swap", "copy-ctor", "move-ctor", "ctor(variants)", "ctor(n)", "clear", "element-write", "fill", "view-write", "view-read", "shareData", "shareData", "deallocate", "move-round-trip", "index-type-conversion", "compare", "compare", "illegal-insert-nonowner", "illegal-at", "illegal-view-assign", "reads"};
        for (int k : kindsDone) ctx.label(std::string("op:") + kn[k]);
        if (sawReallocInsert) ctx.label("realloc-insert-in-middle"); if (sawNonOwner) ctx.label("non-owner(shareData)"); if (sawIllegal) ctx.label("illegal-op-throws"); if (sawMaxSize) ctx.label("max_size-boundary-throw"); if (excludedKnown) ctx.label("excluded:array-growth-check-uses-capacity");
        ctx.nontrivial(sawReallocInsert);
    }
};

// =================================================================== pointer wrapper scenario
struct PtrRun {
    pbt::Ctx& ctx; std::string op;
    static const int NC = 3, NW = 4, NRF = 3, NV = 2;
    std::unique_ptr<ClonePtr<Obj>> cp[NC]; struct MC { bool has = false; int v = 0; } mc[NC];
    std::unique_ptr<CloneOnWritePtr<Obj>> cw[NW]; int mw[NW]; struct MO { int v; int uses; int maxUses; }; std::map<int, MO> objs; int nextObj = 0;
    std::unique_ptr<Obj> target[3]; std::unique_ptr<ReferencePtr<Obj>> rp[NRF]; int mr[NRF];
    std::unique_ptr<ResetOnCopy<int>> ri[NV]; int mri[NV];
    std::unique_ptr<ResetOnCopy<std::string>> rs[NV]; std::string mrs[NV];
    std::unique_ptr<ResetOnCopy<std::unique_ptr<Obj>>> ru[NV]; MC mru[NV];
    std::unique_ptr<ReinitOnCopy<int>> ni[NV]; struct MI { int v, init; } mni[NV];
    std::unique_ptr<ReinitOnCopy<std::string>> ns[NV]; struct MSs { std::string v, init; } mns[NV];
    int next = 1; bool cowInteresting = false, divergent = false;
    explicit PtrRun(pbt::Ctx& c) : ctx(c) {}
    bool fail(const std::string& msg) { ctx.fail("[pointers] after " + op + ": " + msg); return false; }
    static std::string S(int t) { return Tr<std::string>::make(t); }

    int newObj(int v) { objs[nextObj] = MO{v, 1, 1}; return nextObj++; }
    void dropUse(int id) { if (id < 0) return; if (--objs[id].uses == 0) objs.erase(id); }
    void addUse(int id) { if (id < 0) return; MO& o = objs[id]; o.uses++; o.maxUses = std::max(o.maxUses, o.uses); }

    bool verify() {
        if (!R->err.empty()) return fail(R->err);
        long expectLive = 3;
        for (int i = 0; i < NC; ++i) { const ClonePtr<Obj>& p = *cp[i]; if (p.empty() == mc[i].has || bool(p) != mc[i].has || (p.get() != nullptr) != mc[i].has) return fail("ClonePtr " + std::to_string(i) + " empty() disagrees with the model");
            if (mc[i].has) { expectLive++; if (p->v != mc[i].v || (*p).v != mc[i].v || p.getRef().v != mc[i].v) return fail("ClonePtr " + std::to_string(i) + " value " + std::to_string(p->v) + ", model " + std::to_string(mc[i].v)); for (int j = 0; j < i; ++j) if (cp[j]->get() == p.get()) return fail("two ClonePtr objects own the same object"); } }
        expectLive += (long)objs.size();
        for (int i = 0; i < NW; ++i) { const CloneOnWritePtr<Obj>& p = *cw[i]; int id = mw[i];
            if (p.empty() != (id < 0) || bool(p) != (id >= 0)) return fail("CloneOnWritePtr " + std::to_string(i) + " empty() disagrees with the model");
            long uc = id < 0 ? 0 : objs[id].uses; if (p.use_count() != uc) return fail("CloneOnWritePtr " + std::to_string(i) + " use_count()=" + std::to_string(p.use_count()) + ", model " + std::to_string(uc)); if (p.unique() != (uc == 1)) return fail("unique() wrong");
            if (id >= 0 && (p.get()->v != objs[id].v || p.getRef().v != objs[id].v || (*p).v != objs[id].v)) return fail("CloneOnWritePtr " + std::to_string(i) + " value " + std::to_string(p.get()->v) + ", model " + std::to_string(objs[id].v));
            for (int j = 0; j < i; ++j) { bool same = id >= 0 && mw[j] == id; if (id >= 0 && mw[j] >= 0 && (cw[j]->get() == p.get()) != same) return fail(same ? "copies that were never written do not share the object" : "independent CloneOnWritePtr objects share one object");
                                          if ((*cw[j] == p) != (cw[j]->get() == p.get())) return fail("operator== wrong"); } }
        for (int i = 0; i < NRF; ++i) { const ReferencePtr<Obj>& p = *rp[i]; Obj* want = mr[i] < 0 ? nullptr : target[mr[i]].get(); if (p.get() != want || p.empty() != (want == nullptr)) return fail("ReferencePtr " + std::to_string(i) + " does not hold the pointer the model predicts"); }
        for (int i = 0; i < NV; ++i) {
            if (ri[i]->getT() != mri[i] || int(*ri[i]) != mri[i]) return fail("ResetOnCopy<int> " + std::to_string(i) + " = " + std::to_string(ri[i]->getT()) + ", model " + std::to_string(mri[i]));
            if (rs[i]->getT() != mrs[i]) return fail("ResetOnCopy<string> " + std::to_string(i) + " = '" + rs[i]->getT() + "', model '" + mrs[i] + "'");
            if ((ru[i]->getT() != nullptr) != mru[i].has || (mru[i].has && (*ru[i])->v != mru[i].v)) return fail("ResetOnCopy<unique_ptr> " + std::to_string(i) + " disagrees with the model"); if (mru[i].has) expectLive++;
            if (ni[i]->getT() != mni[i].v || ni[i]->getReinitT() != mni[i].init) return fail("ReinitOnCopy<int> " + std::to_string(i) + " = " + std::to_string(ni[i]->getT()) + "/" + std::to_string(ni[i]->getReinitT()) + ", model " + std::to_string(mni[i].v) + "/" + std::to_string(mni[i].init));
            if (ns[i]->getT() != mns[i].v || ns[i]->getReinitT() != mns[i].init) return fail("ReinitOnCopy<string> " + std::to_string(i) + " = '" + ns[i]->getT() + "'/'" + ns[i]->getReinitT() + "', model '" + mns[i].v + "'/'" + mns[i].init + "'");
        }
        if ((long)R->live.size() != expectLive) return fail("live payload objects = " + std::to_string(R->live.size()) + ", model expects " + std::to_string(expectLive) + " (leak, lost copy, or premature delete)");
        return true;
    }
    bool clonesWere(long before, long want) { long got = R->n.clones - before; if (got != want) return fail("clone() was called " + std::to_string(got) + " times, documented " + std::to_string(want)); return true; }

    bool step(pbt::Reader r) {
        int fam = r.pick(10), act = int(r.w() % 5040u); int i = int(r.w() % 5040u), j = int(r.w() % 5040u); uint32_t wa = r.w(); long c0 = R->n.clones;
        if (fam <= 3) { // ---------------- CloneOnWritePtr (weight 4)
            i %= NW; j %= NW; act %= 16; if (act >= 2 && act <= 6 && mw[j] < 0) for (int k = 0; k < NW; ++k) if (mw[(j + k) % NW] >= 0) { j = (j + k) % NW; break; }   // copy from a non-empty pointer when there is one
            CloneOnWritePtr<Obj>& p = *cw[i]; CloneOnWritePtr<Obj>& q = *cw[j]; int& mi = mw[i]; int& mj = mw[j]; long want = 0;
            switch (act) {
            case 0: op = "cow[" + std::to_string(i) + "].reset(new Obj)"; if (wa & 1) p.reset(new Obj(next)); else p = new Obj(next); dropUse(mi); mi = newObj(next++); break;
            case 1: { op = "cow[" + std::to_string(i) + "] = const Obj& (clone)"; Obj o(next); long live0 = (long)R->live.size(); (void)live0; p = o; dropUse(mi); mi = newObj(next++); want = 1; } break;
            case 2: case 3: case 4: op = "cow[" + std::to_string(i) + "] = cow[" + std::to_string(j) + "] (copy assign)"; p = q; if (i != j && mi != mj) { dropUse(mi); mi = mj; addUse(mi); } break;
            case 5: case 6: { op = "cow[" + std::to_string(i) + "] copy-constructed from cow[" + std::to_string(j) + "]"; auto* y = new CloneOnWritePtr<Obj>(q); int id = mj; addUse(id); cw[i].reset(y); dropUse(mw[i]); mw[i] = id; } break;
            case 7: op = "cow[" + std::to_string(i) + "] = std::move(cow[" + std::to_string(j) + "])"; p = std::move(q); if (i != j) { dropUse(mi); mi = mj; mj = -1; } break;
            case 8: { op = "cow[" + std::to_string(i) + "] move-constructed from cow[" + std::to_string(j) + "]"; if (i == j) j = (i + 1) % NW; auto* y = new CloneOnWritePtr<Obj>(std::move(*cw[j])); int id = mw[j]; mw[j] = -1; cw[i].reset(y); dropUse(mw[i]); mw[i] = id; } break;
            case 9: case 10: case 11: { op = "cow[" + std::to_string(i) + "] write through upd()"; if (mi < 0) { if (p.upd() != nullptr) return fail("upd() of an empty pointer must be null"); break; }
                      bool shared = objs[mi].uses > 1; if (shared) { if (objs[mi].maxUses >= 3) cowInteresting = true; int v = objs[mi].v; dropUse(mi); mi = newObj(v); want = 1; divergent = true; }
                      if (wa % 3 == 0) p.upd()->v = next; else if (wa % 3 == 1) p->v = next; else (*p).v = next; objs[mi].v = next++; } break;
            case 12: { op = "cow[" + std::to_string(i) + "].detach()"; if (mi >= 0 && objs[mi].uses > 1) { int v = objs[mi].v; dropUse(mi); mi = newObj(v); want = 1; } p.detach(); } break;
            case 13: { op = "cow[" + std::to_string(i) + "].release()"; if (mi >= 0 && objs[mi].uses > 1) want = 1; Obj* o = p.release(); if ((o != nullptr) != (mi >= 0)) return fail("release() returned the wrong pointer"); if (o) { if (o->v != objs[mi].v) return fail("released object has the wrong value"); delete o; } dropUse(mi); mi = -1;
                       // the released object is ours now: the model object count must not include it any more (dropUse did that only if we were the last user)
                     } break;
            case 14: op = "cow swap " + std::to_string(i) + "," + std::to_string(j); if (wa & 1) p.swap(q); else swap(p, q); std::swap(mi, mj); break;
            default: op = "cow[" + std::to_string(i) + "].reset()"; p.reset(); dropUse(mi); mi = -1; break;
            }
            if (!clonesWere(c0, want)) return false;
        } else if (fam <= 5) { // ---------------- ClonePtr
            i %= NC; j %= NC; act %= 12; ClonePtr<Obj>& p = *cp[i]; ClonePtr<Obj>& q = *cp[j]; long want = 0;
            switch (act) {
            case 0: op = "clone[" + std::to_string(i) + "].reset(new Obj)"; if (wa & 1) p.reset(new Obj(next)); else p = new Obj(next); mc[i] = MC{true, next++}; break;
            case 1: { op = "clone[" + std::to_string(i) + "] = const Obj&"; Obj o(next); p = o; mc[i] = MC{true, next++}; want = 1; } break;
            case 2: case 3: { op = "clone[" + std::to_string(i) + "] = clone[" + std::to_string(j) + "] (deep copy)"; const Obj* before = q.get(); p = q; if (i != j) { mc[i] = mc[j]; want = mc[j].has ? 1 : 0; if (before && p.get() == before) return fail("copy shares the object"); } } break;
            case 4: { op = "clone[" + std::to_string(i) + "] copy-constructed from clone[" + std::to_string(j) + "]"; auto* y = new ClonePtr<Obj>(q); MC mm = mc[j]; want = mm.has ? 1 : 0; cp[i].reset(y); mc[i] = mm; } break;
            case 5: { op = "clone[" + std::to_string(i) + "] = std::move(clone[" + std::to_string(j) + "])"; const Obj* before = q.get(); p = std::move(q); if (i != j) { mc[i] = mc[j]; mc[j] = MC(); if (p.get() != before) return fail("move assignment did not transfer the object itself"); } } break;
            case 6: { op = "clone[" + std::to_string(i) + "] move-constructed from clone[" + std::to_string(j) + "]"; if (i == j) j = (i + 1) % NC; const Obj* before = cp[j]->get(); auto* y = new ClonePtr<Obj>(std::move(*cp[j])); if (y->get() != before) { delete y; return fail("move construction did not transfer the object itself"); } MC mm = mc[j]; mc[j] = MC(); cp[i].reset(y); mc[i] = mm; } break;
            case 7: case 8: op = "clone[" + std::to_string(i) + "] write through upd()"; if (!mc[i].has) { if (p.upd() != nullptr) return fail("upd() of an empty pointer must be null"); break; } if (wa & 1) p.upd()->v = next; else p->v = next; mc[i].v = next++; divergent = true; break;
            case 9: { op = "clone[" + std::to_string(i) + "].release()"; Obj* o = p.release(); if ((o != nullptr) != mc[i].has) return fail("release() returned the wrong pointer"); delete o; mc[i] = MC(); } break;
            case 10: op = "clone swap " + std::to_string(i) + "," + std::to_string(j); if (wa & 1) p.swap(q); else swap(p, q); std::swap(mc[i], mc[j]); break;
            default: op = "clone[" + std::to_string(i) + "].reset()"; p.reset(); mc[i] = MC(); break;
            }
            if (!clonesWere(c0, want)) return false;
        } else if (fam == 6) { // ---------------- ReferencePtr
            i %= NRF; j %= NRF; act %= 9; ReferencePtr<Obj>& p = *rp[i]; ReferencePtr<Obj>& q = *rp[j]; int tg = int(wa % 3);
            switch (act) {
            case 0: op = "ref[" + std::to_string(i) + "] = target"; if (wa & 4) p = target[tg].get(); else if (wa & 8) p = *target[tg]; else p.reset(target[tg].get()); mr[i] = tg; break;
            case 1: case 2: op = "ref[" + std::to_string(i) + "] = ref[" + std::to_string(j) + "] (copy assign nulls, self assign keeps)"; p = q; if (i != j) mr[i] = -1; break;
            case 3: { op = "ref[" + std::to_string(i) + "] copy-constructed from ref[" + std::to_string(j) + "]"; auto* y = new ReferencePtr<Obj>(q); rp[i].reset(y); mr[i] = -1; } break;
            case 4: op = "ref[" + std::to_string(i) + "] = std::move(ref[" + std::to_string(j) + "])"; p = std::move(q); if (i != j) { mr[i] = mr[j]; mr[j] = -1; } break;
            case 5: { op = "ref[" + std::to_string(i) + "] move-constructed from ref[" + std::to_string(j) + "]"; if (i == j) j = (i + 1) % NRF; auto* y = new ReferencePtr<Obj>(std::move(*rp[j])); int mm = mr[j]; mr[j] = -1; rp[i].reset(y); mr[i] = mm; } break;
            case 6: op = "ref swap"; p.swap(q); std::swap(mr[i], mr[j]); break;
            case 7: { op = "ref[" + std::to_string(i) + "].release()"; Obj* o = p.release(); if (o != (mr[i] < 0 ? nullptr : target[mr[i]].get())) return fail("release() returned the wrong pointer"); mr[i] = -1; } break;
            default: op = "ref[" + std::to_string(i) + "].reset()"; p.reset(); mr[i] = -1; break;
            }
        } else if (fam == 7) { // ---------------- ResetOnCopy<int>, <string>, <unique_ptr>
            i %= NV; j %= NV; act %= 7; int which = int(wa % 3);
            auto name = [&](const char* a) { return std::string("ResetOnCopy<") + (which == 0 ? "int" : which == 1 ? "string" : "unique_ptr") + ">[" + std::to_string(i) + "] " + a; };
            switch (act) {
            case 0: op = name("= value"); if (which == 0) { *ri[i] = next; mri[i] = next++; } else if (which == 1) { *rs[i] = S(next); mrs[i] = S(next++); } else { *ru[i] = std::unique_ptr<Obj>(new Obj(next)); mru[i] = MC{true, next++}; } break;
            case 1: case 2: op = name("copy-assigned from the other (resets)"); if (i == j) j = (i + 1) % NV; if (which == 0) { *ri[i] = *ri[j]; mri[i] = 0; } else if (which == 1) { *rs[i] = *rs[j]; mrs[i].clear(); } else { *ru[i] = *ru[j]; mru[i] = MC(); } break;
            case 3: op = name("copy-constructed from [j] (default state)"); if (which == 0) { ri[i].reset(new ResetOnCopy<int>(*ri[j])); mri[i] = 0; } else if (which == 1) { rs[i].reset(new ResetOnCopy<std::string>(*rs[j])); mrs[i].clear(); }
                    else { auto* y = new ResetOnCopy<std::unique_ptr<Obj>>(*ru[j]); ru[i].reset(y); mru[i] = MC(); } break;
            case 4: op = name("move-assigned from the other"); if (i == j) j = (i + 1) % NV; if (which == 0) { *ri[i] = std::move(*ri[j]); mri[i] = mri[j]; } else if (which == 1) { *rs[i] = std::move(*rs[j]); mrs[i] = mrs[j]; *rs[j] = std::string(); mrs[j].clear(); } else { *ru[i] = std::move(*ru[j]); mru[i] = mru[j]; mru[j] = MC(); } break;
            case 5: op = name("move-constructed from the other"); if (i == j) j = (i + 1) % NV; if (which == 0) { ri[i].reset(new ResetOnCopy<int>(std::move(*ri[j]))); mri[i] = mri[j]; } else if (which == 1) { rs[i].reset(new ResetOnCopy<std::string>(std::move(*rs[j]))); mrs[i] = mrs[j]; *rs[j] = std::string(); mrs[j].clear(); }
                    else { auto* y = new ResetOnCopy<std::unique_ptr<Obj>>(std::move(*ru[j])); MC mm = mru[j]; mru[j] = MC(); ru[i].reset(y); mru[i] = mm; } break;
            default: op = name("constructed from a value"); if (which == 0) { ri[i].reset(new ResetOnCopy<int>(next)); mri[i] = next++; } else if (which == 1) { rs[i].reset(new ResetOnCopy<std::string>(S(next))); mrs[i] = S(next++); } else { ru[i].reset(new ResetOnCopy<std::unique_ptr<Obj>>(new Obj(next))); mru[i] = MC{true, next++}; } break;
            }
        } else { // ---------------- ReinitOnCopy<int>, <string>
            i %= NV; j %= NV; act %= 7; bool str = (wa & 1) != 0;
            auto name = [&](const char* a) { return std::string("ReinitOnCopy<") + (str ? "string" : "int") + ">[" + std::to_string(i) + "] " + a; };
            switch (act) {
            case 0: op = name("= value (initial value kept)"); if (!str) { *ni[i] = next; mni[i].v = next++; } else { *ns[i] = S(next); mns[i].v = S(next++); } break;
            case 1: case 2: op = name("copy-assigned from the other (back to OWN initial value)"); if (i == j) j = (i + 1) % NV; if (!str) { *ni[i] = *ni[j]; mni[i].v = mni[i].init; } else { *ns[i] = *ns[j]; mns[i].v = mns[i].init; } break;
            case 3: op = name("copy-constructed from [j] (value and initial value = source's initial value)"); if (!str) { auto* y = new ReinitOnCopy<int>(*ni[j]); int in = mni[j].init; ni[i].reset(y); mni[i] = MI{in, in}; } else { auto* y = new ReinitOnCopy<std::string>(*ns[j]); std::string in = mns[j].init; ns[i].reset(y); mns[i] = MSs{in, in}; } break;
            case 4: op = name("move-assigned from the other (value only)"); if (i == j) j = (i + 1) % NV; if (!str) { *ni[i] = std::move(*ni[j]); mni[i].v = mni[j].v; } else { *ns[i] = std::move(*ns[j]); mns[i].v = mns[j].v; *ns[j] = std::string(); mns[j].v.clear(); } break;
            case 5: op = name("move-constructed from the other (value and initial value)"); if (i == j) j = (i + 1) % NV; if (!str) { auto* y = new ReinitOnCopy<int>(std::move(*ni[j])); MI mm = mni[j]; ni[i].reset(y); mni[i] = mm; } else { auto* y = new ReinitOnCopy<std::string>(std::move(*ns[j])); MSs mm = mns[j]; *ns[j] = std::string(); mns[j].v.clear(); ns[i].reset(y); mns[i] = mm; } break;
            default: op = name("constructed from a value (sets the initial value)"); if (!str) { ni[i].reset(new ReinitOnCopy<int>(next)); mni[i] = MI{next, next}; next++; } else { ns[i].reset(new ReinitOnCopy<std::string>(S(next))); mns[i] = MSs{S(next), S(next)}; next++; } break;
            }
        }
        return verify();
    }

    void run(const pbt::Tape& tp) {
        for (int i = 0; i < NC; ++i) cp[i].reset(new ClonePtr<Obj>());
        for (int i = 0; i < NW; ++i) { cw[i].reset(new CloneOnWritePtr<Obj>()); mw[i] = -1; }
        for (int i = 0; i < 3; ++i) target[i].reset(new Obj(1000 + i));
        for (int i = 0; i < NRF; ++i) { rp[i].reset(new ReferencePtr<Obj>()); mr[i] = -1; }
        for (int i = 0; i < NV; ++i) { ri[i].reset(new ResetOnCopy<int>()); mri[i] = 0; rs[i].reset(new ResetOnCopy<std::string>()); ru[i].reset(new ResetOnCopy<std::unique_ptr<Obj>>());
            ni[i].reset(new ReinitOnCopy<int>(-1 - i)); mni[i] = MI{-1 - i, -1 - i}; ns[i].reset(new ReinitOnCopy<std::string>(std::string("unknown") + char('0' + i))); mns[i] = MSs{std::string("unknown") + char('0' + i), std::string("unknown") + char('0' + i)}; }
        op = "default construction"; if (!verify()) return;
        std::set<std::string> fams;
        for (size_t u = 0; u + 1 < tp.size(); ++u) {
            bool ok = step(pbt::Reader(tp[u + 1]));
            if (ctx.wantDesc) ctx.desc << "  #" << u << " " << op << (ok ? "" : "   <-- FAILED") << "\n";
            if (!ok) return; fams.insert(op.substr(0, op.find_first_of("[< ")));
        }
        op = "final destruction";
        for (int i = 0; i < NC; ++i) cp[i].reset(); for (int i = 0; i < NW; ++i) cw[i].reset(); for (int i = 0; i < NRF; ++i) rp[i].reset(); for (int i = 0; i < 3; ++i) target[i].reset();
        for (int i = 0; i < NV; ++i) { ri[i].reset(); rs[i].reset(); ru[i].reset(); ni[i].reset(); ns[i].reset(); }
        if (!R->err.empty()) { fail(R->err); return; }
        if (!R->live.empty()) { fail(std::to_string(R->live.size()) + " payload objects leaked"); return; }
        for (auto& f : fams) ctx.label("ptr:" + f);
        if (cowInteresting) ctx.label("cow:>=3-sharers-then-write"); if (divergent) ctx.label("copy-then-divergent-write");
        ctx.nontrivial(cowInteresting);
    }
};

void property(const pbt::Tape& t, pbt::Ctx& ctx) {
    Reg reg; R = &reg;
    struct Guard { ~Guard() { R = nullptr; } } guard;
    pbt::Reader g(t[0]); int sc = g.pick(12);
    static const char* scn[] = {"Array_<Counted>", "Array_<Counted>", "Array_<Counted>", "Array_<Counted>", "Array_<int>", "Array_<string>", "Array_<MoveOnly>", "Array_<Counted,uchar>", "Array_<int,uchar>", "pointers", "pointers", "pointers"};
    ctx.label(std::string("scenario:") + scn[sc]);
    if (ctx.wantDesc) ctx.desc << "scenario " << scn[sc] << ", " << t.size() - 1 << " operations\n";
    // the harness objects must be destroyed while the registry is still installed
    if (sc <= 3) { ArrayRun<Counted, unsigned> r(ctx, 300, false); r.run(t); }
    else if (sc == 4) { ArrayRun<int, unsigned> r(ctx, 300, false); r.run(t); }
    else if (sc == 5) { ArrayRun<std::string, unsigned> r(ctx, 300, false); r.run(t); }
    else if (sc == 6) { ArrayRun<MoveOnly, unsigned> r(ctx, 300, false); r.run(t); }
    else if (sc == 7) { ArrayRun<Counted, unsigned char> r(ctx, 255, true); r.run(t); }
    else if (sc == 8) { ArrayRun<int, unsigned char> r(ctx, 255, true); r.run(t); }
    else { PtrRun r(ctx); r.run(t); }
    if (!reg.err.empty()) ctx.fail("registry: " + reg.err);
}

pbt::Config config() {
    pbt::Config c; c.prop = "C26"; c.K = 6; c.minUnits = 1; c.fuzzMaxUnits = 300;
    c.quick = {20000, 200000, 100, 25}; c.thorough = {100000, 1500000, 300, 150};
    c.rule = "rapidcheck tape -> scenario {Array_<Counted|int|string|MoveOnly,unsigned>, Array_<Counted|int,unsigned char> (max_size 255, pre-filled near the bound), pointer wrappers}; one unit = one operation (44 array operation kinds on a pool of 3 arrays + 2 shared backing stores; 5 wrapper families), history length = number of units (<= 100 quick, <= 300 thorough); every object compared with the model after every operation. Non-trivial: history contains a reallocating insertion strictly inside a non-empty array, or a CloneOnWritePtr object that had >= 3 sharers and was then written through one of them; distinct by tape hash.";
    c.assumptions = {"std::vector<int> is a correct sequence model", "operations whose precondition is only debug-checked (SimTK_ERRCHK without _ALWAYS: overlapping insert/assign source, resizing a non-owner, pop_back on empty, out-of-range operator[]) are outside the contract and are never generated", "adoptData() is not exercised (the required allocation function is undocumented)"};
    c.directed.push_back({"insert-within-max_size-refused", "array-growth-check-uses-capacity", [](pbt::Ctx& ctx) {
        Array_<int, unsigned char> a; a.resize(189); a.pop_back();   // size 188, capacity 189
        ctx.desc << "Array_<int,unsigned char> (max_size 255): size " << (int)a.size() << ", capacity " << (int)a.capacity() << ", insert(begin(), 67, 7) -> size 255 <= max_size\n";
        try { a.insert(a.begin(), 67, 7); ctx.check(a.size() == 255 && a[(unsigned char)0] == 7 && a[(unsigned char)67] == 0, "wrong contents after insert"); }
        catch (const std::exception& e) { ctx.fail(std::string("insertion that fits in max_size() was refused: ") + std::string(e.what()).substr(0, 300)); }
    }});
    c.requiredLabels = {"scenario:Array_<Counted>", "scenario:Array_<int>", "scenario:Array_<string>", "scenario:Array_<MoveOnly>", "scenario:Array_<Counted,uchar>", "scenario:pointers", "realloc-insert-in-middle", "non-owner(shareData)", "illegal-op-throws", "max_size-boundary-throw", "cow:>=3-sharers-then-write", "copy-then-divergent-write"};
    return c;
}
} // namespace

PBT_MAIN(config(), property)
