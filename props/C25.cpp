// VERIF-TREES: asan
// C25 -- Matrix and vector objects and views behave like real matrices (DESIGN.md section 5, C25).
// Part A (histories): a pool of owner objects (3 Matrix_, 2 Vector_, 1 RowVector_) per element type
// (Real, float, Complex, Vec3, SpatialVec) and a sequence of operations; every operation takes a view chain of
// depth 0..3 (block, transpose, negate, col, row, diag, sub-range, index) onto one owner and writes through it
// (scalar/element/matrix assignment, +=, -=, *=, /=, element write, elementwise ops, negateInPlace) or queries it
// (norms, sums, copies, products, binary operators); owners are resized/resizeKeep'd/cleared/copy-assigned.
// A shadow dense model (std::vector + explicit index maps for views, gen/dense.h scalars in long double) is
// evaluated with plain loops; after EVERY operation every element of every owner is compared with the model, so
// a write through a view must change exactly the viewed elements.
// Part B (fixed size): Vec/Row/Mat/SymMat of sizes 1..6 (double, complex): arithmetic, products, transposes,
// dot/outer/cross, crossMat, det, inverse, negated/strided operands -- against triple loops / Gauss-Jordan.
// Only documented semantics are encoded (MatrixBase.h: matrix op scalar acts on the diagonal, vector op scalar on
// every element; TestBigMatrix.cpp: Mat22(1,2,3,4)+=3 is (4,2,3,7), 1-m is (0,-2,-3,-3)).
// Simbody's small-matrix headers reinterpret_cast between element types (complex <-> conjugate, E <-> negator<E>, SymMat
// lower <-> upper). Under g++ -O2 -fstrict-aliasing that undefined behaviour is visibly miscompiled in client code (see
// notes/C25.md, "strict aliasing"): this translation unit is therefore compiled like the library's other clients have to
// be, without type-based alias analysis. (clang ignores the pragma; the asan tree is -O1.)
#if defined(__GNUC__) && !defined(__clang__)
#pragma GCC optimize ("no-strict-aliasing")
#endif
#include "pbt.h"
#include "dense.h"
#include "SimTKcommon.h"
#include <complex>
#include <memory>
#include <type_traits>
#include <sys/wait.h>
using namespace SimTK;
using dense::LD; using dense::CL;

namespace {

// ------------------------------------------------------------------ shadow elements
struct El { CL c[6]; };
// flatten any library element (incl. negator/conjugate/Vec/Row nests) into its VALUE
inline void flat(const double& x, CL* o, int& k) { o[k++] = CL(x, 0); }
inline void flat(const float& x, CL* o, int& k) { o[k++] = CL(x, 0); }
template <class P> inline void flat(const std::complex<P>& x, CL* o, int& k) { o[k++] = CL(x.real(), x.imag()); }
template <class P> inline void flat(const conjugate<P>& x, CL* o, int& k) { std::complex<P> z = x; flat(z, o, k); }
template <class N> inline void flat(const negator<N>& x, CL* o, int& k) { int k0 = k; const N& inner = -x; flat(inner, o, k); for (int i = k0; i < k; ++i) o[i] = -o[i]; }
template <int M, class EE, int S> inline void flat(const Vec<M, EE, S>& v, CL* o, int& k) { for (int i = 0; i < M; ++i) flat(v[i], o, k); }
template <int M, class EE, int S> inline void flat(const Row<M, EE, S>& v, CL* o, int& k) { for (int i = 0; i < M; ++i) flat(v[i], o, k); }
template <class X> El toEl(const X& x) { El e; int k = 0; flat(x, e.c, k); return e; }

template <class X> struct Make;
template <> struct Make<double> { static double go(const CL* in, int& k) { return (double)in[k++].real(); } };
template <> struct Make<float> { static float go(const CL* in, int& k) { return (float)in[k++].real(); } };
template <class P> struct Make<std::complex<P> > { static std::complex<P> go(const CL* in, int& k) { CL z = in[k++]; return std::complex<P>((P)z.real(), (P)z.imag()); } };
template <class P> struct Make<conjugate<P> > { static conjugate<P> go(const CL* in, int& k) { return conjugate<P>(Make<std::complex<P> >::go(in, k)); } };
template <class N> struct Make<negator<N> > { static negator<N> go(const CL* in, int& k) { return negator<N>(Make<N>::go(in, k)); } };
template <int M, class EE, int S> struct Make<Vec<M, EE, S> > { static Vec<M, EE, S> go(const CL* in, int& k) { Vec<M, EE, S> v; for (int i = 0; i < M; ++i) v[i] = Make<EE>::go(in, k); return v; } };
template <int M, class EE, int S> struct Make<Row<M, EE, S> > { static Row<M, EE, S> go(const CL* in, int& k) { Row<M, EE, S> v; for (int i = 0; i < M; ++i) v[i] = Make<EE>::go(in, k); return v; } };
template <class X> X make(const El& e) { int k = 0; return Make<X>::go(e.c, k); }

// calibration aid: C25_TOLSCALE=<f> multiplies the comparison tolerances (notes/C25.md)
static const double tolScale = getenv("C25_TOLSCALE") ? atof(getenv("C25_TOLSCALE")) : 1.0;
template <class E> struct ET;   // root element types
template <> struct ET<double> { enum { K = 1, cplx = 0, scalar = 1 }; static double tol() { return 1e-12; } static const char* name() { return "Real"; } };
template <> struct ET<float> { enum { K = 1, cplx = 0, scalar = 1 }; static double tol() { return 3e-5; } static const char* name() { return "float"; } };
template <> struct ET<std::complex<double> > { enum { K = 1, cplx = 1, scalar = 1 }; static double tol() { return 1e-12; } static const char* name() { return "Complex"; } };
template <> struct ET<Vec3> { enum { K = 3, cplx = 0, scalar = 0 }; static double tol() { return 1e-12; } static const char* name() { return "Vec3"; } };
template <> struct ET<SpatialVec> { enum { K = 6, cplx = 0, scalar = 0 }; static double tol() { return 1e-12; } static const char* name() { return "SpatialVec"; } };

struct Sh { int m = 0, n = 0; std::vector<El> a; El& at(int i, int j) { return a[(size_t)i * n + j]; } const El& at(int i, int j) const { return a[(size_t)i * n + j]; } };
Sh shMake(int m, int n) { Sh s; s.m = m; s.n = n; s.a.assign((size_t)m * n, El()); return s; }

// view model: index map into the owner's storage + value transform
struct VM { int kind = 0; int m = 0, n = 0; std::vector<int> idx; bool neg = false, herm = false; int depth = 0; };

struct Ctxt { int K; bool cplx; };
inline El xform(const El& e, const VM& v, const Ctxt& c) { El r; for (int k = 0; k < c.K; ++k) { CL z = e.c[k]; if (v.herm) z = std::conj(z); if (v.neg) z = -z; r.c[k] = z; } return r; }

// ------------------------------------------------------------------ type-erased library views
struct IView {
    virtual ~IView() {}
    int kind = 0;   // 0 matrix, 1 vector, 2 row
    virtual int nrow() const = 0; virtual int ncol() const = 0;
    virtual El get(int i, int j) const = 0;
    virtual El getAny(int i, int j) const = 0;
    // view makers (nullptr when not applicable)
    virtual IView* block(int i, int j, int m, int n) = 0;
    virtual IView* transpose() = 0;
    virtual IView* negate() = 0;
    virtual IView* col(int j) = 0; virtual IView* row(int i) = 0; virtual IView* diag() = 0;
    virtual IView* index(const std::vector<int>& ix) = 0;
    // writers
    virtual void assignScalar(const El& e) = 0; virtual void setTo(const El& e) = 0; virtual void setToZero() = 0;
    virtual void scale(CL s) = 0; virtual void divide(CL s) = 0;
    virtual void addScalar(const El& e) = 0; virtual void subScalar(const El& e) = 0;
    virtual void setElt(int i, int j, const El& e) = 0;
    virtual void opMat(int op, const Sh& B, bool viaNegated) = 0;       // 0 '=', 1 '+=', 2 '-='
    virtual void negateInPlace() = 0;
    virtual bool elementwise(int op, const Sh& B, const El& e) = 0;     // 0 mulInPlace(B) 1 divInPlace(B) 2 addScalarInPlace(e) 3 subScalarInPlace(e) 4 elementwiseAssign(e); false if n/a
    virtual bool scaleRowsCols(int which, const Sh& r) = 0;             // rowScaleInPlace / colScaleInPlace (scalar elements)
    // queries
    virtual LD norm() const = 0; virtual LD normSqr() const = 0; virtual bool normRMS(LD& out) const = 0; virtual bool normInf(LD& out) const = 0;
    virtual bool colSum(std::vector<El>& out) const = 0; virtual bool rowSum(std::vector<El>& out) const = 0; virtual bool sum(El& out) const = 0;
    virtual Sh copyOut() const = 0;
    virtual bool times(const Sh& B, Sh& out) const = 0;                 // view * B (B: matrix for kind 0, vector for kind 0/2)
    virtual bool binary(int op, const Sh& B, const El& e, CL s, Sh& out) const = 0;   // 0 v+B 1 v-B 2 v*s 3 s*v 4 v/s 5 v+e 6 e+v 7 v-e 8 e-v
    virtual bool assignToOwnerMatrix(void* ownerMatrix) const = 0;      // owner = view (deep copy with reallocation)
};

template <int KIND, class X> struct Sel;
template <class X> struct Sel<0, X> { typedef MatrixView_<X> V; typedef Matrix_<X> O; };
template <class X> struct Sel<1, X> { typedef VectorView_<X> V; typedef Vector_<X> O; };
template <class X> struct Sel<2, X> { typedef RowVectorView_<X> V; typedef RowVector_<X> O; };

template <class E, int KIND, class X> struct ViewT : IView {
    typedef typename Sel<KIND, X>::V V;
    typedef typename CNT<X>::TWithoutNegator W;
    typedef typename CNT<X>::TNeg XNeg;
    typedef typename CNT<X>::THerm XHerm;
    typedef typename CNT<X>::StdNumber StdNum;
    V v;
    explicit ViewT(const V& src) : v(src) { kind = KIND; }
    int nrow() const override { return v.nrow(); } int ncol() const override { return v.ncol(); }
    const X& ref(int i, int j) const { if constexpr (KIND == 0) return v(i, j); else if constexpr (KIND == 1) return v[i]; else return v[j]; }
    X& upd(int i, int j) { if constexpr (KIND == 0) return v(i, j); else if constexpr (KIND == 1) return v[i]; else return v[j]; }
    El get(int i, int j) const override { return toEl(ref(i, j)); }
    El getAny(int i, int j) const override { X x; v.getAnyElt(i, j, x); return toEl(x); }
    static StdNum num(CL s) { El e; e.c[0] = s; int k = 0; return Make<StdNum>::go(e.c, k); }

    IView* block(int i, int j, int m, int n) override {
        if constexpr (KIND == 0) return new ViewT<E, 0, X>(v.updBlock(i, j, m, n));
        else if constexpr (KIND == 1) return new ViewT<E, 1, X>(v(i, m));
        else return new ViewT<E, 2, X>(v(j, n));
    }
    IView* transpose() override {
        if constexpr (KIND == 0) return new ViewT<E, 0, XHerm>(v.updTranspose());
        else if constexpr (KIND == 1) return new ViewT<E, 2, XHerm>(v.updTranspose());
        else return new ViewT<E, 1, XHerm>(v.updTranspose());
    }
    IView* negate() override {
        if constexpr (KIND == 0) return new ViewT<E, 0, XNeg>(v.updNegate().updAsMatrixView());
        else if constexpr (KIND == 1) { VectorView_<XNeg>& nv = v.updNegate(); return new ViewT<E, 1, XNeg>(nv); }
        else { RowVectorView_<XNeg>& nv = v.updNegate(); return new ViewT<E, 2, XNeg>(nv); }
    }
    IView* col(int j) override { if constexpr (KIND == 0) return new ViewT<E, 1, X>(v.updCol(j)); else return nullptr; }
    IView* row(int i) override { if constexpr (KIND == 0) return new ViewT<E, 2, X>(v.updRow(i)); else return nullptr; }
    IView* diag() override { if constexpr (KIND == 0) return new ViewT<E, 1, X>(v.updDiag()); else return nullptr; }
    IView* index(const std::vector<int>& ix) override {
        Array_<int> a; for (int i : ix) a.push_back(i);
        if constexpr (KIND == 1) return new ViewT<E, 1, X>(v.updIndex(a)); else if constexpr (KIND == 2) return new ViewT<E, 2, X>(v.updIndex(a)); else return nullptr;
    }
    void assignScalar(const El& e) override { v = make<X>(e); }
    void setTo(const El& e) override { v.setTo(make<X>(e)); }
    void setToZero() override { v.setToZero(); }
    void scale(CL s) override { v *= num(s); }
    void divide(CL s) override { v /= num(s); }
    void addScalar(const El& e) override { v += make<X>(e); }
    void subScalar(const El& e) override { v -= make<X>(e); }
    void setElt(int i, int j, const El& e) override { upd(i, j) = make<X>(e); }
    template <class Y> static typename Sel<KIND, Y>::O buildOwner(const Sh& B, bool negateValues) {
        typedef typename Sel<KIND, Y>::O O;
        if constexpr (KIND == 0) { O o(B.m, B.n); for (int i = 0; i < B.m; ++i) for (int j = 0; j < B.n; ++j) { El e = B.at(i, j); if (negateValues) for (auto& z : e.c) z = -z; o(i, j) = make<Y>(e); } return o; }
        else { int len = KIND == 1 ? B.m : B.n; O o(len); for (int i = 0; i < len; ++i) { El e = B.a[i]; if (negateValues) for (auto& z : e.c) z = -z; o[i] = make<Y>(e); } return o; }
    }
    void opMat(int op, const Sh& B, bool viaNegated) override {
        // '=' between different scalar classes (negator<S> vs S) does not compile in the library, so the right-hand side of
        // an assignment has the view's own scalar class; += and -= accept both
        const bool plain = std::is_same<X, W>::value;
        if (op == 0) viaNegated = !plain;
        if (!viaNegated) { auto o = buildOwner<W>(B, false); if (op == 0) { if constexpr (std::is_same<X, W>::value) v = o; } else if (op == 1) v += o; else v -= o; }
        else { auto o = buildOwner<W>(B, true); const auto& on = o.negate();   // on has value B, element type negator<W>
               if (op == 0) { if constexpr (!std::is_same<X, W>::value) v = on; } else if (op == 1) v += on; else v -= on; }
    }
    void negateInPlace() override { v.negateInPlace(); }
    bool elementwise(int op, const Sh& B, const El& e) override {
        if (op == 2) { v.elementwiseAddScalarInPlace(make<X>(e)); return true; }
        if (op == 3) { v.elementwiseSubtractScalarInPlace(make<X>(e)); return true; }
        if (op == 4) { v.elementwiseAssign(make<X>(e)); return true; }
        if constexpr (ET<E>::scalar && !ET<E>::cplx) {
            auto o = buildOwner<W>(B, false);
            if (op == 0) { v.elementwiseMultiplyInPlace(o); return true; }
            if (op == 1) { v.elementwiseDivideInPlace(o); return true; }
        }
        return false;
    }
    bool scaleRowsCols(int which, const Sh& r) override {
        if constexpr (ET<E>::scalar && !ET<E>::cplx && KIND == 0) {
            Vector_<W> s(which == 0 ? v.nrow() : v.ncol()); for (int i = 0; i < s.size(); ++i) s[i] = make<W>(r.a[i]);
            if (which == 0) v.rowScaleInPlace(s); else v.colScaleInPlace(s); return true;
        }
        return false;
    }
    LD norm() const override { return (LD)v.norm(); }
    LD normSqr() const override { return (LD)v.normSqr(); }
    bool normRMS(LD& out) const override { if constexpr (ET<E>::scalar && (KIND == 0 || !ET<E>::cplx)) { out = (LD)v.normRMS(); return true; } return false; }   // Vector::normRMS does not compile for complex
    bool normInf(LD& out) const override { if constexpr (ET<E>::scalar && !ET<E>::cplx && KIND == 1) { out = (LD)v.normInf(); return true; } return false; }
    bool colSum(std::vector<El>& out) const override { if constexpr (KIND == 0) { auto r = v.colSum(); out.clear(); for (int j = 0; j < r.size(); ++j) out.push_back(toEl(r[j])); return true; } return false; }
    bool rowSum(std::vector<El>& out) const override { if constexpr (KIND == 0) { auto r = v.rowSum(); out.clear(); for (int j = 0; j < r.size(); ++j) out.push_back(toEl(r[j])); return true; } return false; }
    bool sum(El& out) const override { if constexpr (KIND != 0) { out = toEl(v.sum()); return true; } return false; }
    template <class M> static Sh readAll(const M& mtx) {
        Sh s = shMake(mtx.nrow(), mtx.ncol());
        for (int i = 0; i < s.m; ++i) for (int j = 0; j < s.n; ++j) { typename M::E x; mtx.getAnyElt(i, j, x); s.at(i, j) = toEl(x); }
        return s;
    }
    Sh copyOut() const override { typename Sel<KIND, X>::O c(v); return readAll(c); }
    bool times(const Sh& B, Sh& out) const override {
        if constexpr (ET<E>::scalar) {
            if constexpr (KIND == 0) {
                if (B.n == 1 && B.m == v.ncol()) { Vector_<W> x(B.m); for (int i = 0; i < B.m; ++i) x[i] = make<W>(B.a[i]); auto r = v * x; out = readAll(r); return true; }
                Matrix_<W> b(B.m, B.n); for (int i = 0; i < B.m; ++i) for (int j = 0; j < B.n; ++j) b(i, j) = make<W>(B.at(i, j));
                auto r = v * b; out = readAll(r); return true;
            } else if constexpr (KIND == 2) {
                Vector_<W> x(B.m); for (int i = 0; i < B.m; ++i) x[i] = make<W>(B.a[i]);
                auto d = v * x; out = shMake(1, 1); out.a[0] = toEl(d); return true;
            }
        }
        return false;
    }
    bool binary(int op, const Sh& B, const El& e, CL s, Sh& out) const override {
        switch (op) {
            // view +- matrix: for conjugate<> element types the result type is complex<> and the library has no
            // constructor from the conjugate operand (does not compile), so only non-conjugate element types
            case 0: if constexpr (!ET<E>::cplx || std::is_same<W, StdNum>::value) { auto o = buildOwner<W>(B, false); auto r = v + o; out = readAll(r); return true; } return false;
            case 1: if constexpr (!ET<E>::cplx || std::is_same<W, StdNum>::value) { auto o = buildOwner<W>(B, false); auto r = v - o; out = readAll(r); return true; } return false;
            case 2: { auto r = v * num(s); out = readAll(r); return true; }
            case 3: { auto r = num(s) * v; out = readAll(r); return true; }
            case 4: { auto r = v / num(s); out = readAll(r); return true; }
            default:
                // element (op) view: with a negator<> element type the library's operator templates do not compile
                // (negator's own operator+ is selected and has no Result<> for a view), so only plain element types
                if constexpr (std::is_same<X, W>::value) {
                    if (op == 5) { auto r = v + make<X>(e); out = readAll(r); return true; }
                    if (op == 6) { auto r = make<X>(e) + v; out = readAll(r); return true; }
                    if (op == 7) { auto r = v - make<X>(e); out = readAll(r); return true; }
                    { auto r = make<X>(e) - v; out = readAll(r); return true; }
                }
                return false;
        }
    }
    bool assignToOwnerMatrix(void* ownerMatrix) const override {
        if constexpr (KIND == 0 && std::is_same<X, E>::value) { *static_cast<Matrix_<E>*>(ownerMatrix) = v; return true; }
        else if constexpr (KIND == 0 && std::is_same<X, typename CNT<E>::TNeg>::value) { Matrix_<E> tmp(v); *static_cast<Matrix_<E>*>(ownerMatrix) = tmp; return true; }   // implicit conversion from the negated type
        return false;
    }
};

// ------------------------------------------------------------------ the history runner
std::string elStr(const El& e, int K) { std::ostringstream o; o << "("; for (int k = 0; k < K; ++k) { if (k) o << ","; o << (double)e.c[k].real(); if (e.c[k].imag() != 0) o << "+" << (double)e.c[k].imag() << "i"; } o << ")"; return o.str(); }

template <class E> struct History {
    enum { K = ET<E>::K };
    Ctxt cx{K, (bool)ET<E>::cplx};
    Matrix_<E> M[3]; Vector_<E> V[2]; RowVector_<E> R[1];
    Sh sm[3], sv[2], sr[1];
    pbt::Ctx& ctx; dense::Rng rng; const double tol = ET<E>::tol() * tolScale;
    std::string trace;
    History(pbt::Ctx& c, uint64_t seed) : ctx(c), rng(seed) {}

    El rndEl(int range = 3) { El e; for (int k = 0; k < K; ++k) e.c[k] = cx.cplx ? CL(rng.below(2 * range + 1) - range, rng.below(2 * range + 1) - range) : CL(rng.below(2 * range + 1) - range, 0); return e; }
    El rndNonZero() { El e = rndEl(); for (int k = 0; k < K; ++k) if (std::abs(e.c[k]) == 0) e.c[k] = CL(1 + rng.below(3), 0); return e; }
    Sh rndSh(int m, int n, bool nz = false) { Sh s = shMake(m, n); for (auto& e : s.a) e = nz ? rndNonZero() : rndEl(); return s; }
    LD maxMag() const { LD mx = 0; auto scan = [&](const Sh& s) { for (auto& e : s.a) for (int k = 0; k < K; ++k) mx = std::max(mx, std::abs(e.c[k])); }; for (auto& s : sm) scan(s); for (auto& s : sv) scan(s); for (auto& s : sr) scan(s); return mx; }

    int nOwners() const { return 6; }
    Sh& shadowOf(int o) { return o < 3 ? sm[o] : o < 5 ? sv[o - 3] : sr[0]; }
    IView* baseView(int o) {
        if (o < 3) return new ViewT<E, 0, E>(M[o].updBlock(0, 0, M[o].nrow(), M[o].ncol()));
        if (o < 5) return new ViewT<E, 1, E>(V[o - 3](0, V[o - 3].size()));
        return new ViewT<E, 2, E>(R[0](0, R[0].size()));
    }
    VM baseModel(int o) { Sh& s = shadowOf(o); VM v; v.kind = o < 3 ? 0 : o < 5 ? 1 : 2; v.m = s.m; v.n = s.n; v.idx.resize((size_t)s.m * s.n); for (size_t i = 0; i < v.idx.size(); ++i) v.idx[i] = (int)i; return v; }

    bool close(const CL& a, const CL& b, LD scale) const { LD d = std::abs(a - b); return d <= tol * (scale + std::abs(a) + std::abs(b)) || (std::isnan((double)a.real()) && false); }
    bool sameEl(const El& a, const El& b, LD scale) const { for (int k = 0; k < K; ++k) { if (!std::isfinite((double)std::abs(a.c[k]))) return false; if (!close(a.c[k], b.c[k], scale)) return false; } return true; }

    // compare every owner with its shadow (shape + every element)
    bool compareAll(const std::string& after) {
        LD sc = maxMag();
        for (int o = 0; o < 6; ++o) {
            Sh& s = shadowOf(o);
            int m = o < 3 ? M[o].nrow() : o < 5 ? V[o - 3].nrow() : R[0].nrow(), n = o < 3 ? M[o].ncol() : o < 5 ? V[o - 3].ncol() : R[0].ncol();
            if (m != s.m || n != s.n) { ctx.fail("after " + after + ": owner " + std::to_string(o) + " has shape " + std::to_string(m) + "x" + std::to_string(n) + ", model " + std::to_string(s.m) + "x" + std::to_string(s.n)); return false; }
            for (int i = 0; i < m; ++i) for (int j = 0; j < n; ++j) {
                El got = o < 3 ? toEl(M[o](i, j)) : o < 5 ? toEl(V[o - 3][i]) : toEl(R[0][j]);
                if (!sameEl(got, s.at(i, j), sc)) { ctx.fail("after " + after + ": owner " + std::to_string(o) + " element (" + std::to_string(i) + "," + std::to_string(j) + ") = " + elStr(got, K) + ", model " + elStr(s.at(i, j), K)); return false; }
            }
        }
        return true;
    }
    // known finding (UBSan only, benign): a block/row/column view at a non-zero offset into an owner or view that has no elements (null data pointer)
    // computes nullptr + offset (MatrixHelperRep_Full.h getElt_/updElt_); -fno-sanitize-recover makes that fatal in the asan tree
    bool nullOffset(bool srcEmpty, int offset) { if (offset > 0 && srcEmpty && ctx.known("empty-matrix-view-null-offset")) { ctx.label("excluded:empty-matrix-view-null-offset"); return true; } return false; }
    El modelGet(const VM& v, int o, int i, int j) { return xform(shadowOf(o).a[v.idx[(size_t)i * v.n + j]], v, cx); }
    void modelSet(const VM& v, int o, int i, int j, const El& e) { shadowOf(o).a[v.idx[(size_t)i * v.n + j]] = xform(e, v, cx); }
    Sh modelValues(const VM& v, int o) { Sh s = shMake(v.m, v.n); for (int i = 0; i < v.m; ++i) for (int j = 0; j < v.n; ++j) s.at(i, j) = modelGet(v, o, i, j); return s; }
    void modelStore(const VM& v, int o, const Sh& s) { for (int i = 0; i < v.m; ++i) for (int j = 0; j < v.n; ++j) modelSet(v, o, i, j, s.at(i, j)); }
    El mulS(const El& e, CL s) const { El r; for (int k = 0; k < K; ++k) r.c[k] = e.c[k] * s; return r; }
    El addE(const El& a, const El& b, LD sign = 1) const { El r; for (int k = 0; k < K; ++k) r.c[k] = a.c[k] + CL(sign) * b.c[k]; return r; }

    bool compareSh(const Sh& got, const Sh& want, const std::string& what, LD extraScale = 0) {
        if (got.m != want.m || got.n != want.n) { ctx.fail(what + ": result shape " + std::to_string(got.m) + "x" + std::to_string(got.n) + ", model " + std::to_string(want.m) + "x" + std::to_string(want.n)); return false; }
        LD sc = extraScale; for (auto& e : want.a) for (int k = 0; k < K; ++k) sc = std::max(sc, std::abs(e.c[k]));
        for (int i = 0; i < got.m; ++i) for (int j = 0; j < got.n; ++j) if (!sameEl(got.at(i, j), want.at(i, j), sc)) { ctx.fail(what + ": element (" + std::to_string(i) + "," + std::to_string(j) + ") = " + elStr(got.at(i, j), K) + ", model " + elStr(want.at(i, j), K)); return false; }
        return true;
    }

    // ---- one operation unit
    bool step(const pbt::Seg& seg, int opIndex) {
        pbt::Reader r(seg);
        int o = r.pick(6);
        // "transposed block" mode (1/4 of the view operations): the chain starts with block(i,j,m,n).transpose() or the
        // equivalent transpose().block(j,i,n,m) of an owner MATRIX with freely generated (i,j,m,n), biased towards the
        // coincidences that decide whether the transposed (row-ordered) view counts as contiguous -- block width == parent
        // row count, block height == parent column count, proper >= 2x2 blocks -- and is followed by one of: deep copy,
        // arithmetic producing a new matrix, setTo / setToZero / = scalar / elementwiseAssign, element write, in-place updates.
        auto word = [&](size_t k) { return k < seg.size() ? seg[k] : 0u; };
        const bool special = (word(14) % 4) == 1;
        int tbBias = 0, tbOrder = 0, f_i0 = 0, f_j0 = 0, f_mm = 0, f_nn = 0; bool tbBlock = false, tbTrans = false;
        if (special) o = o % 3;
        std::unique_ptr<IView> view(baseView(o)); VM vm = baseModel(o);
        std::ostringstream d; d << "op" << opIndex << ": owner" << o << "[" << vm.m << "x" << vm.n << "]";
        int depth = r.pick(4);
        if (special) {
            depth = std::max(depth, 2); tbBias = word(15) % 4; tbOrder = word(16) % 3;   /* 0 transpose of block, 1 block of transpose, 2 the (equally biased) block alone */ const uint32_t wA = word(17), wB = word(18); const int M = vm.m, N = vm.n;
            f_i0 = wA % (M + 1); f_mm = (wA / 16) % (M - f_i0 + 1); f_j0 = (wA / 256) % (N + 1); f_nn = (wA / 4096) % (N - f_j0 + 1);       // free
            if (tbBias == 1 && M >= 2 && N >= M) { f_nn = M; f_j0 = wB % (N - M + 1); if (M >= 3) f_mm = 2 + (wB / 16) % (M - 2); f_mm = std::min(f_mm, M); f_i0 = (wB / 256) % (M - f_mm + 1); }   // width == parent rows, height < parent rows
            if (tbBias == 2 && N >= 2 && M >= N) { f_mm = N; f_i0 = wB % (M - N + 1); if (N >= 3) f_nn = 2 + (wB / 16) % (N - 2); f_nn = std::min(f_nn, N); f_j0 = (wB / 256) % (N - f_nn + 1); }   // height == parent columns, width < parent columns
            if (tbBias == 3 && M >= 2 && N >= 2) { f_mm = 2 + wB % (M - 1); f_nn = 2 + (wB / 16) % (N - 1); f_i0 = (wB / 256) % (M - f_mm + 1); f_j0 = (wB / 4096) % (N - f_nn + 1); }               // any block >= 2x2
        }
        for (int s = 0; s < 3; ++s) {
            int kindSel = r.pick(8); uint32_t p1 = r.w(), p2 = r.w();
            if (s >= depth) continue;
            bool forcedBlock = false;
            if (special && tbOrder == 2) { if (s == 0) { kindSel = 0; forcedBlock = true; } }
            else if (special && s < 2) { const bool blockNow = (s == 0) == (tbOrder == 0); kindSel = blockNow ? 0 : 2; forcedBlock = blockNow; }
            IView* nv = nullptr; VM nm;
            nm.neg = vm.neg; nm.herm = vm.herm; nm.depth = vm.depth + 1;
            if (kindSel <= 1) {   // block / sub-range (may be empty)
                int i0 = vm.m ? p1 % (vm.m + 1) : 0, j0 = vm.n ? (p1 / 64) % (vm.n + 1) : 0; int mm = (p2 % 16) % (vm.m - i0 + 1), nn = ((p2 / 16) % 16) % (vm.n - j0 + 1);
                if (vm.kind == 1) { j0 = 0; nn = 1; } if (vm.kind == 2) { i0 = 0; mm = 1; }
                if ((p2 >> 12) & 1) { if (vm.kind != 2) mm = vm.m - i0; if (vm.kind != 1) nn = vm.n - j0; }
                if (forcedBlock) { if (tbOrder != 1) { i0 = f_i0; j0 = f_j0; mm = f_mm; nn = f_nn; } else { i0 = f_j0; j0 = f_i0; mm = f_nn; nn = f_mm; } }   // block of the transpose: (j,i,n,m)
                if (nullOffset(vm.idx.empty(), i0 + j0)) continue;
                nv = view->block(i0, j0, mm, nn); nm.kind = vm.kind; nm.m = mm; nm.n = nn;
                for (int i = 0; i < mm; ++i) for (int j = 0; j < nn; ++j) nm.idx.push_back(vm.idx[(size_t)(i0 + i) * vm.n + j0 + j]);
                d << ".block(" << i0 << "," << j0 << "," << mm << "," << nn << ")"; if (forcedBlock) tbBlock = true;
            } else if (kindSel == 2) {
                if (special && s < 2 && tbOrder != 2) tbTrans = true;
                nv = view->transpose(); nm.kind = vm.kind == 0 ? 0 : vm.kind == 1 ? 2 : 1; nm.m = vm.n; nm.n = vm.m; nm.herm = !vm.herm;
                for (int i = 0; i < nm.m; ++i) for (int j = 0; j < nm.n; ++j) nm.idx.push_back(vm.idx[(size_t)j * vm.n + i]);
                d << ".transpose()";
            } else if (kindSel == 3) {
                nv = view->negate(); nm = vm; nm.neg = !vm.neg; nm.depth = vm.depth + 1; d << ".negate()";
            } else if (kindSel == 4 && vm.kind == 0 && vm.n > 0) {
                int j = p1 % vm.n; if (nullOffset(vm.idx.empty(), j)) continue; nv = view->col(j); nm.kind = 1; nm.m = vm.m; nm.n = 1; for (int i = 0; i < vm.m; ++i) nm.idx.push_back(vm.idx[(size_t)i * vm.n + j]); d << ".col(" << j << ")";
            } else if (kindSel == 5 && vm.kind == 0 && vm.m > 0) {
                int i = p1 % vm.m; if (nullOffset(vm.idx.empty(), i)) continue; nv = view->row(i); nm.kind = 2; nm.m = 1; nm.n = vm.n; for (int j = 0; j < vm.n; ++j) nm.idx.push_back(vm.idx[(size_t)i * vm.n + j]); d << ".row(" << i << ")";
            } else if (kindSel == 6 && vm.kind == 0) {
                int dd = std::min(vm.m, vm.n); nv = view->diag(); nm.kind = 1; nm.m = dd; nm.n = 1; for (int i = 0; i < dd; ++i) nm.idx.push_back(vm.idx[(size_t)i * vm.n + i]); d << ".diag()";
            } else if (kindSel == 7 && vm.kind != 0) {
                int len = vm.kind == 1 ? vm.m : vm.n; std::vector<int> ix; dense::Rng pr(p1 * 2654435761u + p2);
                for (int i = 0; i < len; ++i) if (pr.below(2)) ix.push_back(i);
                // (indices stay ascending: IndexedVectorHelper insists on monotonically increasing indices)
                {   // known finding: the indexed view ignores the stride of its source (elements are taken at consecutive memory
                    // positions after element 0). Site: source view of length >= 2 that is not contiguous in the owner's memory.
                    const Sh& os = shadowOf(o); bool contiguous = true;
                    auto mem = [&](int id) { return o < 3 ? (id % os.n) * os.m + id / os.n : id; };   // Matrix_ owners are column major
                    for (int i = 0; i + 1 < len; ++i) if (mem(vm.idx[i + 1]) - mem(vm.idx[i]) != 1) contiguous = false;
                    bool touches = false; for (int i : ix) if (i > 0) touches = true;
                    if (!contiguous && touches && ctx.known("index-view-ignores-stride")) { ctx.label("excluded:index-view-ignores-stride"); continue; }
                }
                // known finding: an EMPTY index list applied to a one-element row (or to a one-element vector that was obtained by
                // transposing a row) yields a view of the wrong orientation (0x1 instead of 1x0, or 1x0 instead of 0x1)
                if (len == 1 && ix.empty() && ctx.known("row-1elt-empty-index-shape")) { ctx.label("excluded:row-1elt-empty-index-shape"); continue; }
                nv = view->index(ix); nm.kind = vm.kind; nm.m = vm.kind == 1 ? (int)ix.size() : 1; nm.n = vm.kind == 1 ? 1 : (int)ix.size(); for (int i : ix) nm.idx.push_back(vm.idx[i]);
                d << ".index{"; for (int i : ix) d << i << " "; d << "}";
            } else continue;
            if (!nv) continue;
            view.reset(nv); vm = nm;
            if (view->nrow() != vm.m || view->ncol() != vm.n) { ctx.fail(d.str() + ": view shape " + std::to_string(view->nrow()) + "x" + std::to_string(view->ncol()) + ", model " + std::to_string(vm.m) + "x" + std::to_string(vm.n)); return false; }
        }
        ctx.label(std::string("depth:") + std::to_string(vm.depth));
        ctx.label(vm.kind == 0 ? "view:matrix" : vm.kind == 1 ? "view:vector" : "view:row");
        if (vm.neg) ctx.label("view:negated"); if (vm.herm) ctx.label("view:transposed");
        const bool tb = special && tbBlock && tbTrans;   // block+transpose really applied (a step may be skipped at a known-finding site)
        const bool tbCoincide = tb && f_mm >= 2 && f_nn >= 2 && f_mm < shadowOf(o).m && f_nn == shadowOf(o).m;
        if (special && tbOrder == 2 && tbBlock) { ctx.label("view:biased-block"); if (f_mm >= 2 && f_nn >= 2 && (f_nn == shadowOf(o).m || f_mm == shadowOf(o).n || f_mm == shadowOf(o).m || f_nn == shadowOf(o).n)) ctx.label("view:biased-block:extent-coincidence"); }
        if (tb) { ctx.label("view:transposed-block"); ctx.label(std::string("view:transposed-block/") + ET<E>::name()); ctx.label(tbOrder == 0 ? "view:transpose-of-block" : "view:block-of-transpose");
                  if (f_mm >= 2 && f_nn >= 2) ctx.label("view:transposed-block>=2x2"); if (tbCoincide) ctx.label("view:transposed-block:width==parent-rows"); }
        // the view reads what the model says (both accessors)
        for (int i = 0; i < vm.m; ++i) for (int j = 0; j < vm.n; ++j) {
            El want = modelGet(vm, o, i, j);
            if (!sameEl(view->get(i, j), want, maxMag())) { ctx.fail(d.str() + ": view(" + std::to_string(i) + "," + std::to_string(j) + ") = " + elStr(view->get(i, j), K) + ", model " + elStr(want, K)); return false; }
            if (!sameEl(view->getAny(i, j), want, maxMag())) { ctx.fail(d.str() + ": getAnyElt(" + std::to_string(i) + "," + std::to_string(j) + ") differs from model"); return false; }
        }
        int op = r.pick(30); uint32_t q1 = r.w(), q2 = r.w();
        if (special) {   // targeted operations: copy, binary operators (6 codes), fills, element write, in-place updates
            static const int tl[] = {21, 24, 25, 26, 27, 28, 29, 1, 2, 0, 17, 7, 3, 9, 10, 5, 12, 21, 1, 24};
            op = tl[word(19) % (sizeof tl / sizeof tl[0])];
            if (tb) { if (op == 21 || op >= 24) ctx.label("op:deepcopy-of-transposed-block"); else if (op == 1 || op == 2 || op == 0 || op == 17) ctx.label("op:fill-through-transposed-block"); else ctx.label("op:write-through-transposed-block");
                      if (tbCoincide) ctx.label((op == 21 || op >= 24) ? "op:deepcopy-of-transposed-block:width==parent-rows" : "op:write-through-transposed-block:width==parent-rows"); }
        }
        dense::Rng pr(((uint64_t)q1 << 32) ^ q2 ^ 0x5bd1e995u); std::swap(pr, rng);   // per-op deterministic bulk values
        static const LD scal[] = {2, -1, 0.5, -2, 3, 0.25, -0.5, 1.5};
        CL s = CL(scal[q1 % 8], 0); if (cx.cplx && (q1 & 8)) s = CL(scal[q1 % 8], scal[(q1 / 16) % 8]);
        const bool big = maxMag() > 1000; if (big && std::abs(s) > 1) s = CL(0.25, 0);
        El e = rndEl(); Sh cur = modelValues(vm, o); Sh next = cur; bool wrote = false; const int dd = std::min(vm.m, vm.n);
        std::string what;
        switch (op) {
            case 0: what = "= scalar"; view->assignScalar(e); for (auto& x : next.a) x = El(); if (vm.kind == 0) { for (int i = 0; i < dd; ++i) next.at(i, i) = e; } else for (auto& x : next.a) x = e; wrote = true; break;
            case 1: what = "setTo"; view->setTo(e); for (auto& x : next.a) x = e; wrote = true; break;
            case 2: what = "setToZero"; view->setToZero(); for (auto& x : next.a) x = El(); wrote = true; break;
            case 3: what = "*= s"; view->scale(s); for (auto& x : next.a) x = mulS(x, s); wrote = true; break;
            case 4: what = "/= s"; view->divide(s); for (auto& x : next.a) x = mulS(x, CL(1) / s); wrote = true; break;
            case 5: what = "+= scalar"; view->addScalar(e); if (vm.kind == 0) { for (int i = 0; i < dd; ++i) next.at(i, i) = addE(next.at(i, i), e); } else for (auto& x : next.a) x = addE(x, e); wrote = true; break;
            case 6: what = "-= scalar"; view->subScalar(e); if (vm.kind == 0) { for (int i = 0; i < dd; ++i) next.at(i, i) = addE(next.at(i, i), e, -1); } else for (auto& x : next.a) x = addE(x, e, -1); wrote = true; break;
            case 7: case 8: if (vm.m * vm.n > 0) { int i = q1 % vm.m, j = (q1 / 256) % vm.n; what = "elt write"; view->setElt(i, j, e); next.at(i, j) = e; wrote = true; } break;
            case 9: case 10: case 11: { int which = op - 9; bool viaNeg = q2 & 1; Sh B = rndSh(vm.m, vm.n); what = std::string(which == 0 ? "= " : which == 1 ? "+= " : "-= ") + (viaNeg ? "negated matrix" : "matrix");
                view->opMat(which, B, viaNeg); for (size_t i = 0; i < next.a.size(); ++i) next.a[i] = which == 0 ? B.a[i] : addE(next.a[i], B.a[i], which == 1 ? 1 : -1); wrote = true; break; }
            case 12: what = "negateInPlace"; view->negateInPlace(); for (auto& x : next.a) x = mulS(x, CL(-1)); wrote = true; break;
            case 13: case 14: { int w = op - 13; if (big && w == 0) break; Sh B = rndSh(vm.m, vm.n, true); if (view->elementwise(w, B, e)) { what = w == 0 ? "elementwiseMultiplyInPlace" : "elementwiseDivideInPlace"; for (size_t i = 0; i < next.a.size(); ++i) next.a[i].c[0] = w == 0 ? next.a[i].c[0] * B.a[i].c[0] : next.a[i].c[0] / B.a[i].c[0]; wrote = true; } break; }
            case 15: case 16: case 17: { int w = op - 13; Sh B; if (view->elementwise(w, B, e)) { what = w == 2 ? "elementwiseAddScalarInPlace" : w == 3 ? "elementwiseSubtractScalarInPlace" : "elementwiseAssign"; for (auto& x : next.a) x = w == 2 ? addE(x, e) : w == 3 ? addE(x, e, -1) : e; wrote = true; } break; }
            case 18: { if (big) break; int which = q2 & 1; Sh rs = rndSh(which == 0 ? vm.m : vm.n, 1, true); if (view->scaleRowsCols(which, rs)) { what = which == 0 ? "rowScaleInPlace" : "colScaleInPlace"; for (int i = 0; i < vm.m; ++i) for (int j = 0; j < vm.n; ++j) next.at(i, j).c[0] *= rs.a[which == 0 ? i : j].c[0]; wrote = true; } break; }
            // ---- queries
            case 19: { what = "norms"; LD ns = 0; for (auto& x : cur.a) for (int k = 0; k < K; ++k) ns += std::norm(x.c[k]); LD tolr = 1e3 * tol;
                if (std::fabs(view->normSqr() - ns) > tolr * (1 + ns)) { ctx.fail(d.str() + " normSqr() = " + pbt::str((double)view->normSqr()) + ", model " + pbt::str((double)ns)); return false; }
                if (std::fabs(view->norm() - std::sqrt(ns)) > tolr * (1 + std::sqrt(ns))) { ctx.fail(d.str() + " norm() = " + pbt::str((double)view->norm()) + ", model " + pbt::str((double)std::sqrt(ns))); return false; }
                LD rms; if (view->normRMS(rms)) { LD want = cur.a.empty() ? 0 : std::sqrt(ns / cur.a.size()); if (std::fabs(rms - want) > tolr * (1 + want)) { ctx.fail(d.str() + " normRMS() = " + pbt::str((double)rms) + ", model " + pbt::str((double)want)); return false; } }
                LD inf; if (view->normInf(inf)) { LD want = 0; for (auto& x : cur.a) want = std::max(want, std::abs(x.c[0])); if (std::fabs(inf - want) > tolr * (1 + want)) { ctx.fail(d.str() + " normInf() = " + pbt::str((double)inf) + ", model " + pbt::str((double)want)); return false; } }
                break; }
            case 20: { what = "sums"; std::vector<El> got; LD sc = maxMag() * (vm.m + vm.n + 1);
                if (view->colSum(got)) { if ((int)got.size() != vm.n) { ctx.fail(d.str() + " colSum size"); return false; } for (int j = 0; j < vm.n; ++j) { El w; for (int i = 0; i < vm.m; ++i) w = addE(w, cur.at(i, j)); if (!sameEl(got[j], w, sc)) { ctx.fail(d.str() + " colSum()[" + std::to_string(j) + "] = " + elStr(got[j], K) + ", model " + elStr(w, K)); return false; } } }
                if (view->rowSum(got)) { if ((int)got.size() != vm.m) { ctx.fail(d.str() + " rowSum size"); return false; } for (int i = 0; i < vm.m; ++i) { El w; for (int j = 0; j < vm.n; ++j) w = addE(w, cur.at(i, j)); if (!sameEl(got[i], w, sc)) { ctx.fail(d.str() + " rowSum()[" + std::to_string(i) + "] = " + elStr(got[i], K) + ", model " + elStr(w, K)); return false; } } }
                El sg; if (view->sum(sg)) { El w; for (auto& x : cur.a) w = addE(w, x); if (!sameEl(sg, w, sc)) { ctx.fail(d.str() + " sum() = " + elStr(sg, K) + ", model " + elStr(w, K)); return false; } }
                break; }
            case 21: { what = "copy"; if (!compareSh(view->copyOut(), cur, d.str() + " deep copy")) return false; break; }
            case 22: case 23: { what = "product"; Sh B; if (vm.kind == 0) B = (op == 22) ? rndSh(vm.n, 1 + rng.below(4)) : rndSh(vm.n, 1); else if (vm.kind == 2) B = rndSh(vm.n, 1); else break;
                Sh got; if (!view->times(B, got)) break;
                Sh want = shMake(vm.m, B.n); for (int i = 0; i < vm.m; ++i) for (int j = 0; j < B.n; ++j) { CL a = 0; for (int k2 = 0; k2 < vm.n; ++k2) a += cur.at(i, k2).c[0] * B.at(k2, j).c[0]; want.at(i, j).c[0] = a; }
                if (!compareSh(got, want, d.str() + " * operand", maxMag() * 3 * (vm.n + 1))) return false; break; }
            default: { int b = (op - 24) + (q2 % 2) * 6; if (b > 8) b = q2 % 9; what = "binary operator " + std::to_string(b); Sh B = rndSh(vm.m, vm.n); Sh got; if (!view->binary(b, B, e, s, got)) break;
                Sh want = cur;
                for (int i = 0; i < vm.m; ++i) for (int j = 0; j < vm.n; ++j) { El& x = want.at(i, j); const bool onDiag = vm.kind != 0 || i == j;
                    switch (b) { case 0: x = addE(x, B.at(i, j)); break; case 1: x = addE(x, B.at(i, j), -1); break; case 2: case 3: x = mulS(x, s); break; case 4: x = mulS(x, CL(1) / s); break;
                        case 5: case 6: if (onDiag) x = addE(x, e); break; case 7: if (onDiag) x = addE(x, e, -1); break; default: x = mulS(x, CL(-1)); if (onDiag) x = addE(x, e); } }
                if (!compareSh(got, want, d.str() + " " + what, maxMag())) return false; break; }
        }
        std::swap(pr, rng);
        if (wrote) { modelStore(vm, o, next); if (vm.depth >= 2) ctx.nontrivial(true); ctx.label("write:" + what); } else if (!what.empty()) ctx.label("query:" + what.substr(0, 16));
        d << " " << what; trace += d.str() + "\n";
        view.reset();
        return compareAll(d.str());
    }

    // ---- owner-level operations (every 4th unit)
    bool ownerOp(const pbt::Seg& seg, int opIndex) {
        pbt::Reader r(seg); r.skip(12);
        int kind = r.pick(5), o = r.pick(6), m = r.pick(9), n = r.pick(9); if (r.chance(1, 16)) { m = r.pick(13); n = r.pick(13); }
        std::ostringstream d; d << "op" << opIndex << ": owner" << o;
        Sh& s = shadowOf(o);
        if (kind == 0) {   // resize: data lost -> refill
            d << " resize(" << m << "," << n << ")+setTo"; El e = rndEl();
            if (o < 3) { M[o].resize(m, n); M[o].setTo(make<E>(e)); s = shMake(m, n); } else if (o < 5) { V[o - 3].resize(m); V[o - 3].setTo(make<E>(e)); s = shMake(m, 1); } else { R[0].resize(n); R[0].setTo(make<E>(e)); s = shMake(1, n); }
            for (auto& x : s.a) x = e;
        } else if (kind == 1) {   // resizeKeep: old data kept where it fits, new elements written afterwards
            d << " resizeKeep(" << m << "," << n << ")";
            Sh old = s; Sh ns = o < 3 ? shMake(m, n) : o < 5 ? shMake(m, 1) : shMake(1, n);
            if (o < 3) M[o].resizeKeep(m, n); else if (o < 5) V[o - 3].resizeKeep(m); else R[0].resizeKeep(n);
            for (int i = 0; i < ns.m; ++i) for (int j = 0; j < ns.n; ++j) {
                if (i < old.m && j < old.n) ns.at(i, j) = old.at(i, j);
                else { El e = rndEl(); ns.at(i, j) = e; if (o < 3) M[o](i, j) = make<E>(e); else if (o < 5) V[o - 3][i] = make<E>(e); else R[0][j] = make<E>(e); }
            }
            s = ns;
        } else if (kind == 2) {   // clear
            d << " clear()"; if (o < 3) { M[o].clear(); s = shMake(0, 0); } else if (o < 5) { V[o - 3].clear(); s = shMake(0, 1); } else { R[0].clear(); s = shMake(1, 0); }
        } else if (kind == 3 && o < 3) {   // owner = (possibly negated) block of another owner matrix: deep copy with reallocation
            int src = (o + 1 + r.pick(2)) % 3; Sh& ss = sm[src]; int i0 = ss.m ? r.pick(ss.m) : 0, j0 = ss.n ? r.pick(ss.n) : 0, mm = r.pick(ss.m - i0 + 1), nn = r.pick(ss.n - j0 + 1); bool neg = r.boolean();
            d << " = owner" << src << ".block(" << i0 << "," << j0 << "," << mm << "," << nn << ")" << (neg ? ".negate()" : "");
            if (nullOffset(ss.a.empty(), i0 + j0)) { i0 = j0 = 0; mm = std::min(mm, ss.m); nn = std::min(nn, ss.n); }
            std::unique_ptr<IView> b(baseView(src)); std::unique_ptr<IView> bb(b->block(i0, j0, mm, nn)); std::unique_ptr<IView> fin; if (neg) fin.reset(bb->negate());
            IView* use = neg ? fin.get() : bb.get();
            Sh ns = shMake(mm, nn); for (int i = 0; i < mm; ++i) for (int j = 0; j < nn; ++j) { El x = ss.at(i0 + i, j0 + j); if (neg) x = mulS(x, CL(-1)); ns.at(i, j) = x; }
            if (use->assignToOwnerMatrix(&M[o])) s = ns;
        } else {   // copy construction of a whole owner and copy back (value semantics)
            d << " copy-construct + assign back";
            if (o < 3) { Matrix_<E> c(M[o]); M[o].setToZero(); M[o] = c; } else if (o < 5) { Vector_<E> c(V[o - 3]); V[o - 3].setToZero(); V[o - 3] = c; } else { RowVector_<E> c(R[0]); R[0].setToZero(); R[0] = c; }
        }
        ctx.label(std::string("owner-op:") + (kind == 0 ? "resize" : kind == 1 ? "resizeKeep" : kind == 2 ? "clear" : kind == 3 ? "assign-from-view" : "copy"));
        trace += d.str() + "\n";
        return compareAll(d.str());
    }

    void run(const pbt::Tape& t) {
        pbt::Reader g(t[0]); g.skip(2);
        for (int k = 0; k < 3; ++k) { int m = g.pick(7), n = g.pick(7); if (g.chance(1, 16)) { m = g.pick(13); n = g.pick(13); } M[k].resize(m, n); sm[k] = rndSh(m, n); for (int i = 0; i < m; ++i) for (int j = 0; j < n; ++j) M[k](i, j) = make<E>(sm[k].at(i, j)); }
        for (int k = 0; k < 2; ++k) { int m = g.pick(9); V[k].resize(m); sv[k] = rndSh(m, 1); for (int i = 0; i < m; ++i) V[k][i] = make<E>(sv[k].a[i]); }
        { int n = g.pick(9); R[0].resize(n); sr[0] = rndSh(1, n); for (int j = 0; j < n; ++j) R[0][j] = make<E>(sr[0].a[j]); }
        ctx.label(std::string("elt:") + ET<E>::name());
        if (!compareAll("construction")) return;
        const int nops = std::min(40, (int)t.size() - 1);
        for (int k = 0; k < nops; ++k) {
            bool ok = (t[1 + k].size() > 12 && (t[1 + k][12] % 4) == 3) ? ownerOp(t[1 + k], k) : step(t[1 + k], k);
            if (!ok) break;
        }
        if (ctx.wantDesc) ctx.desc << "element type " << ET<E>::name() << ", " << nops << " operations\n" << trace;
    }
};

// ------------------------------------------------------------------ Part B: fixed-size Vec / Row / Mat / SymMat
template <class T> struct FT; template <> struct FT<double> { static const bool cplx = false; static double tol() { return 1e-12; } }; template <> struct FT<std::complex<double> > { static const bool cplx = true; static double tol() { return 1e-12; } };
template <class T> CL cl(const T& x) { El e = toEl(x); return e.c[0]; }
template <class T> T mk(CL z) { El e; e.c[0] = z; return make<T>(e); }

template <int N, class T> struct Fixed {
    typedef dense::Mat<CL> DM;
    pbt::Ctx& ctx; dense::Rng rng; LD tol = FT<T>::tol() * tolScale;
    Fixed(pbt::Ctx& c, uint64_t seed) : ctx(c), rng(seed) {}
    CL rnd() { return FT<T>::cplx ? CL(rng.below(7) - 3, rng.below(7) - 3) : CL(rng.below(7) - 3, 0); }
    bool eq(CL a, CL b, LD sc, const std::string& what) { if (std::isfinite((double)std::abs(a)) && std::abs(a - b) <= tol * (sc + std::abs(a) + std::abs(b))) return true; ctx.fail("N=" + std::to_string(N) + (FT<T>::cplx ? " complex " : " real ") + what + ": got (" + pbt::str((double)a.real()) + "," + pbt::str((double)a.imag()) + ") model (" + pbt::str((double)b.real()) + "," + pbt::str((double)b.imag()) + ")"); return false; }
    template <class MAT> bool eqMat(const MAT& got, const DM& want, const std::string& what, LD sc = 1) { if (got.nrow() != want.m || got.ncol() != want.n) { ctx.fail(what + ": shape"); return false; } LD s = std::max(sc, dense::normMax(want)); for (int i = 0; i < want.m; ++i) for (int j = 0; j < want.n; ++j) if (!eq(cl(got(i, j)), want(i, j), s, what + "(" + std::to_string(i) + "," + std::to_string(j) + ")")) return false; return true; }
    template <class VEC> bool eqVec(const VEC& got, const DM& want, const std::string& what, LD sc = 1) { LD s = std::max(sc, dense::normMax(want)); int len = want.m * want.n; if (got.size() != len) { ctx.fail(what + ": size"); return false; } for (int i = 0; i < len; ++i) if (!eq(cl(got[i]), want.a[i], s, what + "[" + std::to_string(i) + "]")) return false; return true; }

    bool run() {
        Vec<N, T> a, b; Mat<N, N, T> A, B; DM da(N, 1), db(N, 1), dA(N, N), dB(N, N);
        for (int i = 0; i < N; ++i) { da(i, 0) = rnd(); db(i, 0) = rnd(); a[i] = mk<T>(da(i, 0)); b[i] = mk<T>(db(i, 0)); for (int j = 0; j < N; ++j) { dA(i, j) = rnd(); dB(i, j) = rnd(); A(i, j) = mk<T>(dA(i, j)); B(i, j) = mk<T>(dB(i, j)); } }
        CL s = CL(rng.below(2) ? 2 : -0.5, 0); typename CNT<T>::StdNumber sn = mk<typename CNT<T>::StdNumber>(s);
        if (!eqVec(a + b, dense::add(da, db), "Vec+Vec")) return false;
        if (!eqVec(a - b, dense::sub(da, db), "Vec-Vec")) return false;
        if (!eqVec(a * sn, dense::scaled(da, s), "Vec*s")) return false;
        if (!eqVec(sn * a, dense::scaled(da, s), "s*Vec")) return false;
        if (!eqVec(a / sn, dense::scaled(da, CL(1) / s), "Vec/s")) return false;
        if (!eqVec(-a, dense::scaled(da, CL(-1)), "-Vec")) return false;
        if (!eqVec(a.negate(), dense::scaled(da, CL(-1)), "Vec.negate()")) return false;
        if (!eqVec(~a, dense::adj(da), "~Vec")) return false;
        { CL dot = 0; for (int i = 0; i < N; ++i) dot += std::conj(da(i, 0)) * db(i, 0); if (!eq(cl(~a * b), dot, 9 * N, "~a*b")) return false; if (!eq(cl(dot_(a, b)), dot, 9 * N, "dot(a,b)")) return false; }
        if (!eqMat(a * ~b, dense::mul(da, dense::adj(db)), "a*~b (outer)")) return false;
        if (!eqVec(A * a, dense::mul(dA, da), "Mat*Vec", 9 * N)) return false;
        if (!eqVec(~a * A, dense::mul(dense::adj(da), dA), "Row*Mat", 9 * N)) return false;
        if (!eqMat(A * B, dense::mul(dA, dB), "Mat*Mat", 9 * N)) return false;
        if (!eqMat(~A * B, dense::mul(dense::adj(dA), dB), "~Mat*Mat", 9 * N)) return false;
        if (!eqMat(A * ~B, dense::mul(dA, dense::adj(dB)), "Mat*~Mat", 9 * N)) return false;
        if (!eqMat(A + B, dense::add(dA, dB), "Mat+Mat")) return false;
        if (!eqMat(A - ~B, dense::sub(dA, dense::adj(dB)), "Mat-~Mat")) return false;
        if (!eqMat(A * sn, dense::scaled(dA, s), "Mat*s")) return false;
        if (!eqMat(-A, dense::scaled(dA, CL(-1)), "-Mat")) return false;
        if (!eqMat(~A, dense::adj(dA), "~Mat")) return false;
        { int j = rng.below(N); DM c(N, 1), r(1, N), dg(N, 1); for (int i = 0; i < N; ++i) { c(i, 0) = dA(i, j); r(0, i) = dA(j, i); dg(i, 0) = dA(i, i); }
          if (!eqVec(A(j), c, "Mat(j) column")) return false; if (!eqVec(A[j], r, "Mat[i] row")) return false; if (!eqVec(A.diag(), dg, "Mat.diag()")) return false;
          if (!eqVec(A(j) + b, dense::add(c, db), "column+Vec (strided)")) return false;
          if (!eqVec((~A)(j) - b, dense::sub(dense::adj(r), db), "(~Mat)(j)-Vec")) return false; }
        // scalar on the diagonal (Mat.h: "scalar" acts like a diagonal matrix)
        { DM w = dA; for (int i = 0; i < N; ++i) w(i, i) += s; if (!eqMat(A + sn, w, "Mat+s (diagonal)")) return false; DM w2 = dA; for (int i = 0; i < N; ++i) w2(i, i) -= s; if (!eqMat(A - sn, w2, "Mat-s (diagonal)")) return false; }
        // determinant and inverse against Gauss-Jordan with full pivoting
        { DM inv; CL det; int rank = dense::gaussJordan(dA, &inv, &det);
          LD detScale = 1; for (int i = 0; i < N; ++i) { LD rs = 0; for (int j = 0; j < N; ++j) rs += std::abs(dA(i, j)); detScale *= std::max(rs, (LD)1); }
          if (!eq(cl(det_(A)), det, detScale, "det(Mat)")) return false;
          // N >= 4 delegates to LAPACK getrf/getri (covered by C24; the harness link line has no LAPACK): closed forms N <= 3 only
          if constexpr (N <= 3) if (rank == N && std::abs(det) >= 0.5) { ctx.label("fixed:inverse"); LD sc = dense::normMax(inv) * dense::normMax(dA) * N * 10; if (!eqMat(A.invert(), inv, "Mat.invert()", sc)) return false; if (!eqMat(inverse(A), inv, "inverse(Mat)", sc)) return false;
              if (!eqVec(A.invert() * a, dense::mul(inv, da), "Mat.invert()*Vec", sc * 3)) return false; } }
        // SymMat (Hermitian): built from the lower triangle
        { SymMat<N, T> S; DM dS(N, N);
          for (int i = 0; i < N; ++i) for (int j = 0; j <= i; ++j) { CL z = rnd(); if (i == j) z = CL(z.real(), 0); dS(i, j) = z; dS(j, i) = std::conj(z); }
          fillSym(S, dS);   // in a separate non-inlined function, see the note there
          for (int i = 0; i < N; ++i) for (int j = 0; j <= i; ++j) if (!eq(cl(S(i, j)), dS(i, j), 3, "SymMat(i,j), i>=j")) return false;   // documented: operator()(i,j) needs i >= j
          { int j = rng.below(N); DM c(N, 1), rw(1, N); for (int i = 0; i < N; ++i) { c(i, 0) = dS(i, j); rw(0, i) = dS(j, i); } if (!eqVec(S(j), c, "SymMat(j) column")) return false; if (!eqVec(S[j], rw, "SymMat[i] row")) return false; }
          if (!eqMat(Mat<N, N, T>(S), dS, "Mat(SymMat)")) return false;
          if (!eqVec(S * a, dense::mul(dS, da), "SymMat*Vec", 9 * N)) return false;
          if (!eqMat(Mat<N, N, T>(S + S), dense::add(dS, dS), "SymMat+SymMat")) return false;
          if (!eqMat(Mat<N, N, T>(S * sn), dense::scaled(dS, s), "SymMat*s")) return false;
          DM inv; CL det; int rank = dense::gaussJordan(dS, &inv, &det);
          LD detScale = 1; for (int i = 0; i < N; ++i) { LD rs = 0; for (int j = 0; j < N; ++j) rs += std::abs(dS(i, j)); detScale *= std::max(rs, (LD)1); }
          if constexpr (!FT<T>::cplx) {
              if (!eq(cl(det_(S)), det, detScale, "det(SymMat)")) return false;
              // known finding: inverse(SymMat<3>) reads upper-triangle elements through operator()(i,j) with i<j (documented "must be i >= j")
              if (N == 3 && ctx.known("symmat3-inverse-wrong-elements")) ctx.label("excluded:symmat3-inverse-wrong-elements");
              else if constexpr (N <= 3) if (rank == N && std::abs(det) >= 0.5) { ctx.label("fixed:symmat-inverse"); if (!eqMat(Mat<N, N, T>(inverse(S)), inv, "inverse(SymMat)", dense::normMax(inv) * dense::normMax(dS) * N * 10)) return false; }
          } }
        if constexpr (N == 3 && !FT<T>::cplx) {
            DM cr(3, 1); cr(0, 0) = da(1, 0) * db(2, 0) - da(2, 0) * db(1, 0); cr(1, 0) = da(2, 0) * db(0, 0) - da(0, 0) * db(2, 0); cr(2, 0) = da(0, 0) * db(1, 0) - da(1, 0) * db(0, 0);
            if (!eqVec(a % b, cr, "Vec3 % Vec3", 20)) return false; if (!eqVec(cross(a, b), cr, "cross(a,b)", 20)) return false;
            if (!eqVec(crossMat(a) * b, cr, "crossMat(a)*b", 20)) return false; if (!eqVec((-a) % b, dense::scaled(cr, CL(-1)), "(-a)%b", 20)) return false;
            DM cm(3, 3); cm(0, 1) = -da(2, 0); cm(0, 2) = da(1, 0); cm(1, 0) = da(2, 0); cm(1, 2) = -da(0, 0); cm(2, 0) = -da(1, 0); cm(2, 1) = da(0, 0);
            if (!eqMat(crossMat(a), cm, "crossMat(a)")) return false;
            DM ra = dense::adj(da); Row<3, T> rr = ~a; DM crT = dense::adj(cr); if (!eqVec(rr % ~b, crT, "Row3 % Row3", 20)) return false;
        }
        if constexpr (N == 2 && !FT<T>::cplx) { CL w = da(0, 0) * db(1, 0) - da(1, 0) * db(0, 0); if (!eq(cl(a % b), w, 20, "Vec2 % Vec2")) return false; }
        return true;
    }
    // The Hermitian accessors of SymMat (getEltUpper, col, row, Mat(SymMat)) read the stored lower triangle through a
    // reinterpret_cast to the conjugate element type. When the elements were written through updLower()/updDiag() in the
    // SAME inlined scope, g++ 12 -O2 (strict aliasing) reorders the complex<double> stores after the conjugate<double>
    // loads and stale values come back (finding smallmat-herm-access-strict-aliasing). The harness therefore fills the
    // matrix in a separate non-inlined function, as a client that receives its data from elsewhere would.
    __attribute__((noinline)) static void fillSym(SymMat<N, T>& S, const DM& dS) {
        for (int i = 0; i < N; ++i) S.updDiag()[i] = mk<typename SymMat<N, T>::TDiag::E>(dS(i, i));
        for (int j = 0; j < N; ++j) for (int i = j + 1; i < N; ++i) S.updLower()[lowerIndex(i, j)] = mk<T>(dS(i, j));
    }
    template <class V1, class V2> static auto dot_(const V1& x, const V2& y) { return dot(x, y); }
    template <class MM> static auto det_(const MM& m) { return det(m); }
    static int lowerIndex(int i, int j) {   // packed strictly-lower storage of SymMat: by columns
        int k = 0; for (int c = 0; c < j; ++c) k += N - 1 - c; return k + (i - j - 1);
    }
};

template <class T> bool fixedDispatch(int n, pbt::Ctx& ctx, uint64_t seed) {
    switch (n) { case 1: return Fixed<1, T>(ctx, seed).run(); case 2: return Fixed<2, T>(ctx, seed).run(); case 3: return Fixed<3, T>(ctx, seed).run(); case 4: return Fixed<4, T>(ctx, seed).run(); case 5: return Fixed<5, T>(ctx, seed).run(); default: return Fixed<6, T>(ctx, seed).run(); }
}

void property(const pbt::Tape& t, pbt::Ctx& ctx) {
    pbt::Reader g(t[0]);
    int type = g.pick(5); bool partB = g.chance(1, 5);
    uint64_t seed = 0x243f6a8885a308d3ull; for (auto w : t[0]) seed = (seed ^ w) * 0x100000001b3ull + 0x9e37;
    if (partB) {
        int units = (int)t.size() - 1; int reps = 1 + std::min(units, 8);
        for (int k = 0; k < reps && !ctx.failed; ++k) {
            pbt::Reader u = k < units ? pbt::Reader(t[1 + k]) : pbt::Reader(); int n = 1 + u.pick(6); bool cplx = u.chance(1, 3); uint64_t sd = seed ^ ((uint64_t)u.w() << 20) ^ k;
            ctx.label(std::string("fixed:N=") + std::to_string(n) + (cplx ? "/complex" : "/real")); if (n >= 3) ctx.nontrivial(true);
            if (cplx) fixedDispatch<std::complex<double> >(n, ctx, sd); else fixedDispatch<double>(n, ctx, sd);
        }
        if (ctx.wantDesc) ctx.desc << "fixed-size arithmetic, " << reps << " size/type draws\n";
        return;
    }
    switch (type) {
        case 0: { History<double> h(ctx, seed); h.run(t); break; }
        case 1: { History<float> h(ctx, seed); h.run(t); break; }
        case 2: { History<std::complex<double> > h(ctx, seed); h.run(t); break; }
        case 3: { History<Vec3> h(ctx, seed); h.run(t); break; }
        default: { History<SpatialVec> h(ctx, seed); h.run(t); break; }
    }
}

pbt::Config config() {
    pbt::Config c; c.prop = "C25"; c.K = 20; c.minUnits = 1;
    c.quick = {400, 20000, 40, 8}; c.thorough = {3000, 200000, 40, 25};   // minima sized for the asan tree (~50 ms/case there, ~1 ms in main)
    c.rule = "rapidcheck tape -> (80%) a history of <= 40 operations on a pool of 3 Matrix_, 2 Vector_, 1 RowVector_ of element type Real/float/Complex/Vec3/SpatialVec (shapes 0..8, sometimes ..12): each operation builds a view chain of depth 0..3 (block/sub-range incl. empty, transpose, negate, col, row, diag, index) on one owner and writes (scalar/element/matrix =, +=, -=, *=, /=, element write, elementwise ops, negateInPlace, row/col scaling) or queries (norms, sums, copy, products, binary operators) through it; 1/4 of the view operations are 'transposed block' probes: block(i,j,m,n).transpose() or transpose().block(j,i,n,m) of an owner matrix with free (i,j,m,n), biased to block width == parent row count / height == parent column count / >= 2x2, followed by a deep copy, a binary operator producing a new matrix, setTo/setToZero/= scalar/elementwiseAssign, an element write or an in-place update; every 4th kind of unit is an owner operation (resize, resizeKeep, clear, assign from a view of another owner, copy); all owners are compared element by element with the shadow model after every operation; (20%) fixed-size Vec/Row/Mat/SymMat arithmetic of sizes 1..6, real and complex. Non-trivial: a write through a view chain of depth >= 2, or a fixed-size case with N >= 3.";
    c.assumptions = {"values are small integers and scale factors from {+-2, +-0.5, 3, 0.25, 1.5, -1}: results are compared with a relative tolerance of 1e-12 (float 3e-5) of the data magnitude", "right-hand operands are freshly built objects (no aliasing with the written view)", "documented semantics: Matrix op scalar acts on the diagonal, Vector/RowVector op scalar on every element (MatrixBase.h, TestBigMatrix.cpp)"};
    c.directed.push_back({"index-of-matrix-row", "index-view-ignores-stride", [](pbt::Ctx& ctx) {
        Matrix m(2, 2); m(0, 0) = 1; m(0, 1) = 2; m(1, 0) = 3; m(1, 1) = 4; Array_<int> ix; ix.push_back(0); ix.push_back(1);
        RowVectorView r = m.updRow(0); RowVectorView v = r.updIndex(ix);
        ctx.desc << "Matrix [1 2;3 4]: row(0).index{0,1} = " << v << "\n";
        ctx.check(v.size() == 2 && v[0] == 1 && v[1] == 2, "row(0).index{0,1} of [1 2;3 4] reads [" + pbt::str(v[0]) + " " + pbt::str(v[1]) + "] instead of [1 2]: the indexed view ignores the stride of its source");
    }});
    c.directed.push_back({"empty-index-of-one-element-row", "row-1elt-empty-index-shape", [](pbt::Ctx& ctx) {
        Matrix m(1, 1); m(0, 0) = 1; Array_<int> none; RowVectorView v = m.updRow(0).updIndex(none); const MatrixBase<Real>& b = v;
        ctx.desc << "1x1 matrix: row(0).index{} has shape " << b.nrow() << "x" << b.ncol() << "\n";
        ctx.check(b.nrow() == 1 && b.ncol() == 0, "empty index view of a one-element row is " + std::to_string(b.nrow()) + "x" + std::to_string(b.ncol()) + " instead of 1x0");
    }});
    c.directed.push_back({"symmat33-inverse", "symmat3-inverse-wrong-elements", [](pbt::Ctx& ctx) {
        SymMat33 T(2, 1, 3, 5, 1, 4); Mat33 M(T); Mat33 P = Mat33(inverse(T)) * M; double worst = 0; for (int i = 0; i < 3; ++i) for (int j = 0; j < 3; ++j) worst = std::max(worst, std::fabs(P(i, j) - (i == j ? 1 : 0)));
        ctx.desc << "SymMat33 [2 1 5;1 3 1;5 1 4]: max |inverse(S)*S - I| = " << worst << "\n";
        ctx.check(worst < 1e-12, "inverse(SymMat<3>) is not the inverse: max |inverse(S)*S - I| = " + pbt::str(worst));
    }});
    c.directed.push_back({"block-of-empty-matrix-at-offset", "empty-matrix-view-null-offset", [](pbt::Ctx& ctx) {
        // undefined behaviour that only UBSan reports (nullptr + offset); run it in a child so that the report cannot kill the harness
        fflush(nullptr); pid_t pid = fork();
        if (pid == 0) { Matrix m(5, 0); MatrixView b = m.updBlock(3, 0, 2, 0); _exit(b.ncol() == 0 ? 0 : 1); }   // leading dimension 5, no data: nullptr + 3
        int st = 0; waitpid(pid, &st, 0);
        ctx.desc << "Matrix(5,0).updBlock(3,0,2,0) in a child process: " << (WIFEXITED(st) ? "exit " + std::to_string(WEXITSTATUS(st)) : std::string("killed by signal")) << "\n";
        ctx.check(WIFEXITED(st) && WEXITSTATUS(st) == 0, "block view at a non-zero offset of a matrix without elements performs nullptr + offset (UndefinedBehaviorSanitizer report)");
    }});
    c.requiredLabels = {"view:biased-block", "view:biased-block:extent-coincidence", "view:transposed-block", "view:transpose-of-block", "view:block-of-transpose", "view:transposed-block/Real", "view:transposed-block/float", "view:transposed-block/Complex", "view:transposed-block/Vec3", "view:transposed-block:width==parent-rows", "op:deepcopy-of-transposed-block", "op:fill-through-transposed-block", "op:write-through-transposed-block", "op:deepcopy-of-transposed-block:width==parent-rows", "op:write-through-transposed-block:width==parent-rows", "elt:Real", "elt:float", "elt:Complex", "elt:Vec3", "elt:SpatialVec", "depth:2", "depth:3", "view:negated", "view:transposed", "view:vector", "view:row", "owner-op:resizeKeep", "owner-op:assign-from-view", "fixed:N=6/real", "fixed:N=3/complex", "fixed:inverse", "fixed:symmat-inverse"};
    return c;
}
} // namespace

PBT_MAIN(config(), property)
