// VERIF-TREES: asan
// C18 -- State stage and cache semantics follow the documented model (DESIGN.md section 5, C18).
// Stateful, model based: one tape unit = one operation on a pool of two bare SimTK::State objects (no System);
// after EVERY operation both States are compared with a reference model written from the documentation in
// State.h: system/subsystem stages, "upd X lowers every stage to (invalidated stage - 1)", allocation lifetimes,
// cache validity (latest / earliest+mark / prerequisites incl. second-level dependents / explicit un-mark),
// variable values, auto-update swap, copies (deep, independent), value versions, system stage-version diff.
// Only operations State.h documents as legal are generated, plus (sparsely) illegal calls whose check is active
// under NDEBUG (SimTK_STAGECHECK_*_ALWAYS / SimTK_ERRCHK_ALWAYS) with the oracle "throws and nothing changed".
#include "pbt.h"
#include "SimTKcommon.h"
#include <limits>
using namespace SimTK;

#if defined(__has_feature)
#if __has_feature(address_sanitizer)
extern "C" const char* __asan_default_options() { return "quarantine_size_mb=16"; }
#endif
#endif

namespace {
const double UNK = std::numeric_limits<double>::quiet_NaN();   // "value not specified by State.h"
typedef std::pair<int, int> Key;   // (subsystem, index)
enum { Empty = 0, Topology, Model, Instance, Time, Position, Velocity, Dynamics, Acceleration, Report, Infinity };
const char* SN[] = {"Empty", "Topology", "Model", "Instance", "Time", "Position", "Velocity", "Dynamics", "Acceleration", "Report", "Infinity"};

struct MCont { int a; std::vector<double> init; };
struct MErr { int a, n; };
struct MTrig { int a, g, n; };
struct MDV { int a, inval, val; double lastT; int autoCE; };
struct MCE { int a, earliest, latest; bool marked; bool pq, pu, pz; std::vector<Key> pdv, pce; int val; int assocDV; bool everMarked = false, staleRisk = false, markUnknown = false;
             bool hasPrereq() const { return pq || pu || pz || !pdv.empty() || !pce.empty(); } };
struct MSub { int stage = 0; std::string name, version; std::vector<MCont> q, u, z; std::vector<MErr> qe, ue, ude; std::vector<MTrig> tr; std::vector<MDV> dv; std::vector<MCE> ce; };
typedef std::vector<std::vector<double>> PerSub;
struct MState {
    int sys = 0; std::vector<MSub> sub; double t = UNK;
    PerSub q, u, z, uw, zw, qew, uew;          // exist while sys >= Model (q,u,z,uw,zw) / sys >= Instance (qew,uew)
    int lowestInval = 99;                       // lowest system stage invalidated since the last version snapshot
    bool hit_prereqInvalidation = false;        // non-triviality (a)
    bool unrealisticLead = false;
};

struct Run {
    pbt::Ctx& ctx; std::string op; int next = 1;
    State S[2]; MState M[2]; bool exists[2] = {true, false};
    bool haveSnap[2] = {false, false}; Array_<StageVersion> snap[2]; int snapStage[2] = {0, 0};
    long long qv[2] = {0, 0}, uv[2] = {0, 0}, zv[2] = {0, 0};
    bool wroteAfterCopy[2] = {false, false}; bool copied = false, divergent = false, sawIllegal = false, sawAuto = false, sawSecondLevel = false, sawCopy = false, sawVersionDiff = false;
    std::set<std::string> opsDone;
    explicit Run(pbt::Ctx& c) : ctx(c) {}
    bool fail(const std::string& m) { ctx.fail("after " + op + ": " + m); return false; }

    // ------------------------------------------------------------ model transitions
    static void invalidateCE(MState& m, Key k, bool viaPrereq, int depth = 0) {
        MCE& c = m.sub[k.first].ce[k.second];
        if (viaPrereq && c.marked && m.sub[k.first].stage >= c.earliest && m.sub[k.first].stage < c.latest) m.hit_prereqInvalidation = true;
        c.marked = false; c.staleRisk = false; c.markUnknown = false;
        for (size_t s = 0; s < m.sub.size(); ++s) for (size_t i = 0; i < m.sub[s].ce.size(); ++i) {
            MCE& d = m.sub[s].ce[i];
            if (std::find(d.pce.begin(), d.pce.end(), k) != d.pce.end() && depth < 50) invalidateCE(m, Key((int)s, (int)i), true, depth + 1);
        }
    }
    static void noteChange(MState& m, char what, Key dvk = Key(-1, -1)) {   // a prerequisite state variable changed
        for (size_t s = 0; s < m.sub.size(); ++s) for (size_t i = 0; i < m.sub[s].ce.size(); ++i) {
            MCE& c = m.sub[s].ce[i];
            bool hit = (what == 'q' && c.pq) || (what == 'u' && c.pu) || (what == 'z' && c.pz) || (what == 'd' && std::find(c.pdv.begin(), c.pdv.end(), dvk) != c.pdv.end());
            if (hit) invalidateCE(m, Key((int)s, (int)i), true);
        }
    }
    template <class V> static void popTo(std::vector<V>& v, int gp) { while (!v.empty() && v.back().a >= gp) v.pop_back(); }
    static void restoreSub(MSub& s, int gp) {     // subsystem stage reduced to gp (< current)
        if (s.stage <= gp) return;
        if (gp == Empty) { std::string n = s.name, ver = s.version; s = MSub(); s.name = n; s.version = ver; return; }
        popTo(s.q, gp); popTo(s.u, gp); popTo(s.z, gp); popTo(s.qe, gp); popTo(s.ue, gp); popTo(s.ude, gp); popTo(s.tr, gp); popTo(s.dv, gp); popTo(s.ce, gp);
        for (auto& c : s.ce) if (c.earliest > gp) { c.marked = false; c.markUnknown = false; }
        s.stage = gp;
    }
    static void invalidate(MState& m, int g) {    // "if any subsystem or the system stage is at or above g, back up to the stage just prior"
        if (m.sys >= g) {
            m.lowestInval = std::min(m.lowestInval, g);
            if (g <= Instance && m.sys >= Instance) { m.qew.clear(); m.uew.clear(); }
            if (g <= Model && m.sys >= Model) { m.q.clear(); m.u.clear(); m.z.clear(); m.uw.clear(); m.zw.clear(); noteChange(m, 'q'); noteChange(m, 'u'); noteChange(m, 'z'); }
            if (g <= Topology) m.t = UNK;
            m.sys = g - 1;
        }
        for (auto& s : m.sub) restoreSub(s, g - 1);
    }
    static void advanceSystem(MState& m) {
        int g = m.sys + 1;
        if (g == Model) {
            size_t n = m.sub.size(); m.q.assign(n, {}); m.u.assign(n, {}); m.z.assign(n, {}); m.uw.assign(n, {}); m.zw.assign(n, {});
            for (size_t i = 0; i < n; ++i) {
                for (auto& a : m.sub[i].q) m.q[i].insert(m.q[i].end(), a.init.begin(), a.init.end());
                for (auto& a : m.sub[i].u) m.u[i].insert(m.u[i].end(), a.init.begin(), a.init.end());
                for (auto& a : m.sub[i].z) m.z[i].insert(m.z[i].end(), a.init.begin(), a.init.end());
                m.uw[i].assign(m.u[i].size(), 1.0);      // "allocated and set to 1 at the end of realize(Model)"
                m.zw[i].assign(m.z[i].size(), UNK);      // initial z weights are not specified in State.h
            }
            // the shared pools are (re)allocated now: counts as a change of q, u and z for explicit prerequisites
            noteChange(m, 'q'); noteChange(m, 'u'); noteChange(m, 'z');
        } else if (g == Instance) {
            size_t n = m.sub.size(); m.qew.assign(n, {}); m.uew.assign(n, {});
            for (size_t i = 0; i < n; ++i) { int nq = 0, nu = 0; for (auto& e : m.sub[i].qe) nq += e.n; for (auto& e : m.sub[i].ue) nu += e.n; m.qew[i].assign(nq, 1.0); m.uew[i].assign(nu, 1.0); }   // "initialized to 1 on realize(Instance)"
        }
        m.sys = g;
    }
    static bool validCE(const MState& m, int s, int i) { const MCE& c = m.sub[s].ce[i]; int st = m.sub[s].stage; return st >= c.latest || (st >= c.earliest && c.marked); }

    // ------------------------------------------------------------ comparison of one State with its model
    static bool same(double real, double model) { return std::isnan(model) || real == model; }
    bool cmpVec(const Vector& v, const std::vector<double>& m, const char* what, int sub) {
        if (v.size() != (int)m.size()) return fail(std::string(what) + " of subsystem " + std::to_string(sub) + " has size " + std::to_string(v.size()) + ", model " + std::to_string(m.size()));
        for (int i = 0; i < v.size(); ++i) if (!same(v[i], m[i])) return fail(std::string(what) + "[" + std::to_string(i) + "] of subsystem " + std::to_string(sub) + " = " + pbt::str(v[i]) + ", model " + pbt::str(m[i]));
        return true;
    }
    bool verify(int w) {
        const State& s = S[w]; MState& m = M[w]; const std::string W = "state " + std::to_string(w) + ": ";
        if (s.getNumSubsystems() != (int)m.sub.size()) return fail(W + "number of subsystems " + std::to_string(s.getNumSubsystems()) + ", model " + std::to_string(m.sub.size()));
        if ((int)s.getSystemStage() != m.sys) return fail(W + "system stage " + SN[(int)s.getSystemStage()] + ", model " + SN[m.sys]);
        // known finding copy-revalidates-stale-cache-entries: PerSubsystemInfo::copyFrom() leaves the stage versions above the source's current stage at
        // their fresh value 1, so a copied cache entry (no explicit prerequisites) that had been marked valid during version 1 of its depends-on stage
        // and was then invalidated through that stage looks valid again in the copy as soon as the copy reaches that stage. Site predicate: State produced
        // by a copy; entry without explicit prerequisites that had been marked before the copy; copy made while the subsystem was below the entry's
        // earliest stage; no explicit mark/un-mark since (the recorded version can also be reached later, after further invalidations in the copy). While listed, the
        // observed validity is adopted there.
        for (int i = 0; i < (int)m.sub.size(); ++i) for (int c = 0; c < (int)m.sub[i].ce.size(); ++c) {
            MCE& e = m.sub[i].ce[c]; int st = m.sub[i].stage;
            // whether a copy keeps the explicit validity indicator of an entry that was beyond its latest stage at copy time is not specified: adopt it when it becomes observable
            if (e.markUnknown && st >= e.earliest && st < e.latest && st == (int)s.getSubsystemStage(SubsystemIndex(i))) { e.marked = s.isCacheValueRealized(SubsystemIndex(i), CacheEntryIndex(c)); e.markUnknown = false; }
            if (e.staleRisk && !e.marked && st >= e.earliest && st < e.latest && st == (int)s.getSubsystemStage(SubsystemIndex(i)) && s.isCacheValueRealized(SubsystemIndex(i), CacheEntryIndex(c)) && ctx.known("copy-revalidates-stale-cache-entries")) {
                e.marked = true; e.staleRisk = false; ctx.label("excluded:copy-revalidates-stale-cache-entries"); }
        }
        for (int i = 0; i < (int)m.sub.size(); ++i) {
            const MSub& ms = m.sub[i]; SubsystemIndex sx(i);
            if ((int)s.getSubsystemStage(sx) != ms.stage) return fail(W + "subsystem " + std::to_string(i) + " stage " + SN[(int)s.getSubsystemStage(sx)] + ", model " + SN[ms.stage]);
            if (s.getSubsystemName(sx) != ms.name || s.getSubsystemVersion(sx) != ms.version) return fail(W + "subsystem name/version lost");
            if (ms.stage > m.sys + 1) m.unrealisticLead = true;
            // discrete variables
            if (s.hasDiscreteVar(DiscreteVarKey(sx, DiscreteVariableIndex((int)ms.dv.size()))) || (!ms.dv.empty() && !s.hasDiscreteVar(DiscreteVarKey(sx, DiscreteVariableIndex((int)ms.dv.size() - 1)))))
                return fail(W + "subsystem " + std::to_string(i) + " does not have exactly the " + std::to_string(ms.dv.size()) + " discrete variables the model predicts (allocation-stage lifetime)");
            for (int d = 0; d < (int)ms.dv.size(); ++d) {
                const MDV& v = ms.dv[d]; DiscreteVariableIndex dx(d);
                int got = Value<int>::downcast(s.getDiscreteVariable(sx, dx));
                if (got != v.val) return fail(W + "discrete variable (" + std::to_string(i) + "," + std::to_string(d) + ") = " + std::to_string(got) + ", model " + std::to_string(v.val));
                if ((int)s.getDiscreteVarInvalidatesStage(sx, dx) != v.inval) return fail(W + "getDiscreteVarInvalidatesStage wrong");
                if (!std::isnan(v.lastT) && s.getDiscreteVarLastUpdateTime(sx, dx) != v.lastT) return fail(W + "last update time of discrete variable (" + std::to_string(i) + "," + std::to_string(d) + ") = " + pbt::str(s.getDiscreteVarLastUpdateTime(sx, dx)) + ", model " + pbt::str(v.lastT));
                CacheEntryIndex ux = s.getDiscreteVarUpdateIndex(sx, dx);
                if (ux.isValid() != (v.autoCE >= 0) || (v.autoCE >= 0 && (int)ux != v.autoCE)) return fail(W + "getDiscreteVarUpdateIndex wrong");
                if (v.autoCE >= 0 && s.isDiscreteVarUpdateValueRealized(sx, dx) != validCE(m, i, v.autoCE)) return fail(W + "isDiscreteVarUpdateValueRealized disagrees with the model");
            }
            // cache entries
            if (s.hasCacheEntry(CacheEntryKey(sx, CacheEntryIndex((int)ms.ce.size()))) || (!ms.ce.empty() && !s.hasCacheEntry(CacheEntryKey(sx, CacheEntryIndex((int)ms.ce.size() - 1)))))
                return fail(W + "subsystem " + std::to_string(i) + " does not have exactly the " + std::to_string(ms.ce.size()) + " cache entries the model predicts (allocation-stage lifetime)");
            for (int c = 0; c < (int)ms.ce.size(); ++c) {
                const MCE& e = ms.ce[c]; CacheEntryIndex cx(c); bool want = validCE(m, i, c), got = s.isCacheValueRealized(sx, cx);
                std::string id = "cache entry (" + std::to_string(i) + "," + std::to_string(c) + ") [earliest " + SN[e.earliest] + ", latest " + SN[e.latest] + ", subsystem stage " + SN[ms.stage] + ", marked " + std::to_string(e.marked) + (e.pq || e.pu || e.pz || !e.pdv.empty() || !e.pce.empty() ? ", has prerequisites" : "") + "]";
                if (got != want) return fail(W + id + ": isCacheValueRealized() = " + std::to_string(got) + ", model " + std::to_string(want));
                bool threw = false; int val = -1;
                try { val = Value<int>::downcast(s.getCacheEntry(sx, cx)); } catch (const std::exception&) { threw = true; }
                if (threw == want) return fail(W + id + ": getCacheEntry() " + (threw ? "threw although the entry is valid" : "did not throw although the entry is not valid"));
                if (want && val != e.val) return fail(W + id + ": value " + std::to_string(val) + ", model " + std::to_string(e.val));
                int raw = Value<int>::downcast(s.updCacheEntry(sx, cx));
                if (raw != e.val) return fail(W + id + ": stored value (updCacheEntry) " + std::to_string(raw) + ", model " + std::to_string(e.val));
            }
        }
        if (m.sys >= Model) {
            int nq = 0, nu = 0, nz = 0; std::vector<double> allq, allu, allz;
            for (int i = 0; i < (int)m.sub.size(); ++i) {
                SubsystemIndex sx(i);
                if ((int)s.getQStart(sx) != nq || (int)s.getUStart(sx) != nu || (int)s.getZStart(sx) != nz) return fail(W + "per-subsystem q/u/z partitions are not consecutive");
                if (s.getNQ(sx) != (int)m.q[i].size() || s.getNU(sx) != (int)m.u[i].size() || s.getNZ(sx) != (int)m.z[i].size()) return fail(W + "getNQ/NU/NZ(subsystem " + std::to_string(i) + ") wrong");
                if (!cmpVec(s.getQ(sx), m.q[i], "q", i) || !cmpVec(s.getU(sx), m.u[i], "u", i) || !cmpVec(s.getZ(sx), m.z[i], "z", i)) return false;
                if (!cmpVec(s.getUWeights(sx), m.uw[i], "uWeights", i) || !cmpVec(s.getZWeights(sx), m.zw[i], "zWeights", i)) return false;
                nq += (int)m.q[i].size(); nu += (int)m.u[i].size(); nz += (int)m.z[i].size();
                allq.insert(allq.end(), m.q[i].begin(), m.q[i].end()); allu.insert(allu.end(), m.u[i].begin(), m.u[i].end()); allz.insert(allz.end(), m.z[i].begin(), m.z[i].end());
            }
            if (s.getNQ() != nq || s.getNU() != nu || s.getNZ() != nz || s.getNY() != nq + nu + nz) return fail(W + "global NQ/NU/NZ/NY wrong");
            if ((int)s.getQStart() != 0 || (int)s.getUStart() != nq || (int)s.getZStart() != nq + nu) return fail(W + "y is not {q,u,z} in that order");
            if (!cmpVec(s.getQ(), allq, "global q", -1) || !cmpVec(s.getU(), allu, "global u", -1) || !cmpVec(s.getZ(), allz, "global z", -1)) return false;
            std::vector<double> ally = allq; ally.insert(ally.end(), allu.begin(), allu.end()); ally.insert(ally.end(), allz.begin(), allz.end());
            if (!cmpVec(s.getY(), ally, "y", -1)) return false;
            if (!same(s.getTime(), m.t)) return fail(W + "time = " + pbt::str(s.getTime()) + ", model " + pbt::str(m.t));
            if (s.getQValueVersion() < 1 || s.getUValueVersion() < 1 || s.getZValueVersion() < 1) return fail(W + "value versions must be >= 1 once q,u,z are allocated");
        }
        if (m.sys >= Instance) {
            int nqe = 0, nue = 0, nud = 0; int ntr[10] = {0};
            for (int i = 0; i < (int)m.sub.size(); ++i) {
                SubsystemIndex sx(i); int a = 0, b = 0, c = 0; int tr[10] = {0};
                for (auto& e : m.sub[i].qe) a += e.n; for (auto& e : m.sub[i].ue) b += e.n; for (auto& e : m.sub[i].ude) c += e.n; for (auto& e : m.sub[i].tr) tr[e.g] += e.n;
                if (s.getNQErr(sx) != a || s.getNUErr(sx) != b || s.getNUDotErr(sx) != c || s.getNMultipliers(sx) != c) return fail(W + "per-subsystem constraint error dimensions wrong");
                if ((int)s.getQErrStart(sx) != nqe || (int)s.getUErrStart(sx) != nue || (int)s.getUDotErrStart(sx) != nud) return fail(W + "per-subsystem constraint error partitions are not consecutive");
                if (!cmpVec(s.getQErrWeights(sx), m.qew[i], "qErrWeights", i) || !cmpVec(s.getUErrWeights(sx), m.uew[i], "uErrWeights", i)) return false;
                for (int g = 1; g <= 9; ++g) { if (s.getNEventTriggersByStage(sx, Stage(g)) != tr[g]) return fail(W + "per-subsystem event trigger count wrong"); ntr[g] += tr[g]; }
                nqe += a; nue += b; nud += c;
            }
            if (s.getNQErr() != nqe || s.getNUErr() != nue || s.getNYErr() != nqe + nue || s.getNUDotErr() != nud || s.getNMultipliers() != nud) return fail(W + "global constraint error dimensions wrong");
            int tot = 0; for (int g = 1; g <= 9; ++g) { if (s.getNEventTriggersByStage(Stage(g)) != ntr[g]) return fail(W + "event trigger count by stage wrong"); tot += ntr[g]; }
            if (s.getNEventTriggers() != tot) return fail(W + "total event trigger count wrong");
        }
        // value versions never go backwards within one State object
        long long a = s.getQValueVersion(), b = s.getUValueVersion(), c = s.getZValueVersion();
        if (a < qv[w] || b < uv[w] || c < zv[w]) return fail(W + "a value version decreased");
        qv[w] = a; uv[w] = b; zv[w] = c;
        return true;
    }
    bool verifyAll() { for (int w = 0; w < 2; ++w) if (exists[w] && !verify(w)) return false; return true; }

    // after a copy: State.h fixes the variable values and independence, but neither the exact stage of the copy nor the
    // fate of explicit validity marks nor of allocations still pending at the current stage: check the documented bounds, then adopt
    bool adoptCopy(int dst, int src) {
        const State& s = S[dst]; MState m = M[src]; const MState& ms = M[src];
        m.lowestInval = 99; m.hit_prereqInvalidation = false;
        int sys = (int)s.getSystemStage();
        if (sys > std::min(ms.sys, (int)Instance)) return fail("copy has system stage " + std::string(SN[sys]) + " but the source had " + SN[ms.sys] + " and the cache is not copied");
        if (ms.sys >= Model && sys < Model) return fail("source realized to Model but the copy does not give access to the copied state variables (system stage " + std::string(SN[sys]) + ")");
        if (s.getNumSubsystems() != (int)ms.sub.size()) return fail("copy has a different number of subsystems");
        if (sys < ms.sys) { int keep = m.sys; (void)keep; MState tmp = m; invalidate(tmp, sys + 1); m = tmp; m.lowestInval = 99; }
        for (int i = 0; i < (int)m.sub.size(); ++i) {
            SubsystemIndex sx(i); int st = (int)s.getSubsystemStage(sx);
            if (st > std::min(ms.sub[i].stage, (int)Instance) || st < sys) return fail("copy: subsystem " + std::to_string(i) + " stage " + SN[st] + " out of the documented bounds");
            if (st < m.sub[i].stage) restoreSub(m.sub[i], st);
            MSub& x = m.sub[i];
            // discrete variables / cache entries still pending at the current stage may or may not be copied: adopt what is there
            int nd = 0; while (nd < (int)x.dv.size() && s.hasDiscreteVar(DiscreteVarKey(sx, DiscreteVariableIndex(nd)))) ++nd;
            int nc = 0; while (nc < (int)x.ce.size() && s.hasCacheEntry(CacheEntryKey(sx, CacheEntryIndex(nc)))) ++nc;
            for (int d = 0; d < nd; ++d) x.dv[d].lastT = UNK;
            for (int d = nd; d < (int)x.dv.size(); ++d) if (x.dv[d].a < st) return fail("copy lost discrete variable (" + std::to_string(i) + "," + std::to_string(d) + ") although its allocation stage had been completed");
            for (int c = nc; c < (int)x.ce.size(); ++c) if (x.ce[c].a < st) return fail("copy lost cache entry (" + std::to_string(i) + "," + std::to_string(c) + ") although its allocation stage had been completed");
            x.dv.resize(nd); x.ce.resize(nc);
        }
        // marks: unspecified ("copying only state variables and not the cache"): adopt the observed validity
        for (int i = 0; i < (int)m.sub.size(); ++i) for (int c = 0; c < (int)m.sub[i].ce.size(); ++c) {
            MCE& e = m.sub[i].ce[c]; int st = m.sub[i].stage;
            // drop prerequisites that did not survive
            e.pdv.erase(std::remove_if(e.pdv.begin(), e.pdv.end(), [&](const Key& k) { return k.second >= (int)m.sub[k.first].dv.size(); }), e.pdv.end());
            e.pce.erase(std::remove_if(e.pce.begin(), e.pce.end(), [&](const Key& k) { return k.second >= (int)m.sub[k.first].ce.size(); }), e.pce.end());
            if (st >= e.earliest && st < e.latest) e.marked = s.isCacheValueRealized(SubsystemIndex(i), CacheEntryIndex(c)); else e.marked = false;
            e.staleRisk = st < e.earliest && !e.hasPrereq() && (e.everMarked || e.staleRisk);
            e.markUnknown = st >= e.latest;
        }
        M[dst] = m; qv[dst] = uv[dst] = zv[dst] = 0; haveSnap[dst] = false;
        return true;
    }

    // ------------------------------------------------------------ one operation
    bool step(pbt::Reader r, size_t opIndex) {
        // weighted choice of the operation kind (entry 0 = the simplest: a realize sweep); early in a history allocations are favoured
        static const int KT[] = {5, 6, 6, 6, 7, 7, 8, 8, 8, 9, 9, 9, 10, 10, 10, 11, 11, 11, 11, 11, 1, 2, 30, 3, 4, 5, 32, 33, 34, 35, 12, 13, 14, 37, 38, 15, 16, 39, 16, 17, 18, 40, 41, 42, 17, 18, 19, 19, 20, 21, 43, 21,
                                 22, 44, 22, 23, 24, 45, 25, 26, 46, 27, 28, 29, 47, 31, 0, 0};
        int kind = KT[r.pick(int(sizeof KT / sizeof KT[0]))]; int w = r.pick(2); if (!exists[w]) w = 1 - w;
        State& s = S[w]; MState& m = M[w]; const int ns = (int)m.sub.size();
        uint32_t wa = r.w(), wb = r.w(), wc = r.w(), wd = r.w(), we = r.w(), wf = r.w();
        int i = ns ? int(wa % uint32_t(ns)) : -1; SubsystemIndex sx(i < 0 ? 0 : i);
        if (opIndex < 12 && (kind == 5 || (kind >= 30 && kind <= 35) || (kind >= 1 && kind <= 4)) && wf % 4) { static const int AK[] = {6, 7, 8, 9, 10, 11, 11, 9}; kind = AK[(wf >> 2) % 8]; }
        bool threw = false, expectThrow = false, wrote = false; std::string what; std::string tag;
        const std::string W = "state" + std::to_string(w) + " ";
        auto minSub = [&]() { int mn = 99; for (auto& x : m.sub) mn = std::min(mn, x.stage); return mn; };
        auto sweepTo = [&](int target) {   // the usual realize pattern: every subsystem, then the system, one stage at a time
            while (m.sys < target) { int g = m.sys + 1; for (int k = 0; k < (int)m.sub.size(); ++k) while (m.sub[k].stage < g) { s.advanceSubsystemToStage(SubsystemIndex(k), Stage(m.sub[k].stage + 1)); m.sub[k].stage++; }
                                     s.advanceSystemToStage(Stage(g)); advanceSystem(m); } };
        // remap operations that are not possible in the current situation to the most useful legal one
        if (ns == 0 && kind != 0 && kind != 25 && kind != 26 && kind != 27 && kind != 28 && kind != 29) kind = (m.sys == Empty) ? 0 : 5;
        try {
        switch (kind) {
        case 0: { tag = "addSubsystem"; if (m.sys != Empty || ns >= 4) { kind = 5; goto realize; } std::string nm = "sub" + std::to_string(next++); op = W + "addSubsystem(" + nm + ")";
                  // known finding addsubsystem-loses-pending-allocations: when the array of subsystems has to grow, the existing PerSubsystemInfo objects are
                  // "moved" with the copy constructor, which (1) keeps only what was allocated below the subsystem's current stage (and at most through Instance)
                  // and (2) leaves their back pointer to the StateImpl null (later un-allocation of a cache entry with prerequisites then dereferences null).
                  // Whether the array grows depends on its hidden capacity (4 in a fresh State, exactly the size in a copied one).
                  // Site predicate (on the input): addSubsystem() on a State that already has at least one subsystem.
                  { bool site = ns >= 1;
                    if (site && ctx.known("addsubsystem-loses-pending-allocations")) { ctx.label("excluded:addsubsystem-loses-pending-allocations"); op += " (excluded: known finding)"; tag = "excluded"; break; } }
                  SubsystemIndex k = s.addSubsystem(nm, "v" + nm); MSub x; x.name = nm; x.version = "v" + nm; m.sub.push_back(x); if ((int)k != ns) return fail("addSubsystem returned the wrong index"); } break;
        case 1: case 2: case 30: { tag = "advanceSubsystemToStage"; MSub& x = m.sub[i]; if (x.stage >= Report) { kind = 22; goto invalidateAllOp; } op = W + "advanceSubsystemToStage(" + std::to_string(i) + "," + SN[x.stage + 1] + ")"; s.advanceSubsystemToStage(sx, Stage(x.stage + 1)); x.stage++; } break;
        case 3: case 4: case 31: { tag = "advanceSystemToStage"; if (m.sys >= Report || minSub() <= m.sys) { kind = 5; goto realize; } op = W + "advanceSystemToStage(" + SN[m.sys + 1] + ")"; s.advanceSystemToStage(Stage(m.sys + 1)); advanceSystem(m); } break;
        case 5: case 32: case 33: case 34: case 35: realize: { tag = "realize-sweep"; int target = std::min((int)Report, m.sys + 1 + int(wb % 3)); if (kind >= 34) target = std::min((int)Report, std::max(target, (int)Instance + int(wb % 6)));
                  if (m.sys >= Report) { kind = 22; goto invalidateAllOp; } op = W + "advance all subsystems and the system up to " + SN[target]; sweepTo(target); } break;
        case 6: { tag = "allocateQ/U/Z"; MSub& x = m.sub[i]; int which = int(wb % 3), n = 1 + int(wc % 3); bool legal = x.stage < Model; if (!legal && wd % 4) { kind = 12; goto writeQ; }
                  Vector init(n); std::vector<double> iv(n); for (int k = 0; k < n; ++k) { iv[k] = next++; init[k] = iv[k]; }
                  op = W + "allocate" + "QUZ"[which] + "(" + std::to_string(i) + ", n=" + std::to_string(n) + ")" + (legal ? "" : " ILLEGAL at " + std::string(SN[x.stage])); expectThrow = !legal;
                  std::vector<MCont>& st = which == 0 ? x.q : which == 1 ? x.u : x.z; int nxt = 0; for (auto& a : st) nxt += (int)a.init.size();
                  int got = which == 0 ? (int)s.allocateQ(sx, init) : which == 1 ? (int)s.allocateU(sx, init) : (int)s.allocateZ(sx, init);
                  if (got != nxt) return fail("returned index " + std::to_string(got) + ", expected the next consecutive index " + std::to_string(nxt)); st.push_back(MCont{x.stage, iv}); } break;
        case 7: { tag = "allocateErr/Trigger"; MSub& x = m.sub[i]; int which = int(wb % 4), n = 1 + int(wc % 3), g = 1 + int(wd % 9); bool legal = x.stage < Instance; if (!legal && we % 4) { kind = 13; goto writeU; }
                  static const char* nm[] = {"allocateQErr", "allocateUErr", "allocateUDotErr", "allocateEventTrigger"}; op = W + nm[which] + "(" + std::to_string(i) + ", n=" + std::to_string(n) + (which == 3 ? std::string(", ") + SN[g] : "") + ")" + (legal ? "" : " ILLEGAL at " + std::string(SN[x.stage])); expectThrow = !legal;
                  if (which < 3) { std::vector<MErr>& st = which == 0 ? x.qe : which == 1 ? x.ue : x.ude; int nxt = 0; for (auto& a : st) nxt += a.n; int got = which == 0 ? (int)s.allocateQErr(sx, n) : which == 1 ? (int)s.allocateUErr(sx, n) : (int)s.allocateUDotErr(sx, n);
                                   if (got != nxt) return fail("returned index is not the next consecutive one"); st.push_back(MErr{x.stage, n}); }
                  else { int nxt = 0; for (auto& a : x.tr) if (a.g == g) nxt += a.n; int got = (int)s.allocateEventTrigger(sx, Stage(g), n); if (got != nxt) return fail("returned trigger index is not the next consecutive one for that stage"); x.tr.push_back(MTrig{x.stage, g, n}); } } break;
        case 8: case 9: { tag = kind == 8 ? "allocateDiscreteVariable" : "allocateAutoUpdateDiscreteVariable"; MSub& x = m.sub[i]; bool autoUpd = kind == 9; int inval = autoUpd ? Position + int(wb % 5) : Model + int(wb % 8);
                  bool legal = inval <= Model ? x.stage == Empty : x.stage <= Topology; if (!legal && (wc % 4 || autoUpd)) { kind = 16; goto writeDV; }
                  int dep = Topology + int(wd % 9); int v0 = next++;
                  op = W + tag + "(" + std::to_string(i) + ", invalidates " + SN[inval] + (autoUpd ? std::string(", update depends on ") + SN[dep] : "") + ")" + (legal ? "" : " ILLEGAL at " + std::string(SN[x.stage])); expectThrow = !legal;
                  int nd = (int)x.dv.size(), nc = (int)x.ce.size(); AbstractValue* av = new Value<int>(v0); int got;
                  try { got = autoUpd ? (int)s.allocateAutoUpdateDiscreteVariable(sx, Stage(inval), av, Stage(dep)) : (int)s.allocateDiscreteVariable(sx, Stage(inval), av); } catch (...) { delete av; throw; }
                  if (got != nd) return fail("returned discrete variable index " + std::to_string(got) + ", expected " + std::to_string(nd));
                  x.dv.push_back(MDV{x.stage, inval, v0, UNK, autoUpd ? nc : -1});
                  if (autoUpd) { MCE e{x.stage, dep, Infinity, false, false, false, false, {}, {}, v0, nd}; x.ce.push_back(e); sawAuto = true; } } break;
        case 10: case 11: case 36: { tag = kind == 10 ? "allocateCacheEntry" : "allocateCacheEntryWithPrerequisites"; MSub& x = m.sub[i]; bool legal = x.stage < Instance; if (!legal && wf % 8) { kind = 17; goto markOp; }
                  int earliest = Topology + int(wb % 9), form = int(wc % 4); int latest = form == 0 ? earliest : form == 1 ? Infinity : earliest + int(wd % uint32_t(Infinity - earliest + 1));
                  MCE e{x.stage, earliest, latest, false, false, false, false, {}, {}, next++, -1};
                  bool badPrereq = false; Array_<DiscreteVarKey> dks; Array_<CacheEntryKey> cks;
                  if (kind != 10) {
                      e.pq = (we & 1) != 0; e.pu = (we & 2) != 0; e.pz = (we & 4) != 0;
                      // candidates: entities that cannot be forgotten (by an invalidation or by a copy) before this entry: earlier in the same subsystem, or in another
                      // subsystem at an earlier allocation stage which that subsystem has already completed
                      std::vector<Key> cd, cc; for (int k = 0; k < ns; ++k) { for (int d = 0; d < (int)m.sub[k].dv.size(); ++d) if (((m.sub[k].dv[d].a < x.stage && m.sub[k].dv[d].a < m.sub[k].stage) || k == i) && m.sub[k].dv[d].autoCE < 0) cd.push_back(Key(k, d));
                                                                               for (int c = 0; c < (int)m.sub[k].ce.size(); ++c) if ((m.sub[k].ce[c].a < x.stage && m.sub[k].ce[c].a < m.sub[k].stage) || k == i) cc.push_back(Key(k, c)); }
                      int nd = cd.empty() ? 0 : int((we >> 3) % 3), nc = cc.empty() ? 0 : int((we >> 5) % 3);
                      for (int k = 0; k < nd; ++k) { Key p = cd[(wf + 7 * k) % cd.size()]; if (std::find(e.pdv.begin(), e.pdv.end(), p) == e.pdv.end()) e.pdv.push_back(p); }
                      for (int k = 0; k < nc; ++k) { Key p = cc[((wf >> 8) + 5 * k) % cc.size()]; if (std::find(e.pce.begin(), e.pce.end(), p) == e.pce.end()) e.pce.push_back(p); }
                      // documented: an upstream cache entry's earliest stage must be no later than this one's. Usually repair, sometimes keep as an illegal call
                      for (auto& p : e.pce) if (m.sub[p.first].ce[p.second].earliest > e.earliest) { if ((wf >> 16) % 6 == 0 && legal) badPrereq = true; else { e.earliest = m.sub[p.first].ce[p.second].earliest; if (e.latest < e.earliest) e.latest = e.earliest; } }
                      if (badPrereq) for (auto& p : e.pce) (void)p;
                      for (auto& p : e.pdv) dks.push_back(DiscreteVarKey(SubsystemIndex(p.first), DiscreteVariableIndex(p.second))); for (auto& p : e.pce) cks.push_back(CacheEntryKey(SubsystemIndex(p.first), CacheEntryIndex(p.second)));
                      if (!e.pce.empty()) sawSecondLevel = true;
                  }
                  op = W + tag + "(" + std::to_string(i) + ", earliest " + SN[e.earliest] + ", latest " + SN[e.latest] + (kind != 10 ? std::string(", q/u/z=") + char('0' + e.pq) + char('0' + e.pu) + char('0' + e.pz) + ", " + std::to_string(e.pdv.size()) + " dv, " + std::to_string(e.pce.size()) + " ce prerequisites" : "") + ")" + (legal && !badPrereq ? "" : " ILLEGAL");
                  expectThrow = !legal || badPrereq; AbstractValue* av = new Value<int>(e.val); int got; int nc0 = (int)x.ce.size();
                  try { if (kind != 10) got = (int)s.allocateCacheEntryWithPrerequisites(sx, Stage(e.earliest), Stage(e.latest), e.pq, e.pu, e.pz, dks, cks, av);
                        else if (form == 0 && (wd & 1)) got = (int)s.allocateCacheEntry(sx, Stage(e.earliest), av); else if (form == 1 && (wd & 1)) got = (int)s.allocateLazyCacheEntry(sx, Stage(e.earliest), av); else got = (int)s.allocateCacheEntry(sx, Stage(e.earliest), Stage(e.latest), av); }
                  catch (...) { delete av; throw; }
                  if (got != nc0) return fail("returned cache entry index " + std::to_string(got) + ", expected " + std::to_string(nc0)); x.ce.push_back(e); } break;
        case 12: writeQ: case 13: writeU: case 14: case 37: case 38: { int which = kind == 12 ? 0 : kind == 13 ? 1 : kind == 14 ? 2 : int(wb % 4); static const char* nm[] = {"Q", "U", "Z", "Y"}; tag = std::string("upd") + nm[which];
                  if (m.sys < Model) { kind = 5; goto realize; }
                  int form = int(wc % 3); long long v0[3] = {s.getQValueVersion(), s.getUValueVersion(), s.getZValueVersion()};
                  PerSub* pv[3] = {&m.q, &m.u, &m.z}; static const int inv[4] = {Position, Velocity, Dynamics, Position};
                  op = W + (form == 0 ? "upd" : form == 1 ? "set" : "upd(sub) ") + std::string(nm[which]) + " -> invalidates " + SN[inv[which]];
                  double val = next++;
                  if (which == 3) { int n = s.getNY(); if (form == 1) { Vector y(n); for (int k = 0; k < n; ++k) y[k] = val; s.setY(y); } else { Vector& y = s.updY(); for (int k = 0; k < n; ++k) y[k] = val; }
                                    for (int p = 0; p < 3; ++p) for (auto& vv : *pv[p]) for (auto& e : vv) e = val; }
                  else if (form == 2) { Vector& v = which == 0 ? s.updQ(sx) : which == 1 ? s.updU(sx) : s.updZ(sx); for (int k = 0; k < v.size(); ++k) v[k] = val; for (auto& e : (*pv[which])[i]) e = val; }
                  else { int n = which == 0 ? s.getNQ() : which == 1 ? s.getNU() : s.getNZ();
                         if (form == 1) { Vector x(n); for (int k = 0; k < n; ++k) x[k] = val; if (which == 0) s.setQ(x); else if (which == 1) s.setU(x); else s.setZ(x); for (auto& vv : *pv[which]) for (auto& e : vv) e = val; }
                         else { Vector& v = which == 0 ? s.updQ() : which == 1 ? s.updU() : s.updZ(); int k = n ? int(wd % uint32_t(n)) : -1; if (k >= 0) { v[k] = val; int c = k; for (auto& vv : *pv[which]) { if (c < (int)vv.size()) { vv[c] = val; break; } c -= (int)vv.size(); } } } }
                  invalidate(m, inv[which]); if (which == 0 || which == 3) noteChange(m, 'q'); if (which == 1 || which == 3) noteChange(m, 'u'); if (which == 2 || which == 3) noteChange(m, 'z'); wrote = true;
                  long long v1[3] = {s.getQValueVersion(), s.getUValueVersion(), s.getZValueVersion()};
                  for (int p = 0; p < 3; ++p) if ((which == p || which == 3) && v1[p] <= v0[p]) return fail(std::string("value version of ") + nm[p] + " did not increase although it was handed out for writing"); } break;
        case 15: { tag = "updTime"; if (m.sys < Model) { kind = 5; goto realize; } double val = next++; op = W + ((wb & 1) ? "setTime(" : "updTime()=(") + pbt::str(val) + ")"; if (wb & 1) s.setTime(val); else s.updTime() = val; m.t = val; invalidate(m, Time); wrote = true; } break;
        case 16: writeDV: case 39: { tag = "updDiscreteVariable"; std::vector<Key> all; for (int k = 0; k < ns; ++k) for (int d = 0; d < (int)m.sub[k].dv.size(); ++d) all.push_back(Key(k, d)); if (all.empty()) { kind = 5; goto realize; }
                  Key k = all[wb % all.size()]; int inval = m.sub[k.first].dv[k.second].inval; int val = next++; op = W + ((wc & 1) ? "setDiscreteVariable" : "updDiscreteVariable") + "(" + std::to_string(k.first) + "," + std::to_string(k.second) + ") -> invalidates " + SN[inval];
                  if (wc & 1) s.setDiscreteVariable(SubsystemIndex(k.first), DiscreteVariableIndex(k.second), Value<int>(val)); else Value<int>::updDowncast(s.updDiscreteVariable(SubsystemIndex(k.first), DiscreteVariableIndex(k.second))) = val;
                  double tNow = m.sys >= Topology ? m.t : UNK; invalidate(m, inval);   // the variable itself survives: it was allocated below its invalidated stage
                  MDV& dv = m.sub[k.first].dv[k.second]; dv.val = val; dv.lastT = tNow;   // "the current time is recorded as the variable's last update time"
                  if (dv.autoCE >= 0) invalidateCE(m, Key(k.first, dv.autoCE), true);      // "the auto-update cache entry is always invalidated by an explicit change to the variable"
                  noteChange(m, 'd', k); wrote = true; } break;
        case 17: markOp: case 18: case 40: case 41: case 42: { tag = "markCacheValueRealized"; std::vector<Key> ok; for (int k = 0; k < ns; ++k) for (int c = 0; c < (int)m.sub[k].ce.size(); ++c) if (m.sub[k].stage >= m.sub[k].ce[c].earliest) ok.push_back(Key(k, c));
                  if (ok.empty()) { kind = 5; goto realize; }   // documented precondition: subsystem stage >= earliest
                  Key k = ok[wb % ok.size()]; MCE& e = m.sub[k.first].ce[k.second]; op = W + "markCacheValueRealized(" + std::to_string(k.first) + "," + std::to_string(k.second) + ")";
                  if (wc & 1) { int val = next++; Value<int>::updDowncast(s.updCacheEntry(SubsystemIndex(k.first), CacheEntryIndex(k.second))) = val; e.val = val; op += " after writing a new value"; }
                  if (e.assocDV >= 0 && (wd & 1)) s.markDiscreteVarUpdateValueRealized(SubsystemIndex(k.first), DiscreteVariableIndex(e.assocDV)); else s.markCacheValueRealized(SubsystemIndex(k.first), CacheEntryIndex(k.second));
                  e.marked = true; e.everMarked = true; e.staleRisk = false; e.markUnknown = false; } break;
        case 19: { tag = "markCacheValueNotRealized"; std::vector<Key> all; for (int k = 0; k < ns; ++k) for (int c = 0; c < (int)m.sub[k].ce.size(); ++c) all.push_back(Key(k, c)); if (all.empty()) { kind = 5; goto realize; }
                  Key k = all[wb % all.size()]; op = W + "markCacheValueNotRealized(" + std::to_string(k.first) + "," + std::to_string(k.second) + ")"; s.markCacheValueNotRealized(SubsystemIndex(k.first), CacheEntryIndex(k.second)); invalidateCE(m, k, false); } break;
        case 20: { tag = "updCacheEntry"; std::vector<Key> all; for (int k = 0; k < ns; ++k) for (int c = 0; c < (int)m.sub[k].ce.size(); ++c) all.push_back(Key(k, c)); if (all.empty()) { kind = 5; goto realize; }
                  Key k = all[wb % all.size()]; int val = next++; op = W + "updCacheEntry(" + std::to_string(k.first) + "," + std::to_string(k.second) + ") = " + std::to_string(val) + " (no effect on validity)";
                  MCE& e = m.sub[k.first].ce[k.second]; if (e.assocDV >= 0 && (wc & 1)) Value<int>::updDowncast(s.updDiscreteVarUpdateValue(SubsystemIndex(k.first), DiscreteVariableIndex(e.assocDV))) = val; else Value<int>::updDowncast(s.updCacheEntry(SubsystemIndex(k.first), CacheEntryIndex(k.second))) = val; e.val = val; } break;
        case 21: case 43: { tag = "autoUpdateDiscreteVariables"; if (m.sys < Model) { kind = 5; goto realize; } op = W + "autoUpdateDiscreteVariables()"; int nsw = 0;
                  // "looks at all the auto-update discrete variables to see which ones have valid update values; for each valid value the variable and
                  //  its update value are swapped and the new cache value is marked invalid. No stage is invalidated."
                  std::vector<Key> sw; for (int k = 0; k < ns; ++k) for (int d = 0; d < (int)m.sub[k].dv.size(); ++d) if (m.sub[k].dv[d].autoCE >= 0 && validCE(m, k, m.sub[k].dv[d].autoCE)) sw.push_back(Key(k, d));
                  s.autoUpdateDiscreteVariables();
                  for (auto& k : sw) { MDV& dv = m.sub[k.first].dv[k.second]; MCE& e = m.sub[k.first].ce[dv.autoCE]; std::swap(dv.val, e.val); dv.lastT = UNK; invalidateCE(m, Key(k.first, dv.autoCE), true); ++nsw; }
                  op += " (" + std::to_string(nsw) + " swapped)"; if (nsw) tag += ":swapped"; } break;
        case 22: invalidateAllOp: case 44: { tag = "invalidateAll"; int g = (wb % 8 == 0) ? Topology + int(wc % 2) : Instance + int(wc % 7); op = W + "invalidateAll(" + SN[g] + ")"; s.invalidateAll(Stage(g)); invalidate(m, g); if (g <= Model) tag += ":Topology/Model"; } break;
        case 23: { tag = "invalidateAllCacheAtOrAbove"; int g = (wb % 6 == 0) ? Topology + int(wc % 2) : Instance + int(wc % 7); bool legal = g >= Instance; op = W + "invalidateAllCacheAtOrAbove(" + SN[g] + ")" + (legal ? "" : " ILLEGAL"); expectThrow = !legal; const State& cs = s; cs.invalidateAllCacheAtOrAbove(Stage(g)); invalidate(m, g); } break;
        case 24: case 45: { int which = int(wb % 4); static const char* nm[] = {"updUWeights", "updZWeights", "updQErrWeights", "updUErrWeights"}; tag = nm[which]; static const int inv[4] = {Report, Report, Position, Velocity};
                  if (m.sys < (which < 2 ? Model : Instance)) { kind = 5; goto realize; }
                  bool perSub = (wc & 1) != 0; double val = 1 + double(wd % 7); op = W + nm[which] + (perSub ? "(" + std::to_string(i) + ")" : "()") + " = " + pbt::str(val) + " -> invalidates " + SN[inv[which]];
                  bool site = which == 1 && !perSub && (m.sys >= Dynamics || [&] { for (auto& x : m.sub) if (x.stage >= Dynamics) return true; return false; }());
                  // known finding updzweights-invalidates-dynamics: StateImpl::updZWeights() (global form) invalidates Stage::Dynamics instead of the documented Report.
                  // Site predicate (on the input): global updZWeights() while some stage is at Dynamics or above (below that the two behaviours coincide).
                  if (site && ctx.known("updzweights-invalidates-dynamics")) { ctx.label("excluded:updzweights-invalidates-dynamics"); op += " (excluded: known finding)"; tag = "excluded"; break; }
                  PerSub& pv = which == 0 ? m.uw : which == 1 ? m.zw : which == 2 ? m.qew : m.uew;
                  if (perSub) { Vector& v = which == 0 ? s.updUWeights(sx) : which == 1 ? s.updZWeights(sx) : which == 2 ? s.updQErrWeights(sx) : s.updUErrWeights(sx); for (int k = 0; k < v.size(); ++k) v[k] = val; for (auto& e : pv[i]) e = val; }
                  else { Vector& v = which == 0 ? s.updUWeights() : which == 1 ? s.updZWeights() : which == 2 ? s.updQErrWeights() : s.updUErrWeights(); for (int k = 0; k < v.size(); ++k) v[k] = val; for (auto& vv : pv) for (auto& e : vv) e = val; }
                  invalidate(m, inv[which]); wrote = true; } break;
        case 25: case 26: case 46: { tag = kind == 26 ? "copy-assign" : "copy-construct"; int o = 1 - w;
                  // allocations of q/u/z/constraint slots/triggers still pending at a subsystem's current stage have no observable fate in a copy: generate copies without them
                  bool pending = false; for (auto& x : m.sub) if (x.stage < Instance) { auto pend = [&](int a) { return a >= x.stage; }; for (auto& a : x.q) pending |= pend(a.a); for (auto& a : x.u) pending |= pend(a.a); for (auto& a : x.z) pending |= pend(a.a);
                                                                                     for (auto& a : x.qe) pending |= pend(a.a); for (auto& a : x.ue) pending |= pend(a.a); for (auto& a : x.ude) pending |= pend(a.a); for (auto& a : x.tr) pending |= pend(a.a); }
                  if (pending) { kind = 5; goto realize; }
                  op = W + (kind == 26 ? "copy-assigned to state" : "copy-constructed into state") + std::to_string(o);
                  if (kind == 26 && exists[o]) { if (wb & 1) S[o] = s; else { const State& cs = s; S[o] = cs; } } else { State c(s); S[o] = std::move(c); }
                  exists[o] = true; if (!adoptCopy(o, w)) return false; copied = sawCopy = true; wroteAfterCopy[0] = wroteAfterCopy[1] = false; if (wc % 5 == 0) { op += " + self-assignment"; State& sr = S[o]; S[o] = sr; } } break;
        case 27: { tag = "move"; int o = 1 - w; op = W + ((wb & 1) ? "move-constructed into state" : "move-assigned to state") + std::to_string(o) + ", source cleared";
                  if (wb & 1) { State c(std::move(s)); S[o] = std::move(c); } else { if (!exists[o]) S[o] = State(); S[o] = std::move(s); }
                  s.clear(); M[o] = m; M[w] = MState(); exists[o] = true; qv[o] = qv[w]; uv[o] = uv[w]; zv[o] = zv[w]; qv[w] = uv[w] = zv[w] = 0; haveSnap[o] = haveSnap[w]; snap[o] = snap[w]; snapStage[o] = snapStage[w]; haveSnap[w] = false; } break;
        case 28: { tag = "clear"; if (wb % 3) { kind = 5; goto realize; } op = W + "clear()"; s.clear(); m = MState(); qv[w] = uv[w] = zv[w] = 0; haveSnap[w] = false; } break;
        case 29: case 47: { tag = "stage-versions"; if (!haveSnap[w] || (wb % 3 == 0)) { op = W + "getSystemStageVersions() snapshot at " + SN[m.sys]; s.getSystemStageVersions(snap[w]); snapStage[w] = m.sys; haveSnap[w] = true; m.lowestInval = 99;
                      if ((int)snap[w].size() != m.sys + 1) return fail("getSystemStageVersions returned " + std::to_string(snap[w].size()) + " entries, expected one per valid stage"); }
                  else { int got = (int)s.getLowestSystemStageDifference(snap[w]); int want = (m.lowestInval <= snapStage[w]) ? m.lowestInval : Infinity; op = W + "getLowestSystemStageDifference(snapshot taken at " + SN[snapStage[w]] + ")";
                         if (got != want) return fail(std::string("returned ") + SN[got] + ", model " + SN[want] + " (lowest system stage invalidated since the snapshot)"); if (want != Infinity) sawVersionDiff = true; } } break;
        default: { tag = "reads"; op = W + "toString()"; String t1 = s.toString(); String t2 = s.cacheToString(); (void)t1; (void)t2; } break;
        }
        } catch (const std::exception& ex) { threw = true; what = ex.what(); }
        if (threw != expectThrow) return fail(threw ? "unexpected exception: " + what.substr(0, 400) : "the documented-illegal call did not throw");
        if (threw) { sawIllegal = true; tag = "illegal:" + tag; }
        opsDone.insert(tag);
        if (wrote && copied) { wroteAfterCopy[w] = true; if (wroteAfterCopy[0] && wroteAfterCopy[1]) divergent = true; }
        return verifyAll();
    }

    void run(const pbt::Tape& tp) {
        pbt::Reader g(tp[0]); int n0 = g.pick(5);   // initial subsystems through setNumSubsystems (0: none, use addSubsystem)
        op = "construction"; if (n0) { S[0].setNumSubsystems(n0); M[0].sub.resize(n0); for (int k = 0; k < n0; ++k) if (g.boolean()) { std::string nm = "init" + std::to_string(k); S[0].initializeSubsystem(SubsystemIndex(k), nm, "v1"); M[0].sub[k].name = nm; M[0].sub[k].version = "v1"; } }
        if (!verifyAll()) return;
        for (size_t u = 0; u + 1 < tp.size(); ++u) {
            bool ok = step(pbt::Reader(tp[u + 1]), u);
            if (ctx.wantDesc) { ctx.desc << "  #" << u << " " << op; for (int w = 0; w < 2; ++w) if (exists[w]) { ctx.desc << "   | s" << w << ": sys " << SN[M[w].sys] << ", subs"; for (auto& x : M[w].sub) ctx.desc << " " << SN[x.stage]; } ctx.desc << (ok ? "" : "   <-- FAILED") << "\n"; }
            if (!ok) return;
        }
        for (auto& t : opsDone) ctx.label("op:" + t);
        bool hitA = M[0].hit_prereqInvalidation || M[1].hit_prereqInvalidation;
        if (hitA) ctx.label("prerequisite-invalidated-valid-entry"); if (divergent) ctx.label("copy-then-both-modified"); if (sawSecondLevel) ctx.label("cache-entry-prerequisite-allocated");
        if (sawVersionDiff) ctx.label("stage-version-difference-detected"); if (sawCopy) ctx.label("copied");
        bool lead = M[0].unrealisticLead || M[1].unrealisticLead; ctx.label(lead ? "unrealistic-lead" : "realistic(subsystem<=system+1)");
        int top = std::max(M[0].sys, exists[1] ? M[1].sys : 0); ctx.label(std::string("final-system-stage:") + SN[top]);
        ctx.nontrivial(hitA || divergent);
    }
};

void property(const pbt::Tape& t, pbt::Ctx& ctx) {
    Run r(ctx);
    if (ctx.wantDesc) ctx.desc << t.size() - 1 << " operations on bare State objects\n";
    r.run(t);
}

pbt::Config config() {
    pbt::Config c; c.prop = "C18"; c.K = 8; c.minUnits = 2;
    c.quick = {10000, 150000, 60, 25}; c.thorough = {60000, 1000000, 60, 150};
    c.rule = "rapidcheck tape -> history of <= 60 operations (one unit = one operation, 48 kinds) on a pool of two bare SimTK::State objects with 0-4 subsystems: addSubsystem, q/u/z/constraint-slot/trigger/discrete/auto-update/cache allocations at every legal stage (with q/u/z, discrete-variable and upstream-cache-entry prerequisites), advance subsystem/system, realize sweeps, upd/set of time,q,u,z,y,discrete variables,weights, mark valid/invalid, cache writes, autoUpdateDiscreteVariables, invalidateAll/invalidateAllCacheAtOrAbove, copy construct/assign, move, clear, stage-version snapshots, and always-checked illegal calls. Non-trivial: the history invalidates a marked-valid cache entry through an explicit prerequisite (not through its stage), or copies a State and then modifies both copies; distinct by tape hash.";
    c.assumptions = {"the reference model encodes only statements of State.h (see notes/C18.md); where State.h is silent (stage of a copy, validity marks in a copy, initial time and z weights, last-update time after an auto-update swap) the observed value is adopted after checking the documented bounds",
                     "operations whose preconditions are only debug-checked (advancing by more than one stage, marking an entry below its earliest stage, variable access before Model stage) are never generated",
                     "cache entries get only prerequisites that cannot be forgotten before they are (earlier in the same subsystem, or allocated in another subsystem at an earlier stage that this subsystem has completed); auto-update variables are not used as explicit prerequisites"};
    c.directed.push_back({"updZWeights-invalidates-only-Report", "updzweights-invalidates-dynamics", [](pbt::Ctx& ctx) {
        State s; SubsystemIndex sx = s.addSubsystem("a", "1"); s.allocateZ(sx, Vector(2, 0.5));
        for (int g = 1; g <= 9; ++g) { s.advanceSubsystemToStage(sx, Stage(g)); s.advanceSystemToStage(Stage(g)); }
        s.updZWeights()[0] = 2;
        ctx.desc << "one subsystem with 2 z realized to Report; updZWeights() -> system stage " << s.getSystemStage().getName() << " (documented: 'will invalidate just Report stage')\n";
        ctx.check(s.getSystemStage() == Stage::Acceleration, "updZWeights() lowered the system stage to " + s.getSystemStage().getName() + ", documented is Acceleration (only Report invalidated); updZWeights(SubsystemIndex) behaves as documented");
    }});
    c.directed.push_back({"copy-of-invalidated-state-revalidates-cache-entry", "copy-revalidates-stale-cache-entries", [](pbt::Ctx& ctx) {
        State s; SubsystemIndex sx = s.addSubsystem("a", "1"); CacheEntryIndex cx = s.allocateLazyCacheEntry(sx, Stage::Time, new Value<int>(0));
        for (int g = 1; g <= 4; ++g) { s.advanceSubsystemToStage(sx, Stage(g)); s.advanceSystemToStage(Stage(g)); }
        Value<int>::updDowncast(s.updCacheEntry(sx, cx)) = 111; s.markCacheValueRealized(sx, cx);   // computed for time 0
        s.setTime(2.0);                                                                            // Time stage invalidated: entry invalid in s
        State c(s); c.advanceSubsystemToStage(sx, Stage::Time); c.advanceSystemToStage(Stage::Time);
        s.advanceSubsystemToStage(sx, Stage::Time); s.advanceSystemToStage(Stage::Time);
        ctx.desc << "lazy Time-stage cache entry marked valid at t=0, setTime(2), copy, both re-advanced to Time: realized in source = " << s.isCacheValueRealized(sx, cx) << ", in copy = " << c.isCacheValueRealized(sx, cx) << "\n";
        ctx.check(!s.isCacheValueRealized(sx, cx), "source: entry valid after its stage was invalidated");
        ctx.check(!c.isCacheValueRealized(sx, cx), "the copy of a State whose Time stage had been invalidated reports the lazy Time-stage cache entry as realized (stale value from before setTime) once it is advanced to Time again");
    }});
    c.directed.push_back({"addSubsystem-keeps-earlier-allocations", "addsubsystem-loses-pending-allocations", [](pbt::Ctx& ctx) {
        State s; SubsystemIndex a = s.addSubsystem("a", "1"); DiscreteVariableIndex dx = s.allocateDiscreteVariable(a, Stage::Position, new Value<int>(7));
        bool before = s.hasDiscreteVar(DiscreteVarKey(a, dx)); int n = 1; bool after = before;
        while (after && n < 40) { s.addSubsystem("more", "1"); ++n; after = s.hasDiscreteVar(DiscreteVarKey(a, dx)); }
        ctx.desc << "subsystem 0 allocates a discrete variable at Empty stage, then further subsystems are added: variable present before = " << before << ", still present after " << n << " subsystems = " << after << "\n";
        ctx.check(after, "a discrete variable allocated in subsystem 0 disappeared when subsystem number " + std::to_string(n) + " was added (the subsystem array was reallocated)");
    }});
    c.requiredLabels = {"prerequisite-invalidated-valid-entry", "copy-then-both-modified", "cache-entry-prerequisite-allocated", "stage-version-difference-detected", "realistic(subsystem<=system+1)", "op:autoUpdateDiscreteVariables:swapped", "op:invalidateAll:Topology/Model", "final-system-stage:Report"};
    return c;
}
} // namespace

PBT_MAIN(config(), property)
