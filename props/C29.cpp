// C29 -- Mass-property and spatial-algebra identities hold (DESIGN.md section 5, C29).
// Units: (0) Inertia_/UnitInertia_ construction, shifts, re-expression, arithmetic, factories; (1) validity
// predicate on valid (incl. degenerate rod/disc/point), clearly invalid and "unphysical but passing" matrices;
// (2) SpatialInertia_ and MassProperties_ vs 6x6 matrices and vs each other; (3) ArticulatedInertia_ vs 6x6
// congruence; (4) SpatialAlgebra.h shift/relative-motion functions, kinetic energy and power invariance,
// accelerations as finite-difference derivatives of velocities (double only: the functions are not templates).
// Oracle: long-double 3x3 / 6x6 matrix definitions (gen/rotref.h), textbook formulas, invariants.
#include "pbt.h"
#include "rotref.h"
#include "SimTKcommon.h"
using namespace SimTK;
using rr::LD; using rr::M3; using rr::V3;

namespace {

static const bool CALIB = getenv("C29_CALIB") != nullptr;
struct CalibTable { std::map<std::string, double> mx; ~CalibTable() { if (CALIB) for (auto& kv : mx) fprintf(stderr, "CALIB %-52s max err/tol = %.3g\n", kv.first.c_str(), kv.second); } };
CalibTable& calib() { static CalibTable t; return t; }
template <class P> struct Prec;
template <> struct Prec<double> { static constexpr LD eps = 2.220446049250313e-16L; static const char* name() { return "double"; } };
template <> struct Prec<float>  { static constexpr LD eps = 1.1920928955078125e-07L; static const char* name() { return "float"; } };
static const LD MARGIN = 16;  // every stated tolerance is multiplied by this (calibration: worst ratio 0.41 at 4, 0.10 at 16; notes/C29.md)
template <class P> bool judge(pbt::Ctx& ctx, const char* id, LD err, LD tol, const std::string& detail = "") {
    tol *= MARGIN;
    if (CALIB) { std::string k = std::string(id) + "/" + Prec<P>::name(); double r = (double)(err / tol); if (!(r <= calib().mx[k])) calib().mx[k] = r; if (err <= tol * 1e6L) return true; }
    if (!(err <= tol)) { ctx.fail(std::string(id) + " [" + Prec<P>::name() + "]: error " + pbt::str((double)err) + " > tol " + pbt::str((double)tol) + (detail.empty() ? "" : " -- " + detail)); return false; }
    return true;
}

// ---------------------------------------------------------------- conversions
template <class P> M3 toM3(const SymMat<3, P>& m) { M3 r; for (int i = 0; i < 3; ++i) for (int j = 0; j < 3; ++j) r[i][j] = (LD)m.elt(i, j); return r; }
template <class P, int CS, int RS> M3 toM3(const Mat<3, 3, P, CS, RS>& m) { M3 r; for (int i = 0; i < 3; ++i) for (int j = 0; j < 3; ++j) r[i][j] = (LD)m(i, j); return r; }
template <class P> M3 toM3(const Inertia_<P>& I) { return toM3(I.asSymMat33()); }
template <class P> V3 toV3(const Vec<3, P>& v) { return V3((LD)v[0], (LD)v[1], (LD)v[2]); }
template <class P> Vec<3, P> toVec(V3 v) { return Vec<3, P>((P)v[0], (P)v[1], (P)v[2]); }
template <class P> SymMat<3, P> toSym(const M3& m) { return SymMat<3, P>((P)m[0][0], (P)m[1][0], (P)m[1][1], (P)m[2][0], (P)m[2][1], (P)m[2][2]); }
template <class P> Rotation_<P> trust(const M3& m) { Mat<3, 3, P> r; for (int i = 0; i < 3; ++i) for (int j = 0; j < 3; ++j) r(i, j) = (P)m[i][j]; return Rotation_<P>(r, true); }
M3 pointMass(V3 p, LD m) { return m * (rr::dot(p, p) * rr::ident() - rr::outer(p, p)); }     // m(|p|^2 1 - p p^T)

struct M6 { LD a[6][6]; M6() { for (auto& r : a) for (auto& x : r) x = 0; } };
M6 blocks(const M3& A, const M3& B, const M3& C, const M3& D) { M6 r; for (int i = 0; i < 3; ++i) for (int j = 0; j < 3; ++j) { r.a[i][j] = A[i][j]; r.a[i][j + 3] = B[i][j]; r.a[i + 3][j] = C[i][j]; r.a[i + 3][j + 3] = D[i][j]; } return r; }
M6 mul(const M6& x, const M6& y) { M6 r; for (int i = 0; i < 6; ++i) for (int j = 0; j < 6; ++j) { LD s = 0; for (int k = 0; k < 6; ++k) s += x.a[i][k] * y.a[k][j]; r.a[i][j] = s; } return r; }
M6 tr6(const M6& x) { M6 r; for (int i = 0; i < 6; ++i) for (int j = 0; j < 6; ++j) r.a[i][j] = x.a[j][i]; return r; }
LD diff6(const M6& x, const M6& y) { LD e = 0; for (int i = 0; i < 6; ++i) for (int j = 0; j < 6; ++j) { LD d = std::fabs(x.a[i][j] - y.a[i][j]); if (!(d <= e)) e = d; } return e; }
LD max6(const M6& x) { LD e = 0; for (int i = 0; i < 6; ++i) for (int j = 0; j < 6; ++j) e = std::max(e, std::fabs(x.a[i][j])); return e; }
template <class P> M6 toM6(const Mat<2, 2, Mat<3, 3, P>>& s) { return blocks(toM3(s(0, 0)), toM3(s(0, 1)), toM3(s(1, 0)), toM3(s(1, 1))); }
struct V6 { V3 w, v; };
V6 mul(const M6& m, V6 x) { LD in[6] = {x.w[0], x.w[1], x.w[2], x.v[0], x.v[1], x.v[2]}, o[6]; for (int i = 0; i < 6; ++i) { LD s = 0; for (int k = 0; k < 6; ++k) s += m.a[i][k] * in[k]; o[i] = s; } V6 r; r.w = V3(o[0], o[1], o[2]); r.v = V3(o[3], o[4], o[5]); return r; }
LD dot6(V6 a, V6 b) { return rr::dot(a.w, b.w) + rr::dot(a.v, b.v); }
template <class P> V6 toV6(const Vec<2, Vec<3, P>>& s) { V6 r; r.w = toV3(s[0]); r.v = toV3(s[1]); return r; }
LD diffV6(V6 a, V6 b) { return std::max(rr::maxAbs(a.w - b.w), rr::maxAbs(a.v - b.v)); }
// spatial inertia matrix of (m, com p, inertia about origin I):  [I  m px; -m px  m 1]
M6 spatialInertia6(LD m, V3 p, const M3& Iorigin) { M3 mpx = m * rr::skew(p); return blocks(Iorigin, mpx, rr::tr(mpx), m * rr::ident()); }
// Phi(l) = [1 lx; 0 1]
M6 phi6(V3 l) { return blocks(rr::ident(), rr::skew(l), M3(), rr::ident()); }

// eigenvalues of a symmetric 3x3 (cyclic Jacobi in long double), ascending
void eig3(const M3& A, LD ev[3]) {
    M3 S = A;
    for (int sweep = 0; sweep < 30; ++sweep) {
        LD off = std::fabs(S[0][1]) + std::fabs(S[0][2]) + std::fabs(S[1][2]); if (off < 1e-30L * (1e-300L + rr::maxAbs(S))) break;
        for (int p = 0; p < 2; ++p) for (int q = p + 1; q < 3; ++q) {
            if (S[p][q] == 0) continue;
            LD th = (S[q][q] - S[p][p]) / (2 * S[p][q]), t = (th >= 0 ? 1 : -1) / (std::fabs(th) + std::sqrt(th * th + 1)), c = 1 / std::sqrt(t * t + 1), s = t * c;
            M3 J = rr::ident(); J[p][p] = c; J[q][q] = c; J[p][q] = s; J[q][p] = -s;
            S = rr::tr(J) * S * J;
        }
    }
    ev[0] = S[0][0]; ev[1] = S[1][1]; ev[2] = S[2][2]; std::sort(ev, ev + 3);
}

// ---------------------------------------------------------------- generators
V3 genDir(pbt::Reader& g) { double o[3]; g.unit3(o); return rr::unit(V3(o[0], o[1], o[2])); }
V3 genVecOrZero(pbt::Reader& g, double lo, double hi) { uint32_t w = g.w(); if (w % 6 == 0) { (void)g.w(); (void)g.w(); (void)g.w(); (void)g.w(); return V3(); } V3 d = genDir(g); return (LD)g.logreal(lo, hi) * d; }
M3 genRotM(pbt::Reader& g) {
    int mode = g.pick(4);
    if (mode == 0) return rr::ident();
    if (mode == 1) { int ax = g.pick(3); return rr::axisRot(ax, (LD)g.angle()); }
    LD q[4]; for (int i = 0; i < 4; ++i) q[i] = 2 * (LD)g.unit() - 1; if (q[0]*q[0]+q[1]*q[1]+q[2]*q[2]+q[3]*q[3] < 1e-6L) q[0] = 1;
    return rr::fromQuat(q);
}
// physical central unit inertia: second moments a,b,c >= 0 about principal axes -> moments (b+c, a+c, a+b), rotated.
// shape: 0 generic, 1 disc/lamina (one second moment zero: triangle EQUALITY), 2 rod (two zero), 3 point (all zero),
//        4 nearly degenerate, 5 sphere-like (all equal)
struct Body { M3 Gc; int shape; LD abc[3]; M3 R0; };
Body genBody(pbt::Reader& g) {
    Body b; b.shape = g.pick(6); LD s = (LD)g.logreal(1e-2, 1e2);
    for (int i = 0; i < 3; ++i) b.abc[i] = s * (LD)(0.02 + 0.98 * g.unit());
    switch (b.shape) { case 1: b.abc[g.pick(3)] = 0; break; case 2: { int k = g.pick(3); b.abc[(k + 1) % 3] = b.abc[(k + 2) % 3] = 0; break; } case 3: b.abc[0] = b.abc[1] = b.abc[2] = 0; break;
        case 4: { int k = g.pick(3); b.abc[k] *= std::pow((LD)10, -(LD)(3 + g.pick(14))); if (g.boolean()) b.abc[(k + 1) % 3] *= std::pow((LD)10, -(LD)(3 + g.pick(14))); break; }
        case 5: b.abc[1] = b.abc[2] = b.abc[0]; break; default: break; }
    M3 D; D[0][0] = b.abc[1] + b.abc[2]; D[1][1] = b.abc[0] + b.abc[2]; D[2][2] = b.abc[0] + b.abc[1];
    b.R0 = genRotM(g); b.Gc = b.R0 * D * rr::tr(b.R0);
    for (int i = 0; i < 3; ++i) for (int j = 0; j < i; ++j) b.Gc[j][i] = b.Gc[i][j] = (b.Gc[i][j] + b.Gc[j][i]) / 2;
    return b;
}
static const char* shapeName[] = {"generic", "disc", "rod", "point", "near-degenerate", "isotropic"};
bool hasOffDiag(const M3& m) { return m[0][1] != 0 || m[0][2] != 0 || m[1][2] != 0; }

// ================================================================== kind 0: Inertia_ / UnitInertia_
template <class P> void kindInertia(pbt::Reader& g, pbt::Ctx& ctx) {
    const LD eps = Prec<P>::eps;
    Body body = genBody(g); LD m0 = (LD)g.logreal(1e-3, 1e3); V3 p0 = genVecOrZero(g, 1e-2, 1e2); M3 R0 = genRotM(g);
    P mP = (P)m0; LD m = (LD)mP; Vec<3, P> pP = toVec<P>(p0); V3 p = toV3(pP); Rotation_<P> R = trust<P>(R0); M3 Rl = toM3(R.asMat33());
    SymMat<3, P> GcP = toSym<P>(body.Gc); M3 G = toM3(GcP);                       // central unit inertia as the library sees it
    SymMat<3, P> IcP = toSym<P>(m * G); M3 Ic = toM3(IcP);                        // central inertia
    LD sI = rr::maxAbs(Ic) + 1e-300L, sG = rr::maxAbs(G) + 1e-300L, sp = rr::dot(p, p), sS = sI + m * sp;
    if (ctx.wantDesc) ctx.desc << "inertia shape=" << shapeName[body.shape] << " m=" << pbt::str((double)m) << " p=" << rr::show(p) << " Ic=" << rr::show(Ic) << " R=" << rr::show(Rl) << "\n";
    ctx.label(std::string("inertia:") + shapeName[body.shape]); ctx.nontrivial(hasOffDiag(Ic) && sp > 0);

    // ---- constructors / setters / accessors: the stored matrix is exactly the data given, in the documented order
    int form = g.pick(7); Inertia_<P> I;
    Vec<3, P> mom(IcP(0, 0), IcP(1, 1), IcP(2, 2)), prod(IcP(1, 0), IcP(2, 0), IcP(2, 1));    // xx,yy,zz ; xy,xz,yz
    switch (form) {
        case 0: I = Inertia_<P>(IcP); break;
        case 1: I = Inertia_<P>(Mat<3, 3, P>(IcP)); break;
        case 2: I = Inertia_<P>(mom, prod); break;
        case 3: I = Inertia_<P>(mom[0], mom[1], mom[2], prod[0], prod[1], prod[2]); break;
        case 4: I.setInertia(mom, prod); break;
        case 5: I.setInertia(mom[0], mom[1], mom[2], prod[0], prod[1], prod[2]); break;
        default: I = Inertia_<P>(mom); I.setInertia(mom[0], mom[1], mom[2]); I = Inertia_<P>(mom[0], mom[1], mom[2]); I.setInertia(mom, prod); break;
    }
    ctx.label("inertia:ctor" + std::to_string(form));
    if (!ctx.check(rr::maxAbsDiff(toM3(I), Ic) == 0 && I.getMoments() == mom && I.getProducts() == prod && rr::maxAbsDiff(toM3(I.toMat33()), Ic) == 0, "Inertia_ constructor/setter form " + std::to_string(form) + " does not store (xx,yy,zz,xy,xz,yz) as documented: " + rr::show(toM3(I)) + " vs " + rr::show(Ic))) return;
    if (!judge<P>(ctx, "R:trace", std::fabs((LD)I.trace() - rr::trace(Ic)), 4 * eps * sI)) return;
    { Inertia_<P> D1(mom[0]); M3 d = toM3(D1); if (!ctx.check(d[0][0] == (LD)mom[0] && d[1][1] == (LD)mom[0] && d[2][2] == (LD)mom[0] && !hasOffDiag(d), "Inertia_(moment) is not moment*identity")) return; }
    // ---- point mass and parallel-axis shifts
    M3 pm = pointMass(p, m);
    if (!judge<P>(ctx, "R:pointMassAt = m(|p|^2 1 - p p^T)", std::max(rr::maxAbsDiff(toM3(Inertia_<P>::pointMassAt(pP, mP)), pm), rr::maxAbsDiff(toM3(Inertia_<P>(pP, mP)), pm)), 4 * eps * m * sp + 1e-300L, "p=" + rr::show(p))) return;
    Inertia_<P> Io = I.shiftFromMassCenter(pP, mP), Io2 = I; Io2.shiftFromMassCenterInPlace(pP, mP); M3 Iorig = Ic + pm;
    if (!judge<P>(ctx, "R:shiftFromMassCenter adds m(|p|^2 1 - p p^T)", std::max(rr::maxAbsDiff(toM3(Io), Iorig), rr::maxAbsDiff(toM3(Io2), Iorig)), 8 * eps * sS, "got " + rr::show(toM3(Io)) + " want " + rr::show(Iorig))) return;
    Inertia_<P> Ib = Io.shiftToMassCenter(pP, mP), Ib2 = Io; Ib2.shiftToMassCenterInPlace(pP, mP);
    if (!judge<P>(ctx, "RT:shiftToMassCenter inverts shiftFromMassCenter", std::max(rr::maxAbsDiff(toM3(Ib), Ic), rr::maxAbsDiff(toM3(Ib2), Ic)), 16 * eps * sS)) return;
    if (!judge<P>(ctx, "R:shiftToMassCenter subtracts the point-mass term", rr::maxAbsDiff(toM3(Ib), toM3(Io) - pm), 8 * eps * sS)) return;
    // ---- re-expression  I_B = R^T I R   (R = R_FB), Rotation and InverseRotation, in place; principal moments preserved
    M3 IoL = toM3(Io), want = rr::tr(Rl) * IoL * Rl, wantInv = Rl * IoL * rr::tr(Rl);
    Inertia_<P> Ir = Io.reexpress(R), Ir2 = Io; Ir2.reexpressInPlace(R); Inertia_<P> Iri = Io.reexpress(~R), Iri2 = Io; Iri2.reexpressInPlace(~R);
    if (!judge<P>(ctx, "R:reexpress = R^T I R", std::max(rr::maxAbsDiff(toM3(Ir), want), rr::maxAbsDiff(toM3(Ir2), want)), 16 * eps * sS, "I=" + rr::show(IoL) + " R=" + rr::show(Rl))) return;
    if (!judge<P>(ctx, "R:reexpress(~R) = R I R^T", std::max(rr::maxAbsDiff(toM3(Iri), wantInv), rr::maxAbsDiff(toM3(Iri2), wantInv)), 16 * eps * sS)) return;
    LD e0[3], e1[3]; eig3(IoL, e0); eig3(toM3(Ir), e1);
    if (!judge<P>(ctx, "M:reexpress preserves principal moments", std::max(std::fabs(e0[0] - e1[0]), std::max(std::fabs(e0[1] - e1[1]), std::fabs(e0[2] - e1[2]))), 32 * eps * sS)) return;
    // ---- every inertia produced from physical data is accepted, positive semi-definite and satisfies the triangle inequality
    // (isValidInertiaMatrix allows a slop of max(trace,1)*Significant; a result that deviates from the exact value by
    //  rounding dev may be rejected when the body is degenerate and 4 dev exceeds that slop -- not demanded then)
    { const Inertia_<P>* Xs[5] = {&I, &Io, &Ir, &Iri, &Ib}; const M3* refs[5] = {&Ic, &Iorig, &want, &wantInv, &Ic}; const LD sig = std::pow(eps, 0.875L);
      for (int n = 0; n < 5; ++n) {
        M3 Xl = toM3(*Xs[n]); LD ev[3]; eig3(Xl, ev); LD tol = 64 * eps * sS * MARGIN, dev = rr::maxAbsDiff(Xl, *refs[n]), slop = std::max(rr::trace(Xl), (LD)1) * sig;
        bool negDiag = Xl[0][0] < 0 || Xl[1][1] < 0 || Xl[2][2] < 0;
        if (slop > 4 * dev && !negDiag) { if (!ctx.check(Inertia_<P>::isValidInertiaMatrix(Xs[n]->asSymMat33()), "isValidInertiaMatrix rejects a physically valid inertia (result " + std::to_string(n) + ", deviation from exact " + pbt::str((double)dev) + ", slop " + pbt::str((double)slop) + ") " + rr::show(Xl))) return; }
        else ctx.label("inertia:accept-not-demanded(rounding>slop)");
        if (!ctx.check(ev[0] >= -tol && ev[0] + ev[1] >= ev[2] - tol, "inertia computed from physical data is not PSD / violates the triangle inequality: principal moments " + pbt::str((double)ev[0]) + "," + pbt::str((double)ev[1]) + "," + pbt::str((double)ev[2]))) return;
        if (!ctx.check(Xs[n]->isFinite() && !Xs[n]->isNaN() && !Xs[n]->isInf(), "isFinite/isNaN/isInf wrong on a finite inertia")) return;
      } }
    // ---- arithmetic
    Body b2 = genBody(g); SymMat<3, P> J2P = toSym<P>((LD)g.logreal(1e-2, 1e2) * b2.Gc); Inertia_<P> J2(J2P); M3 J2l = toM3(J2P); LD s2 = sS + rr::maxAbs(J2l);
    P sP = (P)g.logreal(1e-2, 1e2); LD s = (LD)sP; int k = 2 + g.pick(5);
    Inertia_<P> A1 = Io + J2, A2 = Io; A2 += J2; Inertia_<P> S1 = A1 - J2, S2 = A1; S2 -= J2;
    if (!judge<P>(ctx, "M:I+J", std::max(rr::maxAbsDiff(toM3(A1), IoL + J2l), rr::maxAbsDiff(toM3(A2), IoL + J2l)), 2 * eps * s2)) return;
    if (!judge<P>(ctx, "M:(I+J)-J", std::max(rr::maxAbsDiff(toM3(S1), toM3(A1) - J2l), rr::maxAbsDiff(toM3(S2), toM3(A1) - J2l)), 2 * eps * s2)) return;
    Inertia_<P> M1 = Io * sP, M2 = sP * Io, M3_ = Io; M3_ *= sP; Inertia_<P> M4 = Io * k, M5 = k * Io, D1 = Io / sP, D2 = Io; D2 /= sP; Inertia_<P> D3 = Io / k;
    if (!judge<P>(ctx, "M:I*s", std::max(std::max(rr::maxAbsDiff(toM3(M1), s * IoL), rr::maxAbsDiff(toM3(M2), s * IoL)), rr::maxAbsDiff(toM3(M3_), s * IoL)), 2 * eps * s * sS)) return;
    if (!judge<P>(ctx, "M:I*int", std::max(rr::maxAbsDiff(toM3(M4), (LD)k * IoL), rr::maxAbsDiff(toM3(M5), (LD)k * IoL)), 2 * eps * k * sS)) return;
    if (!judge<P>(ctx, "M:I/s", std::max(std::max(rr::maxAbsDiff(toM3(D1), (1 / s) * IoL), rr::maxAbsDiff(toM3(D2), (1 / s) * IoL)), rr::maxAbsDiff(toM3(D3), (1 / (LD)k) * IoL)), 4 * eps * sS * std::max(1 / s, (LD)1))) return;
    Vec<3, P> wP = toVec<P>((LD)g.logreal(1e-2, 1e2) * genDir(g)); V3 w = toV3(wP);
    if (!judge<P>(ctx, "M:I*w", rr::maxAbs(toV3(Io * wP) - IoL * w), 8 * eps * sS * rr::norm(w))) return;
    if (!ctx.check((Io == Io2) && Io.isNumericallyEqual(Io2) && (rr::maxAbsDiff(IoL, toM3(A1)) == 0 || !(Io == A1)), "operator== / isNumericallyEqual inconsistent")) return;
    // ---- UnitInertia_: same operations at unit mass
    UnitInertia_<P> U;
    switch (g.pick(5)) { case 0: U = UnitInertia_<P>(GcP); break; case 1: U = UnitInertia_<P>(Mat<3, 3, P>(GcP)); break; case 2: U = UnitInertia_<P>(Inertia_<P>(GcP)); break;
        case 3: U.setUnitInertia(Vec<3, P>(GcP(0, 0), GcP(1, 1), GcP(2, 2)), Vec<3, P>(GcP(1, 0), GcP(2, 0), GcP(2, 1))); break;
        default: U = UnitInertia_<P>(GcP(0, 0), GcP(1, 1), GcP(2, 2), GcP(1, 0), GcP(2, 0), GcP(2, 1)); break; }
    if (!ctx.check(rr::maxAbsDiff(toM3(U), G) == 0 && rr::maxAbsDiff(toM3(U.asUnitInertia()), G) == 0, "UnitInertia_ constructor does not store the given matrix")) return;
    M3 pu = pointMass(p, 1); LD sU = sG + sp;
    if (!judge<P>(ctx, "R:UnitInertia::pointMassAt", rr::maxAbsDiff(toM3(UnitInertia_<P>::pointMassAt(pP)), pu), 4 * eps * sp + 1e-300L)) return;
    UnitInertia_<P> Uo = U.shiftFromCentroid(pP), Uo2 = U; Uo2.shiftFromCentroidInPlace(pP);
    if (!judge<P>(ctx, "R:shiftFromCentroid", std::max(rr::maxAbsDiff(toM3(Uo), G + pu), rr::maxAbsDiff(toM3(Uo2), G + pu)), 8 * eps * sU)) return;
    UnitInertia_<P> Ub = Uo.shiftToCentroid(pP), Ub2 = Uo; Ub2.shiftToCentroidInPlace(pP);
    if (!judge<P>(ctx, "RT:shiftToCentroid inverts shiftFromCentroid", std::max(rr::maxAbsDiff(toM3(Ub), G), rr::maxAbsDiff(toM3(Ub2), G)), 16 * eps * sU)) return;
    UnitInertia_<P> Ur = Uo.reexpress(R), Ur2 = Uo; Ur2.reexpressInPlace(R); UnitInertia_<P> Uri = Uo.reexpress(~R), Uri2 = Uo; Uri2.reexpressInPlace(~R);
    M3 UoL = toM3(Uo);
    if (!judge<P>(ctx, "R:UnitInertia::reexpress", std::max(std::max(rr::maxAbsDiff(toM3(Ur), rr::tr(Rl) * UoL * Rl), rr::maxAbsDiff(toM3(Ur2), rr::tr(Rl) * UoL * Rl)), std::max(rr::maxAbsDiff(toM3(Uri), Rl * UoL * rr::tr(Rl)), rr::maxAbsDiff(toM3(Uri2), Rl * UoL * rr::tr(Rl)))), 16 * eps * sU)) return;
    UnitInertia_<P> Us; Us.setFromUnitInertia(Io); if (!ctx.check(rr::maxAbsDiff(toM3(Us), IoL) == 0, "setFromUnitInertia changed the matrix")) return;
    if (!ctx.check(UnitInertia_<P>::isValidUnitInertiaMatrix(Uo.asSymMat33()), "isValidUnitInertiaMatrix rejects a valid unit inertia")) return;
    // ---- factories (textbook formulas for unit-mass solids, half-length arguments)
    P r = (P)g.logreal(1e-2, 1e2), hx = (P)g.logreal(1e-2, 1e2), hy = (P)g.logreal(1e-2, 1e2), hz = (P)g.logreal(1e-2, 1e2);
    if (g.chance(1, 4)) r = 0; if (g.chance(1, 4)) hx = 0; if (g.chance(1, 6)) hy = 0;
    LD rl = r, a = hx, b = hy, c = hz; LD sf = rl * rl + a * a + b * b + c * c + 1e-300L;
    auto diagErr = [&](const Inertia_<P>& X, LD xx, LD yy, LD zz) { M3 d; d[0][0] = xx; d[1][1] = yy; d[2][2] = zz; return rr::maxAbsDiff(toM3(X), d); };
    LD fe = 0;
    fe = std::max(fe, std::max(diagErr(UnitInertia_<P>::sphere(r), 0.4L * rl * rl, 0.4L * rl * rl, 0.4L * rl * rl), diagErr(Inertia_<P>::sphere(r), 0.4L * rl * rl, 0.4L * rl * rl, 0.4L * rl * rl)));
    LD t = rl * rl / 4 + a * a / 3, ax = rl * rl / 2;
    fe = std::max(fe, std::max(diagErr(UnitInertia_<P>::cylinderAlongZ(r, hx), t, t, ax), diagErr(Inertia_<P>::cylinderAlongZ(r, hx), t, t, ax)));
    fe = std::max(fe, std::max(diagErr(UnitInertia_<P>::cylinderAlongY(r, hx), t, ax, t), diagErr(Inertia_<P>::cylinderAlongY(r, hx), t, ax, t)));
    fe = std::max(fe, std::max(diagErr(UnitInertia_<P>::cylinderAlongX(r, hx), ax, t, t), diagErr(Inertia_<P>::cylinderAlongX(r, hx), ax, t, t)));
    fe = std::max(fe, std::max(diagErr(UnitInertia_<P>::brick(hx, hy, hz), (b * b + c * c) / 3, (a * a + c * c) / 3, (a * a + b * b) / 3), diagErr(Inertia_<P>::brick(Vec<3, P>(hx, hy, hz)), (b * b + c * c) / 3, (a * a + c * c) / 3, (a * a + b * b) / 3)));
    fe = std::max(fe, std::max(diagErr(UnitInertia_<P>::ellipsoid(Vec<3, P>(hx, hy, hz)), (b * b + c * c) / 5, (a * a + c * c) / 5, (a * a + b * b) / 5), diagErr(Inertia_<P>::ellipsoid(hx, hy, hz), (b * b + c * c) / 5, (a * a + c * c) / 5, (a * a + b * b) / 5)));
    if (!judge<P>(ctx, "R:solid factories (sphere/cylinder/brick/ellipsoid)", fe, 4 * eps * sf)) return;
    if (!ctx.check(rr::maxAbs(toM3(Inertia_<P>::pointMassAtOrigin())) == 0 && rr::maxAbs(toM3(UnitInertia_<P>::pointMassAtOrigin())) == 0, "pointMassAtOrigin is not the zero matrix")) return;
}

// ================================================================== kind 1: validity predicate
template <class P> void kindValidity(pbt::Reader& g, pbt::Ctx& ctx) {
    const LD eps = Prec<P>::eps, sig = std::pow(eps, 0.875L);
    Body body = genBody(g); LD sc = (LD)g.logreal(1e-3, 1e3);
    SymMat<3, P> S = toSym<P>(sc * body.Gc);
    for (int i = 0; i < 3; ++i) if (S(i, i) < 0) S(i, i) = 0;                     // rounding of an exactly degenerate body
    M3 Sl = toM3(S); LD trc = rr::trace(Sl), slop = std::max(trc, (LD)1) * sig;
    int cls = g.pick(8);
    static const char* cn[] = {"valid", "valid", "nan", "negative-diagonal", "triangle-violation", "product-too-large", "unphysical-passing-documented-tests", "axis-aligned-degenerate"};
    ctx.label(std::string("validity:") + cn[cls]); ctx.label(std::string("validity-shape:") + shapeName[body.shape]); ctx.nontrivial(true);
    auto show = [&](const SymMat<3, P>& X) { return rr::show(toM3(X)); };
    if (cls <= 1) {
        if (ctx.wantDesc) ctx.desc << "validity valid " << shapeName[body.shape] << " " << show(S) << "\n";
        // rounding of the rotated principal matrix may break an EXACT equality by a few ulps: well inside the documented slop
        ctx.check(Inertia_<P>::isValidInertiaMatrix(S) && UnitInertia_<P>::isValidUnitInertiaMatrix(S), "isValidInertiaMatrix rejects a physical inertia (" + std::string(shapeName[body.shape]) + "): " + show(S));
        return;
    }
    if (cls == 7) {   // principal-axis aligned degenerate bodies: rod (0,c,c), disc (a,a,2a) and permutations: exact equality must be accepted
        LD a = sc * (LD)(P)(0.25 + g.unit()); int k = g.pick(3); bool rod = g.boolean(); P d[3];
        for (int i = 0; i < 3; ++i) d[i] = rod ? (i == k ? (P)0 : (P)a) : (i == k ? (P)(2 * (LD)(P)a) : (P)a);
        SymMat<3, P> X(d[0], 0, d[1], 0, 0, d[2]);
        if (ctx.wantDesc) ctx.desc << "validity aligned " << (rod ? "rod " : "disc ") << show(X) << "\n";
        ctx.check(Inertia_<P>::isValidInertiaMatrix(X), "isValidInertiaMatrix rejects an exactly degenerate (" + std::string(rod ? "rod" : "disc") + ") inertia " + show(X));
        return;
    }
    SymMat<3, P> X = S; LD big = std::max(trc, (LD)1);
    if (cls == 2) { int k = g.pick(6); int ii[] = {0, 1, 1, 2, 2, 2}, jj[] = {0, 0, 1, 0, 1, 2}; X(ii[k], jj[k]) = NTraits<P>::getNaN(); }
    else if (cls == 3) { int k = g.pick(3); X(k, k) = (P)(-big * (LD)g.logreal(1e-5, 1e1)); }
    else if (cls == 4) { int k = g.pick(3); LD other = (LD)X((k + 1) % 3, (k + 1) % 3) + (LD)X((k + 2) % 3, (k + 2) % 3); X(k, k) = (P)(other + big * (LD)g.logreal(1e-4, 1e1)); }     // excess >> slop (1e-4 vs 2e-14 / 9e-7)
    else if (cls == 5) { int k = g.pick(3); int ii[] = {2, 2, 1}, jj[] = {1, 0, 0};   // product opposite to moment k: yz<->xx, xz<->yy, xy<->zz
        LD lim = (LD)X(k, k) / 2 + big * (LD)g.logreal(1e-4, 1e1); X(ii[k], jj[k]) = (P)(g.boolean() ? lim : -lim); }
    if (cls >= 2 && cls <= 5) {
        if (ctx.wantDesc) ctx.desc << "validity " << cn[cls] << " " << show(X) << "\n";
        ctx.check(!Inertia_<P>::isValidInertiaMatrix(X) && !UnitInertia_<P>::isValidUnitInertiaMatrix(X), std::string("isValidInertiaMatrix accepts an invalid inertia (") + cn[cls] + "): " + show(X));
        return;
    }
    // cls 6: matrices that pass the three documented tests (non-negative diagonal, diagonal triangle inequality, product bounds)
    // but are clearly not inertias: not positive semi-definite, or principal moments violating the triangle inequality.
    { P d[3]; for (int i = 0; i < 3; ++i) d[i] = (P)(sc * (body.abc[(i + 1) % 3] + body.abc[(i + 2) % 3]));
      LD f[3]; for (int i = 0; i < 3; ++i) f[i] = (g.boolean() ? 1 : -1) * (LD)(0.5 + 0.5 * g.unit()) * 0.999L;
      // products at up to 99.9% of their documented bounds: |2 xy| <= zz, |2 xz| <= yy, |2 yz| <= xx
      X = SymMat<3, P>(d[0], (P)(f[0] * (LD)d[2] / 2), d[1], (P)(f[1] * (LD)d[1] / 2), (P)(f[2] * (LD)d[0] / 2), d[2]); }
    M3 Xl = toM3(X); LD ev[3]; eig3(Xl, ev); LD t3 = rr::trace(Xl);
    bool unphysical = ev[0] < -1e-3L * t3 || ev[0] + ev[1] < ev[2] - 1e-3L * t3;
    if (ctx.wantDesc) ctx.desc << "validity passing-documented-tests " << show(X) << " principal moments " << pbt::str((double)ev[0]) << "," << pbt::str((double)ev[1]) << "," << pbt::str((double)ev[2]) << "\n";
    if (!unphysical) { ctx.label("validity:cls6-physical"); return; }
    ctx.label(ev[0] < -1e-3L * t3 ? "validity:cls6-not-psd" : "validity:cls6-principal-triangle");
    // known finding isvalid-accepts-unphysical: the predicate implements only the three necessary conditions it documents
    if (ctx.known("isvalid-accepts-unphysical")) { ctx.label("excluded:isvalid-accepts-unphysical"); return; }
    ctx.check(!Inertia_<P>::isValidInertiaMatrix(X), "isValidInertiaMatrix accepts a matrix that is not a physical inertia (principal moments " + pbt::str((double)ev[0]) + "," + pbt::str((double)ev[1]) + "," + pbt::str((double)ev[2]) + "): " + show(X));
}

// ================================================================== kind 2: SpatialInertia_ and MassProperties_
template <class P> void kindSpatial(pbt::Reader& g, pbt::Ctx& ctx) {
    const LD eps = Prec<P>::eps; typedef Vec<2, Vec<3, P>> SV;
    Body body = genBody(g); P mP = (P)g.logreal(1e-3, 1e3); LD m = mP;
    Vec<3, P> pP = toVec<P>(genVecOrZero(g, 1e-2, 1e2)), SP = toVec<P>(genVecOrZero(g, 1e-2, 1e2)); V3 p = toV3(pP), S = toV3(SP);
    Rotation_<P> R = trust<P>(genRotM(g)); M3 Rl = toM3(R.asMat33());
    // unit inertia about the body origin = central + point mass at p (physical by construction)
    SymMat<3, P> GoP = toSym<P>(body.Gc + pointMass(p, 1)); M3 Go = toM3(GoP); UnitInertia_<P> G(GoP);
    LD sG = rr::maxAbs(Go) + rr::dot(p, p) + rr::dot(S, S) + 1e-300L, sM = m * (sG + rr::norm(p) + rr::norm(S) + 1);
    if (ctx.wantDesc) ctx.desc << "spatial shape=" << shapeName[body.shape] << " m=" << pbt::str((double)m) << " com=" << rr::show(p) << " G_origin=" << rr::show(Go) << " shift=" << rr::show(S) << " R=" << rr::show(Rl) << "\n";
    ctx.label(std::string("spatial:") + shapeName[body.shape]); ctx.nontrivial(hasOffDiag(Go) && rr::dot(p, p) > 0);
    SpatialInertia_<P> M(mP, pP, G); MassProperties_<P> mp = g.boolean() ? MassProperties_<P>(mP, pP, G) : MassProperties_<P>(mP, pP, Inertia_<P>(mP * G));
    // ---- 6x6 matrix definitions
    M6 M6ref = spatialInertia6(m, p, m * Go);
    if (!judge<P>(ctx, "R:SpatialInertia::toSpatialMat = [mG m px; -m px m1]", diff6(toM6<P>(M.toSpatialMat()), M6ref), 4 * eps * sM)) return;
    if (!judge<P>(ctx, "R:MassProperties::toSpatialMat", diff6(toM6<P>(mp.toSpatialMat()), M6ref), 8 * eps * sM)) return;
    { Mat<6, 6, P> m66 = mp.toMat66(); M6 x; for (int i = 0; i < 6; ++i) for (int j = 0; j < 6; ++j) x.a[i][j] = (LD)m66(i, j); if (!judge<P>(ctx, "R:MassProperties::toMat66", diff6(x, M6ref), 8 * eps * sM)) return; }
    if (!judge<P>(ctx, "R:getters", std::max(std::max(std::fabs((LD)mp.getMass() - m), rr::maxAbs(toV3(mp.getMassCenter()) - p)), std::max(rr::maxAbsDiff(toM3(mp.getUnitInertia()), Go), rr::maxAbsDiff(toM3(mp.calcInertia()), m * Go) / m)), 8 * eps * sG)) return;
    if (!judge<P>(ctx, "R:SpatialInertia calcMassMoment/calcInertia", std::max(rr::maxAbs(toV3(M.calcMassMoment()) - m * p), rr::maxAbsDiff(toM3(M.calcInertia()), m * Go)), 4 * eps * sM)) return;
    // ---- M * V  and kinetic energy
    SV VP(toVec<P>((LD)g.logreal(1e-2, 1e2) * genDir(g)), toVec<P>((LD)g.logreal(1e-2, 1e2) * genDir(g))); V6 V = toV6<P>(VP); LD sV = rr::norm(V.w) + rr::norm(V.v);
    V6 MV = mul(M6ref, V);
    if (!judge<P>(ctx, "R:SpatialInertia*SpatialVec = 6x6 product", diffV6(toV6<P>(M * VP), MV), 16 * eps * sM * sV)) return;
    // ---- shift: origin OF -> OF+S.  central inertia unchanged, com' = p - S, inertia about new origin by parallel axes
    M3 Gcen = Go - pointMass(p, 1); V3 pS = p - S; M3 GoS = Gcen + pointMass(pS, 1);
    SpatialInertia_<P> Ms = M.shift(SP), Ms2 = M; Ms2.shiftInPlace(SP);
    LD tS = 16 * eps * sG;
    auto siErr = [&](const SpatialInertia_<P>& X, LD mm, V3 pp, const M3& GG) { return std::max(std::max(std::fabs((LD)X.getMass() - mm) / (mm + 1e-300L) * sG, rr::maxAbs(toV3(X.getMassCenter()) - pp) * (1 + rr::norm(pp))), rr::maxAbsDiff(toM3(X.getUnitInertia()), GG)); };
    if (!judge<P>(ctx, "R:SpatialInertia::shift (parallel axes through the mass centre)", std::max(siErr(Ms, m, pS, GoS), siErr(Ms2, m, pS, GoS)), tS, "got G=" + rr::show(toM3(Ms.getUnitInertia())) + " want " + rr::show(GoS))) return;
    // 6x6: M' = Phi(S)^T-type congruence:  M_{O+S} = T M T^T with T = [1 -Sx; 0 1]   (moment about the new origin: n' = n - S x f)
    { M6 T = phi6(-S); M6 want = mul(mul(T, M6ref), tr6(T)); if (!judge<P>(ctx, "R:shift as 6x6 congruence", diff6(toM6<P>(Ms.toSpatialMat()), want), 32 * eps * sM)) return; }
    // ---- reexpress: p' = R^T p, G' = R^T G R
    SpatialInertia_<P> Mr = M.reexpress(R), Mr2 = M; Mr2.reexpressInPlace(R); SpatialInertia_<P> Mri = M.reexpress(~R), Mri2 = M; Mri2.reexpressInPlace(~R);
    if (!judge<P>(ctx, "R:SpatialInertia::reexpress", std::max(std::max(siErr(Mr, m, rr::tr(Rl) * p, rr::tr(Rl) * Go * Rl), siErr(Mr2, m, rr::tr(Rl) * p, rr::tr(Rl) * Go * Rl)), std::max(siErr(Mri, m, Rl * p, Rl * Go * rr::tr(Rl)), siErr(Mri2, m, Rl * p, Rl * Go * rr::tr(Rl)))), tS)) return;
    // ---- transform = shift to X.p then reexpress by X.R; Transform_ and InverseTransform_
    Transform_<P> X(R, SP); V3 pT = rr::tr(Rl) * pS; M3 GT = rr::tr(Rl) * GoS * Rl;
    SpatialInertia_<P> Mt = M.transform(X), Mt2 = M; Mt2.transformInPlace(X);
    if (!judge<P>(ctx, "R:SpatialInertia::transform", std::max(siErr(Mt, m, pT, GT), siErr(Mt2, m, pT, GT)), 2 * tS)) return;
    { Transform_<P> Xi(~X); SpatialInertia_<P> Mb = Mt.transform(~X), Mb2 = Mt; Mb2.transformInPlace(~X);     // ~X as X_FB for frame "F seen from B": round trip
      if (!judge<P>(ctx, "RT:transform(~X) undoes transform(X)", std::max(siErr(Mb, m, p, Go), siErr(Mb2, m, p, Go)), 4 * tS)) return;
      SpatialInertia_<P> Mb3 = Mt.transform(Xi); if (!judge<P>(ctx, "M:transform(InverseTransform) = transform(Transform of it)", siErr(Mb3, (LD)Mb.getMass(), toV3(Mb.getMassCenter()), toM3(Mb.getUnitInertia())), 4 * tS)) return; }
    // ---- kinetic energy and momentum are invariant under consistent shift / re-expression
    { LD KE = 0.5L * dot6(V, MV);
      V6 Vs; Vs.w = V.w; Vs.v = V.v + rr::cross(V.w, S);                       // velocity of the point at the new origin
      V6 Vt; Vt.w = rr::tr(Rl) * Vs.w; Vt.v = rr::tr(Rl) * Vs.v;
      SV VsP(toVec<P>(Vs.w), toVec<P>(Vs.v)), VtP(toVec<P>(Vt.w), toVec<P>(Vt.v));
      LD KEs = 0.5L * dot6(toV6<P>(VsP), toV6<P>(Ms * VsP)), KEt = 0.5L * dot6(toV6<P>(VtP), toV6<P>(Mt * VtP));
      LD sKE = sM * (sV + rr::norm(S) * rr::norm(V.w)) * (sV + rr::norm(S) * rr::norm(V.w));
      if (!judge<P>(ctx, "M:kinetic energy invariant under shift", std::fabs(KEs - KE), 64 * eps * sKE, "KE=" + pbt::str((double)KE) + " shifted " + pbt::str((double)KEs))) return;
      if (!judge<P>(ctx, "M:kinetic energy invariant under transform", std::fabs(KEt - KE), 64 * eps * sKE)) return; }
    // ---- arithmetic: sum of two bodies = 6x6 sum; difference recovers; scaling scales the mass only
    { Body b2 = genBody(g); P m2P = (P)g.logreal(1e-3, 1e3); Vec<3, P> p2P = toVec<P>(genVecOrZero(g, 1e-2, 1e2)); V3 p2 = toV3(p2P); LD m2 = m2P;
      SymMat<3, P> G2P = toSym<P>(b2.Gc + pointMass(p2, 1)); M3 G2 = toM3(G2P); SpatialInertia_<P> N(m2P, p2P, UnitInertia_<P>(G2P));
      M6 N6 = spatialInertia6(m2, p2, m2 * G2); M6 sum; for (int i = 0; i < 6; ++i) for (int j = 0; j < 6; ++j) sum.a[i][j] = M6ref.a[i][j] + N6.a[i][j];
      SpatialInertia_<P> A = M + N, A2 = M; A2 += N; LD sA = sM + max6(N6);
      if (!judge<P>(ctx, "M:SpatialInertia sum = 6x6 sum", std::max(diff6(toM6<P>(A.toSpatialMat()), sum), diff6(toM6<P>(A2.toSpatialMat()), sum)), 32 * eps * sA)) return;
      SpatialInertia_<P> D = A - N, D2 = A; D2 -= N;
      // subtraction divides by the remaining mass: conditioning (m+m2)/m
      if (!judge<P>(ctx, "RT:(M+N)-N = M", std::max(diff6(toM6<P>(D.toSpatialMat()), M6ref), diff6(toM6<P>(D2.toSpatialMat()), M6ref)), 64 * eps * sA * (1 + m2 / m))) return;
      P sP = (P)g.logreal(1e-2, 1e2); SpatialInertia_<P> Sc = M; Sc *= sP; SpatialInertia_<P> Dv = M; Dv /= sP;
      if (!ctx.check(Sc.getMassCenter() == pP && Dv.getMassCenter() == pP && rr::maxAbsDiff(toM3(Sc.getUnitInertia()), Go) == 0, "scaling a SpatialInertia must change the mass only")) return;
      if (!judge<P>(ctx, "M:SpatialInertia *= s, /= s", std::max(std::fabs((LD)Sc.getMass() - m * (LD)sP) / (LD)sP, std::fabs((LD)Dv.getMass() - m / (LD)sP) * (LD)sP), 4 * eps * m)) return;
      SpatialInertia_<P> St = M; St.setMass(m2P).setMassCenter(p2P).setUnitInertia(UnitInertia_<P>(G2P));
      if (!ctx.check(St.getMass() == m2P && St.getMassCenter() == p2P && rr::maxAbsDiff(toM3(St.getUnitInertia()), G2) == 0, "SpatialInertia setters wrong")) return; }
    // ---- MassProperties: central / shifted / transformed inertia and mass properties; agreement with SpatialInertia
    LD tI = 16 * eps * m * sG;
    if (!judge<P>(ctx, "R:calcCentralInertia", rr::maxAbsDiff(toM3(mp.calcCentralInertia()), m * Gcen), tI)) return;
    if (!judge<P>(ctx, "R:calcShiftedInertia", rr::maxAbsDiff(toM3(mp.calcShiftedInertia(SP)), m * GoS), tI)) return;
    if (!judge<P>(ctx, "R:calcTransformedInertia", rr::maxAbsDiff(toM3(mp.calcTransformedInertia(X)), m * GT), 2 * tI)) return;
    auto mpErr = [&](const MassProperties_<P>& Y, V3 pp, const M3& GG) { return std::max(std::max(std::fabs((LD)Y.getMass() - m) / m * sG, rr::maxAbs(toV3(Y.getMassCenter()) - pp) * (1 + rr::norm(pp))), rr::maxAbsDiff(toM3(Y.getUnitInertia()), GG)); };
    MassProperties_<P> ms = mp.calcShiftedMassProps(SP), mt = mp.calcTransformedMassProps(X), mr = mp.reexpress(R);
    if (!judge<P>(ctx, "R:calcShiftedMassProps", mpErr(ms, pS, GoS), 2 * tS)) return;
    if (!judge<P>(ctx, "R:calcTransformedMassProps", mpErr(mt, pT, GT), 4 * tS)) return;
    if (!judge<P>(ctx, "R:MassProperties::reexpress", mpErr(mr, rr::tr(Rl) * p, rr::tr(Rl) * Go * Rl), 2 * tS)) return;
    if (!judge<P>(ctx, "M:MassProperties shift/transform agree with SpatialInertia", std::max(diff6(toM6<P>(ms.toSpatialMat()), toM6<P>(Ms.toSpatialMat())), diff6(toM6<P>(mt.toSpatialMat()), toM6<P>(Mt.toSpatialMat()))), 64 * eps * sM)) return;
    // ---- predicates
    bool central = rr::dot(p, p) == 0;
    if (!ctx.check(!mp.isExactlyMassless() && mp.isExactlyCentral() == central && mp.isFinite() && !mp.isNaN() && !mp.isInf() && mp.isNearlyMassless((P)(2 * m)) && !mp.isNearlyMassless((P)(m / 2)) && mp.isNearlyCentral((P)(2 * rr::norm(p) + 1e-30L)) && (central || !mp.isNearlyCentral((P)(rr::norm(p) / 2))), "MassProperties predicates (massless/central/finite) inconsistent")) return;
    MassProperties_<P> z(0, pP, Inertia_<P>(0)), dflt, nanmp(NTraits<P>::getNaN(), pP, G), infmp(NTraits<P>::getInfinity(), pP, G);
    if (!ctx.check(z.isExactlyMassless() && z.isNearlyMassless() && rr::maxAbs(toM3(z.getUnitInertia())) == 0 && dflt.isExactlyMassless() && dflt.isExactlyCentral() && nanmp.isNaN() && !nanmp.isFinite() && !nanmp.isInf() && infmp.isInf() && !infmp.isNaN() && !infmp.isFinite(), "MassProperties zero-mass / default / NaN / Inf handling wrong")) return;
}

// ================================================================== kind 3: ArticulatedInertia_
template <class P> void kindArticulated(pbt::Reader& g, pbt::Ctx& ctx) {
    const LD eps = Prec<P>::eps; typedef Vec<2, Vec<3, P>> SV;
    bool fromRigid = g.boolean(); LD sc = (LD)g.logreal(1e-2, 1e2);
    Vec<3, P> sP = toVec<P>(genVecOrZero(g, 1e-2, 1e2)); V3 s = toV3(sP);
    ArticulatedInertia_<P> A; M6 A6; SpatialInertia_<P> rbi;
    if (fromRigid) {
        Body body = genBody(g); P mP = (P)g.logreal(1e-3, 1e3); Vec<3, P> pP = toVec<P>(genVecOrZero(g, 1e-2, 1e2)); V3 p = toV3(pP);
        SymMat<3, P> GoP = toSym<P>(body.Gc + pointMass(p, 1)); rbi = SpatialInertia_<P>(mP, pP, UnitInertia_<P>(GoP));
        A = ArticulatedInertia_<P>(rbi); A6 = spatialInertia6((LD)mP, p, (LD)mP * toM3(GoP));
        if (!judge<P>(ctx, "R:ArticulatedInertia(rbi) = rigid body 6x6", diff6(toM6<P>(A.toSpatialMat()), A6), 8 * eps * (max6(A6) + 1e-300L))) return;
    } else {    // general symmetric ABI: J, M symmetric, F full
        auto rs = [&]() { M3 x; for (int i = 0; i < 3; ++i) for (int j = 0; j <= i; ++j) x[i][j] = x[j][i] = sc * (2 * (LD)g.unit() - 1); return x; };
        SymMat<3, P> MP = toSym<P>(rs()), JP = toSym<P>(rs()); Mat<3, 3, P> FP; for (int i = 0; i < 3; ++i) for (int j = 0; j < 3; ++j) FP(i, j) = (P)(sc * (2 * (LD)g.unit() - 1));
        A = g.boolean() ? ArticulatedInertia_<P>(MP, FP, JP) : ArticulatedInertia_<P>().setMass(MP).setMassMoment(FP).setInertia(JP);
        A6 = blocks(toM3(JP), toM3(FP), rr::tr(toM3(FP)), toM3(MP));
        if (!ctx.check(diff6(toM6<P>(A.toSpatialMat()), A6) == 0 && rr::maxAbsDiff(toM3(A.getMass()), toM3(MP)) == 0 && rr::maxAbsDiff(toM3(A.getInertia()), toM3(JP)) == 0 && rr::maxAbsDiff(toM3(A.getMassMoment()), toM3(FP)) == 0, "ArticulatedInertia constructor/setters/toSpatialMat do not hold [J F; ~F M]")) return;
    }
    LD sA = max6(A6) + 1e-300L, sn = rr::norm(s), sS = sA * (1 + sn) * (1 + sn);
    if (ctx.wantDesc) ctx.desc << "articulated " << (fromRigid ? "from rigid body" : "general") << " shift=" << rr::show(s) << " |P|=" << pbt::str((double)sA) << "\n";
    ctx.label(fromRigid ? "abi:rigid" : "abi:general"); ctx.nontrivial(sn > 0);
    // documented: P' = [1 sx; 0 1] P [1 0; -sx 1]  = Phi(s) P Phi(s)^T   (a rigid shift of the origin by -s)
    M6 Ph = phi6(s), want = mul(mul(Ph, A6), tr6(Ph));
    ArticulatedInertia_<P> B = A.shift(sP), B2 = A; B2.shiftInPlace(sP);
    if (!judge<P>(ctx, "R:ArticulatedInertia::shift = Phi P Phi^T", std::max(diff6(toM6<P>(B.toSpatialMat()), want), diff6(toM6<P>(B2.toSpatialMat()), want)), 32 * eps * sS, "s=" + rr::show(s))) return;
    if (fromRigid) {   // same physical operation as SpatialInertia::shift(-s)
        ArticulatedInertia_<P> C(rbi.shift(-sP));
        if (!judge<P>(ctx, "M:ABI shift(s) = rigid-body shift(-s)", diff6(toM6<P>(B.toSpatialMat()), toM6<P>(C.toSpatialMat())), 64 * eps * sS)) return;
    }
    ArticulatedInertia_<P> Bb = B.shift(-sP);
    if (!judge<P>(ctx, "RT:shift(-s) undoes shift(s)", diff6(toM6<P>(Bb.toSpatialMat()), A6), 64 * eps * sS * (1 + sn) * (1 + sn))) return;
    SV VP(toVec<P>((LD)g.logreal(1e-2, 1e2) * genDir(g)), toVec<P>((LD)g.logreal(1e-2, 1e2) * genDir(g))); V6 V = toV6<P>(VP); LD sV = rr::norm(V.w) + rr::norm(V.v);
    if (!judge<P>(ctx, "R:ArticulatedInertia*SpatialVec", diffV6(toV6<P>(A * VP), mul(A6, V)), 16 * eps * sA * sV)) return;
    { Mat<2, 2, Vec<3, P>> cols; cols.col(0) = VP; cols.col(1) = SV(VP[1], VP[0]); Mat<2, 2, Vec<3, P>> res = A * cols; V6 V2; V2.w = V.v; V2.v = V.w;
      if (!judge<P>(ctx, "R:ArticulatedInertia*Mat<2,N,Vec3>", std::max(diffV6(toV6<P>(SV(res.col(0))), mul(A6, V)), diffV6(toV6<P>(SV(res.col(1))), mul(A6, V2))), 16 * eps * sA * sV)) return; }
    ArticulatedInertia_<P> Sum = A + B, Sum2 = A; Sum2 += B; ArticulatedInertia_<P> Dif = Sum - B, Dif2 = Sum; Dif2 -= B;
    M6 B6 = toM6<P>(B.toSpatialMat()), sum; for (int i = 0; i < 6; ++i) for (int j = 0; j < 6; ++j) sum.a[i][j] = A6.a[i][j] + B6.a[i][j];
    if (!judge<P>(ctx, "M:ABI sum/difference", std::max(std::max(diff6(toM6<P>(Sum.toSpatialMat()), sum), diff6(toM6<P>(Sum2.toSpatialMat()), sum)), std::max(diff6(toM6<P>(Dif.toSpatialMat()), A6), diff6(toM6<P>(Dif2.toSpatialMat()), A6))), 8 * eps * sS)) return;
}

// ================================================================== kind 4: SpatialAlgebra.h (double only)
template <int N, class F> void fdFirst(F f, LD h, LD out[N]) {      // 6th order first derivative at 0
    LD a[N], b[N], v1[N], v2[N], v3[N], v4[N];
    auto five = [&](LD hh, LD* o) { f(hh, v1); f(-hh, v2); f(2 * hh, v3); f(-2 * hh, v4); for (int i = 0; i < N; ++i) o[i] = (8 * (v1[i] - v2[i]) - (v3[i] - v4[i])) / (12 * hh); };
    five(h, a); five(h / 2, b); for (int i = 0; i < N; ++i) out[i] = (16 * b[i] - a[i]) / 15;
}
template <int N, class F> void fdSecond(F f, LD h, LD out[N]) {     // 6th order second derivative at 0
    LD a[N], b[N], v0[N], v1[N], v2[N], v3[N], v4[N]; f(0, v0);
    auto five = [&](LD hh, LD* o) { f(hh, v1); f(-hh, v2); f(2 * hh, v3); f(-2 * hh, v4); for (int i = 0; i < N; ++i) o[i] = (-(v3[i] + v4[i]) + 16 * (v1[i] + v2[i]) - 30 * v0[i]) / (12 * hh * hh); };
    five(h, a); five(h / 2, b); for (int i = 0; i < N; ++i) out[i] = (16 * b[i] - a[i]) / 15;
}
V3 magnusP(V3 w, V3 b, LD t) { return t * w + (t * t / 2) * b - (t * t * t / 12) * rr::cross(w, b); }   // parent-frame angular velocity w + b t

void kindSpatialAlgebra(pbt::Reader& g, pbt::Ctx& ctx) {
    typedef double P; const LD eps = Prec<P>::eps;
    auto gv = [&](double lo, double hi) { Vec3 v = toVec<P>(genVecOrZero(g, lo, hi)); return v; };
    SpatialVec V(gv(1e-2, 1e1), gv(1e-2, 1e2)), A(gv(1e-2, 1e2), gv(1e-2, 1e2)), F(gv(1e-2, 1e2), gv(1e-2, 1e2)); Vec3 r = gv(1e-2, 1e2), fromP = gv(1e-2, 1e2);
    V6 Vl = toV6<P>(V), Al = toV6<P>(A), Fl = toV6<P>(F); V3 rl = toV3(r), fl = toV3(fromP);
    LD sw = rr::norm(Vl.w), sv = rr::norm(Vl.v), sr = rr::norm(rl), sb = rr::norm(Al.w), sa = rr::norm(Al.v);
    if (ctx.wantDesc) ctx.desc << "spatial-algebra V=(" << rr::show(Vl.w) << "," << rr::show(Vl.v) << ") A=(" << rr::show(Al.w) << "," << rr::show(Al.v) << ") F=(" << rr::show(Fl.w) << "," << rr::show(Fl.v) << ") r=" << rr::show(rl) << "\n";
    ctx.label("spatial-algebra"); ctx.nontrivial(sw > 0 && sr > 0);
    // ---- shifts: definitions
    V6 Vq; Vq.w = Vl.w; Vq.v = Vl.v + rr::cross(Vl.w, rl);
    V6 Fq; Fq.w = Fl.w - rr::cross(rl, Fl.v); Fq.v = Fl.v;
    V6 Aq; Aq.w = Al.w; Aq.v = Al.v + rr::cross(Al.w, rl) + rr::cross(Vl.w, rr::cross(Vl.w, rl));
    SpatialVec Vs = shiftVelocityBy(V, r), Fs = shiftForceBy(F, r), As = shiftAccelerationBy(A, V[0], r);
    if (!judge<P>(ctx, "R:shiftVelocityBy  v' = v + w x r", diffV6(toV6<P>(Vs), Vq), 8 * eps * (sv + sw * sr + 1e-300L))) return;
    if (!judge<P>(ctx, "R:shiftForceBy  m' = m - r x f", diffV6(toV6<P>(Fs), Fq), 8 * eps * (rr::norm(Fl.w) + sr * rr::norm(Fl.v) + 1e-300L))) return;
    if (!judge<P>(ctx, "R:shiftAccelerationBy  a' = a + b x r + w x (w x r)", diffV6(toV6<P>(As), Aq), 8 * eps * (sa + sb * sr + sw * sw * sr + 1e-300L))) return;
    // FromTo = By(to - from)
    Vec3 toQ = fromP + r; V3 rr2 = toV3(toQ) - fl;    // the offset the library actually sees (rounded)
    { V6 v2; v2.w = Vl.w; v2.v = Vl.v + rr::cross(Vl.w, rr2); V6 f2; f2.w = Fl.w - rr::cross(rr2, Fl.v); f2.v = Fl.v; V6 a2; a2.w = Al.w; a2.v = Al.v + rr::cross(Al.w, rr2) + rr::cross(Vl.w, rr::cross(Vl.w, rr2)); LD s2 = rr::norm(rr2) + eps * (rr::norm(fl) + rr::norm(toV3(toQ)));
      if (!judge<P>(ctx, "R:shift*FromTo", std::max(std::max(diffV6(toV6<P>(shiftVelocityFromTo(V, fromP, toQ)), v2) / (sv + sw * s2 + 1e-300L), diffV6(toV6<P>(shiftForceFromTo(F, fromP, toQ)), f2) / (rr::norm(Fl.w) + s2 * rr::norm(Fl.v) + 1e-300L)), diffV6(toV6<P>(shiftAccelerationFromTo(A, V[0], fromP, toQ)), a2) / (sa + sb * s2 + sw * sw * s2 + 1e-300L)), 16 * eps * (1 + (rr::norm(fl) + rr::norm(toV3(toQ))) / (rr::norm(rr2) + 1e-300L)))) return; }
    // ---- power invariance: F.V is the same wherever force and velocity are taken, provided both are shifted consistently
    { LD Pw = dot6(Fl, Vl), Pq = dot6(toV6<P>(Fs), toV6<P>(Vs)); LD sP = (rr::norm(Fl.w) + sr * rr::norm(Fl.v)) * sw + rr::norm(Fl.v) * (sv + sw * sr);
      if (!judge<P>(ctx, "M:power F.V invariant under consistent shift", std::fabs(Pw - Pq), 32 * eps * (sP + 1e-300L), "P=" + pbt::str((double)Pw) + " shifted " + pbt::str((double)Pq))) return; }
    // ---- shiftAccelerationBy = d/dt shiftVelocityBy along a motion with w(t) = w + b t, v(t) = v + a t, r fixed in the body
    { LD h = 1e-2L / (1 + sw + std::sqrt(sb)); LD d[3];
      fdFirst<3>([&](LD t, LD* o) { V3 wt = Vl.w + t * Al.w, vt = Vl.v + t * Al.v, rt = rr::expMap(magnusP(Vl.w, Al.w, t)) * rl; V3 x = vt + rr::cross(wt, rt); for (int i = 0; i < 3; ++i) o[i] = x[i]; }, h, d);
      if (!judge<P>(ctx, "FD:shiftAccelerationBy = d/dt shifted velocity", rr::maxAbs(toV3(As[1]) - V3(d[0], d[1], d[2])), (16 * eps + 2.5e-11L) * (sa + sb * sr + sw * sw * sr + 1e-2L * (1 + sr)))) return; }
    // ---- relative motion of frames A and B known in F
    Transform X_FA(trust<P>(genRotM(g)), gv(1e-2, 1e2)), X_FB(trust<P>(genRotM(g)), gv(1e-2, 1e2));
    SpatialVec V_FA = V, A_FA = A, V_FB(gv(1e-2, 1e1), gv(1e-2, 1e2)), A_FB(gv(1e-2, 1e2), gv(1e-2, 1e2));
    M3 RA = toM3(X_FA.R().asMat33()), RB = toM3(X_FB.R().asMat33()); V3 pA = toV3(X_FA.p()), pB = toV3(X_FB.p());
    V6 vA = toV6<P>(V_FA), aA = toV6<P>(A_FA), vB = toV6<P>(V_FB), aB = toV6<P>(A_FB);
    // pose of B in A as a function of time; derivatives by finite differences (taken in A, expressed in A)
    auto RAt = [&](LD t) { return rr::expMap(magnusP(vA.w, aA.w, t)) * RA; }; auto RBt = [&](LD t) { return rr::expMap(magnusP(vB.w, aB.w, t)) * RB; };
    auto pRel = [&](LD t, LD* o) { V3 d = (pB + t * vB.v + (t * t / 2) * aB.v) - (pA + t * vA.v + (t * t / 2) * aA.v); V3 x = rr::tr(RAt(t)) * d; for (int i = 0; i < 3; ++i) o[i] = x[i]; };
    M3 RAB0 = rr::tr(RA) * RB;
    auto thRel = [&](LD t, LD* o) { V3 x = rr::smallRotVec((rr::tr(RAt(t)) * RBt(t)) * rr::tr(RAB0)); for (int i = 0; i < 3; ++i) o[i] = x[i]; };   // rotation vector of R_AB(t) R_AB(0)^T, in A
    LD wmax = rr::norm(vA.w) + rr::norm(vB.w), bmax = rr::norm(aA.w) + rr::norm(aB.w), h = 1e-2L / (1 + wmax + std::sqrt(bmax));
    LD v1[3], w1[3], a2[3], b2[3]; fdFirst<3>(pRel, h, v1); fdFirst<3>(thRel, h, w1); fdSecond<3>(pRel, h, a2); fdSecond<3>(thRel, h, b2);
    V3 dAB = pB - pA; LD sd = rr::norm(dAB), sVrel = rr::norm(vA.v) + rr::norm(vB.v) + rr::norm(vA.w) * sd, sWrel = wmax;
    const LD fl0 = 1e-2L * (1 + sd); sVrel += fl0; sWrel += fl0;
    LD sArel = fl0 + rr::norm(aA.v) + rr::norm(aB.v) + rr::norm(aA.w) * sd + rr::norm(vA.w) * (sVrel + rr::norm(vA.w) * sd), sBrel = fl0 + bmax + rr::norm(vA.w) * wmax;
    const LD fdRel = 1e-10L;   // finite-difference accuracy demanded (x MARGIN); observed 1.5e-11
    SpatialVec V_AB = findRelativeVelocity(X_FA, V_FA, X_FB, V_FB);
    if (!judge<P>(ctx, "FD:findRelativeVelocity angular", rr::maxAbs(toV3(V_AB[0]) - V3(w1[0], w1[1], w1[2])), (16 * eps + fdRel) * (sWrel + 1e-300L))) return;
    if (!judge<P>(ctx, "FD:findRelativeVelocity linear", rr::maxAbs(toV3(V_AB[1]) - V3(v1[0], v1[1], v1[2])), (16 * eps + fdRel) * (sVrel + 1e-300L), "lib=" + rr::show(toV3(V_AB[1])) + " fd=" + rr::show(V3(v1[0], v1[1], v1[2])))) return;
    SpatialVec V_AB_F = findRelativeVelocityInF(X_FB.p() - X_FA.p(), V_FA, V_FB);
    { V3 dl = toV3(Vec3(X_FB.p() - X_FA.p())); (void)dl;
      if (!judge<P>(ctx, "M:findRelativeVelocityInF = R_FA * findRelativeVelocity", std::max(rr::maxAbs(toV3(V_AB_F[0]) - RA * toV3(V_AB[0])) / (sWrel + 1e-300L), rr::maxAbs(toV3(V_AB_F[1]) - RA * toV3(V_AB[1])) / (sVrel + 1e-300L)), 16 * eps)) return; }
    SpatialVec A_AB = findRelativeAcceleration(X_FA, V_FA, A_FA, X_FB, V_FB, A_FB), A_AB_F = findRelativeAccelerationInF(X_FB.p() - X_FA.p(), V_FA, A_FA, V_FB, A_FB);
    if (!judge<P>(ctx, "FD:findRelativeAcceleration angular", rr::maxAbs(toV3(A_AB[0]) - V3(b2[0], b2[1], b2[2])), (16 * eps + fdRel) * (sBrel + 1e-300L), "lib=" + rr::show(toV3(A_AB[0])) + " fd=" + rr::show(V3(b2[0], b2[1], b2[2])))) return;
    if (!judge<P>(ctx, "FD:findRelativeAcceleration linear", rr::maxAbs(toV3(A_AB[1]) - V3(a2[0], a2[1], a2[2])), (16 * eps + fdRel) * (sArel + 1e-300L), "lib=" + rr::show(toV3(A_AB[1])) + " fd=" + rr::show(V3(a2[0], a2[1], a2[2])))) return;
    if (!judge<P>(ctx, "M:findRelativeAccelerationInF = R_FA * findRelativeAcceleration", std::max(rr::maxAbs(toV3(A_AB_F[0]) - RA * toV3(A_AB[0])) / (sBrel + 1e-300L), rr::maxAbs(toV3(A_AB_F[1]) - RA * toV3(A_AB[1])) / (sArel + 1e-300L)), 16 * eps)) return;
    // ---- reversing: V_BA from (X_AB, V_AB) equals the relative velocity computed with the roles of A and B exchanged
    { Transform X_AB = ~X_FA * X_FB; SpatialVec V_BA = reverseRelativeVelocity(X_AB, V_AB), V_BA_A = reverseRelativeVelocityInA(X_AB, V_AB), want = findRelativeVelocity(X_FB, V_FB, X_FA, V_FA);
      // independent reference for `want`: finite differences of the pose of A in B
      auto pRelB = [&](LD t, LD* o) { V3 d = (pA + t * vA.v + (t * t / 2) * aA.v) - (pB + t * vB.v + (t * t / 2) * aB.v); V3 x = rr::tr(RBt(t)) * d; for (int i = 0; i < 3; ++i) o[i] = x[i]; };
      auto thRelB = [&](LD t, LD* o) { V3 x = rr::smallRotVec((rr::tr(RBt(t)) * RAt(t)) * rr::tr(rr::tr(RB) * RA)); for (int i = 0; i < 3; ++i) o[i] = x[i]; };
      LD vb[3], wb[3]; fdFirst<3>(pRelB, h, vb); fdFirst<3>(thRelB, h, wb);
      LD sVb = fl0 + rr::norm(vA.v) + rr::norm(vB.v) + (rr::norm(vB.w) + rr::norm(vA.w)) * sd;
      if (!judge<P>(ctx, "FD:reverseRelativeVelocity", std::max(rr::maxAbs(toV3(V_BA[0]) - V3(wb[0], wb[1], wb[2])) / (sWrel + 1e-300L), rr::maxAbs(toV3(V_BA[1]) - V3(vb[0], vb[1], vb[2])) / (sVb + 1e-300L)), 64 * eps + fdRel, "lib=" + rr::show(toV3(V_BA[1])) + " fd=" + rr::show(V3(vb[0], vb[1], vb[2])))) return;
      M3 RAB = toM3(X_AB.R().asMat33());
      if (!judge<P>(ctx, "M:reverseRelativeVelocityInA = R_AB * reverseRelativeVelocity", std::max(rr::maxAbs(toV3(V_BA_A[0]) - RAB * toV3(V_BA[0])) / (sWrel + 1e-300L), rr::maxAbs(toV3(V_BA_A[1]) - RAB * toV3(V_BA[1])) / (sVb + 1e-300L)), 16 * eps)) return;
      (void)want; }
    // ---- PhiMatrix operators = 6x6 products
    { PhiMatrix phi(r); M6 P6 = phi6(rl);
      if (!judge<P>(ctx, "R:PhiMatrix::toSpatialMat", std::max(diff6(toM6<P>(phi.toSpatialMat()), P6), diff6(toM6<P>((~phi).toSpatialMat()), tr6(P6))), 0 + 1e-300L)) return;
      if (!judge<P>(ctx, "R:Phi*v, ~Phi*v", std::max(diffV6(toV6<P>(phi * F), mul(P6, Fl)) / (rr::norm(Fl.w) + sr * rr::norm(Fl.v) + 1e-300L), diffV6(toV6<P>(~phi * V), mul(tr6(P6), Vl)) / (sv + sw * sr + 1e-300L)), 8 * eps)) return;
      SpatialMat Mm; M6 Ml; for (int i = 0; i < 2; ++i) for (int j = 0; j < 2; ++j) { Mat33 blk; for (int a = 0; a < 3; ++a) for (int b = 0; b < 3; ++b) blk(a, b) = 2 * g.unit() - 1; Mm(i, j) = blk; } Ml = toM6<P>(Mm);
      LD sm = (1 + sr);
      if (!judge<P>(ctx, "R:Phi*M, M*Phi, ~Phi*M, M*~Phi", std::max(std::max(diff6(toM6<P>(phi * Mm), mul(P6, Ml)), diff6(toM6<P>(Mm * phi), mul(Ml, P6))), std::max(diff6(toM6<P>(~phi * Mm), mul(tr6(P6), Ml)), diff6(toM6<P>(Mm * ~phi), mul(Ml, tr6(P6))))), 16 * eps * sm)) return; }
}

void property(const pbt::Tape& t, pbt::Ctx& ctx) {
    pbt::Reader g0(t[0]); bool isFloat = g0.boolean(); ctx.label(isFloat ? "float" : "double");
    for (size_t k = 1; k < t.size() && !ctx.failed; ++k) {
        pbt::Reader g(t[k]); static const int table[] = {0, 0, 1, 1, 2, 2, 3, 4}; int kind = table[g.pick(8)];
        if (kind == 4) { kindSpatialAlgebra(g, ctx); continue; }
        if (isFloat) { if (kind == 0) kindInertia<float>(g, ctx); else if (kind == 1) kindValidity<float>(g, ctx); else if (kind == 2) kindSpatial<float>(g, ctx); else kindArticulated<float>(g, ctx); }
        else         { if (kind == 0) kindInertia<double>(g, ctx); else if (kind == 1) kindValidity<double>(g, ctx); else if (kind == 2) kindSpatial<double>(g, ctx); else kindArticulated<double>(g, ctx); }
    }
}

pbt::Config config() {
    pbt::Config c; c.prop = "C29"; c.K = 96; c.minUnits = 1;
    c.quick = {8000, 200000, 8, 8}; c.thorough = {60000, 2000000, 12, 60};
    c.rule = "tape -> precision + units {Inertia/UnitInertia (2/8), validity predicate (2/8), SpatialInertia+MassProperties (2/8), ArticulatedInertia, SpatialAlgebra (double)}; bodies from second moments a,b,c >= 0 (principal moments b+c,a+c,a+b: generic / disc (equality) / rod / point / nearly degenerate 1e-3..1e-16 / isotropic) rotated by identity / coordinate-axis / uniform rotation, mass 1e-3..1e3, offsets and shifts 0 or 1e-2..1e2; invalid matrices: NaN, negative diagonal, diagonal triangle violation, product too large (all far outside the slop), and matrices passing the documented tests that are not PSD. Non-trivial: off-diagonal inertia terms and non-zero mass-centre offset / shift / angular velocity.";
    c.assumptions = {"long double 3x3/6x6 algebra of gen/rotref.h", "rejection of invalid inertias is demanded of isValidInertiaMatrix() only (constructors check only in Debug builds: errChk is compiled out under NDEBUG)", "finite differences (6th order, h ~ 1e-2/(1+|w|+sqrt|b|)) accurate to 1e-10 relative"};
    c.requiredLabels = {"float", "double", "inertia:rod", "inertia:disc", "inertia:point", "inertia:near-degenerate", "validity:valid", "validity:nan", "validity:negative-diagonal", "validity:triangle-violation", "validity:product-too-large", "validity:cls6-not-psd", "validity:axis-aligned-degenerate", "spatial:generic", "abi:general", "abi:rigid", "spatial-algebra"};
    c.directed.push_back({"isvalid-accepts-non-psd", "isvalid-accepts-unphysical", [](pbt::Ctx& ctx) {
        // diag (1,1,0) satisfies the diagonal triangle inequality, xz = yz = 0.5 satisfy the product bounds, but det = -0.5
        SymMat33 X(1, 0, 1, 0.5, 0.5, 0); bool ok = Inertia::isValidInertiaMatrix(X);
        ctx.desc << "isValidInertiaMatrix([1 0 .5; 0 1 .5; .5 .5 0]) = " << ok << " (eigenvalues -0.366, 1, 1.366)\n";
        ctx.check(!ok, "isValidInertiaMatrix accepts [1 0 .5; 0 1 .5; .5 .5 0], which has a negative principal moment (-0.366)");
    }});
    return c;
}
} // namespace
PBT_MAIN(config(), property)
