// C40 -- Numerical differentiation meets its error bounds (DESIGN.md section 5, C40).
// Domain: functions with known derivatives and known bounds on the next derivatives: affine, quadratic (with cross
// terms), cubic polynomials, plus optional exp(b.x) and sin(w.x+phi) terms, 1..20 variables, 1..10 outputs;
// evaluation points with components 0, tiny (1e-8..1e-4), moderate and large (up to 1e6); stated accuracy
// (ScalarFunction/GradientFunction/JacobianFunction constructor or setEstimatedAccuracy) 1e-15..1e-4 or the
// default, with or without matching injected deterministic relative noise; forward and central differences
// (explicit argument, default method, setDefaultMethod); all six calcDerivative/calcGradient/calcJacobian overloads.
// Oracle: |estimate - exact| <= truncation + rounding bound derived for the step size DOCUMENTED in
// Differentiator.h (h0 = acc^(1/2) resp. acc^(1/3); h1 = h0*max(|y|,0.1); h = (y+h1)-y):
//   forward: h/2 sup|f''| + [(a+eps)(|f(y+h)|+|f(y)|)+2e]/h + G eps (|y|+h)/h + 3 eps |D|
//   central: h^2/6 sup|f'''| + [(a+eps)(|f(y+h)|+|f(y-h)|)+2e]/(2h) + G eps (|y|+h)/h + 3 eps |D|
// (a = injected relative noise, e = absolute evaluation error of the reference, G = sup|f'|), which contains the
// "exact up to rounding" clause for affine functions (both methods) and quadratics (central) as the special case
// sup|f''| = 0 resp. sup|f'''| = 0. Exact derivatives and sup bounds are evaluated in long double.
#include "pbt.h"
#include "SimTKmath.h"
using namespace SimTK;
typedef long double LD;

namespace {
const double EPS = 2.220446049250313e-16;
const bool CALIB = getenv("C40_CALIB") != nullptr;

struct Model {
    int n = 1, m = 1;            // parameters, outputs
    int degree = 1;              // polynomial part: 1 affine, 2 quadratic, 3 cubic
    bool hasExp = false, hasSin = false;
    // coefficients [k][i]
    std::vector<std::vector<double> > c, q, r, a, be, om;    // linear, 1/2 q x_i^2, r x_i x_{i+1}, a x_i^3, exp exponent, sin frequency
    std::vector<double> d, al, ga, ph;                       // constant, exp amplitude, sin amplitude, phase (per output)
    double noise = 0;            // injected relative noise amplitude
    mutable long calls = 0;

    // value of output k and a bound S on the sum of |terms| (for the absolute evaluation error of the reference)
    LD value(int k, const std::vector<LD>& x, LD* S = nullptr) const {
        LD v = d[k], s = std::abs((LD)d[k]);
        for (int i = 0; i < n; ++i) {
            LD t = (LD)c[k][i] * x[i]; v += t; s += std::abs(t);
            if (degree >= 2) { t = 0.5L * q[k][i] * x[i] * x[i]; v += t; s += std::abs(t); if (i + 1 < n) { t = (LD)r[k][i] * x[i] * x[i + 1]; v += t; s += std::abs(t); } }
            if (degree >= 3) { t = (LD)a[k][i] * x[i] * x[i] * x[i]; v += t; s += std::abs(t); }
        }
        if (hasExp) { LD e = 0; for (int i = 0; i < n; ++i) e += (LD)be[k][i] * x[i]; LD t = (LD)al[k] * std::exp(e); v += t; s += std::abs(t) * (2 + std::abs(e)); }
        if (hasSin) { LD e = ph[k], se = std::abs((LD)ph[k]); for (int i = 0; i < n; ++i) { e += (LD)om[k][i] * x[i]; se += std::abs((LD)om[k][i] * x[i]); } LD t = (LD)ga[k] * std::sin(e); v += t; s += std::abs((LD)ga[k]) * (1 + se); }
        if (S) *S = s;
        return v;
    }
    // j-th partial derivative (j = 1,2,3) of output k with respect to x_i
    LD deriv(int j, int k, int i, const std::vector<LD>& x) const {
        LD v = 0;
        if (j == 1) { v += c[k][i]; if (degree >= 2) { v += (LD)q[k][i] * x[i]; if (i + 1 < n) v += (LD)r[k][i] * x[i + 1]; if (i > 0) v += (LD)r[k][i - 1] * x[i - 1]; } if (degree >= 3) v += 3 * (LD)a[k][i] * x[i] * x[i]; }
        if (j == 2) { if (degree >= 2) v += q[k][i]; if (degree >= 3) v += 6 * (LD)a[k][i] * x[i]; }
        if (j == 3) { if (degree >= 3) v += 6 * (LD)a[k][i]; }
        if (hasExp) { LD e = 0; for (int p = 0; p < n; ++p) e += (LD)be[k][p] * x[p]; v += (LD)al[k] * std::pow((LD)be[k][i], (LD)j) * std::exp(e); }
        if (hasSin) { LD e = ph[k]; for (int p = 0; p < n; ++p) e += (LD)om[k][p] * x[p]; v += (LD)ga[k] * std::pow((LD)om[k][i], (LD)j) * std::sin(e + j * 1.57079632679489661923132169163975144L); }
        return v;
    }
    // sup over x_i in [lo,hi] (other components fixed) of |j-th partial derivative|, j = 1,2,3
    LD supDeriv(int j, int k, int i, std::vector<LD> x, LD lo, LD hi) const {
        LD X = std::max(std::abs(lo), std::abs(hi)), b = 0;
        if (j == 1) { b += std::abs((LD)c[k][i]); if (degree >= 2) { b += std::abs((LD)q[k][i]) * X; if (i + 1 < n) b += std::abs((LD)r[k][i] * x[i + 1]); if (i > 0) b += std::abs((LD)r[k][i - 1] * x[i - 1]); } if (degree >= 3) b += 3 * std::abs((LD)a[k][i]) * X * X; }
        if (j == 2) { if (degree >= 2) b += std::abs((LD)q[k][i]); if (degree >= 3) b += 6 * std::abs((LD)a[k][i]) * X; }
        if (j == 3) { if (degree >= 3) b += 6 * std::abs((LD)a[k][i]); }
        if (hasExp) { LD e0 = 0; for (int p = 0; p < n; ++p) if (p != i) e0 += (LD)be[k][p] * x[p]; LD emax = e0 + std::max((LD)be[k][i] * lo, (LD)be[k][i] * hi); b += std::abs((LD)al[k]) * std::pow(std::abs((LD)be[k][i]), (LD)j) * std::exp(emax); }
        if (hasSin) b += std::abs((LD)ga[k]) * std::pow(std::abs((LD)om[k][i]), (LD)j);
        return b;
    }
    // what the library sees: reference rounded to double, times (1 + noise*u(x,k)), u deterministic in [-1,1]
    double seen(int k, const Vector& y) const {
        std::vector<LD> x(n); for (int i = 0; i < n; ++i) x[i] = y[i];
        double v = (double)value(k, x);
        if (noise > 0) { uint64_t h = 1469598103934665603ull ^ (uint64_t)(k * 7919 + 13);
            for (int i = 0; i < n; ++i) { uint64_t b; double yi = y[i]; memcpy(&b, &yi, 8); h ^= b; h *= 1099511628211ull; h ^= h >> 29; }
            double u = (double)(h >> 11) / 9007199254740992.0 * 2 - 1; v *= (1 + noise * u); }
        return v;
    }
};

struct SF : Differentiator::ScalarFunction { const Model& M; SF(const Model& m, Real acc) : Differentiator::ScalarFunction(acc), M(m) {}
    int f(Real x, Real& fx) const override { M.calls++; Vector y(1); y[0] = x; fx = M.seen(0, y); return 0; } };
struct GF : Differentiator::GradientFunction { const Model& M; GF(const Model& m, Real acc) : Differentiator::GradientFunction(m.n, acc), M(m) {}
    int f(const Vector& y, Real& fy) const override { M.calls++; fy = M.seen(0, y); return 0; } };
struct JF : Differentiator::JacobianFunction { const Model& M; JF(const Model& m, Real acc) : Differentiator::JacobianFunction(m.m, m.n, acc), M(m) {}
    int f(const Vector& y, Vector& fy) const override { M.calls++; fy.resize(M.m); for (int k = 0; k < M.m; ++k) fy[k] = M.seen(k, y); return 0; } };

void property(const pbt::Tape& t, pbt::Ctx& ctx) {
    pbt::Reader g(t[0]);
    const int shape = g.pick(3);                 // 0 scalar, 1 gradient, 2 Jacobian
    const bool central = g.boolean();
    const int overload = g.pick(2);              // 0: with supplied f(y0), 1: simple (value-returning)
    const int methodRoute = g.pick(3);           // 0 explicit argument, 1 constructor default, 2 setDefaultMethod
    const int accClass = g.pick(8);              // 0: library default (acc < 0), 1..7: stated
    const int accRoute = g.pick(2);              // 0 constructor argument, 1 setEstimatedAccuracy before the Differentiator is built
    const bool inject = g.boolean();
    const int cross = g.pick(3);                 // 0 native call; 1,2: another calc* routine that the shape allows (1x1: any; 1xn: gradient or Jacobian)
    Model M;
    M.degree = 1 + g.pick(3); { int e = g.pick(4); M.hasExp = e == 1 || e == 3; M.hasSin = e == 2 || e == 3; }
    const int units = (int)t.size() - 1;
    M.n = shape == 0 ? 1 : std::max(1, std::min(units, 20));
    M.m = shape == 2 ? 1 + g.pick(10) : 1;
    static const double accTab[8] = {-1, 1e-15, 1e-14, 1e-12, 1e-10, 1e-8, 1e-6, 1e-4};
    const double accStated = accTab[accClass];
    // documented default: "will assume the function is calculated to about machine accuracy" -- the library's value is
    // read back through getEstimatedAccuracy() (public) and only required to be of that kind
    // ---- point and coefficients
    Vector y0(M.n); std::vector<LD> x(M.n);
    M.c.assign(M.m, std::vector<double>(M.n)); M.q = M.r = M.a = M.be = M.om = M.c; M.d.resize(M.m); M.al.resize(M.m); M.ga.resize(M.m); M.ph.resize(M.m);
    bool nontrivialPoint = false;
    for (int i = 0; i < M.n; ++i) {
        pbt::Reader r = i + 1 < (int)t.size() ? pbt::Reader(t[i + 1]) : pbt::Reader();
        int cls = r.pick(8); double mag = r.unit(); bool neg = r.boolean(); double v;
        switch (cls) { case 0: v = 0; break; case 1: v = 1; break; case 2: v = std::pow(10.0, -8 + 4 * mag); break; case 3: v = std::pow(10.0, -4 + 3 * mag); break;
                       case 4: case 5: v = 0.1 + 9.9 * mag; break; case 6: v = std::pow(10.0, 1 + 2 * mag); break; default: v = std::pow(10.0, 3 + 3 * mag); break; }
        if (neg) v = -v;
        y0[i] = v; x[i] = v;
        if (std::abs(v) < 0.1 || std::abs(v) > 10) nontrivialPoint = true;
        uint32_t w[12]; for (int j = 0; j < 12; ++j) w[j] = r.w();
        auto coef = [&](int k, int salt, double lo, double hi) { uint32_t z = w[(k + salt) % 12] * 2654435761u + (uint32_t)(salt * 40503u + k * 97u); z ^= z >> 15; z *= 2246822519u; z ^= z >> 13;
                                                                  if ((z & 15u) == 0) return 0.0; if ((z & 15u) == 1) return (z & 16u) ? hi : lo; return lo + (hi - lo) * ((z >> 5) / 134217728.0); };
        for (int k = 0; k < M.m; ++k) {
            M.c[k][i] = coef(k, 0, -5, 5); M.q[k][i] = coef(k, 1, -3, 3); M.r[k][i] = coef(k, 2, -2, 2); M.a[k][i] = coef(k, 3, -2, 2);
            M.be[k][i] = coef(k, 4, -2, 2) / (1 + std::abs(v)) / M.n; M.om[k][i] = coef(k, 5, -3, 3) / (1 + std::abs(v));
        }
    }
    for (int k = 0; k < M.m; ++k) { pbt::Reader r(t[0]); r.skip(10 + (k % 3)); uint32_t z = r.w() * 2654435761u + k * 7919u; z ^= z >> 13;
        M.d[k] = ((z & 7u) == 0) ? 0.0 : -10 + 20 * ((z >> 3) / 536870912.0); z = z * 2246822519u + 1; M.al[k] = -2 + 4 * ((z >> 3) / 536870912.0); z = z * 2246822519u + 1; M.ga[k] = -3 + 6 * ((z >> 3) / 536870912.0); z = z * 2246822519u + 1; M.ph[k] = -3 + 6 * ((z >> 3) / 536870912.0); }

    // ---- library objects
    std::unique_ptr<SF> sf; std::unique_ptr<GF> gf; std::unique_ptr<JF> jf; Differentiator::Function* fn = nullptr;
    const Real ctorAcc = (accRoute == 0 || accStated < 0) ? accStated : -1;
    if (shape == 0) { sf.reset(new SF(M, ctorAcc)); fn = sf.get(); } else if (shape == 1) { gf.reset(new GF(M, ctorAcc)); fn = gf.get(); } else { jf.reset(new JF(M, ctorAcc)); fn = jf.get(); }
    if (accRoute == 1 && accStated > 0) fn->setEstimatedAccuracy(accStated);
    const double acc = fn->getEstimatedAccuracy();
    if (accStated > 0) { if (!ctx.check(acc == accStated, "getEstimatedAccuracy() = " + pbt::str(acc) + " != stated " + pbt::str(accStated))) return; }
    else if (!ctx.check(acc >= EPS / 2 && acc <= 1e-12, "default estimated accuracy " + pbt::str(acc) + " is not 'about machine accuracy'")) return;
    if (!ctx.check(fn->getNumParameters() == M.n && fn->getNumFunctions() == M.m, "getNumParameters/getNumFunctions wrong")) return;
    M.noise = inject ? acc : 0;
    const Differentiator::Method meth = central ? Differentiator::CentralDifference : Differentiator::ForwardDifference;
    // the documented default method is ForwardDifference ("normally it is ForwardDifference")
    std::unique_ptr<Differentiator> D;
    Differentiator::Method arg = Differentiator::UnspecifiedMethod;
    if (methodRoute == 0) { D.reset(new Differentiator(*fn)); arg = meth; }
    else if (methodRoute == 1) { D.reset(new Differentiator(*fn, meth)); }
    else { D.reset(new Differentiator(*fn, central ? Differentiator::ForwardDifference : Differentiator::CentralDifference)); D->setDefaultMethod(meth); }
    if (methodRoute != 0 && !ctx.check(D->getDefaultMethod() == meth, "getDefaultMethod() wrong")) return;
    if (methodRoute == 0 && !ctx.check(D->getDefaultMethod() == Differentiator::ForwardDifference, "default method is not ForwardDifference")) return;

    if (ctx.wantDesc) {
        ctx.desc.precision(17);
        ctx.desc << (shape == 0 ? "scalar" : shape == 1 ? "gradient" : "jacobian") << " n=" << M.n << " m=" << M.m << " method=" << (central ? "central" : "forward") << " overload=" << (overload ? "simple" : "with-f(y0)")
                 << " methodRoute=" << methodRoute << " acc=" << acc << (accStated < 0 ? "(default)" : "") << " accRoute=" << accRoute << " injectedNoise=" << M.noise << " degree=" << M.degree << (M.hasExp ? " +exp" : "") << (M.hasSin ? " +sin" : "") << "\n y0=" << y0 << "\n";
        for (int k = 0; k < std::min(M.m, 3); ++k) { ctx.desc << " f" << k << ": d=" << M.d[k] << " c="; for (double v : M.c[k]) ctx.desc << v << " "; if (M.degree >= 2) { ctx.desc << " q="; for (double v : M.q[k]) ctx.desc << v << " "; ctx.desc << " r="; for (double v : M.r[k]) ctx.desc << v << " "; }
            if (M.degree >= 3) { ctx.desc << " a="; for (double v : M.a[k]) ctx.desc << v << " "; } if (M.hasExp) { ctx.desc << " al=" << M.al[k] << " be="; for (double v : M.be[k]) ctx.desc << v << " "; } if (M.hasSin) { ctx.desc << " ga=" << M.ga[k] << " ph=" << M.ph[k] << " om="; for (double v : M.om[k]) ctx.desc << v << " "; } ctx.desc << "\n"; }
    }
    ctx.label(std::string(shape == 0 ? "scalar" : shape == 1 ? "gradient" : "jacobian") + (central ? "/central" : "/forward") + (overload ? "/simple" : "/with-f0"));
    ctx.label(M.degree == 1 && !M.hasExp && !M.hasSin ? "fn:affine" : M.degree == 2 && !M.hasExp && !M.hasSin ? "fn:quadratic" : M.degree == 3 && !M.hasExp && !M.hasSin ? "fn:cubic" : (M.hasExp && M.hasSin ? "fn:poly+exp+sin" : M.hasExp ? "fn:poly+exp" : "fn:poly+sin"));
    ctx.label(accStated < 0 ? "acc:default" : accStated <= 1e-12 ? "acc:1e-15..1e-12" : accStated <= 1e-8 ? "acc:1e-10..1e-8" : "acc:1e-6..1e-4");
    ctx.label(inject ? "noise:injected" : "noise:none"); ctx.label("method-route:" + std::to_string(methodRoute));
    if (shape == 2 && M.m != M.n) ctx.label("jacobian:non-square");
    const bool nonlinear = M.degree >= 2 || M.hasExp || M.hasSin;
    ctx.nontrivial(nonlinear && nontrivialPoint);
    if (nontrivialPoint) ctx.label("point:outside[0.1,10]");

    // ---- run the library; outputs pre-poisoned
    Matrix J(M.m, M.n); J = NaN;
    try {
        // which routine: 0 calcDerivative, 1 calcGradient, 2 calcJacobian
        int routine = shape;
        if (M.n == 1 && M.m == 1) routine = cross == 0 ? shape : (shape + cross) % 3;          // every routine is allowed for a 1x1 function
        else if (M.m == 1 && cross != 0) routine = shape == 1 ? 2 : (shape == 2 ? 1 : shape);   // 1xn: gradient <-> Jacobian
        ctx.label(routine == shape ? "routine:native" : "routine:cross-shape");
        // known finding calcderivative-on-vector-function-result-lost: calcDerivative() on a 1x1 GradientFunction/JacobianFunction computes the
        // estimate into a temporary copy and never stores it. Site predicate (input side): routine calcDerivative on a non-ScalarFunction.
        if (routine == 0 && shape != 0 && ctx.known("calcderivative-on-vector-function-result-lost")) { ctx.label("excluded:calcderivative-on-vector-function"); routine = shape; }
        // known finding calcgradient-on-jacobianfunction-throws: calcGradient() on a 1xn JacobianFunction with n >= 2 hands the caller's Vector to the
        // Jacobian routine, which tries to resize it to 1xn and throws. Site predicate (input side): routine calcGradient, JacobianFunction, n >= 2.
        if (routine == 1 && shape == 2 && M.n >= 2 && ctx.known("calcgradient-on-jacobianfunction-throws")) { ctx.label("excluded:calcgradient-on-jacobianfunction"); routine = shape; }
        if (routine == 0) { Real d = NaN; if (overload == 0) { Vector yy(1); yy[0] = y0[0]; D->calcDerivative(y0[0], M.seen(0, yy), d, arg); } else d = D->calcDerivative(y0[0], arg); J(0, 0) = d; }
        else if (routine == 1) { Vector gr(M.n + 3, NaN); if (overload == 0) D->calcGradient(y0, M.seen(0, y0), gr, arg); else gr = D->calcGradient(y0, arg);
                               if (!ctx.check(gr.size() == M.n, "gradient has size " + std::to_string(gr.size()) + ", expected " + std::to_string(M.n))) return; for (int i = 0; i < M.n; ++i) J(0, i) = gr[i]; }
        else { Matrix JJ(2, 3, NaN); if (overload == 0) { Vector f0(M.m); for (int k = 0; k < M.m; ++k) f0[k] = M.seen(k, y0); D->calcJacobian(y0, f0, JJ, arg); } else JJ = D->calcJacobian(y0, arg);
               if (!ctx.check(JJ.nrow() == M.m && JJ.ncol() == M.n, "Jacobian is " + std::to_string(JJ.nrow()) + "x" + std::to_string(JJ.ncol()) + ", expected " + std::to_string(M.m) + "x" + std::to_string(M.n) + " (functions x parameters)")) return; J = JJ; }
    } catch (const std::exception& e) { ctx.fail(std::string("Differentiator threw on a valid request: ") + e.what()); return; }

    // ---- the bound, entry by entry
    const LD h0 = central ? std::cbrt((LD)acc) : std::sqrt((LD)acc);
    double worst = 0; bool truncDominated = false;
    for (int i = 0; i < M.n; ++i) {
        const LD yi = x[i], h1 = h0 * std::max(std::abs(yi), (LD)0.1);
        const LD theta = 2 * EPS * (std::abs(yi) + h1) / h1 + 4 * EPS;    // h = (y+h1)-y is h1 up to one rounding of y+h1 (and of acc^(1/2), acc^(1/3))
        const LD hmax = h1 * (1 + theta), hmin = h1 * (1 - theta);
        std::vector<LD> xp = x, xm = x; xp[i] = yi + hmax; xm[i] = yi - hmax;
        for (int k = 0; k < M.m; ++k) {
            const LD exact = M.deriv(1, k, i, x);
            LD S0, Sp, Sm; const LD f0 = std::abs(M.value(k, x, &S0)), fp = std::abs(M.value(k, xp, &Sp)), fm = std::abs(M.value(k, xm, &Sm));
            const LD eAbs = 4e-19L * std::max(S0, std::max(Sp, Sm));                 // absolute error of the long double reference values
            const LD aRel = M.noise + 2 * EPS;                                        // injected noise + rounding to double (+ the noise multiplication)
            // |f| over the stencil: value at the end points plus the variation bound G*h
            const LD G = M.supDeriv(1, k, i, x, yi - hmax, yi + hmax);
            const LD fpB = std::max(fp, f0) + 0 * G, fmB = std::max(fm, f0);
            LD trunc, round;
            if (!central) { trunc = hmax / 2 * M.supDeriv(2, k, i, x, std::min(yi, yi + hmax), std::max(yi, yi + hmax)); round = (aRel * (fpB + f0) + 2 * eAbs) / hmin; }
            else { trunc = hmax * hmax / 6 * M.supDeriv(3, k, i, x, yi - hmax, yi + hmax); round = (aRel * (fpB + fmB) + 2 * eAbs) / (2 * hmin); }
            const LD pert = G * EPS * (std::abs(yi) + hmax) / hmin;                   // y0+h / y0-h are rounded: the evaluation points are off by <= ulp/2
            const LD est = J(k, i);
            if (!std::isfinite((double)est)) { ctx.fail("entry (" + std::to_string(k) + "," + std::to_string(i) + ") of the estimate is not finite (not set?)"); return; }
            const LD bound = 1.01L * trunc + 2 * round + 2 * pert + 4 * EPS * std::abs(est) + 1e-300L;
            const LD err = std::abs(est - exact);
            worst = std::max(worst, (double)(err / bound)); if (trunc > round + pert) truncDominated = true;
            if (!CALIB && err > bound) {
                ctx.fail(std::string(central ? "central" : "forward") + " estimate of d f" + std::to_string(k) + "/d y" + std::to_string(i) + " = " + pbt::str((double)est) + ", exact " + pbt::str((double)exact) + ": error " + pbt::str((double)err) + " > bound " + pbt::str((double)bound)
                         + " (truncation " + pbt::str((double)trunc) + ", rounding " + pbt::str((double)round) + ", perturbation " + pbt::str((double)pert) + "; documented h = " + pbt::str((double)h1) + ", acc = " + pbt::str(acc) + ")"); return; }
            // sensitivity classes: how far below the derivative's own size is the bound?
            if (k == 0 && i == 0) { LD sc = std::max(std::abs(exact), G); ctx.label(bound < 1e-6 * sc ? "bound<1e-6*|f'|" : bound < 1e-2 * sc ? "bound<1e-2*|f'|" : bound < sc ? "bound<|f'|" : "bound>=|f'|(insensitive)"); }
        }
    }
    if (!nonlinear || (central && M.degree <= 2 && !M.hasExp && !M.hasSin)) ctx.label("exact-up-to-rounding-class");
    ctx.label(truncDominated ? "truncation-dominated" : "rounding-dominated");
    ctx.label(worst < 1e-3 ? "err/bound<1e-3" : worst < 1e-1 ? "err/bound<0.1" : worst < 0.5 ? "err/bound<0.5" : worst <= 1 ? "err/bound<=1" : "err/bound>1");
    if (CALIB) { char b[96]; snprintf(b, sizeof b, "calib:%s/%s/%s:%.0e", central ? "central" : "forward", inject ? "noise" : "clean", truncDominated ? "trunc" : "round", worst); ctx.label(b); }
}

pbt::Config config() {
    pbt::Config c; c.prop = "C40"; c.K = 16; c.minUnits = 1;
    c.quick = {20000, 150000, 20, 25}; c.thorough = {100000, 1000000, 20, 240};
    c.rule = "rapidcheck tape -> function f = affine/quadratic(with cross terms)/cubic polynomial [+ al*exp(be.y)] [+ ga*sin(om.y+ph)] with m in 1..10 outputs of n in 1..20 variables (one unit per variable: point component from {0, 1, 1e-8..1e-4, 1e-4..0.1, 0.1..10, 10..1e3, 1e3..1e6} with sign, coefficients), shape {ScalarFunction, GradientFunction, JacobianFunction} x method {forward, central} x overload {with f(y0), simple} x method route {argument, constructor default, setDefaultMethod} x accuracy {default, 1e-15..1e-4 via constructor or setEstimatedAccuracy} x {no noise, injected deterministic relative noise of that size}. Non-trivial: nonlinear function and a point component with |y| outside [0.1,10]; distinct by tape hash.";
    c.assumptions = {"reference values, exact derivatives and sup-bounds of the 2nd/3rd derivative over the stencil are evaluated in long double from the generated closed form",
                     "the step size is the one documented in Differentiator.h (h0 = acc^(1/2) or acc^(1/3), h1 = h0*max(|y|,0.1), h = (y+h1)-y); the bound is truncation + rounding for that h with safety factors 1.01 (truncation) and 2 (rounding)"};
    c.directed.push_back({"calcderivative-on-1x1-jacobianfunction", "calcderivative-on-vector-function-result-lost", [](pbt::Ctx& ctx) {
        struct G1 : Differentiator::GradientFunction { G1() : Differentiator::GradientFunction(1) {} int f(const Vector& y, Real& fy) const override { fy = 3 * y[0] + 1; return 0; } } gfn;
        struct J1 : Differentiator::JacobianFunction { J1() : Differentiator::JacobianFunction(1, 1) {} int f(const Vector& y, Vector& fy) const override { fy.resize(1); fy[0] = 3 * y[0] + 1; return 0; } } jfn;
        Differentiator dg(gfn), dj(jfn); Real a = -777, b = -777; dg.calcDerivative(2.0, 7.0, a); dj.calcDerivative(2.0, 7.0, b);
        Real a2 = dg.calcDerivative(2.0), b2 = dj.calcDerivative(2.0);
        ctx.desc << "f(y)=3y+1 at y=2 (f=7 supplied), output pre-set to -777: calcDerivative on 1x1 GradientFunction -> " << a << ", on 1x1 JacobianFunction -> " << b << "; value-returning overloads -> " << a2 << ", " << b2 << "\n";
        ctx.check(std::abs(a - 3) < 1e-5 && std::abs(b - 3) < 1e-5 && std::abs(a2 - 3) < 1e-5 && std::abs(b2 - 3) < 1e-5, "calcDerivative on a 1x1 GradientFunction/JacobianFunction does not deliver the derivative 3: got " + pbt::str(a) + ", " + pbt::str(b) + ", " + pbt::str(a2) + ", " + pbt::str(b2));
    }});
    c.directed.push_back({"calcgradient-on-1x2-jacobianfunction", "calcgradient-on-jacobianfunction-throws", [](pbt::Ctx& ctx) {
        struct J2 : Differentiator::JacobianFunction { J2() : Differentiator::JacobianFunction(1, 2) {} int f(const Vector& y, Vector& fy) const override { fy.resize(1); fy[0] = 3 * y[0] - 2 * y[1] + 1; return 0; } } jfn;
        Differentiator dj(jfn); Vector y(2); y[0] = 2; y[1] = 1; Vector gr;
        try { dj.calcGradient(y, 5.0, gr); } catch (const std::exception& e) { ctx.desc << "f(y)=3y0-2y1+1: calcGradient on a 1x2 JacobianFunction threw\n"; ctx.fail(std::string("calcGradient on a 1x2 JacobianFunction threw: ") + e.what()); return; }
        ctx.desc << "gradient " << gr << "\n";
        ctx.check(gr.size() == 2 && std::abs(gr[0] - 3) < 1e-5 && std::abs(gr[1] + 2) < 1e-5, "wrong gradient");
    }});
    c.requiredLabels = {"scalar/forward/with-f0", "scalar/central/simple", "gradient/forward/simple", "gradient/central/with-f0", "jacobian/forward/with-f0", "jacobian/central/simple", "jacobian:non-square", "fn:affine", "fn:quadratic", "fn:cubic", "fn:poly+exp+sin",
                        "acc:default", "acc:1e-6..1e-4", "noise:injected", "truncation-dominated", "rounding-dominated", "exact-up-to-rounding-class", "point:outside[0.1,10]", "routine:cross-shape"};
    return c;
}
} // namespace

PBT_MAIN(config(), property)
