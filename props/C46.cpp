// C46 -- Simulation is deterministic and isolated (DESIGN.md section 5, C46).
// Domain: a pool of 2..4 generated "programs" (model + integrator + options + horizon; single-threaded force
// evaluation) and a generated schedule that runs them alone, repeated, reordered, step-wise interleaved (also two
// live instances of the same program) and interleaved with unrelated library calls.
//   models : mbgen tree + force elements | + constraint (Rod/PointInPlane/ConstantSpeed/Ball) |
//            GeneralContactSubsystem + HuntCrossleyForce (spheres, half space) |
//            + ElasticFoundationForce on a TriangleMesh | ContactTrackerSubsystem + CompliantContactSubsystem
//            (sphere / ellipsoid / triangle mesh surfaces on a half space)
//   integrators: RKM, RK3, RKF, Verlet, RK2, ExplicitEuler, SemiExplicitEuler, SemiExplicitEuler2, CPodes BDF/Adams
// Oracle (D): the per-returned-state bit hash sequence (status, t, y, udot, energy, a body pose; integrator
// statistics at the end; exception text if the run ends by a documented exception) of every in-process execution
// equals the sequence produced by a PRISTINE child process. The child is forked by a "zygote" that was itself
// forked in a static initializer of this file, i.e. before main() and before any use of the library in this
// process; the child runs only that one program. Secondary: explicitly seeded / input-determined unrelated calls
// return bit-identical results every time they are repeated with the same arguments within a case.
#include "pbt.h"
#include "mbgen.h"
#include <sys/wait.h>
#include <sys/prctl.h>
using namespace SimTK;

namespace {

const int KW = 64;          // words per unit: [0,52) mbgen body unit, [52,64) program parameters
const int PW = mbgen::K;    // first program word

// ------------------------------------------------------------------ hashing
struct Hasher {
    uint64_t h = 1469598103934665603ull;
    void bytes(const void* p, size_t n) { const unsigned char* c = (const unsigned char*)p; for (size_t i = 0; i < n; ++i) { h ^= c[i]; h *= 1099511628211ull; } }
    void d(double x) { bytes(&x, 8); }
    void i(long long x) { bytes(&x, 8); }
    void v3(const Vec3& v) { for (int k = 0; k < 3; ++k) d(v[k]); }
    void vec(const Vector& v) { i(v.size()); for (int k = 0; k < v.size(); ++k) d(v[k]); }
    void s(const std::string& x) { i((long long)x.size()); bytes(x.data(), x.size()); }
};

struct SplitMix { uint64_t s; uint64_t next() { s += 0x9E3779B97F4A7C15ull; uint64_t z = s; z = (z ^ (z >> 30)) * 0xBF58476D1CE4E5B9ull; z = (z ^ (z >> 27)) * 0x94D049BB133111EBull; return z ^ (z >> 31); }
    int pick(int n) { return n <= 1 ? 0 : int(next() % uint64_t(n)); } double unit() { return (next() >> 11) / 9007199254740992.0; } double sym() { return 2 * unit() - 1; } };

// ------------------------------------------------------------------ program
enum ModelKind { M_TREE = 0, M_CONSTRAINED, M_HUNTCROSSLEY, M_ELASTICFOUNDATION, M_COMPLIANT, NumModelKinds };
const char* modelName[] = {"tree+forces", "constrained", "huntcrossley", "elasticfoundation-mesh", "compliantcontact"};
enum IntegKind { I_RKM = 0, I_RK3, I_RKF, I_VERLET, I_RK2, I_EULER, I_SEE, I_SEE2, I_CPODES_BDF, I_CPODES_ADAMS, NumIntegKinds };
const char* integName[] = {"RungeKuttaMerson", "RungeKutta3", "RungeKuttaFeldberg", "Verlet", "RungeKutta2", "ExplicitEuler", "SemiExplicitEuler", "SemiExplicitEuler2", "CPodesBDF", "CPodesAdams"};
const char* consName[] = {"Rod", "PointInPlane", "ConstantSpeed", "Ball"};

struct ProgSpec {
    int kind = 0, nb = 1, integ = 0; double acc = 1e-3, h = 1e-2, T = 0.1; int nRep = 1;
    bool fixedStep = false, everyStep = false, projEvery = false, projInterp = false, infNorm = false, noInterp = false, setFinal = false, initStep = false, maxStep = false, fullNewton = false;
    uint32_t var = 0; double stiff = 1e4, extra = 0, pen = 0.01;
    mbgen::ModelSpec model;
    std::vector<uint32_t> words;   // identity of the program (for "different programs" classification)
    void describe(std::ostream& o) const {
        o.precision(17);
        o << "program: model=" << modelName[kind] << " integ=" << integName[integ] << " acc=" << acc << " h=" << h << " T=" << T << " reports=" << nRep
          << " opts:" << (fixedStep ? " fixedStep" : "") << (everyStep ? " returnEveryInternalStep" : "") << (projEvery ? " projectEveryStep" : "") << (projInterp ? " projectInterpolated" : "")
          << (infNorm ? " infNorm" : "") << (noInterp ? " noInterpolation" : "") << (setFinal ? " finalTime" : "") << (initStep ? " initialStep" : "") << (maxStep ? " maxStep" : "") << (fullNewton ? " fullNewton" : "")
          << " var=" << var << " stiff=" << stiff << " extra=" << extra << " pen=" << pen;
        if (kind == M_CONSTRAINED) o << " constraint=" << consName[var % 4];
        o << "\n"; model.describe(o);
    }
};

// program j is described by unit j (program words) and units j, j+1, ... (cyclic) as its body units
ProgSpec decodeProgram(const pbt::Tape& t, int j) {
    const int nUnits = (int)t.size() - 1;
    ProgSpec P; const pbt::Seg& seg = t[1 + j % nUnits];
    pbt::Reader r(seg); r.skip(PW);
    // the program index offsets the two main choices, so that the programs of a pool differ even on an all-zero tape
    P.kind = (r.pick(NumModelKinds) + j) % NumModelKinds;
    P.nb = 1 + (r.pick(4) + j) % 4;
    P.integ = (r.pick(NumIntegKinds) + 3 * j) % NumIntegKinds;
    P.acc = r.logreal(1e-7, 1e-2);
    uint32_t o = r.w();
    P.fixedStep = (o & 1u) && (o & 2u); P.everyStep = (o >> 2) & 1u; P.projEvery = (o >> 3) & 1u; P.projInterp = (o >> 4) & 1u; P.infNorm = (o >> 5) & 1u;
    P.noInterp = ((o >> 6) & 3u) == 3u; P.setFinal = (o >> 8) & 1u; P.initStep = (o >> 9) & 1u; P.maxStep = ((o >> 10) & 3u) == 3u; P.fullNewton = (o >> 12) & 1u;
    bool euler = (o >> 13) & 1u, zeroU = ((o >> 14) & 7u) == 7u;
    P.h = r.logreal(1e-3, 2e-2); if (P.h == 1) P.h = 1e-2;
    P.T = r.uniform(0.02, 0.3);
    P.nRep = 1 + r.pick(5);
    P.var = r.w();
    P.stiff = r.logreal(1e3, 1e5); if (P.stiff < 1e3) P.stiff = 1e3;
    P.extra = r.real(-2, 2);
    P.pen = r.uniform(0.0, 0.05);
    // model: body units j, j+1, ... cyclic
    pbt::Tape sub; for (int k = 0; k < P.nb; ++k) sub.push_back(t[1 + (j + k) % nUnits]);
    pbt::Seg flags{euler ? 1u : 0u, 0u, zeroU ? 8u : 0u}; pbt::Reader g0(flags);   // decodeModel: boolean, chance(1,3), chance(1,8)
    mbgen::Options opt; opt.maxBodies = 4; opt.allowUnnormalizedQuat = false;
    P.model = mbgen::decodeModel(sub, 0, P.nb, g0, opt);
    P.nb = P.model.nBodies();
    // generator precondition: CPodesIntegrator needs at least one state variable (a tree of Welds has ny = 0 and makes
    // CPodes read y[0] of an empty vector -- outside this property; see notes/C46.md); other integrators keep that class
    { int nu = 0; for (auto& b : P.model.bodies) nu += mbgen::mobNU(b.type); if (nu == 0 && P.integ >= I_CPODES_BDF) P.model.bodies[0].type = mbgen::Pin; }
    for (auto& s : sub) P.words.insert(P.words.end(), s.begin(), s.end());
    P.words.push_back((uint32_t)P.kind); P.words.push_back((uint32_t)P.integ); P.words.push_back((uint32_t)P.nb);
    return P;
}

// ------------------------------------------------------------------ trace of one execution
struct Trace {
    std::vector<uint64_t> h; std::vector<double> t; std::string end;   // end: how the run ended ("done", "cap", "exception: ...")
    void serialize(std::vector<unsigned char>& b) const {
        auto put = [&](const void* p, size_t n) { const unsigned char* c = (const unsigned char*)p; b.insert(b.end(), c, c + n); };
        uint32_t n = (uint32_t)h.size(), m = (uint32_t)end.size(); put(&n, 4); if (n) { put(h.data(), 8 * n); put(t.data(), 8 * n); } put(&m, 4); put(end.data(), m);
    }
    bool deserialize(const std::vector<unsigned char>& b) {
        size_t p = 0; auto get = [&](void* d, size_t n) { if (p + n > b.size()) return false; memcpy(d, b.data() + p, n); p += n; return true; };
        uint32_t n, m; if (!get(&n, 4)) return false; h.resize(n); t.resize(n); if (n && (!get(h.data(), 8 * n) || !get(t.data(), 8 * n))) return false;
        if (!get(&m, 4)) return false; end.resize(m); return m == 0 || get(&end[0], m);
    }
};

std::string diffTraces(const Trace& a, const Trace& b) {   // "" when identical
    size_t n = std::min(a.h.size(), b.h.size());
    for (size_t k = 0; k < n; ++k) if (a.h[k] != b.h[k]) {
        std::ostringstream o; o.precision(17); o << "first difference at returned state #" << k << " (t=" << a.t[k] << " vs t=" << b.t[k] << "; " << a.h.size() << " vs " << b.h.size() << " returned states)"; return o.str(); }
    if (a.h.size() != b.h.size()) { std::ostringstream o; o << "number of returned states differs: " << a.h.size() << " vs " << b.h.size() << " (common prefix identical)"; return o.str(); }
    if (a.end != b.end) return "runs end differently: '" + a.end.substr(0, 160) + "' vs '" + b.end.substr(0, 160) + "'";
    return "";
}

// ------------------------------------------------------------------ one live execution of a program
const int MaxCalls = 60;           // cap on stepTo calls per execution (part of the program definition)
const int InternalStepLimit = 150; // per stepTo call (exception when exceeded: deterministic end of the run)
const int MaxAttempts = 300;       // cap on attempted internal steps per execution, checked after each stepTo call

struct Sim {
    ProgSpec P;
    std::unique_ptr<mbgen::Built> m;
    std::unique_ptr<GeneralContactSubsystem> gcs;
    std::unique_ptr<ContactTrackerSubsystem> trk; std::unique_ptr<CompliantContactSubsystem> ccs;
    std::unique_ptr<Integrator> integ;
    Trace tr; bool done = false, started = false; int k = 1, calls = 0;
    explicit Sim(const ProgSpec& p) : P(p) {}

    void build() {
        const mbgen::ModelSpec& spec = P.model; const int nb = P.nb;
        // pre-pass on a throw-away copy: where are the bodies initially? (for consistent constraints and initial contact)
        std::vector<Vec3> org(nb + 1); Transform X_GL;
        {   mbgen::Built pre(spec); pre.finish(spec); pre.setState(spec); pre.sys.realize(pre.state, Stage::Position);
            for (int i = 0; i <= nb; ++i) org[i] = pre.mb[i].getBodyOriginLocation(pre.state);
            X_GL = pre.mb[nb].getBodyTransform(pre.state); }
        m.reset(new mbgen::Built(spec));
        m->forces.setNumberOfThreads(1);
        MobilizedBody& gnd = m->mb[0]; MobilizedBody& last = m->mb[nb]; MobilizedBody& other = nb >= 2 ? m->mb[1] : m->mb[0];
        const double k1 = 5 + 3 * std::fabs(P.extra), k2 = 8;
        Force::Gravity(m->forces, m->matter, Vec3(0, -9.8, 0));
        Force::GlobalDamper(m->forces, m->matter, 0.2);
        // several elements on the same body, so that the order of accumulation matters for the bits
        Force::TwoPointLinearSpring(m->forces, gnd, Vec3(0.3, 0.5, -0.2), last, Vec3(0.1, -0.2, 0.15), k1, 0.4);
        Force::TwoPointLinearSpring(m->forces, other, Vec3(-0.2, 0.1, 0.3), last, Vec3(-0.15, 0.1, 0.05), k2, 0.2);
        Force::TwoPointLinearDamper(m->forces, gnd, Vec3(0, 1, 0), last, Vec3(0.02, 0.01, 0.03), 0.5);
        Force::ConstantForce(m->forces, last, Vec3(0.05, 0, 0.1), Vec3(0.3, -0.2, 0.5));
        Force::ConstantTorque(m->forces, last, Vec3(0.1, 0.2, -0.1));
        const Vec3 ls(0.1, 0.05, -0.1); const Vec3 pG = X_GL * ls;
        if (P.kind == M_CONSTRAINED) {
            int ck = P.var % 4; if (ck == 2 && mbgen::mobNU(spec.bodies[nb - 1].type) == 0) ck = 0;
            if (ck == 0) { Vec3 gs(0.2, 0.8, 0.1); if ((pG - gs).norm() < 0.05) gs += Vec3(0.3, 0, 0); Constraint::Rod(gnd, gs, last, ls, (pG - gs).norm()); }
            else if (ck == 1) { UnitVec3 n(Vec3(0.3, 1, 0.2)); Constraint::PointInPlane(gnd, n, dot(n, pG), last, ls); }
            else if (ck == 2) Constraint::ConstantSpeed(last, MobilizerUIndex(0), spec.zeroU ? 0.0 : P.extra);
            else Constraint::Ball(gnd, pG, last, ls);
        }
        const Transform X_half(Rotation(-Pi / 2, ZAxis), Vec3(0));   // half space occupying y < 0
        auto radius = [&](int i) { return 0.1 + 0.04 * i; };
        double lowest = 1e30; for (int i = 1; i <= nb; ++i) lowest = std::min(lowest, (double)org[i][1] - radius(i));
        const Transform X_floor(X_half.R(), Vec3(0, lowest + P.pen, 0));
        if (P.kind == M_HUNTCROSSLEY || P.kind == M_ELASTICFOUNDATION) {
            gcs.reset(new GeneralContactSubsystem(m->sys));
            ContactSetIndex cs = gcs->createContactSet();
            gcs->addBody(cs, gnd, ContactGeometry::HalfSpace(), X_floor);
            int meshBody = P.kind == M_ELASTICFOUNDATION ? 1 + int(P.var % uint32_t(nb)) : -1;
            for (int i = 1; i <= nb; ++i) {
                if (i == meshBody) { PolygonalMesh pm = PolygonalMesh::createSphereMesh(radius(i), 1 + int((P.var >> 8) & 1u)); gcs->addBody(cs, m->mb[i], ContactGeometry::TriangleMesh(pm), Transform()); }
                else gcs->addBody(cs, m->mb[i], ContactGeometry::Sphere(radius(i)), Transform());
            }
            HuntCrossleyForce hc(m->forces, *gcs, cs);
            for (int i = 0; i <= nb; ++i) hc.setBodyParameters(ContactSurfaceIndex(i), P.stiff, 0.1, 0.5, 0.3, 0.05);
            if (meshBody > 0) { ElasticFoundationForce ef(m->forces, *gcs, cs); ef.setBodyParameters(ContactSurfaceIndex(meshBody), P.stiff * 10, 0.1, 0.5, 0.3, 0.05); }
        }
        if (P.kind == M_COMPLIANT) {
            trk.reset(new ContactTrackerSubsystem(m->sys));
            ccs.reset(new CompliantContactSubsystem(m->sys, *trk));
            ccs->setTransitionVelocity(0.01 + 0.05 * ((P.var >> 16) & 3u));
            ContactMaterial mat(P.stiff * 10, 0.1, 0.5, 0.3, 0.05);
            gnd.updBody().addContactSurface(X_floor, ContactSurface(ContactGeometry::HalfSpace(), mat));
            for (int i = 1; i <= nb; ++i) {
                int g = (P.var >> (2 * (i - 1))) & 3u; double r = radius(i);
                if (g == 0 || g == 3) m->mb[i].updBody().addContactSurface(Transform(), ContactSurface(ContactGeometry::Sphere(r), mat));
                else if (g == 1) m->mb[i].updBody().addContactSurface(Transform(), ContactSurface(ContactGeometry::Ellipsoid(Vec3(r, 0.8 * r, 0.6 * r)), mat));
                else { PolygonalMesh pm = PolygonalMesh::createSphereMesh(r, 1); m->mb[i].updBody().addContactSurface(Transform(), ContactSurface(ContactGeometry::TriangleMesh(pm), mat, 0.3 * r)); }
            }
        }
        m->finish(spec); m->setState(spec);
        Integrator* ig = nullptr; const System& sys = m->sys;
        switch (P.integ) {
            case I_RKM: ig = new RungeKuttaMersonIntegrator(sys); break;
            case I_RK3: ig = new RungeKutta3Integrator(sys); break;
            case I_RKF: ig = new RungeKuttaFeldbergIntegrator(sys); break;
            case I_VERLET: ig = new VerletIntegrator(sys); break;
            case I_RK2: ig = new RungeKutta2Integrator(sys); break;
            case I_EULER: ig = new ExplicitEulerIntegrator(sys); break;
            case I_SEE: ig = new SemiExplicitEulerIntegrator(sys, P.h); break;
            case I_SEE2: ig = new SemiExplicitEuler2Integrator(sys); break;
            case I_CPODES_BDF: ig = new CPodesIntegrator(sys, CPodes::BDF, CPodes::Newton); break;
            default: ig = new CPodesIntegrator(sys, CPodes::Adams, CPodes::Functional); break;
        }
        integ.reset(ig);
        const bool cpodes = P.integ >= I_CPODES_BDF;
        ig->setAccuracy(P.acc);
        if (P.integ != I_SEE) { if (P.fixedStep && !cpodes) ig->setFixedStepSize(P.h); else { if (P.initStep) ig->setInitialStepSize(P.h); if (P.maxStep) ig->setMaximumStepSize(2 * P.h); } }
        ig->setReturnEveryInternalStep(P.everyStep);
        ig->setProjectEveryStep(P.projEvery);
        if (!cpodes) { ig->setProjectInterpolatedStates(P.projInterp); ig->setUseInfinityNorm(P.infNorm); ig->setForceFullNewton(P.fullNewton); }
        if (P.noInterp) ig->setAllowInterpolation(false);
        if (P.setFinal) ig->setFinalTime(P.T);
        ig->setInternalStepLimit(InternalStepLimit);
    }

    void record(int status) {
        const State& s = integ->getState(); Hasher H;
        H.i(status); H.d(s.getTime()); H.vec(s.getY());
        m->sys.realize(s, Stage::Acceleration);
        H.vec(s.getUDot()); H.vec(s.getQDot()); H.vec(s.getMultipliers());
        H.d(m->sys.calcEnergy(s));
        const Transform& X = m->mb[P.nb].getBodyTransform(s); H.v3(X.p()); for (int c = 0; c < 3; ++c) H.v3(X.R()(c));
        H.v3(m->mb[P.nb].getBodyAngularVelocity(s));
        H.d(integ->getPreviousStepSizeTaken()); H.d(integ->getAdvancedTime());
        tr.h.push_back(H.h); tr.t.push_back(s.getTime());
        static const bool dump = getenv("C46_DUMP") != nullptr;
        if (dump) { std::ostringstream o; o << "DUMP pid=" << getpid() << " " << modelName[P.kind] << "/" << integName[P.integ] << " #" << tr.h.size() - 1 << " st=" << status << std::hexfloat << " t=" << s.getTime() << " y=" << s.getY() << " udot=" << s.getUDot() << " lambda=" << s.getMultipliers() << " E=" << m->sys.calcEnergy(s) << " hprev=" << integ->getPreviousStepSizeTaken() << "\n"; fputs(o.str().c_str(), stderr); }
    }
    void finishStats(const std::string& how) {
        Hasher H; H.i(integ->getNumStepsTaken()); H.i(integ->getNumStepsAttempted()); H.i(integ->getNumErrorTestFailures()); H.i(integ->getNumConvergenceTestFailures());
        H.i(integ->getNumProjectionFailures()); H.i(integ->getNumQProjections()); H.i(integ->getNumUProjections()); H.i(integ->getNumRealizations()); H.i(integ->getNumIterations());
        H.d(integ->getActualInitialStepSizeTaken());
        tr.h.push_back(H.h); tr.t.push_back(integ->getTime()); tr.end = how; done = true;
    }
    // one "step" = building+initializing (first call) or one stepTo call
    void step() {
        if (done) return;
        // CPodes prints its warnings/errors to stderr: silence fd 2 while a CPodes program runs
        struct Quiet { int saved = -1; explicit Quiet(bool on) { if (on) { fflush(stderr); saved = dup(2); int nul = open("/dev/null", O_WRONLY); if (nul >= 0) { dup2(nul, 2); close(nul); } } }
                       ~Quiet() { if (saved >= 0) { fflush(stderr); dup2(saved, 2); close(saved); } } } quiet(P.integ >= I_CPODES_BDF);
        try {
            if (!started) { started = true; build(); integ->initialize(m->state); record(-1); return; }
            double rt = P.T * std::min(k, P.nRep) / P.nRep; if (k >= P.nRep) rt = P.T;
            Integrator::SuccessfulStepStatus st = integ->stepTo(rt); ++calls;
            record((int)st);
            double tn = integ->getTime();
            while (k <= P.nRep && tn >= (k >= P.nRep ? P.T : P.T * k / P.nRep)) ++k;
            if (st == Integrator::EndOfSimulation) finishStats("end-of-simulation");
            else if (k > P.nRep) finishStats("done");
            else if (calls >= MaxCalls) finishStats("call-cap");
            else if (integ->getNumStepsAttempted() >= MaxAttempts) finishStats("step-cap");
        } catch (const std::exception& e) {
            std::string w = e.what(); tr.end = "exception: " + w; Hasher H; H.s(w); tr.h.push_back(H.h); tr.t.push_back(-1); done = true;
        }
    }
    void runAll() { while (!done) step(); }
};

struct Timer;
Trace runProgramAlone(const ProgSpec& P);

// ------------------------------------------------------------------ pristine children through a zygote
// The zygote is forked before main(); it never touches the library. For each request it forks a child that runs one
// program and returns the trace.
struct Zygote { int toZ = -1, fromZ = -1; pid_t pid = -1; bool ok = false; };
Zygote& zy() { static Zygote z; return z; }

bool readAll(int fd, void* p, size_t n) { char* c = (char*)p; while (n) { ssize_t r = read(fd, c, n); if (r <= 0) { if (r < 0 && errno == EINTR) continue; return false; } c += r; n -= (size_t)r; } return true; }
bool writeAll(int fd, const void* p, size_t n) { const char* c = (const char*)p; while (n) { ssize_t r = write(fd, c, n); if (r <= 0) { if (r < 0 && errno == EINTR) continue; return false; } c += r; n -= (size_t)r; } return true; }

// hand-written programs for directed reproducers (id -> program)
ProgSpec directedProgram(int id) {
    ProgSpec P; P.integ = I_RKM; P.acc = 1e-3; P.T = 0.05; P.nRep = 2;
    if (id == 0) {   // Rod between Ground and a body welded to Ground, next to an unrelated pendulum: G M^-1 ~G = [0]
        P.kind = M_CONSTRAINED; P.var = 0; P.nb = 2;
        mbgen::BodySpec pend; pend.parent = 0; pend.type = mbgen::Pin; pend.com = Vec3(0.3, -0.2, 0); pend.u[0] = 1;
        mbgen::BodySpec fixed; fixed.parent = 0; fixed.type = mbgen::Weld;
        P.model.bodies.push_back(pend); P.model.bodies.push_back(fixed);
    }
    return P;
}
const uint32_t DirectedMarker = 0xFFFFFFFFu;

// request: [nSeg, nJobs, j_0..j_{nJobs-1}, words...] (every segment KW words)  or  [DirectedMarker, 1, id]
void childRun(const std::vector<uint32_t>& req, uint32_t job, int out) {
    uint32_t nSeg = req[0], nJobs = req[1], j = req[2 + job]; pbt::Tape t;
    if (nSeg != DirectedMarker) for (uint32_t s = 0; s < nSeg; ++s) t.push_back(pbt::Seg(req.begin() + 2 + nJobs + s * KW, req.begin() + 2 + nJobs + (s + 1) * KW));
    Trace tr;
    try { ProgSpec P = nSeg == DirectedMarker ? directedProgram((int)j) : decodeProgram(t, (int)j); tr = runProgramAlone(P); }
    catch (const std::exception& e) { tr.end = std::string("child-exception: ") + e.what(); }
    std::vector<unsigned char> b; tr.serialize(b); uint32_t len = (uint32_t)b.size();
    writeAll(out, &len, 4); writeAll(out, b.data(), b.size());
}

// one pristine child per job, all started at once (a reply is far smaller than a pipe buffer, so no child blocks)
void zygoteLoop(int in, int out) {
    for (;;) {
        uint32_t n; if (!readAll(in, &n, 4)) _exit(0);
        std::vector<uint32_t> req(n); if (n < 3 || !readAll(in, req.data(), 4 * (size_t)n)) _exit(0);
        const uint32_t nJobs = req[1]; std::vector<pid_t> pid(nJobs, -1); std::vector<int> fd(nJobs, -1);
        for (uint32_t k = 0; k < nJobs; ++k) {
            int p[2]; if (pipe(p) != 0) _exit(0);
            pid_t c = fork();
            if (c == 0) { close(p[0]); close(in); close(out); for (uint32_t i = 0; i < k; ++i) close(fd[i]); alarm(100); childRun(req, k, p[1]); _exit(0); }
            close(p[1]); pid[k] = c; fd[k] = p[0];
        }
        for (uint32_t k = 0; k < nJobs; ++k) {
            std::vector<unsigned char> buf; uint32_t len = 0; int32_t status = 0;
            bool got = pid[k] > 0 && readAll(fd[k], &len, 4); if (got) { buf.resize(len); got = len == 0 || readAll(fd[k], buf.data(), len); }
            close(fd[k]);
            int ws = 0; if (pid[k] > 0) waitpid(pid[k], &ws, 0);
            if (!got) { status = WIFSIGNALED(ws) ? -WTERMSIG(ws) : -1000; len = 0; buf.clear(); }
            if (!writeAll(out, &status, 4) || !writeAll(out, &len, 4) || (len && !writeAll(out, buf.data(), len))) _exit(0);
        }
    }
}

void startZygote() {
    Zygote& z = zy(); int a[2], b[2];
    if (pipe(a) != 0 || pipe(b) != 0) return;
    pid_t p = fork();
    if (p < 0) return;
    if (p == 0) {
        close(a[1]); close(b[0]);
        prctl(PR_SET_PDEATHSIG, SIGKILL);
        zygoteLoop(a[0], b[1]); _exit(0);
    }
    close(a[0]); close(b[1]); z.toZ = a[1]; z.fromZ = b[0]; z.pid = p; z.ok = true;
    fcntl(z.toZ, F_SETFD, FD_CLOEXEC); fcntl(z.fromZ, F_SETFD, FD_CLOEXEC);
}
struct ZygoteInit { ZygoteInit() { startZygote(); } } zygoteInit;   // before main(), before any library use

// Start one pristine child per program index in js (an empty tape requests directedProgram(js[0])); false if no zygote.
bool pristineBegin(const pbt::Tape& t, const std::vector<int>& js) {
    Zygote& z = zy(); if (!z.ok) return false;
    std::vector<uint32_t> req; req.push_back(t.empty() ? DirectedMarker : (uint32_t)t.size()); req.push_back((uint32_t)js.size()); for (int j : js) req.push_back((uint32_t)j);
    for (auto& s : t) { pbt::Seg c = s; c.resize(KW, 0u); req.insert(req.end(), c.begin(), c.end()); }
    uint32_t n = (uint32_t)req.size();
    if (!writeAll(z.toZ, &n, 4) || !writeAll(z.toZ, req.data(), 4 * (size_t)n)) { z.ok = false; return false; }
    return true;
}
// Collect the next reply. status: 0 ok, -1..-64 child killed by that signal, -1000 no reply, <= -2000 zygote lost
int pristineNext(Trace& tr) {
    Zygote& z = zy(); if (!z.ok) return -2000;
    int32_t status; uint32_t len;
    if (!readAll(z.fromZ, &status, 4) || !readAll(z.fromZ, &len, 4)) { z.ok = false; return -2002; }
    std::vector<unsigned char> buf(len); if (len && !readAll(z.fromZ, buf.data(), len)) { z.ok = false; return -2003; }
    if (status != 0) return status;
    return tr.deserialize(buf) ? 0 : -2004;
}

// ------------------------------------------------------------------ unrelated library calls
struct Rosen : OptimizerSystem {
    explicit Rosen(int n, bool lim) : OptimizerSystem(n) { if (lim) { Vector lo(n), hi(n); lo = -2; hi = 2; setParameterLimits(lo, hi); } }
    int objectiveFunc(const Vector& x, bool, Real& f) const override { f = 0; for (int i = 0; i + 1 < x.size(); ++i) f += 100 * square(x[i + 1] - x[i] * x[i]) + square(1 - x[i]); return 0; }
    int gradientFunc(const Vector& x, bool, Vector& g) const override { g = 0; for (int i = 0; i + 1 < x.size(); ++i) { g[i] += -400 * x[i] * (x[i + 1] - x[i] * x[i]) - 2 * (1 - x[i]); g[i + 1] += 200 * (x[i + 1] - x[i] * x[i]); } return 0; }
};
const char* unrelName[] = {"geometry-query", "mesh-query", "random", "factorization", "optimizer-lbfgs", "optimizer-cmaes", "optimizer-ipopt", "xml-string", "polygonalmesh", "geodesic", "small-simulation"};
const int NumUnrel = 11;

// Returns a hash of all input-determined results. `arg` selects the inputs.
uint64_t unrelated(int kind, uint32_t arg) {
    Hasher H; SplitMix rg{0xC46ull * 1000003ull + arg * 7919ull + (uint64_t)kind};
    try {
    switch (kind) {
    case 0: {
        ContactGeometry::Ellipsoid e(Vec3(0.5 + rg.unit(), 0.5 + rg.unit(), 0.5 + rg.unit())); bool in = false; UnitVec3 n;
        Vec3 p = e.findNearestPoint(Vec3(2 * rg.sym(), 2 * rg.sym(), 2 * rg.sym()), in, n); H.v3(p); H.i(in); H.v3(Vec3(n));
        ContactGeometry::Torus to(1.0 + rg.unit(), 0.2 + 0.2 * rg.unit()); Real d = 0; UnitVec3 nn; bool hit = to.intersectsRay(Vec3(3, 0.1 * rg.sym(), 0.05 * rg.sym()), UnitVec3(Vec3(-1, 0.02 * rg.sym(), 0)), d, nn); H.i(hit); if (hit) { H.d(d); H.v3(Vec3(nn)); }
        ContactGeometry::Cylinder cy(0.3 + rg.unit()); Vec3 sp = cy.calcSupportPoint(UnitVec3(Vec3(rg.sym(), rg.sym(), 0.1))); H.v3(sp);
        ContactGeometry::Sphere sph(0.5 + rg.unit()); hit = sph.intersectsRay(Vec3(3, 0.2 * rg.sym(), 0), UnitVec3(Vec3(-1, 0, 0.01)), d, nn); H.i(hit); if (hit) H.d(d);
        break; }
    case 1: {
        PolygonalMesh pm = PolygonalMesh::createSphereMesh(0.5 + rg.unit(), 1 + (int)(arg & 1u)); ContactGeometry::TriangleMesh tm(pm, (arg & 2u) != 0);
        bool in = false; UnitVec3 n; int face = -1; Vec2 uv;
        for (int k = 0; k < 3; ++k) { Vec3 p = tm.findNearestPoint(Vec3(2 * rg.sym(), 2 * rg.sym(), 2 * rg.sym()), in, face, uv); H.v3(p); H.i(in); H.i(face); H.d(uv[0]); H.d(uv[1]); }
        Real d = 0; bool hit = tm.intersectsRay(Vec3(3, 0.1, 0.05), UnitVec3(Vec3(-1, 0.01, 0.02)), d, n); H.i(hit); if (hit) { H.d(d); H.v3(Vec3(n)); }
        H.i(tm.getNumFaces()); break; }
    case 2: {
        Random::Uniform u0; Random::Gaussian g0;   // default seeds: documented to differ per object -> drawn but NOT hashed
        for (int k = 0; k < 5; ++k) { (void)u0.getValue(); (void)g0.getValue(); }
        Random::Uniform u(-1, 3); u.setSeed((int)(arg % 1000)); Random::Gaussian g(0.5, 2); g.setSeed((int)(arg % 1000) + 5);
        for (int k = 0; k < 8; ++k) { H.d(u.getValue()); H.d(g.getValue()); H.i(u.getIntValue()); }
        Vector v(5); u.fillArray(&v[0], 5); H.vec(v); break; }
    case 3: {
        int n = 3 + (int)(arg % 5); Matrix A(n, n); Vector b(n), x;
        for (int i = 0; i < n; ++i) { b[i] = rg.sym(); for (int j = 0; j < n; ++j) A(i, j) = rg.sym() + (i == j ? 2.0 : 0.0); }
        FactorLU lu(A); lu.solve(b, x); H.vec(x);
        FactorQTZ qtz(A); qtz.solve(b, x); H.vec(x); H.i(qtz.getRank());
        FactorSVD svd(A); Vector sv; svd.getSingularValues(sv); H.vec(sv);
        Matrix S = A + ~A; Eigen eig(S); Vector_<std::complex<Real> > ev; eig.getAllEigenValues(ev); for (int i = 0; i < ev.size(); ++i) { H.d(ev[i].real()); H.d(ev[i].imag()); }
        break; }
    case 4: {
        Rosen sys(2 + (int)(arg % 3), false); Vector x(sys.getNumParameters()); for (int i = 0; i < x.size(); ++i) x[i] = rg.sym();
        Optimizer opt(sys, LBFGS); opt.setConvergenceTolerance(1e-5); opt.setMaxIterations(60); opt.setDiagnosticsLevel(0);
        Real f = NaN; try { f = opt.optimize(x); } catch (const std::exception&) { H.i(-7); } H.d(f); H.vec(x); break; }
    case 5: {
        Rosen sys(2 + (int)(arg % 2), false); Vector x(sys.getNumParameters()); for (int i = 0; i < x.size(); ++i) x[i] = rg.sym();
        Optimizer opt(sys, CMAES); opt.setAdvancedIntOption("seed", 17 + (int)(arg % 7)); opt.setAdvancedRealOption("maxTimeFractionForEigendecomposition", 1);
        opt.setAdvancedRealOption("init_stepsize", 0.3); opt.setMaxIterations(12); opt.setDiagnosticsLevel(0);
        // c-cmaes writes actparcmaes.par / errcmaes.err into the current directory: run it in a scratch directory
        int cwdFd = open(".", O_RDONLY); mkdir("/tmp/verif-C46-cwd", 0755); if (cwdFd >= 0 && chdir("/tmp/verif-C46-cwd") != 0) { close(cwdFd); cwdFd = -1; }
        struct Back { int fd; ~Back() { if (fd >= 0) { int r = fchdir(fd); (void)r; close(fd); } } } back{cwdFd};
        Real f = NaN; try { f = opt.optimize(x); } catch (const std::exception&) { H.i(-7); } H.d(f); H.vec(x); break; }
    case 6: {
        Rosen sys(2, true); Vector x(2); x[0] = rg.sym(); x[1] = rg.sym();
        Optimizer opt(sys, InteriorPoint); opt.setConvergenceTolerance(1e-4); opt.setMaxIterations(6); opt.setDiagnosticsLevel(0);
        Real f = NaN; try { f = opt.optimize(x); } catch (const std::exception&) { H.i(-7); } H.d(f); H.vec(x); break; }
    case 7: {
        Xml::Document doc; doc.setRootTag("verif"); Xml::Element root = doc.getRootElement();
        for (int k = 0; k < 3; ++k) { Xml::Element e("item", String(rg.sym(), "%.17g")); e.setAttributeValue("id", String(k)); root.insertNodeAfter(root.node_end(), e); }
        String txt; doc.writeToString(txt); H.s(txt);
        Xml::Document d2; d2.readFromString(txt); String t2; d2.writeToString(t2); H.s(t2);
        Vec3 v(rg.sym(), rg.sym(), rg.sym()); String sv(v); Vec3 back; bool ok = sv.tryConvertTo(back); H.i(ok); H.v3(back);
        double x = rg.sym() * 1e5; String sx(x, "%.17g"); H.d(sx.convertTo<double>()); H.s(String(x)); break; }
    case 8: {
        PolygonalMesh a = PolygonalMesh::createBrickMesh(Vec3(0.5 + rg.unit(), 1, 0.3), 1 + (int)(arg % 3));
        PolygonalMesh b = PolygonalMesh::createCylinderMesh(UnitVec3(Vec3(rg.sym(), 1, rg.sym())), 0.4, 1.0, 1 + (int)(arg % 2));
        PolygonalMesh c = PolygonalMesh::createSphereMesh(0.7, (int)(arg % 3));
        c.transformMesh(Transform(Rotation(rg.sym(), UnitVec3(Vec3(1, rg.sym(), 0))), Vec3(rg.sym(), 0, 1))); c.scaleMesh(1.5);
        for (PolygonalMesh* pm : {&a, &b, &c}) { H.i(pm->getNumVertices()); H.i(pm->getNumFaces()); for (int v = 0; v < pm->getNumVertices(); v += 3) H.v3(pm->getVertexPosition(v)); for (int f = 0; f < pm->getNumFaces(); f += 5) H.i(pm->getFaceVertex(f, 0)); }
        break; }
    case 9: {
        Vec3 rad(0.5 + rg.unit(), 0.5 + rg.unit(), 0.5 + rg.unit()); ContactGeometry::Ellipsoid e(rad);
        Vec3 p0(rad[0], 0, 0); UnitVec3 tdir(Vec3(0, 1, 0.5 * rg.sym())); GeodesicOptions go; Geodesic geod;
        e.shootGeodesicInDirectionUntilLengthReached(p0, tdir, 0.5 + rg.unit(), go, geod);
        H.i(geod.getNumPoints()); H.d(geod.getLength()); const Array_<Transform>& ff = geod.getFrenetFrames(); if (!ff.empty()) H.v3(ff.back().p());
        break; }
    default: {   // a small unrelated simulation (its own system + integrator), run to completion here
        MultibodySystem sys; SimbodyMatterSubsystem matter(sys); GeneralForceSubsystem forces(sys); forces.setNumberOfThreads(1);
        Force::Gravity(forces, matter, Vec3(0, -9.8, 0));
        Body::Rigid body(MassProperties(1, Vec3(0.1, 0, 0), Inertia(1, 1.1, 1.2)));
        MobilizedBody::Ball a(matter.Ground(), Transform(Vec3(0, 1, 0)), body, Transform(Vec3(0, 0.5, 0)));
        MobilizedBody::Pin b(a, Transform(Vec3(0, -0.5, 0)), body, Transform(Vec3(0, 0.5, 0)));
        if (arg & 1u) Constraint::Rod(matter.Ground(), Vec3(1, 0, 0), b, Vec3(0), 1.5);
        State s = sys.realizeTopology(); s.updU()[0] = rg.sym(); s.updQ()[4] = 0.3 * rg.sym();
        RungeKuttaMersonIntegrator ig(sys); ig.setAccuracy(1e-4); ig.initialize(s); ig.stepTo(0.05);
        H.d(ig.getTime()); H.vec(ig.getState().getY()); break; }
    }
    } catch (const std::exception& e) { H.s(std::string("exception:") + e.what()); }
    return H.h;
}

struct Prof { std::map<std::string, std::pair<double, long> > acc; bool on = getenv("C46_PROF") != nullptr;
    ~Prof() { if (on) for (auto& kv : acc) fprintf(stderr, "PROF %-40s %8.3f s %6ld calls\n", kv.first.c_str(), kv.second.first, kv.second.second); } } prof;
struct Timer { std::string k; std::chrono::steady_clock::time_point t0; explicit Timer(const std::string& key) : k(key), t0(std::chrono::steady_clock::now()) {}
    ~Timer() { if (prof.on) { auto& a = prof.acc[k]; a.first += std::chrono::duration<double>(std::chrono::steady_clock::now() - t0).count(); a.second++; } } };

Trace runProgramAlone(const ProgSpec& P) { Timer tm(std::string("run:") + modelName[P.kind] + "/" + integName[P.integ]); Sim s(P); s.runAll(); return s.tr; }

// Known finding qtz-rank0-multipliers-uninitialized: SimbodyMatterSubsystemRep::calcLoopForwardDynamicsOperator solves
// (G M^-1 ~G) lambda = aerr with FactorQTZ; when that matrix is exactly zero (rank 0: every constrained body is immobile,
// e.g. a Rod between Ground and a body welded to Ground, while nu > 0 elsewhere) FactorQTZRep::doSolve returns without
// writing x, so the multipliers (and, with forced projection, dq/du) are uninitialised heap memory (finding
// C24/qtz-rank0-solve-uninitialized seen through a simulation). Site predicate, on the INPUT: constrained program whose
// G M^-1 ~G (public calcProjectedMInv) is all zero at the initial state, with m > 0 and nu > 0.
bool rank0ConstraintSite(const ProgSpec& P) {
    if (P.kind != M_CONSTRAINED) return false;
    try {
        Sim s(P); s.build(); State& st = s.m->state; if (st.getNU() == 0) return false;
        s.m->sys.realize(st, Stage::Velocity);
        Matrix A; s.m->matter.calcProjectedMInv(st, A); if (A.nrow() == 0) return false;
        for (int i = 0; i < A.nrow(); ++i) for (int j = 0; j < A.ncol(); ++j) if (A(i, j) != 0) return false;
        return true;
    } catch (const std::exception&) { return false; }
}
bool g_noExclusions = false;   // set by directed reproducers


// ------------------------------------------------------------------ isolation histories with prescribed / locked speeds
// A small family of constrained models: a planar chain of nLoop one-dof links whose tip is tied to Ground (Rod / Ball /
// PointInPlane: every mobility of the chain takes part in the constraint) plus nOff links hanging off the chain (outside the
// loop), optionally with ONE mobility whose speed is prescribed (Motion::Steady) or locked (lock / lockAt / lockByDefault).
// Every execution builds a brand new System, State and Integrator; what ran before in this thread must not matter.
const char* prescName[] = {"none", "Motion::Steady", "lock(Velocity)", "lockAt(Velocity)", "lockByDefault(Velocity)", "lock(Position)"};
const char* isoModeName[] = {"integrate", "projectU", "project"};
struct IsoSpec {
    int nLoop = 3, nOff = 1, type[6] = {0, 0, 0, 0, 0, 0}; double len[6], q0[6], u0[6]; double mass = 1; int cons = 0; Vec3 anchorOff = Vec3(0);
    int presc = 0, target = 0; double rate = 1; int mode = 0, integ = 0; double acc = 1e-3, T = 0.2; int nRep = 3;
    int nu() const { return nLoop + nOff; }
    bool targetInLoop() const { return target < nLoop; }
    void describe(std::ostream& o) const { o.precision(17); o << "iso model: loop of " << nLoop << " + " << nOff << " off-loop links, types";
        for (int i = 0; i < nu(); ++i) o << " " << (type[i] ? "Slider" : "Pin"); o << "; constraint " << (cons == 0 ? "Rod" : cons == 1 ? "Ball" : "PointInPlane") << "; prescription " << prescName[presc] << " on link " << target << (targetInLoop() ? " (in the loop)" : " (outside the loop)") << " rate " << rate
          << "; mode " << isoModeName[mode] << " integ " << integName[integ] << " acc " << acc << " T " << T << "; q0/u0:"; for (int i = 0; i < nu(); ++i) o << " " << q0[i] << "/" << u0[i]; o << "\n"; }
};
// wantNu > 0: produce exactly that many mobilities
IsoSpec decodeIso(pbt::Reader& r, int wantNu) {
    IsoSpec X; uint32_t a = r.w(), b = r.w(), c = r.w();
    X.nLoop = 2 + (int)(a % 3); X.nOff = (int)((a >> 2) % 3);
    if (wantNu > 0) { if (wantNu < 2) wantNu = 2; X.nLoop = std::min(X.nLoop, std::min(wantNu, 4)); X.nOff = wantNu - X.nLoop; if (X.nOff > 2) { X.nOff = 2; X.nLoop = wantNu - 2; } }
    X.cons = (int)((a >> 4) % 3);
    X.presc = (int)((a >> 6) % 8); if (X.presc > 5) X.presc = 1;      // Motion::Steady three times as likely
    X.target = (int)((a >> 9) % (uint32_t)X.nu());
    X.mode = ((a >> 12) % 4) == 3 ? 1 + (int)((a >> 14) & 1u) : 0;    // 3/4 integrator-driven, 1/4 direct projectU / project
    static const int igs[] = {I_RKM, I_RK3, I_VERLET, I_RKF, I_SEE2, I_RK2}; X.integ = igs[(a >> 16) % 6];
    X.acc = (a >> 20) & 1u ? 1e-3 : 1e-4; X.T = 0.1 + 0.05 * ((a >> 21) % 4); X.nRep = 2 + (int)((a >> 23) % 3);
    X.mass = 0.5 + ((a >> 25) % 8) * 0.25;
    SplitMix rg{((uint64_t)b << 32) ^ c ^ 0x150ull};
    for (int i = 0; i < 6; ++i) { X.type[i] = rg.pick(4) == 3 ? 1 : 0; X.len[i] = 0.6 + 0.6 * rg.unit(); X.q0[i] = X.type[i] ? 0.2 * rg.sym() : (i == 0 ? 0.3 : 0.9) * (0.3 + 0.7 * rg.unit()) * (rg.pick(2) ? 1 : -1); X.u0[i] = 0.5 + 1.5 * rg.unit(); if (rg.pick(2)) X.u0[i] = -X.u0[i]; }
    X.rate = (0.4 + 1.4 * rg.unit()) * (rg.pick(2) ? 1 : -1);
    X.anchorOff = Vec3(0.3 * rg.sym(), 0.3 * rg.sym(), 0);
    return X;
}
Trace runIso(const IsoSpec& X) {
    Trace tr; Hasher end;
    try {
        MultibodySystem sys; SimbodyMatterSubsystem matter(sys); GeneralForceSubsystem forces(sys); forces.setNumberOfThreads(1);
        Force::Gravity(forces, matter, Vec3(0, -9.81, 0)); Force::GlobalDamper(forces, matter, 0.1);
        std::vector<MobilizedBody> mb; const int n = X.nu();
        auto body = [&](double L) { return Body::Rigid(MassProperties(X.mass, Vec3(0, -L / 2, 0), UnitInertia::cylinderAlongY(0.05, L / 2).shiftFromCentroid(Vec3(0, L / 2, 0)))); };
        auto add = [&](MobilizedBody& parent, const Vec3& at, int i) { Body::Rigid bd = body(X.len[i]);
            if (X.type[i]) mb.push_back(MobilizedBody::Slider(parent, Transform(at), bd, Transform())); else mb.push_back(MobilizedBody::Pin(parent, Transform(at), bd, Transform())); };
        for (int i = 0; i < X.nLoop; ++i) { if (i == 0) add(matter.Ground(), Vec3(0), i); else { MobilizedBody par = mb[i - 1]; add(par, Vec3(0, -X.len[i - 1], 0), i); } }
        for (int k = 0; k < X.nOff; ++k) { const int i = X.nLoop + k; MobilizedBody par = mb[k % X.nLoop]; add(par, Vec3(0, -X.len[k % X.nLoop] / 2, 0.1), i); }
        auto setQU = [&](State& s) { for (int i = 0; i < n; ++i) { mb[i].setOneQ(s, 0, X.q0[i]); mb[i].setOneU(s, 0, X.u0[i]); } };
        // tip position in the initial configuration -> constraint that is satisfied there
        Vec3 tip; { State s0 = sys.realizeTopology(); setQU(s0); sys.realize(s0, Stage::Position); tip = mb[X.nLoop - 1].findStationLocationInGround(s0, Vec3(0, -X.len[X.nLoop - 1], 0)); }
        MobilizedBody last = mb[X.nLoop - 1]; const Vec3 st(0, -X.len[X.nLoop - 1], 0);
        if (X.cons == 0) { Vec3 anchor = tip + Vec3(0.5, -0.6, 0) + X.anchorOff; Constraint::Rod(matter.Ground(), anchor, last, st, (tip - anchor).norm()); }
        else if (X.cons == 1) Constraint::Ball(matter.Ground(), tip, last, st);
        else { UnitVec3 nrm(Vec3(0.4 + X.anchorOff[0], 1, 0)); Constraint::PointInPlane(matter.Ground(), nrm, dot(nrm, tip), last, st); }
        if (X.presc == 1) Motion::Steady(mb[X.target], X.rate);
        if (X.presc == 4) mb[X.target].lockByDefault(Motion::Velocity);
        State s = sys.realizeTopology(); setQU(s);
        if (X.presc == 2) mb[X.target].lock(s, Motion::Velocity);
        if (X.presc == 3) mb[X.target].lockAt(s, X.rate, Motion::Velocity);
        if (X.presc == 5) mb[X.target].lock(s, Motion::Position);
        auto rec = [&](const State& st, int status) { Hasher H; H.i(status); H.d(st.getTime()); H.vec(st.getY()); tr.h.push_back(H.h); tr.t.push_back(st.getTime()); };
        std::ostringstream how;
        if (X.mode == 0) {
            std::unique_ptr<Integrator> ig;
            switch (X.integ) { case I_RK3: ig.reset(new RungeKutta3Integrator(sys)); break; case I_VERLET: ig.reset(new VerletIntegrator(sys)); break; case I_RKF: ig.reset(new RungeKuttaFeldbergIntegrator(sys)); break;
                case I_SEE2: ig.reset(new SemiExplicitEuler2Integrator(sys)); break; case I_RK2: ig.reset(new RungeKutta2Integrator(sys)); break; default: ig.reset(new RungeKuttaMersonIntegrator(sys)); }
            ig->setAccuracy(X.acc); ig->setInternalStepLimit(400);
            bool inited = false;
            try {
                ig->initialize(s); inited = true; rec(ig->getState(), -1);
                for (int k = 1; k <= X.nRep; ++k) { Integrator::SuccessfulStepStatus stt = ig->stepTo(X.T * k / X.nRep); rec(ig->getState(), (int)stt); }
                how << "done";
            } catch (const std::exception& e) { how << "exception: " << e.what(); }
            if (inited) how << " | steps=" << ig->getNumStepsTaken() << " attempted=" << ig->getNumStepsAttempted() << " errTestFailures=" << ig->getNumErrorTestFailures() << " qProjections=" << ig->getNumQProjections()
                << " uProjections=" << ig->getNumUProjections() << " projectionFailures=" << ig->getNumProjectionFailures() << " realizations=" << ig->getNumRealizations();
        } else {
            try {
                for (int pass = 0; pass < 2; ++pass) {
                    if (X.mode == 1) { sys.realize(s, Stage::Position); sys.projectU(s, X.acc * 1e-2); } else sys.project(s, X.acc * 1e-2);
                    rec(s, pass);
                    // second pass from perturbed free speeds (the prescribed ones are set again by the projection)
                    for (int i = 0; i < n; ++i) mb[i].setOneU(s, 0, mb[i].getOneU(s, 0) + 0.1 * (i + 1));
                }
                how << "done";
            } catch (const std::exception& e) { how << "exception: " << e.what(); }
            how << " | projectQ calls=" << sys.getNumProjectQCalls() << " projectU calls=" << sys.getNumProjectUCalls() << " failed=" << sys.getNumFailedProjectQCalls() + sys.getNumFailedProjectUCalls();
        }
        tr.end = how.str();
    } catch (const std::exception& e) { tr.end = std::string("build-exception: ") + e.what(); }
    end.s(tr.end); tr.h.push_back(end.h); tr.t.push_back(-1);
    return tr;
}

// ------------------------------------------------------------------ the property
void property(const pbt::Tape& t, pbt::Ctx& ctx) {
    pbt::Reader g(t[0]);
    const int nUnits = (int)t.size() - 1;
    SplitMix sched{((uint64_t)g.w() << 32) ^ g.w() ^ 0x5EEDull};
    const int pUnrel = 1 + g.pick(4);            // an unrelated call after a step with probability pUnrel/4
    const bool dupInstances = !g.chance(1, 4);   // interleave two live instances of program 0 as well
    const int nProg = std::max(2, std::min(4, std::max(nUnits, 2 + g.pick(3))));   // units are used cyclically

    std::vector<ProgSpec> P; for (int j = 0; j < nProg; ++j) P.push_back(decodeProgram(t, j));
    if (ctx.wantDesc) { ctx.desc << nProg << " programs; unrelated-call probability " << pUnrel << "/4; duplicate live instances: " << dupInstances << "\n"; for (auto& p : P) p.describe(ctx.desc); }
    int distinct = 0; for (int j = 0; j < nProg; ++j) { bool dup = false; for (int i = 0; i < j; ++i) if (P[i].words == P[j].words) dup = true; if (!dup) ++distinct; }
    for (auto& p : P) { ctx.label(std::string("model:") + modelName[p.kind]); ctx.label(std::string("integ:") + integName[p.integ]); if (p.kind == M_CONSTRAINED) ctx.label(std::string("constraint:") + consName[p.var % 4]);
        if (p.fixedStep) ctx.label("opt:fixedStep"); if (p.everyStep) ctx.label("opt:everyInternalStep"); if (p.projEvery) ctx.label("opt:projectEveryStep"); if (p.setFinal) ctx.label("opt:finalTime"); if (p.noInterp) ctx.label("opt:noInterpolation"); }

    // unrelated calls: remember the first result per (kind,arg); a repeat must be bit-identical
    std::map<std::pair<int, uint32_t>, uint64_t> unrelSeen; int nUnrel = 0; std::string unrelFail;
    auto doUnrelated = [&]() {
        int kind = sched.pick(NumUnrel); uint32_t arg = (uint32_t)sched.pick(3); ++nUnrel;
        uint64_t h; { Timer tm(std::string("unrelated:") + unrelName[kind]); h = unrelated(kind, arg); }
        auto key = std::make_pair(kind, arg); auto it = unrelSeen.find(key);
        if (it == unrelSeen.end()) unrelSeen[key] = h;
        else if (it->second != h && unrelFail.empty()) unrelFail = std::string("unrelated call '") + unrelName[kind] + "' (arg " + std::to_string(arg) + ") returned different bits when repeated with the same inputs in this process";
        ctx.label(std::string("unrelated:") + unrelName[kind]);
    };

    std::vector<char> excluded(nProg, 0);
    for (int j = 0; j < nProg; ++j) if (!g_noExclusions && rank0ConstraintSite(P[j]) && ctx.known("qtz-rank0-multipliers-uninitialized")) { excluded[j] = 1; ctx.label("excluded:qtz-rank0-multipliers-uninitialized"); }
    // (1) pristine children: all started now, they run while this process does phase (2)
    std::vector<Trace> ref(nProg), alone(nProg);
    { std::vector<int> js; for (int j = 0; j < nProg; ++j) js.push_back(j); if (!pristineBegin(t, js)) { ctx.reject("zygote-unavailable"); return; } }
    // (2) alone, in order
    for (int j = 0; j < nProg; ++j) alone[j] = runProgramAlone(P[j]);
    bool lost = false;
    for (int j = 0; j < nProg; ++j) {
        int st; { Timer tm("child-wait"); st = pristineNext(ref[j]); }
        if (st <= -2000) { lost = true; continue; }
        if (st != 0) { if (!ctx.failed) ctx.fail("program " + std::to_string(j) + ": pristine child process died (status " + std::to_string(st) + ") but the same program completes in this process with " + std::to_string(alone[j].h.size()) + " returned states"); continue; }
        if (ref[j].end.rfind("child-exception", 0) == 0) { ctx.fail("program " + std::to_string(j) + ": " + ref[j].end); continue; }
        std::string e = ref[j].end.substr(0, 9) == "exception" ? "exception" : ref[j].end; ctx.label("end:" + e);
        size_t ns = ref[j].h.size(); ctx.label(ns <= 4 ? "states:<=4" : ns <= 12 ? "states:5-12" : ns <= 50 ? "states:13-50" : "states:>50");
    }
    if (lost) { ctx.reject("zygote-unavailable"); return; }
    if (ctx.failed) return;
    auto compare = [&](int j, const Trace& got, const char* how) {
        if (excluded[j]) return true;     // still executed (it takes part in the interleaving), but not judged
        std::string d = diffTraces(got, ref[j]);
        if (!d.empty()) ctx.fail("program " + std::to_string(j) + " (" + modelName[P[j].kind] + ", " + integName[P[j].integ] + "): execution '" + how + "' in this process differs from the pristine child process: " + d);
        return d.empty();
    };
    for (int j = 0; j < nProg; ++j) if (!compare(j, alone[j], "alone")) return;
    // (3) repeated in reverse order with unrelated calls in between; every program twice in a row
    for (int j = nProg - 1; j >= 0; --j) {
        if (sched.pick(4) < pUnrel) doUnrelated();
        if (!compare(j, runProgramAlone(P[j]), "repeated (reverse order)")) return;
        if (j == 0 && !compare(j, runProgramAlone(P[j]), "repeated immediately")) return;
    }
    // (4) step-wise interleaved: all programs live at once (+ a second instance of program 0), random order of steps
    int interleavedPrograms = 0, unrelBetween = 0;
    {
        std::vector<std::unique_ptr<Sim> > live; std::vector<int> which;
        for (int j = 0; j < nProg; ++j) { live.emplace_back(new Sim(P[j])); which.push_back(j); }
        if (dupInstances) { live.emplace_back(new Sim(P[0])); which.push_back(0); }
        interleavedPrograms = distinct;
        for (;;) {
            std::vector<int> alive; for (size_t i = 0; i < live.size(); ++i) if (!live[i]->done) alive.push_back((int)i);
            if (alive.empty()) break;
            int i = alive[sched.pick((int)alive.size())];
            int burst = 1 + sched.pick(3); for (int b = 0; b < burst && !live[i]->done; ++b) live[i]->step();
            if (sched.pick(4) < pUnrel) { doUnrelated(); if (alive.size() >= 2) ++unrelBetween; }
        }
        for (size_t i = 0; i < live.size(); ++i) if (!compare(which[i], live[i]->tr, "step-wise interleaved")) return;
        // destroy in generated order (destruction order must not matter either)
        while (!live.empty()) { int i = sched.pick((int)live.size()); live.erase(live.begin() + i); }
    }
    // (5) once more alone after everything
    { int j = sched.pick(nProg); if (!compare(j, runProgramAlone(P[j]), "alone, after the interleaved phase")) return; }
    // (6) isolation histories generated inside the case: a constrained model X that (usually) has a prescribed or locked speed is
    //     executed, then unrelated models of the same family ("intruders": with a good chance the same number of mobilities, all of
    //     them free and taking part in a velocity projection, or the SAME model before the lock / motion is applied), then X again
    //     with a brand new System / State / Integrator: bit-identical returned states, end status and step / projection statistics.
    pbt::Reader gi(t[0]); gi.skip(8);
    for (int hist = 0; hist < 4; ++hist) {     // four independent histories per case (10 words of segment 0 each; a few ms each)
        const uint32_t sw = gi.w();
        IsoSpec X = decodeIso(gi, 0); if ((sw & 7u) == 0) X.presc = 0;                       // 1/8: X itself has nothing prescribed
        IsoSpec Y[2]; bool sameNu = false, sameUnlocked = false;
        for (int k = 0; k < 2; ++k) { const uint32_t m = (sw >> (3 + 4 * k)) & 15u;
            Y[k] = decodeIso(gi, (m & 3u) != 0 ? X.nu() : 0);                                  // 3/4: the same number of mobilities
            if ((m >> 2) == 1) { IsoSpec same = X; same.presc = 0; same.mode = Y[k].mode; Y[k] = same; sameUnlocked = true; }   // the same model, not yet locked / driven
            else if ((m >> 2) != 2) Y[k].presc = 0;                                           // mostly: every mobility of the intruder is free
            if (Y[k].nu() == X.nu() && (Y[k].presc == 0 || Y[k].target != X.target)) sameNu = true; }
        if (ctx.wantDesc) { ctx.desc << "isolation history " << hist << ": intruder 0, X, intruder 1, X, X, intruder 0\n X: "; X.describe(ctx.desc); ctx.desc << " intruder 0: "; Y[0].describe(ctx.desc); ctx.desc << " intruder 1: "; Y[1].describe(ctx.desc); }
        Trace y0 = runIso(Y[0]); Trace a = runIso(X); Trace y1 = runIso(Y[1]); Trace b = runIso(X); Trace c2 = runIso(X); Trace y0b = runIso(Y[0]);
        (void)y1;
        auto cmp = [&](const Trace& p, const Trace& q, const std::string& what) { std::string d = diffTraces(p, q);
            if (!d.empty() && p.end != q.end) d += "; runs end: '" + p.end.substr(0, 600) + "' vs '" + q.end.substr(0, 600) + "'";
            if (!d.empty()) { std::ostringstream o; o << "isolation history (" << what << "): the same model (" << (X.presc ? std::string("with ") + prescName[X.presc] + (X.targetInLoop() ? " inside" : " outside") + " the constrained loop" : std::string("nothing prescribed"))
                << ", " << isoModeName[X.mode] << ") built and run again in this process gives a different result: " << d; ctx.fail(o.str()); }
            return d.empty(); };
        if (!cmp(a, b, "X after intruder 0 vs X after intruder 1")) return;
        if (!cmp(b, c2, "X after intruder 1 vs X repeated immediately")) return;
        if (!cmp(y0, y0b, "intruder 0 first in the history vs after X")) return;
        ctx.label("isolation:history");
        if (sameNu) ctx.label("isolation:same-nu-intruder"); if (sameUnlocked) ctx.label("isolation:same-model-before-lock");
        if (X.presc) { ctx.label("isolation:prescribed+constrained"); ctx.label(std::string("isolation:presc:") + prescName[X.presc]); ctx.label(X.targetInLoop() ? "isolation:target-in-loop" : "isolation:target-off-loop"); }
        else if (Y[0].presc || Y[1].presc) ctx.label("isolation:prescribed-intruder-first");
        ctx.label(std::string("isolation:mode:") + isoModeName[X.mode]);
        ctx.label(a.end.rfind("done", 0) == 0 ? "isolation:end:done" : "isolation:end:exception");
    }
    if (!unrelFail.empty()) { ctx.fail(unrelFail); return; }
    ctx.label(std::string("programs:") + std::to_string(nProg)); ctx.label(std::string("distinct-programs:") + std::to_string(distinct));
    ctx.label(nUnrel == 0 ? "unrelated-calls:0" : nUnrel <= 3 ? "unrelated-calls:1-3" : "unrelated-calls:4+");
    ctx.nontrivial(interleavedPrograms >= 2 && unrelBetween >= 1);
}

pbt::Config config() {
    pbt::Config c; c.prop = "C46"; c.K = KW; c.minUnits = 2;
    c.quick = {12, 400, 8, 22}; c.thorough = {100, 6000, 10, 200};
    c.caseTimeoutSecs = 300;
    c.rule = "rapidcheck tape -> 2..4 programs (unit j = program words + body unit; bodies of program j = units j, j+1, ... cyclic): model kind {mbgen tree + 7 force elements, + constraint {Rod, PointInPlane, ConstantSpeed, Ball}, GeneralContactSubsystem HuntCrossley spheres/half space, + ElasticFoundation triangle mesh, ContactTracker + CompliantContact sphere/ellipsoid/mesh}, 1..4 bodies of all 18 mobilizer types, integrator {RKM, RK3, RKF, Verlet, RK2, ExplicitEuler, SemiExplicitEuler, SemiExplicitEuler2, CPodes BDF, CPodes Adams} with generated accuracy/step/projection/interpolation/final-time options, horizon 0.02..0.3, 1..5 report times; GeneralForceSubsystem::setNumberOfThreads(1). Each program is executed by a pristine child process (forked from a zygote created before main), then in this process alone, repeated in reverse order, twice in a row, step-wise interleaved with the other programs and a second live instance of itself, and once more afterwards, with unrelated library calls (geometry and mesh queries, Random, LU/QTZ/SVD/Eigen, LBFGS, CMA-ES fixed seed, IPOPT, Xml/String, PolygonalMesh, geodesics, another simulation) in between. Non-trivial: >= 2 different programs interleaved step-wise with >= 1 unrelated call while >= 2 were live.";
    c.assumptions = {"the hash covers status, t, y, qdot, udot, multipliers, energy, last body pose and angular velocity, step sizes, integrator statistics and exception texts; other outputs are not observed",
                     "the pristine child is forked from a zygote that was forked before main(): library static initializers have run, nothing else",
                     "a run that ends by a library exception (step limit, step size too small, projection failure) is a legal deterministic outcome: its text is part of the hash",
                     "default-seeded Random objects are documented to differ per object and are drawn but not compared"};
    c.directed.push_back({"rod-on-welded-body-multipliers", "qtz-rank0-multipliers-uninitialized", [](pbt::Ctx& ctx) {
        ProgSpec P = directedProgram(0); if (ctx.wantDesc) P.describe(ctx.desc);
        Trace ref; int st = pristineBegin(pbt::Tape(), std::vector<int>{0}) ? pristineNext(ref) : -2000; if (st != 0) { ctx.desc << "pristine child unavailable (status " << st << ")\n"; return; }
        Trace a = runProgramAlone(P);
        // change the history of the heap (freed small blocks hold allocator links), then run again
        std::vector<double*> keep; for (int i = 0; i < 4000; ++i) keep.push_back(new double(777.0 + i));
        for (size_t i = 0; i < keep.size(); i += 2) { delete keep[i]; keep[i] = nullptr; }
        Trace b = runProgramAlone(P);
        for (double* p : keep) delete p;
        std::string d1 = diffTraces(a, ref), d2 = diffTraces(b, ref);
        ctx.desc << "in-process vs pristine child: " << (d1.empty() ? "identical" : d1) << "; after heap churn vs pristine child: " << (d2.empty() ? "identical" : d2) << "\n";
        if (!d1.empty()) ctx.fail("Rod between Ground and a body welded to Ground (G M^-1 ~G = 0, rank 0): trajectory hash incl. multipliers differs from the pristine child process: " + d1);
        else if (!d2.empty()) ctx.fail("Rod between Ground and a body welded to Ground (G M^-1 ~G = 0, rank 0): trajectory hash incl. multipliers changes with the history of the heap: " + d2);
    }});
    c.requiredLabels = {"model:tree+forces", "model:constrained", "model:huntcrossley", "model:elasticfoundation-mesh", "model:compliantcontact", "integ:RungeKuttaMerson", "integ:Verlet", "integ:CPodesBDF", "integ:SemiExplicitEuler2",
                        "isolation:history", "isolation:same-nu-intruder", "isolation:prescribed+constrained", "isolation:same-model-before-lock", "isolation:target-in-loop", "isolation:target-off-loop", "isolation:mode:integrate", "isolation:mode:projectU", "isolation:mode:project", "isolation:end:done",
                        "unrelated:optimizer-cmaes", "unrelated:factorization", "unrelated:mesh-query", "unrelated:random", "unrelated:xml-string", "unrelated:polygonalmesh", "end:done"};
    return c;
}
} // namespace

PBT_MAIN(config(), property)
