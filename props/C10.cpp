// C10 -- Prescribed motion and locks are honoured exactly (DESIGN.md 5, C10).
// Domain: mbgen trees (1..6 bodies, all mobilizer types, reversed, frames, Euler/quaternion) where a random subset of
// the mobilizers carries a prescription (gen/presc.h): Motion::Steady, Motion::Sinusoid and a Motion::Custom polynomial /
// axis-angle trajectory at Position, Velocity or Acceleration level, lock(), lockAt(values) (scalar / Vec<N> / Vector
// signatures), lockByDefault() at the three levels, a Motion created disabled-by-default and enabled in the State, a
// Steady rate changed in the State, a lock placed on top of an active Motion; random time, gravity, applied mobility
// forces and body wrenches (Force::DiscreteForces).
// Oracle after System::prescribe (or realize(Time)/prescribeQ/realize(Position)/prescribeU) + realize(Acceleration):
//  (R1) values: prescribed q = formula(t) (4 ulp) or the lock value (bitwise); prescribed u = formula'(t) resp. the
//       velocity-level formula / lock value / 0; prescribed udot = formula'' resp. d/dt(velocity formula) / acceleration
//       formula / lock value / 0. Where qdot != u (Ball, Free, Ellipsoid; Euler or quaternion) the comparison is made on
//       the reported qdot = N u and qdotdot = N udot + Ndot u (the Custom trajectory is a unit quaternion with tangent
//       derivative, so N N^-1 is the identity on it). Everything NOT prescribed keeps its value bitwise (q, u).
//       lock()/lockAt() side effects on the State as documented; calcMotionErrors == 0 at the three levels with the
//       documented lengths; getMotionMultipliers has one entry per known udot; findMotionForces is its scatter.
//  (M1) twin: the same model without any Motion/lock at the same (t,q,u) with mobility forces f - tau reproduces ALL udot
//       (sign per header: M udot + tau = f).
//  (D1) inverse dynamics: calcResidualForceIgnoringConstraints(applied forces, udot) == -tau (0 on free mobilities).
//  (D2) calcMotionPower == -tau.u
//  (R2) multiplyByMInv / calcMInv: prescribed rows (and columns) exactly zero, prescribed entries of the argument not
//       examined (NaN-poisoned), free block == inverse of the free block of MY reference mass matrix (refdyn).
//  Constraint stage (1/3 of the cases, 1-2 Ball/Rod constraints, state not assembled): R1 (prescribed values are untouched by
//       the constraint solve), D1 in the form calcResidualForce(applied, udot, lambda) == -tau (M udot + ~G lambda + tau = f),
//       D2, R2 and the non-dynamic part of M2 are judged; the twin comparisons (M1, release udot) only without constraints.
//  (H)  same-State history: on the State already realized to Acceleration, first the run-time parameters (Steady::setRate /
//       setOneRate, lockAt with new values, lock at another level, unlock, new locks, Motion::disable / enable), then only u,
//       only q, only t, then parameters again are changed; after each step prescribe + realize must give my own evaluation of
//       the documented motion with the NEW parameters and must agree (q, u bitwise; udot, qdot, qdotdot, multipliers, motion
//       errors, power to 1e-12) with a FRESH State that received the same t, q, u and parameters before its first realization.
//  (M2) release: unlock() + Motion::disable() on every mobilizer => no multipliers, prescribe() changes nothing, udot ==
//       the twin's free udot; a lock on top of a Motion: after unlock() alone the Motion is back in control.
#include "pbt.h"
#include "mbgen.h"
#include "refdyn.h"
#include "presc.h"
using namespace SimTK;

namespace {
std::string S(double a) { return pbt::str(a); }
typedef presc::Rng Rng;
const Real Eps = 2.220446049250313e-16;
bool bitEq(double a, double b) { return std::memcmp(&a, &b, sizeof a) == 0 || (a == 0 && b == 0); }   // +0/-0 are the same value
bool near(double a, double b, double scale) { return std::abs(a - b) <= 4 * Eps * (std::abs(a) + std::abs(b) + scale); }

// what a body's mobilizer is subject to
struct Eff {
    int kind = presc::None, level = 2;        // effective prescription (the lock if a lock overrides a Motion)
    bool qKnown() const { return kind != presc::None && level == 2; }
    bool uKnown() const { return kind != presc::None && level >= 1; }
    bool udKnown() const { return kind != presc::None; }
};

struct ConSpec { int type = 0, b1 = 0, b2 = 1; Vec3 p1, p2; double len = 1; };

struct Model {
    mbgen::Built m; std::vector<Motion> motion; Force::DiscreteForces disc;
    Model(const mbgen::ModelSpec& spec, const std::vector<presc::MotionSpec>* mot, const Vec3& grav, int gravKind, const std::vector<ConSpec>* cons = nullptr) : m(spec), disc(m.forces, m.matter) {
        if (cons) for (auto& c : *cons) { if (c.type == 0) Constraint::Ball(m.mb[c.b1], c.p1, m.mb[c.b2], c.p2); else Constraint::Rod(m.mb[c.b1], c.p1, m.mb[c.b2], c.p2, c.len); }
        const int nb = spec.nBodies(); motion.resize(nb + 1);
        if (mot) for (int i = 1; i <= nb; ++i) {
            const presc::MotionSpec& ms = (*mot)[i];
            motion[i] = presc::addMotion(m.mb[i], ms, mbgen::mobNU(spec.bodies[i - 1].type));
            if (ms.isMotion() && (ms.variant & 1)) motion[i].setDisabledByDefault(true);
        }
        if (gravKind == 0) Force::Gravity(m.forces, m.matter, grav); else if (gravKind == 1) Force::UniformGravity(m.forces, m.matter, grav);
        m.finish(spec);
    }
};

void lockAtBySignature(const MobilizedBody& mb, State& s, const double* v, int n, Motion::Level lvl, int sig) {
    if (n == 1 && sig % 3 == 0) { mb.lockAt(s, v[0], lvl); return; }
    if (sig % 3 == 1) switch (n) {
        case 1: mb.lockAt(s, Vec<1>(v[0]), lvl); return; case 2: mb.lockAt(s, Vec2(v[0], v[1]), lvl); return; case 3: mb.lockAt(s, Vec3(v[0], v[1], v[2]), lvl); return;
        case 4: mb.lockAt(s, Vec4(v[0], v[1], v[2], v[3]), lvl); return; case 5: mb.lockAt(s, Vec<5>(v[0], v[1], v[2], v[3], v[4]), lvl); return;
        case 6: mb.lockAt(s, Vec6(v[0], v[1], v[2], v[3], v[4], v[5]), lvl); return; case 7: mb.lockAt(s, Vec<7>(v[0], v[1], v[2], v[3], v[4], v[5], v[6]), lvl); return; }
    Vector vv(n); for (int k = 0; k < n; ++k) vv[k] = v[k]; mb.lockAt(s, vv, lvl);
}

// Gaussian elimination with partial pivoting (my own): solve A X = B in place; returns false if singular
bool solveDense(Matrix A, Matrix& B) {
    const int n = A.nrow(), m = B.ncol();
    for (int c = 0; c < n; ++c) {
        int p = c; for (int r = c + 1; r < n; ++r) if (std::abs(A(r, c)) > std::abs(A(p, c))) p = r;
        if (A(p, c) == 0) return false;
        if (p != c) { for (int j = 0; j < n; ++j) std::swap(A(p, j), A(c, j)); for (int j = 0; j < m; ++j) std::swap(B(p, j), B(c, j)); }
        for (int r = c + 1; r < n; ++r) { Real f = A(r, c) / A(c, c); if (f == 0) continue; for (int j = c; j < n; ++j) A(r, j) -= f * A(c, j); for (int j = 0; j < m; ++j) B(r, j) -= f * B(c, j); }
    }
    for (int c = n - 1; c >= 0; --c) for (int j = 0; j < m; ++j) { Real x = B(c, j); for (int k = c + 1; k < n; ++k) x -= A(c, k) * B(k, j); B(c, j) = x / A(c, c); }
    return true;
}

void property(const pbt::Tape& t, pbt::Ctx& ctx) {
    pbt::Reader g(t[0]);
    mbgen::Options opt; opt.maxBodies = 6; opt.allowUnnormalizedQuat = false;
    mbgen::ModelSpec spec = mbgen::decodeModel(t, 1, (int)t.size() - 1, g, opt);
    const int nb = spec.nBodies(), NB = nb + 1;
    const double tCase = g.real(0, 2);
    Vec3 grav(g.real(-10, 10), g.real(-10, 10), g.real(-10, 10)); const int gravKind = g.pick(3);
    Rng rng{(uint64_t)g.w() * 0x100000001ull + 9090};
    const double fMag = g.logreal(0.01, 100), FMag = g.logreal(0.01, 100);
    const bool zeroF = g.chance(1, 8), zeroMob = g.chance(1, 8);
    const bool useSystemPrescribe = g.boolean();
    // constraint stage (1/3 of the cases): 1-2 Constraint::Ball / Rod between different random bodies (Ground allowed)
    std::vector<ConSpec> cons;
    {   uint32_t w = g.w(); int nCons = (w == 0 || w % 3u != 1) ? 0 : 1 + int((w >> 3) & 1u);
        for (int c = 0; c < 2; ++c) { ConSpec cs; cs.type = g.pick(2); cs.b1 = g.pick(NB); cs.b2 = g.pick(NB); if (cs.b2 == cs.b1) cs.b2 = (cs.b1 + 1) % NB;
            cs.p1 = mbgen::readVec3(g, -0.7, 0.7); cs.p2 = mbgen::readVec3(g, -0.7, 0.7); cs.len = g.logreal(0.3, 2); if (c < nCons) cons.push_back(cs); } }
    std::vector<presc::MotionSpec> mot(NB); std::vector<int> overLock(NB, -1);   // overLock: level of a lock placed on top of a Motion
    for (int i = 1; i <= nb; ++i) {
        static const pbt::Seg zero(mbgen::K, 0u); const pbt::Seg& seg = i < (int)t.size() ? t[i] : zero;
        uint32_t a = seg.size() > 49 ? seg[49] : 0, b = seg.size() > 50 ? seg[50] : 0, c = seg.size() > 51 ? seg[51] : 0;
        mot[i] = presc::decodeMotion(a, b, spec.bodies[i - 1], spec.euler, tCase, 5);
        if (mot[i].isMotion() && c != 0 && c % 5u == 1) overLock[i] = int((c >> 4) % 3u);
    }
    if (ctx.wantDesc) {
        spec.describe(ctx.desc);
        ctx.desc << "t=" << tCase << " gravity(kind " << gravKind << ")=" << grav << " fMag=" << fMag << " FMag=" << FMag << " zeroF=" << zeroF << " zeroMobForces=" << zeroMob << " System::prescribe=" << useSystemPrescribe << "\n";
        for (int i = 1; i <= nb; ++i) { presc::describe(ctx.desc, i, mot[i]); if (overLock[i] >= 0) ctx.desc << "   + lock(" << presc::levelName(overLock[i]) << ") on top of the Motion\n"; }
        for (auto& c : cons) ctx.desc << " constraint " << (c.type == 0 ? "Ball" : "Rod") << " bodies " << c.b1 << "," << c.b2 << " p1=" << c.p1 << " p2=" << c.p2 << " len=" << c.len << "\n";
    }
    mbgen::labelModel(ctx, spec);

    Model P(spec, &mot, grav, gravKind, &cons), T(spec, nullptr, grav, gravKind);
    const bool constrained = !cons.empty();
    State& s = P.m.state; const SimbodyMatterSubsystem& matter = P.m.matter;
    const int nu = s.getNU(), nq = s.getNQ();
    if (nu == 0) { ctx.reject("nu=0"); return; }
    const Vector qDef = s.getQ(), uDef = s.getU();     // defaults: what lockByDefault recorded at realizeModel
    P.m.setState(spec);

    // ---- effective prescriptions and expectations
    std::vector<Eff> eff(NB); std::vector<int> q0(NB, 0), u0(NB, 0), nqb(NB, 0), nub(NB, 0);
    for (int i = 1; i <= nb; ++i) { const MobilizedBody& mb = P.m.mb[i]; q0[i] = (int)mb.getFirstQIndex(s); u0[i] = (int)mb.getFirstUIndex(s); nqb[i] = mb.getNumQ(s); nub[i] = mb.getNumU(s); }
    // lockAt(Position) must SET q: start those mobilizers from the reference configuration (zeros / identity quaternion);
    // their u != 0 must be zeroed by the position lock
    for (int i = 1; i <= nb; ++i) if (mot[i].kind == presc::LockAt && mot[i].level == 2) for (int k = 0; k < nqb[i]; ++k) s.updQ()[q0[i] + k] = ((nqb[i] == 4 || nqb[i] == 7) && k == 0) ? 1.0 : 0.0;
    // known finding cantileverfreebeam-default-q-uninitialized: CantileverFreeBeamImpl's constructor leaves defaultQ uninitialised
    // (Vec3 default constructor), so the default state's q of such a mobilizer -- which lockByDefault(Position) records -- is
    // heap garbage (possibly NaN) instead of the documented identity rotation. Site predicate on the INPUT: a CantileverFreeBeam
    // locked by default at Position level; nothing in such a case can be judged (the garbage enters every kinematic quantity).
    for (int i = 1; i <= nb; ++i) if (spec.bodies[i - 1].type == mbgen::CantileverFreeBeam && mot[i].kind == presc::LockDefault && mot[i].level == 2) {
        if (ctx.known("cantileverfreebeam-default-q-uninitialized")) { ctx.label("excluded:cantileverfreebeam-default-q-uninitialized"); return; }
        for (int k = 0; k < 3; ++k) if (!(qDef[q0[i] + k] == 0)) { ctx.fail("body " + std::to_string(i) + ": default q[" + std::to_string(k) + "] of a CantileverFreeBeam is " + S(qDef[q0[i] + k]) + "; documented default is the identity rotation (0,0,0)"); return; }
    }
    // state-level operations in body order
    std::vector<std::vector<double>> lockQ(NB), lockU(NB);     // recorded lock values
    std::vector<char> motOn(NB, 0); std::vector<int> lockLvl(NB, -1);   // current configuration (used by the history steps)
    for (int i = 1; i <= nb; ++i) {
        const presc::MotionSpec& ms = mot[i]; const MobilizedBody& mb = P.m.mb[i];
        eff[i].kind = ms.kind; eff[i].level = ms.level;
        if (ms.isMotion() && (ms.variant & 1)) {
            if (!ctx.check(P.motion[i].isDisabledByDefault() && P.motion[i].isDisabled(s), "Motion created with setDisabledByDefault(true) is not reported disabled in the default state")) return;
            P.motion[i].enable(s);
            if (!ctx.check(!P.motion[i].isDisabled(s), "Motion::enable did not enable the Motion")) return;
        }
        if (ms.kind == presc::Steady && (ms.variant & 2)) {   // change the rate in the State: all mobilities get the new rate
            const Motion::Steady& st = Motion::Steady::downcast(P.motion[i]); const double r2 = ms.lockVal[6];
            if ((ms.variant & 4) && nub[i] >= 2) { st.setOneRate(s, MobilizerUIndex(1), r2); mot[i].rate[1] = r2; if (ms.steadyScalar) { mot[i].steadyScalar = false; } }
            else { st.setRate(s, r2); for (int k = 0; k < 6; ++k) mot[i].rate[k] = r2; }
        }
        motOn[i] = ms.isMotion();
        const Vector qBefore = s.getQ(), uBefore = s.getU();
        int lockLevel = -1; bool at = false;
        if (ms.kind == presc::Lock) lockLevel = ms.level; else if (ms.kind == presc::LockAt) { lockLevel = ms.level; at = true; } else if (overLock[i] >= 0) lockLevel = overLock[i];
        if (ms.kind == presc::LockDefault) {
            if (!ctx.check(mb.isLockedByDefault() && mb.getLockByDefaultLevel() == ms.mlevel() && mb.getLockLevel(s) == ms.mlevel(), "lockByDefault level not reported by getLockByDefaultLevel/getLockLevel")) return;
            lockQ[i].assign(nqb[i], 0); lockU[i].assign(nub[i], 0);
            for (int k = 0; k < nqb[i]; ++k) lockQ[i][k] = qDef[q0[i] + k];
            for (int k = 0; k < nub[i]; ++k) lockU[i][k] = ms.level == 1 ? uDef[u0[i] + k] : 0;
            lockLvl[i] = ms.level;
        }
        if (lockLevel >= 0) {
            const Motion::Level lvl = lockLevel == 0 ? Motion::Acceleration : lockLevel == 1 ? Motion::Velocity : Motion::Position;
            lockQ[i].assign(nqb[i], 0); lockU[i].assign(nub[i], 0);
            if (at) {
                const int n = lockLevel == 2 ? nqb[i] : nub[i];
                lockAtBySignature(mb, s, ms.lockVal, n, lvl, ms.variant >> 1);
                for (int k = 0; k < n; ++k) (lockLevel == 2 ? lockQ[i][k] : lockU[i][k]) = ms.lockVal[k];
            } else {
                mb.lock(s, lvl);
                for (int k = 0; k < nqb[i]; ++k) lockQ[i][k] = qBefore[q0[i] + k];
                for (int k = 0; k < nub[i]; ++k) lockU[i][k] = lockLevel == 1 ? uBefore[u0[i] + k] : 0;    // acceleration lock() prescribes udot = 0
            }
            eff[i].kind = at ? presc::LockAt : presc::Lock; eff[i].level = lockLevel; lockLvl[i] = lockLevel;
            // documented side effects on the state, and nothing else touched
            if (!ctx.check(mb.isLocked(s) && mb.getLockLevel(s) == lvl, "body " + std::to_string(i) + ": getLockLevel does not report the lock just placed")) return;
            {   Vector lv = mb.getLockValueAsVector(s); const int n = lockLevel == 2 ? nqb[i] : nub[i];
                if (!ctx.check(lv.size() == n, "body " + std::to_string(i) + ": getLockValueAsVector has length " + std::to_string(lv.size()) + ", expected " + std::to_string(n))) return;
                for (int k = 0; k < n; ++k) if (!bitEq(lv[k], lockLevel == 2 ? lockQ[i][k] : lockU[i][k])) { ctx.fail("body " + std::to_string(i) + ": getLockValueAsVector[" + std::to_string(k) + "]=" + S(lv[k]) + " is not the value locked (" + S(lockLevel == 2 ? lockQ[i][k] : lockU[i][k]) + ") at " + presc::levelName(lockLevel) + " level"); return; } }
            for (int j = 0; j < nq; ++j) { bool mine = j >= q0[i] && j < q0[i] + nqb[i]; double want = (mine && lockLevel == 2) ? lockQ[i][j - q0[i]] : qBefore[j];
                if (!bitEq(s.getQ()[j], want)) { ctx.fail("body " + std::to_string(i) + " " + (at ? "lockAt" : "lock") + "(" + presc::levelName(lockLevel) + "): q[" + std::to_string(j) + "] in the state is " + S(s.getQ()[j]) + ", documented " + S(want)); return; } }
            for (int j = 0; j < nu; ++j) { bool mine = j >= u0[i] && j < u0[i] + nub[i]; double want = !mine ? uBefore[j] : lockLevel == 2 ? 0.0 : (lockLevel == 1 && at) ? lockU[i][j - u0[i]] : uBefore[j];
                if (!bitEq(s.getU()[j], want)) {
                    if (mine && lockLevel == 1 && at && ctx.known("lockat-velocity-u-not-set")) { ctx.label("excluded:lockat-velocity-u-not-set"); continue; }
                    ctx.fail("body " + std::to_string(i) + " " + (at ? "lockAt" : "lock") + "(" + presc::levelName(lockLevel) + "): u[" + std::to_string(j) + "] in the state is " + S(s.getU()[j]) + " right after the call, documented " + S(want)); return; } }
        }
    }
    const Vector qPre = s.getQ(), uPre = s.getU();
    s.setTime(tCase);
    Vector f(nu); Vector_<SpatialVec> F(NB);
    for (int i = 0; i < nu; ++i) f[i] = zeroMob ? 0 : fMag * rng.next();
    for (int b = 0; b < NB; ++b) F[b] = zeroF ? SpatialVec(Vec3(0), Vec3(0)) : FMag * SpatialVec(Vec3(rng.next(), rng.next(), rng.next()), Vec3(rng.next(), rng.next(), rng.next()));
    P.disc.setAllMobilityForces(s, f); P.disc.setAllBodyForces(s, F);

    // ---- expected values
    std::vector<double> qExp(nq, 0), qdExp(nq, 0), qddExp(nq, 0), uExp(nu, 0), udExp(nu, 0);
    std::vector<char> qK(nq, 0), uK(nu, 0), udK(nu, 0), qdFromTraj(nq, 0), exact(nu, 0);  // exact: value must be bitwise (locks, zeros)
    auto expectMotion = [&](int i, double tt) {
        const presc::MotionSpec& ms = mot[i]; const bool quat = nqb[i] == 4 || nqb[i] == 7;
        double v[7], vd[7], vdd[7];
        if (ms.level == 2) { presc::evalLevelFunction(ms, tt, nqb[i], quat, v, vd, vdd);
            for (int k = 0; k < nqb[i]; ++k) { qK[q0[i] + k] = 1; qExp[q0[i] + k] = v[k]; qdExp[q0[i] + k] = vd[k]; qddExp[q0[i] + k] = vdd[k]; qdFromTraj[q0[i] + k] = 1; }
            for (int k = 0; k < nub[i]; ++k) { uK[u0[i] + k] = 2; udK[u0[i] + k] = 2; } }          // 2: judged through qdot / qdotdot
        else if (ms.level == 1) { presc::evalLevelFunction(ms, tt, nub[i], false, v, vd, vdd);
            for (int k = 0; k < nub[i]; ++k) { uK[u0[i] + k] = 1; uExp[u0[i] + k] = v[k]; udK[u0[i] + k] = 1; udExp[u0[i] + k] = vd[k]; if (ms.kind == presc::Steady) exact[u0[i] + k] = 1; } }
        else { presc::evalLevelFunction(ms, tt, nub[i], false, v, vd, vdd); for (int k = 0; k < nub[i]; ++k) { udK[u0[i] + k] = 1; udExp[u0[i] + k] = v[k]; } }
    };
    auto expectAll = [&](const std::vector<Eff>& E, double tt) {
        std::fill(qK.begin(), qK.end(), 0); std::fill(uK.begin(), uK.end(), 0); std::fill(udK.begin(), udK.end(), 0); std::fill(qdFromTraj.begin(), qdFromTraj.end(), 0); std::fill(exact.begin(), exact.end(), 0);
        for (int i = 1; i <= nb; ++i) {
            if (E[i].kind == presc::None) continue;
            if (E[i].kind == presc::Steady || E[i].kind == presc::Sinusoid || E[i].kind == presc::Traj) { expectMotion(i, tt); continue; }
            // locks
            for (int k = 0; k < nub[i]; ++k) { exact[u0[i] + k] = 1; udK[u0[i] + k] = 1; udExp[u0[i] + k] = E[i].level == 0 ? lockU[i][k] : 0.0; }
            if (E[i].level >= 1) for (int k = 0; k < nub[i]; ++k) { uK[u0[i] + k] = 1; uExp[u0[i] + k] = E[i].level == 1 ? lockU[i][k] : 0.0; }
            if (E[i].level == 2) for (int k = 0; k < nqb[i]; ++k) { qK[q0[i] + k] = 3; qExp[q0[i] + k] = lockQ[i][k]; }       // 3: bitwise
        }
    };
    expectAll(eff, tCase);
    int nKnownQ = 0, nKnownU = 0, nKnownUd = 0; for (int j = 0; j < nq; ++j) if (qK[j]) nKnownQ++; for (int j = 0; j < nu; ++j) { if (uK[j]) nKnownU++; if (udK[j]) nKnownUd++; }

    // ---- classification
    bool anyPresc = nKnownUd > 0, interior = false;
    {   std::vector<int> par(NB, 0); for (int i = 1; i <= nb; ++i) par[i] = spec.bodies[i - 1].parent;
        for (int i = 1; i <= nb; ++i) { if (eff[i].kind == presc::None) continue;
            bool freeAnc = false; for (int a = par[i]; a > 0; a = par[a]) if (eff[a].kind == presc::None && nub[a] > 0) freeAnc = true;
            bool freeDesc = false; for (int d = i + 1; d <= nb; ++d) { bool under = false; for (int a = par[d]; a > 0; a = par[a]) if (a == i) under = true; if (under && eff[d].kind == presc::None && nub[d] > 0) freeDesc = true; }
            if (freeAnc && freeDesc) interior = true; } }
    ctx.nontrivial(interior && nKnownUd >= 2);
    ctx.label(anyPresc ? "prescribed" : "no-prescription"); if (interior) ctx.label("interior-prescribed");
    ctx.label(nKnownUd == nu ? "all-prescribed" : nKnownUd == 0 ? "none-prescribed" : "mixed");
    for (int i = 1; i <= nb; ++i) if (eff[i].kind != presc::None) { ctx.label(std::string("presc:") + presc::kindName(eff[i].kind) + "/" + presc::levelName(eff[i].level) + (mbgen::mobQDotIsU(spec.bodies[i - 1].type) ? "" : "/qdot!=u"));
        if (overLock[i] >= 0) ctx.label("lock-over-motion"); if (mot[i].isMotion() && (mot[i].variant & 1)) ctx.label("motion-disabled-by-default+enable"); if (mot[i].kind == presc::Steady && (mot[i].variant & 2)) ctx.label("steady-rate-set-in-state"); }
    ctx.label(useSystemPrescribe ? "route:System::prescribe" : "route:prescribeQ/prescribeU");
    ctx.label(constrained ? "constrained" : "unconstrained"); if (constrained && anyPresc) ctx.label("constrained+prescribed");

    // ---- prescribe + realize
    auto prescribeAndRealize = [&](State& st, bool viaSystem) {
        if (viaSystem) P.m.sys.prescribe(st);
        else { P.m.sys.realize(st, Stage::Time); P.m.sys.prescribeQ(st); P.m.sys.realize(st, Stage::Position); P.m.sys.prescribeU(st); }
        P.m.sys.realize(st, Stage::Acceleration);
    };
    // checks the values in a realized state against the current expectation; qRef/uRef: values that free variables must keep
    auto judgeValues = [&](const State& st, const Vector& qRef, const Vector& uRef, const std::string& phase) -> bool {
        const Vector& q = st.getQ(); const Vector& u = st.getU(); const Vector& ud = st.getUDot(); const Vector& qd = st.getQDot(); const Vector& qdd = st.getQDotDot();
        Real uMax = 1 + refdyn::maxAbs(u);
        for (int j = 0; j < nq; ++j) {
            if (!qK[j]) { if (!bitEq(q[j], qRef[j])) { ctx.fail(phase + "free coordinate q[" + std::to_string(j) + "] was changed by prescribe from " + S(qRef[j]) + " to " + S(q[j])); return false; } continue; }
            if (qK[j] == 3 ? !bitEq(q[j], qExp[j]) : !near(q[j], qExp[j], 1)) { ctx.fail(phase + "prescribed q[" + std::to_string(j) + "]=" + S(q[j]) + " but the prescription gives " + S(qExp[j])); return false; }
            if (qdFromTraj[j]) {
                if (!(std::abs(qd[j] - qdExp[j]) <= 1e3 * Eps * (std::abs(qdExp[j]) + uMax))) { ctx.fail(phase + "qdot[" + std::to_string(j) + "]=" + S(qd[j]) + " of a position-prescribed mobilizer differs from d/dt of the prescribed trajectory " + S(qdExp[j])); return false; }
                if (!(std::abs(qdd[j] - qddExp[j]) <= 1e4 * Eps * (std::abs(qddExp[j]) + uMax * uMax))) { ctx.fail(phase + "qdotdot[" + std::to_string(j) + "]=" + S(qdd[j]) + " of a position-prescribed mobilizer differs from the second derivative of the prescribed trajectory " + S(qddExp[j])); return false; }
            }
        }
        for (int j = 0; j < nu; ++j) {
            if (!uK[j]) { if (!bitEq(u[j], uRef[j])) { ctx.fail(phase + "free speed u[" + std::to_string(j) + "] was changed by prescribe from " + S(uRef[j]) + " to " + S(u[j])); return false; } }
            else if (uK[j] == 1 && (exact[j] ? !bitEq(u[j], uExp[j]) : !near(u[j], uExp[j], 1))) { ctx.fail(phase + "prescribed u[" + std::to_string(j) + "]=" + S(u[j]) + " but the prescription gives " + S(uExp[j])); return false; }
            if (udK[j] == 1 && (exact[j] ? !bitEq(ud[j], udExp[j]) : !near(ud[j], udExp[j], 1))) { ctx.fail(phase + "prescribed udot[" + std::to_string(j) + "]=" + S(ud[j]) + " but the prescription gives " + S(udExp[j])); return false; }
        }
        // qdot == u mobilizers prescribed at position level: u and udot directly
        for (int i = 1; i <= nb; ++i) if (mbgen::mobQDotIsU(spec.bodies[i - 1].type)) for (int k = 0; k < nub[i]; ++k) { int ju = u0[i] + k, jq = q0[i] + k;
            if (uK[ju] == 2 && !near(u[ju], qdExp[jq], 1)) { ctx.fail(phase + "u[" + std::to_string(ju) + "]=" + S(u[ju]) + " but the derivative of the prescribed q(t) is " + S(qdExp[jq])); return false; }
            if (udK[ju] == 2 && !near(ud[ju], qddExp[jq], 1)) { ctx.fail(phase + "udot[" + std::to_string(ju) + "]=" + S(ud[ju]) + " but the second derivative of the prescribed q(t) is " + S(qddExp[jq])); return false; } }
        // motion errors
        const Stage stages[3] = {Stage::Position, Stage::Velocity, Stage::Acceleration}; const int want[3] = {nKnownQ, nKnownU, nKnownUd};
        for (int k = 0; k < 3; ++k) { Vector e = matter.calcMotionErrors(st, stages[k]);
            if (e.size() != want[k]) { ctx.fail(phase + "calcMotionErrors(" + stages[k].getName() + ") has " + std::to_string(e.size()) + " entries, expected one per known value = " + std::to_string(want[k])); return false; }
            Real tol = k == 0 ? 8 * Eps * 4 : k == 1 ? 1e3 * Eps * uMax : 1e4 * Eps * (uMax * uMax + refdyn::maxAbs(ud));
            for (int j = 0; j < e.size(); ++j) if (!(std::abs(e[j]) <= tol)) { ctx.fail(phase + "calcMotionErrors(" + stages[k].getName() + ")[" + std::to_string(j) + "]=" + S(e[j]) + " after prescribe/realize"); return false; } }
        // multipliers
        const Vector& tauP = matter.getMotionMultipliers(st); Vector tau; matter.findMotionForces(st, tau);
        if (tauP.size() != nKnownUd) { ctx.fail(phase + "getMotionMultipliers has " + std::to_string(tauP.size()) + " entries for " + std::to_string(nKnownUd) + " known udots"); return false; }
        if (tau.size() != nu) { ctx.fail(phase + "findMotionForces returned " + std::to_string(tau.size()) + " entries, nu=" + std::to_string(nu)); return false; }
        for (int j = 0, p = 0; j < nu; ++j) { if (udK[j]) { if (!bitEq(tau[j], tauP[p])) { ctx.fail(phase + "findMotionForces[" + std::to_string(j) + "] is not multiplier " + std::to_string(p)); return false; } ++p; } else if (tau[j] != 0) { ctx.fail(phase + "findMotionForces[" + std::to_string(j) + "]=" + S(tau[j]) + " on a free mobility"); return false; } }
        return true;
    };
    try { prescribeAndRealize(s, useSystemPrescribe); }
    catch (const std::exception&) { if (constrained) { ctx.reject("constraint-solve-refused"); return; } throw; }
    const Vector lambda = s.getMultipliers();
    if (constrained) {   // multipliers that blew up (constraints between relatively immobile bodies, C08's subject): nothing to judge
        Real appScale = 1 + fMag + FMag + grav.norm() * 20 * 8; bool bad = false;
        for (int i = 0; i < lambda.size(); ++i) if (!std::isfinite(lambda[i]) || std::abs(lambda[i]) > 1e8 * appScale) bad = true;
        for (int i = 0; i < nu; ++i) if (!std::isfinite(s.getUDot()[i])) bad = true;
        if (bad) { ctx.reject("constraint-multiplier-blowup"); return; }
    }
    if (!judgeValues(s, qPre, uPre, "")) return;
    Vector tau; matter.findMotionForces(s, tau);
    const Vector udotP = s.getUDot();

    // ---- reference mass matrix (twin, same q) and conditioning
    State& ts = T.m.state; ts.setTime(tCase); ts.updQ() = s.getQ(); ts.updU() = s.getU();
    T.m.sys.realize(ts, Stage::Velocity);
    auto J = refdyn::referenceJacobian(T.m.sys, T.m.matter, ts); auto si = refdyn::bodyInertias(T.m.matter, ts);
    Matrix Mref = refdyn::referenceM(J, si); std::vector<Real> ev; refdyn::symEig(Mref, ev);
    if (!(ev.front() > 0) || !(ev.back() / ev.front() < 1e8)) { ctx.reject("ill-conditioned-reference"); return; }
    const Real kappa = ev.back() / ev.front(), lmin = ev.front();
    // force scale: applied + inertial, row-wise without cancellation
    const Vector& fApp = P.m.sys.getMobilityForces(s, Stage::Dynamics); const Vector_<SpatialVec>& FApp = P.m.sys.getRigidBodyForces(s, Stage::Dynamics);
    Real fScale = 0;
    {   auto V = refdyn::bodyVelocities(matter, s);
        Vector_<SpatialVec> Fc(NB); Fc = SpatialVec(Vec3(0), Vec3(0)); Vector fc(nu); fc = 0;
        if (constrained && lambda.size()) matter.calcConstraintForcesFromMultipliers(s, lambda, Fc, fc);
        for (int i = 0; i < nu; ++i) { Real a = std::abs(fApp[i]) + std::abs(tau[i]) + std::abs(fc[i]);
            for (int b = 1; b < NB; ++b) a += J[i][b][0].norm() * Fc[b][0].norm() + J[i][b][1].norm() * Fc[b][1].norm();
            for (int b = 1; b < NB; ++b) { SpatialVec gy = refdyn::gyro(si[b], V[b]); const SpatialVec& A = matter.getMobilizedBody(MobilizedBodyIndex(b)).getBodyAcceleration(s); SpatialVec ma = refdyn::mul(si[b], A);
                a += J[i][b][0].norm() * (ma[0].norm() + gy[0].norm() + FApp[b][0].norm()) + J[i][b][1].norm() * (ma[1].norm() + gy[1].norm() + FApp[b][1].norm()); }
            fScale = std::max(fScale, a); }
        if (constrained && lambda.size()) { Vector Gtl; matter.multiplyByGTranspose(s, lambda, Gtl); fScale += refdyn::maxAbs(Gtl); }
        fScale += 1e-300; }
    const Real tolUd = 100 * Eps * nu * (kappa * refdyn::maxAbs(udotP) + fScale / lmin) + 1e-300;
    Real worstTwin = 0, worstRes = 0, worstMInv = 0;

    // ---- (M1) twin driven with f - tau reproduces all udot
    Vector udotFree;   // twin with f only (for M2)
    if (!constrained) {
        T.disc.setAllBodyForces(ts, F);
        Vector fm = f - tau; T.disc.setAllMobilityForces(ts, fm);
        T.m.sys.realize(ts, Stage::Acceleration);
        const Vector& udT = ts.getUDot();
        for (int i = 0; i < nu; ++i) { worstTwin = std::max(worstTwin, std::abs(udT[i] - udotP[i]) / tolUd * 100);
            if (!(std::abs(udT[i] - udotP[i]) <= tolUd)) { ctx.fail("twin model without prescription driven by f - tau gives udot[" + std::to_string(i) + "]=" + S(udT[i]) + " but the prescribed system has " + S(udotP[i]) + " (tol " + S(tolUd) + (udK[i] ? ", prescribed mobility)" : ", free mobility)")); return; } }
        T.disc.setAllMobilityForces(ts, f); T.m.sys.realize(ts, Stage::Acceleration); udotFree = ts.getUDot();
    }
    // ---- (D1) inverse dynamics residual == -tau
    {
        Vector r;
        if (constrained) matter.calcResidualForce(s, fApp, FApp, udotP, lambda, r);      // M udot + ~G lambda + f_inertial - f_applied = -tau
        else matter.calcResidualForceIgnoringConstraints(s, fApp, FApp, udotP, r);
        const Real tol = 1e3 * Eps * nu * std::sqrt(kappa) * fScale;
        for (int i = 0; i < nu; ++i) { worstRes = std::max(worstRes, std::abs(r[i] + tau[i]) / tol * 1e3);
            if (!(std::abs(r[i] + tau[i]) <= tol)) { ctx.fail(std::string("inverse dynamics residual") + (constrained ? " (with constraint multipliers)" : "") + "[" + std::to_string(i) + "]=" + S(r[i]) + " is not -tau = " + S(-tau[i]) + " (M udot + ~G lambda + tau = f; tol " + S(tol) + ")"); return; } }
    }
    // ---- (D2) power
    {
        Real pw = matter.calcMotionPower(s), ref = 0, sc = 0; for (int i = 0; i < nu; ++i) { ref -= tau[i] * s.getU()[i]; sc += std::abs(tau[i] * s.getU()[i]); }
        if (!(std::abs(pw - ref) <= 16 * Eps * nu * sc + 1e-300)) { ctx.fail("calcMotionPower=" + S(pw) + " but -tau.u=" + S(ref)); return; }
    }
    // ---- (R2) multiplyByMInv / calcMInv restricted to the free mobilities
    {
        std::vector<int> fr; for (int j = 0; j < nu; ++j) if (!udK[j]) fr.push_back(j);
        const int nf = (int)fr.size();
        Matrix MInv; matter.calcMInv(s, MInv);
        if (!ctx.check(MInv.nrow() == nu && MInv.ncol() == nu, "calcMInv is not nu x nu")) return;
        for (int i = 0; i < nu; ++i) for (int j = 0; j < nu; ++j) if ((udK[i] || udK[j]) && MInv(i, j) != 0) { ctx.fail("calcMInv(" + std::to_string(i) + "," + std::to_string(j) + ")=" + S(MInv(i, j)) + " in a prescribed row/column (documented zero)"); return; }
        Vector v(nu), w; for (int j = 0; j < nu; ++j) v[j] = udK[j] ? NaN : rng.next();     // prescribed entries "are not examined"
        matter.multiplyByMInv(s, v, w);
        if (!ctx.check(w.size() == nu, "multiplyByMInv wrong size")) return;
        for (int j = 0; j < nu; ++j) if (udK[j] && !(w[j] == 0)) { ctx.fail("multiplyByMInv result[" + std::to_string(j) + "]=" + S(w[j]) + " on a prescribed mobility (documented zero; prescribed entries of the argument were NaN)"); return; }
        if (nf > 0) {
            Matrix Mff(nf, nf), X(nf, nf + 1); X = 0; for (int a = 0; a < nf; ++a) { for (int b = 0; b < nf; ++b) Mff(a, b) = Mref(fr[a], fr[b]); X(a, a) = 1; X(a, nf) = v[fr[a]]; }
            if (!solveDense(Mff, X)) { ctx.reject("singular-free-block"); return; }
            Real xs = 0; for (int a = 0; a < nf; ++a) for (int b = 0; b <= nf; ++b) xs = std::max(xs, std::abs(X(a, b)));
            const Real tol = 1e3 * Eps * nu * kappa * xs + 1e-300;
            for (int a = 0; a < nf; ++a) { for (int b = 0; b < nf; ++b) { worstMInv = std::max(worstMInv, std::abs(MInv(fr[a], fr[b]) - X(a, b)) / tol * 1e3);
                    if (!(std::abs(MInv(fr[a], fr[b]) - X(a, b)) <= tol)) { ctx.fail("calcMInv(" + std::to_string(fr[a]) + "," + std::to_string(fr[b]) + ")=" + S(MInv(fr[a], fr[b])) + " but the inverse of the free block of the reference mass matrix has " + S(X(a, b)) + " (tol " + S(tol) + ")"); return; } }
                if (!(std::abs(w[fr[a]] - X(a, nf)) <= tol)) { ctx.fail("multiplyByMInv result[" + std::to_string(fr[a]) + "]=" + S(w[fr[a]]) + " but M_ff^-1 f_f (reference) = " + S(X(a, nf)) + " (tol " + S(tol) + ")"); return; } }
        }
    }
    // ---- (M2) release
    {
        bool anyOver = false; for (int i = 1; i <= nb; ++i) if (overLock[i] >= 0) anyOver = true;
        if (anyOver) {   // unlock only: the Motions resume control
            State s2 = s; std::vector<Eff> e2 = eff;
            for (int i = 1; i <= nb; ++i) if (overLock[i] >= 0) { P.m.mb[i].unlock(s2); e2[i].kind = mot[i].kind; e2[i].level = mot[i].level;
                if (!ctx.check(!P.m.mb[i].isLocked(s2), "unlock() left the mobilizer locked")) return; }
            // give the formerly locked mobilizers non-trivial q/u again so that prescribe has something to do
            for (int i = 1; i <= nb; ++i) if (overLock[i] >= 0) { for (int k = 0; k < nqb[i]; ++k) s2.updQ()[q0[i] + k] = spec.bodies[i - 1].q[k]; for (int k = 0; k < nub[i]; ++k) s2.updU()[u0[i] + k] = spec.zeroU ? 0.0 : spec.bodies[i - 1].u[k]; }
            const Vector q2 = s2.getQ(), u2 = s2.getU();
            expectAll(e2, tCase);
            nKnownQ = nKnownU = nKnownUd = 0; for (int j = 0; j < nq; ++j) if (qK[j]) nKnownQ++; for (int j = 0; j < nu; ++j) { if (uK[j]) nKnownU++; if (udK[j]) nKnownUd++; }
            try { prescribeAndRealize(s2, !useSystemPrescribe); }
            catch (const std::exception&) { if (constrained) { ctx.reject("constraint-solve-refused"); return; } throw; }
            if (!judgeValues(s2, q2, u2, "after unlock() of a lock placed over a Motion: ")) return;
        }
        State s3 = s;
        for (int i = 1; i <= nb; ++i) { P.m.mb[i].unlock(s3); if (P.m.mb[i].hasMotion()) P.m.mb[i].getMotion().disable(s3); }
        for (int i = 1; i <= nb; ++i) if (!ctx.check(!P.m.mb[i].isLocked(s3) && (!P.m.mb[i].hasMotion() || (P.m.mb[i].getMotion().isDisabled(s3) && P.m.mb[i].getMotion().getLevel(s3) == Motion::NoLevel)), "unlock()/Motion::disable() not reflected by isLocked/isDisabled/getLevel")) return;
        const Vector q3 = s3.getQ(), u3 = s3.getU();
        if (!ctx.check(bitEq((q3 - s.getQ()).norm(), 0) && bitEq((u3 - s.getU()).norm(), 0), "unlock()/Motion::disable() changed q or u")) return;
        P.m.sys.realize(s3, Stage::Time); bool cq = P.m.sys.prescribeQ(s3); P.m.sys.realize(s3, Stage::Position); bool cu = P.m.sys.prescribeU(s3);
        if (!ctx.check(!cq && !cu, "prescribeQ/prescribeU report a change although nothing is prescribed any more")) return;
        for (int j = 0; j < nq; ++j) if (!bitEq(s3.getQ()[j], q3[j])) { ctx.fail("after release prescribeQ changed q[" + std::to_string(j) + "]"); return; }
        for (int j = 0; j < nu; ++j) if (!bitEq(s3.getU()[j], u3[j])) { ctx.fail("after release prescribeU changed u[" + std::to_string(j) + "]"); return; }
        try { P.m.sys.realize(s3, Stage::Acceleration); }
        catch (const std::exception&) { if (constrained) { ctx.reject("constraint-solve-refused"); return; } throw; }
        if (!ctx.check(matter.getMotionMultipliers(s3).size() == 0, "motion multipliers remain after unlock()/disable()")) return;
        for (int k = 0; k < 3; ++k) if (!ctx.check(matter.calcMotionErrors(s3, k == 0 ? Stage::Position : k == 1 ? Stage::Velocity : Stage::Acceleration).size() == 0, "calcMotionErrors not empty after release")) return;
        const Real tol3 = 100 * Eps * nu * (kappa * refdyn::maxAbs(udotFree) + fScale / lmin) + 1e-300;
        if (!constrained) for (int i = 0; i < nu; ++i) if (!(std::abs(s3.getUDot()[i] - udotFree[i]) <= tol3)) { ctx.fail("after unlock()/Motion::disable() udot[" + std::to_string(i) + "]=" + S(s3.getUDot()[i]) + " differs from the free twin's " + S(udotFree[i]) + " (tol " + S(tol3) + ")"); return; }
    }
    // ---- (H) same-State history: run-time parameters of the prescriptions, then u, q and t are changed one kind at a time on
    // the SAME State (already realized to Acceleration, caches populated); after each step prescribe + realize must give
    // (i) the values of MY evaluation of the documented motion with the NEW parameters and (ii) exactly what a FRESH State
    // (default state, same t,q,u, same parameters set before its first realization) gives.
    {
        double tNow = tCase; bool route = !useSystemPrescribe;
        auto deriveEff = [&]() { for (int i = 1; i <= nb; ++i) {
            if (lockLvl[i] >= 0) { eff[i].kind = presc::LockAt; eff[i].level = lockLvl[i]; }
            else if (mot[i].isMotion() && motOn[i]) { eff[i].kind = mot[i].kind; eff[i].level = mot[i].level; }
            else { eff[i].kind = presc::None; eff[i].level = 2; } } };
        auto lvlOf = [](int l) { return l == 0 ? Motion::Acceleration : l == 1 ? Motion::Velocity : Motion::Position; };
        auto cmpVec = [&](const Vector& a, const Vector& b, const std::string& what, const std::string& phase, bool bitwise) -> bool {
            if (a.size() != b.size()) { ctx.fail(phase + what + " has " + std::to_string(a.size()) + " entries on the same State but " + std::to_string(b.size()) + " on a fresh State"); return false; }
            Real sc = 1; for (int j = 0; j < a.size(); ++j) sc = std::max(sc, std::abs(b[j]));
            for (int j = 0; j < a.size(); ++j) if (bitwise ? !bitEq(a[j], b[j]) : !(std::abs(a[j] - b[j]) <= 1e-12 * sc)) {
                ctx.fail(phase + what + "[" + std::to_string(j) + "]=" + S(a[j]) + " on the State with history, but " + S(b[j]) + " on a fresh State with the same t, q, u and parameters"); return false; }
            return true; };
        // returns 0 ok, 1 failed, 2 rejected
        auto runStep = [&](const std::string& name) -> int {
            const std::string phase = "history step '" + name + "' on the same State: ";
            const Vector qB = s.getQ(), uB = s.getU();
            deriveEff(); expectAll(eff, tNow);
            nKnownQ = nKnownU = nKnownUd = 0; for (int j = 0; j < nq; ++j) if (qK[j]) nKnownQ++; for (int j = 0; j < nu; ++j) { if (uK[j]) nKnownU++; if (udK[j]) nKnownUd++; }
            route = !route;
            try { prescribeAndRealize(s, route); }
            catch (const std::exception&) { if (constrained) { ctx.reject("constraint-solve-refused"); return 2; } throw; }
            if (constrained) for (int j = 0; j < nu; ++j) if (!std::isfinite(s.getUDot()[j])) { ctx.reject("constraint-multiplier-blowup"); return 2; }
            if (!judgeValues(s, qB, uB, phase)) return 1;
            // fresh State
            State sF = P.m.sys.getDefaultState();
            P.m.matter.setUseEulerAngles(sF, spec.euler); P.m.sys.realizeModel(sF);
            sF.updQ() = qB; sF.updU() = uB;
            for (int i = 1; i <= nb; ++i) { const MobilizedBody& mb = P.m.mb[i];
                if (mot[i].isMotion()) { if (motOn[i]) P.motion[i].enable(sF); else P.motion[i].disable(sF);
                    if (mot[i].kind == presc::Steady) { const Motion::Steady& st = Motion::Steady::downcast(P.motion[i]); for (int k = 0; k < nub[i]; ++k) st.setOneRate(sF, MobilizerUIndex(k), mot[i].rate[k]); } }
                if (lockLvl[i] >= 0) { const int n = lockLvl[i] == 2 ? nqb[i] : nub[i]; Vector v(n); for (int k = 0; k < n; ++k) v[k] = lockLvl[i] == 2 ? lockQ[i][k] : lockU[i][k]; mb.lockAt(sF, v, lvlOf(lockLvl[i])); }
                else mb.unlock(sF); }
            sF.setTime(tNow); P.disc.setAllMobilityForces(sF, f); P.disc.setAllBodyForces(sF, F);
            try { prescribeAndRealize(sF, route); }
            catch (const std::exception&) { if (constrained) { ctx.reject("constraint-solve-refused"); return 2; } throw; }
            if (!cmpVec(s.getQ(), sF.getQ(), "q", phase, true) || !cmpVec(s.getU(), sF.getU(), "u", phase, true)) return 1;
            if (!cmpVec(s.getUDot(), sF.getUDot(), "udot", phase, false) || !cmpVec(s.getQDot(), sF.getQDot(), "qdot", phase, false) || !cmpVec(s.getQDotDot(), sF.getQDotDot(), "qdotdot", phase, false)) return 1;
            if (!cmpVec(matter.getMotionMultipliers(s), matter.getMotionMultipliers(sF), "motion multiplier", phase, false)) return 1;
            if (!cmpVec(s.getMultipliers(), sF.getMultipliers(), "constraint multiplier", phase, false)) return 1;
            for (int k = 0; k < 3; ++k) { const Stage st = k == 0 ? Stage::Position : k == 1 ? Stage::Velocity : Stage::Acceleration;
                if (!cmpVec(matter.calcMotionErrors(s, st), matter.calcMotionErrors(sF, st), std::string("calcMotionErrors(") + st.getName() + ")", phase, false)) return 1; }
            { Real a = matter.calcMotionPower(s), b = matter.calcMotionPower(sF); if (!(std::abs(a - b) <= 1e-12 * (1 + std::abs(a) + std::abs(b)))) { ctx.fail(phase + "calcMotionPower=" + S(a) + " on the State with history, " + S(b) + " on a fresh State"); return 1; } }
            return 0; };
        auto pick = [&](int n) { int k = int((rng.next() + 1) * 0.5 * n); return k < 0 ? 0 : k >= n ? n - 1 : k; };
        auto newLock = [&](int i, int lvl, bool at) {      // place / replace a lock on the same State; q is never touched by me
            const MobilizedBody& mb = P.m.mb[i]; lockQ[i].assign(nqb[i], 0); lockU[i].assign(nub[i], 0);
            if (at) { double v[7]; for (int k = 0; k < nub[i]; ++k) { v[k] = 2 * rng.next(); lockU[i][k] = v[k]; } lockAtBySignature(mb, s, v, nub[i], lvlOf(lvl), pick(3)); }   // levels 0/1 only
            else { for (int k = 0; k < nqb[i]; ++k) lockQ[i][k] = s.getQ()[q0[i] + k]; for (int k = 0; k < nub[i]; ++k) lockU[i][k] = lvl == 1 ? s.getU()[u0[i] + k] : 0.0; mb.lock(s, lvlOf(lvl)); }
            lockLvl[i] = lvl; };
        // H1: parameters only
        auto paramStep = [&](bool second) { bool any = false;
            for (int i = 1; i <= nb; ++i) { if (nub[i] == 0) continue; const int op = pick(6);
                const bool motionActive = lockLvl[i] < 0 && mot[i].isMotion() && motOn[i];
                if (second && mot[i].isMotion() && !motOn[i]) { P.motion[i].enable(s); motOn[i] = 1; ctx.label("history:motion-enable"); any = true; continue; }
                if (motionActive && mot[i].kind == presc::Steady && op <= 3) { const Motion::Steady& st = Motion::Steady::downcast(P.motion[i]); const double r3 = 2 * rng.next();
                    if (op <= 1 || nub[i] == 1) { st.setRate(s, r3); for (int k = 0; k < 6; ++k) mot[i].rate[k] = r3; ctx.label("history:steady-setRate"); }
                    else { const int k = pick(nub[i]); st.setOneRate(s, MobilizerUIndex(k), r3); mot[i].rate[k] = r3; ctx.label("history:steady-setOneRate"); }
                    if (!bitEq(st.getOneRate(s, MobilizerUIndex(0)), mot[i].rate[0])) { ctx.fail("Motion::Steady::getOneRate does not report the rate just set"); return -1; }
                    any = true; }
                else if (lockLvl[i] >= 0) {
                    if (op <= 1) { const int lvl = lockLvl[i] == 2 ? pick(2) : lockLvl[i]; ctx.label(lvl == lockLvl[i] ? "history:lock-value-change" : "history:lock-level-change"); newLock(i, lvl, true); any = true; }
                    else if (op == 2) { const int lvl = (lockLvl[i] + 1 + pick(2)) % 3; newLock(i, lvl, false); ctx.label("history:lock-level-change"); any = true; }
                    else if (op <= 4) { P.m.mb[i].unlock(s); lockLvl[i] = -1; ctx.label("history:unlock"); any = true; } }
                else if (motionActive) {
                    if (op % 2 == 0) { P.motion[i].disable(s); motOn[i] = 0; ctx.label("history:motion-disable"); any = true; }
                    else { newLock(i, pick(3), false); ctx.label("history:lock-over-motion"); any = true; } }
                else if (op <= 2) { if (op == 0) newLock(i, pick(3), false); else newLock(i, pick(2), true); ctx.label("history:new-lock"); any = true; }
            }
            return any ? 1 : 0; };
        int r = paramStep(false); if (r < 0) return;
        if (r > 0) { ctx.label("history:parameters-only"); if (runStep("parameter change (t, q unchanged)") != 0) return; }
        deriveEff(); expectAll(eff, tNow);      // (the masks may be those of the M2 block)
        // H2: u only (free speeds get new values, prescribed speeds are scribbled on and must be restored)
        for (int j = 0; j < nu; ++j) s.updU()[j] = uK[j] ? s.getU()[j] + 0.5 : 2 * rng.next();
        ctx.label("history:u-only"); if (runStep("u changed") != 0) return;
        // H3: q only (free non-quaternion coordinates move a little inside their domains; prescribed q are scribbled on)
        for (int i = 1; i <= nb; ++i) { const bool quat = nqb[i] == 4 || nqb[i] == 7;
            for (int k = 0; k < nqb[i]; ++k) { const int j = q0[i] + k; if (qK[j]) s.updQ()[j] = s.getQ()[j] + 0.1; else if (!(quat && k < 4)) s.updQ()[j] = s.getQ()[j] + 0.01 * rng.next(); } }
        ctx.label("history:q-only"); if (runStep("q changed") != 0) return;
        // H4: t only
        tNow = tCase + 0.003; s.setTime(tNow);
        ctx.label("history:t-only"); if (runStep("t changed") != 0) return;
        // H5: parameters again (disabled Motions are enabled, locks removed or changed, rates changed)
        r = paramStep(true); if (r < 0) return;
        if (r > 0) { if (runStep("second parameter change (t, q unchanged)") != 0) return; }
    }
    if (getenv("C10_CALIB")) fprintf(stderr, "CALIB c=%d kappa=%.3g TWIN=%.3g RES=%.3g MINV=%.3g\n", (int)constrained, kappa, worstTwin, worstRes, worstMInv);
}

// Directed reproducer for cantileverfreebeam-default-q-uninitialized. The heap is pre-poisoned with NaN patterns in all small
// size classes so that the uninitialised member reliably shows (glibc reuses the freed chunks).
void directedBeamDefaultQ(pbt::Ctx& ctx) {
    {   std::vector<void*> blocks; for (int rep = 0; rep < 8; ++rep) for (size_t sz = 32; sz <= 2048; sz += 16) { void* p = ::operator new(sz); std::memset(p, 0xff, sz); blocks.push_back(p); }
        for (void* p : blocks) ::operator delete(p); }
    MultibodySystem sys; SimbodyMatterSubsystem matter(sys);
    MobilizedBody::CantileverFreeBeam beam(matter.Ground(), Transform(), Body::Rigid(MassProperties(1, Vec3(0), Inertia(1))), Transform(), 0.7);
    Vec3 dq = beam.getDefaultQ();
    beam.lockByDefault(Motion::Position);
    State s = sys.realizeTopology(); sys.realizeModel(s);
    Vector lv = beam.getLockValueAsVector(s);
    ctx.desc << "CantileverFreeBeam: getDefaultQ()=" << dq << " default state q=" << s.getQ() << " value recorded by lockByDefault(Position)=" << lv << "\n";
    bool ok = true; for (int k = 0; k < 3; ++k) if (!(dq[k] == 0) || !(s.getQ()[k] == 0) || !(lv[k] == 0)) ok = false;
    ctx.check(ok, "a newly constructed MobilizedBody::CantileverFreeBeam has default q = (" + S(dq[0]) + "," + S(dq[1]) + "," + S(dq[2]) + ") (uninitialised memory); documented: identity rotation unless changed; lockByDefault(Position) records that garbage");
}

// Directed reproducer for lockat-velocity-u-not-set
void directedLockAtVelocity(pbt::Ctx& ctx) {
    MultibodySystem sys; SimbodyMatterSubsystem matter(sys); GeneralForceSubsystem forces(sys);
    MobilizedBody::Pin pin(matter.Ground(), Transform(), Body::Rigid(MassProperties(1, Vec3(0), Inertia(1))), Transform());
    State s = sys.realizeTopology(); sys.realizeModel(s);
    pin.setOneU(s, 0, 0.25);
    pin.lockAt(s, 1.5, Motion::Velocity);
    ctx.desc << "Pin, u=0.25, lockAt(state, 1.5, Motion::Velocity): u in state afterwards = " << pin.getOneU(s, 0) << "\n";
    ctx.check(pin.getOneU(s, 0) == 1.5, "MobilizedBody::lockAt(state, 1.5, Motion::Velocity) leaves u=" + S(pin.getOneU(s, 0)) + " in the state; documented: \"this mobilizer's u in state is set to value\"");
}

pbt::Config config() {
    pbt::Config c; c.prop = "C10"; c.K = mbgen::K; c.minUnits = 1;
    c.quick = {2000, 12000, 24, 25}; c.thorough = {15000, 60000, 24, 240};
    c.rule = "rapidcheck tape -> mbgen tree (1..6 bodies, 18 mobilizer types, forward/reversed, frames, quaternion/Euler); each mobilizer with nu>0 carries with probability 7/12 a prescription: Motion::Steady (scalar or per-mobility rates, optionally changed in the State), Motion::Sinusoid, Motion::Custom polynomial/axis-angle trajectory at Position/Velocity/Acceleration level, lock(), lockAt() (three signatures), lockByDefault() at the three levels; 1/5 of the Motions additionally get a lock on top, half of the Motions are created disabled-by-default and enabled in the State; random time in [0,2], gravity, mobility forces and body wrenches; 1/3 of the cases add 1-2 Constraint::Ball/Rod between random bodies; every case ends with a same-State history (parameters only: Steady setRate/setOneRate, lockAt with new values, lock level change, unlock, new locks, Motion disable/enable; then u only, q only, t only, parameters again), each step judged against my evaluation and against a fresh State. Non-trivial: a prescribed mobilizer with a free ancestor and a free descendant, and >= 2 prescribed mobilities; distinct by tape hash.";
    c.assumptions = {"position-level trajectories are generated inside the mobilizers' documented non-singular domains (presc.h): unit quaternions with tangent derivatives, no coordinate trajectories on LineOrientation/FreeLine/SphericalCoords-Sinusoid",
                     "prescribed values: 4 eps x (|a|+|b|+1) against the same formula evaluated in the harness, bitwise for locks and zeros; qdot/qdotdot of qdot!=u mobilizers 1e3..1e4 eps x (1+|u|)^2",
                     "twin / release udot: 100*eps*nu*(kappa*|udot| + forceScale/lambda_min(M_ref)); residual: 1e3*eps*nu*sqrt(kappa)*forceScale; MInv: 1e3*eps*nu*kappa*|M_ff^-1|; kappa(M_ref) >= 1e8 rejected"};
    c.directed = {{"lockat-velocity-u", "lockat-velocity-u-not-set", directedLockAtVelocity}, {"beam-default-q", "cantileverfreebeam-default-q-uninitialized", directedBeamDefaultQ}};
    c.requiredLabels = {"interior-prescribed", "all-prescribed", "mixed", "presc:Steady/Velocity", "presc:Sinusoid/Position", "presc:Sinusoid/Velocity", "presc:Sinusoid/Acceleration", "presc:Traj/Position", "presc:Traj/Position/qdot!=u", "presc:Traj/Velocity/qdot!=u",
                        "presc:lock/Position", "presc:lock/Velocity", "presc:lock/Acceleration", "presc:lockAt/Position", "presc:lockAt/Position/qdot!=u", "presc:lockAt/Velocity", "presc:lockAt/Acceleration", "presc:lockByDefault/Position", "presc:lockByDefault/Velocity", "presc:lockByDefault/Acceleration",
                        "lock-over-motion", "motion-disabled-by-default+enable", "steady-rate-set-in-state", "route:System::prescribe", "route:prescribeQ/prescribeU", "constrained+prescribed", "unconstrained",
                        "history:parameters-only", "history:steady-setRate", "history:steady-setOneRate", "history:lock-value-change", "history:lock-level-change", "history:unlock", "history:motion-disable", "history:motion-enable", "history:lock-over-motion", "history:new-lock", "history:u-only", "history:q-only", "history:t-only"};
    return c;
}
} // namespace

PBT_MAIN(config(), property)
