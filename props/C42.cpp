// C42 -- MultibodyGraphMaker always produces a valid spanning tree (DESIGN.md section 5, C42).
// Domain: (a) COMPLETE enumeration of a small input space inside the directed case "exhaustive"
// (bodies x {massless,massful} x {mustBeBase}, joints x {weld,pin,free,ball(good loop joint)} x every
// (parent,child) pair incl. Ground and self references x {mustBeLoopJoint}; plus every single erroneous
// add call (duplicate body/joint name, unknown type, unknown body) on the 2x2 sub-space);
// (b) tape-generated graphs up to 40 bodies / ~100 joints: trees, multi-loops, disconnected components,
// massless intermediate bodies, explicit ground joints (both directions), reversed-only connectivity,
// flags, erroneous add calls, deleteJoint/deleteBody before generation; (c) uniform samples of the
// 4-body x 4-joint space that is too large to enumerate.
// Oracle: validity predicate written from the class documentation of MultibodyGraphMaker.h only (see
// validate() below, clause by clause), both directions of every correspondence, through the public
// accessors and the userRef pointers; clearGraph()+generateGraph() must reproduce the same graph.
#include "pbt.h"
#include "SimTKmath.h"
#include <atomic>
#include <thread>
using namespace SimTK;
typedef MultibodyGraphMaker MGM;

namespace {

// ------------------------------------------------------------------ input model (what the caller said)
struct TypeIn { std::string name; int dofs; bool good; };
struct BodyIn { std::string name; double mass; bool base; int id; };
struct JointIn { std::string name; int type; int parentId, childId; bool mustLoop; int id; };   // bodies by id (stable under deletion)
struct Model {
    std::vector<TypeIn> types;      // 0 = weld, 1 = free, then the user types (library numbering)
    std::vector<BodyIn> bodies;     // 0 = Ground
    std::vector<JointIn> joints;
    int bodyIndexOfId(int id) const { for (size_t i = 0; i < bodies.size(); ++i) if (bodies[i].id == id) return (int)i; return -1; }
};
// one call of the input API
struct Op {
    enum Kind { AddBody, AddJoint, DupBody, DupJoint, UnknownType, UnknownParent, UnknownChild, DelJoint, DelBody, DelMissing } kind;
    BodyIn b; JointIn j; int target = 0;   // target: index of the existing body/joint a Dup*/Del* op refers to
};
struct Case { std::vector<TypeIn> userTypes; std::vector<Op> ops; };

struct Info {   // classification of an accepted output
    int nIn = 0, nJ = 0, loops = 0, slaves = 0, constraints = 0, added = 0, reversed = 0, massless = 0, flaggedBase = 0, mustLoop = 0,
        maxLevel = 0, selfJoints = 0, groundChild = 0, components = 0;
    bool levelsNonMonotone = false, groundSplit = false, baseWithGroundJoint = false, masslessSplit = false, baseDropped = false;
};

const int MAXTAG = 512;
struct Tags { int body[MAXTAG], joint[MAXTAG]; Tags() { for (int i = 0; i < MAXTAG; ++i) body[i] = joint[i] = i; } };

// ------------------------------------------------------------------ the validity predicate
// Returns "" when the generated graph is valid for the accepted input M, else the first violated clause.
// skipMasslessSplit: known-finding site (see property()); when true the massless-slave branch is not judged.
struct Known;
std::string validate(const Model& M, const MGM& g, const Tags& T, Info& I, bool skipMasslessSplit, bool skipBaseDropped) {
    const int nbIn = (int)M.bodies.size(), njIn = (int)M.joints.size();
    const int NB = g.getNumBodies(), NJ = g.getNumJoints(), NM = g.getNumMobilizers(), NC = g.getNumLoopConstraints();
    auto S = [](int x) { return std::to_string(x); };
    I.nIn = nbIn - 1; I.nJ = njIn;
    if (NB < nbIn) return "getNumBodies()=" + S(NB) + " < number of input bodies " + S(nbIn);
    if (NJ < njIn) return "getNumJoints()=" + S(NJ) + " < number of input joints " + S(njIn);
    std::vector<int> jp(njIn), jc(njIn);   // parent/child body numbers of the input joints
    for (int j = 0; j < njIn; ++j) { jp[j] = M.bodyIndexOfId(M.joints[j].parentId); jc[j] = M.bodyIndexOfId(M.joints[j].childId); }

    // ---- A. bodies: input bodies first (Ground = 0), unchanged; slaves after them, each belonging to one master
    for (int b = 0; b < nbIn; ++b) {
        const MGM::Body& B = g.getBody(b); const BodyIn& in = M.bodies[b];
        if (B.name != in.name) return "body " + S(b) + " name changed: " + B.name + " vs input " + in.name;
        if (g.getBodyNum(in.name) != b) return "getBodyNum(" + in.name + ") != " + S(b);
        if (B.userRef != (void*)&T.body[in.id]) return "body " + in.name + " userRef changed";
        if (b > 0 && (B.mass != in.mass || B.mustBeBaseBody != in.base)) return "body " + in.name + " mass/mustBeBaseBody changed";
        if (B.isSlave()) return "input body " + in.name + " is marked as a slave";
        if (!B.isInTree()) return "input body " + in.name + " is not in the tree (level " + S(B.level) + ")";
        if ((b == 0) != (B.level == 0)) return "body " + in.name + " has level " + S(B.level) + (b == 0 ? " (Ground must be level 0)" : " (only Ground is level 0)");
        if (b == 0 && B.mobilizer != -1) return "Ground is mobilized (mobilizer " + S(B.mobilizer) + ")";
        std::set<int> seen;
        for (int s : B.slaves) {
            if (s < nbIn || s >= NB) return "body " + in.name + " lists slave " + S(s) + " which is not a slave body number";
            if (!seen.insert(s).second) return "body " + in.name + " lists slave " + S(s) + " twice";
            if (g.getBody(s).master != b) return "slave " + S(s) + " of " + in.name + " names master " + S(g.getBody(s).master);
        }
        if (B.getNumFragments() != 1 + (int)B.slaves.size()) return "getNumFragments inconsistent";
        if (in.mass == 0 && b > 0) I.massless++;
        if (in.base && b > 0) I.flaggedBase++;
    }
    for (int s = nbIn; s < NB; ++s) {
        const MGM::Body& B = g.getBody(s);
        if (!B.isSlave()) return "extra body " + S(s) + " (" + B.name + ") is not a slave";
        if (B.master < 0 || B.master >= nbIn) return "slave " + B.name + " has master " + S(B.master) + " which is not an input body";
        const MGM::Body& Ms = g.getBody(B.master);
        if (std::count(Ms.slaves.begin(), Ms.slaves.end(), s) != 1) return "slave " + B.name + " is not listed (once) by its master " + Ms.name;
        if (!B.slaves.empty()) return "slave " + B.name + " has slaves of its own";
        if (B.userRef != nullptr) return "slave " + B.name + " has a user reference";
        if (g.getBodyNum(B.name) != -1) return "slave " + B.name + " can be looked up by name";
        if (B.level < 1) return "slave " + B.name + " has level " + S(B.level);
        I.slaves++; if (B.master == 0) I.groundSplit = true;
    }

    // ---- B. joints: input joints first, unchanged; then added base joints (free, Ground -> input body)
    for (int j = 0; j < NJ; ++j) {
        const MGM::Joint& J = g.getJoint(j);
        if (J.hasMobilizer() == J.hasLoopConstraint()) return "joint " + J.name + " has mobilizer=" + S(J.mobilizer) + " and loopConstraint=" + S(J.loopConstraint) + " (exactly one required)";
        if (J.hasMobilizer() && J.mobilizer >= NM) return "joint " + J.name + " mobilizer index out of range";
        if (J.hasLoopConstraint() && J.loopConstraint >= NC) return "joint " + J.name + " loop constraint index out of range";
        if (j < njIn) {
            const JointIn& in = M.joints[j];
            if (J.name != in.name || g.getJointNum(in.name) != j) return "input joint " + S(j) + " name/lookup changed";
            if (J.isAddedBaseJoint) return "input joint " + in.name + " flagged isAddedBaseJoint";
            if (J.parentBodyNum != jp[j] || J.childBodyNum != jc[j]) return "input joint " + in.name + " parent/child changed";
            if (J.jointTypeNum != in.type || J.mustBeLoopJoint != in.mustLoop) return "input joint " + in.name + " type/mustBeLoopJoint changed";
            if (J.userRef != (void*)&T.joint[in.id]) return "input joint " + in.name + " userRef changed";
            if (in.mustLoop) I.mustLoop++;
            if (jp[j] == jc[j]) I.selfJoints++;
            if (jc[j] == 0 && jp[j] != 0) I.groundChild++;
        } else {
            if (!J.isAddedBaseJoint) return "extra joint " + J.name + " is not flagged isAddedBaseJoint";
            if (J.parentBodyNum != 0) return "added base joint " + J.name + " does not start at Ground";
            if (J.childBodyNum < 1 || J.childBodyNum >= nbIn) return "added base joint " + J.name + " does not end at an input body";
            if (g.getJointType(J.jointTypeNum).name != g.getFreeJointTypeName() || J.jointTypeNum != 1) return "added base joint " + J.name + " is not a free joint";
            if (J.mustBeLoopJoint || J.userRef != nullptr) return "added base joint " + J.name + " has mustBeLoopJoint/userRef set";
            // known finding mustbebase-dropped-by-massless-extension: site = an added base joint that did not become a mobilizer
            if (!J.hasMobilizer()) { I.baseDropped = true; if (!skipBaseDropped) return "added base joint " + J.name + " is not a mobilizer (its body " + g.getBody(J.childBodyNum).name + " is not a base body)"; }
            I.added++;
        }
    }

    // ---- C. mobilizers <-> mobilized bodies <-> joints (bijections), ordering, levels, reversal, slaves
    if (NM != NB - 1) return "getNumMobilizers()=" + S(NM) + " but " + S(NB - 1) + " bodies (input+slaves) have to be mobilized";
    std::vector<int> bodyOfMob(NM, -1), jointOfMob(NM, -1);
    for (int b = 1; b < NB; ++b) {
        int m = g.getBody(b).mobilizer;
        if (m < 0 || m >= NM) return "body " + g.getBody(b).name + " has no mobilizer (" + S(m) + ")";
        if (bodyOfMob[m] >= 0) return "mobilizer " + S(m) + " is the mobilizer of two bodies: " + g.getBody(bodyOfMob[m]).name + " and " + g.getBody(b).name;
        bodyOfMob[m] = b;
    }
    for (int j = 0; j < NJ; ++j) if (g.getJoint(j).hasMobilizer()) {
        int m = g.getJoint(j).mobilizer;
        if (jointOfMob[m] >= 0) return "mobilizer " + S(m) + " represents two joints: " + g.getJoint(jointOfMob[m]).name + " and " + g.getJoint(j).name;
        jointOfMob[m] = j;
    }
    auto bodyOfRef = [&](void* r) -> int { if (!r) return -1; for (int b = 0; b < nbIn; ++b) if (r == (void*)&T.body[M.bodies[b].id]) return b; return -2; };
    std::vector<char> placed(NB, 0), hasOutboard(NB, 0); placed[0] = 1;
    std::vector<int> dofsOfBody(NB, 0);
    int prevLevel = 0;
    for (int m = 0; m < NM; ++m) {
        const MGM::Mobilizer& mo = g.getMobilizer(m);
        auto W = [&]() { return "mobilizer " + S(m) + ": "; };
        int ob = bodyOfMob[m], j = jointOfMob[m];
        if (ob < 0) return W() + "no body has it as its mobilizer";     // cannot happen given the counts, kept for clarity
        if (j < 0) return W() + "no joint corresponds to it";
        const MGM::Body& OB = g.getBody(ob); const MGM::Joint& J = g.getJoint(j);
        const bool slave = ob >= nbIn; const int master = slave ? OB.master : ob;
        int ib = bodyOfRef(mo.getInboardBodyRef());
        if (ib < 0) return W() + "inboard body reference is not one of the input bodies";
        if (!placed[ib]) return W() + "inboard body " + M.bodies[ib].name + " is not yet in the tree when outboard body " + OB.name + " is added (ordering)";
        if (mo.getLevel() != OB.level) return W() + "getLevel()=" + S(mo.getLevel()) + " but outboard body " + OB.name + " has level " + S(OB.level);
        if (mo.getLevel() != g.getBody(ib).level + 1) return W() + "level " + S(mo.getLevel()) + " != level of inboard body " + M.bodies[ib].name + " (" + S(g.getBody(ib).level) + ") + 1";
        if (mo.isSlaveMobilizer() != slave) return W() + "isSlaveMobilizer() wrong";
        if (mo.getOutboardBodyRef() != (slave ? nullptr : (void*)&T.body[M.bodies[ob].id])) return W() + "getOutboardBodyRef() wrong";
        if (mo.getOutboardMasterBodyRef() != (void*)&T.body[M.bodies[master].id]) return W() + "getOutboardMasterBodyRef() is not the master input body";
        if (mo.getNumFragments() != 1 + (int)g.getBody(master).slaves.size()) return W() + "getNumFragments() != 1 + number of slaves of " + M.bodies[master].name;
        if (mo.getJointRef() != J.userRef) return W() + "getJointRef() is not the reference of its joint";
        if (mo.getJointTypeName() != g.getJointType(J.jointTypeNum).name) return W() + "getJointTypeName() is not the type of its joint";
        if (mo.isAddedBaseMobilizer() != J.isAddedBaseJoint) return W() + "isAddedBaseMobilizer() wrong";
        const int dofs = g.getJointType(J.jointTypeNum).numMobilities;
        if (J.isAddedBaseJoint) {
            if (ib != 0 || mo.isReversedFromJoint() || slave || ob != J.childBodyNum || mo.getLevel() != 1)
                return W() + "added base mobilizer must go from Ground to its (input) base body, unreversed, at level 1";
        } else if (slave) {
            // "its child body is split to form a new slave body that can be mobilized by the joint"
            if (mo.isReversedFromJoint()) return W() + "slave mobilizer is marked reversed";
            if (ib != J.parentBodyNum) return W() + "slave mobilizer's inboard body is not the joint's parent";
            if (master != J.childBodyNum) return W() + "slave body " + OB.name + " was split from " + M.bodies[master].name + " which is not the child of joint " + J.name;
            if (g.getJointType(J.jointTypeNum).haveGoodLoopJointAvailable) return W() + "joint " + J.name + " of type " + g.getJointType(J.jointTypeNum).name + " has a good loop joint but was implemented by splitting a body";
            I.loops++;
        } else {
            if (mo.isReversedFromJoint() ? !(ib == J.childBodyNum && ob == J.parentBodyNum) : !(ib == J.parentBodyNum && ob == J.childBodyNum))
                return W() + "isReversedFromJoint()=" + S(mo.isReversedFromJoint()) + " but inboard/outboard = " + M.bodies[ib].name + "/" + OB.name + " and joint " + J.name + " is " + M.bodies[J.parentBodyNum].name + "->" + M.bodies[J.childBodyNum].name;
            if (J.mustBeLoopJoint) return W() + "joint " + J.name + " was marked mustBeLoopJoint but is a tree mobilizer of input body " + OB.name;
            if (mo.isReversedFromJoint()) I.reversed++;
        }
        if ((mo.getLevel() == 1) != (ib == 0)) return W() + "level 1 <=> inboard body is Ground violated";
        if (mo.getLevel() < prevLevel) I.levelsNonMonotone = true;
        prevLevel = mo.getLevel(); I.maxLevel = std::max(I.maxLevel, mo.getLevel());
        placed[ob] = 1; hasOutboard[ib] = 1; dofsOfBody[ob] = dofs;
    }

    // ---- D. loop constraints <-> joints
    std::vector<int> jointOfCons(NC, -1);
    for (int j = 0; j < NJ; ++j) if (g.getJoint(j).hasLoopConstraint()) {
        int c = g.getJoint(j).loopConstraint;
        if (jointOfCons[c] >= 0) return "loop constraint " + S(c) + " represents two joints";
        jointOfCons[c] = j;
    }
    for (int c = 0; c < NC; ++c) {
        const MGM::LoopConstraint& lc = g.getLoopConstraint(c); int j = jointOfCons[c];
        auto W = [&]() { return "loop constraint " + S(c) + ": "; };
        if (j < 0) return W() + "no joint corresponds to it";
        if (j >= njIn) { if (skipBaseDropped) { I.loops++; I.constraints++; continue; } return W() + "represents an added joint, not an input joint"; }
        const MGM::Joint& J = g.getJoint(j); const MGM::JointType& jt = g.getJointType(J.jointTypeNum);
        if (!jt.haveGoodLoopJointAvailable) return W() + "joint type " + jt.name + " has no good loop joint available";
        if (lc.getJointTypeName() != jt.name) return W() + "type name " + lc.getJointTypeName() + " != joint type " + jt.name;
        if (lc.getJointRef() != J.userRef) return W() + "getJointRef() wrong";
        if (lc.getParentBodyRef() != (void*)&T.body[M.bodies[J.parentBodyNum].id] || lc.getChildBodyRef() != (void*)&T.body[M.bodies[J.childBodyNum].id]) return W() + "parent/child body reference differs from joint " + J.name;
        I.loops++; I.constraints++;
    }

    // ---- E. added base mobilizers "as needed"; mustBeBaseBody honoured
    if (!(I.baseDropped && skipBaseDropped)) {   // components of the graph of tree-eligible (not mustBeLoopJoint) input joints over Ground + input bodies
        std::vector<int> comp(nbIn); for (int b = 0; b < nbIn; ++b) comp[b] = b;
        std::function<int(int)> find = [&](int x) { while (comp[x] != x) x = comp[x] = comp[comp[x]]; return x; };
        std::vector<char> groundJoint(nbIn, 0);
        for (int j = 0; j < njIn; ++j) {
            if (jp[j] == 0 && jc[j] != 0) groundJoint[jc[j]] = 1;
            if (jc[j] == 0 && jp[j] != 0) groundJoint[jp[j]] = 1;
            if (!M.joints[j].mustLoop) comp[find(jp[j])] = find(jc[j]);
        }
        std::vector<int> addedTo(nbIn, 0);
        for (int j = njIn; j < NJ; ++j) addedTo[g.getJoint(j).childBodyNum]++;
        std::vector<int> needFlag(nbIn, 0), got(nbIn, 0);
        for (int b = 1; b < nbIn; ++b) {
            bool F = M.bodies[b].base && !groundJoint[b];     // documented use of the flag: no explicit joint to Ground
            if (M.bodies[b].base && groundJoint[b]) I.baseWithGroundJoint = true;
            if (addedTo[b] > 1) return "body " + M.bodies[b].name + " got " + S(addedTo[b]) + " added base mobilizers";
            if (F) {
                if (addedTo[b] != 1) return "mustBeBaseBody body " + M.bodies[b].name + " (no joint to Ground) was not connected to Ground by an added free joint";
                if (g.getBody(b).level != 1 || !g.getMobilizer(g.getBody(b).mobilizer).isAddedBaseMobilizer()) return "mustBeBaseBody body " + M.bodies[b].name + " is not a base body (level " + S(g.getBody(b).level) + ")";
                needFlag[find(b)]++;
            }
            got[find(b)] += addedTo[b];
        }
        int g0 = find(0);
        for (int b = 0; b < nbIn; ++b) if (find(b) == b) {
            I.components++;
            int need = b == g0 ? needFlag[b] : std::max(1, needFlag[b]);
            if (got[b] != need) return "component of body " + M.bodies[b].name + " (" + (b == g0 ? "reachable from Ground" : "not reachable from Ground") + " through tree-eligible joints, " + S(needFlag[b]) + " mustBeBaseBody bodies) got " + S(got[b]) + " added base mobilizers, needed " + S(need);
        }
    }

    // ---- F. no massless body with mobilities ends a branch (a slave fragment of a massless body is massless: mass/numFragments)
    for (int b = 1; b < NB; ++b) {
        const bool slave = b >= nbIn; const int master = slave ? g.getBody(b).master : b;
        if (master == 0 || M.bodies[master].mass != 0) continue;
        if (hasOutboard[b] || dofsOfBody[b] == 0) continue;
        if (slave) { I.masslessSplit = true; if (skipMasslessSplit) continue; }
        return std::string("massless ") + (slave ? "slave fragment " : "body ") + g.getBody(b).name + " is terminal in the spanning tree and its mobilizer has " + S(dofsOfBody[b]) + " dofs";
    }

    // ---- G. per-body joint lists cover exactly the joints (input and added) the body takes part in
    {
        std::vector<std::vector<int>> asP(nbIn), asC(nbIn);
        for (int j = 0; j < NJ; ++j) { asP[g.getJoint(j).parentBodyNum].push_back(j); asC[g.getJoint(j).childBodyNum].push_back(j); }
        for (int b = 0; b < nbIn; ++b) {
            std::vector<int> p = g.getBody(b).jointsAsParent, c = g.getBody(b).jointsAsChild;
            std::sort(p.begin(), p.end()); std::sort(c.begin(), c.end());
            if (p != asP[b] || c != asC[b]) return "body " + M.bodies[b].name + " jointsAsParent/jointsAsChild do not match the joint table";
        }
    }
    return "";
}

// all observable output folded into a 64-bit hash (for the regeneration comparison)
uint64_t snapshot(const MGM& g) {
    uint64_t h = 1469598103934665603ull;
    auto put = [&](long x) { h ^= (uint64_t)x + 0x9e3779b97f4a7c15ull + (h << 6) + (h >> 2); h *= 1099511628211ull; };
    auto str = [&](const std::string& s) { put(-7 - (long)s.size()); for (char c : s) put(c); };
    put(g.getNumBodies());
    for (int b = 0; b < g.getNumBodies(); ++b) { const MGM::Body& B = g.getBody(b); str(B.name); put(B.level); put(B.mobilizer); put(B.master); put(-1); for (int s : B.slaves) put(s); put(-2); for (int s : B.jointsAsParent) put(s); put(-3); for (int s : B.jointsAsChild) put(s); }
    put(g.getNumJoints());
    for (int j = 0; j < g.getNumJoints(); ++j) { const MGM::Joint& J = g.getJoint(j); str(J.name); put(J.parentBodyNum); put(J.childBodyNum); put(J.jointTypeNum); put(J.isAddedBaseJoint); put(J.mobilizer); put(J.loopConstraint); }
    put(g.getNumMobilizers());
    for (int m = 0; m < g.getNumMobilizers(); ++m) { const MGM::Mobilizer& mo = g.getMobilizer(m); put(mo.getLevel()); put(mo.isReversedFromJoint()); put(mo.isSlaveMobilizer()); put(mo.getNumFragments()); put((long)(size_t)mo.getInboardBodyRef()); put((long)(size_t)mo.getOutboardMasterBodyRef()); put((long)(size_t)mo.getJointRef()); str(mo.getJointTypeName()); }
    put(g.getNumLoopConstraints());
    for (int c = 0; c < g.getNumLoopConstraints(); ++c) { const MGM::LoopConstraint& lc = g.getLoopConstraint(c); str(lc.getJointTypeName()); put((long)(size_t)lc.getJointRef()); put((long)(size_t)lc.getParentBodyRef()); put((long)(size_t)lc.getChildBodyRef()); }
    return h;
}

std::string describe(const Case& c) {
    std::ostringstream o;
    o << "types: weld(0,good) free(6,good)"; for (auto& t : c.userTypes) o << " " << t.name << "(" << t.dofs << (t.good ? ",good" : "") << ")"; o << "\n";
    std::map<int, std::string> nameOfId;
    static const char* kn[] = {"addBody", "addJoint", "addBody[duplicate name]", "addJoint[duplicate name]", "addJoint[unknown type]", "addJoint[unknown parent]", "addJoint[unknown child]", "deleteJoint", "deleteBody", "delete[missing]"};
    for (auto& op : c.ops) {
        o << "  " << kn[op.kind] << " ";
        if (op.kind == Op::AddBody || op.kind == Op::DupBody) { o << op.b.name << " mass=" << op.b.mass << (op.b.base ? " mustBeBaseBody" : ""); if (op.kind == Op::AddBody) nameOfId[op.b.id] = op.b.name; }
        else if (op.kind == Op::DelJoint || op.kind == Op::DelBody || op.kind == Op::DelMissing) o << "#" << op.target;
        else o << op.j.name << " type#" << op.j.type << " " << nameOfId[op.j.parentId] << "->" << nameOfId[op.j.childId] << (op.j.mustLoop ? " mustBeLoopJoint" : "");
        o << "\n";
    }
    return o.str();
}

struct Known { bool masslessSplit = false, groundSlaves = false, baseDropped = false; };   // which known findings are listed (sites excluded)
struct Outcome { bool rejected = false; std::string rejectWhy, fail; Info info; bool excludedMasslessSplit = false, excludedGroundSlaves = false, excludedBaseDropped = false; };

// Applies the ops to the library and to the model, generates, validates, regenerates.
// knownMasslessSplit: the known finding massless-body-split-terminal-slave is listed.
void runCase(const Case& c, const Tags& T, Outcome& out, const Known& known, std::ostream* desc = nullptr) {
    MGM g; Model M;
    M.types.push_back({"weld", 0, true}); M.types.push_back({"free", 6, true});
    for (auto& t : c.userTypes) { int n = g.addJointType(t.name, t.dofs, t.good); M.types.push_back(t); if (n != (int)M.types.size() - 1) { out.fail = "addJointType returned " + std::to_string(n); return; } }
    auto bodyName = [&](int id) { int i = M.bodyIndexOfId(id); return i >= 0 ? M.bodies[i].name : std::string("?nobody?"); };
    for (auto& op : c.ops) {
        const int nb0 = g.getNumBodies(), nj0 = g.getNumJoints();
        bool threw = false; std::string what;
        try {
            switch (op.kind) {
                case Op::AddBody: g.addBody(op.b.name, op.b.mass, op.b.base, (void*)&T.body[op.b.id]); M.bodies.push_back(op.b); break;
                case Op::AddJoint: g.addJoint(op.j.name, M.types[op.j.type].name, bodyName(op.j.parentId), bodyName(op.j.childId), op.j.mustLoop, (void*)&T.joint[op.j.id]); M.joints.push_back(op.j); break;
                case Op::DupBody: g.addBody(M.bodies[op.target].name, op.b.mass, op.b.base, (void*)&T.body[op.b.id]); break;
                case Op::DupJoint: g.addJoint(M.joints[op.target].name, M.types[op.j.type].name, bodyName(op.j.parentId), bodyName(op.j.childId), op.j.mustLoop, nullptr); break;
                case Op::UnknownType: g.addJoint(op.j.name, "nosuchtype", bodyName(op.j.parentId), bodyName(op.j.childId), op.j.mustLoop, nullptr); break;
                case Op::UnknownParent: g.addJoint(op.j.name, M.types[op.j.type].name, "nosuchbody", bodyName(op.j.childId), op.j.mustLoop, nullptr); break;
                case Op::UnknownChild: g.addJoint(op.j.name, M.types[op.j.type].name, bodyName(op.j.parentId), "nosuchbody", op.j.mustLoop, nullptr); break;
                case Op::DelJoint: {
                    bool r = g.deleteJoint(M.joints[op.target].name);
                    if (!r) { out.fail = "deleteJoint(" + M.joints[op.target].name + ") returned false for an existing joint"; return; }
                    M.joints.erase(M.joints.begin() + op.target); break; }
                case Op::DelBody: {
                    int id = M.bodies[op.target].id;
                    bool r = g.deleteBody(M.bodies[op.target].name);
                    if (!r) { out.fail = "deleteBody(" + M.bodies[op.target].name + ") returned false for an existing body"; return; }
                    M.bodies.erase(M.bodies.begin() + op.target);
                    for (size_t j = 0; j < M.joints.size();) if (M.joints[j].parentId == id || M.joints[j].childId == id) M.joints.erase(M.joints.begin() + j); else ++j;
                    break; }
                case Op::DelMissing: if (g.deleteJoint("nosuchjoint") || g.deleteBody("nosuchbody")) { out.fail = "deleting a non-existing joint/body returned true"; return; } break;
            }
        } catch (const std::exception& e) { threw = true; what = e.what(); }
        const bool mustThrow = op.kind >= Op::DupBody && op.kind <= Op::UnknownChild;
        if (threw && !mustThrow) { out.fail = std::string("unexpected exception from a valid input call: ") + what; return; }
        if (!threw && mustThrow) { out.fail = "erroneous input call (kind " + std::to_string(op.kind) + ": duplicate name / unknown type / unknown body) was accepted without an error"; return; }
        if (mustThrow && (g.getNumBodies() != nb0 || g.getNumJoints() != nj0)) { out.fail = "refused input call changed the number of bodies/joints"; return; }
        if (g.getNumBodies() != (int)M.bodies.size() || g.getNumJoints() != (int)M.joints.size()) { out.fail = "body/joint count after input call differs from the model (" + std::to_string(g.getNumBodies()) + "/" + std::to_string(g.getNumJoints()) + ")"; return; }
    }
    if (M.bodies.empty()) { out.rejected = true; out.rejectWhy = "no-ground-body"; return; }
    try { g.generateGraph(); }
    catch (const std::exception& e) {
        // documented refusals: "If it fails, the resulting spanning tree is no good and an exception will be thrown"
        std::string w = e.what();
        out.rejected = true;
        out.rejectWhy = w.find("massless") != std::string::npos ? ((w.find("growTree") != std::string::npos || w.find("breakLoops") != std::string::npos) ? "massless-terminal(heuristic)" : "massless-input") : "other-exception";
        if (out.rejectWhy == "other-exception") { out.rejected = false; out.fail = "generateGraph threw an undocumented exception: " + w; }
        else {
            // a massless-body refusal needs a massless non-Ground body in the input
            bool any = false; for (size_t b = 1; b < M.bodies.size(); ++b) any = any || M.bodies[b].mass == 0;
            if (!any) { out.rejected = false; out.fail = "generateGraph refused an input without massless bodies: " + w; }
        }
        return;
    }
    const bool skip = known.masslessSplit;
    out.fail = validate(M, g, T, out.info, skip, known.baseDropped);
    if (out.info.masslessSplit && skip) out.excludedMasslessSplit = true;
    if (out.info.baseDropped && known.baseDropped) out.excludedBaseDropped = true;
    if (desc) { std::ostringstream d; g.dumpGraph(d); *desc << d.str(); }
    if (!out.fail.empty()) return;
    // ---- clearGraph() restores the input; regeneration reproduces the same graph
    const uint64_t s1 = snapshot(g);
    // known finding cleargraph-ground-slaves-not-reset: clearGraph() skips Ground, so slaves split off Ground (loop joint whose
    // child is Ground) stay listed and the regenerated graph differs. Site predicate: Ground was split in the first graph.
    if (out.info.groundSplit && known.groundSlaves) { out.excludedGroundSlaves = true; return; }
    g.clearGraph();
    if (g.getNumMobilizers() != 0 || g.getNumLoopConstraints() != 0 || g.getNumBodies() != (int)M.bodies.size() || g.getNumJoints() != (int)M.joints.size()) {
        out.fail = "clearGraph() left " + std::to_string(g.getNumMobilizers()) + " mobilizers, " + std::to_string(g.getNumLoopConstraints()) + " constraints, " + std::to_string(g.getNumBodies()) + " bodies, " + std::to_string(g.getNumJoints()) + " joints (input: " + std::to_string(M.bodies.size()) + " bodies, " + std::to_string(M.joints.size()) + " joints)"; return; }
    for (int b = 0; b < g.getNumBodies(); ++b) { const MGM::Body& B = g.getBody(b);
        if (B.level != (b == 0 ? 0 : -1) || B.mobilizer != -1 || B.master != -1 || !B.slaves.empty()) { out.fail = "clearGraph() did not reset body " + B.name + " (level " + std::to_string(B.level) + ", mobilizer " + std::to_string(B.mobilizer) + ", " + std::to_string(B.slaves.size()) + " slaves)"; return; } }
    for (int j = 0; j < g.getNumJoints(); ++j) if (g.getJoint(j).hasMobilizer() || g.getJoint(j).hasLoopConstraint() || g.getJoint(j).isAddedBaseJoint) { out.fail = "clearGraph() did not reset joint " + g.getJoint(j).name; return; }
    try { g.generateGraph(); } catch (const std::exception& e) { out.fail = std::string("regeneration after clearGraph() threw: ") + e.what(); return; }
    if (snapshot(g) != s1) { out.fail = "regeneration after clearGraph() produced a different graph"; return; }
}

// ------------------------------------------------------------------ small-space enumeration
// Alphabet of DESIGN C42(a): bodies b1..bn with (mass in {1,0}) x (mustBeBaseBody in {0,1}); joints with type in
// {weld, pin, free, ball(good)} x (parent, child) in {Ground,b1..bn}^2 (self references included) x mustBeLoopJoint.
static const char* kBodyNames[] = {"ground", "b1", "b2", "b3", "b4", "b5"};
static const char* kJointNames[] = {"j0", "j1", "j2", "j3", "j4", "j5"};
inline long jointAlphabet(int nb) { return 4L * (nb + 1) * (nb + 1) * 2; }
inline void smallTypes(Case& c) { c.userTypes = {{"pin", 1, false}, {"ball", 3, true}}; }   // library numbering: weld 0, free 1, pin 2, ball 3
// enumeration type index 0..3 -> library type number (weld, pin, free, ball)
static const int kTypeMap[4] = {0, 2, 1, 3};
void smallCase(int nb, int nj, long bodyCode, const long* jointCode, Case& c) {
    c.ops.clear(); smallTypes(c);
    Op g; g.kind = Op::AddBody; g.b = {kBodyNames[0], 0, false, 0}; c.ops.push_back(g);
    for (int b = 1; b <= nb; ++b) { Op o; o.kind = Op::AddBody; int code = int(bodyCode >> (2 * (b - 1))) & 3; o.b = {kBodyNames[b], (code & 1) ? 0.0 : 1.0, (code & 2) != 0, b}; c.ops.push_back(o); }
    for (int j = 0; j < nj; ++j) {
        long x = jointCode[j]; Op o; o.kind = Op::AddJoint;
        int type = int(x % 4); x /= 4; int p = int(x % (nb + 1)); x /= (nb + 1); int ch = int(x % (nb + 1)); x /= (nb + 1); bool ml = x != 0;
        o.j = {kJointNames[j], kTypeMap[type], p, ch, ml, j}; c.ops.push_back(o);
    }
}

struct EnumResult { long cases = 0, accepted = 0, rejected = 0, loops = 0, slaves = 0, constraints = 0, added = 0, reversed = 0, masslessSplit = 0, nonMonotone = 0, errorCases = 0; std::string fail, failDesc; };

// enumerate all cases with exactly nb bodies and exactly nj joints whose linear index is in [lo,hi)
void enumBlock(int nb, int nj, long lo, long hi, const Tags& T, const Known& known, EnumResult& R, std::atomic<bool>& stop) {
    const long JA = jointAlphabet(nb); long nJointCombos = 1; for (int j = 0; j < nj; ++j) nJointCombos *= JA;
    Case c; long jc[8];
    for (long idx = lo; idx < hi && !stop.load(std::memory_order_relaxed); ++idx) {
        long bodyCode = idx / nJointCombos, r = idx % nJointCombos;
        for (int j = 0; j < nj; ++j) { jc[j] = r % JA; r /= JA; }
        smallCase(nb, nj, bodyCode, jc, c);
        Outcome o; runCase(c, T, o, known);
        R.cases++;
        if (!o.fail.empty()) { R.fail = o.fail; R.failDesc = describe(c); stop = true; return; }
        if (o.rejected) R.rejected++; else { R.accepted++; R.loops += o.info.loops; R.slaves += o.info.slaves; R.constraints += o.info.constraints; R.added += o.info.added; R.reversed += o.info.reversed; R.masslessSplit += o.info.masslessSplit; R.nonMonotone += o.info.levelsNonMonotone; }
    }
}
// every single erroneous call appended to every case of the nb x nj space (before generateGraph)
void enumErrors(int nb, int nj, long lo, long hi, const Tags& T, const Known& known, EnumResult& R, std::atomic<bool>& stop) {
    const long JA = jointAlphabet(nb); long nJointCombos = 1; for (int j = 0; j < nj; ++j) nJointCombos *= JA;
    Case c; long jc[8];
    for (long idx = lo; idx < hi && !stop.load(std::memory_order_relaxed); ++idx) {
        long bodyCode = idx / nJointCombos, r = idx % nJointCombos;
        for (int j = 0; j < nj; ++j) { jc[j] = r % JA; r /= JA; }
        smallCase(nb, nj, bodyCode, jc, c);
        std::vector<Op> errs;
        for (int b = 0; b <= nb; ++b) { Op o; o.kind = Op::DupBody; o.target = b; o.b = {"", 1.0, false, 100}; errs.push_back(o); }
        for (int j = 0; j < nj; ++j) { Op o; o.kind = Op::DupJoint; o.target = j; o.j = {"", 2, 0, nb > 0 ? 1 : 0, false, 100}; errs.push_back(o); }
        for (int k = Op::UnknownType; k <= Op::UnknownChild; ++k) { Op o; o.kind = (Op::Kind)k; o.j = {"jx", 2, 0, nb > 0 ? 1 : 0, false, 100}; errs.push_back(o); }
        for (auto& e : errs) {
            c.ops.push_back(e);
            Outcome o; runCase(c, T, o, known);
            c.ops.pop_back();
            R.cases++; R.errorCases++;
            if (!o.fail.empty()) { c.ops.push_back(e); R.fail = o.fail; R.failDesc = describe(c); stop = true; return; }
            if (o.rejected) R.rejected++; else R.accepted++;
        }
    }
}

struct Space { int nb, nj; bool errors; };
long spaceSize(const Space& s) { long n = 1L << (2 * s.nb); for (int j = 0; j < s.nj; ++j) n *= jointAlphabet(s.nb); return n; }

std::string g_exhaustiveLabel;   // written once by the directed enumeration (before the search starts), reported once as a label

void exhaustive(pbt::Ctx& ctx, bool thorough) {
    // quick:    bodies <= 2 with joints <= 3, and 3 bodies with joints <= 2          (complete)
    // thorough: bodies <= 3 with joints <= 3, and 4 bodies with joints <= 2          (complete)
    // errors:   every erroneous single call appended to every case with <= 2 bodies / <= 2 joints
    std::vector<Space> spaces;
    const int NBfull = thorough ? 3 : 2, NBextra = thorough ? 4 : 3;
    for (int nb = 0; nb <= NBfull; ++nb) for (int nj = 0; nj <= 3; ++nj) spaces.push_back({nb, nj, false});
    for (int nj = 0; nj <= 2; ++nj) spaces.push_back({NBextra, nj, false});
    for (int nb = 0; nb <= 2; ++nb) for (int nj = 0; nj <= 2; ++nj) spaces.push_back({nb, nj, true});
    Tags T; Known known; known.masslessSplit = ctx.isKnownListed("massless-body-split-terminal-slave"); known.groundSlaves = ctx.isKnownListed("cleargraph-ground-slaves-not-reset"); known.baseDropped = ctx.isKnownListed("mustbebase-dropped-by-massless-extension");
    int nThreads = thorough ? 6 : 3; if (const char* e = getenv("C42_THREADS")) nThreads = std::max(1, atoi(e));
    EnumResult total; std::atomic<bool> stop(false);
    for (auto& sp : spaces) {
        long n = spaceSize(sp);
        int nt = n < 20000 ? 1 : nThreads;
        std::vector<EnumResult> res(nt); std::vector<std::thread> th;
        std::atomic<long> next(0); const long chunk = 2048;     // dynamic distribution: accepted inputs cost several times more than refused ones
        for (int k = 0; k < nt; ++k) {
            th.emplace_back([&, k]() { try { for (;;) { long lo = next.fetch_add(chunk); if (lo >= n || stop.load()) break; long hi = std::min(n, lo + chunk);
                                                         if (sp.errors) enumErrors(sp.nb, sp.nj, lo, hi, T, known, res[k], stop); else enumBlock(sp.nb, sp.nj, lo, hi, T, known, res[k], stop); } }
                                        catch (const std::exception& e) { res[k].fail = std::string("unexpected exception: ") + e.what(); stop = true; } });
        }
        for (auto& t : th) t.join();
        for (auto& r : res) {
            total.cases += r.cases; total.accepted += r.accepted; total.rejected += r.rejected; total.loops += r.loops; total.slaves += r.slaves; total.constraints += r.constraints;
            total.added += r.added; total.reversed += r.reversed; total.masslessSplit += r.masslessSplit; total.nonMonotone += r.nonMonotone; total.errorCases += r.errorCases;
            if (!r.fail.empty() && total.fail.empty()) { total.fail = r.fail; total.failDesc = r.failDesc; }
        }
        if (!total.fail.empty()) break;
    }
    std::ostringstream lab;
    lab << "exhaustive:" << (thorough ? "bodies<=3xjoints<=3+4bodiesxjoints<=2" : "bodies<=2xjoints<=3+3bodiesxjoints<=2") << "+errors2x2:" << total.cases;
    ctx.desc << "complete enumeration " << lab.str() << " inputs (" << total.errorCases << " with one erroneous call): accepted " << total.accepted << ", refused (massless rules) " << total.rejected
             << "; loops " << total.loops << " (" << total.slaves << " slave bodies, " << total.constraints << " loop constraints), added base mobilizers " << total.added << ", reversed mobilizers " << total.reversed
             << ", graphs with non-monotone mobilizer levels " << total.nonMonotone << ", graphs matching the known-finding site massless-body-split-terminal-slave " << total.masslessSplit << "\n";
    printf("EXHAUSTIVE property=C42 %s", ctx.desc.str().c_str());
    if (!total.fail.empty()) { ctx.desc << "first failing input:\n" << total.failDesc; ctx.fail("exhaustive enumeration: " + total.fail + " -- input: " + total.failDesc); return; }
    g_exhaustiveLabel = lab.str();
}

// ------------------------------------------------------------------ tape -> case
Case decode(const pbt::Tape& t, int& mode) {
    Case c; pbt::Reader g(t[0]);
    mode = g.pick(16); mode = mode < 13 ? 0 : mode < 15 ? 6 : 7;   // 13/16 random graph, 2/16 sample of the 4x4 small space (6), 1/16 small space + error/delete op (7)
    const int units = (int)t.size() - 1;
    if (mode >= 6) {
        int nb = 1 + g.pick(4), nj = g.pick(5);
        long bodyCode = g.w(); long jc[8];
        { long m2 = g.w(), m3 = g.w(); bodyCode &= ~0x55L | (m2 & 0x55L); if (g.boolean()) bodyCode &= ~0x55L | (m3 & 0x55L); }   // massless with probability 1/4 or 1/8 per body (the complete enumeration covers 1/2; fewer documented refusals here)
        for (int j = 0; j < nj; ++j) jc[j] = long(g.w()) % jointAlphabet(nb);
        smallCase(nb, nj, bodyCode, jc, c);
        if (mode == 7) {
            // one error / delete op inserted at a random position after the Ground body
            pbt::Reader r = units > 0 ? pbt::Reader(t[1]) : pbt::Reader();
            int kind = Op::DupBody + r.pick(8);    // DupBody..DelMissing
            size_t pos = 1 + r.pick((int)c.ops.size());
            int nBodiesBefore = 0, nJointsBefore = 0; for (size_t i = 0; i < pos; ++i) { if (c.ops[i].kind == Op::AddBody) nBodiesBefore++; else nJointsBefore++; }
            Op o; o.kind = (Op::Kind)kind; o.b = {"", r.boolean() ? 0.0 : 1.0, r.boolean(), 100}; o.j = {"jx", kTypeMap[r.pick(4)], 0, r.pick(nBodiesBefore), r.boolean(), 100};
            if ((kind == Op::DupJoint || kind == Op::DelJoint) && nJointsBefore == 0) o.kind = Op::DupBody;
            if (kind == Op::DelBody && nBodiesBefore < 2) o.kind = Op::DelMissing;
            if (o.kind == Op::DupBody) o.target = r.pick(nBodiesBefore);
            if (o.kind == Op::DupJoint || o.kind == Op::DelJoint) o.target = r.pick(nJointsBefore);
            if (o.kind == Op::DelBody) o.target = 1 + r.pick(nBodiesBefore - 1);
            // after a deletion later joints may refer to a deleted body: drop those adds (they would be erroneous calls of kind unknown body)
            c.ops.insert(c.ops.begin() + pos, o);
            if (o.kind == Op::DelBody) { int id = o.target;  // small cases: body id == its index
                for (size_t i = pos + 1; i < c.ops.size();) if (c.ops[i].kind == Op::AddJoint && (c.ops[i].j.parentId == id || c.ops[i].j.childId == id)) c.ops.erase(c.ops.begin() + i); else ++i; }
        }
        return c;
    }
    // ---- random graph: one unit per body
    c.userTypes = {{"pin", 1, false}, {"ball", 3, true}, {"slider", 1, false}, {"gimbal", 3, false}, {"univ", 2, true}};
    const int nTypes = 7;
    const int masslessClass = g.pick(4);      // 0 none, 1,2 normal (1/8), 3 many (1/4)
    const int loopClass = g.pick(4);          // 0 tree only, 1,2 some loops, 3 many loops
    const int chainBias = g.pick(3);          // 0 uniform parent, 1 mostly previous body, 2 star on few bodies
    const bool errOps = g.chance(1, 4);       // erroneous calls / deletions interleaved
    const int typeBias = g.pick(4);           // 0 uniform, 1 mostly pin, 2 mostly ball/weld/free (good loop joints), 3 uniform
    Op gr; gr.kind = Op::AddBody; gr.b = {"ground", 0, false, 0}; c.ops.push_back(gr);
    std::vector<int> ids(1, 0);               // ids of the bodies added so far (index = body number)
    std::vector<char> massful(1, 1);
    int nJ = 0; bool pendingMassless = false;
    auto pickType = [&](pbt::Reader& r) { int x = r.pick(nTypes * 3); if (typeBias == 1 && x >= nTypes) return 2; if (typeBias == 2 && x >= nTypes) return (x % 3 == 0) ? 3 : (x % 3 == 1 ? 0 : 1); return x % nTypes; };
    auto addJoint = [&](int type, int p, int ch, bool ml) { Op o; o.kind = Op::AddJoint; o.j = {"j" + std::to_string(nJ), type, p, ch, ml, nJ}; nJ++; c.ops.push_back(o); };
    const int nBodies = std::min(units, 40);
    for (int k = 1; k <= nBodies; ++k) {
        pbt::Reader r(t[k]);
        int mc = r.pick(16); bool massless = masslessClass == 0 ? false : masslessClass == 3 ? mc >= 12 : mc >= 14;
        double mass = massless ? 0.0 : (mc % 3 == 0 ? 1.0 : mc % 3 == 1 ? 2.5 : 0.3);
        bool base = r.chance(1, 12);
        int attach = r.pick(10); int whichW = r.w(); int type = pickType(r); bool swap = r.chance(1, 5); bool ml = r.chance(1, 20);
        const int nPrev = (int)ids.size();    // bodies 0..nPrev-1 exist (0 = Ground)
        if (pendingMassless && r.pick(8) != 7) { massless = false; if (mass == 0) mass = 1.0; }    // the body after a massless one is massful ...
        if (massless && k == nBodies && r.pick(4) != 3) { massless = false; mass = 1.0; }           // a massless last body would be terminal
        Op o; o.kind = Op::AddBody; o.b = {"b" + std::to_string(k), mass, base, k}; c.ops.push_back(o);
        ids.push_back(k); massful.push_back(!massless);
        int other = -1;
        if (pendingMassless) { other = nPrev - 1; swap = swap && r.boolean(); ml = false; if (type == 0 && !massless) {} }   // ... and hangs off it
        else if (attach == 8) other = massless ? 0 : -1;
        else if (attach == 7) other = 0;
        else if (chainBias == 1 && attach < 5) other = nPrev - 1;
        else if (chainBias == 2) other = (unsigned)whichW % std::min(nPrev, 3);
        else other = (unsigned)whichW % nPrev;
        if (massless && other >= 0 && type == 0) type = 2;           // keep massless bodies movable (welded ones are trivial)
        if (other >= 0) { if (swap) addJoint(type, k, other, ml); else addJoint(type, other, k, ml); }
        // extra joints close loops (or connect components)
        int nExtra = 0; { int x = r.pick(12); nExtra = loopClass == 0 ? 0 : loopClass == 3 ? (x < 4 ? 0 : x < 9 ? 1 : 2) : (x < 8 ? 0 : x < 11 ? 1 : 2); }
        for (int e = 0; e < 2; ++e) {
            int ob = r.w() % (unsigned)(nPrev + 1); int ty = pickType(r); int fl = r.pick(40);
            if (e >= nExtra) continue;
            // a joint to oneself is outside the documented input contract ("must be distinct"): generated rarely, on purpose
            if (ob == nPrev && fl >= 2) ob = 0;
            if (pendingMassless && fl >= 4) continue;     // keep the only way to the child of a massless body through that body (mostly)
            addJoint(ty, (fl & 1) ? k : ob, (fl & 1) ? ob : k, fl % 13 == 5);
        }
        pendingMassless = massless;
        if (errOps) {
            int ek = r.pick(24);
            if (ek < 8) {
                Op e; e.kind = Op::Kind(Op::DupBody + (ek % 8)); e.b = {"", 1.0, false, 400}; e.j = {"jerr" + std::to_string(k), 2, 0, k, false, 400};
                int sel = r.w();
                int nJointsNow = 0; for (auto& q : c.ops) if (q.kind == Op::AddJoint) nJointsNow++; for (auto& q : c.ops) if (q.kind == Op::DelJoint) nJointsNow--;
                bool ok = true;
                if (e.kind == Op::DupBody) e.target = (unsigned)sel % (unsigned)ids.size();
                else if (e.kind == Op::DupJoint || e.kind == Op::DelJoint) { if (nJointsNow <= 0) ok = false; else e.target = (unsigned)sel % (unsigned)nJointsNow; }
                else if (e.kind == Op::DelBody) ok = false;   // body deletion only in the small-space mode (keeps this generator's bookkeeping simple)
                if (e.kind == Op::DelJoint) { // joints deleted so far shift indices: the runner's model handles it; here only counts matter
                }
                if (ok) c.ops.push_back(e);
            }
        }
    }
    return c;
}

void property(const pbt::Tape& t, pbt::Ctx& ctx) {
    if (!g_exhaustiveLabel.empty()) { ctx.label(g_exhaustiveLabel); g_exhaustiveLabel.clear(); }
    int mode; Case c = decode(t, mode);
    static const Tags T;
    if (ctx.wantDesc) ctx.desc << "mode=" << (mode < 6 ? "random-graph" : mode == 6 ? "small-space-sample" : "small-space+error/delete") << "\n" << describe(c);
    Outcome o; Known known; known.masslessSplit = ctx.isKnownListed("massless-body-split-terminal-slave"); known.groundSlaves = ctx.isKnownListed("cleargraph-ground-slaves-not-reset"); known.baseDropped = ctx.isKnownListed("mustbebase-dropped-by-massless-extension");
    runCase(c, T, o, known, ctx.wantDesc ? &ctx.desc : nullptr);
    ctx.label(mode < 6 ? "mode:random-graph" : mode == 6 ? "mode:small-sample" : "mode:small+error/delete");
    for (auto& op : c.ops) if (op.kind >= Op::DupBody) { static const char* n[] = {"", "", "op:dup-body", "op:dup-joint", "op:unknown-type", "op:unknown-parent", "op:unknown-child", "op:delete-joint", "op:delete-body", "op:delete-missing"}; ctx.label(n[op.kind]); }
    if (!o.fail.empty()) { ctx.fail(o.fail); return; }
    if (o.rejected) { ctx.reject(o.rejectWhy + (mode < 6 ? "/random-graph" : "/small")); return; }
    const Info& I = o.info;
    if (o.excludedMasslessSplit) { ctx.known("massless-body-split-terminal-slave"); ctx.label("excluded:massless-body-split-terminal-slave"); }
    if (o.excludedGroundSlaves) { ctx.known("cleargraph-ground-slaves-not-reset"); ctx.label("excluded:cleargraph-ground-slaves-not-reset"); }
    if (o.excludedBaseDropped) { ctx.known("mustbebase-dropped-by-massless-extension"); ctx.label("excluded:mustbebase-dropped-by-massless-extension"); }
    ctx.label(I.nIn <= 4 ? "bodies<=4" : I.nIn <= 10 ? "bodies5-10" : I.nIn <= 20 ? "bodies11-20" : "bodies21-40");
    ctx.label(I.loops == 0 ? "loops:0" : I.loops <= 2 ? "loops:1-2" : I.loops <= 8 ? "loops:3-8" : "loops:9+");
    if (I.slaves) ctx.label("has-slave-bodies"); if (I.constraints) ctx.label("has-loop-constraints");
    if (I.added) ctx.label(I.added > 1 ? "added-base-mobilizers:2+" : "added-base-mobilizers:1");
    if (I.components > 1) ctx.label("disconnected-components");
    if (I.reversed) ctx.label("has-reversed-mobilizers"); if (I.massless) ctx.label("has-massless-bodies");
    if (I.flaggedBase) ctx.label("has-mustBeBaseBody"); if (I.mustLoop) ctx.label("has-mustBeLoopJoint");
    if (I.selfJoints) ctx.label("has-self-joint(outside-contract)"); if (I.groundChild) ctx.label("has-joint-with-Ground-as-child");
    if (I.groundSplit) ctx.label("ground-was-split"); if (I.baseWithGroundJoint) ctx.label("mustBeBaseBody-with-ground-joint(doc:should-not)");
    if (I.levelsNonMonotone) ctx.label("mobilizer-levels-not-monotone");
    ctx.label(I.maxLevel <= 2 ? "depth<=2" : I.maxLevel <= 6 ? "depth3-6" : "depth7+");
    ctx.nontrivial(I.loops > 0 || I.massless > 0 || I.flaggedBase > 0 || I.mustLoop > 0);
}

bool tierIsThorough() {
    std::ifstream in("/proc/self/cmdline", std::ios::binary); std::string all((std::istreambuf_iterator<char>(in)), std::istreambuf_iterator<char>());
    std::vector<std::string> a; std::string cur; for (char ch : all) { if (ch == 0) { a.push_back(cur); cur.clear(); } else cur += ch; } if (!cur.empty()) a.push_back(cur);
    for (size_t i = 0; i + 1 < a.size(); ++i) if (a[i] == "--tier") return a[i + 1] == "thorough";
    return false;
}

pbt::Config config() {
    pbt::Config c; c.prop = "C42"; c.K = 16; c.minUnits = 1;
    c.quick = {20000, 200000, 40, 20}; c.thorough = {100000, 1500000, 40, 240};
    c.caseTimeoutSecs = 1500;
    const bool thorough = tierIsThorough();
    c.rule = "Directed case 'exhaustive': complete enumeration of the small input space named in the label 'exhaustive:...:<count>' (bodies x {massless} x {mustBeBaseBody}; joints x {weld,pin,free,ball} x all (parent,child) pairs incl. Ground and self x {mustBeLoopJoint}; plus every single erroneous call on the <=2x<=2 sub-space). Search: rapidcheck tape -> 13/16 random graphs of 1..40 bodies (one unit per body: mass class, flags, attachment, direction, type, up to 2 extra loop-closing joints, optional erroneous/delete calls), 3/16 samples of the <=4 bodies x <=4 joints space (a third of them with one error/delete call). Non-trivial: accepted input with >= 1 loop, a massless body, or a mustBeBaseBody/mustBeLoopJoint flag; distinct by tape hash.";
    c.assumptions = {"the validity predicate is the reading of the MultibodyGraphMaker.h class documentation given in notes/C42.md (mobilizer 0 is a real mobilizer, as every caller in the repository assumes; slave-to-master welds are implicit as documented for getNumLoopConstraints())",
                     "exceptions mentioning massless bodies are the documented refusals; inputs with a joint from a body to itself are outside the documented contract but are judged by the same predicate"};
    c.directed.push_back({"exhaustive", "", [thorough](pbt::Ctx& ctx) { exhaustive(ctx, thorough); }});
    c.directed.push_back({"massless-child-of-loop-joint-is-split", "massless-body-split-terminal-slave", [](pbt::Ctx& ctx) {
        // ground -pin-> A(massless) -pin-> C ; ground -pin-> B -pin-> A : the loop joint B->A splits the massless child A
        Case k; smallTypes(k);
        auto body = [&](const char* n, double m, int id) { Op o; o.kind = Op::AddBody; o.b = {n, m, false, id}; k.ops.push_back(o); };
        auto joint = [&](const char* n, int p, int ch, int id) { Op o; o.kind = Op::AddJoint; o.j = {n, 2, p, ch, false, id}; k.ops.push_back(o); };
        body("ground", 0, 0); body("A", 0, 1); body("C", 1, 2); body("B", 1, 3);
        joint("gA", 0, 1, 0); joint("AC", 1, 2, 1); joint("gB", 0, 3, 2); joint("BA", 3, 1, 3);
        Tags T; Outcome o; runCase(k, T, o, Known(), &ctx.desc);
        ctx.desc << describe(k);
        if (o.rejected) return;    // refusing the input is the documented alternative
        ctx.check(o.fail.empty(), o.fail);
    }});
    c.directed.push_back({"mustbebase-next-to-massless-body", "mustbebase-dropped-by-massless-extension", [](pbt::Ctx& ctx) {
        // ground -pin-> A(massless) ; A -pin-> X(mustBeBaseBody) ; A -pin-> Y : a valid tree exists (X free on Ground, A->X closed by a slave)
        Case k; smallTypes(k);
        auto body = [&](const char* n, double m, bool base, int id) { Op o; o.kind = Op::AddBody; o.b = {n, m, base, id}; k.ops.push_back(o); };
        auto joint = [&](const char* n, int p, int ch, int id) { Op o; o.kind = Op::AddJoint; o.j = {n, 2, p, ch, false, id}; k.ops.push_back(o); };
        body("ground", 0, false, 0); body("A", 0, false, 1); body("X", 1, true, 2); body("Y", 1, false, 3);
        joint("gA", 0, 1, 0); joint("AX", 1, 2, 1); joint("AY", 1, 3, 2);
        Tags T; Outcome o; runCase(k, T, o, Known(), &ctx.desc);
        ctx.desc << describe(k);
        if (o.rejected) return;
        ctx.check(o.fail.empty(), o.fail);
    }});
    c.directed.push_back({"cleargraph-after-ground-split", "cleargraph-ground-slaves-not-reset", [](pbt::Ctx& ctx) {
        // ground -pin-> b1 ; b1 -pin-> ground (Ground is the child of the loop joint and is split); clearGraph(); generateGraph()
        Case k; smallTypes(k);
        Op g; g.kind = Op::AddBody; g.b = {"ground", 0, false, 0}; k.ops.push_back(g);
        Op b; b.kind = Op::AddBody; b.b = {"b1", 1, false, 1}; k.ops.push_back(b);
        Op j0; j0.kind = Op::AddJoint; j0.j = {"j0", 2, 0, 1, false, 0}; k.ops.push_back(j0);
        Op j1; j1.kind = Op::AddJoint; j1.j = {"j1", 2, 1, 0, false, 1}; k.ops.push_back(j1);
        Tags T; Outcome o; runCase(k, T, o, Known(), &ctx.desc);
        ctx.desc << describe(k);
        ctx.check(o.fail.empty(), o.fail);
    }});
    c.requiredLabels = {"mode:random-graph", "mode:small-sample", "has-slave-bodies", "has-loop-constraints", "added-base-mobilizers:2+", "has-reversed-mobilizers", "has-massless-bodies", "has-mustBeBaseBody", "has-mustBeLoopJoint", "bodies21-40", "loops:9+", "op:dup-body", "op:delete-joint", "op:delete-body"};
    return c;
}
} // namespace

PBT_MAIN(config(), property)
