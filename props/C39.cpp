// C39 -- Optimizers return truthful, feasible, improving results (DESIGN.md section 5, C39).
// Domain: generated OptimizerSystems whose optimum is known BY CONSTRUCTION ("optimum first"): pick x*, the
// active set and non-negative multipliers, then choose the linear term b of the strictly convex objective
//     f(x) = 1/2 x'Qx - b'x + sum_i w_i logcosh(s_i x_i)       (Q = V diag(lambda) V', kappa <= 1e3)
// so that the KKT conditions hold at x* (box bounds: inactive / active-lower / active-upper / degenerate /
// one-sided / unbounded per coordinate; linear equality and inequality rows, active or with slack). KKT is
// sufficient for a convex problem and the minimiser of a strictly convex one is unique, so x* is THE answer.
// A second class, Rosenbrock chains (non-convex), is judged by the validity clauses only.
// Algorithms: LBFGS, LBFGSB, InteriorPoint, CMAES, BestAvailable; analytic / central / forward numerical
// gradients, analytic / numerical constraint Jacobians; feasible and (LBFGSB, InteriorPoint) infeasible starts.
// Oracle (all evaluations of objective/gradient/constraints/Jacobian are logged by the system itself):
//  T  returned f == f(x_returned) recomputed (bitwise; InteriorPoint: within the effect of IPOPT's documented
//     bound_relax_factor 1e-8 on f, i.e. 1e-7*sum|g_i|max(1,|x_i|) + 1e-9(|f|+1))
//  D  LBFGS/LBFGSB: f_returned <= f(start projected on the box); InteriorPoint on convex problems from a
//     feasible start: f_returned <= f(start) + tolT
//  B  LBFGSB, CMAES: every logged evaluation point and the result satisfy lo <= x <= hi exactly;
//     InteriorPoint: within 1e-7*max(1,|bound|) (documented relaxation 1e-8, 10x margin)
//  C  InteriorPoint: |c_eq| <= 10*ctolEff, c_ineq >= -10*ctolEff at the result, ctolEff = ctol + 1e-8(1 + max_j sum_i|a_ji|max(1,|x_i|))
//  R  convex class: ||x - x*||_inf <= tolR (per-algorithm formula, calibrated, see notes/C39.md)
//  S  CMAES with fixed seed (+ maxTimeFractionForEigendecomposition=1 as documented): two runs give bitwise
//     identical x, f and evaluation sequence (hash of all evaluated points)
//  A  BestAvailable: getAlgorithm() is InteriorPoint if the system has constraints, else an algorithm that
//     honours limits if the system has limits; then all clauses of the selected algorithm apply.
#include "pbt.h"
#include "SimTKmath.h"
#include <dlfcn.h>
using namespace SimTK;

namespace {

// single-threaded BLAS: determinism and the 3-core rule (OpenBLAS spins worker threads otherwise)
struct BlasOneThread { BlasOneThread() { typedef void (*F)(int); F f = (F)dlsym(RTLD_DEFAULT, "openblas_set_num_threads"); if (f) f(1); } } blasOneThread;

const double Inf = std::numeric_limits<double>::infinity();

double logcosh(double t) { double a = std::fabs(t); return a + std::log1p(std::exp(-2 * a)) - 0.6931471805599453; }

enum Alg { A_LBFGS = 0, A_LBFGSB, A_IPOPT, A_CMAES, A_BEST };
const char* algName[] = {"LBFGS", "LBFGSB", "InteriorPoint", "CMAES", "BestAvailable"};

struct Sys : public OptimizerSystem {
    int n = 0, kind = 0;               // kind 0 convex, 1 Rosenbrock chain
    std::vector<double> Q, b, w, s;    // convex class
    int me = 0, mi = 0;                // rows: A x - c (= 0 | >= 0), equality rows first
    std::vector<double> A, c;
    bool haveBounds = false; std::vector<double> lo, hi;
    // evaluation log
    mutable long nObj = 0, nGrad = 0, nCon = 0, nJac = 0;
    mutable double worstOut = 0; mutable int worstCoord = -1, worstMulti = 0; mutable double worstVal = 0; mutable const char* worstWhere = "";
    mutable double worstOutMulti = 0;   // worst violation among evaluations with >= 2 coordinates outside (beyond slack)
    mutable uint64_t hash = 1469598103934665603ull;
    double multiSlack = 0;              // coordinates outside by <= multiSlack*max(1,|bound|) do not count for "multi"
    std::vector<double> x0;             // the caller's own start point: evaluations exactly there are exempt from clause B
    mutable long nAtStart = 0; double fdStep = 0; bool x0Infeasible = false;
    mutable bool nonFinite = false;

    explicit Sys(int n_) : OptimizerSystem(n_), n(n_) {}

    void log(const Vector& x, const char* where) const {
        for (int i = 0; i < n; ++i) { uint64_t u; double v = x[i]; memcpy(&u, &v, 8); hash ^= u; hash *= 1099511628211ull; if (!std::isfinite(v)) nonFinite = true; }
        if (!haveBounds) return;
        if (!x0.empty()) {   // the start point itself, and (for an infeasible start) its finite-difference stencil, are the caller's choice
            int nd = 0, di = -1; for (int i = 0; i < n; ++i) if (x[i] != x0[i]) { nd++; di = i; }
            if (nd == 0 || (nd == 1 && fdStep > 0 && x0Infeasible && std::fabs(x[di] - x0[di]) <= 1.01 * fdStep * std::max(std::fabs(x0[di]), 0.1))) { nAtStart++; return; }
        }
        int nOut = 0; double wo = 0; int wc = -1;
        for (int i = 0; i < n; ++i) {
            double o = std::max(lo[i] - x[i], x[i] - hi[i]);
            if (o > 0) {
                double bnd = (lo[i] - x[i] > 0) ? lo[i] : hi[i];
                if (o > multiSlack * std::max(1.0, std::fabs(bnd))) nOut++;
                if (o > wo) { wo = o; wc = i; }
            }
        }
        if (wo > worstOut) { worstOut = wo; worstCoord = wc; worstVal = x[wc]; worstWhere = where; }
        if (nOut >= 2 && wo > worstOutMulti) worstOutMulti = wo;
    }
    double fval(const double* x) const {
        if (kind == 1) {
            double f = 0;
            if (n == 1) return (1 - x[0]) * (1 - x[0]);
            for (int i = 0; i + 1 < n; ++i) { double a = x[i + 1] - x[i] * x[i], d = 1 - x[i]; f += 100 * a * a + d * d; }
            return f;
        }
        double f = 0;
        for (int i = 0; i < n; ++i) { double qi = 0; for (int j = 0; j < n; ++j) qi += Q[i * n + j] * x[j]; f += x[i] * (0.5 * qi - b[i]); if (w[i] != 0) f += w[i] * logcosh(s[i] * x[i]); }
        return f;
    }
    void grad(const double* x, double* g) const {
        if (kind == 1) {
            if (n == 1) { g[0] = -2 * (1 - x[0]); return; }
            for (int i = 0; i < n; ++i) g[i] = 0;
            for (int i = 0; i + 1 < n; ++i) { double a = x[i + 1] - x[i] * x[i]; g[i] += -400 * a * x[i] - 2 * (1 - x[i]); g[i + 1] += 200 * a; }
            return;
        }
        for (int i = 0; i < n; ++i) { double qi = 0; for (int j = 0; j < n; ++j) qi += Q[i * n + j] * x[j]; g[i] = qi - b[i] + (w[i] != 0 ? w[i] * s[i] * std::tanh(s[i] * x[i]) : 0); }
    }
    void cons(const double* x, double* g) const { for (int j = 0; j < me + mi; ++j) { double r = -c[j]; for (int i = 0; i < n; ++i) r += A[j * n + i] * x[i]; g[j] = r; } }

    int objectiveFunc(const Vector& x, bool, Real& f) const override { nObj++; log(x, "objectiveFunc"); f = fval(&x[0]); return 0; }
    int gradientFunc(const Vector& x, bool, Vector& g) const override { nGrad++; log(x, "gradientFunc"); std::vector<double> t(n); grad(&x[0], t.data()); for (int i = 0; i < n; ++i) g[i] = t[i]; return 0; }
    int constraintFunc(const Vector& x, bool, Vector& g) const override { nCon++; log(x, "constraintFunc"); std::vector<double> t(me + mi); cons(&x[0], t.data()); for (int j = 0; j < me + mi; ++j) g[j] = t[j]; return 0; }
    int constraintJacobian(const Vector& x, bool, Matrix& J) const override { nJac++; log(x, "constraintJacobian"); for (int j = 0; j < me + mi; ++j) for (int i = 0; i < n; ++i) J(j, i) = A[j * n + i]; return 0; }
    void resetLog() const { nObj = nGrad = nCon = nJac = 0; worstOut = worstOutMulti = 0; worstCoord = -1; hash = 1469598103934665603ull; nonFinite = false; }
};

struct Case {
    int alg, n, kind, gradMode;        // gradMode 0 analytic, 1 central FD, 2 forward FD
    bool numJac, hasLimits, infeasibleStart, defaultFactr, defaultTols;
    double tol, ctol; int cmaSeed, history;
    double lamMin, lamMax;
    std::vector<double> xstar, x0, zL, zU, lam;   // multipliers at x* (convex class)
    std::vector<int> status;           // per coordinate bound status
    int nActive = 0;
};

// status: 0 two-sided inactive, 1 lower active, 2 upper active, 3 unbounded, 4 lower only inactive, 5 upper only inactive, 6 degenerate lower (z=0), 7 degenerate upper
std::unique_ptr<Sys> build(const pbt::Tape& t, Case& c) {
    pbt::Reader g(t[0]);
    { static const int order[5] = {A_LBFGSB, A_LBFGS, A_IPOPT, A_CMAES, A_BEST}; c.alg = order[g.pick(5)]; }   // word 0 (most frequent) -> LBFGSB
    c.kind = g.chance(1, 6) ? 1 : 0; c.gradMode = g.chance(1, 2) ? 1 + g.pick(2) : (g.skip(1), 0);
    int tolE = g.range(0, 5);                       // 1e-4 .. 1e-9
    c.hasLimits = !g.chance(1, 5);
    int meWant = g.chance(1, 2) ? g.range(0, 3) : (g.skip(1), 0), miWant = g.chance(1, 2) ? g.range(0, 4) : (g.skip(1), 0);
    c.numJac = g.chance(1, 3); c.infeasibleStart = g.chance(1, 3); c.defaultFactr = g.boolean(); c.defaultTols = g.chance(1, 8);
    c.cmaSeed = 1 + (int)(g.w() % 100000u); c.history = g.chance(1, 4) ? g.range(3, 20) : (g.skip(1), 50);
    int ctolE = g.pick(3); bool diagonal = g.chance(1, 4); int kappaE = g.range(0, 3);   // kappa <= 10^kappaE
    int units = (int)t.size() - 1;
    int nmax = c.alg == A_CMAES ? 8 : 20;
    c.n = std::max(1, std::min(nmax, units));
    if (c.alg == A_CMAES && c.n == 1 && !g.chance(1, 16)) c.n = 2;     // CMA-ES refuses n = 1: keep that a rare class
    const int n = c.n;
    if (c.alg == A_LBFGS) { c.hasLimits = false; }
    if (c.alg == A_LBFGS || c.alg == A_LBFGSB || c.alg == A_CMAES) meWant = miWant = 0;
    if (c.alg == A_CMAES) c.gradMode = 0;
    if (c.kind == 1) meWant = miWant = 0;
    // tolerance: numerical gradients cannot support the tightest tolerances
    if (c.gradMode == 1) tolE = std::min(tolE, 3);      // >= 1e-7
    if (c.gradMode == 2) tolE = std::min(tolE, 1);      // >= 1e-5
    c.tol = std::pow(10.0, -4 - tolE); c.ctol = ctolE == 0 ? 1e-4 : ctolE == 1 ? 1e-6 : 1e-8;
    if (c.defaultTols) { c.tol = 1e-3; c.ctol = 1e-4; }
    int me = std::min(meWant, n - 1), mi = miWant; if (n == 1) mi = std::min(mi, 1);

    std::unique_ptr<Sys> sp(new Sys(n)); Sys& S = *sp; S.kind = c.kind; S.me = me; S.mi = mi;
    S.Q.assign(n * n, 0); S.b.assign(n, 0); S.w.assign(n, 0); S.s.assign(n, 0); S.A.assign((me + mi) * n, 0); S.c.assign(me + mi, 0);
    S.lo.assign(n, -Inf); S.hi.assign(n, Inf);
    c.xstar.assign(n, 0); c.x0.assign(n, 0); c.zL.assign(n, 0); c.zU.assign(n, 0); c.status.assign(n, 3); c.lam.assign(me + mi, 0);
    std::vector<double> lam(n), th(n), ph(n), startU(n);
    double kLo = 1.0, kHi = std::pow(10.0, kappaE); // eigenvalues in [kLo,kHi]*lamScale
    double lamScale = g.logreal(0.1, 10);
    c.lamMin = 1e300; c.lamMax = 0;
    for (int i = 0; i < n; ++i) {
        pbt::Reader r = 1 + i < (int)t.size() ? pbt::Reader(t[1 + i]) : pbt::Reader();
        lam[i] = lamScale * (kHi > 1 ? r.logreal(kLo, kHi) : (r.skip(1), 1.0));
        th[i] = diagonal ? (r.skip(1), 0.0) : r.angle(); ph[i] = diagonal ? (r.skip(1), 0.0) : r.angle();
        c.xstar[i] = r.real(-3, 3);
        int st = r.pick(8); double w1 = r.logreal(0.05, 3), w2 = r.logreal(0.05, 3), mult = r.logreal(0.01, 10);
        startU[i] = r.unit();
        bool lc = r.chance(1, 3); S.w[i] = lc ? r.logreal(0.1, 10) : (r.skip(1), 0.0); S.s[i] = lc ? r.real(-2, 2) : (r.skip(1), 0.0);
        for (int j = 0; j < me + mi; ++j) S.A[j * n + i] = r.real(-2, 2);
        if (!c.hasLimits) st = 3;
        if (c.kind == 1) { // Rosenbrock: any box; x* unknown when bounded -> only validity clauses
            c.xstar[i] = 1;
            if (st == 1 || st == 6) st = 4; if (st == 2 || st == 7) st = 5;
        }
        if (c.alg == A_CMAES && c.hasLimits) {       // CMA-ES resamples until feasible: keep the box two-sided and not too thin,
            if (st >= 3) st = 0;                      // at most 4 bounds active at the optimum (acceptance >= 2^-4)
            w1 = std::max(w1, 0.3); w2 = std::max(w2, 0.3);
            if ((st == 1 || st == 2) && c.nActive >= 4) st = 0;
        }
        c.status[i] = st;
        double xs = c.xstar[i];
        switch (st) {
            case 0: S.lo[i] = xs - w1; S.hi[i] = xs + w2; break;
            case 1: S.lo[i] = xs; S.hi[i] = xs + w2; c.zL[i] = mult; c.nActive++; break;
            case 2: S.hi[i] = xs; S.lo[i] = xs - w1; c.zU[i] = mult; c.nActive++; break;
            case 3: break;
            case 4: S.lo[i] = xs - w1; break;
            case 5: S.hi[i] = xs + w2; break;
            case 6: S.lo[i] = xs; S.hi[i] = xs + w2; break;
            case 7: S.hi[i] = xs; S.lo[i] = xs - w1; break;
        }
        if (c.kind == 1 && c.hasLimits) { // random box around a random centre in [-2,2], may or may not contain (1,..,1)
            double ctr = c.xstar[i] = 1; (void)ctr; double mid = 2 * (2 * startU[i] - 1);
            if (st == 0) { S.lo[i] = mid - w1; S.hi[i] = mid + w2; } else if (st == 4) { S.lo[i] = mid - w1; } else if (st == 5) { S.hi[i] = mid + w2; }
        }
    }
    for (int j = 0; j < me + mi; ++j) { double rn = 0; for (int i = 0; i < n; ++i) rn += S.A[j * n + i] * S.A[j * n + i]; if (rn < 0.25) S.A[j * n + j % n] = (j % 2 ? -1.0 : 1.0); }   // no (nearly) empty rows
    S.haveBounds = c.hasLimits;
    // Q = V diag(lam) V', V = product of Givens rotations (two sweeps)
    if (c.kind == 0) {
        std::vector<double> V(n * n, 0); for (int i = 0; i < n; ++i) V[i * n + i] = 1;
        auto rot = [&](int p, int q, double a) { double cs = std::cos(a), sn = std::sin(a); for (int r = 0; r < n; ++r) { double vp = V[r * n + p], vq = V[r * n + q]; V[r * n + p] = cs * vp - sn * vq; V[r * n + q] = sn * vp + cs * vq; } };
        for (int i = 0; i + 1 < n; ++i) if (th[i] != 0) rot(i, i + 1, th[i]);
        for (int i = n - 2; i >= 0; --i) if (ph[i] != 0) rot(i, i + 2 < n ? i + 2 : i + 1, ph[i]);
        for (int i = 0; i < n; ++i) for (int j = 0; j <= i; ++j) { double q = 0; for (int k = 0; k < n; ++k) q += V[i * n + k] * lam[k] * V[j * n + k]; S.Q[i * n + j] = S.Q[j * n + i] = q; }
        for (int i = 0; i < n; ++i) { c.lamMin = std::min(c.lamMin, lam[i]); c.lamMax = std::max(c.lamMax, lam[i]); }
        // constraints: multipliers and right-hand sides chosen at x*
        pbt::Reader gc(t[0]); gc.skip(22);
        for (int j = 0; j < me + mi; ++j) {
            double ax = 0; for (int i = 0; i < n; ++i) ax += S.A[j * n + i] * c.xstar[i];
            if (j < me) { c.lam[j] = gc.real(-5, 5); gc.skip(1); S.c[j] = ax; }
            else { bool active = gc.boolean(); double v = gc.logreal(0.01, 5); if (active) { c.lam[j] = v; S.c[j] = ax; c.nActive++; } else { c.lam[j] = 0; S.c[j] = ax - v; } }
        }
        // b from stationarity: Qx* - b + w s tanh(s x*) = A'lam + zL - zU
        for (int i = 0; i < n; ++i) {
            double qi = 0; for (int j = 0; j < n; ++j) qi += S.Q[i * n + j] * c.xstar[j];
            double rhs = c.zL[i] - c.zU[i]; for (int j = 0; j < me + mi; ++j) rhs += S.A[j * n + i] * c.lam[j];
            S.b[i] = qi + (S.w[i] != 0 ? S.w[i] * S.s[i] * std::tanh(S.s[i] * c.xstar[i]) : 0) - rhs;
        }
    } else { c.lamMin = c.lamMax = 1; }
    // start point
    for (int i = 0; i < n; ++i) {
        double u = startU[i], lo = S.lo[i], hi = S.hi[i];
        pbt::Reader r = 1 + i < (int)t.size() ? pbt::Reader(t[1 + i]) : pbt::Reader(); r.skip(20); double off = r.real(-3, 3);
        if (c.kind == 1) off = r.real(-2, 2) - 1;
        double x;
        if (std::isfinite(lo) && std::isfinite(hi)) x = lo + u * (hi - lo);
        else if (std::isfinite(lo)) x = lo + std::fabs(off);
        else if (std::isfinite(hi)) x = hi - std::fabs(off);
        else x = c.xstar[i] + off;
        bool mayLeave = c.infeasibleStart && (c.alg == A_LBFGSB || c.alg == A_IPOPT || c.alg == A_BEST);
        if (mayLeave && c.hasLimits && (i % 2 == 0)) x = c.xstar[i] + off;   // anywhere
        c.x0[i] = x;
    }
    for (int i = 0; i < n; ++i) if (c.x0[i] < S.lo[i] || c.x0[i] > S.hi[i]) S.x0Infeasible = true;
    S.x0 = c.x0; S.fdStep = (c.gradMode != 0 || c.numJac) ? std::cbrt((double)SignificantReal) : 0.0;
    if (c.hasLimits) { Vector lo(n), hi(n); for (int i = 0; i < n; ++i) { lo[i] = S.lo[i]; hi[i] = S.hi[i]; } S.setParameterLimits(lo, hi); }
    if (me + mi > 0) { S.setNumEqualityConstraints(me); S.setNumInequalityConstraints(mi); }
    return sp;
}

struct RunOut { bool ok = false; std::string exc; double f = 0; std::vector<double> x; OptimizerAlgorithm used = UnknownOptimizerAlgorithm;
                long nObj = 0; double worstOut = 0, worstOutMulti = 0, worstVal = 0; int worstCoord = -1; const char* worstWhere = ""; uint64_t hash = 0; bool nonFinite = false; };

RunOut runOpt(const Sys& S, const Case& c) {
    RunOut o; const int n = c.n;
    static const OptimizerAlgorithm algs[] = {LBFGS, LBFGSB, InteriorPoint, CMAES, BestAvailable};
    S.resetLog();
    Vector x(n); for (int i = 0; i < n; ++i) x[i] = c.x0[i];
    try {
        Optimizer opt(S, algs[c.alg]);
        o.used = opt.getAlgorithm();
        if (!c.defaultTols) { opt.setConvergenceTolerance(c.tol); opt.setConstraintTolerance(c.ctol); }
        opt.setMaxIterations(o.used == CMAES ? 4000 : 1500);
        opt.setLimitedMemoryHistory(c.history);
        if (o.used == CMAES) {
            opt.setAdvancedIntOption("seed", c.cmaSeed);
            opt.setAdvancedRealOption("maxTimeFractionForEigendecomposition", 1);
            double sig = 0.3;
            if (c.hasLimits) for (int i = 0; i < n; ++i) if (std::isfinite(S.lo[i]) && std::isfinite(S.hi[i])) sig = std::min(sig, 0.25 * (S.hi[i] - S.lo[i]));
            opt.setAdvancedRealOption("init_stepsize", sig);
            opt.setAdvancedIntOption("stopMaxFunEvals", 60000);
        }
        if (o.used == LBFGSB && !c.defaultFactr) opt.setAdvancedRealOption("factr", 10.0);
        if (c.gradMode != 0 && o.used != CMAES) {
            opt.setDifferentiatorMethod(c.gradMode == 1 ? Differentiator::CentralDifference : Differentiator::ForwardDifference);
            opt.useNumericalGradient(true);
        }
        if (c.numJac && S.me + S.mi > 0) {
            opt.setDifferentiatorMethod(c.gradMode == 2 ? Differentiator::ForwardDifference : Differentiator::CentralDifference);
            opt.useNumericalJacobian(true);
        }
        // c-cmaes writes errcmaes.err / actparcmaes.par into the current directory (documented): run it in a scratch directory
        int cwdFd = -1;
        if (o.used == CMAES) { cwdFd = open(".", O_RDONLY); mkdir("/tmp/verif-C39-cwd", 0755); if (cwdFd < 0 || chdir("/tmp/verif-C39-cwd") != 0) { if (cwdFd >= 0) close(cwdFd); cwdFd = -1; } }
        struct Back { int fd; ~Back() { if (fd >= 0) { int r = fchdir(fd); (void)r; close(fd); } } } back{cwdFd};
        o.f = opt.optimize(x);
        o.ok = true;
    } catch (const std::exception& e) { o.exc = e.what(); }
    o.x.resize(n); for (int i = 0; i < n; ++i) o.x[i] = x[i];
    o.nObj = S.nObj; o.worstOut = S.worstOut; o.worstOutMulti = S.worstOutMulti; o.worstVal = S.worstVal; o.worstCoord = S.worstCoord; o.worstWhere = S.worstWhere; o.hash = S.hash; o.nonFinite = S.nonFinite;
    return o;
}

std::string vec(const std::vector<double>& v) { std::ostringstream o; o.precision(17); o << "["; for (size_t i = 0; i < v.size(); ++i) o << (i ? "," : "") << v[i]; o << "]"; return o.str(); }

const bool calib = getenv("C39_CALIB") != nullptr;

void judge(const Sys& S, const Case& c, pbt::Ctx& ctx) {
    const int n = c.n;
    if (ctx.wantDesc) {
        ctx.desc << "alg=" << algName[c.alg] << " kind=" << (c.kind ? "rosenbrock" : "convex") << " n=" << n << " gradMode=" << c.gradMode << " numJac=" << c.numJac
                 << " tol=" << c.tol << " ctol=" << c.ctol << (c.defaultTols ? " (defaults)" : "") << " limits=" << c.hasLimits << " me=" << S.me << " mi=" << S.mi
                 << " history=" << c.history << " factr=" << (c.defaultFactr ? "default" : "10") << " cmaSeed=" << c.cmaSeed << " lambda=[" << c.lamMin << "," << c.lamMax << "]\n";
        if (n <= 6) {
            if (c.kind == 0) ctx.desc << " Q=" << vec(S.Q) << "\n b=" << vec(S.b) << " w=" << vec(S.w) << " s=" << vec(S.s) << "\n";
            if (c.hasLimits) ctx.desc << " lo=" << vec(S.lo) << " hi=" << vec(S.hi) << "\n";
            if (S.me + S.mi) ctx.desc << " A=" << vec(S.A) << " c=" << vec(S.c) << "\n";
            ctx.desc << " x*=" << vec(c.xstar) << " x0=" << vec(c.x0) << "\n";
        }
    }
    // multi-coordinate slack for the log (IPOPT iterates live in the relaxed box)
    const_cast<Sys&>(S).multiSlack = (c.alg == A_IPOPT || (c.alg == A_BEST && S.me + S.mi > 0)) ? 1e-7 : 16 * 2.220446049250313e-16;   // (LBFGSB: the roundoff finding may coincide with an FD excursion)

    // CMA-ES refuses n = 1 with a documented value check
    RunOut o = runOpt(S, c);
    OptimizerAlgorithm used = o.used;
    const char* usedName = used == LBFGS ? "LBFGS" : used == LBFGSB ? "LBFGSB" : used == InteriorPoint ? "InteriorPoint" : used == CMAES ? "CMAES" : "none";
    ctx.label(std::string("alg:") + algName[c.alg]);
    ctx.label(std::string("kind:") + (c.kind ? "rosenbrock" : "convex"));
    if (!o.ok) {
        if (ctx.wantDesc) ctx.desc << " exception: " << o.exc.substr(0, 300) << "\n";
        if (c.alg == A_CMAES && n == 1) { ctx.check(o.exc.find("Value out of range") != std::string::npos, "CMAES with n=1: expected the documented value check, got: " + o.exc.substr(0, 200)); ctx.reject("cmaes-n1"); return; }
        if (o.exc.find("Optimizer failed") == std::string::npos && o.exc.find("OptimizerFailed") == std::string::npos) { ctx.fail("unexpected exception (not OptimizerFailed): " + o.exc.substr(0, 300)); return; }
        ctx.label(std::string("failed:") + usedName + (c.kind ? "/rosenbrock" : "/convex"));
        ctx.reject(std::string("optimizer-failed:") + usedName);
        // bounds clause holds for the evaluations made before the failure, too -- fall through to B only
    }
    const bool honoursLimits = used == LBFGSB || used == InteriorPoint || used == CMAES;
    const bool numGrad = c.gradMode != 0 && used != CMAES, numJac = c.numJac && S.me + S.mi > 0 && used == InteriorPoint;

    // A: BestAvailable selection
    if (c.alg == A_BEST) {
        ctx.label(std::string("best->") + usedName);
        if (S.me + S.mi > 0) ctx.check(used == InteriorPoint, std::string("BestAvailable picked ") + usedName + " for a system with constraints");
        else if (c.hasLimits) ctx.check(honoursLimits, std::string("BestAvailable picked ") + usedName + " for a system with parameter limits");
        ctx.check(used != BestAvailable && used != UnknownOptimizerAlgorithm, "getAlgorithm() does not name a concrete algorithm");
    } else {
        static const OptimizerAlgorithm algs[] = {LBFGS, LBFGSB, InteriorPoint, CMAES};
        ctx.check(used == algs[c.alg], "getAlgorithm() differs from the requested algorithm");
    }
    if (ctx.failed) return;

    // B: bounds at every logged evaluation
    if (c.hasLimits && honoursLimits) {
        double worst = o.worstOut;
        if (worst > 0) {
            int i = o.worstCoord; double bnd = (S.lo[i] - o.worstVal > 0) ? S.lo[i] : S.hi[i];
            double relax = used == InteriorPoint ? 1e-7 * std::max(1.0, std::fabs(bnd)) : 0.0;
            if (worst > relax) {
                // known finding lbfgsb-numgrad-outside-bounds: the numerical-gradient (and Jacobian) wrapper hands the base point to
                // SimTK::Differentiator, which perturbs ONE coordinate by h = accFac*max(|y_i|,0.1) without knowing the limits.
                // Site predicate: numerical gradient/Jacobian in use, a single coordinate outside (others within the relaxation),
                // and the excursion is at most the FD step 1.01*h(bound) (central: cbrt(SignificantReal), forward: sqrt).
                double acc = SignificantReal, fac = (c.gradMode == 2) ? std::sqrt(acc) : std::cbrt(acc);
                double h = 1.01 * fac * std::max(std::fabs(bnd) + worst, 0.1) + relax;
                bool site = (numGrad || numJac) && worst <= h && o.worstOutMulti <= std::max(relax, 16 * 2.220446049250313e-16 * std::max(1.0, std::fabs(bnd)));
                // known finding lbfgsb-linesearch-roundoff-outside-bounds: lnsrlb_ (lbfgsb.cpp) forms the trial point x = stp*d + t with
                // stp <= the largest feasible step, but the rounding of that expression can land one ulp beyond a limit.
                // Site predicate: LBFGSB and excursion <= 16 eps max(1,|bound|).
                bool roundoffSite = used == LBFGSB && worst <= 16 * 2.220446049250313e-16 * std::max(1.0, std::fabs(bnd));
                if (site && ctx.known("lbfgsb-numgrad-outside-bounds")) ctx.label("excluded:numgrad-outside-bounds");
                else if (roundoffSite && ctx.known("lbfgsb-linesearch-roundoff-outside-bounds")) ctx.label("excluded:linesearch-roundoff-outside-bounds");
                else { ctx.fail(std::string(usedName) + ": " + o.worstWhere + " evaluated outside the parameter limits: x[" + std::to_string(i) + "]=" + pbt::str(o.worstVal) + " vs bound " + pbt::str(bnd) + " (outside by " + pbt::str(worst) + ", allowed " + pbt::str(relax) + ")" + (numGrad ? " [numerical gradient]" : "")); return; }
            } else ctx.label("bounds:within-ipopt-relaxation");
        } else ctx.label("bounds:all-evaluations-inside");
    }
    if (!o.ok) return;
    if (o.nonFinite) ctx.label("nonfinite-evaluation-point");

    // result finite
    for (int i = 0; i < n; ++i) if (!std::isfinite(o.x[i])) { ctx.fail("returned parameter " + std::to_string(i) + " is not finite"); return; }
    if (ctx.wantDesc) { ctx.desc.precision(17); ctx.desc << " used=" << usedName << " f=" << o.f << " evals=" << o.nObj << (n <= 6 ? " x=" + vec(o.x) : std::string()) << "\n"; }

    // B (result)
    if (c.hasLimits && honoursLimits) for (int i = 0; i < n; ++i) {
        double out = std::max(S.lo[i] - o.x[i], o.x[i] - S.hi[i]);
        double bnd = (S.lo[i] - o.x[i] > 0) ? S.lo[i] : S.hi[i];
        double relax = used == InteriorPoint ? 1e-7 * std::max(1.0, std::fabs(bnd)) : 0.0;
        if (out > 0 && used == LBFGSB && out <= 16 * 2.220446049250313e-16 * std::max(1.0, std::fabs(bnd)) && ctx.known("lbfgsb-linesearch-roundoff-outside-bounds")) { ctx.label("excluded:linesearch-roundoff-outside-bounds(result)"); continue; }
        if (out > relax) { ctx.fail(std::string(usedName) + ": returned x[" + std::to_string(i) + "]=" + pbt::str(o.x[i]) + " violates limit " + pbt::str(bnd) + " by " + pbt::str(out)); return; }
    }

    // T: truthful f
    std::vector<double> gr(n); S.grad(o.x.data(), gr.data());
    double fchk = S.fval(o.x.data());
    double tolT = 0;
    if (used == InteriorPoint) { double sg = 0; for (int i = 0; i < n; ++i) sg += std::fabs(gr[i]) * std::max(1.0, std::fabs(o.x[i])); tolT = 1e-7 * sg + 1e-9 * (std::fabs(fchk) + 1); }
    if (calib && used == InteriorPoint && tolT > 0) { double r = std::fabs(o.f - fchk) / tolT; ctx.label(std::string("calibT:") + (r == 0 ? "0" : r < 1e-3 ? "<1e-3" : r < 1e-2 ? "<1e-2" : r < 1e-1 ? "<1e-1" : r < 1 ? "<1" : ">=1")); if (r >= 1) tolT = 1e300; }
    if (!(std::fabs(o.f - fchk) <= tolT)) { ctx.fail(std::string(usedName) + ": returned f=" + pbt::str(o.f) + " but f(x_returned)=" + pbt::str(fchk) + " (difference " + pbt::str(o.f - fchk) + ", allowed " + pbt::str(tolT) + ")"); return; }
    ctx.label(o.f == fchk ? "truthful:bitwise" : "truthful:within-relaxation");

    // D: descent
    {
        std::vector<double> xs = c.x0; bool startFeasible = true;
        if (c.hasLimits) for (int i = 0; i < n; ++i) { double p = std::min(std::max(xs[i], S.lo[i]), S.hi[i]); if (p != xs[i]) startFeasible = false; xs[i] = p; }
        double f0 = S.fval((used == LBFGSB) ? xs.data() : c.x0.data());
        if (used == LBFGS || used == LBFGSB) {
            if (!(o.f <= f0)) { ctx.fail(std::string(usedName) + ": returned f=" + pbt::str(o.f) + " is worse than f(start)=" + pbt::str(f0)); return; }
            ctx.label(o.f < f0 ? "descent:improved" : "descent:equal");
        } else if (used == InteriorPoint && c.kind == 0) {
            std::vector<double> g0(S.me + S.mi); S.cons(c.x0.data(), g0.data());
            for (int j = 0; j < S.me + S.mi; ++j) if (j < S.me ? g0[j] != 0 : g0[j] < 0) startFeasible = false;
            if (startFeasible) { if (!(o.f <= f0 + tolT + 10 * c.tol * (std::fabs(f0) + 1))) { ctx.fail("InteriorPoint from a feasible start returned f=" + pbt::str(o.f) + " worse than f(start)=" + pbt::str(f0)); return; } ctx.label("descent:ipopt-feasible-start"); }
        }
    }

    // C: constraints at the result
    if (used == InteriorPoint && S.me + S.mi > 0) {
        std::vector<double> gv(S.me + S.mi); S.cons(o.x.data(), gv.data());
        double ctolEff = c.ctol;
        double worstC = 0;
        for (int j = 0; j < S.me + S.mi; ++j) { double v = j < S.me ? std::fabs(gv[j]) : std::max(0.0, -gv[j]); worstC = std::max(worstC, v); }
        // constraint bounds are relaxed by bound_relax_factor*max(1,|0|) as well, and the final x is moved back into the original
        // limits (by <= 1e-8 max(1,|bound|) per coordinate) after convergence
        { double mv = 0; for (int j = 0; j < S.me + S.mi; ++j) { double r = 0; for (int i = 0; i < n; ++i) r += std::fabs(S.A[j * n + i]) * std::max(1.0, std::fabs(o.x[i])); mv = std::max(mv, r); } ctolEff = c.ctol + 1e-8 * (1 + mv); }
        if (calib && worstC / ctolEff > 0.1) fprintf(stderr, "CALIB ConstraintViol worstC=%g ctol=%g ratio=%g\n", worstC, c.ctol, worstC / ctolEff);
        if (calib) { double r = worstC / ctolEff; ctx.label(std::string("calibC:") + (r == 0 ? "0" : r < 1e-3 ? "<1e-3" : r < 1e-2 ? "<1e-2" : r < 1e-1 ? "<1e-1" : r < 1 ? "<1" : r < 10 ? "<10" : ">=10")); }
        else if (worstC > 10 * ctolEff) { ctx.fail("InteriorPoint result violates a constraint by " + pbt::str(worstC) + " > 10*(constraintTolerance+relaxation)=" + pbt::str(10 * ctolEff)); return; }
        ctx.label("constraints:checked");
    }

    // R: optimum reached on the strictly convex class
    if (c.kind == 0) {
        double err = 0, xn = 0; for (int i = 0; i < n; ++i) { err = std::max(err, std::fabs(o.x[i] - c.xstar[i])); xn = std::max(xn, std::fabs(c.xstar[i])); }
        double kappa = c.lamMax / c.lamMin;
        double fs = S.fval(c.xstar.data());
        double gscale = c.lamMax * (1 + xn) + 1;     // gradient scale for FD noise
        double fdNoise = c.gradMode == 1 ? 1e-9 : c.gradMode == 2 ? 2e-7 : 0;   // relative FD gradient error (central ~eps^(2/3), forward ~sqrt(eps))
        if (used == CMAES) fdNoise = 0;
        double Lf = 1 + c.lamMax; for (int i = 0; i < n; ++i) Lf = std::max(Lf, 1 + c.lamMax + S.w[i] * S.s[i] * S.s[i]);
        double tolR;
        if (used == LBFGS) {
            // stop test: max_i |g_i| max(1,|x_i|) / max(0.1,|f|) <= tol  =>  ||x-x*||_2 <= ||g||_2/lamMin <= sqrt(n) tol max(0.1,|f|)/lamMin
            tolR = 10 * std::sqrt((double)n) * (c.tol * std::max(0.1, std::fabs(fs)) + fdNoise * gscale) / c.lamMin + 1e-9 * (1 + xn);
        } else if (used == LBFGSB) {
            // stop tests: (a) scaled projected gradient max_i |r_i| max(1,|x_i|)/max(0.1,|f|) <= tol (r = natural residual P(x-g)-x)
            //  => ||x-x*|| <= (1+L)/mu ||r||_2 <= (1+L)/mu sqrt(n) tol max(0.1,|f|);
            // (b) relative reduction of f in one iteration <= factr*epsmch (no rigorous bound: gap ~ kappa * reduction)
            double fr = (c.defaultFactr ? 1e7 : 10.0) * 2.22e-16 * std::max(1.0, std::fabs(fs));
            tolR = 10 * std::sqrt((double)n) * (c.tol * std::max(0.1, std::max(std::fabs(fs), std::fabs(o.f))) + fdNoise * gscale) * Lf / c.lamMin + 30 * std::sqrt(2 * kappa * fr / c.lamMin) + 1e-9 * (1 + xn);
        } else if (used == InteriorPoint) {
            // IPOPT: tol bounds the SCALED optimality error: gradient-based scaling G = max(1,|grad f(x0)|_inf/100); the barrier shifts the
            // solution by ~mu/(slack*lamMin) for every inactive bound/inequality (slack sMin) and by ~sqrt(mu/lamMin) for degenerate ones
            std::vector<double> g0(n); S.grad(c.x0.data(), g0.data()); double G = 1; for (int i = 0; i < n; ++i) G = std::max(G, std::fabs(g0[i]) / 100);
            double sMin = 1; bool degenerate = false; double an = 1;
            if (c.hasLimits) for (int i = 0; i < n; ++i) { if (c.status[i] >= 6) degenerate = true; if (c.status[i] != 1 && c.status[i] != 2 && c.status[i] < 6) { if (std::isfinite(S.lo[i])) sMin = std::min(sMin, c.xstar[i] - S.lo[i]); if (std::isfinite(S.hi[i])) sMin = std::min(sMin, S.hi[i] - c.xstar[i]); } }
            std::vector<double> gs(S.me + S.mi); S.cons(c.xstar.data(), gs.data());
            for (int j = 0; j < S.me + S.mi; ++j) { double rn = 0; for (int i = 0; i < n; ++i) rn += S.A[j * n + i] * S.A[j * n + i]; an = std::max(an, std::sqrt(rn)); if (j >= S.me && gs[j] > 0) sMin = std::min(sMin, gs[j] / std::max(1e-3, std::sqrt(rn))); if (j >= S.me && c.lam[j] == 0 && gs[j] <= 0) degenerate = true; }
            double t = (c.tol + fdNoise * gscale) * G;
            double rowMin = 1e300; for (int j = 0; j < S.me + S.mi; ++j) { double rn = 0; for (int i = 0; i < n; ++i) rn += S.A[j * n + i] * S.A[j * n + i]; rowMin = std::min(rowMin, std::sqrt(rn)); }
            double cTerm = (S.me + S.mi) ? 30 * c.ctol * std::sqrt((double)(S.me + S.mi)) / rowMin : 0;   // constraints may be violated by ctol
            // complementarity z*slack <= tol: an active bound/inequality with a small multiplier is left by ~tol/multiplier
            double multMin = 1e300; for (int i = 0; i < n; ++i) { if (c.zL[i] > 0) multMin = std::min(multMin, c.zL[i]); if (c.zU[i] > 0) multMin = std::min(multMin, c.zU[i]); }
            for (int j = S.me; j < S.me + S.mi; ++j) if (c.lam[j] > 0) { double rn = 0; for (int i = 0; i < n; ++i) rn += S.A[j * n + i] * S.A[j * n + i]; multMin = std::min(multMin, c.lam[j] * std::min(1.0, std::sqrt(rn))); }
            double mTerm = multMin < 1e300 ? 30 * t * std::sqrt((double)n) / multMin : 0;
            tolR = 30 * std::sqrt((double)n) * t * Lf * an / c.lamMin / sMin + (degenerate ? 30 * std::sqrt(t * n / c.lamMin) : 0) + cTerm + mTerm + 1e-6 * (1 + xn);
        } else { // CMAES: stochastic; stopTolFun = tol on f differences
            // with bounds active at the optimum the resampling scheme truncates the search distribution and CMA-ES stops early
            // (Optimizer.h warns about it): calibrated factor 10 for that class
            tolR = (30 * std::sqrt(2 * std::max(c.tol, 1e-12) * kappa / c.lamMin) + 5e-3 * (1 + xn)) * (c.nActive ? 10 : 1);
        }
        if (calib) {
            double r = err / tolR; char bkt[64]; int e = r <= 0 ? -9 : (int)std::floor(std::log10(r)); if (e < -9) e = -9;
            snprintf(bkt, sizeof bkt, "calibR:%s%s:1e%+03d", usedName, c.nActive ? "/active" : "", e); ctx.label(bkt);
            if (r > 0.03) fprintf(stderr, "CALIB %s n=%d gm=%d tol=%g kappa=%g lamMin=%g nAct=%d me=%d mi=%d err=%g tolR=%g ratio=%g\n", usedName, n, c.gradMode, c.tol, kappa, c.lamMin, c.nActive, S.me, S.mi, err, tolR, r);
        } else if (!(err <= tolR)) { ctx.fail(std::string(usedName) + ": returned point is " + pbt::str(err) + " away (inf-norm) from the unique minimiser (tolerance " + pbt::str(tolR) + "); f_returned-f*=" + pbt::str(o.f - fs)); return; }
        ctx.label("optimum:checked");
    }

    // S: CMA-ES seed determinism
    if (used == CMAES) {
        RunOut o2 = runOpt(S, c);
        if (!o2.ok) { ctx.fail("CMAES second run with the same seed threw: " + o2.exc.substr(0, 200)); return; }
        bool same = o2.f == o.f && o2.hash == o.hash && o2.nObj == o.nObj; for (int i = 0; i < n; ++i) if (o2.x[i] != o.x[i]) same = false;
        if (!same) { ctx.fail("CMAES with seed " + std::to_string(c.cmaSeed) + " is not reproducible: f " + pbt::str(o.f) + " vs " + pbt::str(o2.f) + ", evaluations " + std::to_string(o.nObj) + " vs " + std::to_string(o2.nObj)); return; }
        ctx.label("cmaes:reproducible");
    }
    if (numGrad) ctx.label(c.gradMode == 1 ? "grad:central" : "grad:forward"); else if (used != CMAES) ctx.label("grad:analytic");
    if (numJac) ctx.label("jac:numerical");
    if (c.nActive) ctx.label("active-bound-or-constraint");
    ctx.label(n <= 2 ? "n:1-2" : n <= 6 ? "n:3-6" : n <= 12 ? "n:7-12" : "n:13-20");
    ctx.nontrivial((n >= 3 && c.nActive > 0) || numGrad || numJac);
}

void property(const pbt::Tape& t, pbt::Ctx& ctx) {
    Case c; std::unique_ptr<Sys> S = build(t, c);
    judge(*S, c, ctx);
}

pbt::Config config() {
    pbt::Config c; c.prop = "C39"; c.K = 38; c.minUnits = 1;
    c.quick = {400, 2500, 20, 25}; c.thorough = {2500, 6000, 24, 240};
    c.rule = "rapidcheck tape -> OptimizerSystem with optimum known by construction (x*, active set and multipliers chosen first, linear term from the KKT conditions): strictly convex quadratic + logcosh terms (kappa <= 1e3) or Rosenbrock chain, n = 1..20 (= tape units; CMAES <= 8), box limits per coordinate (inactive/active/degenerate/one-sided/unbounded), 0..3 linear equalities and 0..4 linear inequalities (InteriorPoint, BestAvailable), analytic/central/forward gradients, numerical Jacobian, tolerances 1e-4..1e-9. Non-trivial: n >= 3 with an active bound or constraint at the optimum, or numerical derivatives; distinct by tape hash.";
    c.assumptions = {"KKT at x* (constructed) + strict convexity => x* is the unique minimiser", "IPOPT bound_relax_factor 1e-8 is documented behaviour (tolerances 1e-7 on bounds, gradient-scaled on f)", "OptimizerFailed exceptions are clean rejections", "CMA-ES reproducibility requires seed > 0 and maxTimeFractionForEigendecomposition >= 1 (Optimizer.h)"};
    c.requiredLabels = {"alg:LBFGS", "alg:LBFGSB", "alg:InteriorPoint", "alg:CMAES", "alg:BestAvailable", "kind:rosenbrock", "optimum:checked", "constraints:checked", "cmaes:reproducible", "grad:central", "grad:forward", "jac:numerical", "active-bound-or-constraint", "best->InteriorPoint", "best->LBFGSB", "best->LBFGS"};
    c.directed.push_back({"lbfgsb-central-fd-leaves-box", "lbfgsb-numgrad-outside-bounds", [](pbt::Ctx& ctx) {
        // f = x^2/2 on [-1,1], start at the lower limit, LBFGSB with central-difference gradient
        Sys S(1); S.kind = 0; S.Q = {1}; S.b = {0}; S.w = {0}; S.s = {0}; S.lo = {-1}; S.hi = {1}; S.haveBounds = true;
        Vector lo(1, -1.0), hi(1, 1.0); S.setParameterLimits(lo, hi);
        Optimizer opt(S, LBFGSB); opt.useNumericalGradient(true); Vector x(1, -1.0); opt.optimize(x);
        ctx.desc << "LBFGSB, numerical gradient, f=x^2/2 on [-1,1] from x0=-1: worst excursion " << S.worstOut << " at x=" << S.worstVal << "\n";
        ctx.check(S.worstOut == 0, "objectiveFunc evaluated outside the limits by " + pbt::str(S.worstOut) + " (x=" + pbt::str(S.worstVal) + ")");
    }});
    c.directed.push_back({"lbfgsb-linesearch-roundoff", "lbfgsb-linesearch-roundoff-outside-bounds", [](pbt::Ctx& ctx) {
        // f = |x|^2/2 - x2 on [-1,1]x[0,1]x[-1,0], analytic gradient: a line-search trial point has x1 = -2.6e-26 < 0
        Sys S(3); S.kind = 0; S.Q = {1, 0, 0, 0, 0.99999999999999989, 0, 0, 0, 0.99999999999999989}; S.b = {0, 0, 1}; S.w = {0, 0, 0}; S.s = {0, 0, 0};
        S.lo = {-1, 0, -1}; S.hi = {1, 1, 0}; S.haveBounds = true;
        Vector lo(3), hi(3); for (int i = 0; i < 3; ++i) { lo[i] = S.lo[i]; hi[i] = S.hi[i]; } S.setParameterLimits(lo, hi);
        Optimizer opt(S, LBFGSB); opt.setConvergenceTolerance(1e-4); opt.setAdvancedRealOption("factr", 10.0);
        Vector x(3); x[0] = -1; x[1] = 2.3283064365386963e-10; x[2] = -0.054775453638285398; opt.optimize(x);
        ctx.desc << "LBFGSB, analytic gradient, 3-d quadratic in a box: worst excursion " << S.worstOut << " at coordinate " << S.worstCoord << " value " << S.worstVal << "\n";
        ctx.check(S.worstOut == 0, "objectiveFunc evaluated outside the limits by " + pbt::str(S.worstOut) + " (x[" + std::to_string(S.worstCoord) + "]=" + pbt::str(S.worstVal) + ")");
    }});
    c.caseTimeoutSecs = 120;
    return c;
}
} // namespace

PBT_MAIN(config(), property)
