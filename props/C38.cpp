// C38 -- Non-contact force elements follow their documented laws (DESIGN.md 5, C38).
// Domain: mbgen tree (1..6 bodies, all mobilizer types) + 1..n built-in non-contact force elements (forcegen.h:
//   Gravity, UniformGravity, TwoPointLinearSpring/Damper/ConstantForce, ConstantForce/Torque, GlobalDamper,
//   MobilityLinearSpring/Damper/ConstantForce/LinearStop/DiscreteForce, DiscreteForces, LinearBushing) with random
//   parameters/attachments, random state, then a history of state-level parameter changes / enable / disable /
//   gravity exclusions / q,u changes / partial realizations, each (mostly) followed by a re-realization and a full check.
// Oracle (R): forcegen::refLaw = each element's documented law evaluated here from REPORTED kinematics (body poses,
//   velocities, mobilizer q/u/qdot) and the model of the current parameter values:
//   (a) Force::calcForceContribution / calcPotentialEnergyContribution of every element (zero when disabled),
//   (b) element accessors (Gravity::getBodyForces/getPotentialEnergy, LinearBushing::getQ/getQDot/getF/getPotentialEnergy/
//       getPowerDissipation, parameter getters == values set, isDisabled),
//   (c) the system totals after realize(Dynamics): getRigidBodyForces, getMobilityForces, calcPotentialEnergy == sum of the
//       references of the enabled elements with the CURRENT values ("changes take effect at the next realization").
#include "pbt.h"
#include "mbgen.h"
#include "forcegen.h"
using namespace SimTK;
namespace fg = forcegen;

namespace {
std::string S(double a) { return pbt::str(a); }
const int KW = 51;   // word of a unit that selects its role (unused by mbgen/forcegen decoders)

Real bodyErr(const Vector_<SpatialVec>& a, const Vector_<SpatialVec>& b) {
    if (a.size() != b.size()) return Infinity; Real m = 0;
    for (int i = 0; i < a.size(); ++i) { Real e = (a[i][0] - b[i][0]).norm() + (a[i][1] - b[i][1]).norm(); if (!(e <= m)) m = e; if (isNaN(e)) return NaN; }
    return m;
}
Real vecErr(const Vector& a, const Vector& b) {
    if (a.size() != b.size()) return Infinity; Real m = 0;
    for (int i = 0; i < a.size(); ++i) { Real e = std::abs(a[i] - b[i]); if (isNaN(e)) return NaN; if (e > m) m = e; }
    return m;
}
Real vec6Err(const Vec6& a, const Vec6& b) { Real m = 0; for (int i = 0; i < 6; ++i) { Real e = std::abs(a[i] - b[i]); if (isNaN(e)) return NaN; m = std::max(m, e); } return m; }

struct Calib { Real elem = 0, tot = 0, pe = 0; };
Calib& calib() { static Calib c; return c; }   // diagnostic only (C38_CALIB): worst error/scale ratios, never used for a verdict

struct Harness {
    pbt::Ctx& ctx; mbgen::ModelSpec spec; mbgen::ModelSpec cur;   // cur = current q,u values
    std::unique_ptr<mbgen::Built> m; std::vector<fg::Element> el; std::vector<fg::Vals> val;
    bool ugSiteSeen = false; std::vector<Real> ugOffset; std::vector<bool> ugOffsetSet;
    int checks = 0;
    explicit Harness(pbt::Ctx& c) : ctx(c) {}

    static constexpr Real RTOL = 1e-12;

    // full check at Stage::Dynamics; returns false after a failure
    bool checkAll(const std::string& when) {
        State& s = m->state; const MultibodySystem& sys = m->sys;
        sys.realize(s, Stage::Dynamics);
        ++checks;
        fg::Kin kin = fg::snapshot(*m, spec, s);
        const int nb = kin.nb, nu = kin.nu;
        fg::Applied tot; tot.reset(nb, nu); bool totSkip = false; Real ugTotalOffset = 0;
        for (size_t i = 0; i < el.size(); ++i) {
            const fg::Element& e = el[i]; const fg::Vals& v = val[i]; const std::string who = "element #" + std::to_string(i) + " " + fg::kindName(e.spec.kind) + " " + when + ": ";
            if (!ctx.check(e.force.isDisabled(s) == v.disabled, who + "isDisabled() != model")) return false;
            fg::Applied a; a.reset(nb, nu); Vec6 bq, bqd, bf;
            fg::refLaw(e, v, kin, a, &bq, &bqd, &bf);
            for (auto& c : a.classes) ctx.label(c);
            if (a.skip) { ctx.label("skip:" + a.skipWhy); totSkip = true; continue; }
            // (a) contribution of this element
            Vector_<SpatialVec> bfL(1, SpatialVec(Vec3(NaN), Vec3(NaN))); Vector_<Vec3> pfL; Vector mfL(1, NaN);
            e.force.calcForceContribution(s, bfL, pfL, mfL);
            Real peL = e.force.calcPotentialEnergyContribution(s);
            const Real tol = RTOL * (1 + a.scale), petol = RTOL * (1 + a.peScale);
            Real eb = bodyErr(bfL, a.body), em = vecErr(mfL, a.mob);
            if (!(eb <= tol)) { ctx.fail(who + "body forces of calcForceContribution differ from the documented law by " + S(eb) + " (tol " + S(tol) + ")" + detailBody(bfL, a.body)); return false; }
            if (!(em <= tol)) { ctx.fail(who + "mobility forces of calcForceContribution differ from the documented law by " + S(em) + " (tol " + S(tol) + ")" + detailVec(mfL, a.mob)); return false; }
            if (!ctx.check(pfL.size() == 0, who + "particle forces present")) return false;
            if (getenv("C38_CALIB")) { calib().elem = std::max(calib().elem, std::max(eb, em) / (1 + a.scale)); }
            // potential energy (documented: zero for non-potential elements)
            Real peRef = a.pe;
            bool ugSite = e.spec.kind == fg::UniformGravity && e.spec.zeroHeight != 0 && e.spec.vec.norm() != 1 && !v.disabled;
            if (ugSite && ctx.known("uniformgravity-zeroheight-scale")) {
                // excluded clause: the additive constant of the potential energy. Still demanded: PE differs from the documented one
                // by a constant that does not depend on the state (same value at every check of this case).
                ctx.label("excluded:uniformgravity-zeroheight-scale");
                Real g = e.spec.vec.norm(); Real mtot = 0; for (int b = 1; b <= nb; ++b) mtot += kin.mass[b];
                Real noOffset = a.pe + mtot * g * e.spec.zeroHeight; Real off = peL - noOffset;
                if (!ugOffsetSet[i]) { ugOffsetSet[i] = true; ugOffset[i] = off; }
                if (!(std::abs(off - ugOffset[i]) <= petol)) { ctx.fail(who + "potential energy offset changed with the state: " + S(off) + " vs " + S(ugOffset[i])); return false; }
                peRef = noOffset + off; ugTotalOffset += off - (-mtot * g * e.spec.zeroHeight);
            } else if (!(std::abs(peL - peRef) <= petol)) { ctx.fail(who + "calcPotentialEnergyContribution " + S(peL) + " != documented " + S(peRef) + " (tol " + S(petol) + ")"); return false; }
            if (getenv("C38_CALIB")) calib().pe = std::max(calib().pe, std::abs(peL - peRef) / (1 + a.peScale));
            // (b) accessors
            if (!accessors(e, v, a, kin, who, bq, bqd, bf, tol, petol, peRef)) return false;
            // accumulate
            tot.body += a.body; tot.mob += a.mob; tot.pe += a.pe; tot.scale += a.scale; tot.peScale += a.peScale;
        }
        if (totSkip) { ctx.label("totals-skipped"); return true; }
        // (c) system totals
        const Vector_<SpatialVec>& BF = sys.getRigidBodyForces(s, Stage::Dynamics); const Vector& MF = sys.getMobilityForces(s, Stage::Dynamics);
        const Real tol = RTOL * (1 + tot.scale), petol = RTOL * (1 + tot.peScale);
        Real eb = bodyErr(BF, tot.body), em = vecErr(MF, tot.mob);
        if (!(eb <= tol)) { ctx.fail("system body forces " + when + " differ from the sum of the documented laws with the current values by " + S(eb) + " (tol " + S(tol) + ")" + detailBody(BF, tot.body)); return false; }
        if (!(em <= tol)) { ctx.fail("system mobility forces " + when + " differ from the sum of the documented laws with the current values by " + S(em) + " (tol " + S(tol) + ")" + detailVec(MF, tot.mob)); return false; }
        Real peT = sys.calcPotentialEnergy(s), peRefT = tot.pe + ugTotalOffset;
        if (!(std::abs(peT - peRefT) <= petol)) { ctx.fail("system potential energy " + when + " " + S(peT) + " != sum of documented energies " + S(peRefT)); return false; }
        if (getenv("C38_CALIB")) calib().tot = std::max(calib().tot, std::max(eb, em) / (1 + tot.scale));
        return true;
    }
    static std::string detailBody(const Vector_<SpatialVec>& l, const Vector_<SpatialVec>& r) {
        std::ostringstream o; o.precision(12); for (int i = 0; i < std::min(l.size(), r.size()); ++i) if ((l[i][0] - r[i][0]).norm() + (l[i][1] - r[i][1]).norm() > 1e-9 || isNaN(l[i][0].norm() + l[i][1].norm())) { o << "; body " << i << " lib=" << l[i] << " ref=" << r[i]; break; }
        return o.str();
    }
    static std::string detailVec(const Vector& l, const Vector& r) {
        std::ostringstream o; o.precision(12); for (int i = 0; i < std::min(l.size(), r.size()); ++i) if (!(std::abs(l[i] - r[i]) <= 1e-9)) { o << "; u#" << i << " lib=" << l[i] << " ref=" << r[i]; break; }
        return o.str();
    }

    bool accessors(const fg::Element& e, const fg::Vals& v, const fg::Applied& a, const fg::Kin& kin, const std::string& who, const Vec6& bq, const Vec6& bqd, const Vec6& bf, Real tol, Real petol, Real peRef) {
        const State& s = m->state; const int nb = kin.nb;
        switch (e.spec.kind) {
            case fg::Gravity: {
                if (!ctx.check(e.grav.getMagnitude(s) == v.gmag && e.grav.getZeroHeight(s) == v.zeroHeight, who + "getMagnitude/getZeroHeight != value set")) return false;
                if (!ctx.check((e.grav.getDownDirection(s).asVec3() - v.down).norm() <= 4e-16, who + "getDownDirection != value set")) return false;
                if (!ctx.check((e.grav.getGravityVector(s) - v.gmag * v.down).norm() <= 1e-14 * (1 + v.gmag), who + "getGravityVector != g*d")) return false;
                for (int b = 0; b <= nb; ++b) if (!ctx.check(e.grav.getBodyIsExcluded(s, MobilizedBodyIndex(b)) == (b == 0 ? true : (bool)v.excluded[b]), who + "getBodyIsExcluded(" + std::to_string(b) + ") != model")) return false;
                if (v.disabled) break;
                Real eb = bodyErr(e.grav.getBodyForces(s), a.body);
                if (!(eb <= tol)) { ctx.fail(who + "Gravity::getBodyForces differs from m*g*d at the mass centres of the non-excluded bodies by " + S(eb) + detailBody(e.grav.getBodyForces(s), a.body)); return false; }
                if (!(std::abs(e.grav.getPotentialEnergy(s) - peRef) <= petol)) { ctx.fail(who + "Gravity::getPotentialEnergy " + S(e.grav.getPotentialEnergy(s)) + " != " + S(peRef)); return false; }
                break; }
            case fg::MobilityLinearSpring: if (!ctx.check(e.mls.getStiffness(s) == v.k && e.mls.getQZero(s) == v.x0, who + "getStiffness/getQZero != value set")) return false; break;
            case fg::MobilityLinearDamper: if (!ctx.check(e.mld.getDamping(s) == v.c, who + "getDamping != value set")) return false; break;
            case fg::MobilityConstantForce: if (!ctx.check(e.mcf.getForce(s) == v.f, who + "getForce != value set")) return false; break;
            case fg::MobilityDiscreteForce: if (!ctx.check(e.mdf.getMobilityForce(s) == v.f, who + "getMobilityForce != value set")) return false; break;
            case fg::MobilityLinearStop: if (!ctx.check(e.stop.getLowerBound(s) == v.qlo && e.stop.getUpperBound(s) == v.qhi && e.stop.getStiffness(s) == v.k && e.stop.getDissipation(s) == v.d, who + "stop getters != values set")) return false; break;
            case fg::DiscreteForces: {
                for (int b = 0; b <= nb; ++b) { SpatialVec F = e.disc.getOneBodyForce(s, m->mb[b]); SpatialVec R = v.bodyF.size() ? v.bodyF[b] : SpatialVec(Vec3(0), Vec3(0));
                    if (!ctx.check((F[0] - R[0]).norm() + (F[1] - R[1]).norm() <= tol, who + "getOneBodyForce(" + std::to_string(b) + ") != model")) return false; }
                for (int b = 1; b <= nb; ++b) for (int k = 0; k < (int)kin.u[b].size(); ++k) { Real f = e.disc.getOneMobilityForce(s, m->mb[b], MobilizerUIndex(k)); Real r = v.mobF.size() ? v.mobF[kin.firstU[b] + k] : 0;
                    if (!ctx.check(f == r, who + "getOneMobilityForce != model")) return false; }
                break; }
            case fg::LinearBushing: {
                if (!ctx.check(vec6Err(e.bush.getStiffness(s), v.bk) == 0 && vec6Err(e.bush.getDamping(s), v.bc) == 0, who + "bushing getStiffness/getDamping != values set")) return false;
                if (v.disabled) break;
                Real qs = 4 + bq.norm(), qds = a.scale;
                if (!(vec6Err(e.bush.getQ(s), bq) <= 1e-11 * qs / std::abs(std::cos(bq[1])))) { std::ostringstream o; o.precision(15); o << who << "LinearBushing::getQ " << e.bush.getQ(s) << " != inferred body-XYZ angles + p_FM " << bq; ctx.fail(o.str()); return false; }
                if (!(vec6Err(e.bush.getQDot(s), bqd) <= 1e-10 * (1 + bqd.norm() + qds))) { std::ostringstream o; o.precision(15); o << who << "LinearBushing::getQDot " << e.bush.getQDot(s) << " != inferred " << bqd; ctx.fail(o.str()); return false; }
                if (!(vec6Err(e.bush.getF(s), bf) <= tol)) { std::ostringstream o; o.precision(15); o << who << "LinearBushing::getF " << e.bush.getF(s) << " != -(k q + c qdot) " << bf; ctx.fail(o.str()); return false; }
                if (!(std::abs(e.bush.getPotentialEnergy(s) - peRef) <= petol)) { ctx.fail(who + "LinearBushing::getPotentialEnergy != sum k q^2/2"); return false; }
                Real pw = 0; for (int i = 0; i < 6; ++i) pw += v.bc[i] * bqd[i] * bqd[i];
                if (!(std::abs(e.bush.getPowerDissipation(s) - pw) <= 1e-10 * (1 + std::abs(pw)) + tol)) { ctx.fail(who + "LinearBushing::getPowerDissipation " + S(e.bush.getPowerDissipation(s)) + " != sum c qdot^2 " + S(pw)); return false; }
                break; }
            default: break;
        }
        return true;
    }
};

void runCase(const pbt::Tape& t, pbt::Ctx& ctx, const fg::Options& fopt, int forceUnitsWanted) {
    (void)forceUnitsWanted;
    pbt::Reader g(t[0]);
    // ---- classify the units
    std::vector<int> bodyU, forceU, opU; const int maxBodies = 6;
    for (int i = 1; i < (int)t.size(); ++i) { uint32_t kw = t[i].size() > (size_t)KW ? t[i][KW] % 16u : 0u;     // 6/16 body, 4/16 force, 6/16 operation; surplus body units become operations
        if (kw <= 5 && (int)bodyU.size() < maxBodies) bodyU.push_back(i); else if (kw >= 6 && kw <= 9) forceU.push_back(i); else opU.push_back(i); }
    mbgen::Options opt; opt.maxBodies = maxBodies;
    pbt::Tape bt; bt.push_back(t[0]); for (int i : bodyU) bt.push_back(t[i]);
    Harness H(ctx);
    H.spec = mbgen::decodeModel(bt, 1, (int)bodyU.size(), g, opt); H.cur = H.spec;
    mbgen::labelModel(ctx, H.spec);
    // ---- forces
    std::vector<fg::ForceSpec> fs;
    {   pbt::Seg s0(t[0].begin() + std::min<size_t>(4, t[0].size()), t[0].end()); fs.push_back(fg::decodeForce(s0, H.spec, fopt)); }   // always at least one element
    for (int i : forceU) if ((int)fs.size() < 8) fs.push_back(fg::decodeForce(t[i], H.spec, fopt));
    H.m.reset(new mbgen::Built(H.spec));
    for (auto& f : fs) { H.el.push_back(fg::addToModel(*H.m, H.spec, f)); H.val.push_back(fg::initialVals(f)); ctx.label(std::string("force:") + fg::kindName(f.kind)); if (f.disabledByDefault) ctx.label("disabled-by-default"); }
    H.ugOffset.assign(fs.size(), 0); H.ugOffsetSet.assign(fs.size(), false);
    for (auto& f : fs) { if (f.kind == fg::Gravity) { if (f.gmag == 0) ctx.label("gravity:g=0"); bool any = false; for (size_t i = 1; i < f.defExcluded.size(); ++i) any = any || f.defExcluded[i]; if (any) ctx.label("gravity:default-exclusions"); ctx.label("gravity:ctor" + std::to_string(f.gravCtor == 3 ? 0 : f.gravCtor)); }
                         if (fg::isTwoPoint(f.kind) && f.b1 == f.b2) ctx.label("twopoint:same-body");
                         if (fg::onMobility(f.kind)) ctx.label(std::string("on:") + mbgen::mobName(H.spec.bodies[f.mob - 1].type)); }
    if (ctx.wantDesc) { H.spec.describe(ctx.desc); for (size_t i = 0; i < fs.size(); ++i) { ctx.desc << " force#" << i << ": "; fs[i].describe(ctx.desc); } }
    H.m->finish(H.spec); H.m->setState(H.spec);
    State& s = H.m->state;

    // ---- initial check
    if (!H.checkAll("(initial state)")) return;

    // ---- history
    int nOps = 0; bool nontrivial = false;
    for (int ui : opU) {
        if (++nOps > 16) break;
        const pbt::Seg& seg = t[ui]; pbt::Reader r(seg);
        int cls = r.pick(4); bool checkAfter = (r.w() % 4u) != 3u;
        std::string when;
        if (cls <= 1) {
            fg::Op op = fg::decodeOp(r, H.el, H.spec, &H.val); if (op.structured) ctx.label("op-structured-value"); const fg::Element& e = H.el[op.elem]; fg::Vals& v = H.val[op.elem];
            const bool stageAtLeastPosition = s.getSystemStage() >= Stage::Position;
            // Known finding gravity-exclude-ground-nan: Gravity::setBodyIsExcluded(state, Ground, false) is documented as ignored but poisons
            // the Ground entry of the gravity force cache with NaN when g != 0. Site (input): exactly that call; excluded by not making it.
            if (e.spec.kind == fg::Gravity && op.isParam() && op.what - fg::OpSetA == 3 && op.body == 0 && !op.flag && v.gmag != 0 && ctx.known("gravity-exclude-ground-nan")) {
                ctx.label("excluded:gravity-exclude-ground-nan"); if (ctx.wantDesc) ctx.desc << " op: (skipped, known finding) " << op.name << "\n"; continue; }
            bool changed = fg::applyOp(*H.m, s, e, v, op);
            if (ctx.wantDesc) { ctx.desc << " op: "; op.describe(ctx.desc); ctx.desc << (changed ? "" : " (no change)") << (checkAfter ? "" : " [no check]") << "\n"; }
            ctx.label(op.isParam() ? std::string("op:") + fg::kindName(e.spec.kind) + "." + fg::setterNames(e.spec.kind)[op.what - fg::OpSetA] : (op.what == fg::OpDisable ? "op:disable" : "op:enable"));
            if (changed) { nontrivial = true; ctx.label("op-changed-value"); }
            // Known finding mls-stale-cache: a MobilityLinearSpring parameter change while the position-only force cache of the
            // GeneralForceSubsystem may be valid is not seen by the next realization. Site (on the input): setStiffness/setQZero with a
            // different value on an enabled spring while the State is realized to Position or higher. Excluded by construction: the
            // harness invalidates the Position stage itself, so the history continues with the values the documentation promises.
            if (e.spec.kind == fg::MobilityLinearSpring && op.isParam() && changed && !v.disabled && stageAtLeastPosition && ctx.known("mls-stale-cache")) {
                s.invalidateAllCacheAtOrAbove(Stage::Position); ctx.label("excluded:mls-stale-cache"); }
            when = "(after " + op.name + ")";
        } else if (cls == 2) {
            int b = r.pick(H.spec.nBodies()); int mode = r.pick(3);
            mbgen::Options o1 = opt; o1.only({H.spec.bodies[b].type}); o1.allowReverse = true;
            pbt::Seg sub(seg.begin() + 3, seg.end());
            mbgen::BodySpec nbS = mbgen::decodeBody(sub, b, H.cur.euler, H.cur.unnormQuat, o1);
            mbgen::BodySpec& cb = H.cur.bodies[b];
            if (mode != 2) for (int k = 0; k < 7; ++k) { if (cb.type == mbgen::SphericalCoords && k == 1) continue; cb.q[k] = nbS.q[k]; }   // zenith domain depends on the body's own parameters: keep
            if (mode != 1) for (int k = 0; k < 6; ++k) cb.u[k] = nbS.u[k];
            const MobilizedBody& mb = H.m->mb[b + 1]; int nq = mb.getNumQ(s), nu = mb.getNumU(s);
            if (mode != 2) for (int k = 0; k < nq; ++k) mb.setOneQ(s, k, cb.q[k]);
            if (mode != 1) for (int k = 0; k < nu; ++k) mb.setOneU(s, k, H.cur.zeroU ? 0.0 : cb.u[k]);
            ctx.label(mode == 0 ? "op:set-q-u" : mode == 1 ? "op:set-q" : "op:set-u");
            if (ctx.wantDesc) ctx.desc << " op: set " << (mode == 0 ? "q,u" : mode == 1 ? "q" : "u") << " of body " << b + 1 << (checkAfter ? "" : " [no check]") << "\n";
            when = "(after a state change of body " + std::to_string(b + 1) + ")";
        } else {
            static const Stage::Level st[] = {Stage::Time, Stage::Position, Stage::Velocity, Stage::Dynamics, Stage::Acceleration, Stage::Report, Stage::Instance};
            int k = r.pick(7); H.m->sys.realize(s, Stage(st[k]));
            ctx.label(std::string("op:realize-") + Stage(st[k]).getName());
            if (ctx.wantDesc) ctx.desc << " op: realize(" << Stage(st[k]).getName() << ")\n";
            continue;
        }
        if (checkAfter && !H.checkAll(when)) return;
    }
    if (!H.checkAll("(final)")) return;
    ctx.nontrivial(nontrivial);
    ctx.label(nOps == 0 ? "ops:0" : nOps <= 3 ? "ops:1-3" : nOps <= 8 ? "ops:4-8" : "ops:9+");
}

void property(const pbt::Tape& t, pbt::Ctx& ctx) {
    runCase(t, ctx, fg::Options(), 0);
    if (getenv("C38_CALIB")) fprintf(stderr, "CALIB elem %.3e tot %.3e pe %.3e\n", calib().elem, calib().tot, calib().pe);
}

// ---------------------------------------------------------------- directed reproducers
void directedMlsStale(pbt::Ctx& ctx) {
    MultibodySystem sys; SimbodyMatterSubsystem matter(sys); GeneralForceSubsystem forces(sys);
    Body::Rigid body(MassProperties(1, Vec3(0), Inertia(1)));
    MobilizedBody::Pin pin(matter.Ground(), Transform(), body, Transform());
    Force::MobilityLinearSpring spr(forces, pin, MobilizerQIndex(0), 10.0, 0.0);
    State s = sys.realizeTopology(); pin.setQ(s, 0.5); sys.realize(s, Stage::Dynamics);
    Real f1 = sys.getMobilityForces(s, Stage::Dynamics)[0];
    spr.setStiffness(s, 20.0); sys.realize(s, Stage::Dynamics);
    Real f2 = sys.getMobilityForces(s, Stage::Dynamics)[0];
    ctx.desc << "Pin, MobilityLinearSpring k=10 q0=0, q=0.5: realize(Dynamics) -> f=" << f1 << "; setStiffness(20); realize(Dynamics) -> f=" << f2 << " (documented -k(q-q0) = -10)\n";
    ctx.check(std::abs(f1 + 5) < 1e-12, "initial spring force wrong");
    ctx.check(std::abs(f2 + 10) < 1e-12, "MobilityLinearSpring::setStiffness after a realization is ignored by the next realize(Dynamics): mobility force " + S(f2) + " instead of -10");
    spr.setQZero(s, 0.25); sys.realize(s, Stage::Dynamics);
    Real f3 = sys.getMobilityForces(s, Stage::Dynamics)[0];
    ctx.check(std::abs(f3 + 5) < 1e-12, "MobilityLinearSpring::setQZero after a realization is ignored by the next realize(Dynamics): mobility force " + S(f3) + " instead of -5");
}
void directedUniformGravityZeroHeight(pbt::Ctx& ctx) {
    MultibodySystem sys; SimbodyMatterSubsystem matter(sys); GeneralForceSubsystem forces(sys);
    Body::Rigid body(MassProperties(2, Vec3(0), Inertia(1)));
    MobilizedBody::Translation tr(matter.Ground(), Transform(), body, Transform());
    Force::UniformGravity g(forces, matter, Vec3(0, -9.8, 0), 3.0);
    State s = sys.realizeTopology(); tr.setQFromVector(s, Vector(Vec3(0, 3.0, 0))); sys.realize(s, Stage::Position);
    Real pe = sys.calcPotentialEnergy(s);
    ctx.desc << "UniformGravity g=(0,-9.8,0), zeroHeight=3, one body of mass 2 at height 3: PE=" << pe << " (header: zeroHeight is the height at which the potential energy is zero)\n";
    ctx.check(std::abs(pe) < 1e-12, "UniformGravity potential energy at the zero height is " + S(pe) + ", not 0 (zero height not scaled by |g|)");
}

void directedGravityGroundNaN(pbt::Ctx& ctx) {
    MultibodySystem sys; SimbodyMatterSubsystem matter(sys); GeneralForceSubsystem forces(sys);
    Body::Rigid body(MassProperties(1, Vec3(0), Inertia(1)));
    MobilizedBody::Pin pin(matter.Ground(), Transform(), body, Transform());
    Force::Gravity grav(forces, matter, UnitVec3(0, 0, -1), 10.0);
    State s = sys.realizeTopology(); sys.realize(s, Stage::Dynamics);
    grav.setBodyIsExcluded(s, MobilizedBodyIndex(0), false);     // "you can call this method on Ground but the call will be ignored"
    sys.realize(s, Stage::Dynamics);
    SpatialVec F0 = grav.getBodyForces(s)[0], T0 = sys.getRigidBodyForces(s, Stage::Dynamics)[0];
    ctx.desc << "Pin + Gravity(g=10): setBodyIsExcluded(state, Ground, false); realize(Dynamics): Gravity::getBodyForces()[Ground]=" << F0 << " system body force on Ground=" << T0 << "\n";
    ctx.check(!(isNaN(F0[0].norm()) || isNaN(F0[1].norm())) && F0[1].norm() == 0, "Gravity::setBodyIsExcluded(state, Ground, false) is not ignored: the gravity force on Ground becomes NaN");
    ctx.check(!(isNaN(T0[0].norm()) || isNaN(T0[1].norm())), "system body force on Ground is NaN after Gravity::setBodyIsExcluded(state, Ground, false)");
}

pbt::Config config() {
    pbt::Config c; c.prop = "C38"; c.K = mbgen::K; c.minUnits = 1;
    c.quick = {3000, 12000, 40, 20}; c.thorough = {30000, 120000, 48, 100};
    c.rule = "rapidcheck tape -> mbgen tree (1..6 bodies, all 18 mobilizer types, reversed, general frames, Euler/quaternion) + 1..8 built-in non-contact force elements (15 kinds, random parameters/attachments; coordinate springs/stops only on mobilizers with qdot==u) + history of <= 16 operations (state-level parameter setters, enable/disable, gravity exclusions, q/u changes, partial realizations); after (most) operations realize(Dynamics) and compare every element's calcForceContribution/PE/accessors and the system force and energy totals with the documented laws evaluated from reported kinematics. Non-trivial: the history contains a parameter / enable / exclusion operation that changes a value after a realization; distinct by tape hash.";
    c.assumptions = {"reported body poses/velocities and mobilizer q,u,qdot are taken as given (C03/C05)", "TwoPoint* elements with points closer than 1e-3 and LinearBushing with |cos(middle angle)| < 0.15 are not judged (documented error / singular configurations)",
                     "tolerance 1e-12 * (1 + sum of force magnitudes x (1 + lever arms)); bushing scaled by 1/cos^2(middle angle)"};
    c.directed = {{"mls-stale-cache", "mls-stale-cache", directedMlsStale}, {"uniformgravity-zeroheight", "uniformgravity-zeroheight-scale", directedUniformGravityZeroHeight},
                  {"gravity-exclude-ground-nan", "gravity-exclude-ground-nan", directedGravityGroundNaN}};
    for (int k = 0; k < fg::NumKinds; ++k) c.requiredLabels.push_back(std::string("force:") + fg::kindName(k));
    for (const char* l : {"op:disable", "op:enable", "op:Gravity.setBodyIsExcluded", "op:Gravity.setMagnitude", "op:MobilityLinearSpring.setStiffness", "op:MobilityLinearStop.setBounds", "op:LinearBushing.setFrameOnBody1",
                          "op:DiscreteForces.addForceToBodyPoint", "stop:upper", "stop:lower", "stop:inside", "stop:upper-clamped", "stop:lower-clamped", "op:set-q", "disabled-by-default"}) c.requiredLabels.push_back(l);
    return c;
}
} // namespace

PBT_MAIN(config(), property)
