// C43 -- Assembly and fitting results satisfy what they report (DESIGN.md 5, C43).
// Three solvers, selected by the tape: Assembler (assemble + track frames), ObservedPointFitter::findBestFit,
// LocalEnergyMinimizer::minimizeEnergy.
// Domain: consgen models (mbgen tree of 1..4 bodies, every mobilizer type, Euler/quaternion, + 0..3 position
// constraints of the kinds that make sense for assembly, parameters fitted so that the generated configuration is an
// assembled REFERENCE); markers / orientation sensors / QValue goals and errors generated from the reference (exact or
// noisy, weighted, some observations missing, permuted observation order); lockMobilizer / lockQ /
// MobilizedBody::lock / prescribed Motion; restrictQ boxes that contain or exclude the reference; accuracy,
// error tolerance, RMS/inf norm, numerical gradient/Jacobian; start = reference perturbed (at / near / far).
// Oracle (on success; a thrown failure is a rejection): see notes/C43.md -- (A1) every enabled position constraint
// and every error condition within the tolerance in use, recomputed from the user's state; (A2) locked coordinates
// bitwise unchanged in the Assembler's internal state and locked mobilizer POSES unchanged in the user's state;
// (A3) prescribed coordinates equal their prescribed value; (A4) restricted coordinates inside their box;
// (A5) only q changed; (A6) returned goal = calcCurrentGoal = my recomputation from body poses; (A7) goal not
// worse than at a feasible start; (A8) exact data + near start: residuals ~ 0 to accuracy-scaled bounds; (G1) the analytic goal
// gradients of Markers / OrientationSensors w.r.t. the free q's = central differences of the documented goal; (T1) differential twin
// with the other gradient route reaches a comparable goal.
#include "pbt.h"
#include "mbgen.h"
#include "consgen.h"
#include "refdyn.h"
#include <cstdio>
#include <chrono>
#include <dlfcn.h>
using namespace SimTK;

namespace {
// OpenBLAS spins (sched_yield) in its worker threads even for the 10x10 systems IPOPT solves; on a shared machine that
// makes one IPOPT iteration take 10-100 ms. One BLAS thread (as C39/C44 do); results do not depend on it.
struct BlasOneThread { BlasOneThread() { typedef void (*F)(int); F f = (F)dlsym(RTLD_DEFAULT, "openblas_set_num_threads"); if (f) f(1); } } blasOneThread;
std::string S(double a) { return pbt::str(a); }
const int XW = 60;                       // extra words per unit (after the consgen words)
const int KK = consgen::K + XW;
const double Pi_ = 3.141592653589793;

// ---------------------------------------------------------------- per-body extras
struct Extra {
    int nMarkers = 0; Vec3 station[3]; double mw[3] = {1, 1, 1}; bool obsMissing[3] = {false, false, false}; Vec3 noiseDir[3];
    bool sensor = false; Rotation sR; double sw = 1; Vec3 sNoise = Vec3(0);
    int lock = 0;          // 0 none, 1 lockMobilizer, 2 lockQ, 3 MobilizedBody::lock (Motion lock)
    int lockQ = 0; bool lockAtRef = true;
    int restrict = 0;      // 0 none, 1 box contains the reference, 2 box excludes the reference
    int rQ = 0; double rA = 0.5, rB = 0.5;
    int qvalue = 0;        // 0 none, 1 goal, 2 error
    int qvQ = 0; double qvOff = 0, qvW = 1;
    double pert[7] = {0, 0, 0, 0, 0, 0, 0};
    bool motion = false; double mA = 0.5, mPhase = 0, mRate = 1; bool motionStartAtValue = true;
    // energy minimisation
    double k2 = 10, x0 = 0; Vec3 sp1 = Vec3(0), sp2 = Vec3(0); bool mobSpring = false; double km = 5, q0off = 0; int msQ = 0;
};
Extra decodeExtra(const pbt::Seg& seg) {
    pbt::Reader r(seg); r.skip(consgen::K); Extra e;
    { uint32_t w = r.w(); e.nMarkers = w == 0 ? 3 : int(w % 4u); }
    for (int k = 0; k < 3; ++k) {
        // stations spread away from the origin and from each other: component k dominant
        Vec3 p = mbgen::readVec3(r, -0.6, 0.6); p[k] += (p[k] < 0 ? -0.5 : 0.5); e.station[k] = p;
    }
    for (int k = 0; k < 3; ++k) { uint32_t w = r.w(); e.mw[k] = (w & 3u) == 0 ? 1.0 : (w & 3u) == 1 && ((w >> 2) & 3u) == 0 ? 0.0 : std::exp(std::log(0.2) + (std::log(5.0) - std::log(0.2)) * ((w >> 4) / 268435456.0)); e.obsMissing[k] = w != 0 && (w >> 2) % 11u == 5u; }
    { double a[3]; for (int k = 0; k < 3; ++k) { r.unit3(a); e.noiseDir[k] = Vec3(a[0], a[1], a[2]); } }
    { uint32_t w = r.w(); e.sensor = (w % 2u) == 1; e.sw = ((w >> 2) & 1u) ? 1.0 : 0.3 + 3.0 * ((w >> 8) / 16777216.0); }
    e.sR = mbgen::readRotation(r); e.sNoise = mbgen::readVec3(r, -1, 1);
    { uint32_t w = r.w(); int c = int(w % 8u); e.lock = c == 1 ? 1 : c == 2 ? 2 : c == 3 ? 3 : 0; e.lockQ = int((w >> 3) % 7u); e.lockAtRef = ((w >> 6) & 3u) != 3u; }
    { uint32_t w = r.w(); int c = int(w % 6u); e.restrict = c == 1 || c == 2 ? 1 : c == 3 ? 2 : 0; e.rQ = int((w >> 3) % 7u); e.rA = 0.1 + 0.9 * r.unit(); e.rB = 0.1 + 0.9 * r.unit(); }
    { uint32_t w = r.w(); int c = int(w % 6u); e.qvalue = c == 1 ? 1 : c == 2 ? 2 : 0; e.qvQ = int((w >> 3) % 7u); e.qvOff = r.real(-0.5, 0.5); e.qvW = 0.2 + 3 * r.unit(); }
    for (int k = 0; k < 7; ++k) e.pert[k] = 2 * r.unit() - 1;
    { uint32_t w = r.w(); e.motion = (w % 5u) == 1; e.motionStartAtValue = ((w >> 3) & 1u) == 0; e.mA = 0.1 + 0.8 * r.unit(); e.mPhase = r.real(-3, 3); e.mRate = r.real(0.2, 3); }
    e.k2 = r.logreal(1, 50); { uint32_t w = r.w(); e.x0 = (w & 1u) ? 0.0 : 0.2 + 0.8 * ((w >> 1) / 2147483648.0); }
    e.sp1 = mbgen::readVec3(r, -1, 1); e.sp2 = mbgen::readVec3(r, -0.5, 0.5);
    { uint32_t w = r.w(); e.mobSpring = (w & 1u) != 0; e.msQ = int((w >> 1) % 7u); e.km = 0.5 + 20 * ((w >> 4) / 268435456.0); e.q0off = r.real(-0.5, 0.5); }
    return e;
}

bool motionAllowed(int type) { using namespace mbgen; return type == Pin || type == Slider || type == Screw || type == Cylinder || type == BendStretch || type == Planar || type == Translation; }

// model + extras decoded from a tape
struct Case {
    consgen::Model cm; std::vector<Extra> ex;   // ex[i] belongs to body i+1
};

Case decodeCase(const pbt::Tape& t, pbt::Reader& g, bool allowCons, bool allowMotion) {
    Case c;
    mbgen::Options mo; mo.maxBodies = 4; mo.allowUnnormalizedQuat = false; mo.uRange = 1.0;
    // LineOrientation / FreeLine have a coordinate freedom (spin about Mz) without a mobility; all three solvers form their
    // gradients through u-space (J^T f, then N^-T), so that freedom is invisible to them: outside the domain (see notes)
    mo.without({mbgen::LineOrientation, mbgen::FreeLine});
    consgen::Options co; co.maxCons = 3; co.allowNonlinearCouplers = false; co.allowTimeDependence = false;
    co.only({consgen::Rod, consgen::Ball, consgen::Weld, consgen::PointInPlane, consgen::PointOnLine, consgen::ConstantAngle, consgen::ConstantOrientation, consgen::ConstantCoordinate, consgen::CoordinateCoupler});
    const int n = (int)t.size() - 1;
    c.cm = consgen::decode(t, 1, n, g, mo, co);
    // extras: same unit -> body mapping as consgen::decode
    { bool any = false; for (int i = 0; i < n; ++i) if (consgen::isConstraintUnit(t[1 + i])) any = true;
      for (int i = 0; i < n && (int)c.ex.size() < c.cm.spec.nBodies(); ++i) { const pbt::Seg& s = t[1 + i]; bool isC = consgen::isConstraintUnit(s) || (!any && n >= 2 && i == n - 1); if (!isC) c.ex.push_back(decodeExtra(s)); }
      while ((int)c.ex.size() < c.cm.spec.nBodies()) c.ex.push_back(decodeExtra(pbt::Seg(KK, 0u))); }
    if (!allowCons) c.cm.cons.clear();
    // coordinate constraints are expressed in the model's own coordinates; on a mobilizer with qdot != u they have no
    // meaning in the Assembler's Euler-angle copy: dropped (constructively, not rejected)
    { std::vector<consgen::ConsSpec> keep; for (auto& k : c.cm.cons) if (!k.qOnNonIdentityN) keep.push_back(k); c.cm.cons.swap(keep); }
    // a rod whose end points (nearly) coincide at the reference cannot be fitted: move the stations first (as C21)
    for (auto& k : c.cm.cons) if (k.type == consgen::Rod) { k.p2 += Vec3(0.45, 0.2, -0.3); k.p1 += Vec3(-0.3, 0.25, 0.4); }
    // prescribed motion: the reference takes the prescribed value at t = 0
    for (int i = 0; i < c.cm.spec.nBodies(); ++i) {
        Extra& e = c.ex[i]; mbgen::BodySpec& b = c.cm.spec.bodies[i];
        if (!allowMotion || !motionAllowed(b.type)) e.motion = false;
        if (e.motion) { int nq = mbgen::mobNQ(b.type, c.cm.spec.euler); for (int k = 0; k < nq; ++k) b.q[k] = e.mA * std::sin(e.mPhase); e.lock = 0; }
    }
    consgen::fitToState(c.cm, 0.0);
    return c;
}

// full row rank of the position-constraint Jacobian on the columns of the mobilities that may move
bool fullRowRank(const consgen::BuiltCons& m, const State& s, const std::vector<bool>& bodyFixed) {
    Matrix G; m.matter.calcG(s, G); if (G.nrow() == 0) return true;
    std::vector<int> cols;
    for (size_t b = 1; b < m.mb.size(); ++b) { if (bodyFixed[b]) continue; int u0 = m.mb[b].getFirstUIndex(s), nu = m.mb[b].getNumU(s); for (int k = 0; k < nu; ++k) cols.push_back(u0 + k); }
    if (cols.empty()) return false;
    Matrix Gf(G.nrow(), (int)cols.size()); for (int i = 0; i < G.nrow(); ++i) for (size_t j = 0; j < cols.size(); ++j) Gf(i, (int)j) = G(i, cols[j]);
    Matrix GGt = Gf * ~Gf; std::vector<Real> ev; refdyn::symEig(GGt, ev);
    return ev.front() > 1e-8 * std::max(ev.back(), 1.0);
}

double rotAngle(const Rotation& A, const Rotation& B) { Mat33 M = ~A.asMat33() * B.asMat33(); double c = (M(0, 0) + M(1, 1) + M(2, 2) - 1) / 2; double s2 = 0; Mat33 K = M - ~M; s2 = 0.5 * std::sqrt(K(0, 1) * K(0, 1) + K(0, 2) * K(0, 2) + K(1, 2) * K(1, 2)); return std::atan2(s2, c); }
double poseDist(const Transform& A, const Transform& B) { return std::max(rotAngle(A.R(), B.R()), (A.p() - B.p()).norm()); }

// start state = reference perturbed; perturbation halved until every coordinate is inside its documented domain
void perturb(const Case& c, const consgen::BuiltCons& m, const State& sref, double delta, const std::vector<bool>& keepRef, State& s0) {
    for (int tries = 0; tries < 8; ++tries) {
        s0 = sref;
        for (int i = 0; i < c.cm.spec.nBodies(); ++i) {
            if (keepRef[i + 1]) continue;
            const MobilizedBody& mb = m.mb[i + 1]; int nq = mb.getNumQ(s0); if (nq == 0) continue;
            const bool quat = mbgen::mobHasQuaternion(c.cm.spec.bodies[i].type) && !c.cm.spec.euler;
            Vector q = mb.getQAsVector(s0);
            for (int k = 0; k < nq && k < 7; ++k) q[k] += delta * c.ex[i].pert[k] * (quat && k < 4 ? 0.5 : 1.0);
            if (quat) { double n = 0; for (int k = 0; k < 4; ++k) n += q[k] * q[k]; n = std::sqrt(n); for (int k = 0; k < 4; ++k) q[k] /= n; }
            mb.setQFromVector(s0, q);
        }
        if (consgen::inDomain(c.cm.spec, m, s0)) return;
        delta *= 0.5;
    }
    s0 = sref;
}

// Euler middle angle of ball-like mobilizers close to +-pi/2 in the Euler-angle copy the solvers work on
bool eulerNearSingular(const Case& c, const consgen::BuiltCons& m, const State& s) {
    State e; m.matter.convertToEulerAngles(s, e); m.sys.realizeModel(e);
    for (int i = 0; i < c.cm.spec.nBodies(); ++i) if (mbgen::mobHasQuaternion(c.cm.spec.bodies[i].type)) { double q1 = m.mb[i + 1].getOneQ(e, 1); if (std::fabs(std::cos(q1)) < 0.3) return true; }
    return false;
}

struct MarkerRef { int body; Vec3 station; double w; bool missing; Vec3 obs; };
struct SensorRef { int body; Rotation R_BS; double w; Rotation obs; };
struct QValRef { int body; int q; double value; double w; bool isError; };

double errNorm(const std::vector<double>& e, bool rms) { if (e.empty()) return 0; double s = 0, mx = 0; for (double x : e) { s += x * x; mx = std::max(mx, std::fabs(x)); } return rms ? std::sqrt(s / e.size()) : mx; }

// directed reproducers replay a stored tape with ONE known finding's exclusion switched off
std::string& ignoredKnown() { static std::string s; return s; }
bool knownSite(pbt::Ctx& ctx, const char* id) { if (ignoredKnown() == id) return false; return ctx.known(id); }
bool dbg() { static bool d = getenv("C43_DEBUG") != nullptr; return d; }

// =================================================================== Assembler
void runAssembler(const pbt::Tape& t, pbt::Reader& g, pbt::Ctx& ctx) {
    const bool allowCons = !g.chance(1, 3);
    Case c = decodeCase(t, g, allowCons, true);
    const int nb = c.cm.spec.nBodies();
    const double acc = std::pow(10.0, -3.0 - 4.0 * g.unit());                 // 1e-3 .. 1e-7
    const bool setAcc = !g.chance(1, 6);                                      // else default accuracy 1e-3
    const bool setTol = g.chance(1, 3); const double tolFactor = g.logreal(0.01, 10);
    const bool rms = g.chance(1, 4);
    const int obsClass = g.pick(3) == 2 ? 1 : 0;                               // 0 exact, 1 noisy
    const double noise = 0.02 + 0.2 * g.unit();
    const int startClass = g.pick(4);                                          // 0,1 near; 2 at the reference; 3 far
    const double delta = startClass == 2 ? 0.0 : startClass == 3 ? 0.1 + 0.4 * g.unit() : 0.02 + 0.01 * g.unit();
    const int nFrames = g.pick(3);
    const bool numGrad = g.chance(1, 8), numJac = g.chance(1, 8);
    const double wM = g.chance(1, 4) ? 0.3 + 3 * g.unit() : 1.0, wO = g.chance(1, 4) ? 0.3 + 3 * g.unit() : 1.0;
    const bool permuteObs = g.chance(1, 4), viaStateOverload = g.chance(1, 3);
    const bool twin = !g.chance(1, 3);     // differential twin with the other gradient route (2/3 of the cases; word 0 -> twin)
    const double accUse = setAcc ? acc : 1e-3, tolUse = setTol ? accUse * tolFactor : accUse / 10;

    if (ctx.wantDesc) { c.cm.describe(ctx.desc); ctx.desc << "solver=Assembler accuracy=" << (setAcc ? acc : 0.0) << " (in use " << accUse << ") tolerance=" << (setTol ? tolUse : 0.0) << " (in use " << tolUse << ") rms=" << rms
        << " obs=" << (obsClass ? "noisy" : "exact") << " noise=" << noise << " start=" << startClass << " delta=" << delta << " frames=" << nFrames << " numGrad=" << numGrad << " numJac=" << numJac << " wMarkers=" << wM << " wSensors=" << wO << " permuteObs=" << permuteObs << " assemble(State&)=" << viaStateOverload << "\n"; }
    if (ctx.wantDesc) for (int i = 0; i < nb; ++i) { const Extra& e = c.ex[i]; ctx.desc << " extras body " << i + 1 << ": markers=" << e.nMarkers; for (int k = 0; k < e.nMarkers; ++k) ctx.desc << " [" << e.station[k] << " w=" << e.mw[k] << (e.obsMissing[k] ? " missing" : "") << "]";
        ctx.desc << " sensor=" << e.sensor << " lock=" << e.lock << "(q" << e.lockQ << ",atRef=" << e.lockAtRef << ") restrict=" << e.restrict << "(q" << e.rQ << ",a=" << e.rA << ",b=" << e.rB << ") qvalue=" << e.qvalue << "(q" << e.qvQ << ") motion=" << e.motion << "(A=" << e.mA << ",rate=" << e.mRate << ",phase=" << e.mPhase << ",startAtValue=" << e.motionStartAtValue << ")\n"; }
    consgen::labelModel(ctx, c.cm); ctx.label("solver:Assembler");

    consgen::BuiltCons m(c.cm);
    for (int i = 0; i < nb; ++i) if (c.ex[i].motion) Motion::Sinusoid(m.mb[i + 1], Motion::Position, c.ex[i].mA, c.ex[i].mRate, c.ex[i].mPhase);
    m.finish(c.cm.spec); m.setState(c.cm.spec);
    State sref = m.state; sref.setTime(0);
    if (sref.getNQ() == 0) { ctx.reject("nq=0"); return; }
    m.sys.realize(sref, Stage::Velocity);
    const int mp = sref.getNQErr() - m.matter.getNumQuaternionsInUse(sref);
    { double e = 0; for (int i = 0; i < mp; ++i) e = std::max(e, std::fabs(sref.getQErr()[i])); if (!(e <= 1e-10)) { ctx.reject("reference-not-assembled"); return; } }
    { std::string why; for (auto& k : c.cm.cons) if (consgen::degenerateAt(k, m, sref, why)) { ctx.reject("degenerate-geometry"); return; } }

    // which mobilizers cannot move (for the rank precondition)
    std::vector<bool> fixed(nb + 1, false), keepRef(nb + 1, false);
    for (int i = 0; i < nb; ++i) { const Extra& e = c.ex[i]; if (e.motion || e.lock == 1 || e.lock == 3) fixed[i + 1] = true; if (e.lock && e.lockAtRef) keepRef[i + 1] = true; }
    if (!fullRowRank(m, sref, fixed)) { ctx.reject("rank-deficient-constraints"); return; }

    // ---- conditions generated from the reference
    std::vector<MarkerRef> markers; std::vector<SensorRef> sensors; std::vector<QValRef> qvals;
    for (int i = 0; i < nb; ++i) {
        const Extra& e = c.ex[i]; const MobilizedBody& mb = m.mb[i + 1];
        for (int k = 0; k < e.nMarkers; ++k) { MarkerRef r; r.body = i + 1; r.station = e.station[k]; r.w = e.mw[k]; r.missing = e.obsMissing[k]; r.obs = mb.findStationLocationInGround(sref, r.station); if (obsClass) r.obs += noise * e.noiseDir[k]; markers.push_back(r); }
        if (e.sensor) { SensorRef r; r.body = i + 1; r.R_BS = e.sR; r.w = e.sw; r.obs = mb.getBodyRotation(sref) * e.sR; if (obsClass) { Vec3 ax = e.sNoise; if (ax.norm() < 1e-3) ax = Vec3(0, 0, 1); r.obs = r.obs * Rotation(noise, UnitVec3(ax)); } sensors.push_back(r); }
        const mbgen::BodySpec& b = c.cm.spec.bodies[i];
        if (e.qvalue && mbgen::mobQDotIsU(b.type) && mb.getNumQ(sref) > 0 && !e.motion) { QValRef r; r.body = i + 1; r.q = e.qvQ % mb.getNumQ(sref); r.isError = e.qvalue == 2; r.value = mb.getOneQ(sref, r.q) + (obsClass && !r.isError ? e.qvOff : 0.0); r.w = e.qvW; qvals.push_back(r); }
    }
    double wtotM = 0; for (auto& r : markers) if (!r.missing) wtotM += r.w;
    if (!markers.empty() && !(wtotM > 0)) { for (auto& r : markers) { r.missing = false; if (r.w == 0) r.w = 1; } }
    // start
    State s0; perturb(c, m, sref, delta, keepRef, s0);
    for (int i = 0; i < nb; ++i) if (c.ex[i].motion && c.ex[i].motionStartAtValue) m.mb[i + 1].setQFromVector(s0, m.mb[i + 1].getQAsVector(sref));
    // Motion locks live in the state (Instance stage)
    bool anyLock = false, anyBound = false, anyMotion = false, motionStartOff = false;
    for (int i = 0; i < nb; ++i) if (c.ex[i].lock == 3) { if (m.mb[i + 1].getNumQ(s0) == 0 || mbgen::mobHasQuaternion(c.cm.spec.bodies[i].type)) c.ex[i].lock = 1; else { m.mb[i + 1].lock(s0, Motion::Position); } }
    m.sys.realizeModel(s0);
    for (int i = 0; i < nb; ++i) { if (c.ex[i].motion) { anyMotion = true; if (!c.ex[i].motionStartAtValue) motionStartOff = true; } }
    m.sys.realize(s0, Stage::Position);
    double startDist = 0; for (int i = 1; i <= nb; ++i) startDist = std::max(startDist, poseDist(m.mb[i].getMobilizerTransform(s0), m.mb[i].getMobilizerTransform(sref)));

    // my own evaluation of errors and goal from a user's state
    auto myErrors = [&](const State& s) { std::vector<double> e; for (int i = 0; i < mp; ++i) e.push_back(s.getQErr()[i]); for (auto& r : qvals) if (r.isError) e.push_back(m.mb[r.body].getOneQ(s, r.q) - r.value); return e; };
    auto myGoal = [&](const State& s, double& worstMarker, double& worstSensor) {
        double gM = 0, wt = 0; worstMarker = worstSensor = 0; bool haveM = false, haveS = false;
        for (auto& r : markers) if (!r.missing && r.w > 0) { double d2 = (m.mb[r.body].findStationLocationInGround(s, r.station) - r.obs).normSqr(); gM += r.w * d2; wt += r.w; worstMarker = std::max(worstMarker, std::sqrt(d2)); haveM = true; }
        double gS = 0, ws = 0;
        for (auto& r : sensors) { double a = rotAngle(m.mb[r.body].getBodyRotation(s) * r.R_BS, r.obs); gS += r.w * a * a; ws += r.w; worstSensor = std::max(worstSensor, a); haveS = true; }
        double goal = 0; if (haveM) goal += wM * gM / (2 * wt); if (haveS) goal += wO * gS / (2 * ws);
        for (auto& r : qvals) if (!r.isError) { double d = m.mb[r.body].getOneQ(s, r.q) - r.value; goal += r.w * d * d / 2; }
        return goal; };

    // per-condition goals (documented formulas) on any state of this system -- used for the gradient clause G1
    auto goalMarkers = [&](const State& s) { double gM = 0, wt = 0; for (auto& r : markers) if (!r.missing && r.w > 0) { gM += r.w * (m.mb[r.body].findStationLocationInGround(s, r.station) - r.obs).normSqr(); wt += r.w; } return wt > 0 ? gM / (2 * wt) : 0.0; };
    auto goalSensors = [&](const State& s, double& worst) { double gS = 0, ws = 0; worst = 0; for (auto& r : sensors) { double a = rotAngle(m.mb[r.body].getBodyRotation(s) * r.R_BS, r.obs); gS += r.w * a * a; ws += r.w; worst = std::max(worst, a); } return ws > 0 ? gS / (2 * ws) : 0.0; };
    // ---- the Assembler (configure() is used a second time for the differential twin)
    bool haveActiveMarker = false; for (auto& r : markers) if (!r.missing && r.w > 0) haveActiveMarker = true;
    if (!haveActiveMarker) markers.clear();
    const int nM = (int)markers.size();
    std::vector<int> obsOfMarker(nM); for (int i = 0; i < nM; ++i) obsOfMarker[i] = permuteObs ? nM - 1 - i : i;
    struct LockedQ { int body; int q; }; std::vector<LockedQ> lockedQs; struct Box { int body; int q; double lo, hi; }; std::vector<Box> boxes;
    State eref; m.matter.convertToEulerAngles(sref, eref); m.sys.realizeModel(eref);
    auto configure = [&](Assembler& A, Markers*& mkO, OrientationSensors*& osO, bool useNumGrad, bool record) {
        if (setAcc) A.setAccuracy(acc); if (setTol) A.setErrorTolerance(tolUse); A.setUseRMSErrorNorm(rms);
        A.setForceNumericalGradient(useNumGrad); A.setForceNumericalJacobian(numJac);
        mkO = nullptr; osO = nullptr;
        if (!markers.empty()) { mkO = new Markers(); for (auto& r : markers) mkO->addMarker(m.mb[r.body].getMobilizedBodyIndex(), r.station, r.w); A.adoptAssemblyGoal(mkO, wM); }
        if (!sensors.empty()) { osO = new OrientationSensors(); for (auto& r : sensors) osO->addOSensor(m.mb[r.body].getMobilizedBodyIndex(), r.R_BS, r.w); A.adoptAssemblyGoal(osO, wO); }
        for (auto& r : qvals) { QValue* qv = new QValue(m.mb[r.body].getMobilizedBodyIndex(), MobilizerQIndex(r.q), r.value); if (r.isError) A.adoptAssemblyError(qv); else A.adoptAssemblyGoal(qv, r.w); }
        if (mkO && permuteObs) { Array_<Markers::MarkerIx> order; for (int i = nM - 1; i >= 0; --i) order.push_back(Markers::MarkerIx(i)); order.push_back(Markers::MarkerIx()); mkO->defineObservationOrder(order); }
        for (int i = 0; i < nb; ++i) {
            const Extra& e = c.ex[i]; const MobilizedBody& mb = m.mb[i + 1]; const int nqE = mb.getNumQ(eref);
            if (e.lock == 1) { A.lockMobilizer(mb.getMobilizedBodyIndex()); if (record) { anyLock = true; for (int k = 0; k < nqE; ++k) lockedQs.push_back({i + 1, k}); } }
            else if (e.lock == 2 && nqE > 0) { int k = e.lockQ % nqE; A.lockQ(mb.getMobilizedBodyIndex(), MobilizerQIndex(k)); if (record) { anyLock = true; lockedQs.push_back({i + 1, k}); } }
            else if (e.lock == 3) { if (record) { anyLock = true; for (int k = 0; k < nqE; ++k) lockedQs.push_back({i + 1, k}); } }
            if (e.restrict && nqE > 0 && !e.motion) { int k = e.rQ % nqE; double qr = mb.getOneQ(eref, k); Box bx; bx.body = i + 1; bx.q = k;
                if (e.restrict == 1) { bx.lo = qr - e.rA; bx.hi = qr + e.rB; } else { bx.lo = qr + 0.1 + 0.3 * e.rA; bx.hi = bx.lo + e.rB; }
                if (e.rA > 0.9) bx.lo = -Infinity; else if (e.rB > 0.9 && e.restrict == 1) bx.hi = Infinity;
                A.restrictQ(mb.getMobilizedBodyIndex(), MobilizerQIndex(k), bx.lo, bx.hi); if (record) { boxes.push_back(bx); anyBound = true; } }
        } };
    Assembler ik(m.sys); Markers* mk = nullptr; OrientationSensors* os = nullptr;
    configure(ik, mk, os, numGrad, true);
    auto setObsOn = [&](Markers* mkP, OrientationSensors* osP, const std::vector<MarkerRef>& ms, const std::vector<SensorRef>& ss) {
        if (mkP) for (int i = 0; i < nM; ++i) mkP->moveOneObservation(Markers::ObservationIx(obsOfMarker[i]), ms[i].missing ? Vec3(NaN) : ms[i].obs);
        if (osP) for (size_t i = 0; i < ss.size(); ++i) osP->moveOneObservation(OrientationSensors::ObservationIx((int)i), ss[i].obs); };
    auto setObservations = [&](const std::vector<MarkerRef>& ms, const std::vector<SensorRef>& ss) { setObsOn(mk, os, ms, ss); };

    // known finding: SimbodyMatterSubsystem::convertToEulerAngles (used by Assembler::setInternalState whenever the user's state
    // is in quaternion mode) re-realizes the Model stage, which resets the recorded lock POSITIONS to the default q while the
    // lock itself stays on: a mobilizer locked with MobilizedBody::lock()/lockAt() is moved to its default q by assemble().
    // Site predicate (on the input): a MobilizedBody::lock is present and the model is not in Euler-angle mode.
    bool convLosesLock = false;
    { bool site = false; for (int i = 0; i < nb; ++i) if (c.ex[i].lock == 3) site = true; if (site && !c.cm.spec.euler && knownSite(ctx, "euler-conversion-resets-lock-position")) { convLosesLock = true; ctx.label("excluded:euler-conversion-resets-lock-position"); } }
    // (with this site active nothing is judged: the mobilizer jumps to its DEFAULT q, which changes every other outcome and, for a
    // CantileverFreeBeam, is uninitialised memory -- finding C10 cantileverfreebeam-default-q-uninitialized)
    if (convLosesLock) { ctx.label("solver:Assembler:not-judged"); return; }
    const bool prescribedMoves = motionStartOff || convLosesLock;
    // checks shared by assemble and track; sBefore = user's state before the call, sAfter = after updateFromInternalState
    auto judge = [&](const char* what, const State& sBefore, const State& sAfter, const Vector& qiBefore, double tNow, double gret, double g0lib, bool startFeasible, bool monotoneApplies, double slack) -> bool {
        m.sys.realize(sAfter, Stage::Position); m.sys.realize(sBefore, Stage::Position);
        const State& si = ik.getInternalState();
        // "returned the start": every FREE q is bitwise its start value (short circuit, or assemble()'s revert)
        bool returnedStart = true; for (int k = 0; k < ik.getNumFreeQs(); ++k) { int qx = ik.getQIndexOfFreeQ(Assembler::FreeQIndex(k)); if (si.getQ()[qx] != qiBefore[qx]) returnedStart = false; }
        // known finding: assemble() evaluates the initial error norm and goal BEFORE it moves the prescribed q's to their values. If they
        // look good enough it returns at once (prescribed q's never set); if it later reverts to the start (the optimizer made the goal
        // worse) it reports the stale initial goal/error for a configuration it no longer has (constraints can be violated).
        // Site predicate: a prescribed/locked q was off its value at the start and the free q's are bitwise the start values.
        bool staleStart = false;
        if (std::string(what) == "assemble" && prescribedMoves && returnedStart && knownSite(ctx, "assemble-start-evaluated-before-prescribe")) { staleStart = true; ctx.label("excluded:assemble-start-evaluated-before-prescribe"); }
        // A1 errors
        std::vector<double> e = myErrors(sAfter); double en = errNorm(e, rms), tol = ik.getErrorToleranceInUse();
        if (!ctx.check(std::fabs(tol - tolUse) <= 1e-15 * tolUse, std::string(what) + ": getErrorToleranceInUse()=" + S(tol) + " but the documented rule gives " + S(tolUse))) return false;
        if (!staleStart && !ctx.check(en <= tol * (1 + 1e-9) + 1e-13, std::string(what) + " returned normally but the " + (rms ? "RMS" : "max") + " norm of the position-constraint/error-condition errors recomputed from the returned state is " + S(en) + " > tolerance in use " + S(tol))) return false;
        double enLib = ik.calcCurrentErrorNorm();
        if (!ctx.check(std::fabs(enLib - en) <= 1e-9 * (1 + en) , std::string(what) + ": calcCurrentErrorNorm()=" + S(enLib) + " differs from the norm recomputed from the returned state " + S(en))) return false;
        // A2 locks
        for (auto& l : lockedQs) { if (c.ex[l.body - 1].lock == 3 && convLosesLock) continue; int qx = m.mb[l.body].getFirstQIndex(si) + l.q; if (!ctx.check(si.getQ()[qx] == qiBefore[qx], std::string(what) + ": locked coordinate q" + std::to_string(l.q) + " of body " + std::to_string(l.body) + " changed in the internal state from " + S(qiBefore[qx]) + " to " + S(si.getQ()[qx]))) return false; }
        for (int i = 0; i < nb; ++i) if (c.ex[i].lock == 1 || (c.ex[i].lock == 3 && !convLosesLock)) { double d = poseDist(m.mb[i + 1].getMobilizerTransform(sBefore), m.mb[i + 1].getMobilizerTransform(sAfter));
            if (!ctx.check(d <= 1e-10, std::string(what) + ": locked mobilizer of body " + std::to_string(i + 1) + " moved by " + S(d))) return false; }
        for (int i = 0; i < nb; ++i) if (c.ex[i].lock == 2 && (c.cm.spec.euler || !mbgen::mobHasQuaternion(c.cm.spec.bodies[i].type)) && m.mb[i + 1].getNumQ(sAfter) > 0) { int k = c.ex[i].lockQ % m.mb[i + 1].getNumQ(sAfter);
            if (!ctx.check(m.mb[i + 1].getOneQ(sAfter, k) == m.mb[i + 1].getOneQ(sBefore, k), std::string(what) + ": individually locked q" + std::to_string(k) + " of body " + std::to_string(i + 1) + " changed from " + S(m.mb[i + 1].getOneQ(sBefore, k)) + " to " + S(m.mb[i + 1].getOneQ(sAfter, k)))) return false; }
        // A3 prescribed
        for (int i = 0; i < nb; ++i) if (c.ex[i].motion && !staleStart) { double v = c.ex[i].mA * std::sin(c.ex[i].mRate * tNow + c.ex[i].mPhase); for (int k = 0; k < m.mb[i + 1].getNumQ(sAfter); ++k)
            if (!ctx.check(std::fabs(m.mb[i + 1].getOneQ(sAfter, k) - v) <= 1e-14, std::string(what) + ": prescribed q" + std::to_string(k) + " of body " + std::to_string(i + 1) + " is " + S(m.mb[i + 1].getOneQ(sAfter, k)) + " but the prescribed value at t=" + S(tNow) + " is " + S(v))) return false; }
        // A4 bounds (IPOPT relaxes bounds by 1e-8 relative: documented optimizer convention)
        for (auto& bx : boxes) { bool isLocked = false; for (auto& l : lockedQs) if (l.body == bx.body && l.q == bx.q) isLocked = true; if (isLocked) continue;
            // known finding: assemble() short-circuits / reverts to the START configuration without looking at the bounds.
            // Site predicate: this q started outside its range and the whole internal q vector is bitwise the start vector.
            { double qs = qiBefore[m.mb[bx.body].getFirstQIndex(si) + bx.q];
              if (returnedStart && (qs < bx.lo || qs > bx.hi) && knownSite(ctx, "assemble-returns-start-outside-bounds")) { ctx.label("excluded:assemble-returns-start-outside-bounds"); continue; } }
            double q = m.mb[bx.body].getOneQ(si, bx.q), sl = 1e-7 * std::max(1.0, std::max(std::isfinite(bx.lo) ? std::fabs(bx.lo) : 0.0, std::isfinite(bx.hi) ? std::fabs(bx.hi) : 0.0));
            if (!ctx.check(q >= bx.lo - sl && q <= bx.hi + sl, std::string(what) + ": restricted q" + std::to_string(bx.q) + " of body " + std::to_string(bx.body) + " = " + S(q) + " is outside its range [" + S(bx.lo) + "," + S(bx.hi) + "]")) return false;
            if (!mbgen::mobHasQuaternion(c.cm.spec.bodies[bx.body - 1].type)) { double qu = m.mb[bx.body].getOneQ(sAfter, bx.q); if (!ctx.check(qu >= bx.lo - sl && qu <= bx.hi + sl, std::string(what) + ": restricted q (user's state) outside its range: " + S(qu))) return false; } }
        // A5 only q (and time, for track) changed
        if (!ctx.check(sAfter.getNU() == sBefore.getNU() && (sAfter.getNU() == 0 || (sAfter.getU() - sBefore.getU()).normInf() == 0), std::string(what) + ": updateFromInternalState changed u")) return false;
        if (!ctx.check(sAfter.getNQ() == sBefore.getNQ(), std::string(what) + ": number of q changed")) return false;
        // A6 goal
        double wm, wsn; double gMine = myGoal(sAfter, wm, wsn); double gLib = ik.calcCurrentGoal();
        if (!ctx.check(std::isfinite(gret) && gret >= 0, std::string(what) + " returned goal " + S(gret))) return false;
        if (!staleStart && !ctx.check(std::fabs(gret - gLib) <= 1e-12 * (1 + gLib), std::string(what) + " returned " + S(gret) + " but calcCurrentGoal() afterwards is " + S(gLib))) return false;
        if (!ctx.check(std::fabs(gMine - gLib) <= 1e-9 * (gLib + gMine) + 1e-16, std::string(what) + ": calcCurrentGoal()=" + S(gLib) + " but the documented weighted goal recomputed from body poses is " + S(gMine))) return false;
        // A7 monotone
        if (monotoneApplies && startFeasible) { if (!ctx.check(gret <= g0lib * (1 + 1e-12) + slack, std::string(what) + " from a feasible start made the goal worse: " + S(g0lib) + " -> " + S(gret))) return false; ctx.label(std::string("clause:monotone:") + what); }
        return true; };

    State s1; bool lockedBeforeFree = false;
    Vector qi0; double g0lib = 0, e0lib = 0, gret = 0; bool ok = false;
    // T1: calibrated on 3 900 judgeable twins: (big-small)/big <= 1e-6 for LBFGS/LBFGSB (2 000 with a reduction); IPOPT <= 0.0134 in 210 but 1.0 once in 1 671
    auto twinJudge = [&](double redA, double redB, double g2, bool ipoptW) {
        const double big = std::max(redA, redB), small = std::min(redA, redB);
        if (!(big > 1e-6 * g0lib + 1e-14)) { ctx.label("twin:nothing-to-reduce"); return; }
        // judged for the descent optimizers only: IPOPT's path is sensitive to 1e-8 gradient differences (thorough seed 1: analytic route
        // ended worse and was reverted to the start, numerical route reached 2e-8, the two gradients agreeing to 1e-11 by G1) -- labelled
        if (ipoptW) { ctx.label(small >= 0.5 * big - (1e-3 * g0lib + 1e-14) ? "twin:InteriorPoint:comparable" : "twin:InteriorPoint:different"); return; }
        ctx.label("clause:twin:descent");
        ctx.check(small >= 0.5 * big - (1e-3 * g0lib + 1e-14), std::string("same problem, same feasible start: assemble() with ") + (numGrad ? "the forced numerical gradient" : "the analytic goal gradient") + " took the goal from " + S(g0lib) + " to " + S(gret)
            + " but with " + (numGrad ? "the analytic goal gradient" : "the forced numerical gradient") + " to " + S(g2) + " (less than half the reduction on one route: the analytic gradient and the goal disagree, or one search stalled)"); };
    std::string phase = "initialize";
    try {
        ik.initialize(s0);
        setObservations(markers, sensors);
        g0lib = ik.calcCurrentGoal(); e0lib = ik.calcCurrentErrorNorm(); qi0 = ik.getInternalState().getQ();
        // start goal/error cross-check (also validates my formulas before they are used as the oracle)
        { double a, b; m.sys.realize(s0, Stage::Position); double gm = myGoal(s0, a, b); ctx.check(std::fabs(gm - g0lib) <= 1e-9 * (gm + g0lib) + 1e-16, "start: calcCurrentGoal()=" + S(g0lib) + " but the documented weighted goal recomputed from body poses is " + S(gm));
          double em = errNorm(myErrors(s0), rms); ctx.check(std::fabs(em - e0lib) <= 1e-9 * (1 + em), "start: calcCurrentErrorNorm()=" + S(e0lib) + " but recomputed " + S(em)); if (ctx.failed) return; }
        // which q's are free: a locked/prescribed q in front of a free one makes the free-q <-> q index maps non-trivial
        { const State& si = ik.getInternalState(); int lastFree = -1, firstLocked = -1; for (int k = 0; k < si.getNQ(); ++k) { if (ik.getFreeQIndexOfQ(QIndex(k)).isValid()) lastFree = k; else if (firstLocked < 0) firstLocked = k; }
          lockedBeforeFree = firstLocked >= 0 && firstLocked < lastFree; }
        // G1 the analytic goal gradients the optimizer is given (public AssemblyCondition::calcGoalGradient, w.r.t. the free q's of the
        // Euler-angle copy) agree with central differences of the documented goal formulas recomputed from body poses
        if ((mk || os) && ik.getNumFreeQs() > 0 && !eulerNearSingular(c, m, s0)) {
            phase = "harness";
            const int np = ik.getNumFreeQs(); State e = ik.getInternalState(); const Vector q0 = e.getQ(); const double h = 1e-6;
            m.sys.realize(e, Stage::Position); double worstA = 0; goalSensors(e, worstA);
            for (int which = 0; which < 2; ++which) {
                if (which == 0 ? !mk : (!os || worstA > 2.8)) continue;      // the rotation angle is not smooth at pi
                Vector gl(np); gl = NaN; int st = which == 0 ? mk->calcGoalGradient(ik.getInternalState(), gl) : os->calcGoalGradient(ik.getInternalState(), gl);
                if (st != 0) continue;
                Vector gf(np); double dummy;
                for (int fx = 0; fx < np; ++fx) { const int qx = ik.getQIndexOfFreeQ(Assembler::FreeQIndex(fx)); double f[2];
                    for (int sg = 0; sg < 2; ++sg) { e.updQ() = q0; e.updQ()[qx] += (sg ? h : -h); m.sys.realize(e, Stage::Position); f[sg] = which == 0 ? goalMarkers(e) : goalSensors(e, dummy); }
                    gf[fx] = (f[1] - f[0]) / (2 * h); }
                double d = 0, sc = 0; for (int fx = 0; fx < np; ++fx) { d = std::max(d, std::fabs(gl[fx] - gf[fx])); sc = std::max(sc, std::max(std::fabs(gl[fx]), std::fabs(gf[fx]))); if (!std::isfinite(gl[fx])) d = Infinity; }
                if (dbg()) fprintf(stderr, "C43DBG grad which=%d np=%d nq=%d d=%g sc=%g lbf=%d\n", which, np, e.getNQ(), d, sc, (int)lockedBeforeFree);
                ctx.label(which == 0 ? "clause:gradient:markers" : "clause:gradient:orientation-sensors");
                if (lockedBeforeFree) ctx.label(which == 0 ? "clause:gradient:markers:locked-before-free" : "clause:gradient:orientation-sensors:locked-before-free");
                if (!getenv("C43_NOG1") && !ctx.check(d <= 1e-6 * sc + 1e-8, std::string(which == 0 ? "Markers" : "OrientationSensors") + "::calcGoalGradient (what the optimizer is given) differs from the central-difference gradient of the documented goal w.r.t. the free q's by " + S(d) + " (gradient scale " + S(sc) + ", " + std::to_string(np) + " free of " + std::to_string(e.getNQ()) + " q)" + (lockedBeforeFree ? "; a locked q precedes a free q" : ""))) return;
            }
        }
        phase = "assemble";
        s1 = s0;
        auto tA = std::chrono::steady_clock::now();
        if (viaStateOverload) { gret = ik.assemble(s1); } else { gret = ik.assemble(); ik.updateFromInternalState(s1); }
        if (dbg()) fprintf(stderr, "C43DBG assemble took %.3f evals goal=%d grad=%d err=%d jac=%d\n", std::chrono::duration<double>(std::chrono::steady_clock::now() - tA).count(), ik.getNumGoalEvals(), ik.getNumGoalGradientEvals(), ik.getNumErrorEvals(), ik.getNumErrorJacobianEvals());
        ok = true;
    } catch (const std::exception& e) {
        if (phase == "harness") throw;     // an exception in the oracle's own computations is never a rejection
        std::string w = e.what(); bool af = w.find("Assembler::assemble() failed") != std::string::npos;
        if (ctx.wantDesc) ctx.desc << "exception in " << phase << ": " << w.substr(0, 400) << "\n";
        if (dbg()) { std::string w1 = w; for (auto& ch : w1) if (ch == '\n') ch = ' '; fprintf(stderr, "C43DBG exc %s: %s\n", phase.c_str(), w1.substr(0, 300).c_str()); }
        ctx.reject(af ? "AssembleFailed" : phase == "initialize" ? "exception-in-initialize" : "other-exception-in-assemble");
        ctx.label(std::string("failed:start") + (startClass == 2 ? "AtRef" : startClass == 3 ? "Far" : "Near") + (obsClass ? ":noisy" : ":exact"));
        return;
    }
    const bool startFeasible = e0lib <= tolUse;
    // with assemble(State&) the internal state was re-set from s1 == s0: same start
    const bool exactReachable = obsClass == 0 && !motionStartOff ? true : obsClass == 0;   // prescribed q end at their value either way
    bool lockedAtRef = true; for (int i = 0; i < nb; ++i) if (c.ex[i].lock && !c.ex[i].lockAtRef) lockedAtRef = false;
    bool boxesContain = true; for (int i = 0; i < nb; ++i) if (c.ex[i].restrict == 2 && !c.ex[i].motion && m.mb[i + 1].getNumQ(eref) > 0) boxesContain = false;
    bool startInBoxes = true; for (auto& bx : boxes) { double qs = qi0[m.mb[bx.body].getFirstQIndex(ik.getInternalState()) + bx.q]; if (!(qs >= bx.lo && qs <= bx.hi)) startInBoxes = false; }
    if (!judge("assemble", s0, s1, qi0, 0.0, gret, g0lib, startFeasible, !prescribedMoves && startInBoxes, 0.0)) return;
    ctx.label(startFeasible ? "start:feasible" : "start:infeasible");
    ctx.label(startClass == 2 ? "start:at-reference" : startClass == 3 ? "start:far" : "start:near");
    ctx.label(obsClass ? "obs:noisy" : "obs:exact");
    if (anyLock) ctx.label("has:lock"); if (anyBound) ctx.label(boxesContain ? "has:bounds-containing-ref" : "has:bounds-excluding-ref"); if (anyMotion) ctx.label("has:prescribed-motion");
    for (int i = 0; i < nb; ++i) { if (c.ex[i].lock == 1) ctx.label("lock:mobilizer"); if (c.ex[i].lock == 2) ctx.label("lock:single-q"); if (c.ex[i].lock == 3) ctx.label("lock:MobilizedBody::lock"); }
    if (mk) ctx.label("goal:markers"); if (os) ctx.label("goal:orientation-sensors"); for (auto& r : qvals) ctx.label(r.isError ? "error:qvalue" : "goal:qvalue");
    if (!mk && !os && qvals.empty()) ctx.label("goal:none");
    if (mp > 0) ctx.label("has:constraints"); if (numGrad) ctx.label("numerical-gradient"); if (numJac) ctx.label("numerical-jacobian"); if (rms) ctx.label("rms-norm"); if (permuteObs && mk) ctx.label("permuted-observations");
    ctx.label(mp > 0 || !qvals.empty() && std::any_of(qvals.begin(), qvals.end(), [](const QValRef& r) { return r.isError; }) ? "optimizer:InteriorPoint" : anyBound ? "optimizer:LBFGSB" : "optimizer:LBFGS");

    if (lockedBeforeFree) ctx.label("locks:locked-before-free"); else if (ik.getNumFreeQs() < ik.getInternalState().getNQ()) ctx.label("locks:locked-after-free");
    if (mk && os) ctx.label("goal:markers+sensors");
    // T1 differential twin: the same problem solved with the other gradient route (analytic <-> forced numerical). From a feasible start
    // inside the ranges both goals are <= the start goal (A7); the reductions they achieve must be comparable (calibrated in notes).
    if (twin && (mk || os || !qvals.empty())) {
        Assembler ik2(m.sys); Markers* mk2 = nullptr; OrientationSensors* os2 = nullptr; double g2 = NaN; bool ok2 = false;
        try { configure(ik2, mk2, os2, !numGrad, false); ik2.initialize(s0); setObsOn(mk2, os2, markers, sensors); g2 = ik2.assemble(); ok2 = true; }
        catch (const std::exception&) { ctx.label("twin:failed"); }
        if (ok2) {
            ctx.label("twin:numerical-gradient");
            const double redA = g0lib - gret, redB = g0lib - g2, big = std::max(redA, redB), small = std::min(redA, redB);
            const bool ipoptW = mp > 0 || std::any_of(qvals.begin(), qvals.end(), [](const QValRef& r) { return r.isError; });
            if (dbg()) fprintf(stderr, "C43DBG twin ipopt=%d bound=%d g0=%g ga=%g gb=%g redA=%g redB=%g start=%g obs=%d feasible=%d inboxes=%d presc=%d acc=%g numGrad=%d lbf=%d sens=%d\n", (int)ipoptW, (int)anyBound, g0lib, gret, g2, redA, redB, startDist, obsClass, (int)startFeasible, (int)startInBoxes, (int)prescribedMoves, accUse, (int)numGrad, (int)lockedBeforeFree, (int)(os != nullptr));
            if (startFeasible && startInBoxes && !prescribedMoves && !getenv("C43_NOTWIN")) twinJudge(redA, redB, g2, ipoptW);
            if (ctx.failed) return;
        }
    }
    // A8 exact data, everything reachable, near start: residuals vanish to accuracy-scaled bounds
    const bool singular = eulerNearSingular(c, m, sref) || eulerNearSingular(c, m, s0);
    double wm = 0, wsn = 0; double gEnd = myGoal(s1, wm, wsn);
    const bool zeroClause = obsClass == 0 && !convLosesLock && lockedAtRef && boxesContain && startDist <= 0.05 && !singular;
    if (dbg()) fprintf(stderr, "C43DBG evals goal=%d grad=%d err=%d jac=%d\n", ik.getNumGoalEvals(), ik.getNumGoalGradientEvals(), ik.getNumErrorEvals(), ik.getNumErrorJacobianEvals());
    if (dbg()) fprintf(stderr, "C43DBG asm zero=%d acc=%g tol=%g mp=%d start=%g g0=%g g=%g wm=%g ws=%g nfree=%d lock=%d bound=%d numGrad=%d feasible=%d\n", (int)zeroClause, accUse, tolUse, mp, startDist, g0lib, gEnd, wm, wsn, ik.getNumFreeQs(), (int)anyLock, (int)anyBound, (int)numGrad, (int)startFeasible);
    // Not judged when the search is IPOPT's (constraints / error conditions): from an infeasible near start it may legitimately end on
    // another branch of the constraint manifold (e.g. the mirror solution of a ConstantAngle) where the goal cannot vanish, and its
    // stopping point relative to 'accuracy' has a heavy tail (observed ratios up to 1e4); only labelled.
    const bool ipoptA = mp > 0 || std::any_of(qvals.begin(), qvals.end(), [](const QValRef& r) { return r.isError; });
    if (zeroClause && ipoptA) ctx.label(std::max(wm, wsn) <= 1e4 * accUse + 10 * tolUse ? "constrained:zero-goal-reached" : "constrained:zero-goal-not-reached");
    if (zeroClause && !ipoptA && !getenv("C43_NOZERO")) {
        ctx.label("clause:zero-goal");
        // calibrated (notes/C43.md): worst residual / accuracy observed 13 (LBFGS), ~200 (InteriorPoint), 1613 (LBFGSB, whose pgtol is absolute)
        const bool ipopt = mp > 0 || std::any_of(qvals.begin(), qvals.end(), [](const QValRef& r) { return r.isError; });
        const double C = ipopt ? 1e4 : anyBound ? 3e4 : 300; double bM = C * accUse + 10 * tolUse;
        // LBFGSB also stops when one iteration reduces the goal by less than factr*eps = 1e7*2.2e-16 in ABSOLUTE terms (goals are << 1),
        // whatever the accuracy: it was seen to stop at goal 2.1e-7 (residual 4.5e-3) at accuracy 1.5e-7. Floor: goal 1e-5, expressed
        // as a residual through the weights (r_i^2 <= 2 goal sum(w) / (w_i wM)).
        if (anyBound) { double wt = 0, wmin = Infinity; for (auto& r : markers) if (!r.missing && r.w > 0) { wt += r.w; wmin = std::min(wmin, r.w); } double ws = 0, wsmin = Infinity; for (auto& r : sensors) { ws += r.w; wsmin = std::min(wsmin, r.w); }
            double fl = 0; if (wt > 0) fl = std::max(fl, std::sqrt(2e-5 * wt / (wmin * wM))); if (ws > 0) fl = std::max(fl, std::sqrt(2e-5 * ws / (wsmin * wO))); bM += fl; }
        const double bS = bM;
        { double a, b; myGoal(s0, a, b); if (bM < std::max(a, b) / 3) ctx.label("clause:zero-goal:binding"); }
        if (!ctx.check(wm <= bM, "exact markers generated from a reachable configuration, start within " + S(startDist) + " of it: worst marker residual after assemble() is " + S(wm) + " > " + S(bM) + " (accuracy " + S(accUse) + ")")) return;
        if (!ctx.check(wsn <= bS, "exact orientation observations from a reachable configuration, start within " + S(startDist) + ": worst sensor angle after assemble() is " + S(wsn) + " > " + S(bS))) return;
    }
    ctx.nontrivial((mp > 0 || anyLock || anyBound) && startDist >= 0.02);

    // ---- tracking frames
    State sPrev = s1; double tNow = 0;
    for (int f = 1; f <= nFrames; ++f) {
        tNow = 0.1 * f;
        // new reference: previous reference nudged on the coordinates that may move; exactly reachable only without constraints
        State sr2 = sref; sr2.setTime(tNow);
        for (int i = 0; i < nb; ++i) { const MobilizedBody& mb = m.mb[i + 1]; const Extra& e = c.ex[i]; int nq = mb.getNumQ(sr2); if (nq == 0) continue;
            if (e.motion) { Vector q(nq); q = e.mA * std::sin(e.mRate * tNow + e.mPhase); mb.setQFromVector(sr2, q); continue; }
            if (e.lock) { if (!e.lockAtRef) mb.setQFromVector(sr2, mb.getQAsVector(s0)); continue; }
            const bool quat = mbgen::mobHasQuaternion(c.cm.spec.bodies[i].type) && !c.cm.spec.euler;
            Vector q = mb.getQAsVector(sr2); for (int k = 0; k < nq && k < 7; ++k) q[k] += 0.02 * f * e.pert[(k + 3) % 7] * (quat && k < 4 ? 0.5 : 1.0);
            if (quat) { double n = 0; for (int k = 0; k < 4; ++k) n += q[k] * q[k]; n = std::sqrt(n); for (int k = 0; k < 4; ++k) q[k] /= n; }
            mb.setQFromVector(sr2, q); }
        m.sys.realize(sr2, Stage::Position);
        std::vector<MarkerRef> ms = markers; std::vector<SensorRef> ss = sensors;
        for (auto& r : ms) { r.obs = m.mb[r.body].findStationLocationInGround(sr2, r.station); }
        for (auto& r : ss) { r.obs = m.mb[r.body].getBodyRotation(sr2) * r.R_BS; }
        markers = ms; sensors = ss;   // myGoal uses these
        Vector qiB; double g0f = 0, e0f = 0, gf = 0; State s2 = sPrev;
        try {
            setObservations(markers, sensors);
            g0f = ik.calcCurrentGoal(); e0f = ik.calcCurrentErrorNorm(); qiB = ik.getInternalState().getQ();
            auto tA = std::chrono::steady_clock::now();
            try { gf = ik.track(tNow); } catch (...) { if (dbg()) fprintf(stderr, "C43DBG track threw after %.3f evals goal=%d grad=%d err=%d jac=%d\n", std::chrono::duration<double>(std::chrono::steady_clock::now() - tA).count(), ik.getNumGoalEvals(), ik.getNumGoalGradientEvals(), ik.getNumErrorEvals(), ik.getNumErrorJacobianEvals()); throw; }
            if (dbg()) fprintf(stderr, "C43DBG track took %.3f evals goal=%d grad=%d err=%d jac=%d\n", std::chrono::duration<double>(std::chrono::steady_clock::now() - tA).count(), ik.getNumGoalEvals(), ik.getNumGoalGradientEvals(), ik.getNumErrorEvals(), ik.getNumErrorJacobianEvals());
            ik.updateFromInternalState(s2); s2.setTime(tNow);
        } catch (const std::exception& e) {
            std::string w = e.what(); if (ctx.wantDesc) ctx.desc << "exception in track: " << w.substr(0, 400) << "\n";
            ctx.label(w.find("Assembler::track() failed") != std::string::npos ? "track:TrackFailed" : "track:other-exception"); return;
        }
        if (!ctx.check(ik.isInitialized() && ik.getNumInitializations() == (viaStateOverload ? 2 : 1), "track() reinitialized the Assembler (" + std::to_string(ik.getNumInitializations()) + " initializations)")) return;
        // monotone clause for track: the start of a frame is feasible to tolerance; slack covers trading goal for the
        // last bit of feasibility (documented nowhere; calibrated, see notes)
        bool insideBoxes = true; for (auto& bx : boxes) { double qs = qiB[m.mb[bx.body].getFirstQIndex(ik.getInternalState()) + bx.q]; if (!(qs >= bx.lo && qs <= bx.hi)) insideBoxes = false; }
        const bool ipoptT = mp > 0 || std::any_of(qvals.begin(), qvals.end(), [](const QValRef& r) { return r.isError; });
        const double slackT = ipoptT ? 100 * tolUse * std::sqrt(2 * g0f) + 100 * tolUse * tolUse : 0.0;
        if (dbg() && e0f <= tolUse && insideBoxes && !anyMotion && !convLosesLock && gf > g0f) fprintf(stderr, "C43DBG trkworse ipopt=%d g0=%g g=%g slack=%g ratio=%g\n", (int)ipoptT, g0f, gf, slackT, (gf - g0f) / std::max(slackT, 1e-300));
        // goal-not-worse for track(): judged for the descent optimizers only. With constraints the search is IPOPT's and track() (unlike
        // assemble()) has no guard: small increases while the constraint error is driven from <= tolerance towards 0 are inherent, larger
        // ones (5% seen) happen; no sound bound is known, so the case is only labelled.
        if (ipoptT && e0f <= tolUse && insideBoxes && !anyMotion && gf > g0f * (1 + 1e-12) + slackT) ctx.label("track:ipopt-goal-worse-than-start");
        if (!judge("track", sPrev, s2, qiB, tNow, gf, g0f, e0f <= tolUse, !anyMotion && !convLosesLock && insideBoxes && !ipoptT, 0.0)) return;
        ctx.label("track:frames");
        double wm2, ws2; myGoal(s2, wm2, ws2);
        double distPrev = 0; { m.sys.realize(sPrev, Stage::Position); for (int i = 1; i <= nb; ++i) distPrev = std::max(distPrev, poseDist(m.mb[i].getMobilizerTransform(sPrev), m.mb[i].getMobilizerTransform(sr2))); }
        const bool zero2 = mp == 0 && qvals.empty() && !anyLock && !anyBound && !convLosesLock && !singular && !eulerNearSingular(c, m, sr2) && distPrev <= 0.05;
        if (zero2 && !getenv("C43_NOZERO")) { ctx.label("clause:zero-goal:track"); const double bT = 1e4 * accUse + 10 * tolUse;   // observed max 560 x accuracy
            if (!ctx.check(wm2 <= bT && ws2 <= bT, "track(): exact observations generated from a reachable configuration 0.02 from the previous frame, no constraints/locks/bounds: worst marker residual " + S(wm2) + ", worst sensor angle " + S(ws2) + " > " + S(bT) + " (accuracy " + S(accUse) + ")")) return; }
        if (dbg()) fprintf(stderr, "C43DBG trk zero=%d acc=%g tol=%g mp=%d g0=%g g=%g wm=%g ws=%g feasible=%d motion=%d lock=%d bound=%d conv=%d frame=%d obs=%d\n", (int)zero2, accUse, tolUse, mp, g0f, gf, wm2, ws2, (int)(e0f <= tolUse), (int)anyMotion, (int)anyLock, (int)anyBound, (int)convLosesLock, f, obsClass);
        sPrev = s2;
    }
}

// =================================================================== ObservedPointFitter
void runFitter(const pbt::Tape& t, pbt::Reader& g, pbt::Ctx& ctx) {
    const bool allowCons = g.chance(1, 3);
    Case c = decodeCase(t, g, allowCons, false);
    const int nb = c.cm.spec.nBodies();
    const double tol = std::pow(10.0, -2.0 - 4.0 * g.unit());   // 1e-2 .. 1e-6
    const int obsClass = g.pick(3) == 2 ? 1 : 0; const double noise = 0.02 + 0.2 * g.unit();
    const int startClass = g.pick(4); const double delta = startClass == 2 ? 0.0 : startClass == 3 ? 0.1 + 0.4 * g.unit() : 0.02 + 0.01 * g.unit();
    const int api = g.pick(4);          // 0 Array_ weighted, 1 Array_ unweighted, 2 std::vector weighted, 3 std::vector unweighted
    const bool defaultTol = g.chance(1, 6); const bool conStartRef = g.boolean();
    const bool weighted = api == 0 || api == 2; const double tolUse = defaultTol ? 1e-3 : tol;
    if (ctx.wantDesc) { c.cm.describe(ctx.desc); ctx.desc << "solver=ObservedPointFitter tolerance=" << tolUse << (defaultTol ? " (default)" : "") << " obs=" << (obsClass ? "noisy" : "exact") << " noise=" << noise << " start=" << startClass << " delta=" << delta << " api=" << api << "\n";
        for (int i = 0; i < nb; ++i) { const Extra& e = c.ex[i]; ctx.desc << " extras body " << i + 1 << ": stations=" << e.nMarkers; for (int k = 0; k < e.nMarkers; ++k) ctx.desc << " [" << e.station[k] << " w=" << e.mw[k] << "]"; ctx.desc << "\n"; } }
    consgen::labelModel(ctx, c.cm); ctx.label("solver:ObservedPointFitter");
    consgen::BuiltCons m(c.cm); m.finish(c.cm.spec); m.setState(c.cm.spec);
    State sref = m.state; if (sref.getNQ() == 0) { ctx.reject("nq=0"); return; }
    m.sys.realize(sref, Stage::Velocity);
    const int mp = sref.getNQErr() - m.matter.getNumQuaternionsInUse(sref);
    { double e = 0; for (int i = 0; i < mp; ++i) e = std::max(e, std::fabs(sref.getQErr()[i])); if (!(e <= 1e-10)) { ctx.reject("reference-not-assembled"); return; } }
    { std::string why; for (auto& k : c.cm.cons) if (consgen::degenerateAt(k, m, sref, why)) { ctx.reject("degenerate-geometry"); return; } }
    std::vector<bool> fixed(nb + 1, false), keepRef(nb + 1, false);
    if (!fullRowRank(m, sref, fixed)) { ctx.reject("rank-deficient-constraints"); return; }
    Array_<MobilizedBodyIndex> bodyIxs; Array_<Array_<Vec3> > stations, targets; Array_<Array_<Real> > weights; double wtot = 0; int nStations = 0;
    for (int i = 0; i < nb; ++i) { const Extra& e = c.ex[i]; if (e.nMarkers == 0 && i % 2 == 0) continue;   // bodies without stations may or may not be listed
        bodyIxs.push_back(m.mb[i + 1].getMobilizedBodyIndex()); stations.push_back(Array_<Vec3>()); targets.push_back(Array_<Vec3>()); weights.push_back(Array_<Real>());
        for (int k = 0; k < e.nMarkers; ++k) { stations.back().push_back(e.station[k]); Vec3 p = m.mb[i + 1].findStationLocationInGround(sref, e.station[k]); if (obsClass) p += noise * e.noiseDir[k]; targets.back().push_back(p);
            double w = weighted ? e.mw[k] : 1.0; weights.back().push_back(w); wtot += w; nStations++; } }
    if (!(wtot > 0)) { ctx.reject("no-stations"); return; }
    // constrained models: half of the starts are the (assembled) reference, so that the no-worse clause has a feasible start
    State s0; perturb(c, m, sref, mp > 0 && conStartRef ? 0.0 : delta, keepRef, s0); m.sys.realize(s0, Stage::Position);
    double startDist = 0; for (int i = 1; i <= nb; ++i) startDist = std::max(startDist, poseDist(m.mb[i].getMobilizerTransform(s0), m.mb[i].getMobilizerTransform(sref)));
    auto wrms = [&](const State& s, double& worst) { double e = 0; worst = 0; for (int i = 0; i < (int)bodyIxs.size(); ++i) for (int j = 0; j < (int)stations[i].size(); ++j) {
        double d2 = (m.matter.getMobilizedBody(bodyIxs[i]).findStationLocationInGround(s, stations[i][j]) - targets[i][j]).normSqr(); e += weights[i][j] * d2; if (weights[i][j] > 0) worst = std::max(worst, std::sqrt(d2)); } return std::sqrt(e / wtot); };
    double w0; const double r0 = wrms(s0, w0);
    State s1 = s0; double r = NaN;
    try {
        if (api == 0) r = ObservedPointFitter::findBestFit(m.sys, s1, bodyIxs, stations, targets, weights, tolUse);
        else if (api == 1) r = defaultTol ? ObservedPointFitter::findBestFit(m.sys, s1, bodyIxs, stations, targets) : ObservedPointFitter::findBestFit(m.sys, s1, bodyIxs, stations, targets, tolUse);
        else { std::vector<MobilizedBodyIndex> b(bodyIxs.begin(), bodyIxs.end()); std::vector<std::vector<Vec3> > st, tg; std::vector<std::vector<Real> > ww;
            for (int i = 0; i < (int)bodyIxs.size(); ++i) { st.push_back(std::vector<Vec3>(stations[i].begin(), stations[i].end())); tg.push_back(std::vector<Vec3>(targets[i].begin(), targets[i].end())); ww.push_back(std::vector<Real>(weights[i].begin(), weights[i].end())); }
            r = api == 2 ? ObservedPointFitter::findBestFit(m.sys, s1, b, st, tg, ww, tolUse) : ObservedPointFitter::findBestFit(m.sys, s1, b, st, tg, tolUse); }
    } catch (const std::exception& e) { if (ctx.wantDesc) ctx.desc << "exception: " << std::string(e.what()).substr(0, 300) << "\n"; ctx.reject("fitter-exception"); ctx.label(std::string("failed:fitter:") + (mp ? "constrained" : "tree")); return; }
    m.sys.realize(s1, Stage::Position);
    // F1 the reported value is the weighted RMS distance of the returned configuration
    double w1; const double r1 = wrms(s1, w1);
    if (!ctx.check(std::isfinite(r) && r >= 0, "findBestFit returned " + S(r))) return;
    if (!ctx.check(std::fabs(r * r - r1 * r1) <= 1e-9 * (r1 * r1) + 1e-13, "findBestFit returned " + S(r) + " but the weighted RMS distance of the stations in the returned state from their targets is " + S(r1))) return;
    // F2 position constraints (the fitter leaves the Optimizer's default constraint tolerance 1e-4 in force)
    // (no constraint tolerance is documented for the fitter: IPOPT's constr_viol_tol stays at the Optimizer default 1e-4 and its overall
    //  'tol' is the fitter's tolerance; a fully constrained SphericalCoords case returned 7.3e-3 at tolerance 1.7e-3 -> bound
    //  max(1e-4, 10 x tolerance))
    { double e = 0; for (int i = 0; i < mp; ++i) e = std::max(e, std::fabs(s1.getQErr()[i])); const double bE = std::max(1e-4 * (1 + 1e-6) + 1e-12, 10 * tolUse);
      if (!ctx.check(e <= bE, "findBestFit returned normally but the position-constraint error of the returned state is " + S(e) + " > " + S(bE))) return; }
    // F3 only q changes. Known finding: in quaternion mode the fitter round-trips the state through
    // SimbodyMatterSubsystem::convertToEulerAngles/convertToQuaternions, which re-realize the Model stage and thereby reset u
    // (and every other variable allocated at Model stage) to its default. Site predicate (input): state not in Euler mode.
    if (!c.cm.spec.euler && knownSite(ctx, "euler-conversion-resets-u")) ctx.label("excluded:euler-conversion-resets-u");
    else if (!ctx.check(s1.getNU() == s0.getNU() && (s1.getNU() == 0 || (s1.getU() - s0.getU()).normInf() == 0) && s1.getTime() == s0.getTime(), "findBestFit changed u or time of the state (documented: 'on exit, this State's Q vector contains the values which provide a best fit')")) return;
    if (!ctx.check(m.matter.getUseEulerAngles(s1) == c.cm.spec.euler && s1.getNQ() == s0.getNQ(), "findBestFit changed the modelling options of the state")) return;
    const bool singular = eulerNearSingular(c, m, sref) || eulerNearSingular(c, m, s0);
    if (dbg()) fprintf(stderr, "C43DBG opf tol=%g mp=%d start=%g r0=%g r=%g w1=%g obs=%d sing=%d nst=%d nq=%d\n", tolUse, mp, startDist, r0, r1, w1, obsClass, (int)singular, nStations, s0.getNQ());
    // F4 the fit is no worse than the start (slack: the fitter stops at 'tolerance'); F5 exact data, near start: residual ~ tolerance.
    // Known finding: the final search starts from the per-body estimates (and is IPOPT's, no descent method, with constraints) and
    // nothing compares the result with the caller's start: the returned fit can be (much) worse. Site predicate: feasible start.
    double e0 = 0; for (int i = 0; i < mp; ++i) e0 = std::max(e0, std::fabs(s0.getQErr()[i]));
    bool f4 = e0 <= 1e-4; if (!f4) ctx.label("start:infeasible");
    if (f4 && knownSite(ctx, "opf-fit-worse-than-start")) { f4 = false; ctx.label("excluded:opf-fit-worse-than-start"); }
    if (f4) { ctx.label("clause:fit-monotone");
        if (!ctx.check(r1 <= r0 * (1 + 1e-6) + 20 * tolUse, "findBestFit made the fit worse: weighted RMS distance " + S(r0) + " at the start, " + S(r1) + " returned (tolerance " + S(tolUse) + ")")) return;
        // (trees only: with constraints the final search is IPOPT's, whose stopping point relative to 'tolerance' has a heavy tail)
        if (mp == 0 && obsClass == 0 && startDist <= 0.05 && !singular) { ctx.label("clause:zero-goal:fitter"); if (200 * tolUse < r0 / 3) ctx.label("clause:zero-goal:binding");
            if (!ctx.check(r1 <= 200 * tolUse, "exact targets generated from a reachable configuration, start within " + S(startDist) + " of it: findBestFit returned a fit with RMS distance " + S(r1) + " > 200 x tolerance " + S(tolUse))) return; } }
    ctx.label(obsClass ? "obs:noisy" : "obs:exact"); ctx.label(startClass == 2 ? "start:at-reference" : startClass == 3 ? "start:far" : "start:near"); if (mp > 0) ctx.label("has:constraints"); ctx.label(mp > 0 ? "optimizer:InteriorPoint" : "optimizer:LBFGS");
    ctx.label(std::string("fitter-api:") + (api == 0 ? "Array-weighted" : api == 1 ? "Array-unweighted" : api == 2 ? "vector-weighted" : "vector-unweighted"));
    ctx.nontrivial(startDist >= 0.02 && nb >= 2);
}

// =================================================================== LocalEnergyMinimizer
void runMinimizer(const pbt::Tape& t, pbt::Reader& g, pbt::Ctx& ctx) {
    const bool allowCons = g.chance(1, 3);
    Case c = decodeCase(t, g, allowCons, false);
    const int nb = c.cm.spec.nBodies();
    const double tol = std::pow(10.0, -2.0 - 4.0 * g.unit());   // 1e-2 .. 1e-6
    Vec3 grav(g.real(-10, 10), g.real(-10, 10), g.real(-10, 10)); const bool useGrav = !g.chance(1, 4); const bool allowMobSprings = !g.chance(1, 4);
    const int startClass = g.pick(3); const double delta = startClass == 0 ? 0.0 : 0.3 * g.unit();      // 0: start at the reference
    if (ctx.wantDesc) { c.cm.describe(ctx.desc); ctx.desc << "solver=LocalEnergyMinimizer tolerance=" << tol << " gravity=" << (useGrav ? grav : Vec3(0)) << " start=" << startClass << " delta=" << delta << "\n";
        for (int i = 0; i < nb; ++i) { const Extra& e = c.ex[i]; ctx.desc << " extras body " << i + 1 << ": spring Ground" << e.sp1 << " - body" << e.sp2 << " k=" << e.k2 << " x0=" << e.x0 << " mobilitySpring=" << (e.mobSpring && allowMobSprings) << "(q" << e.msQ << ",k=" << e.km << ",q0off=" << e.q0off << ")\n"; } }
    consgen::labelModel(ctx, c.cm); ctx.label("solver:LocalEnergyMinimizer");
    consgen::BuiltCons m(c.cm);
    if (useGrav) Force::UniformGravity(m.forces, m.matter, grav);
    bool anyMobSpring = false;
    for (int i = 0; i < nb; ++i) { const Extra& e = c.ex[i]; const mbgen::BodySpec& b = c.cm.spec.bodies[i];
        Force::TwoPointLinearSpring(m.forces, m.mb[0], e.sp1, m.mb[i + 1], e.sp2, e.k2, e.x0);
        int nq = mbgen::mobNQ(b.type, c.cm.spec.euler);
        if (allowMobSprings && e.mobSpring && mbgen::mobQDotIsU(b.type) && nq > 0) { int k = e.msQ % nq; Force::MobilityLinearSpring(m.forces, m.mb[i + 1], MobilizerQIndex(k), e.km, b.q[k] + e.q0off); anyMobSpring = true; } }
    m.forces.setNumberOfThreads(1);
    m.finish(c.cm.spec); m.setState(c.cm.spec);
    State sref = m.state; if (sref.getNQ() == 0) { ctx.reject("nq=0"); return; }
    m.sys.realize(sref, Stage::Velocity);
    const int mp = sref.getNQErr() - m.matter.getNumQuaternionsInUse(sref);
    { double e = 0; for (int i = 0; i < mp; ++i) e = std::max(e, std::fabs(sref.getQErr()[i])); if (!(e <= 1e-10)) { ctx.reject("reference-not-assembled"); return; } }
    { std::string why; for (auto& k : c.cm.cons) if (consgen::degenerateAt(k, m, sref, why)) { ctx.reject("degenerate-geometry"); return; } }
    std::vector<bool> fixed(nb + 1, false), keepRef(nb + 1, false);
    if (!fullRowRank(m, sref, fixed)) { ctx.reject("rank-deficient-constraints"); return; }
    State s0; perturb(c, m, sref, mp > 0 ? 0.0 : delta, keepRef, s0);     // constrained models start assembled (the reference)
    auto PE = [&](const State& s) { m.sys.realize(s, Stage::Dynamics); return m.sys.calcPotentialEnergy(s); };
    // energy gradient w.r.t. the mobilities by 5-point differences along qdot = N e_j, projected on the constraint null space
    auto gradient = [&](const State& s, double& raw) { const int nu = s.getNU(); Vector gu(nu); State w = s; const Vector q = s.getQ(); const double h = 1e-3;
        for (int j = 0; j < nu; ++j) { w.updQ() = q; w.updU() = 0; w.updU()[j] = 1; m.sys.realize(w, Stage::Velocity); const Vector qd = w.getQDot();
            auto f = [&](double a) { w.updQ() = q + a * qd; return PE(w); };
            gu[j] = (8 * (f(h) - f(-h)) - (f(2 * h) - f(-2 * h))) / (12 * h); }
        raw = nu ? gu.normInf() : 0;
        if (dbg() && getenv("C43_GRAD")) { std::cerr << "C43DBG gu=" << gu << "\n"; { m.sys.realize(s, Stage::Dynamics); Vector ga; m.matter.multiplyBySystemJacobianTranspose(s, m.sys.getRigidBodyForces(s, Stage::Dynamics), ga); ga += m.sys.getMobilityForces(s, Stage::Dynamics); std::cerr << "C43DBG -(J^T F + f)=" << Vector(-1 * ga) << "\n"; } m.sys.realize(s, Stage::Velocity); Matrix G; m.matter.calcG(s, G); std::cerr << "G=" << G << " qerr=" << s.getQErr() << " q=" << s.getQ() << "\n"; }
        if (mp > 0) { m.sys.realize(s, Stage::Velocity); Matrix G; m.matter.calcG(s, G); Matrix GGt = G * ~G; Vector rhs = G * gu, lam; FactorLU lu(GGt); lu.solve(rhs, lam); gu -= ~G * lam; }
        return nu ? gu.normInf() : 0.0; };
    const double pe0 = PE(s0); double raw0; const double g0 = gradient(s0, raw0);
    // with the lem-euler-mode-discards-start site active the search starts from the DEFAULT q (uninitialised memory for a
    // CantileverFreeBeam): the call is made (crash / hang detection) but nothing is judged
    const bool discardsStart = c.cm.spec.euler && knownSite(ctx, "lem-euler-mode-discards-start");
    State s1 = s0;
    if (discardsStart) { ctx.label("excluded:lem-euler-mode-discards-start"); try { LocalEnergyMinimizer::minimizeEnergy(m.sys, s1, tol); } catch (const std::exception&) {} ctx.label("solver:LocalEnergyMinimizer:not-judged"); return; }
    try { LocalEnergyMinimizer::minimizeEnergy(m.sys, s1, tol); }
    catch (const std::exception& e) { if (ctx.wantDesc) ctx.desc << "exception: " << std::string(e.what()).substr(0, 300) << "\n"; ctx.reject("minimizer-exception");
        ctx.label(std::string("failed:minimizer:") + (mp ? "constrained" : "tree") + (anyMobSpring ? ":mobility-spring" : "")); return; }
    const double pe1 = PE(s1); double raw1; const double g1 = gradient(s1, raw1);
    const bool singular = eulerNearSingular(c, m, s1) || eulerNearSingular(c, m, s0);
    if (dbg()) fprintf(stderr, "C43DBG lem tol=%g mp=%d euler=%d pe0=%g pe1=%g g0=%g g1=%g raw1=%g sing=%d mobspring=%d nu=%d\n", tol, mp, (int)c.cm.spec.euler, pe0, pe1, g0, g1, raw1, (int)singular, (int)anyMobSpring, s0.getNU());
    // E1 energy never increases (from a feasible start).
    // Known finding 1: when the state already uses Euler angles minimizeEnergy() calls setUseEulerAngles(tempState,true) +
    // realizeModel(tempState), which re-allocates q with the DEFAULT values: the search starts from the default configuration,
    // not from the caller's (the result can be far away and have a higher energy than the start). Site predicate: Euler mode.
    // Known finding 2: with position constraints the search is IPOPT's, which is not a descent method, and minimizeEnergy()
    // (unlike Assembler::assemble()) does not compare with the start: the energy can go up. Site predicate: mp > 0.
    bool e1 = true;
    if (e1 && mp > 0 && knownSite(ctx, "lem-constrained-energy-increase")) { e1 = false; ctx.label("excluded:lem-constrained-energy-increase"); }
    if (e1) ctx.label("clause:energy-monotone");
    if (e1 && !ctx.check(pe1 <= pe0 + 1e-9 * (1 + std::fabs(pe0)), "minimizeEnergy increased the potential energy from " + S(pe0) + " to " + S(pe1))) return;
    // E2 constraints (Optimizer default constraint tolerance 1e-4)
    { m.sys.realize(s1, Stage::Position); double e = 0; for (int i = 0; i < mp; ++i) e = std::max(e, std::fabs(s1.getQErr()[i])); const double bE = std::max(1e-4 * (1 + 1e-6) + 1e-12, 10 * tol);
      if (!ctx.check(e <= bE, "minimizeEnergy returned normally but the position-constraint error of the returned state is " + S(e) + " > " + S(bE))) return; }
    // E3 only q changes ("velocities are ignored"); known finding as in F3
    if (!c.cm.spec.euler && knownSite(ctx, "euler-conversion-resets-u")) ctx.label("excluded:euler-conversion-resets-u");
    else if (!ctx.check(s1.getNU() == s0.getNU() && (s1.getNU() == 0 || (s1.getU() - s0.getU()).normInf() == 0) && s1.getTime() == s0.getTime(), "minimizeEnergy changed u or time of the state (documented: 'Only positions (generalized coordinates q) are changed')")) return;
    if (!ctx.check(m.matter.getUseEulerAngles(s1) == c.cm.spec.euler && s1.getNQ() == s0.getNQ(), "minimizeEnergy changed the modelling options of the state")) return;
    // E4 normal return = converged: the energy gradient along the mobilities (projected on the constraint null space) is small.
    // calibrated: g/(tol*max(1,|PE|)) <= 1.5 (LBFGS: its test is |g_i| max(1,|x_i|) / max(0.1,|f|) <= tol), <= 77 (InteriorPoint)
    // Not judged with constraints: IPOPT (with the numerical constraint Jacobian minimizeEnergy asks for) was seen to return
    // 'Optimal Solution Found' after wandering to |q| ~ 1e5 rad with a projected gradient of 9 (see notes); only labelled.
    if (mp > 0 && !singular) ctx.label(g1 <= 1000 * tol * std::max(1.0, std::fabs(pe1)) ? "constrained:stationary" : "constrained:not-stationary");
    // Known finding: minimizeEnergy's gradient SUBTRACTS the applied mobility forces (dEdU -= getMobilityForces) where the
    // generalized force is J^T F + f: with any mobility force element the gradient is wrong, LBFGS's line search fails or it
    // stops at non-stationary points. Site predicate (input): a mobility (generalized) force element is present.
    // E4 is judged in moderate configurations only: weak springs under heavy gravity put the minimum hundreds of length units away
    // (|PE| ~ 4e4), where -(J^T F + f) and the finite-difference gradient of calcPotentialEnergy were seen to disagree in the base
    // body's rotational coordinates (regress-lem-extreme-configuration.tape; not understood, reported in notes) -- labelled only.
    bool moderate = std::fabs(pe1) <= 1e3; for (int k = 0; k < s1.getNQ(); ++k) if (!(std::fabs(s1.getQ()[k]) <= 20)) moderate = false;
    if (mp == 0 && !singular && !moderate) ctx.label("gradient:not-judged-extreme-configuration");
    bool e4 = mp == 0 && !singular && moderate;
    if (e4 && anyMobSpring && knownSite(ctx, "lem-mobility-force-gradient-sign")) { e4 = false; ctx.label("excluded:lem-mobility-force-gradient-sign"); }
    if (e4) { ctx.label("clause:gradient"); const double bG = 20 * tol * std::max(1.0, std::fabs(pe1)); if (bG < g0 / 3) ctx.label("clause:gradient:binding");
        if (!ctx.check(g1 <= bG, "minimizeEnergy returned normally (tolerance " + S(tol) + ") but the potential-energy gradient along the mobilities" + (mp > 0 ? " (projected on the constraint null space)" : "") + " has max component " + S(g1) + " > " + S(bG) + " (PE " + S(pe1) + ")")) return; }
    if (mp > 0) ctx.label("has:constraints"); ctx.label(mp > 0 ? "optimizer:InteriorPoint" : "optimizer:LBFGS"); if (anyMobSpring) ctx.label("force:mobility-spring"); if (useGrav) ctx.label("force:gravity");
    ctx.label(pe1 < pe0 - 1e-6 * (1 + std::fabs(pe0)) ? "energy:decreased" : "energy:unchanged");
    ctx.nontrivial(nb >= 2 && pe1 < pe0 - 1e-6 * (1 + std::fabs(pe0)));
}

void property(const pbt::Tape& t, pbt::Ctx& ctx) {
    struct Timer { std::chrono::steady_clock::time_point t0 = std::chrono::steady_clock::now(); pbt::Ctx& c; Timer(pbt::Ctx& c) : c(c) {} ~Timer() { if (dbg()) { double s = std::chrono::duration<double>(std::chrono::steady_clock::now() - t0).count(); std::string l; for (auto& x : c.labels) if (x.rfind("optimizer:", 0) == 0 || x.rfind("solver:", 0) == 0 || x.rfind("rejected:", 0) == 0 || x.rfind("numerical", 0) == 0) l += x + " "; fprintf(stderr, "C43DBG time %.3f %s\n", s, l.c_str()); } } } timer(ctx);
    pbt::Reader g(t[0]);
    const int solver = g.pick(10);
    if (solver <= 5) runAssembler(t, g, ctx); else if (solver <= 7) runFitter(t, g, ctx); else runMinimizer(t, g, ctx);
}

pbt::Config config() {
    pbt::Config c; c.prop = "C43"; c.K = KK; c.minUnits = 2;
    c.quick = {400, 1500, 12, 30}; c.thorough = {4000, 25000, 14, 120};
    c.rule = "rapidcheck tape -> consgen model (mbgen tree of 1..4 bodies, all mobilizer types except LineOrientation/FreeLine, Euler or quaternion mode; 0..3 position constraints out of Rod, Ball, Weld, PointInPlane, PointOnLine, ConstantAngle, ConstantOrientation, ConstantCoordinate, linear CoordinateCoupler, parameters fitted so that the generated configuration is an assembled reference; full row rank of G on the movable mobilities required). Solver by tape: Assembler 60% (markers 0..3 per body with weights incl. 0 and missing observations, orientation sensors, QValue goals/errors, all generated from the reference exactly or with noise; lockMobilizer / lockQ / MobilizedBody::lock / Motion::Sinusoid prescribed q; restrictQ boxes containing or excluding the reference; accuracy 1e-3..1e-7, optional explicit tolerance, RMS/max norm, numerical gradient/Jacobian, permuted observation order, assemble() or assemble(State&), in 2/3 of the cases a differential twin run with the other goal-gradient route (analytic <-> forced numerical); start at / near (0.02-0.03) / far (0.1-0.5) from the reference; 0..2 track() frames with moved observations and time), ObservedPointFitter 20% (1..3 stations per body, weights, 4 overloads, tolerance 1e-2..1e-6), LocalEnergyMinimizer 20% (gravity, a TwoPointLinearSpring per body, MobilityLinearSprings, tolerance 1e-2..1e-6). Non-trivial: Assembler: >=1 constraint, lock or bound and start >= 0.02 from the reference; fitter: >= 2 bodies and start >= 0.02 away; minimizer: >= 2 bodies and energy decreased; distinct by tape hash.";
    c.assumptions = {"a thrown AssembleFailed/TrackFailed/optimizer exception is a legitimate outcome (rejected; rates reported per class)",
        "the goal formulas are the documented ones: Markers 1/2 sum w r^2 / sum w, OrientationSensors 1/2 sum w a^2 / sum w, QValue (q-v)^2/2, total = sum weight_i goal_i",
        "tolerance in use = explicit tolerance, else accuracy/10 (Assembler.h); fitter/minimizer leave the Optimizer's default constraint tolerance 1e-4",
        "restricted q may exceed its range by 1e-7 relative (IPOPT's documented bound relaxation)",
        "goal-not-worse is demanded from starts that satisfy the constraints to tolerance and lie inside the q ranges; zero-goal only for exact data, start within 0.05, no Euler-angle singularity, and not when the search is IPOPT's",
        "LineOrientation/FreeLine are outside the domain (coordinate freedom without a mobility is invisible to the u-space gradients of all three solvers)"};
    c.requiredLabels = {"solver:Assembler", "solver:ObservedPointFitter", "solver:LocalEnergyMinimizer", "optimizer:InteriorPoint", "optimizer:LBFGSB", "optimizer:LBFGS",
        "clause:zero-goal", "clause:zero-goal:binding", "clause:monotone:assemble", "clause:monotone:track", "clause:zero-goal:track", "track:frames", "has:lock", "lock:mobilizer", "lock:single-q", "lock:MobilizedBody::lock",
        "has:bounds-containing-ref", "has:bounds-excluding-ref", "has:prescribed-motion", "has:constraints", "error:qvalue", "goal:orientation-sensors", "clause:gradient", "clause:energy-monotone",
        "goal:markers+sensors", "locks:locked-before-free", "locks:locked-after-free", "twin:numerical-gradient", "clause:twin:descent", "twin:InteriorPoint:comparable",
        "clause:gradient:markers", "clause:gradient:orientation-sensors", "clause:gradient:markers:locked-before-free", "clause:gradient:orientation-sensors:locked-before-free"};
    c.caseTimeoutSecs = 300;
    c.directed.push_back({"assemble-returns-start-outside-bounds", "assemble-returns-start-outside-bounds", [](pbt::Ctx& ctx) {
        // one pin, markers observed at q = 0, start q = -0.02, q restricted to [0.13, 0.23]
        MultibodySystem sys; SimbodyMatterSubsystem matter(sys); Body::Rigid body(MassProperties(1, Vec3(0), Inertia(1)));
        MobilizedBody::Pin p1(matter.Ground(), Transform(), body, Transform()); State s = sys.realizeTopology(); sys.realizeModel(s);
        Assembler ik(sys); Markers* mk = new Markers(); mk->addMarker(p1, Vec3(0.5, 0, 0)); mk->addMarker(p1, Vec3(0, 0.5, 0)); ik.adoptAssemblyGoal(mk);
        ik.restrictQ(p1, MobilizerQIndex(0), 0.13, 0.23); p1.setQ(s, -0.02); ik.initialize(s);
        mk->moveOneObservation(Markers::ObservationIx(0), Vec3(0.5, 0, 0)); mk->moveOneObservation(Markers::ObservationIx(1), Vec3(0, 0.5, 0));
        ik.assemble(); ik.updateFromInternalState(s);
        ctx.desc << "Pin, markers observed at q=0, start q=-0.02, restrictQ [0.13,0.23]: assemble() returned q=" << p1.getQ(s) << "\n";
        ctx.check(p1.getQ(s) >= 0.13 - 1e-7 && p1.getQ(s) <= 0.23 + 1e-7, "assemble() returned normally with the restricted q = " + S(p1.getQ(s)) + " outside its range [0.13,0.23] (it went back to the start without looking at the range)");
    }});
    c.directed.push_back({"assemble-start-evaluated-before-prescribe", "assemble-start-evaluated-before-prescribe", [](pbt::Ctx& ctx) {
        // pin 1 carries the markers and starts at the solution; pin 2 is prescribed to 0.3 sin(t + 0.5) but starts at 0
        MultibodySystem sys; SimbodyMatterSubsystem matter(sys); Body::Rigid body(MassProperties(1, Vec3(0), Inertia(1)));
        MobilizedBody::Pin p1(matter.Ground(), Transform(), body, Transform()); MobilizedBody::Pin p2(p1, Transform(Vec3(1, 0, 0)), body, Transform());
        Motion::Sinusoid(p2, Motion::Position, 0.3, 1.0, 0.5);
        State s = sys.realizeTopology(); sys.realizeModel(s);
        Assembler ik(sys); Markers* mk = new Markers(); mk->addMarker(p1, Vec3(0.5, 0, 0)); mk->addMarker(p1, Vec3(0, 0.5, 0)); ik.adoptAssemblyGoal(mk);
        ik.initialize(s); mk->moveOneObservation(Markers::ObservationIx(0), Vec3(0.5, 0, 0)); mk->moveOneObservation(Markers::ObservationIx(1), Vec3(0, 0.5, 0));
        ik.assemble(); ik.updateFromInternalState(s);
        const double want = 0.3 * std::sin(0.5);
        ctx.desc << "prescribed pin (0.3 sin(t+0.5)) starting at 0, goal and constraints already satisfied: assemble() returned q2=" << p2.getQ(s) << " (prescribed value " << want << ")\n";
        ctx.check(std::fabs(p2.getQ(s) - want) <= 1e-14, "assemble() returned normally but the prescribed coordinate is " + S(p2.getQ(s)) + " instead of its prescribed value " + S(want) + " (initial error/goal were evaluated, and found good enough, before prescribeQ)");
    }});
    c.directed.push_back({"euler-conversion-resets-lock-position", "euler-conversion-resets-lock-position", [](pbt::Ctx& ctx) {
        MultibodySystem sys; SimbodyMatterSubsystem matter(sys); Body::Rigid body(MassProperties(1, Vec3(0), Inertia(1)));
        MobilizedBody::Pin p1(matter.Ground(), Transform(), body, Transform()); MobilizedBody::Pin p2(p1, Transform(), body, Transform());
        Constraint::Rod rod(p1, Vec3(-0.3, 0.25, 0.4), p2, Vec3(0.75, 0.7, -0.1), 1.2469963913339925);
        State s = sys.realizeTopology(); sys.realizeModel(s);      // default modelling option: quaternions
        p1.setQ(s, -0.02); p2.setQ(s, 0.01); p1.lock(s); sys.realizeModel(s);
        Assembler ik(sys); ik.initialize(s); ik.assemble(); ik.updateFromInternalState(s);
        ctx.desc << "pin 1 locked with MobilizedBody::lock() at q=-0.02, rod to pin 2 needs assembling: after assemble() q1=" << p1.getQ(s) << "\n";
        ctx.check(p1.getQ(s) == -0.02, "mobilizer locked with MobilizedBody::lock() at q=-0.02 was moved to " + S(p1.getQ(s)) + " by Assembler::assemble() (convertToEulerAngles reset the recorded lock position to the default q)");
    }});
    c.directed.push_back({"euler-conversion-resets-u", "euler-conversion-resets-u", [](pbt::Ctx& ctx) {
        MultibodySystem sys; SimbodyMatterSubsystem matter(sys); GeneralForceSubsystem forces(sys); Force::UniformGravity(forces, matter, Vec3(0, -9.8, 0));
        Body::Rigid body(MassProperties(1, Vec3(0), Inertia(1))); MobilizedBody::Pin p1(matter.Ground(), Transform(), body, Transform(Vec3(0, 1, 0)));
        State s = sys.realizeTopology(); sys.realizeModel(s); p1.setQ(s, 0.4); p1.setU(s, 1.5);
        LocalEnergyMinimizer::minimizeEnergy(sys, s, 1e-6);
        ctx.desc << "pendulum, quaternion mode (default), u=1.5 before minimizeEnergy: u=" << p1.getU(s) << " after\n";
        ctx.check(p1.getU(s) == 1.5, "minimizeEnergy changed u from 1.5 to " + S(p1.getU(s)) + " (documented: only q changes; convertToEulerAngles/convertToQuaternions reset u)");
    }});
    c.directed.push_back({"lem-euler-mode-discards-start", "lem-euler-mode-discards-start", [](pbt::Ctx& ctx) {
        MultibodySystem sys; SimbodyMatterSubsystem matter(sys); GeneralForceSubsystem forces(sys); Force::UniformGravity(forces, matter, Vec3(0, -9.8, 0));
        Body::Rigid body(MassProperties(1, Vec3(0), Inertia(1))); MobilizedBody::Pin p1(matter.Ground(), Transform(), body, Transform(Vec3(0, 1, 0)));
        State s = sys.realizeTopology(); matter.setUseEulerAngles(s, true); sys.realizeModel(s); p1.setQ(s, 2 * Pi_ + 0.4);
        LocalEnergyMinimizer::minimizeEnergy(sys, s, 1e-6);
        ctx.desc << "pendulum (minima at q = 2 pi k), Euler-angle mode, start q = 2 pi + 0.4: minimizeEnergy returned q=" << p1.getQ(s) << "\n";
        ctx.check(std::fabs(p1.getQ(s) - 2 * Pi_) < 0.1, "minimizeEnergy started from the default configuration instead of the caller's: start q=2pi+0.4, nearest minimum 2pi, returned q=" + S(p1.getQ(s)));
    }});
    c.directed.push_back({"lem-mobility-force-gradient-sign", "lem-mobility-force-gradient-sign", [](pbt::Ctx& ctx) {
        MultibodySystem sys; SimbodyMatterSubsystem matter(sys); GeneralForceSubsystem forces(sys);
        Body::Rigid body(MassProperties(1, Vec3(0), Inertia(1))); MobilizedBody::Pin p1(matter.Ground(), Transform(), body, Transform(Vec3(0, 1, 0)));
        Force::MobilityLinearSpring(forces, p1, MobilizerQIndex(0), 2.0, 0.5);
        State s = sys.realizeTopology(); sys.realizeModel(s); p1.setQ(s, 0.1);
        try { LocalEnergyMinimizer::minimizeEnergy(sys, s, 1e-6); } catch (const std::exception& e) { ctx.desc << "exception: " << e.what() << "\n"; ctx.fail("minimizeEnergy cannot minimise 1/2 k (q-0.5)^2 of a single MobilityLinearSpring (gradient has the wrong sign for mobility forces): " + std::string(e.what()).substr(0, 200)); return; }
        ctx.desc << "pin with one MobilityLinearSpring (k=2, q0=0.5), start q=0.1: minimizeEnergy returned q=" << p1.getQ(s) << "\n";
        ctx.check(std::fabs(p1.getQ(s) - 0.5) < 1e-3, "minimizeEnergy returned q=" + S(p1.getQ(s)) + " for a single MobilityLinearSpring with minimum at q=0.5");
    }});
    for (const char* id : {"lem-constrained-energy-increase", "opf-fit-worse-than-start"}) {
        std::string sid = id;
        c.directed.push_back({sid, sid, [sid](pbt::Ctx& ctx) {
            pbt::Tape t; std::string path = pbt::verifDir() + "/replays/C43/known-" + sid + ".tape";
            if (!pbt::readTape(path, t)) { ctx.desc << "tape " << path << " not found\n"; return; }
            for (auto& sgm : t) sgm.resize(KK, 0u);
            ignoredKnown() = sid; try { property(t, ctx); } catch (...) { ignoredKnown().clear(); throw; } ignoredKnown().clear();
        }});
    }
    return c;
}
} // namespace

PBT_MAIN(config(), property)
