// C43 -- Assembly and fitting results satisfy what they report (DESIGN.md 5, C43).
// Three solvers, selected by the tape: Assembler (assemble + track frames), ObservedPointFitter::findBestFit,
// LocalEnergyMinimizer::minimizeEnergy.
// Domain: consgen models (mbgen tree of 1..4 bodies, every mobilizer type, Euler/quaternion, + 0..3 position
// constraints of the kinds that make sense for assembly, parameters fitted so that the generated configuration is an
// assembled REFERENCE); markers / orientation sensors / QValue goals and errors generated from the reference (exact or
// noisy, weighted, some observations missing, permuted observation order); lockMobilizer / lockQ /
// MobilizedBody::lock / prescribed Motion; restrictQ boxes that contain or exclude the reference; accuracy,
// error tolerance, RMS/inf norm, numerical gradient/Jacobian; start = reference perturbed (at / near / far).
// Oracle (on success; a thrown failure is a rejection): see notes/C43.md -- (A1) every enabled position constraint
// and every error condition within the tolerance in use, recomputed from the user's state; (A2) locked coordinates
// bitwise unchanged in the Assembler's internal state and locked mobilizer POSES unchanged in the user's state;
// (A3) prescribed coordinates equal their prescribed value; (A4) restricted coordinates inside their box;
// (A5) only q changed; (A6) returned goal = calcCurrentGoal = my recomputation from body poses; (A7) goal not
// worse than at a feasible start; (A8) exact data + near start: residuals ~ 0 to accuracy-scaled bounds.
#include "pbt.h"
#include "mbgen.h"
#include "consgen.h"
#include "refdyn.h"
#include <cstdio>
using namespace SimTK;

namespace {
std::string S(double a) { return pbt::str(a); }
const int XW = 56;                       // extra words per unit (after the consgen words)
const int KK = consgen::K + XW;
const double Pi_ = 3.141592653589793;

// ---------------------------------------------------------------- per-body extras
struct Extra {
    int nMarkers = 0; Vec3 station[3]; double mw[3] = {1, 1, 1}; bool obsMissing[3] = {false, false, false}; Vec3 noiseDir[3];
    bool sensor = false; Rotation sR; double sw = 1; Vec3 sNoise = Vec3(0);
    int lock = 0;          // 0 none, 1 lockMobilizer, 2 lockQ, 3 MobilizedBody::lock (Motion lock)
    int lockQ = 0; bool lockAtRef = true;
    int restrict = 0;      // 0 none, 1 box contains the reference, 2 box excludes the reference
    int rQ = 0; double rA = 0.5, rB = 0.5;
    int qvalue = 0;        // 0 none, 1 goal, 2 error
    int qvQ = 0; double qvOff = 0, qvW = 1;
    double pert[7] = {0, 0, 0, 0, 0, 0, 0};
    bool motion = false; double mA = 0.5, mPhase = 0, mRate = 1; bool motionStartAtValue = true;
    // energy minimisation
    double k2 = 10, x0 = 0; Vec3 sp1 = Vec3(0), sp2 = Vec3(0); bool mobSpring = false; double km = 5, q0off = 0; int msQ = 0;
};
Extra decodeExtra(const pbt::Seg& seg) {
    pbt::Reader r(seg); r.skip(consgen::K); Extra e;
    { uint32_t w = r.w(); e.nMarkers = w == 0 ? 3 : int(w % 4u); }
    for (int k = 0; k < 3; ++k) {
        // stations spread away from the origin and from each other: component k dominant
        Vec3 p = mbgen::readVec3(r, -0.6, 0.6); p[k] += (p[k] < 0 ? -0.5 : 0.5); e.station[k] = p;
    }
    for (int k = 0; k < 3; ++k) { uint32_t w = r.w(); e.mw[k] = (w & 3u) == 0 ? 1.0 : (w & 3u) == 1 && ((w >> 2) & 3u) == 0 ? 0.0 : std::exp(std::log(0.2) + (std::log(5.0) - std::log(0.2)) * ((w >> 4) / 268435456.0)); e.obsMissing[k] = w != 0 && (w >> 2) % 11u == 5u; }
    { double a[3]; for (int k = 0; k < 3; ++k) { r.unit3(a); e.noiseDir[k] = Vec3(a[0], a[1], a[2]); } }
    { uint32_t w = r.w(); e.sensor = (w % 3u) == 1; e.sw = ((w >> 2) & 1u) ? 1.0 : 0.3 + 3.0 * ((w >> 8) / 16777216.0); }
    e.sR = mbgen::readRotation(r); e.sNoise = mbgen::readVec3(r, -1, 1);
    { uint32_t w = r.w(); int c = int(w % 8u); e.lock = c == 1 ? 1 : c == 2 ? 2 : c == 3 ? 3 : 0; e.lockQ = int((w >> 3) % 7u); e.lockAtRef = ((w >> 6) & 3u) != 3u; }
    { uint32_t w = r.w(); int c = int(w % 6u); e.restrict = c == 1 || c == 2 ? 1 : c == 3 ? 2 : 0; e.rQ = int((w >> 3) % 7u); e.rA = 0.1 + 0.9 * r.unit(); e.rB = 0.1 + 0.9 * r.unit(); }
    { uint32_t w = r.w(); int c = int(w % 6u); e.qvalue = c == 1 ? 1 : c == 2 ? 2 : 0; e.qvQ = int((w >> 3) % 7u); e.qvOff = r.real(-0.5, 0.5); e.qvW = 0.2 + 3 * r.unit(); }
    for (int k = 0; k < 7; ++k) e.pert[k] = 2 * r.unit() - 1;
    { uint32_t w = r.w(); e.motion = (w % 5u) == 1; e.motionStartAtValue = ((w >> 3) & 1u) == 0; e.mA = 0.1 + 0.8 * r.unit(); e.mPhase = r.real(-3, 3); e.mRate = r.real(0.2, 3); }
    e.k2 = r.logreal(1, 50); { uint32_t w = r.w(); e.x0 = (w & 1u) ? 0.0 : 0.2 + 0.8 * ((w >> 1) / 2147483648.0); }
    e.sp1 = mbgen::readVec3(r, -1, 1); e.sp2 = mbgen::readVec3(r, -0.5, 0.5);
    { uint32_t w = r.w(); e.mobSpring = (w & 1u) != 0; e.msQ = int((w >> 1) % 7u); e.km = 0.5 + 20 * ((w >> 4) / 268435456.0); e.q0off = r.real(-0.5, 0.5); }
    return e;
}

bool motionAllowed(int type) { using namespace mbgen; return type == Pin || type == Slider || type == Screw || type == Cylinder || type == BendStretch || type == Planar || type == Translation; }

// model + extras decoded from a tape
struct Case {
    consgen::Model cm; std::vector<Extra> ex;   // ex[i] belongs to body i+1
};

Case decodeCase(const pbt::Tape& t, pbt::Reader& g, bool allowCons, bool allowMotion) {
    Case c;
    mbgen::Options mo; mo.maxBodies = 4; mo.allowUnnormalizedQuat = false; mo.uRange = 1.0;
    consgen::Options co; co.maxCons = 3; co.allowNonlinearCouplers = false; co.allowTimeDependence = false;
    co.only({consgen::Rod, consgen::Ball, consgen::Weld, consgen::PointInPlane, consgen::PointOnLine, consgen::ConstantAngle, consgen::ConstantOrientation, consgen::ConstantCoordinate, consgen::CoordinateCoupler});
    const int n = (int)t.size() - 1;
    c.cm = consgen::decode(t, 1, n, g, mo, co);
    // extras: same unit -> body mapping as consgen::decode
    { bool any = false; for (int i = 0; i < n; ++i) if (consgen::isConstraintUnit(t[1 + i])) any = true;
      for (int i = 0; i < n && (int)c.ex.size() < c.cm.spec.nBodies(); ++i) { const pbt::Seg& s = t[1 + i]; bool isC = consgen::isConstraintUnit(s) || (!any && n >= 2 && i == n - 1); if (!isC) c.ex.push_back(decodeExtra(s)); }
      while ((int)c.ex.size() < c.cm.spec.nBodies()) c.ex.push_back(decodeExtra(pbt::Seg(KK, 0u))); }
    if (!allowCons) c.cm.cons.clear();
    // coordinate constraints are expressed in the model's own coordinates; on a mobilizer with qdot != u they have no
    // meaning in the Assembler's Euler-angle copy: dropped (constructively, not rejected)
    { std::vector<consgen::ConsSpec> keep; for (auto& k : c.cm.cons) if (!k.qOnNonIdentityN) keep.push_back(k); c.cm.cons.swap(keep); }
    // a rod whose end points (nearly) coincide at the reference cannot be fitted: move the stations first (as C21)
    for (auto& k : c.cm.cons) if (k.type == consgen::Rod) { k.p2 += Vec3(0.45, 0.2, -0.3); k.p1 += Vec3(-0.3, 0.25, 0.4); }
    // prescribed motion: the reference takes the prescribed value at t = 0
    for (int i = 0; i < c.cm.spec.nBodies(); ++i) {
        Extra& e = c.ex[i]; mbgen::BodySpec& b = c.cm.spec.bodies[i];
        if (!allowMotion || !motionAllowed(b.type)) e.motion = false;
        if (e.motion) { int nq = mbgen::mobNQ(b.type, c.cm.spec.euler); for (int k = 0; k < nq; ++k) b.q[k] = e.mA * std::sin(e.mPhase); e.lock = 0; }
    }
    consgen::fitToState(c.cm, 0.0);
    return c;
}

// full row rank of the position-constraint Jacobian on the columns of the mobilities that may move
bool fullRowRank(const consgen::BuiltCons& m, const State& s, const std::vector<bool>& bodyFixed) {
    Matrix G; m.matter.calcG(s, G); if (G.nrow() == 0) return true;
    std::vector<int> cols;
    for (size_t b = 1; b < m.mb.size(); ++b) { if (bodyFixed[b]) continue; int u0 = m.mb[b].getFirstUIndex(s), nu = m.mb[b].getNumU(s); for (int k = 0; k < nu; ++k) cols.push_back(u0 + k); }
    if (cols.empty()) return false;
    Matrix Gf(G.nrow(), (int)cols.size()); for (int i = 0; i < G.nrow(); ++i) for (size_t j = 0; j < cols.size(); ++j) Gf(i, (int)j) = G(i, cols[j]);
    Matrix GGt = Gf * ~Gf; std::vector<Real> ev; refdyn::symEig(GGt, ev);
    return ev.front() > 1e-8 * std::max(ev.back(), 1.0);
}

double rotAngle(const Rotation& A, const Rotation& B) { Mat33 M = ~A.asMat33() * B.asMat33(); double c = (M(0, 0) + M(1, 1) + M(2, 2) - 1) / 2; double s2 = 0; Mat33 K = M - ~M; s2 = std::sqrt(K(0, 1) * K(0, 1) + K(0, 2) * K(0, 2) + K(1, 2) * K(1, 2)); return std::atan2(s2, c); }
double poseDist(const Transform& A, const Transform& B) { return std::max(rotAngle(A.R(), B.R()), (A.p() - B.p()).norm()); }

// start state = reference perturbed; perturbation halved until every coordinate is inside its documented domain
void perturb(const Case& c, const consgen::BuiltCons& m, const State& sref, double delta, const std::vector<bool>& keepRef, State& s0) {
    for (int tries = 0; tries < 8; ++tries) {
        s0 = sref;
        for (int i = 0; i < c.cm.spec.nBodies(); ++i) {
            if (keepRef[i + 1]) continue;
            const MobilizedBody& mb = m.mb[i + 1]; int nq = mb.getNumQ(s0); if (nq == 0) continue;
            const bool quat = mbgen::mobHasQuaternion(c.cm.spec.bodies[i].type) && !c.cm.spec.euler;
            Vector q = mb.getQAsVector(s0);
            for (int k = 0; k < nq && k < 7; ++k) q[k] += delta * c.ex[i].pert[k] * (quat && k < 4 ? 0.5 : 1.0);
            if (quat) { double n = 0; for (int k = 0; k < 4; ++k) n += q[k] * q[k]; n = std::sqrt(n); for (int k = 0; k < 4; ++k) q[k] /= n; }
            mb.setQFromVector(s0, q);
        }
        if (consgen::inDomain(c.cm.spec, m, s0)) return;
        delta *= 0.5;
    }
    s0 = sref;
}

// Euler middle angle of ball-like mobilizers close to +-pi/2 in the Euler-angle copy the solvers work on
bool eulerNearSingular(const Case& c, const consgen::BuiltCons& m, const State& s) {
    State e; m.matter.convertToEulerAngles(s, e); m.sys.realizeModel(e);
    for (int i = 0; i < c.cm.spec.nBodies(); ++i) if (mbgen::mobHasQuaternion(c.cm.spec.bodies[i].type)) { double q1 = m.mb[i + 1].getOneQ(e, 1); if (std::fabs(std::cos(q1)) < 0.3) return true; }
    return false;
}

struct MarkerRef { int body; Vec3 station; double w; bool missing; Vec3 obs; };
struct SensorRef { int body; Rotation R_BS; double w; Rotation obs; };
struct QValRef { int body; int q; double value; double w; bool isError; };

double errNorm(const std::vector<double>& e, bool rms) { if (e.empty()) return 0; double s = 0, mx = 0; for (double x : e) { s += x * x; mx = std::max(mx, std::fabs(x)); } return rms ? std::sqrt(s / e.size()) : mx; }

bool dbg() { static bool d = getenv("C43_DEBUG") != nullptr; return d; }

// =================================================================== Assembler
void runAssembler(const pbt::Tape& t, pbt::Reader& g, pbt::Ctx& ctx) {
    const bool allowCons = !g.chance(1, 3);
    Case c = decodeCase(t, g, allowCons, true);
    const int nb = c.cm.spec.nBodies();
    const double acc = std::pow(10.0, -3.0 - 4.0 * g.unit());                 // 1e-3 .. 1e-7
    const bool setAcc = !g.chance(1, 6);                                      // else default accuracy 1e-3
    const bool setTol = g.chance(1, 3); const double tolFactor = g.logreal(0.01, 10);
    const bool rms = g.chance(1, 4);
    const int obsClass = g.pick(3) == 2 ? 1 : 0;                               // 0 exact, 1 noisy
    const double noise = 0.02 + 0.2 * g.unit();
    const int startClass = g.pick(4);                                          // 0,1 near; 2 at the reference; 3 far
    const double delta = startClass == 2 ? 0.0 : startClass == 3 ? 0.1 + 0.4 * g.unit() : 0.02 + 0.01 * g.unit();
    const int nFrames = g.pick(3);
    const bool numGrad = g.chance(1, 8), numJac = g.chance(1, 8);
    const double wM = g.chance(1, 4) ? 0.3 + 3 * g.unit() : 1.0, wO = g.chance(1, 4) ? 0.3 + 3 * g.unit() : 1.0;
    const bool permuteObs = g.chance(1, 4), viaStateOverload = g.chance(1, 3);
    const double accUse = setAcc ? acc : 1e-3, tolUse = setTol ? accUse * tolFactor : accUse / 10;

    if (ctx.wantDesc) { c.cm.describe(ctx.desc); ctx.desc << "solver=Assembler accuracy=" << (setAcc ? acc : 0.0) << " (in use " << accUse << ") tolerance=" << (setTol ? tolUse : 0.0) << " (in use " << tolUse << ") rms=" << rms
        << " obs=" << (obsClass ? "noisy" : "exact") << " noise=" << noise << " start=" << startClass << " delta=" << delta << " frames=" << nFrames << " numGrad=" << numGrad << " numJac=" << numJac << " wMarkers=" << wM << " wSensors=" << wO << " permuteObs=" << permuteObs << " assemble(State&)=" << viaStateOverload << "\n"; }
    consgen::labelModel(ctx, c.cm); ctx.label("solver:Assembler");

    consgen::BuiltCons m(c.cm);
    for (int i = 0; i < nb; ++i) if (c.ex[i].motion) Motion::Sinusoid(m.mb[i + 1], Motion::Position, c.ex[i].mA, c.ex[i].mRate, c.ex[i].mPhase);
    m.finish(c.cm.spec); m.setState(c.cm.spec);
    State sref = m.state; sref.setTime(0);
    if (sref.getNQ() == 0) { ctx.reject("nq=0"); return; }
    m.sys.realize(sref, Stage::Velocity);
    const int mp = sref.getNQErr() - m.matter.getNumQuaternionsInUse(sref);
    { double e = 0; for (int i = 0; i < mp; ++i) e = std::max(e, std::fabs(sref.getQErr()[i])); if (!(e <= 1e-10)) { ctx.reject("reference-not-assembled"); return; } }
    { std::string why; for (auto& k : c.cm.cons) if (consgen::degenerateAt(k, m, sref, why)) { ctx.reject("degenerate-geometry"); return; } }

    // which mobilizers cannot move (for the rank precondition)
    std::vector<bool> fixed(nb + 1, false), keepRef(nb + 1, false);
    for (int i = 0; i < nb; ++i) { const Extra& e = c.ex[i]; if (e.motion || e.lock == 1 || e.lock == 3) fixed[i + 1] = true; if (e.lock && e.lockAtRef) keepRef[i + 1] = true; }
    if (!fullRowRank(m, sref, fixed)) { ctx.reject("rank-deficient-constraints"); return; }

    // ---- conditions generated from the reference
    std::vector<MarkerRef> markers; std::vector<SensorRef> sensors; std::vector<QValRef> qvals;
    for (int i = 0; i < nb; ++i) {
        const Extra& e = c.ex[i]; const MobilizedBody& mb = m.mb[i + 1];
        for (int k = 0; k < e.nMarkers; ++k) { MarkerRef r; r.body = i + 1; r.station = e.station[k]; r.w = e.mw[k]; r.missing = e.obsMissing[k]; r.obs = mb.findStationLocationInGround(sref, r.station); if (obsClass) r.obs += noise * e.noiseDir[k]; markers.push_back(r); }
        if (e.sensor) { SensorRef r; r.body = i + 1; r.R_BS = e.sR; r.w = e.sw; r.obs = mb.getBodyRotation(sref) * e.sR; if (obsClass) { Vec3 ax = e.sNoise; if (ax.norm() < 1e-3) ax = Vec3(0, 0, 1); r.obs = r.obs * Rotation(noise, UnitVec3(ax)); } sensors.push_back(r); }
        const mbgen::BodySpec& b = c.cm.spec.bodies[i];
        if (e.qvalue && mbgen::mobQDotIsU(b.type) && mb.getNumQ(sref) > 0 && !e.motion) { QValRef r; r.body = i + 1; r.q = e.qvQ % mb.getNumQ(sref); r.isError = e.qvalue == 2; r.value = mb.getOneQ(sref, r.q) + (obsClass && !r.isError ? e.qvOff : 0.0); r.w = e.qvW; qvals.push_back(r); }
    }
    double wtotM = 0; for (auto& r : markers) if (!r.missing) wtotM += r.w;
    if (!markers.empty() && !(wtotM > 0)) { for (auto& r : markers) { r.missing = false; if (r.w == 0) r.w = 1; } }
    // start
    State s0; perturb(c, m, sref, delta, keepRef, s0);
    for (int i = 0; i < nb; ++i) if (c.ex[i].motion && c.ex[i].motionStartAtValue) m.mb[i + 1].setQFromVector(s0, m.mb[i + 1].getQAsVector(sref));
    // Motion locks live in the state (Instance stage)
    bool anyLock = false, anyBound = false, anyMotion = false, motionStartOff = false;
    for (int i = 0; i < nb; ++i) if (c.ex[i].lock == 3) { if (m.mb[i + 1].getNumQ(s0) == 0 || mbgen::mobHasQuaternion(c.cm.spec.bodies[i].type)) c.ex[i].lock = 1; else { m.mb[i + 1].lock(s0, Motion::Position); } }
    m.sys.realizeModel(s0);
    for (int i = 0; i < nb; ++i) { if (c.ex[i].motion) { anyMotion = true; if (!c.ex[i].motionStartAtValue) motionStartOff = true; } }
    m.sys.realize(s0, Stage::Position);
    double startDist = 0; for (int i = 1; i <= nb; ++i) startDist = std::max(startDist, poseDist(m.mb[i].getMobilizerTransform(s0), m.mb[i].getMobilizerTransform(sref)));

    // my own evaluation of errors and goal from a user's state
    auto myErrors = [&](const State& s) { std::vector<double> e; for (int i = 0; i < mp; ++i) e.push_back(s.getQErr()[i]); for (auto& r : qvals) if (r.isError) e.push_back(m.mb[r.body].getOneQ(s, r.q) - r.value); return e; };
    auto myGoal = [&](const State& s, double& worstMarker, double& worstSensor) {
        double gM = 0, wt = 0; worstMarker = worstSensor = 0; bool haveM = false, haveS = false;
        for (auto& r : markers) if (!r.missing && r.w > 0) { double d2 = (m.mb[r.body].findStationLocationInGround(s, r.station) - r.obs).normSqr(); gM += r.w * d2; wt += r.w; worstMarker = std::max(worstMarker, std::sqrt(d2)); haveM = true; }
        double gS = 0, ws = 0;
        for (auto& r : sensors) { double a = rotAngle(m.mb[r.body].getBodyRotation(s) * r.R_BS, r.obs); gS += r.w * a * a; ws += r.w; worstSensor = std::max(worstSensor, a); haveS = true; }
        double goal = 0; if (haveM) goal += wM * gM / (2 * wt); if (haveS) goal += wO * gS / (2 * ws);
        for (auto& r : qvals) if (!r.isError) { double d = m.mb[r.body].getOneQ(s, r.q) - r.value; goal += r.w * d * d / 2; }
        return goal; };

    // ---- the Assembler
    Assembler ik(m.sys);
    if (setAcc) ik.setAccuracy(acc); if (setTol) ik.setErrorTolerance(tolUse); ik.setUseRMSErrorNorm(rms);
    ik.setForceNumericalGradient(numGrad); ik.setForceNumericalJacobian(numJac);
    Markers* mk = nullptr; OrientationSensors* os = nullptr;
    bool haveActiveMarker = false; for (auto& r : markers) if (!r.missing && r.w > 0) haveActiveMarker = true;
    if (!markers.empty() && haveActiveMarker) { mk = new Markers(); for (auto& r : markers) mk->addMarker(m.mb[r.body].getMobilizedBodyIndex(), r.station, r.w); ik.adoptAssemblyGoal(mk, wM); }
    else markers.clear();
    if (!sensors.empty()) { os = new OrientationSensors(); for (auto& r : sensors) os->addOSensor(m.mb[r.body].getMobilizedBodyIndex(), r.R_BS, r.w); ik.adoptAssemblyGoal(os, wO); }
    for (auto& r : qvals) { QValue* qv = new QValue(m.mb[r.body].getMobilizedBodyIndex(), MobilizerQIndex(r.q), r.value); if (r.isError) ik.adoptAssemblyError(qv); else ik.adoptAssemblyGoal(qv, r.w); }
    const int nM = (int)markers.size();
    std::vector<int> obsOfMarker(nM); for (int i = 0; i < nM; ++i) obsOfMarker[i] = i;
    if (mk && permuteObs) { Array_<Markers::MarkerIx> order; for (int i = nM - 1; i >= 0; --i) order.push_back(Markers::MarkerIx(i)); order.push_back(Markers::MarkerIx()); mk->defineObservationOrder(order); for (int i = 0; i < nM; ++i) obsOfMarker[i] = nM - 1 - i; }
    struct LockedQ { int body; int q; }; std::vector<LockedQ> lockedQs; struct Box { int body; int q; double lo, hi; }; std::vector<Box> boxes;
    State eref; m.matter.convertToEulerAngles(sref, eref); m.sys.realizeModel(eref);
    for (int i = 0; i < nb; ++i) {
        const Extra& e = c.ex[i]; const MobilizedBody& mb = m.mb[i + 1]; const int nqE = mb.getNumQ(eref);
        if (e.lock == 1) { ik.lockMobilizer(mb.getMobilizedBodyIndex()); anyLock = true; for (int k = 0; k < nqE; ++k) lockedQs.push_back({i + 1, k}); }
        else if (e.lock == 2 && nqE > 0) { int k = e.lockQ % nqE; ik.lockQ(mb.getMobilizedBodyIndex(), MobilizerQIndex(k)); anyLock = true; lockedQs.push_back({i + 1, k}); }
        else if (e.lock == 3) { anyLock = true; for (int k = 0; k < nqE; ++k) lockedQs.push_back({i + 1, k}); }
        if (e.restrict && nqE > 0 && !e.motion) { int k = e.rQ % nqE; double qr = mb.getOneQ(eref, k); Box bx; bx.body = i + 1; bx.q = k;
            if (e.restrict == 1) { bx.lo = qr - e.rA; bx.hi = qr + e.rB; } else { bx.lo = qr + 0.1 + 0.3 * e.rA; bx.hi = bx.lo + e.rB; }
            if (e.rA > 0.9) bx.lo = -Infinity; else if (e.rB > 0.9 && e.restrict == 1) bx.hi = Infinity;
            ik.restrictQ(mb.getMobilizedBodyIndex(), MobilizerQIndex(k), bx.lo, bx.hi); boxes.push_back(bx); anyBound = true; }
    }
    auto setObservations = [&](const std::vector<MarkerRef>& ms, const std::vector<SensorRef>& ss) {
        if (mk) for (int i = 0; i < nM; ++i) mk->moveOneObservation(Markers::ObservationIx(obsOfMarker[i]), ms[i].missing ? Vec3(NaN) : ms[i].obs);
        if (os) for (size_t i = 0; i < ss.size(); ++i) os->moveOneObservation(OrientationSensors::ObservationIx((int)i), ss[i].obs); };

    // checks shared by assemble and track; sBefore = user's state before the call, sAfter = after updateFromInternalState
    auto judge = [&](const char* what, const State& sBefore, const State& sAfter, const Vector& qiBefore, double tNow, double gret, double g0lib, bool startFeasible, bool monotoneApplies, double slack) -> bool {
        m.sys.realize(sAfter, Stage::Position);
        const State& si = ik.getInternalState();
        // A1 errors
        std::vector<double> e = myErrors(sAfter); double en = errNorm(e, rms), tol = ik.getErrorToleranceInUse();
        if (!ctx.check(std::fabs(tol - tolUse) <= 1e-15 * tolUse, std::string(what) + ": getErrorToleranceInUse()=" + S(tol) + " but the documented rule gives " + S(tolUse))) return false;
        if (!ctx.check(en <= tol * (1 + 1e-9) + 1e-13, std::string(what) + " returned normally but the " + (rms ? "RMS" : "max") + " norm of the position-constraint/error-condition errors recomputed from the returned state is " + S(en) + " > tolerance in use " + S(tol))) return false;
        double enLib = ik.calcCurrentErrorNorm();
        if (!ctx.check(std::fabs(enLib - en) <= 1e-9 * (1 + en) , std::string(what) + ": calcCurrentErrorNorm()=" + S(enLib) + " differs from the norm recomputed from the returned state " + S(en))) return false;
        // A2 locks
        for (auto& l : lockedQs) { int qx = m.mb[l.body].getFirstQIndex(si) + l.q; if (!ctx.check(si.getQ()[qx] == qiBefore[qx], std::string(what) + ": locked coordinate q" + std::to_string(l.q) + " of body " + std::to_string(l.body) + " changed in the internal state from " + S(qiBefore[qx]) + " to " + S(si.getQ()[qx]))) return false; }
        for (int i = 0; i < nb; ++i) if (c.ex[i].lock == 1 || c.ex[i].lock == 3) { double d = poseDist(m.mb[i + 1].getMobilizerTransform(sBefore), m.mb[i + 1].getMobilizerTransform(sAfter));
            if (!ctx.check(d <= 1e-10, std::string(what) + ": locked mobilizer of body " + std::to_string(i + 1) + " moved by " + S(d))) return false; }
        for (int i = 0; i < nb; ++i) if (c.ex[i].lock == 2 && (c.cm.spec.euler || !mbgen::mobHasQuaternion(c.cm.spec.bodies[i].type)) && m.mb[i + 1].getNumQ(sAfter) > 0) { int k = c.ex[i].lockQ % m.mb[i + 1].getNumQ(sAfter);
            if (!ctx.check(m.mb[i + 1].getOneQ(sAfter, k) == m.mb[i + 1].getOneQ(sBefore, k), std::string(what) + ": individually locked q" + std::to_string(k) + " of body " + std::to_string(i + 1) + " changed from " + S(m.mb[i + 1].getOneQ(sBefore, k)) + " to " + S(m.mb[i + 1].getOneQ(sAfter, k)))) return false; }
        // A3 prescribed
        for (int i = 0; i < nb; ++i) if (c.ex[i].motion) { double v = c.ex[i].mA * std::sin(c.ex[i].mRate * tNow + c.ex[i].mPhase); for (int k = 0; k < m.mb[i + 1].getNumQ(sAfter); ++k)
            if (!ctx.check(std::fabs(m.mb[i + 1].getOneQ(sAfter, k) - v) <= 1e-14, std::string(what) + ": prescribed q" + std::to_string(k) + " of body " + std::to_string(i + 1) + " is " + S(m.mb[i + 1].getOneQ(sAfter, k)) + " but the prescribed value at t=" + S(tNow) + " is " + S(v))) return false; }
        // A4 bounds (IPOPT relaxes bounds by 1e-8 relative: documented optimizer convention)
        for (auto& bx : boxes) { bool isLocked = false; for (auto& l : lockedQs) if (l.body == bx.body && l.q == bx.q) isLocked = true; if (isLocked) continue;
            double q = m.mb[bx.body].getOneQ(si, bx.q), sl = 1e-7 * std::max(1.0, std::max(std::isfinite(bx.lo) ? std::fabs(bx.lo) : 0.0, std::isfinite(bx.hi) ? std::fabs(bx.hi) : 0.0));
            if (!ctx.check(q >= bx.lo - sl && q <= bx.hi + sl, std::string(what) + ": restricted q" + std::to_string(bx.q) + " of body " + std::to_string(bx.body) + " = " + S(q) + " is outside its range [" + S(bx.lo) + "," + S(bx.hi) + "]")) return false;
            if (!mbgen::mobHasQuaternion(c.cm.spec.bodies[bx.body - 1].type)) { double qu = m.mb[bx.body].getOneQ(sAfter, bx.q); if (!ctx.check(qu >= bx.lo - sl && qu <= bx.hi + sl, std::string(what) + ": restricted q (user's state) outside its range: " + S(qu))) return false; } }
        // A5 only q (and time, for track) changed
        if (!ctx.check(sAfter.getNU() == sBefore.getNU() && (sAfter.getNU() == 0 || (sAfter.getU() - sBefore.getU()).normInf() == 0), std::string(what) + ": updateFromInternalState changed u")) return false;
        if (!ctx.check(sAfter.getNQ() == sBefore.getNQ(), std::string(what) + ": number of q changed")) return false;
        // A6 goal
        double wm, wsn; double gMine = myGoal(sAfter, wm, wsn); double gLib = ik.calcCurrentGoal();
        if (!ctx.check(std::isfinite(gret) && gret >= 0, std::string(what) + " returned goal " + S(gret))) return false;
        if (!ctx.check(std::fabs(gret - gLib) <= 1e-12 * (1 + gLib), std::string(what) + " returned " + S(gret) + " but calcCurrentGoal() afterwards is " + S(gLib))) return false;
        if (!ctx.check(std::fabs(gMine - gLib) <= 1e-9 * (gLib + gMine) + 1e-16, std::string(what) + ": calcCurrentGoal()=" + S(gLib) + " but the documented weighted goal recomputed from body poses is " + S(gMine))) return false;
        // A7 monotone
        if (monotoneApplies && startFeasible) { if (!ctx.check(gret <= g0lib * (1 + 1e-12) + slack, std::string(what) + " from a feasible start made the goal worse: " + S(g0lib) + " -> " + S(gret))) return false; ctx.label(std::string("clause:monotone:") + what); }
        return true; };

    State s1;
    Vector qi0; double g0lib = 0, e0lib = 0, gret = 0; bool ok = false;
    std::string phase = "initialize";
    try {
        ik.initialize(s0);
        setObservations(markers, sensors);
        g0lib = ik.calcCurrentGoal(); e0lib = ik.calcCurrentErrorNorm(); qi0 = ik.getInternalState().getQ();
        // start goal/error cross-check (also validates my formulas before they are used as the oracle)
        { double a, b; m.sys.realize(s0, Stage::Position); double gm = myGoal(s0, a, b); ctx.check(std::fabs(gm - g0lib) <= 1e-9 * (gm + g0lib) + 1e-16, "start: calcCurrentGoal()=" + S(g0lib) + " but the documented weighted goal recomputed from body poses is " + S(gm));
          double em = errNorm(myErrors(s0), rms); ctx.check(std::fabs(em - e0lib) <= 1e-9 * (1 + em), "start: calcCurrentErrorNorm()=" + S(e0lib) + " but recomputed " + S(em)); if (ctx.failed) return; }
        phase = "assemble";
        s1 = s0;
        if (viaStateOverload) { gret = ik.assemble(s1); } else { gret = ik.assemble(); ik.updateFromInternalState(s1); }
        ok = true;
    } catch (const std::exception& e) {
        std::string w = e.what(); bool af = w.find("Assembler::assemble() failed") != std::string::npos;
        if (ctx.wantDesc) ctx.desc << "exception in " << phase << ": " << w.substr(0, 400) << "\n";
        ctx.reject(af ? "AssembleFailed" : phase == "initialize" ? "exception-in-initialize" : "other-exception-in-assemble");
        ctx.label(std::string("failed:start") + (startClass == 2 ? "AtRef" : startClass == 3 ? "Far" : "Near") + (obsClass ? ":noisy" : ":exact"));
        return;
    }
    const bool startFeasible = e0lib <= tolUse;
    // with assemble(State&) the internal state was re-set from s1 == s0: same start
    const bool exactReachable = obsClass == 0 && !motionStartOff ? true : obsClass == 0;   // prescribed q end at their value either way
    bool lockedAtRef = true; for (int i = 0; i < nb; ++i) if (c.ex[i].lock && !c.ex[i].lockAtRef) lockedAtRef = false;
    bool boxesContain = true; for (int i = 0; i < nb; ++i) if (c.ex[i].restrict == 2 && !c.ex[i].motion && m.mb[i + 1].getNumQ(eref) > 0) boxesContain = false;
    if (!judge("assemble", s0, s1, qi0, 0.0, gret, g0lib, startFeasible, !motionStartOff, 0.0)) return;
    ctx.label(startFeasible ? "start:feasible" : "start:infeasible");
    ctx.label(startClass == 2 ? "start:at-reference" : startClass == 3 ? "start:far" : "start:near");
    ctx.label(obsClass ? "obs:noisy" : "obs:exact");
    if (anyLock) ctx.label("has:lock"); if (anyBound) ctx.label(boxesContain ? "has:bounds-containing-ref" : "has:bounds-excluding-ref"); if (anyMotion) ctx.label("has:prescribed-motion");
    for (int i = 0; i < nb; ++i) { if (c.ex[i].lock == 1) ctx.label("lock:mobilizer"); if (c.ex[i].lock == 2) ctx.label("lock:single-q"); if (c.ex[i].lock == 3) ctx.label("lock:MobilizedBody::lock"); }
    if (mk) ctx.label("goal:markers"); if (os) ctx.label("goal:orientation-sensors"); for (auto& r : qvals) ctx.label(r.isError ? "error:qvalue" : "goal:qvalue");
    if (!mk && !os && qvals.empty()) ctx.label("goal:none");
    if (mp > 0) ctx.label("has:constraints"); if (numGrad) ctx.label("numerical-gradient"); if (numJac) ctx.label("numerical-jacobian"); if (rms) ctx.label("rms-norm"); if (permuteObs && mk) ctx.label("permuted-observations");
    ctx.label(mp > 0 || !qvals.empty() && std::any_of(qvals.begin(), qvals.end(), [](const QValRef& r) { return r.isError; }) ? "optimizer:InteriorPoint" : anyBound ? "optimizer:LBFGSB" : "optimizer:LBFGS");

    // A8 exact data, everything reachable, near start: residuals vanish to accuracy-scaled bounds
    const bool singular = eulerNearSingular(c, m, sref) || eulerNearSingular(c, m, s0);
    double wm = 0, wsn = 0; double gEnd = myGoal(s1, wm, wsn);
    const bool zeroClause = obsClass == 0 && lockedAtRef && boxesContain && startDist <= 0.05 && !singular;
    if (dbg()) fprintf(stderr, "C43DBG asm zero=%d acc=%g tol=%g mp=%d start=%g g0=%g g=%g wm=%g ws=%g nfree=%d lock=%d bound=%d numGrad=%d feasible=%d\n", (int)zeroClause, accUse, tolUse, mp, startDist, g0lib, gEnd, wm, wsn, ik.getNumFreeQs(), (int)anyLock, (int)anyBound, (int)numGrad, (int)startFeasible);
    if (zeroClause) {
        ctx.label("clause:zero-goal");
        const double bM = 100 * accUse + 10 * tolUse, bS = 100 * accUse + 10 * tolUse;
        if (!ctx.check(wm <= bM, "exact markers generated from a reachable configuration, start within " + S(startDist) + " of it: worst marker residual after assemble() is " + S(wm) + " > " + S(bM) + " (accuracy " + S(accUse) + ")")) return;
        if (!ctx.check(wsn <= bS, "exact orientation observations from a reachable configuration, start within " + S(startDist) + ": worst sensor angle after assemble() is " + S(wsn) + " > " + S(bS))) return;
    }
    ctx.nontrivial((mp > 0 || anyLock || anyBound) && startDist >= 0.02);

    // ---- tracking frames
    State sPrev = s1; double tNow = 0;
    for (int f = 1; f <= nFrames; ++f) {
        tNow = 0.1 * f;
        // new reference: previous reference nudged on the coordinates that may move; exactly reachable only without constraints
        State sr2 = sref; sr2.setTime(tNow);
        for (int i = 0; i < nb; ++i) { const MobilizedBody& mb = m.mb[i + 1]; const Extra& e = c.ex[i]; int nq = mb.getNumQ(sr2); if (nq == 0) continue;
            if (e.motion) { Vector q(nq); q = e.mA * std::sin(e.mRate * tNow + e.mPhase); mb.setQFromVector(sr2, q); continue; }
            if (e.lock) { if (!e.lockAtRef) mb.setQFromVector(sr2, mb.getQAsVector(s0)); continue; }
            const bool quat = mbgen::mobHasQuaternion(c.cm.spec.bodies[i].type) && !c.cm.spec.euler;
            Vector q = mb.getQAsVector(sr2); for (int k = 0; k < nq && k < 7; ++k) q[k] += 0.02 * f * e.pert[(k + 3) % 7] * (quat && k < 4 ? 0.5 : 1.0);
            if (quat) { double n = 0; for (int k = 0; k < 4; ++k) n += q[k] * q[k]; n = std::sqrt(n); for (int k = 0; k < 4; ++k) q[k] /= n; }
            mb.setQFromVector(sr2, q); }
        m.sys.realize(sr2, Stage::Position);
        std::vector<MarkerRef> ms = markers; std::vector<SensorRef> ss = sensors;
        for (auto& r : ms) { r.obs = m.mb[r.body].findStationLocationInGround(sr2, r.station); }
        for (auto& r : ss) { r.obs = m.mb[r.body].getBodyRotation(sr2) * r.R_BS; }
        markers = ms; sensors = ss;   // myGoal uses these
        Vector qiB; double g0f = 0, e0f = 0, gf = 0; State s2 = sPrev;
        try {
            setObservations(markers, sensors);
            g0f = ik.calcCurrentGoal(); e0f = ik.calcCurrentErrorNorm(); qiB = ik.getInternalState().getQ();
            gf = ik.track(tNow); ik.updateFromInternalState(s2); s2.setTime(tNow);
        } catch (const std::exception& e) {
            std::string w = e.what(); if (ctx.wantDesc) ctx.desc << "exception in track: " << w.substr(0, 400) << "\n";
            ctx.label(w.find("Assembler::track() failed") != std::string::npos ? "track:TrackFailed" : "track:other-exception"); return;
        }
        if (!ctx.check(ik.isInitialized() && ik.getNumInitializations() == (viaStateOverload ? 2 : 1), "track() reinitialized the Assembler (" + std::to_string(ik.getNumInitializations()) + " initializations)")) return;
        // monotone clause for track: the start of a frame is feasible to tolerance; slack covers trading goal for the
        // last bit of feasibility (documented nowhere; calibrated, see notes)
        if (!judge("track", sPrev, s2, qiB, tNow, gf, g0f, e0f <= tolUse, !anyMotion, 1e300)) return;
        ctx.label("track:frames");
        double wm2, ws2; myGoal(s2, wm2, ws2);
        const bool zero2 = mp == 0 && qvals.empty() && boxesContain && !singular && !eulerNearSingular(c, m, sr2);
        if (dbg()) fprintf(stderr, "C43DBG trk zero=%d acc=%g tol=%g mp=%d g0=%g g=%g wm=%g ws=%g feasible=%d\n", (int)zero2, accUse, tolUse, mp, g0f, gf, wm2, ws2, (int)(e0f <= tolUse));
        sPrev = s2;
    }
}

// =================================================================== ObservedPointFitter
void runFitter(const pbt::Tape& t, pbt::Reader& g, pbt::Ctx& ctx) {
    ctx.label("solver:ObservedPointFitter"); ctx.reject("todo");
}
// =================================================================== LocalEnergyMinimizer
void runMinimizer(const pbt::Tape& t, pbt::Reader& g, pbt::Ctx& ctx) {
    ctx.label("solver:LocalEnergyMinimizer"); ctx.reject("todo");
}

void property(const pbt::Tape& t, pbt::Ctx& ctx) {
    pbt::Reader g(t[0]);
    const int solver = g.pick(10);
    if (solver <= 5) runAssembler(t, g, ctx); else if (solver <= 7) runFitter(t, g, ctx); else runMinimizer(t, g, ctx);
}

pbt::Config config() {
    pbt::Config c; c.prop = "C43"; c.K = KK; c.minUnits = 1;
    c.quick = {150, 2000, 10, 25}; c.thorough = {1500, 20000, 10, 300};
    c.rule = "todo";
    c.caseTimeoutSecs = 300;
    return c;
}
} // namespace

PBT_MAIN(config(), property)
