// C01 -- Mass-matrix operators agree; M symmetric positive definite; KE = 1/2 u'Mu (DESIGN.md 5, C01).
// Domain: mbgen trees (1..8 bodies, all 18 mobilizer types incl. reversed, three inboard x two outboard
// frame kinds, quaternion/Euler, unnormalised quaternions), states in the non-singular domains.
// Oracle: (D) calcM == columns of multiplyByM(e_i) == M_ref; calcMInv == columns of multiplyByMInv(e_i);
// M*MInv = I = MInv*M; multiplyByMInv(multiplyByM(v)) = v; symmetry; my own Cholesky has positive pivots;
// (R) M_ref = sum_b J_b' SI_b J_b from REPORTED body velocities and mass properties (refdyn.h);
// KE: calcKineticEnergy == 1/2 u'Mu == 1/2 sum V_b' SI_b V_b; M unchanged when only u changes.
#include "pbt.h"
#include "mbgen.h"
#include "refdyn.h"
using namespace SimTK;

namespace {

struct Rng { uint64_t s; double next() { s += 0x9E3779B97F4A7C15ull; uint64_t z = s; z = (z ^ (z >> 30)) * 0xBF58476D1CE4E5B9ull; z = (z ^ (z >> 27)) * 0x94D049BB133111EBull; z ^= z >> 31; return (z >> 11) / 9007199254740992.0 * 2 - 1; } };

std::string rel(double a) { return pbt::str(a); }

void property(const pbt::Tape& t, pbt::Ctx& ctx) {
    pbt::Reader g(t[0]);
    mbgen::Options opt; opt.maxBodies = 8; opt.allowUnnormalizedQuat = true;
    mbgen::ModelSpec spec = mbgen::decodeModel(t, 1, (int)t.size() - 1, g, opt);
    Rng rng{(uint64_t)g.w() * 0x100000001ull + 12345};
    int vecKind = g.pick(4);    // 0 random, 1 unit vector, 2 zero, 3 random
    if (ctx.wantDesc) spec.describe(ctx.desc);
    mbgen::labelModel(ctx, spec);

    mbgen::Built m(spec); m.finish(spec); m.setState(spec);
    State& s = m.state; const SimbodyMatterSubsystem& matter = m.matter;
    const int nu = s.getNU();
    if (nu == 0) { ctx.reject("nu=0"); return; }
    m.sys.realize(s, Stage::Velocity);

    // ---- reference (independent): J from reported velocities, spatial inertias from mass properties
    auto J = refdyn::referenceJacobian(m.sys, matter, s);
    auto si = refdyn::bodyInertias(matter, s);
    Matrix Mref = refdyn::referenceM(J, si);
    std::vector<Real> ev; refdyn::symEig(Mref, ev);
    const Real lmin = ev.front(), lmax = ev.back();
    if (!(lmin > 0) || !(lmax / lmin < 1e10)) { ctx.reject("ill-conditioned-reference"); if (ctx.wantDesc) ctx.desc << "kappa(M_ref)=" << lmax / lmin << "\n"; return; }
    const Real kappa = lmax / lmin, Mscale = lmax;
    const Real eps = 2.220446049250313e-16;
    const Real tolM = 1e4 * eps * nu * Mscale;                   // forward quantities (probe A: observed 9e-16 relative)
    const Real tolInv = 1e4 * eps * nu * kappa;                  // relative, for anything involving the inverse
    ctx.label(kappa < 1e2 ? "kappa<1e2" : kappa < 1e4 ? "kappa<1e4" : kappa < 1e6 ? "kappa<1e6" : "kappa>=1e6");

    bool special = spec.euler;
    for (auto& b : spec.bodies) if (b.reversed || b.type == mbgen::Screw || b.type == mbgen::SphericalCoords || b.type == mbgen::Ellipsoid || b.type == mbgen::CantileverFreeBeam
                                    || b.type == mbgen::LineOrientation || b.type == mbgen::FreeLine || b.type == mbgen::BendStretch || b.type == mbgen::Bushing || b.inKind != 2 || b.outKind != 1) special = true;
    ctx.nontrivial(nu >= 2 && special);

    // ---- library routes
    Matrix M; matter.calcM(s, M);
    if (!ctx.check(M.nrow() == nu && M.ncol() == nu, "calcM has wrong shape")) return;
    Matrix Mop(nu, nu), MInvOp(nu, nu);
    for (int i = 0; i < nu; ++i) {
        Vector e(nu); e = 0; e[i] = 1; Vector col;
        matter.multiplyByM(s, e, col); if (!ctx.check(col.size() == nu, "multiplyByM result has wrong size")) return; Mop(i) = col;
        Vector col2; matter.multiplyByMInv(s, e, col2); if (!ctx.check(col2.size() == nu, "multiplyByMInv result has wrong size")) return; MInvOp(i) = col2;
    }
    Matrix MInv; matter.calcMInv(s, MInv);
    if (!ctx.check(MInv.nrow() == nu && MInv.ncol() == nu, "calcMInv has wrong shape")) return;

    auto cmp = [&](const Matrix& A, const Matrix& B, Real tol, const char* what) {
        for (int i = 0; i < nu; ++i) for (int j = 0; j < nu; ++j) {
            Real d = std::abs(A(i, j) - B(i, j));
            if (!(d <= tol)) { ctx.fail(std::string(what) + ": element (" + std::to_string(i) + "," + std::to_string(j) + ") " + rel(A(i, j)) + " vs " + rel(B(i, j)) + " diff " + rel(d) + " > tol " + rel(tol)); return false; }
        }
        return true;
    };
    if (!cmp(M, Mref, tolM, "calcM vs reference sum_b J'(SI)J")) return;
    if (!cmp(M, Mop, tolM, "calcM vs columns of multiplyByM")) return;
    if (!cmp(M, Matrix(~M), tolM, "M not symmetric")) return;
    const Real invScale = 1 / lmin;
    if (!cmp(MInv, MInvOp, tolInv * invScale, "calcMInv vs columns of multiplyByMInv")) return;
    if (!cmp(MInv, Matrix(~MInv), tolInv * invScale, "MInv not symmetric")) return;
    {   // exact inverse, both orders; also against the reference M
        Matrix I1 = M * MInv, I2 = MInv * M, I3 = Mref * MInvOp, Id(nu, nu); Id = 0; for (int i = 0; i < nu; ++i) Id(i, i) = 1;
        if (!cmp(I1, Id, tolInv, "M*MInv != I")) return;
        if (!cmp(I2, Id, tolInv, "MInv*M != I")) return;
        if (!cmp(I3, Id, tolInv, "M_ref*MInv(operator) != I")) return;
    }
    {   // positive definite: Cholesky (mine) of calcM
        Matrix L(nu, nu); L = 0; bool ok = true; Real minPiv = Infinity;
        for (int j = 0; j < nu && ok; ++j) {
            Real d = M(j, j); for (int k = 0; k < j; ++k) d -= L(j, k) * L(j, k);
            minPiv = std::min(minPiv, d); if (!(d > 0)) { ok = false; break; }
            L(j, j) = std::sqrt(d);
            for (int i = j + 1; i < nu; ++i) { Real x = M(i, j); for (int k = 0; k < j; ++k) x -= L(i, k) * L(j, k); L(i, j) = x / L(j, j); }
        }
        if (!ctx.check(ok, "calcM is not positive definite (Cholesky pivot " + rel(minPiv) + ")")) return;
    }
    {   // operator round trip on a test vector
        Vector v(nu); v = 0;
        if (vecKind == 1) v[int(std::abs(rng.next()) * nu) % nu] = 1; else if (vecKind != 2) for (int i = 0; i < nu; ++i) v[i] = 3 * rng.next();
        Vector Mv, back; matter.multiplyByM(s, v, Mv); matter.multiplyByMInv(s, Mv, back);
        Real vs = refdyn::maxAbs(v);
        for (int i = 0; i < nu; ++i) if (!(std::abs(back[i] - v[i]) <= tolInv * (vs + 1e-300) + 1e-300)) { ctx.fail("multiplyByMInv(multiplyByM(v)) != v at " + std::to_string(i) + ": " + rel(back[i]) + " vs " + rel(v[i])); return; }
        Vector Mv2 = Mref * v;
        for (int i = 0; i < nu; ++i) if (!(std::abs(Mv[i] - Mv2[i]) <= tolM * (vs + 1e-300) + 1e-300)) { ctx.fail("multiplyByM(v) != M_ref*v at " + std::to_string(i) + ": " + rel(Mv[i]) + " vs " + rel(Mv2[i])); return; }
    }
    {   // kinetic energy: three routes
        const Vector& u = s.getU(); Real ke1 = matter.calcKineticEnergy(s);
        Real ke2 = 0; { Vector Mu = M * u; for (int i = 0; i < nu; ++i) ke2 += 0.5 * u[i] * Mu[i]; }
        Real ke3 = 0; auto V = refdyn::bodyVelocities(matter, s); for (int b = 1; b < (int)V.size(); ++b) ke3 += 0.5 * refdyn::dot(V[b], refdyn::mul(si[b], V[b]));
        Real us = refdyn::maxAbs(u), tolK = 1e5 * eps * nu * nu * Mscale * us * us + 1e-300;
        if (!ctx.check(std::abs(ke1 - ke2) <= tolK, "calcKineticEnergy " + rel(ke1) + " != 1/2 u'Mu " + rel(ke2))) return;
        if (!ctx.check(std::abs(ke1 - ke3) <= tolK, "calcKineticEnergy " + rel(ke1) + " != 1/2 sum V'(SI)V " + rel(ke3))) return;
        if (!ctx.check(ke1 >= -tolK, "negative kinetic energy " + rel(ke1))) return;
    }
    {   // M depends on q only: change u, recompute
        State s2 = s; for (int i = 0; i < nu; ++i) s2.updU()[i] = 2 * rng.next();
        m.sys.realize(s2, Stage::Velocity);
        Matrix M2; matter.calcM(s2, M2);
        if (!cmp(M2, M, tolM, "calcM changed when only u changed")) return;
    }
}

pbt::Config config() {
    pbt::Config c; c.prop = "C01"; c.K = mbgen::K; c.minUnits = 1;
    c.quick = {3000, 12000, 16, 25}; c.thorough = {30000, 100000, 16, 240};
    c.rule = "rapidcheck tape -> mbgen tree: 1..8 bodies (one tape unit each; parent = any earlier body or Ground, chain bias), mobilizer type in the 18 built-ins, forward/reversed, inboard frame {identity, translation, general} x outboard {identity, general}, mass log-uniform [0.05,20], random COM and valid central inertia, quaternion (incl. unnormalised) or Euler mode, q in the documented non-singular domain, u in [-2,2] (incl. all-zero class). Non-trivial: nu >= 2 and the model has a reversed mobilizer, a non-general frame specialisation, Euler mode, or a type outside {Pin,Slider,Universal,Cylinder,Planar,Gimbal,Ball,Free,Translation}; distinct by tape hash.";
    c.assumptions = {"reference M built from the library's REPORTED body velocities (validated against finite differences of poses by C03 and against documented formulas by C05)",
                     "tolerances: 1e4*eps*nu*lambda_max for M, 1e4*eps*nu*kappa(M_ref) relative for inverse quantities; cases with kappa >= 1e10 rejected"};
    c.requiredLabels = {"mob:Pin/fwd", "mob:Ball/rev/quat", "mob:Free/fwd/euler", "mob:Ellipsoid/rev/quat", "mob:SphericalCoords/fwd", "mob:LineOrientation/fwd/quat", "mob:Weld/fwd", "mob:Bushing/rev", "frames:in0out0", "frames:in1out1", "nbodies:7+"};
    return c;
}
} // namespace

PBT_MAIN(config(), property)
