// C16 -- Realization results depend only on current state values (DESIGN.md 5, C16).
// Domain (histories): one model per case = mbgen tree (1..6 bodies, all mobilizer types except Weld, some locked by default)
//   + 1..8 built-in non-contact force elements (forcegen.h; includes every position-only/cached element and Force::Gravity
//   with its private cache, LinearBushing with its z variable) + 0..3 constraints of any built-in type (consgen.h; some disabled by
//   default), and a history of <= 40 operations on ONE State: state-level force parameter setters, force enable/disable,
//   set q/u of a mobilizer, set time, set z, realize(stage k), constraint enable/disable and all State-level constraint parameter setters, lock/lockAt/unlock at the
//   three levels, toggle Euler-angle/quaternion modelling, query.
// Oracle (D against a fresh State): at every query and at the end a NEW State (copy of the System's default state) is given the
//   same variable values through the same public setters in a canonical order (modelling option, locks, constraint flags and
//   speeds, force parameters and enable flags, time, q, u, z) and realized once to Acceleration; the history State is realized
//   to Acceleration too and ALL results must agree: body poses/velocities/accelerations, total rigid-body and mobility forces
//   at Stage::Dynamics, potential and kinetic energy, qdot, udot, qdotdot, zdot, multipliers, qerr/uerr/udoterr.
//   The values of q,u,z,t and of the lock variables are read back from the history State (they ARE its values; lock() and the
//   modelling option are documented to modify q and u); force parameters come from the forcegen model of the setters.
#include "pbt.h"
#include "mbgen.h"
#include "forcegen.h"
#include "consgen.h"
#include <malloc.h>
using namespace SimTK;
namespace fg = forcegen;
namespace cg = consgen;

namespace {
std::string S(double a) { return pbt::str(a); }
const int KW = 51, LW = 50, QW = 49;   // unit words: role selector, lock-by-default selector, query-after-force-op selector (unused by the mbgen/forcegen decoders)

// State-level parameter values of one constraint (model of the public setters; initial values = the constructor arguments).
struct ConVals { bool disabled = false; Vec3 p1, p2; Real length = 1, value = 0, r1 = 0.5, r2 = 0.5, h1 = 1, h2 = 1; Rotation R1, R2; UnitVec3 a1; };
// number of State-level parameter setters of each built-in constraint type (0: the type has none -- only setDefault...() methods)
int nConSetters(int type) {
    switch (type) { case cg::Rod: return 3; case cg::Ball: return 2; case cg::NoSlip1D: return 2; case cg::ConstantCoordinate: case cg::ConstantSpeed: case cg::ConstantAcceleration: return 1;
                    case cg::SphereOnPlaneContact: return 3; case cg::SphereOnSphereContact: return 4; case cg::LineOnLineContact: return 4; default: return 0; }
}
const char* conSetterName(int type, int k) {
    switch (type) { case cg::Rod: return k == 0 ? "setPointOnBody1" : k == 1 ? "setPointOnBody2" : "setRodLength"; case cg::Ball: return k == 0 ? "setPointOnBody1" : "setPointOnBody2";
                    case cg::NoSlip1D: return k == 0 ? "setContactPoint" : "setDirection"; case cg::ConstantCoordinate: return "setPosition"; case cg::ConstantSpeed: return "setSpeed"; case cg::ConstantAcceleration: return "setAcceleration";
                    case cg::SphereOnPlaneContact: return k == 0 ? "setPlaneFrame" : k == 1 ? "setSphereCenter" : "setSphereRadius";
                    case cg::SphereOnSphereContact: return k == 0 ? "setCenterOnF" : k == 1 ? "setRadiusOnF" : k == 2 ? "setCenterOnB" : "setRadiusOnB";
                    case cg::LineOnLineContact: return k == 0 ? "setEdgeFrameF" : k == 1 ? "setHalfLengthF" : k == 2 ? "setEdgeFrameB" : "setHalfLengthB"; default: return "?"; }
}
// documented invalidation stage of the setters (Ball: "Instance-stage change"; Rod and the contact constraints: Stage::Position)
Stage conSetterStage(int type) { return type == cg::Ball ? Stage::Instance : type == cg::ConstantSpeed || type == cg::NoSlip1D ? Stage::Velocity : type == cg::ConstantAcceleration ? Stage::Acceleration : Stage::Position; }
// call setter k of constraint c with the value held in v
void callConSetter(State& s, const Constraint& c, int type, int k, const ConVals& v) {
    switch (type) {
        case cg::Rod: { const Constraint::Rod& h = Constraint::Rod::downcast(c); if (k == 0) h.setPointOnBody1(s, v.p1); else if (k == 1) h.setPointOnBody2(s, v.p2); else h.setRodLength(s, v.length); break; }
        case cg::Ball: { const Constraint::Ball& h = Constraint::Ball::downcast(c); if (k == 0) h.setPointOnBody1(s, v.p1); else h.setPointOnBody2(s, v.p2); break; }
        case cg::NoSlip1D: { const Constraint::NoSlip1D& h = Constraint::NoSlip1D::downcast(c); if (k == 0) h.setContactPoint(s, v.p1); else h.setDirection(s, v.a1); break; }
        case cg::ConstantCoordinate: Constraint::ConstantCoordinate::downcast(c).setPosition(s, v.value); break;
        case cg::ConstantSpeed: Constraint::ConstantSpeed::downcast(c).setSpeed(s, v.value); break;
        case cg::ConstantAcceleration: Constraint::ConstantAcceleration::downcast(c).setAcceleration(s, v.value); break;
        case cg::SphereOnPlaneContact: { const Constraint::SphereOnPlaneContact& h = Constraint::SphereOnPlaneContact::downcast(c); if (k == 0) h.setPlaneFrame(s, Transform(v.R1, v.p1)); else if (k == 1) h.setSphereCenter(s, v.p2); else h.setSphereRadius(s, v.r2); break; }
        case cg::SphereOnSphereContact: { const Constraint::SphereOnSphereContact& h = Constraint::SphereOnSphereContact::downcast(c); if (k == 0) h.setCenterOnF(s, v.p1); else if (k == 1) h.setRadiusOnF(s, v.r1); else if (k == 2) h.setCenterOnB(s, v.p2); else h.setRadiusOnB(s, v.r2); break; }
        case cg::LineOnLineContact: { const Constraint::LineOnLineContact& h = Constraint::LineOnLineContact::downcast(c); if (k == 0) h.setEdgeFrameF(s, Transform(v.R1, v.p1)); else if (k == 1) h.setHalfLengthF(s, v.h1); else if (k == 2) h.setEdgeFrameB(s, Transform(v.R2, v.p2)); else h.setHalfLengthB(s, v.h2); break; }
        default: break;
    }
}

struct Group { std::string name; std::vector<Real> v; };
typedef std::vector<Group> Results;

struct Calib { Real worst = 0; long exact = 0, inexact = 0; };
Calib& calib() { static Calib c; return c; }   // diagnostic only (C16_CALIB)

struct Harness {
    pbt::Ctx& ctx; mbgen::ModelSpec spec, cur; mbgen::Options opt;
    std::unique_ptr<mbgen::Built> m; std::vector<fg::Element> el; std::vector<fg::Vals> val;
    std::vector<cg::ConsSpec> cons; std::vector<Constraint> con; std::vector<ConVals> conVal;
    // values not modelled by forcegen (read back from the history State / set by ops)
    bool euler = false;
    // optional compliant contact (1/4 of the cases): sphere on a generated body against a half space on Ground, in penetration at the initial pose
    std::unique_ptr<ContactTrackerSubsystem> tracker; std::unique_ptr<CompliantContactSubsystem> contact; bool contactActive = false;
    bool nontrivial = false; int queries = 0;
    explicit Harness(pbt::Ctx& c) : ctx(c) {}

    Results collect(const State& s) const {
        const MultibodySystem& sys = m->sys; const SimbodyMatterSubsystem& matter = m->matter; Results R;
        auto add = [&](const std::string& n) -> std::vector<Real>& { R.push_back(Group{n, {}}); return R.back().v; };
        { auto& v = add("body transforms"); for (auto& mb : m->mb) { const Transform& X = mb.getBodyTransform(s); for (int i = 0; i < 3; ++i) for (int j = 0; j < 3; ++j) v.push_back(X.R().asMat33()(i, j)); for (int i = 0; i < 3; ++i) v.push_back(X.p()[i]); } }
        { auto& v = add("body velocities"); for (auto& mb : m->mb) { const SpatialVec& V = mb.getBodyVelocity(s); for (int i = 0; i < 2; ++i) for (int j = 0; j < 3; ++j) v.push_back(V[i][j]); } }
        { auto& v = add("body accelerations"); for (auto& mb : m->mb) { const SpatialVec& V = mb.getBodyAcceleration(s); for (int i = 0; i < 2; ++i) for (int j = 0; j < 3; ++j) v.push_back(V[i][j]); } }
        { auto& v = add("rigid body forces (Dynamics)"); const Vector_<SpatialVec>& F = sys.getRigidBodyForces(s, Stage::Dynamics); for (int b = 0; b < F.size(); ++b) for (int i = 0; i < 2; ++i) for (int j = 0; j < 3; ++j) v.push_back(F[b][i][j]); }
        { auto& v = add("mobility forces (Dynamics)"); const Vector& f = sys.getMobilityForces(s, Stage::Dynamics); for (int i = 0; i < f.size(); ++i) v.push_back(f[i]); }
        { auto& v = add("potential energy"); v.push_back(sys.calcPotentialEnergy(s)); }
        { auto& v = add("kinetic energy"); v.push_back(sys.calcKineticEnergy(s)); }
        auto addVec = [&](const std::string& n, const Vector& x) { auto& v = add(n); for (int i = 0; i < x.size(); ++i) v.push_back(x[i]); };
        addVec("qdot", s.getQDot()); addVec("udot", s.getUDot()); addVec("qdotdot", s.getQDotDot()); addVec("zdot", s.getZDot());
        if (contact) { auto& v = add("compliant contact forces"); int nc = contact->getNumContactForces(s); v.push_back(nc);
            for (int i = 0; i < nc; ++i) { const ContactForce& cf = contact->getContactForce(s, i); const SpatialVec& F = cf.getForceOnSurface2(); for (int a = 0; a < 2; ++a) for (int j = 0; j < 3; ++j) v.push_back(F[a][j]);
                for (int j = 0; j < 3; ++j) v.push_back(cf.getContactPoint()[j]); v.push_back(cf.getPotentialEnergy()); v.push_back(cf.getPowerDissipation()); } }
        addVec("multipliers", s.getMultipliers()); addVec("qerr", s.getQErr()); addVec("uerr", s.getUErr()); addVec("udoterr", s.getUDotErr());
        (void)matter;
        return R;
    }

    // values read back from the history State
    struct Readback { Real t; Vector q, u, z; std::vector<int> lockLevel; std::vector<Vector> lockValue; };
    Readback readback(const State& s) const {
        Readback r; r.t = s.getTime(); r.q = s.getQ(); r.u = s.getU(); r.z = s.getZ();
        r.lockLevel.assign(m->mb.size(), (int)Motion::NoLevel); r.lockValue.resize(m->mb.size());
        for (size_t b = 1; b < m->mb.size(); ++b) { r.lockLevel[b] = (int)m->mb[b].getLockLevel(s); if (r.lockLevel[b] != (int)Motion::NoLevel) r.lockValue[b] = m->mb[b].getLockValueAsVector(s); }
        return r;
    }

    // fresh State with the same values, realized to Acceleration
    void buildFresh(State& f, const Readback& r) const {
        const MultibodySystem& sys = m->sys;
        f = sys.getDefaultState();
        m->matter.setUseEulerAngles(f, euler); sys.realizeModel(f);
        for (size_t b = 1; b < m->mb.size(); ++b) {
            if (r.lockLevel[b] == (int)Motion::NoLevel) m->mb[b].unlock(f);
            else m->mb[b].lockAt(f, r.lockValue[b], Motion::Level(r.lockLevel[b]));
        }
        for (size_t c = 0; c < con.size(); ++c) { if (conVal[c].disabled) con[c].disable(f); else con[c].enable(f); for (int k = 0; k < nConSetters(cons[c].type); ++k) callConSetter(f, con[c], cons[c].type, k, conVal[c]); }
        for (size_t i = 0; i < el.size(); ++i) fg::applyVals(*m, f, el[i], val[i]);
        f.setTime(r.t); f.updQ() = r.q; f.updU() = r.u; f.updZ() = r.z;
    }

    // returns false after a failure (or a clean stop)
    bool query(const std::string& when) {
        State& s = m->state; const MultibodySystem& sys = m->sys; ++queries;
        Readback r = readback(s);
        State f; buildFresh(f, r);
        bool threwS = false, threwF = false; std::string whatS, whatF;
        try { sys.realize(s, Stage::Acceleration); } catch (const std::exception& e) { threwS = true; whatS = e.what(); }
        try { sys.realize(f, Stage::Acceleration); } catch (const std::exception& e) { threwF = true; whatF = e.what(); }
        if (threwS || threwF) {
            if (threwS != threwF) { ctx.fail("realize(Acceleration) " + when + " throws only for the " + std::string(threwS ? "history" : "fresh") + " State: " + (threwS ? whatS : whatF)); return false; }
            ctx.reject("realize-throws"); return false;
        }
        // Known finding null-constraint-multipliers-uninitialized: when the constraint matrix restricted to the non-prescribed mobilities
        // is entirely zero (e.g. a Ball constraint at a point on a Pin axis, or a Rod whose bodies move only through locked mobilizers) the
        // multiplier solve has rank 0 and returns uninitialised memory (FactorQTZ, C24 finding qtz-rank0-solve-uninitialized), so multipliers
        // are not a function of the state at all. Site: >= 1 enabled constraint equation and max |G(:, free u)| <= 1e-13. Excluded: the
        // multipliers and everything computed from them (udot, qdotdot, body accelerations, udoterr) at such a query.
        bool skipMult = false;
        if (s.getMultipliers().size() > 0) {
            Matrix G; m->matter.calcG(s, G); Real mx = 0;
            for (size_t b = 1; b < m->mb.size(); ++b) { if (r.lockLevel[b] != (int)Motion::NoLevel) continue; int u0 = (int)m->mb[b].getFirstUIndex(s), nu = m->mb[b].getNumU(s);
                for (int i = 0; i < G.nrow(); ++i) for (int j = u0; j < u0 + nu; ++j) mx = std::max(mx, std::abs(G(i, j))); }
            if (mx <= 1e-13) { ctx.label("site:rank0-constraints"); if (ctx.known("null-constraint-multipliers-uninitialized")) { skipMult = true; ctx.label("excluded:null-constraint-multipliers-uninitialized"); } }
        }
        if (contact) contactActive = contact->getNumContactForces(s) > 0;
        Results A = collect(s), B = collect(f);
        // garbage multipliers (up to 1e300) times G^T cancel only up to rounding in the constraint body forces: every acceleration-level result is affected
        const bool garbageNonFinite = skipMult;
        // Known finding disabled-force-zdot-stale: the zdot entry of the z variable (dissipated energy) of a DISABLED LinearBushing is not
        // written by realize(Acceleration) (disabled elements are skipped), so State::getZDot() keeps a stale or uninitialised value there.
        // Site (input): zdot entries of disabled LinearBushing elements (z variables are allocated in element order). Excluded: those entries.
        std::vector<bool> skipZ(s.getNZ(), false);
        {   int zi = 0; for (size_t i = 0; i < el.size(); ++i) if (el[i].spec.kind == fg::LinearBushing) { if (val[i].disabled && zi < (int)skipZ.size()) { ctx.label("site:disabled-bushing-zdot"); if (ctx.known("disabled-force-zdot-stale")) { skipZ[zi] = true; ctx.label("excluded:disabled-force-zdot-stale"); } } ++zi; } }
        for (size_t g = 0; g < A.size(); ++g) {
            const Group& a = A[g]; const Group& b = B[g];
            // Known finding contact-pe-velocity-history: CompliantContactSubsystem's potential energy is a Position-stage lazy cache entry, but its value
            // is summed from the velocity-dependent contact forces when first requested at Velocity stage or later (a contact whose Hunt-Crossley force
            // is clamped to zero while separating contributes no PE) and from zero-velocity forces when requested at Position stage; it is not
            // recomputed when only u changes. Site: models with a compliant contact; excluded: the system potential energy group only.
            if (contact && a.name == "potential energy" && ctx.known("contact-pe-velocity-history")) { ctx.label("excluded:contact-pe-velocity-history"); continue; }
            if (skipMult && (a.name == "multipliers" || (garbageNonFinite && (a.name == "udot" || a.name == "qdotdot" || a.name == "udoterr" || a.name == "body accelerations")))) continue;
            if (a.v.size() != b.v.size()) { ctx.fail(a.name + " " + when + ": sizes differ between history State and fresh State (" + std::to_string(a.v.size()) + " vs " + std::to_string(b.v.size()) + ")"); return false; }
            Real scale = 1; for (size_t i = 0; i < a.v.size(); ++i) { if (std::isfinite(a.v[i])) scale = std::max(scale, std::abs(a.v[i])); if (std::isfinite(b.v[i])) scale = std::max(scale, std::abs(b.v[i])); }
            for (size_t i = 0; i < a.v.size(); ++i) {
                Real x = a.v[i], y = b.v[i];
                if (a.name == "zdot" && i < skipZ.size() && skipZ[i]) continue;
                if (x == y || (isNaN(x) && isNaN(y))) { if (getenv("C16_CALIB")) calib().exact++; continue; }
                Real e = std::abs(x - y) / scale;
                if (getenv("C16_CALIB") && std::isfinite(e)) { calib().inexact++; calib().worst = std::max(calib().worst, e); }
                if (!(e <= 1e-12)) { ctx.fail(a.name + " " + when + ": element " + std::to_string(i) + " is " + S(x) + " in the history State but " + S(y) + " in a fresh State with the same values (difference " + S(std::abs(x - y)) + ", group scale " + S(scale) + ")"); return false; }
            }
        }
        return true;
    }
};

Stage invalidatedBy(const fg::Element& e, const fg::Op& op) {   // documented invalidation stage of a force operation
    if (!op.isParam()) return Stage::Instance;
    if (e.spec.kind == fg::LinearBushing) return Stage::Instance;
    return Stage::Dynamics;
}

void property(const pbt::Tape& t, pbt::Ctx& ctx) {
    pbt::Reader g(t[0]);
    std::vector<int> bodyU, forceU, conU, opU; const int maxBodies = 6;
    for (int i = 1; i < (int)t.size(); ++i) { uint32_t kw = t[i].size() > (size_t)KW ? t[i][KW] % 16u : 0u;
        if (kw <= 3 && (int)bodyU.size() < maxBodies) bodyU.push_back(i); else if (kw >= 4 && kw <= 6 && (int)forceU.size() < 7) forceU.push_back(i); else if ((kw == 7 || kw == 8) && (int)conU.size() < 3) conU.push_back(i); else opU.push_back(i); }
    Harness H(ctx);
    H.opt.maxBodies = maxBodies; H.opt.without({mbgen::Weld});     // constraints between relatively immobile bodies are a C08 matter
    pbt::Tape bt; bt.push_back(t[0]); for (int i : bodyU) bt.push_back(t[i]);
    H.spec = mbgen::decodeModel(bt, 1, (int)bodyU.size(), g, H.opt); H.cur = H.spec; H.euler = H.spec.euler;
    mbgen::labelModel(ctx, H.spec);
    const int nb = H.spec.nBodies();
    std::vector<fg::ForceSpec> fs;
    {   pbt::Seg s0(t[0].begin() + std::min<size_t>(4, t[0].size()), t[0].end()); fs.push_back(fg::decodeForce(s0, H.spec)); }
    for (int i : forceU) fs.push_back(fg::decodeForce(t[i], H.spec));
    cg::Options copt; copt.allowDisabled = true; copt.without({cg::Custom});    // every built-in constraint type (Custom is not built-in code)
    for (int i : conU) { cg::ConsSpec c = cg::decodeConstraint(t[i], H.spec, copt);
        // the Euler/quaternion option is toggled during the history: coordinate references must exist in both modes (nq is 3 or 4 / 6 or 7)
        for (int k = 0; k < 3; ++k) c.qi[k] %= std::max(1, mbgen::mobNQ(H.spec.bodies[c.mob[k] - 1].type, true));
        H.cons.push_back(c); }
    H.m.reset(new mbgen::Built(H.spec));
    // ---- compliant contact for a quarter of the cases (words 50, 51 of segment 0 are not used by the other decoders)
    {   uint32_t w50 = t[0].size() > 50 ? t[0][50] : 0u, w51 = t[0].size() > 51 ? t[0][51] : 0u;
        pbt::Seg cs{w50, w51, w51 * 2654435761u + 12345u, (w50 ^ w51) * 2246822519u + 977u}; pbt::Reader cr(cs);
        uint32_t cw = cr.w();
        if (cw % 4u == 1u) {
            // pose of the chosen body at the initial state, from a throw-away copy of the tree
            const int cb = 1 + int((cw >> 2) % uint32_t(nb)); Real frac = 0.2 + 0.7 * cr.unit(), R = 0.2 + 0.6 * cr.unit(), stiff = std::pow(10.0, 2 + 2 * cr.unit());
            mbgen::Built pre(H.spec); pre.finish(H.spec); pre.setState(H.spec); pre.sys.realize(pre.state, Stage::Position);
            const Vec3 offs = H.spec.bodies[cb - 1].com; const Vec3 cG = pre.mb[cb].findStationLocationInGround(pre.state, offs);
            if (cG.norm() < 1e6) {   // (CantileverFreeBeam default/garbage poses etc. stay out)
                H.tracker.reset(new ContactTrackerSubsystem(H.m->sys)); H.contact.reset(new CompliantContactSubsystem(H.m->sys, *H.tracker));
                ContactMaterial mat(stiff, 0.1 + 0.9 * frac, 0.8, 0.5, 0.1);      // stiffness, dissipation, static/dynamic/viscous friction
                const Real h = cG[1] - frac * R;                                  // half space occupies y < h: the sphere centre is frac*R above the plane
                H.m->mb[0].updBody().addContactSurface(Transform(Rotation(-Pi / 2, ZAxis), Vec3(0, h, 0)), ContactSurface(ContactGeometry::HalfSpace(), mat));
                H.m->mb[cb].updBody().addContactSurface(Transform(offs), ContactSurface(ContactGeometry::Sphere(R), mat));
                H.contactActive = true; ctx.label("contact:compliant-in-penetration");
                if (ctx.wantDesc) ctx.desc << " compliant contact: sphere R=" << R << " at the mass centre of body " << cb << " against half space y<" << h << " on Ground (centre " << frac << " R above the plane), stiffness " << stiff << "\n";
            }
        }
    }
    // lock by default (word LW of the body unit)
    std::vector<int> lockDef(nb + 1, (int)Motion::NoLevel);
    for (int b = 1; b <= nb; ++b) { int ui = b - 1 < (int)bodyU.size() ? bodyU[b - 1] : -1; uint32_t w = ui >= 0 && t[ui].size() > (size_t)LW ? t[ui][LW] % 16u : 0u;
        if (w >= 1 && w <= 3) { Motion::Level lv = w == 1 ? Motion::Position : w == 2 ? Motion::Velocity : Motion::Acceleration; H.m->mb[b].lockByDefault(lv); lockDef[b] = (int)lv; ctx.label("lock-by-default"); } }
    for (auto& f : fs) { H.el.push_back(fg::addToModel(*H.m, H.spec, f)); H.val.push_back(fg::initialVals(f)); ctx.label(std::string("force:") + fg::kindName(f.kind)); }
    for (auto& c : H.cons) {
        H.con.push_back(cg::addConstraint(*H.m, c));
        ConVals v; v.disabled = c.disabled; v.p1 = c.p1; v.p2 = c.p2; v.length = c.length; v.value = c.value; v.r1 = c.r1; v.r2 = c.r2; v.h1 = c.h1; v.h2 = c.h2; v.R1 = c.R1; v.R2 = c.R2; v.a1 = c.a1;
        H.conVal.push_back(v);
        ctx.label(std::string("constraint:") + cg::consName(c.type)); if (c.disabled) ctx.label("constraint-disabled-by-default");
    }
    if (ctx.wantDesc) { H.spec.describe(ctx.desc); for (size_t i = 0; i < fs.size(); ++i) { ctx.desc << " force#" << i << ": "; fs[i].describe(ctx.desc); }
        for (size_t i = 0; i < H.cons.size(); ++i) { ctx.desc << " constraint#" << i << ": "; H.cons[i].describe(ctx.desc); ctx.desc << "\n"; }
        for (int b = 1; b <= nb; ++b) if (lockDef[b] != (int)Motion::NoLevel) ctx.desc << " body " << b << " locked by default at level " << lockDef[b] << "\n"; }
    H.m->finish(H.spec); H.m->setState(H.spec);
    State& s = H.m->state; const MultibodySystem& sys = H.m->sys;

    int nOps = 0; bool changeAfterRealize = false;
    auto noteChange = [&](Stage before, Stage invalidates) { if (before >= invalidates) { changeAfterRealize = true; ctx.label("change-after-realize"); } };
    for (int ui : opU) {
        if (++nOps > 40) break;
        const pbt::Seg& seg = t[ui]; pbt::Reader r(seg);
        int cls = r.pick(16); const Stage before = s.getSystemStage();
        if (cls <= 4) {   // ---- force element operation
            fg::Op op = fg::decodeOp(r, H.el, H.spec, &H.val); if (op.structured) ctx.label("op-structured-value"); const fg::Element& e = H.el[op.elem]; fg::Vals& v = H.val[op.elem];
            // known finding gravity-exclude-ground-nan (see C38): the call is documented as ignored; excluded by not making it
            if (e.spec.kind == fg::Gravity && op.isParam() && op.what - fg::OpSetA == 3 && op.body == 0 && !op.flag && v.gmag != 0 && ctx.known("gravity-exclude-ground-nan")) {
                ctx.label("excluded:gravity-exclude-ground-nan"); if (ctx.wantDesc) ctx.desc << " op: (skipped, known finding) " << op.name << "\n"; continue; }
            bool changed = fg::applyOp(*H.m, s, e, v, op);
            if (e.spec.kind == fg::DiscreteForces) { v.mobF = e.disc.getAllMobilityForces(s); v.bodyF = e.disc.getAllBodyForces(s); }   // addForceToBodyPoint accumulates in the State: its value is what the State holds
            if (ctx.wantDesc) { ctx.desc << " op: "; op.describe(ctx.desc); ctx.desc << (changed ? "" : " (no change)") << "  [stage before: " << before.getName() << "]\n"; }
            ctx.label(op.isParam() ? std::string("op:") + fg::kindName(e.spec.kind) + "." + fg::setterNames(e.spec.kind)[op.what - fg::OpSetA] : (op.what == fg::OpDisable ? "op:force-disable" : "op:force-enable"));
            if (changed) noteChange(before, invalidatedBy(e, op));
            // known finding mls-stale-cache (see C38): site = setStiffness/setQZero with a different value on an enabled spring while the State
            // is realized to Position or higher; excluded by construction (Position stage invalidated by the harness, history continues)
            if (e.spec.kind == fg::MobilityLinearSpring && op.isParam() && changed && !v.disabled && before >= Stage::Position && ctx.known("mls-stale-cache")) {
                s.invalidateAllCacheAtOrAbove(Stage::Position); ctx.label("excluded:mls-stale-cache"); }
            // a quarter of the force operations are queried at once (change -> realize -> compare with nothing in between)
            if (seg.size() > (size_t)QW && seg[QW] % 4u == 1u) { if (ctx.wantDesc) ctx.desc << " op: query (immediately after the force operation)\n"; ctx.label("op:query-after-force-op");
                if (!H.query("(query right after " + op.name + ", operation " + std::to_string(nOps) + ")")) return; }
        } else if (cls <= 6) {   // ---- set q and/or u of one mobilizer (documented non-singular domain of its type)
            int b = r.pick(nb); int mode = r.pick(3);
            mbgen::Options o1 = H.opt; o1.only({H.spec.bodies[b].type});
            pbt::Seg sub(seg.begin() + 3, seg.end());
            mbgen::BodySpec nbS = mbgen::decodeBody(sub, b, H.euler, false, o1);
            const MobilizedBody& mb = H.m->mb[b + 1]; int nq = mb.getNumQ(s), nu = mb.getNumU(s);
            if (mode != 2) for (int k = 0; k < nq; ++k) { if (H.spec.bodies[b].type == mbgen::SphericalCoords && k == 1) continue; mb.setOneQ(s, k, nbS.q[k]); }
            if (mode != 1) for (int k = 0; k < nu; ++k) mb.setOneU(s, k, nbS.u[k]);
            ctx.label(mode == 0 ? "op:set-q-u" : mode == 1 ? "op:set-q" : "op:set-u");
            if (ctx.wantDesc) ctx.desc << " op: set " << (mode == 0 ? "q,u" : mode == 1 ? "q" : "u") << " of body " << b + 1 << " -> q=" << mb.getQAsVector(s) << " u=" << mb.getUAsVector(s) << "  [stage before: " << before.getName() << "]\n";
            noteChange(before, mode == 2 ? Stage::Velocity : Stage::Position);
            if (H.contact && mode == 2) {   // u-only change with a compliant contact in the model: mostly queried at once
                if (H.contactActive) ctx.label("op:u-only-with-active-contact");
                if (seg.size() > (size_t)QW && seg[QW] % 4u != 0u) { if (ctx.wantDesc) ctx.desc << " op: query (immediately after the u-only change)\n"; ctx.label("op:query-after-u-only");
                    if (!H.query("(query right after a u-only change of body " + std::to_string(b + 1) + ", operation " + std::to_string(nOps) + ")")) return; }
            }
        } else if (cls == 7) {
            Real tt = r.real(0, 10); s.setTime(tt); ctx.label("op:set-time"); if (ctx.wantDesc) ctx.desc << " op: setTime(" << tt << ")\n"; noteChange(before, Stage::Time);
        } else if (cls == 8) {
            if (s.getNZ() > 0) { int i = r.pick(s.getNZ()); Real z = r.real(0, 5); s.updZ()[i] = z; ctx.label("op:set-z"); if (ctx.wantDesc) ctx.desc << " op: z[" << i << "]=" << z << "\n"; noteChange(before, Stage::Dynamics); }
        } else if (cls == 9) {
            static const Stage::Level st[] = {Stage::Acceleration, Stage::Dynamics, Stage::Position, Stage::Velocity, Stage::Time, Stage::Instance, Stage::Report};
            int k = r.pick(7);
            try { sys.realize(s, Stage(st[k])); } catch (const std::exception&) { ctx.reject("realize-throws"); return; }
            ctx.label(std::string("op:realize-") + Stage(st[k]).getName()); if (ctx.wantDesc) ctx.desc << " op: realize(" << Stage(st[k]).getName() << ")\n";
        } else if (cls == 11 || (cls == 15 && (r.w() % 4u) != 1u)) {
            if (ctx.wantDesc) ctx.desc << " op: query\n";
            ctx.label("op:query"); if (!H.query("(query after operation " + std::to_string(nOps) + ")")) return;
        } else if (cls == 10 || cls == 12) {   // ---- constraint flags and State-level constraint parameters
            if (H.con.empty()) continue;
            int c = r.pick((int)H.con.size()); int what = r.pick(4); const int type = H.cons[c].type, ns = nConSetters(type); ConVals& v = H.conVal[c];
            if (what >= 2 && ns > 0) {
                int k = r.pick(ns); uint32_t wm = r.w(); const bool structured = (wm & 1u) != 0; const int mode = int((wm >> 1) % 840u), comp = int((wm >> 12) % 3u);
                Vec3 fv = mbgen::readVec3(r, -1, 1); Rotation fR = mbgen::readRotation(r); Real fu = r.unit(), fr = r.real(-1, 1); UnitVec3 fa = cg::readUnit(r);
                ConVals old = v; const std::string sn = conSetterName(type, k);
                auto vec = [&](Vec3& x) { x = structured ? fg::deriveVec3(x, fv, mode, comp) : fv; };
                auto pos = [&](Real& x, Real lo, Real fresh) { Real n = structured ? fg::deriveScalar(x, fresh, mode, false) : fresh; x = n >= lo ? n : fresh; };   // lengths and radii stay positive
                auto frame = [&](Rotation& Rm, Vec3& pm) { if (!structured) { Rm = fR; pm = fv; } else switch (mode % 4) { case 1: pm = fv; break; case 2: Rm = fR; break; case 3: pm = -pm; break; default: break; } };
                switch (type) {
                    case cg::Rod: if (k == 0) vec(v.p1); else if (k == 1) vec(v.p2); else pos(v.length, 0.05, 0.3 + 1.7 * fu); break;
                    case cg::Ball: if (k == 0) vec(v.p1); else vec(v.p2); break;
                    case cg::NoSlip1D: if (k == 0) vec(v.p1); else { Vec3 d = structured ? fg::deriveVec3(Vec3(v.a1), Vec3(fa), mode % 4, comp) : Vec3(fa); v.a1 = UnitVec3(d); } break;
                    case cg::ConstantCoordinate: case cg::ConstantSpeed: case cg::ConstantAcceleration: v.value = structured ? fg::deriveScalar(v.value, fr, mode, true) : fr; break;
                    case cg::SphereOnPlaneContact: if (k == 0) frame(v.R1, v.p1); else if (k == 1) vec(v.p2); else pos(v.r2, 0.05, 0.2 + 0.8 * fu); break;
                    case cg::SphereOnSphereContact: if (k == 0) vec(v.p1); else if (k == 1) pos(v.r1, 0.05, 0.2 + 0.8 * fu); else if (k == 2) vec(v.p2); else pos(v.r2, 0.05, 0.2 + 0.8 * fu); break;
                    case cg::LineOnLineContact: if (k == 0) frame(v.R1, v.p1); else if (k == 1) pos(v.h1, 0.05, 0.5 + fu); else if (k == 2) frame(v.R2, v.p2); else pos(v.h2, 0.05, 0.5 + fu); break;
                    default: break;
                }
                callConSetter(s, H.con[c], type, k, v);
                const bool changed = !(old.p1 == v.p1 && old.p2 == v.p2 && old.length == v.length && old.value == v.value && old.r1 == v.r1 && old.r2 == v.r2 && old.h1 == v.h1 && old.h2 == v.h2 && Vec3(old.a1) == Vec3(v.a1)
                                       && old.R1.asMat33() == v.R1.asMat33() && old.R2.asMat33() == v.R2.asMat33());
                if (changed) noteChange(before, conSetterStage(type));
                ctx.label(std::string("op:set-constraint-parameter/") + cg::consName(type)); if (structured) ctx.label("op-structured-value");
                if (ctx.wantDesc) { ctx.desc.precision(17); ctx.desc << " op: constraint#" << c << " " << cg::consName(type) << "::" << sn << (structured ? " [derived from current]" : "") << " -> p1=" << v.p1 << " p2=" << v.p2 << " length=" << v.length << " value=" << v.value
                                             << " r1=" << v.r1 << " r2=" << v.r2 << " h1=" << v.h1 << " h2=" << v.h2 << " a1=" << Vec3(v.a1) << (changed ? "" : " (no change)") << "  [stage before: " << before.getName() << "]\n"; }
                // half of the parameter changes are queried at once (only the parameter changed since the last realization)
                if (seg.size() > (size_t)QW && seg[QW] % 2u == 1u) { if (ctx.wantDesc) ctx.desc << " op: query (immediately after the constraint parameter operation)\n"; ctx.label("op:query-after-constraint-op");
                    if (!H.query("(query right after " + std::string(cg::consName(type)) + "::" + sn + ", operation " + std::to_string(nOps) + ")")) return; }
            }
            else if (what % 2 == 0) { H.con[c].disable(s); if (!v.disabled) noteChange(before, Stage::Instance); v.disabled = true; ctx.label("op:constraint-disable"); if (ctx.wantDesc) ctx.desc << " op: constraint#" << c << " disable\n"; }
            else { H.con[c].enable(s); if (v.disabled) noteChange(before, Stage::Instance); v.disabled = false; ctx.label("op:constraint-enable"); if (ctx.wantDesc) ctx.desc << " op: constraint#" << c << " enable\n"; }
        } else if (cls <= 14) {   // ---- locks
            int b = r.pick(nb); const MobilizedBody& mb = H.m->mb[b + 1]; int what = r.pick(6);
            Motion::Level lv = r.pick(3) == 0 ? Motion::Position : (r.w() & 1u) ? Motion::Velocity : Motion::Acceleration;
            if (what <= 1) { mb.lock(s, lv); ctx.label("op:lock"); if (ctx.wantDesc) ctx.desc << " op: body " << b + 1 << " lock(level " << (int)lv << ")\n"; }
            else if (what <= 3) {
                mbgen::Options o1 = H.opt; o1.only({H.spec.bodies[b].type}); pbt::Seg sub(seg.begin() + 4, seg.end());
                mbgen::BodySpec nbS = mbgen::decodeBody(sub, b, H.euler, false, o1); int nq = mb.getNumQ(s), nu = mb.getNumU(s);
                Vector v(lv == Motion::Position ? nq : nu);
                for (int k = 0; k < v.size(); ++k) v[k] = lv == Motion::Position ? ((H.spec.bodies[b].type == mbgen::SphericalCoords && k == 1) ? mb.getOneQ(s, 1) : nbS.q[k]) : nbS.u[k];
                mb.lockAt(s, v, lv); ctx.label("op:lockAt"); if (ctx.wantDesc) ctx.desc << " op: body " << b + 1 << " lockAt(" << v << ", level " << (int)lv << ")\n";
            } else { mb.unlock(s); ctx.label("op:unlock"); if (ctx.wantDesc) ctx.desc << " op: body " << b + 1 << " unlock\n"; }
            noteChange(before, Stage::Instance);
        } else {   // ---- toggle the Euler-angle / quaternion modelling option (Model stage: later-stage variables are re-allocated)
            H.euler = !H.euler; H.m->matter.setUseEulerAngles(s, H.euler); sys.realizeModel(s);
            // documented: all variables allocated at Model stage or later get their default values; they are read back by the query.
            ctx.label("op:toggle-euler"); if (ctx.wantDesc) ctx.desc << " op: setUseEulerAngles(" << H.euler << "); realizeModel\n";
            noteChange(before, Stage::Model);
        }
    }
    if (ctx.wantDesc) ctx.desc << " final query\n";
    if (!H.query("(final query)")) return;
    ctx.nontrivial(changeAfterRealize);
    ctx.label(nOps == 0 ? "ops:0" : nOps <= 5 ? "ops:1-5" : nOps <= 15 ? "ops:6-15" : "ops:16+");
    if (getenv("C16_CALIB")) fprintf(stderr, "CALIB worst %.3e exact %ld inexact %ld\n", calib().worst, calib().exact, calib().inexact);
}

// ---------------------------------------------------------------- directed reproducers
void directedMlsStale(pbt::Ctx& ctx) {
    MultibodySystem sys; SimbodyMatterSubsystem matter(sys); GeneralForceSubsystem forces(sys);
    Body::Rigid body(MassProperties(1, Vec3(0), Inertia(1)));
    MobilizedBody::Pin pin(matter.Ground(), Transform(), body, Transform());
    Force::MobilityLinearSpring spr(forces, pin, MobilizerQIndex(0), 10.0, 0.0);
    State s = sys.realizeTopology(); pin.setQ(s, 0.5); sys.realize(s, Stage::Acceleration);
    spr.setStiffness(s, 20.0); sys.realize(s, Stage::Acceleration);
    State f = sys.getDefaultState(); spr.setStiffness(f, 20.0); pin.setQ(f, 0.5); sys.realize(f, Stage::Acceleration);
    Real fs = sys.getMobilityForces(s, Stage::Dynamics)[0], ff = sys.getMobilityForces(f, Stage::Dynamics)[0];
    ctx.desc << "Pin + MobilityLinearSpring(k=10,q0=0), q=0.5: history realize; setStiffness(20); realize -> mobility force " << fs << ", udot " << s.getUDot()[0]
             << "; fresh State with k=20, q=0.5 -> " << ff << ", udot " << f.getUDot()[0] << "\n";
    ctx.check(fs == ff && s.getUDot()[0] == f.getUDot()[0], "history State (realize, setStiffness(20), realize) gives mobility force " + S(fs) + " but a fresh State with the same values gives " + S(ff));
}
void directedGravityGroundNaN(pbt::Ctx& ctx) {
    MultibodySystem sys; SimbodyMatterSubsystem matter(sys); GeneralForceSubsystem forces(sys);
    Body::Rigid body(MassProperties(1, Vec3(0), Inertia(1)));
    MobilizedBody::Pin pin(matter.Ground(), Transform(), body, Transform());
    Force::Gravity grav(forces, matter, UnitVec3(0, 0, -1), 10.0);
    State s = sys.realizeTopology(); sys.realize(s, Stage::Acceleration);
    grav.setBodyIsExcluded(s, MobilizedBodyIndex(0), false); pin.setQ(s, 0.3); sys.realize(s, Stage::Acceleration);
    State f = sys.getDefaultState(); pin.setQ(f, 0.3); sys.realize(f, Stage::Acceleration);     // the same values: Ground is always excluded
    SpatialVec Fs = sys.getRigidBodyForces(s, Stage::Dynamics)[0], Ff = sys.getRigidBodyForces(f, Stage::Dynamics)[0];
    ctx.desc << "Pin + Gravity(g=10): history realize; setBodyIsExcluded(Ground,false); q=0.3; realize -> body force on Ground " << Fs << "; fresh State -> " << Ff << "\n";
    ctx.check(!isNaN(Fs[1].norm()) && (Fs[1] - Ff[1]).norm() == 0, "history State after the (documented as ignored) setBodyIsExcluded(Ground,false) has a NaN rigid body force on Ground; a fresh State has 0");
}

void directedDisabledBushingZDot(pbt::Ctx& ctx) {
    MultibodySystem sys; SimbodyMatterSubsystem matter(sys); GeneralForceSubsystem forces(sys);
    Body::Rigid body(MassProperties(1, Vec3(0), Inertia(1)));
    MobilizedBody::Pin pin(matter.Ground(), Transform(), body, Transform());
    Force::LinearBushing bush(forces, matter.Ground(), pin, Vec6(1), Vec6(1));
    State s = sys.realizeTopology(); pin.setU(s, 2.0); sys.realize(s, Stage::Acceleration);      // enabled: zdot = power dissipation = c*qdot^2 = 4
    Real z1 = s.getZDot()[0];
    bush.disable(s); sys.realize(s, Stage::Acceleration);
    State f = sys.getDefaultState(); pin.setU(f, 2.0); bush.disable(f); f.updZDot()[0] = 123.0; sys.realize(f, Stage::Acceleration);   // same values; cache slot pre-poisoned
    ctx.desc << "Pin(u=2) + LinearBushing(k=1,c=1): zdot enabled = " << z1 << "; history State after disable + realize: zdot = " << s.getZDot()[0] << "; fresh State (disabled, cache slot pre-set to 123): zdot = " << f.getZDot()[0] << "\n";
    ctx.check(s.getZDot()[0] == f.getZDot()[0], "zdot of a disabled LinearBushing is not computed by realize(Acceleration): history State " + S(s.getZDot()[0]) + " (stale), fresh State " + S(f.getZDot()[0]) + " (whatever was in the cache)");
}

void directedNullConstraintMultipliers(pbt::Ctx& ctx) {
    MultibodySystem sys; SimbodyMatterSubsystem matter(sys); GeneralForceSubsystem forces(sys);
    Body::Rigid body(MassProperties(1, Vec3(0.1, 0, 0), Inertia(1)));
    MobilizedBody::Pin pin(matter.Ground(), Transform(), body, Transform());
    Force::Gravity grav(forces, matter, Vec3(0, -9.8, 0));
    Constraint::Ball ball(matter.Ground(), Vec3(0), pin, Vec3(0));          // a point on the pin axis: all three rows of G vanish
    sys.realizeTopology();
    Vector lam[2];
    for (int k = 0; k < 2; ++k) {   // two fresh States with the same values; only the fill pattern of newly malloc'ed memory differs (glibc M_PERTURB)
        mallopt(M_PERTURB, k == 0 ? 0x55 : 0xAA);
        State f = sys.getDefaultState(); pin.setQ(f, 0.3); sys.realize(f, Stage::Acceleration); lam[k] = f.getMultipliers();
        mallopt(M_PERTURB, 0);
    }
    ctx.desc << "Pin + Gravity + Ball(Ground,(0,0,0),body,(0,0,0)): multipliers after realize(Acceleration) with fresh heap memory filled with 0xAA: " << lam[0] << ", with 0x55: " << lam[1] << "\n";
    bool same = lam[0].size() == 3 && lam[1].size() == 3; for (int i = 0; same && i < 3; ++i) same = memcmp(&lam[0][i], &lam[1][i], sizeof(Real)) == 0;
    ctx.check(same, "multipliers of a rank-0 constraint set are uninitialised memory: " + S(lam[0][0]) + "," + S(lam[0][1]) + "," + S(lam[0][2]) + " vs " + S(lam[1][0]) + "," + S(lam[1][1]) + "," + S(lam[1][2]) + " for identical state values");
}

void directedContactPE(pbt::Ctx& ctx) {
    MultibodySystem sys; SimbodyMatterSubsystem matter(sys); GeneralForceSubsystem forces(sys);
    ContactTrackerSubsystem tracker(sys); CompliantContactSubsystem contact(sys, tracker);
    ContactMaterial mat(855.0, 1.0, 0.8, 0.5, 0.1);
    matter.Ground().updBody().addContactSurface(Transform(Rotation(-Pi / 2, ZAxis), Vec3(0)), ContactSurface(ContactGeometry::HalfSpace(), mat));
    Body::Rigid body(MassProperties(1, Vec3(0), Inertia(1))); body.addContactSurface(Transform(), ContactSurface(ContactGeometry::Sphere(0.2), mat));
    MobilizedBody::Translation b(matter.Ground(), Transform(), body, Transform());
    State s = sys.realizeTopology(); b.setQFromVector(s, Vector(Vec3(0, 0.04, 0))); sys.realize(s, Stage::Acceleration);
    Real pe0 = sys.calcPotentialEnergy(s);
    b.setUFromVector(s, Vector(Vec3(0, 2, 0))); sys.realize(s, Stage::Acceleration);      // only u changes: separating fast, contact force clamped to zero
    Real peH = sys.calcPotentialEnergy(s);
    State f = sys.getDefaultState(); b.setQFromVector(f, Vector(Vec3(0, 0.04, 0))); b.setUFromVector(f, Vector(Vec3(0, 2, 0))); sys.realize(f, Stage::Acceleration);
    Real peF = sys.calcPotentialEnergy(f);
    ctx.desc << "sphere R=0.2 centre 0.04 above a half space: PE at u=0: " << pe0 << "; history State after u=(0,2,0) + realize: " << peH << "; fresh State with the same q,u: " << peF << "\n";
    ctx.check(peH == peF, "compliant contact potential energy depends on the history: " + S(peH) + " after a u-only change vs " + S(peF) + " in a fresh State with the same values");
}

pbt::Config config() {
    pbt::Config c; c.prop = "C16"; c.K = mbgen::K; c.minUnits = 1;
    c.quick = {2000, 12000, 60, 20}; c.thorough = {10000, 100000, 72, 100};
    c.rule = "rapidcheck tape -> one model (mbgen tree 1..6 bodies without Weld, some locked by default; 1..8 forcegen force elements incl. all position-only/cached ones, Gravity, LinearBushing; 0..3 constraints of all 18 built-in types (consgen)) and a history of <= 40 operations on one State (force parameter setters, force/constraint enable/disable, every State-level constraint parameter setter (Rod, Ball, NoSlip1D, ConstantCoordinate/Speed/Acceleration, SphereOnPlane/SphereOnSphere/LineOnLine contact), q/u/z/time changes, realize(stage k), lock/lockAt/unlock, Euler toggle, query); at each query and at the end all Acceleration-stage results are compared with a fresh State given the same values. Non-trivial: the history contains a value change made when the State was realized at or above the stage that change invalidates (followed by the final realization); distinct by tape hash.";
    c.assumptions = {"q,u,z,t and lock values are read back from the history State (they are its current values); force parameters come from the model of the public setters", "comparison tolerance 1e-12 x group scale (observed: bitwise equal apart from denormal noise; both-NaN counts as equal)",
                     "Weld mobilizers are excluded (constraints between relatively immobile bodies are C08's finding)"};
    c.directed = {{"mls-stale-cache", "mls-stale-cache", directedMlsStale}, {"gravity-exclude-ground-nan", "gravity-exclude-ground-nan", directedGravityGroundNaN},
                  {"disabled-force-zdot-stale", "disabled-force-zdot-stale", directedDisabledBushingZDot},
                  {"null-constraint-multipliers", "null-constraint-multipliers-uninitialized", directedNullConstraintMultipliers},
                  {"contact-pe-velocity-history", "contact-pe-velocity-history", directedContactPE}};
    c.requiredLabels = {"contact:compliant-in-penetration", "op:u-only-with-active-contact", "change-after-realize", "op:query", "op:lock", "op:lockAt", "op:unlock", "op:toggle-euler", "op:constraint-enable", "op:constraint-disable", "op:set-constraint-parameter/Rod", "op:set-constraint-parameter/Ball", "op:set-constraint-parameter/ConstantCoordinate", "op:set-constraint-parameter/ConstantSpeed", "op:set-constraint-parameter/ConstantAcceleration", "op:set-constraint-parameter/NoSlip1D", "op:set-constraint-parameter/SphereOnPlaneContact", "op:set-constraint-parameter/SphereOnSphereContact", "op:set-constraint-parameter/LineOnLineContact", "op:query-after-constraint-op", "op:force-disable", "op:force-enable",
                        "op:set-q", "op:set-u", "op:set-time", "op:set-z", "op:MobilityLinearSpring.setStiffness", "op:Gravity.setMagnitude", "op:Gravity.setBodyIsExcluded", "op:LinearBushing.setStiffness", "op:DiscreteForces.addForceToBodyPoint",
                        "constraint:Rod", "constraint:Ball", "constraint:ConstantSpeed", "constraint:Weld", "constraint:PointInPlane", "constraint:PointOnLine", "constraint:ConstantAngle", "constraint:ConstantOrientation", "constraint:CoordinateCoupler", "constraint:SpeedCoupler", "constraint:PrescribedMotion", "constraint:PointOnPlaneContact", "lock-by-default", "force:TwoPointLinearSpring", "force:TwoPointConstantForce", "force:ConstantForce", "force:ConstantTorque", "force:MobilityLinearSpring"};
    return c;
}
} // namespace

PBT_MAIN(config(), property)
