// C27 -- Rotations and transforms are proper and conversions round-trip (DESIGN.md section 5, C27).
// Each tape unit is one independent check of one API family of Rotation_/InverseRotation_/Transform_/
// InverseTransform_/UnitVec/UnitRow/Quaternion_/CoordinateAxis, in float or double (segment 0).
// Oracle: long-double reference algebra of gen/rotref.h (products of elementary rotations, Rodrigues,
// quaternion formula, 4x4 matrices), validity predicates (R^T R = I, det = +1, unit length, canonical
// ranges) and round trips through every representation.
#include "pbt.h"
#include "rotref.h"
#include "SimTKcommon.h"
#include <type_traits>
using namespace SimTK;
using rr::LD; using rr::M3; using rr::V3;

namespace {

static const bool CALIB = getenv("C27_CALIB") != nullptr;
struct CalibTable { std::map<std::string, double> mx; ~CalibTable() { if (CALIB) for (auto& kv : mx) fprintf(stderr, "CALIB %-44s max err/tol = %.3g\n", kv.first.c_str(), kv.second); } };
CalibTable& calib() { static CalibTable t; return t; }

template <class P> struct Prec;
template <> struct Prec<double> { static constexpr LD eps = 2.220446049250313e-16L; static const char* name() { return "double"; } };
template <> struct Prec<float>  { static constexpr LD eps = 1.1920928955078125e-07L; static const char* name() { return "float"; } };

// judge |err| <= tol ; id names the oracle clause (calibration table + message)
// MARGIN: every stated tolerance constant is multiplied by 8: calibration (notes/C27.md) showed worst observed
// error/stated-tolerance ratios of 0.2..0.62, the margin brings all of them below 0.08 (>= 10x head-room).
static const LD MARGIN = 8;
template <class P>
bool judge(pbt::Ctx& ctx, const char* id, LD err, LD tol, const std::string& detail = "") {
    tol *= MARGIN;
    if (CALIB) { std::string k = std::string(id) + "/" + Prec<P>::name(); double r = (double)(err / tol); if (!(r <= calib().mx[k])) calib().mx[k] = r; if (!(err <= tol * 1e6L)) {} else return true; }
    if (!(err <= tol)) { ctx.fail(std::string(id) + " [" + Prec<P>::name() + "]: error " + pbt::str((double)err) + " > tol " + pbt::str((double)tol) + (detail.empty() ? "" : " -- " + detail)); return false; }
    return true;
}

template <class P, int CS, int RS> M3 toM3(const Mat<3, 3, P, CS, RS>& m) { M3 r; for (int i = 0; i < 3; ++i) for (int j = 0; j < 3; ++j) r[i][j] = (LD)m(i, j); return r; }
template <class P> M3 toM3(const SymMat<3, P>& m) { M3 r; for (int i = 0; i < 3; ++i) for (int j = 0; j < 3; ++j) r[i][j] = (LD)m.elt(i, j); return r; }   // operator() is lower-triangle only
template <class P, int S> V3 toV3(const Vec<3, P, S>& v) { return V3((LD)v[0], (LD)v[1], (LD)v[2]); }
template <class P, int S> V3 toV3(const Row<3, P, S>& v) { return V3((LD)v[0], (LD)v[1], (LD)v[2]); }
template <class P> Mat<3, 3, P> toMat(const M3& m) { Mat<3, 3, P> r; for (int i = 0; i < 3; ++i) for (int j = 0; j < 3; ++j) r(i, j) = (P)m[i][j]; return r; }
template <class P> Vec<3, P> toVec(V3 v) { return Vec<3, P>((P)v[0], (P)v[1], (P)v[2]); }
template <class P> Rotation_<P> trust(const M3& m) { return Rotation_<P>(toMat<P>(m), true); }
const CoordinateAxis& AX(int i) { return CoordinateAxis::getCoordinateAxis(i); }

// (V) proper orthonormal:  max|R^T R - I| <= 16 eps, |det - 1| <= 16 eps
template <class P> bool valid(pbt::Ctx& ctx, const char* what, const M3& R, LD factor = 1) {
    for (int i = 0; i < 3; ++i) for (int j = 0; j < 3; ++j) if (!std::isfinite((double)R[i][j])) { ctx.fail(std::string(what) + " [" + Prec<P>::name() + "]: non-finite element in produced Rotation " + rr::show(R)); return false; }
    if (!judge<P>(ctx, CALIB ? (std::string("V:orthonormal:") + what).c_str() : "V:orthonormal", rr::orthoErr(R), 16 * Prec<P>::eps * factor, std::string(what) + " R=" + rr::show(R))) return false;
    return judge<P>(ctx, "V:det=+1", std::fabs(rr::det(R) - 1), 16 * Prec<P>::eps * factor, std::string(what) + " R=" + rr::show(R));
}

// ------------------------------------------------------------------ generators (all from the tape)
// angle with narrow regions: uniform, near 0, near +-pi/2, near +-pi, exactly representable specials, large
template <class P> P genAngle(pbt::Reader& g, int* regionOut = nullptr) {
    int region = g.pick(8); LD a;
    uint32_t w1 = g.w(), w2 = g.w();
    LD u = (LD)w1 / 4294967296.0L;                       // [0,1)
    LD tiny = std::pow((LD)10, -(LD)(1 + w2 % 16)) * (1 + u) * ((w2 >> 8) & 1 ? 1 : -1);   // +-(1..2)e-1 .. e-16
    switch (region) {
        default: case 0: case 1: { pbt::Reader h; uint32_t x = w1; static const LD sp[] = {0, 1, -1, 0.5L, -0.5L, 2, -2, 0.25L, 1e-3L, -1e-3L, 3, rr::PI / 2, -rr::PI / 2, rr::PI, -rr::PI, rr::PI / 4};
                                   if ((x & 7u) == 0) a = sp[(x >> 3) % 16]; else a = -rr::PI + 2 * rr::PI * u; (void)h; break; }
        case 2: a = tiny; break;                                   // near identity
        case 3: a = ((w2 >> 9) & 1 ? 1 : -1) * rr::PI / 2 + tiny; break;  // gimbal lock of ijk sequences
        case 4: a = ((w2 >> 9) & 1 ? 1 : -1) * rr::PI + tiny; break;      // near 180 deg / lock of iji sequences
        case 5: a = ((w2 >> 9) & 1 ? 1 : -1) * (LD)(P)(rr::PI / 2) * (1 + (w2 >> 10) % 3); break;  // exactly P(pi/2), P(pi), 3pi/2
        case 6: a = -20 + 40 * u; break;                           // several turns
        case 7: a = 0; break;
    }
    if (regionOut) *regionOut = region;
    return (P)a;
}
V3 genUnit(pbt::Reader& g) { double o[3]; g.unit3(o); V3 v(o[0], o[1], o[2]); return rr::unit(v); }
V3 anyPerp(V3 u, V3 hint) { V3 c = rr::cross(u, hint); if (rr::norm(c) < 1e-3L) { V3 e; int k = std::fabs(u[0]) <= std::fabs(u[1]) ? (std::fabs(u[0]) <= std::fabs(u[2]) ? 0 : 2) : (std::fabs(u[1]) <= std::fabs(u[2]) ? 1 : 2); e[k] = 1; c = rr::cross(u, e); } return rr::unit(c); }
V3 genVec(pbt::Reader& g, double lo = 1e-3, double hi = 1e3) { V3 u = genUnit(g); return (LD)g.logreal(lo, hi) * u; }

// general rotation as long-double reference matrix; regions: uniform quaternion, near identity, near pi,
// one of the 24 cube rotations (exact gimbal lock of every sequence), coordinate-axis rotation, Euler-lock product
struct GenRot { M3 R; int region; };
template <class P> GenRot genRot(pbt::Reader& g) {
    GenRot o; o.region = g.pick(6);
    switch (o.region) {
        default: case 0: { LD q[4]; for (int i = 0; i < 4; ++i) q[i] = 2 * (LD)g.unit() - 1; LD n = q[0]*q[0]+q[1]*q[1]+q[2]*q[2]+q[3]*q[3]; if (n < 1e-6L) { q[0] = 1; q[1] = q[2] = q[3] = 0; } o.R = rr::fromQuat(q); break; }
        case 1: { V3 u = genUnit(g); LD a = std::pow((LD)10, -(LD)(1 + g.pick(15))) * (1 + g.unit()); o.R = rr::rodrigues(a, u); break; }
        case 2: { V3 u = genUnit(g); LD a = rr::PI - std::pow((LD)10, -(LD)(1 + g.pick(15))) * (1 + g.unit()) * (g.boolean() ? 1 : 0); o.R = rr::rodrigues(a, u); break; }
        case 3: { int k = g.pick(24); int ax = k / 8, sx = (k / 4) % 2, rot = k % 4;   // x-axis image (+-e_ax), then quarter turns about it
                  M3 B; int a1 = (ax + 1) % 3, a2 = (ax + 2) % 3; LD s = sx ? -1 : 1; B[ax][0] = s; B[a1][1] = s; B[a2][2] = 1;   // proper: det = s*s*1 with cyclic placement
                  M3 Q = rr::ident(); for (int i = 0; i < rot; ++i) { M3 q90; q90[0][0] = 1; q90[1][2] = -1; q90[2][1] = 1; Q = Q * q90; } o.R = B * Q; break; }
        case 4: { int ax = g.pick(3); P a = genAngle<P>(g); o.R = rr::axisRot(ax, (LD)a); break; }
        case 5: { int a1 = g.pick(3), a2 = (a1 + 1 + g.pick(2)) % 3, a3 = g.boolean() ? a1 : 3 - a1 - a2; LD lock = (a3 == a1) ? (g.boolean() ? 0 : rr::PI) : (g.boolean() ? 1 : -1) * rr::PI / 2;
                  LD d = std::pow((LD)10, -(LD)(1 + g.pick(16))) * (1 + g.unit()) * (g.boolean() ? 1 : -1);
                  o.R = rr::axisRot(a1, -rr::PI + 2 * rr::PI * g.unit()) * rr::axisRot(a2, lock + d) * rr::axisRot(a3, -rr::PI + 2 * rr::PI * g.unit()); break; }
    }
    return o;
}
static const char* rotRegionName[] = {"uniform", "near-identity", "near-pi", "cube24", "coord-axis", "euler-lock"};

// ================================================================== unit kinds

// ---- Euler-angle extraction accuracy model --------------------------------------------------------------
// d = distance from the coordinate singularity as the library itself measures it (Rsum): |cos theta2| for
// three distinct axes (ijk), |sin theta2| for iji sequences. The individual angles are conditioned like 1/d;
// the library extracts theta1 and theta3 from independent small matrix elements, so the REBUILT rotation
// inherits an error ~ eps/d as well. Demanded: error <= 64 eps (1 + 1/d), but never more than 64 sqrt(eps)
// (what an extraction that switches to its singular branch at d ~ sqrt(eps) delivers). The band where the
// first bound (times MARGIN) exceeds the second and the library's lock branch (Rsum <= 4*Eps(double!)) is not taken is the
// site of known finding euler-near-lock-roundtrip.
template <class P> LD lockDistance(const M3& R, int i, int j, int k, bool iji) {
    if (iji) return std::sqrt((R[i][j]*R[i][j] + R[i][k]*R[i][k] + R[j][i]*R[j][i] + R[k][i]*R[k][i]) / 2);
    return std::sqrt((R[i][i]*R[i][i] + R[i][j]*R[i][j] + R[j][k]*R[j][k] + R[k][k]*R[k][k]) / 2);
}
// returns tolerance for the rebuilt rotation; sets skip when the case falls in the listed finding's site
template <class P> LD eulerRoundTripTol(pbt::Ctx& ctx, LD d, bool& skip) {
    const LD eps = Prec<P>::eps, cap = 64 * std::sqrt(eps);
    skip = false;
    if (d <= 8e-16L) return 64 * eps + 4 * d;             // library's singular branch (arbitrary split): exact up to O(d)
    LD t = 64 * eps * (1 + 1 / d);
    if (t * MARGIN > cap) { ctx.label("euler:near-lock-band"); if (ctx.known("euler-near-lock-roundtrip")) { skip = true; ctx.label("excluded:euler-near-lock-roundtrip"); } return cap / MARGIN; }
    return t;
}

// convert R to angles of the given sequence, rebuild, compare, check ranges. cls: 1 ijk, 2 iji
template <class P> bool eulerRoundTrip(pbt::Ctx& ctx, const Rotation_<P>& R, bool space, int a1, int a2, int a3, Vec<3, P>& qv, LD& dOut, bool& skipped) {
    BodyOrSpaceType bos = space ? SpaceRotationSequence : BodyRotationSequence;
    qv = Vec<3, P>(NTraits<P>::getNaN());
    qv = R.convertThreeAxesRotationToThreeAngles(bos, AX(a1), AX(a2), AX(a3));
    std::string tag = std::string(space ? "space " : "body ") + "xyz"[a1] + "xyz"[a2] + "xyz"[a3];
    for (int n = 0; n < 3; ++n) if (!std::isfinite((double)qv[n])) { ctx.fail("convertThreeAxesRotationToThreeAngles(" + tag + ") returned non-finite angle for R=" + rr::show(toM3(R.asMat33()))); return false; }
    const LD slack = 4 * Prec<P>::eps * rr::PI;
    bool iji = (a1 == a3), distinct2 = (a2 != a1 && a2 != a3);
    for (int n = 0; n < 3; ++n) if (std::fabs((LD)qv[n]) > rr::PI + slack) { ctx.fail("angle " + std::to_string(n) + " = " + pbt::str((double)qv[n]) + " outside [-pi,pi] for sequence " + tag); return false; }
    dOut = 1; skipped = false;
    LD tol = 64 * Prec<P>::eps;
    if (distinct2) {
        int i = space ? a3 : a1, j = a2, k = iji ? 3 - i - j : (space ? a1 : a3);
        M3 Rm = toM3(R.asMat33());
        dOut = lockDistance<P>(Rm, i, j, k, iji);
        tol = eulerRoundTripTol<P>(ctx, dOut, skipped);
        if (iji) { if ((LD)qv[1] < -slack) { ctx.fail("middle angle " + pbt::str((double)qv[1]) + " of " + tag + " outside documented range [0,pi]"); return false; } }
        else if (std::fabs((LD)qv[1]) > rr::PI / 2 + slack) { ctx.fail("middle angle " + pbt::str((double)qv[1]) + " of " + tag + " outside documented range [-pi/2,pi/2]"); return false; }
    }
    Rotation_<P> R2(bos, qv[0], AX(a1), qv[1], AX(a2), qv[2], AX(a3));
    if (!valid<P>(ctx, "rebuilt from converted angles", toM3(R2.asMat33()))) return false;
    if (skipped) return true;
    LD err = rr::maxAbsDiff(toM3(R.asMat33()), toM3(R2.asMat33()));
    return judge<P>(ctx, distinct2 ? (iji ? "RT:three-angles-iji" : "RT:three-angles-ijk") : "RT:three-angles-repeated-axis", err, tol,
                    tag + " d=" + pbt::str((double)dOut) + " angles=(" + pbt::str((double)qv[0]) + "," + pbt::str((double)qv[1]) + "," + pbt::str((double)qv[2]) + ") R=" + rr::show(toM3(R.asMat33())));
}

// kind 0: three-angle sequence from given angles: reference product, validity, round trip, principal-domain angles
template <class P> void kindThreeAngles(pbt::Reader& g, pbt::Ctx& ctx) {
    int a1 = g.pick(3), a2 = g.pick(3), a3 = g.pick(3); bool space = g.boolean();
    if (g.chance(3, 4)) { a2 = (a1 + 1 + (a2 & 1)) % 3; if (a3 == a2) a3 = a1; }   // favour the 12 classical sequences
    int reg[3]; P q[3]; for (int n = 0; n < 3; ++n) q[n] = genAngle<P>(g, &reg[n]);
    BodyOrSpaceType bos = space ? SpaceRotationSequence : BodyRotationSequence;
    std::string tag = std::string(space ? "space " : "body ") + "xyz"[a1] + "xyz"[a2] + "xyz"[a3];
    if (ctx.wantDesc) ctx.desc << "three-angles " << tag << " q=(" << pbt::str((double)q[0]) << "," << pbt::str((double)q[1]) << "," << pbt::str((double)q[2]) << ")\n";
    bool classical = a2 != a1 && a2 != a3;
    ctx.label(classical ? (a1 == a3 ? "seq3:iji" : "seq3:ijk") : "seq3:repeated-axis");
    ctx.label(std::string("seq3:") + (space ? "space" : "body"));
    if (classical) ctx.label("seq3:" + tag);
    ctx.nontrivial(!(a1 == 0 && a2 == 1 && a3 == 2) || reg[0] >= 2 || reg[1] >= 2 || reg[2] >= 2);
    M3 A1 = rr::axisRot(a1, (LD)q[0]), A2 = rr::axisRot(a2, (LD)q[1]), A3 = rr::axisRot(a3, (LD)q[2]);
    M3 ref = space ? A3 * A2 * A1 : A1 * A2 * A3;
    Rotation_<P> R; R.setRotationToNaN();
    if (g.boolean()) R = Rotation_<P>(bos, q[0], AX(a1), q[1], AX(a2), q[2], AX(a3));
    else R.setRotationFromThreeAnglesThreeAxes(bos, q[0], AX(a1), q[1], AX(a2), q[2], AX(a3));
    M3 Rm = toM3(R.asMat33());
    if (!valid<P>(ctx, ("three-angle sequence " + tag).c_str(), Rm)) return;
    LD mag = 1 + std::fabs((LD)q[0]) + std::fabs((LD)q[1]) + std::fabs((LD)q[2]);
    if (!judge<P>(ctx, "R:three-angles=product-of-elementary", rr::maxAbsDiff(Rm, ref), 8 * Prec<P>::eps * mag, tag + " q=(" + pbt::str((double)q[0]) + "," + pbt::str((double)q[1]) + "," + pbt::str((double)q[2]) + ") got " + rr::show(Rm) + " want " + rr::show(ref))) return;
    if (a1 == 0 && a2 == 1 && a3 == 2 && !space) {   // the dedicated body-XYZ setters and converters
        Rotation_<P> B; B.setRotationToNaN(); B.setRotationToBodyFixedXYZ(Vec<3, P>(q[0], q[1], q[2]));
        if (!judge<P>(ctx, "R:setRotationToBodyFixedXYZ(v)", rr::maxAbsDiff(toM3(B.asMat33()), ref), 8 * Prec<P>::eps * mag)) return;
        Rotation_<P> C; C.setRotationToNaN(); C.setRotationToBodyFixedXYZ(Vec<3, P>(std::cos(q[0]), std::cos(q[1]), std::cos(q[2])), Vec<3, P>(std::sin(q[0]), std::sin(q[1]), std::sin(q[2])));
        if (!judge<P>(ctx, "R:setRotationToBodyFixedXYZ(c,s)", rr::maxAbsDiff(toM3(C.asMat33()), ref), 8 * Prec<P>::eps * mag)) return;
        Vec<3, P> v1 = R.convertRotationToBodyFixedXYZ(), v2 = R.convertThreeAxesRotationToThreeAngles(BodyRotationSequence, XAxis, YAxis, ZAxis);
        if (!ctx.check(v1 == v2, "convertRotationToBodyFixedXYZ differs from convertThreeAxesRotationToThreeAngles(body XYZ)")) return;
    }
    Vec<3, P> qv; LD d; bool skipped;
    if (!eulerRoundTrip<P>(ctx, R, space, a1, a2, a3, qv, d, skipped)) return;
    // angles themselves: only inside the principal domain and away from the singularity
    if (classical && !skipped) {
        const LD m = 1e-3L; bool iji = a1 == a3;
        bool inDom = std::fabs((LD)q[0]) < rr::PI - m && std::fabs((LD)q[2]) < rr::PI - m &&
                     (iji ? ((LD)q[1] > m && (LD)q[1] < rr::PI - m) : (std::fabs((LD)q[1]) < rr::PI / 2 - m));
        if (inDom) {
            ctx.label("seq3:angles-compared");
            LD e = 0; for (int n = 0; n < 3; ++n) e = std::max(e, std::fabs((LD)qv[n] - (LD)q[n]));
            if (!judge<P>(ctx, "RT:angles-in-principal-domain", e, 64 * Prec<P>::eps * (1 + 1 / d) * 4, tag)) return;
        }
    }
}

// kind 1: general (noisy, reference-built) rotation -> every classical sequence -> rebuilt rotation
template <class P> void kindGeneralToAngles(pbt::Reader& g, pbt::Ctx& ctx) {
    GenRot gr = genRot<P>(g);
    int a1 = g.pick(3), a2 = (a1 + 1 + g.pick(2)) % 3, a3 = g.boolean() ? a1 : 3 - a1 - a2; bool space = g.boolean();
    Rotation_<P> R = trust<P>(gr.R);
    if (g.boolean()) R = Rotation_<P>(R.convertRotationToQuaternion());   // re-orthonormalised, absolute noise on small elements
    if (ctx.wantDesc) ctx.desc << "general->angles region=" << rotRegionName[gr.region] << " seq=" << (space ? "space " : "body ") << a1 << a2 << a3 << " R=" << rr::show(toM3(R.asMat33())) << "\n";
    ctx.label(std::string("general->angles:") + rotRegionName[gr.region]);
    ctx.nontrivial(true);
    Vec<3, P> qv; LD d; bool skipped;
    if (!eulerRoundTrip<P>(ctx, R, space, a1, a2, a3, qv, d, skipped)) return;
    ctx.label(d <= 8e-16L ? "lock:exact-branch" : d < 1e-6L ? "lock:d<1e-6" : d < 1e-2L ? "lock:d<1e-2" : "lock:far");
}

// kind 2: two-angle sequences (all 9 axis pairs, body/space) and the body-XY helpers
template <class P> void kindTwoAngles(pbt::Reader& g, pbt::Ctx& ctx) {
    int a1 = g.pick(3), a2 = g.pick(3); bool space = g.boolean(); if (g.chance(3, 4) && a2 == a1) a2 = (a1 + 1) % 3;
    int reg[2]; P q[2]; for (int n = 0; n < 2; ++n) q[n] = genAngle<P>(g, &reg[n]);
    BodyOrSpaceType bos = space ? SpaceRotationSequence : BodyRotationSequence;
    std::string tag = std::string(space ? "space " : "body ") + "xyz"[a1] + "xyz"[a2];
    if (ctx.wantDesc) ctx.desc << "two-angles " << tag << " q=(" << pbt::str((double)q[0]) << "," << pbt::str((double)q[1]) << ")\n";
    ctx.label(a1 == a2 ? "seq2:same-axis" : "seq2:" + tag);
    ctx.nontrivial(true);
    M3 A1 = rr::axisRot(a1, (LD)q[0]), A2 = rr::axisRot(a2, (LD)q[1]);
    M3 ref = space ? A2 * A1 : A1 * A2;
    Rotation_<P> R; R.setRotationToNaN();
    if (g.boolean()) R = Rotation_<P>(bos, q[0], AX(a1), q[1], AX(a2)); else R.setRotationFromTwoAnglesTwoAxes(bos, q[0], AX(a1), q[1], AX(a2));
    M3 Rm = toM3(R.asMat33());
    if (!valid<P>(ctx, ("two-angle sequence " + tag).c_str(), Rm)) return;
    LD mag = 1 + std::fabs((LD)q[0]) + std::fabs((LD)q[1]);
    if (!judge<P>(ctx, "R:two-angles=product-of-elementary", rr::maxAbsDiff(Rm, ref), 8 * Prec<P>::eps * mag, tag + " q=(" + pbt::str((double)q[0]) + "," + pbt::str((double)q[1]) + ") got " + rr::show(Rm) + " want " + rr::show(ref))) return;
    if (a1 == 0 && a2 == 1 && !space) {
        Rotation_<P> B; B.setRotationToNaN(); B.setRotationToBodyFixedXY(Vec<2, P>(q[0], q[1]));
        if (!judge<P>(ctx, "R:setRotationToBodyFixedXY", rr::maxAbsDiff(toM3(B.asMat33()), ref), 8 * Prec<P>::eps * mag)) return;
        if (!ctx.check(R.convertRotationToBodyFixedXY() == R.convertTwoAxesRotationToTwoAngles(BodyRotationSequence, XAxis, YAxis), "convertRotationToBodyFixedXY differs from the general two-angle conversion")) return;
    }
    Vec<2, P> qv(NTraits<P>::getNaN()); qv = R.convertTwoAxesRotationToTwoAngles(bos, AX(a1), AX(a2));
    for (int n = 0; n < 2; ++n) if (!(std::fabs((LD)qv[n]) <= rr::PI * (1 + 4 * Prec<P>::eps))) { ctx.fail("two-angle conversion " + tag + " returned angle " + pbt::str((double)qv[n]) + " outside [-pi,pi]"); return; }
    Rotation_<P> R2(bos, qv[0], AX(a1), qv[1], AX(a2));
    if (!valid<P>(ctx, "rebuilt from two converted angles", toM3(R2.asMat33()))) return;
    if (!judge<P>(ctx, "RT:two-angles", rr::maxAbsDiff(Rm, toM3(R2.asMat33())), 64 * Prec<P>::eps, tag + " q=(" + pbt::str((double)q[0]) + "," + pbt::str((double)q[1]) + ") converted=(" + pbt::str((double)qv[0]) + "," + pbt::str((double)qv[1]) + ")")) return;
    if (a1 != a2 && std::fabs((LD)q[0]) < rr::PI - 1e-3L && std::fabs((LD)q[1]) < rr::PI - 1e-3L) {   // both angles are well determined everywhere
        LD e = std::max(std::fabs((LD)qv[0] - (LD)q[0]), std::fabs((LD)qv[1] - (LD)q[1]));
        if (!judge<P>(ctx, "RT:two-angles-values", e, 64 * Prec<P>::eps, tag)) return;
    }
}

// kind 3: one-angle forms about a coordinate axis (all overloads) and the one-angle conversion
template <class P> void kindOneAngle(pbt::Reader& g, pbt::Ctx& ctx) {
    int ax = g.pick(3), form = g.pick(5); int reg; P a = genAngle<P>(g, &reg);
    if (ctx.wantDesc) ctx.desc << "one-angle axis=" << ax << " form=" << form << " a=" << pbt::str((double)a) << "\n";
    ctx.label("one-angle:form" + std::to_string(form)); ctx.nontrivial(reg >= 2 || ax != 0);
    Rotation_<P> R; R.setRotationToNaN();
    P c = std::cos(a), s = std::sin(a);
    switch (form) {
        case 0: R = Rotation_<P>(a, AX(ax)); break;
        case 1: R.setRotationFromAngleAboutAxis(a, AX(ax)); break;
        case 2: if (ax == 0) R = Rotation_<P>(a, XAxis); else if (ax == 1) R = Rotation_<P>(a, YAxis); else R = Rotation_<P>(a, ZAxis); break;
        case 3: if (ax == 0) R.setRotationFromAngleAboutX(a); else if (ax == 1) R.setRotationFromAngleAboutY(a); else R.setRotationFromAngleAboutZ(a); break;
        default: if (ax == 0) R.setRotationFromAngleAboutX(c, s); else if (ax == 1) R.setRotationFromAngleAboutY(c, s); else R.setRotationFromAngleAboutZ(c, s); break;
    }
    M3 Rm = toM3(R.asMat33()), ref = rr::axisRot(ax, (LD)a);
    if (!valid<P>(ctx, "one-angle rotation", Rm)) return;
    if (!judge<P>(ctx, "R:one-angle=elementary", rr::maxAbsDiff(Rm, ref), 4 * Prec<P>::eps, "axis " + std::to_string(ax) + " a=" + pbt::str((double)a))) return;
    P b = R.convertOneAxisRotationToOneAngle(AX(ax));
    if (!ctx.check(std::fabs((LD)b) <= rr::PI * (1 + 4 * Prec<P>::eps), "convertOneAxisRotationToOneAngle outside [-pi,pi]: " + pbt::str((double)b))) return;
    LD e = std::fabs(rr::wrapPi((LD)b - (LD)a));
    if (!judge<P>(ctx, "RT:one-angle (mod 2pi)", e, 8 * Prec<P>::eps * (1 + std::fabs((LD)a)), "axis " + std::to_string(ax) + " a=" + pbt::str((double)a) + " back=" + pbt::str((double)b))) return;
    Rotation_<P> R2(b, AX(ax));
    judge<P>(ctx, "RT:one-angle-rotation", rr::maxAbsDiff(Rm, toM3(R2.asMat33())), 16 * Prec<P>::eps);
}

// kind 4: angle-axis: Rodrigues reference, canonical form of the conversion, round trip
template <class P> void kindAngleAxis(pbt::Reader& g, pbt::Ctx& ctx) {
    int reg; P a = genAngle<P>(g, &reg); V3 u = genUnit(g); int form = g.pick(4);
    LD scale = form >= 2 ? (LD)g.logreal(1e-6, 1e6) : 1;
    Vec<3, P> vin = toVec<P>(scale * u);                       // what the library receives
    V3 uref = rr::unit(toV3(vin));                             // exact direction of that input
    if (ctx.wantDesc) ctx.desc << "angle-axis form=" << form << " a=" << pbt::str((double)a) << " v=" << rr::show(toV3(vin)) << "\n";
    ctx.label("angle-axis:form" + std::to_string(form)); ctx.nontrivial(true);
    Rotation_<P> R; R.setRotationToNaN();
    switch (form) {
        case 0: R = Rotation_<P>(a, UnitVec<P, 1>(vin)); break;
        case 1: R.setRotationFromAngleAboutUnitVector(a, UnitVec<P, 1>(vin)); break;
        case 2: R = Rotation_<P>(a, vin); break;
        default: R.setRotationFromAngleAboutNonUnitVector(a, vin); break;
    }
    M3 Rm = toM3(R.asMat33()), ref = rr::rodrigues((LD)a, uref);
    if (!valid<P>(ctx, "angle-axis rotation", Rm)) return;
    if (!judge<P>(ctx, "R:angle-axis=Rodrigues", rr::maxAbsDiff(Rm, ref), 16 * Prec<P>::eps * (1 + std::fabs((LD)a)), "a=" + pbt::str((double)a) + " u=" + rr::show(uref))) return;
    Vec<4, P> av(NTraits<P>::getNaN()); av = R.convertRotationToAngleAxis();
    V3 v((LD)av[1], (LD)av[2], (LD)av[3]);
    if (!ctx.check(std::isfinite((double)av[0]) && (LD)av[0] > -rr::PI * (1 + 4 * Prec<P>::eps) && (LD)av[0] <= rr::PI * (1 + 4 * Prec<P>::eps), "convertRotationToAngleAxis angle not in (-pi,pi]: " + pbt::str((double)av[0]))) return;
    if (!judge<P>(ctx, "V:angle-axis |v|=1", std::fabs(rr::norm(v) - 1), 8 * Prec<P>::eps)) return;
    M3 back = rr::rodrigues((LD)av[0], rr::unit(v));
    if (!judge<P>(ctx, "RT:angle-axis reproduces R (reference Rodrigues)", rr::maxAbsDiff(Rm, back), 32 * Prec<P>::eps, "a=" + pbt::str((double)a) + " -> (" + pbt::str((double)av[0]) + "," + rr::show(v) + ")")) return;
    Rotation_<P> R2(av[0], UnitVec<P, 1>(Vec<3, P>(av[1], av[2], av[3])));
    if (!judge<P>(ctx, "RT:angle-axis reproduces R (library)", rr::maxAbsDiff(Rm, toM3(R2.asMat33())), 32 * Prec<P>::eps)) return;
    // the angle itself: |angle| equals the rotation angle of the input, conditioned like 1/sin near pi
    LD want = std::fabs(rr::wrapPi((LD)a)), got = std::fabs((LD)av[0]);
    LD cond = 1;   // Spurrier extraction keeps absolute accuracy eps in the quaternion, so the angle is well conditioned everywhere
    if (!judge<P>(ctx, "RT:angle value", std::fabs(want - got), 32 * Prec<P>::eps * (1 + std::fabs((LD)a)) * cond + 64 * Prec<P>::eps, "a=" + pbt::str((double)a) + " got " + pbt::str((double)av[0]))) return;
    // quaternion <-> angle-axis helpers of Quaternion_
    Quaternion_<P> qa; qa.setQuaternionFromAngleAxis(a, UnitVec<P, 1>(vin));
    LD ca = std::cos((LD)a / 2), sa = std::sin((LD)a / 2); if (ca < 0) { ca = -ca; sa = -sa; }
    LD e = std::fabs((LD)qa[0] - ca); for (int n = 0; n < 3; ++n) e = std::max(e, std::fabs((LD)qa[n + 1] - sa * uref[n]));
    if (std::fabs(std::cos((LD)a / 2)) > 1e-3L)   // sign of the canonical form is only determined away from cos(a/2)=0
        if (!judge<P>(ctx, "R:setQuaternionFromAngleAxis", e, 8 * Prec<P>::eps * (1 + std::fabs((LD)a)))) return;
    if (!ctx.check((LD)qa[0] >= 0, "setQuaternionFromAngleAxis result not canonical (q0<0)")) return;
    Quaternion_<P> qb; qb.setQuaternionFromAngleAxis(Vec<4, P>(a, vin[0], vin[1], vin[2]));
    LD e2 = 0; for (int n = 0; n < 4; ++n) e2 = std::max(e2, std::fabs((LD)qb[n] - (LD)qa[n]));
    // documented: |a| < eps is treated as zero rotation
    if (!judge<P>(ctx, "D:setQuaternionFromAngleAxis(Vec4)=(a,v) form", e2, 8 * Prec<P>::eps * (1 + std::fabs((LD)a)))) return;
    Vec<4, P> av2 = qa.convertQuaternionToAngleAxis();
    M3 back2 = rr::rodrigues((LD)av2[0], rr::unit(V3((LD)av2[1], (LD)av2[2], (LD)av2[3])));
    judge<P>(ctx, "RT:quaternion->angle-axis", rr::maxAbsDiff(back2, ref), 32 * Prec<P>::eps * (1 + std::fabs((LD)a)));
}

// kind 5: quaternion <-> rotation; Spurrier branches; Quaternion_ normalisation and product
template <class P> void kindQuaternion(pbt::Reader& g, pbt::Ctx& ctx) {
    GenRot gr = genRot<P>(g); Rotation_<P> R = trust<P>(gr.R); M3 Rm = toM3(R.asMat33());
    if (ctx.wantDesc) ctx.desc << "quaternion region=" << rotRegionName[gr.region] << " R=" << rr::show(Rm) << "\n";
    ctx.nontrivial(true);
    LD trc = rr::trace(Rm); int br = (trc >= Rm[0][0] && trc >= Rm[1][1] && trc >= Rm[2][2]) ? 0 : (Rm[0][0] >= Rm[1][1] && Rm[0][0] >= Rm[2][2]) ? 1 : (Rm[1][1] >= Rm[2][2]) ? 2 : 3;
    ctx.label("quat:branch" + std::to_string(br)); ctx.label(std::string("quat:") + rotRegionName[gr.region]);
    Quaternion_<P> q = g.boolean() ? R.convertRotationToQuaternion() : Quaternion_<P>(R);
    LD ql[4], n2 = 0; for (int n = 0; n < 4; ++n) { ql[n] = (LD)q[n]; n2 += ql[n] * ql[n]; }
    if (!ctx.check(std::isfinite((double)n2), "convertRotationToQuaternion returned non-finite quaternion for R=" + rr::show(Rm))) return;
    if (!judge<P>(ctx, "V:quaternion unit norm", std::fabs(std::sqrt(n2) - 1), 4 * Prec<P>::eps)) return;
    if (!ctx.check(ql[0] >= 0, "convertRotationToQuaternion not canonical: q0=" + pbt::str((double)ql[0]))) return;
    if (!judge<P>(ctx, "RT:R->quaternion->R (reference formula)", rr::maxAbsDiff(rr::fromQuat(ql), Rm), 16 * Prec<P>::eps, "q=(" + pbt::str((double)ql[0]) + "," + pbt::str((double)ql[1]) + "," + pbt::str((double)ql[2]) + "," + pbt::str((double)ql[3]) + ") R=" + rr::show(Rm))) return;
    Rotation_<P> R2; R2.setRotationToNaN(); if (g.boolean()) R2 = Rotation_<P>(q); else R2.setRotationFromQuaternion(q);
    if (!valid<P>(ctx, "rotation from quaternion", toM3(R2.asMat33()))) return;
    if (!judge<P>(ctx, "RT:R->quaternion->R (library)", rr::maxAbsDiff(toM3(R2.asMat33()), Rm), 16 * Prec<P>::eps)) return;
    // non-canonical quaternion (-q, same rotation): angle-axis conversion must still be canonical and reproduce R
    { Quaternion_<P> qneg(Vec<4, P>(-q[0], -q[1], -q[2], -q[3]), true); Vec<4, P> av = g.boolean() ? qneg.convertQuaternionToAngleAxis() : q.convertQuaternionToAngleAxis();
      if (!ctx.check(std::isfinite((double)av[0]) && (LD)av[0] > -rr::PI * (1 + 4 * Prec<P>::eps) && (LD)av[0] <= rr::PI * (1 + 4 * Prec<P>::eps), "convertQuaternionToAngleAxis angle not in (-pi,pi]: " + pbt::str((double)av[0]))) return;
      V3 v((LD)av[1], (LD)av[2], (LD)av[3]);
      if (!judge<P>(ctx, "V:angle-axis |v|=1", std::fabs(rr::norm(v) - 1), 8 * Prec<P>::eps)) return;
      if (!judge<P>(ctx, "RT:(+-q)->angle-axis reproduces R", rr::maxAbsDiff(rr::rodrigues((LD)av[0], rr::unit(v)), Rm), 32 * Prec<P>::eps, "q0=" + pbt::str((double)ql[0]))) return; }
    // second rotation: product of quaternions == composition of rotations; Hamilton reference
    GenRot gs = genRot<P>(g); Rotation_<P> S = trust<P>(gs.R); Quaternion_<P> p = S.convertRotationToQuaternion();
    Quaternion_<P> pq = g.boolean() ? q * p : q.multiply(p);
    LD pl[4], hl[4]; for (int n = 0; n < 4; ++n) pl[n] = (LD)p[n]; rr::quatMul(ql, pl, hl);
    LD e = 0; for (int n = 0; n < 4; ++n) e = std::max(e, std::fabs((LD)pq[n] - hl[n]));
    if (!judge<P>(ctx, "R:quaternion product=Hamilton", e, 8 * Prec<P>::eps)) return;
    LD pql[4]; for (int n = 0; n < 4; ++n) pql[n] = (LD)pq[n];
    if (!judge<P>(ctx, "R:R(q*p)=R(q)R(p)", rr::maxAbsDiff(rr::fromQuat(pql), Rm * toM3(S.asMat33())), 32 * Prec<P>::eps)) return;
    // constructors normalise: scaled copies give the same unit quaternion
    LD sc = (LD)g.logreal(1e-6, 1e6); if (g.boolean()) sc = -sc;
    Vec<4, P> raw((P)(sc * ql[0]), (P)(sc * ql[1]), (P)(sc * ql[2]), (P)(sc * ql[3]));
    Quaternion_<P> qn = g.boolean() ? Quaternion_<P>(raw) : Quaternion_<P>(raw[0], raw[1], raw[2], raw[3]);
    LD rn = 0; for (int n = 0; n < 4; ++n) rn += (LD)raw[n] * (LD)raw[n]; rn = std::sqrt(rn);
    LD en = 0; for (int n = 0; n < 4; ++n) en = std::max(en, std::fabs((LD)qn[n] - (LD)raw[n] / rn));
    if (!judge<P>(ctx, "R:Quaternion_ constructor normalises", en, 4 * Prec<P>::eps)) return;
    Quaternion_<P> qr(raw, true); Quaternion_<P> qm = qr.normalize();
    LD em = 0; for (int n = 0; n < 4; ++n) em = std::max(em, std::fabs((LD)qm[n] - (LD)raw[n] / rn));
    if (!judge<P>(ctx, "R:Quaternion_::normalize", em, 4 * Prec<P>::eps)) return;
    if (!ctx.check(Quaternion_<P>(Vec<4, P>(0, 0, 0, 0))[0] == 1 && Quaternion_<P>()[0] == 1, "zero / default quaternion must become [1 0 0 0]")) return;
}

// kind 6: setRotationFromOneAxis / setRotationFromTwoAxes, all axis pairs
template <class P> void kindAxes(pbt::Reader& g, pbt::Ctx& ctx) {
    int ai = g.pick(3), aj = g.pick(3); bool one = g.chance(1, 5);
    V3 u0 = genUnit(g); UnitVec<P, 1> u(toVec<P>(u0)); V3 ul = toV3(u.asVec3());
    int vmode = g.pick(6); V3 vdir = genUnit(g); LD sc = (LD)g.logreal(1e-6, 1e6);
    V3 v;
    switch (vmode) { default: case 0: case 1: v = sc * vdir; break;
        case 2: { V3 p = anyPerp(ul, vdir); LD th = std::pow((LD)10, -(LD)(1 + g.pick(12))); v = sc * (std::cos(th) * ul + std::sin(th) * p); break; }   // nearly parallel
        case 3: v = sc * (g.boolean() ? ul : -ul); break;                         // parallel / antiparallel
        case 4: v = V3(0, 0, 0); break;
        case 5: { V3 p = anyPerp(ul, vdir); v = sc * p; break; } }     // already perpendicular
    Vec<3, P> vin = toVec<P>(v); V3 vl = toV3(vin);
    if (ctx.wantDesc) ctx.desc << (one ? "one-axis" : "two-axes") << " axis_i=" << ai << " axis_j=" << aj << " u=" << rr::show(ul) << " v=" << rr::show(vl) << "\n";
    ctx.nontrivial(true);
    Rotation_<P> R; R.setRotationToNaN();
    if (one) { ctx.label("axes:one-axis"); if (g.boolean()) R = Rotation_<P>(u, AX(ai)); else R.setRotationFromOneAxis(u, AX(ai)); }
    else { ctx.label(ai == aj ? "axes:two-axes-same" : "axes:two-axes"); if (g.boolean()) R = Rotation_<P>(u, AX(ai), vin, AX(aj)); else R.setRotationFromTwoAxes(u, AX(ai), vin, AX(aj)); }
    M3 Rm = toM3(R.asMat33());
    LD vn = rr::norm(vl), sinth = vn > 0 ? rr::norm(rr::cross(ul, vl)) / vn : 0;
    bool twoAx = !one && ai != aj && vn > 0;
    // known finding twoaxes-nearly-parallel-not-orthonormal: u x v is perpendicular to u only to eps/sin(theta); the third
    // axis is taken from it without re-orthogonalisation, so R^T R - I ~ eps/sin(theta) (1e-3 in float just outside the
    // parallel fallback). Site: two different axes, v not (treated as) parallel, sin(theta) < 0.25. Inside the site the
    // strict 16 eps branch is replaced by the conditioning-scaled bound 64 eps / sin(theta) when the finding is listed.
    LD factor = 1;
    if (twoAx && sinth < 0.25L && sinth >= 5e-5L) { ctx.label("axes:site-nearly-parallel"); if (ctx.known("twoaxes-nearly-parallel-not-orthonormal")) { ctx.label("excluded:twoaxes-nearly-parallel-not-orthonormal"); factor = 4 / sinth; } }
    if (!valid<P>(ctx, one ? "setRotationFromOneAxis" : "setRotationFromTwoAxes", Rm, factor)) return;
    if (!ctx.check(rr::maxAbs(Rm.col(ai) - ul) == 0, "column " + std::to_string(ai) + " is not the given unit vector: " + rr::show(Rm.col(ai)) + " vs " + rr::show(ul))) return;
    if (one || ai == aj) return;
    if (vn == 0) { ctx.label("axes:zero-v"); return; }
    V3 perp = vl - rr::dot(vl, ul) * ul;
    ctx.label(sinth < 5e-5L ? "axes:parallel-fallback" : sinth < 2e-4L ? "axes:threshold-band" : sinth < 1e-2L ? "axes:nearly-parallel" : "axes:generic");
    if (sinth < 2e-4L) return;      // documented fallback: |u x v|^2 < SqrtEps |v|^2  (sin < 1.2e-4): any perpendicular allowed
    V3 want = rr::unit(perp);
    judge<P>(ctx, "R:two-axes second axis = normalised projection of v", rr::maxAbs(Rm.col(aj) - want), 16 * Prec<P>::eps / sinth, "u=" + rr::show(ul) + " v=" + rr::show(vl) + " got " + rr::show(Rm.col(aj)) + " want " + rr::show(want));
}

// kind 7: setRotationFromApproximateMat33 / Rotation_(Mat33): proper result, near the input, identity on rotations
template <class P> void kindApprox(pbt::Reader& g, pbt::Ctx& ctx) {
    GenRot gr = genRot<P>(g); int k = g.pick(14); LD delta = k == 0 ? 0 : std::pow((LD)10, -(LD)(k + 1));   // 0, 1e-2 .. 1e-14
    M3 M = gr.R; for (int i = 0; i < 3; ++i) for (int j = 0; j < 3; ++j) M[i][j] += delta * (2 * (LD)g.unit() - 1);
    Mat<3, 3, P> Min = toMat<P>(M); M3 Ml = toM3(Min);
    if (ctx.wantDesc) ctx.desc << "approx-mat33 region=" << rotRegionName[gr.region] << " delta=" << (double)delta << " M=" << rr::show(Ml) << "\n";
    ctx.label(delta == 0 ? "approx:exact-rotation" : delta >= 1e-6L ? "approx:delta>=1e-6" : "approx:delta<1e-6"); ctx.nontrivial(true);
    Rotation_<P> R; R.setRotationToNaN(); if (g.boolean()) R = Rotation_<P>(Min); else R.setRotationFromApproximateMat33(Min);
    M3 Rm = toM3(R.asMat33());
    if (!valid<P>(ctx, "setRotationFromApproximateMat33", Rm)) return;
    judge<P>(ctx, "R:approximate Mat33 -> nearby rotation", rr::maxAbsDiff(Rm, gr.R), 16 * Prec<P>::eps + 8 * delta, "delta=" + pbt::str((double)delta) + " M=" + rr::show(Ml) + " got " + rr::show(Rm));
}

// kind 8: composition / inversion / re-expression of Rotation_ and InverseRotation_ vs 3x3 matrix algebra
template <class P> void kindCompose(pbt::Reader& g, pbt::Ctx& ctx) {
    GenRot g1 = genRot<P>(g), g2 = genRot<P>(g); Rotation_<P> R = trust<P>(g1.R), S = trust<P>(g2.R);
    M3 Rm = toM3(R.asMat33()), Sm = toM3(S.asMat33()); const LD eps = Prec<P>::eps;
    int op = g.pick(12);
    if (ctx.wantDesc) ctx.desc << "compose op=" << op << " R=" << rr::show(Rm) << " S=" << rr::show(Sm) << "\n";
    ctx.label("compose:op" + std::to_string(op)); ctx.nontrivial(true);
    Rotation_<P> T; T.setRotationToNaN(); M3 ref; const char* nm = "";
    switch (op) {
        case 0: T = R * S; ref = Rm * Sm; nm = "R*S"; break;
        case 1: T = R * ~S; ref = Rm * rr::tr(Sm); nm = "R*~S"; break;
        case 2: T = ~R * S; ref = rr::tr(Rm) * Sm; nm = "~R*S"; break;
        case 3: T = ~R * ~S; ref = rr::tr(Rm) * rr::tr(Sm); nm = "~R*~S"; break;
        case 4: T = R / S; ref = Rm * rr::tr(Sm); nm = "R/S"; break;
        case 5: T = ~R / S; ref = rr::tr(Rm) * rr::tr(Sm); nm = "~R/S"; break;
        case 6: T = ~R / ~S; ref = rr::tr(Rm) * Sm; nm = "~R/~S"; break;
        case 7: T = R; T *= S; ref = Rm * Sm; nm = "R*=S"; break;
        case 8: T = R; T *= ~S; ref = Rm * rr::tr(Sm); nm = "R*=~S"; break;
        case 9: T = R; T /= S; ref = Rm * rr::tr(Sm); nm = "R/=S"; break;
        case 10: T = R; T /= ~S; ref = Rm * Sm; nm = "R/=~S"; break;
        default: { Rotation_<P> A(~R); T = ~S; T = T * A; ref = rr::tr(Sm) * rr::tr(Rm); nm = "Rotation_(~R), =~S"; break; }
    }
    M3 Tm = toM3(T.asMat33());
    if (!valid<P>(ctx, nm, Tm)) return;
    if (!judge<P>(ctx, "M:composition=matrix product", rr::maxAbsDiff(Tm, ref), 8 * eps, nm)) return;
    // accessors and inversion views
    M3 Ri = toM3((~R).asMat33()), Rii = toM3((~(~R)).asMat33());
    if (!ctx.check(rr::maxAbsDiff(Ri, rr::tr(Rm)) == 0 && rr::maxAbsDiff(Rii, Rm) == 0 && rr::maxAbsDiff(toM3(R.invert().toMat33()), rr::tr(Rm)) == 0 && rr::maxAbsDiff(toM3(R.transpose().asMat33()), rr::tr(Rm)) == 0, "~R / invert() / transpose() is not the exact transpose")) return;
    for (int i = 0; i < 3; ++i) {
        if (!ctx.check(rr::maxAbs(toV3(R.row(i).asRow3()) - Rm.row(i)) == 0 && rr::maxAbs(toV3(R.col(i).asVec3()) - Rm.col(i)) == 0 && rr::maxAbs(toV3(R[i].asRow3()) - Rm.row(i)) == 0 && rr::maxAbs(toV3(R(i).asVec3()) - Rm.col(i)) == 0, "row()/col()/[]/() accessors of Rotation_ wrong")) return;
        if (!ctx.check(rr::maxAbs(toV3((~R).row(i).asRow3()) - Rm.col(i)) == 0 && rr::maxAbs(toV3((~R).col(i).asVec3()) - Rm.row(i)) == 0, "row()/col() accessors of InverseRotation_ wrong")) return;
        if (!ctx.check(rr::maxAbs(toV3(R.getAxisUnitVec(AX(i)).asVec3()) - Rm.col(i)) == 0 && rr::maxAbs(toV3(R.getAxisUnitVec(CoordinateDirection(AX(i), -1)).asVec3()) + Rm.col(i)) == 0 && rr::maxAbs(toV3((~R).getAxisUnitVec(CoordinateDirection(AX(i), 1)).asVec3()) - Rm.row(i)) == 0, "getAxisUnitVec wrong")) return;
    }
    if (!ctx.check(rr::maxAbs(toV3(R.x().asVec3()) - Rm.col(0)) == 0 && rr::maxAbs(toV3(R.y().asVec3()) - Rm.col(1)) == 0 && rr::maxAbs(toV3(R.z().asVec3()) - Rm.col(2)) == 0, "x()/y()/z() wrong")) return;
    // vectors
    V3 v0 = genVec(g); Vec<3, P> v = toVec<P>(v0); V3 vl = toV3(v); LD vs = rr::norm(vl);
    if (!judge<P>(ctx, "M:R*v", rr::maxAbs(toV3(R * v) - Rm * vl), 4 * eps * vs)) return;
    if (!judge<P>(ctx, "M:~R*v", rr::maxAbs(toV3(~R * v) - rr::tr(Rm) * vl), 4 * eps * vs)) return;
    if (!judge<P>(ctx, "M:~v*R", rr::maxAbs(toV3(~v * R) - rr::tr(Rm) * vl), 4 * eps * vs)) return;
    UnitVec<P, 1> u(v); V3 ul = toV3(u.asVec3());
    UnitVec<P, 1> Ru = R * u, Rtu = ~R * u; UnitRow<P, 1> uR = ~u * R, uRt = ~u * ~R;
    if (!judge<P>(ctx, "M:R*UnitVec", rr::maxAbs(toV3(Ru.asVec3()) - Rm * ul), 4 * eps)) return;
    if (!judge<P>(ctx, "M:~R*UnitVec", rr::maxAbs(toV3(Rtu.asVec3()) - rr::tr(Rm) * ul), 4 * eps)) return;
    if (!judge<P>(ctx, "M:UnitRow*R", rr::maxAbs(toV3(uR.asRow3()) - rr::tr(Rm) * ul), 4 * eps)) return;
    if (!judge<P>(ctx, "M:UnitRow*~R", rr::maxAbs(toV3(uRt.asRow3()) - Rm * ul), 4 * eps)) return;
    if (!judge<P>(ctx, "V:rotated UnitVec stays unit", std::fabs(rr::norm(toV3(Ru.asVec3())) - 1), 8 * eps)) return;
    // symmetric matrix re-expression  S_AA = R S_BB ~R   (Rotation_ and InverseRotation_ implementations)
    SymMat<3, P> Y; M3 Yl; { LD sc = (LD)g.logreal(1e-3, 1e3); for (int i = 0; i < 3; ++i) for (int j = 0; j <= i; ++j) { P x = (P)(sc * (2 * (LD)g.unit() - 1)); Y(i, j) = x; } Yl = toM3(Y); }
    LD ys = rr::maxAbs(Yl);
    if (!judge<P>(ctx, "M:Rotation::reexpressSymMat33", rr::maxAbsDiff(toM3(R.reexpressSymMat33(Y)), Rm * Yl * rr::tr(Rm)), 16 * eps * ys)) return;
    if (!judge<P>(ctx, "M:InverseRotation::reexpressSymMat33", rr::maxAbsDiff(toM3((~R).reexpressSymMat33(Y)), rr::tr(Rm) * Yl * Rm), 16 * eps * ys)) return;
    // comparison queries
    LD mad = rr::maxAbsDiff(Rm, Sm);
    if (!judge<P>(ctx, "M:getMaxAbsDifferenceInRotationElements", std::fabs((LD)R.getMaxAbsDifferenceInRotationElements(S) - mad), eps * (mad + eps))) return;   // the library rounds each a-b once
    if (mad > 0) if (!ctx.check(R.areAllRotationElementsSameToEpsilon(S, (P)(mad * 2)) && (mad < 100 * eps || !R.areAllRotationElementsSameToEpsilon(S, (P)(mad / 2))), "areAllRotationElementsSameToEpsilon inconsistent with the max difference")) return;
    if (!ctx.check(R.areAllRotationElementsSameToMachinePrecision(R) && R.isSameRotationToWithinAngleOfMachinePrecision(R), "a rotation is not the same as itself")) return;
    LD ang = rr::rotAngle(rr::tr(Rm) * Sm);     // pointing error between R and S
    if (ang > 1e4L * eps) {
        bool lo = R.isSameRotationToWithinAngle(S, (P)std::min(rr::PI, ang * 1.01L)), hi = R.isSameRotationToWithinAngle(S, (P)(ang * 0.99L));
        if (!ctx.check((lo || ang * 1.01L > rr::PI) && !hi, "isSameRotationToWithinAngle wrong around the true pointing error " + pbt::str((double)ang) + ": within(1.01a)=" + std::to_string(lo) + " within(0.99a)=" + std::to_string(hi))) return;
    }
}

// 4x4 reference for transforms: (R,p)
struct X4 { M3 R; V3 p; };
inline X4 xmul(const X4& a, const X4& b) { X4 r; r.R = a.R * b.R; r.p = a.p + a.R * b.p; return r; }
inline X4 xinv(const X4& a) { X4 r; r.R = rr::tr(a.R); r.p = -(r.R * a.p); return r; }
template <class P> X4 toX4(const Transform_<P>& X) { X4 r; r.R = toM3(X.R().asMat33()); r.p = toV3(X.p()); return r; }

// kind 9: Transform_/InverseTransform_ compose, invert, re-express vs 4x4 algebra
template <class P> void kindTransform(pbt::Reader& g, pbt::Ctx& ctx) {
    const LD eps = Prec<P>::eps;
    GenRot g1 = genRot<P>(g), g2 = genRot<P>(g);
    Vec<3, P> p1 = toVec<P>(genVec(g)), p2 = toVec<P>(genVec(g)); if (g.chance(1, 8)) p1 = Vec<3, P>(0); if (g.chance(1, 8)) p2 = Vec<3, P>(0);
    Transform_<P> X(trust<P>(g1.R), p1), Y; Y.set(trust<P>(g2.R), p2);
    X4 x = toX4(X), y = toX4(Y); LD sc = 1 + rr::norm(x.p) + rr::norm(y.p);
    int op = g.pick(4);
    if (ctx.wantDesc) ctx.desc << "transform op=" << op << " X.R=" << rr::show(x.R) << " X.p=" << rr::show(x.p) << " Y.R=" << rr::show(y.R) << " Y.p=" << rr::show(y.p) << "\n";
    ctx.label("transform:compose" + std::to_string(op)); ctx.nontrivial(true);
    Transform_<P> Z; Z.setToNaN(); X4 ref; const char* nm;
    switch (op) {
        case 0: Z = g.boolean() ? X * Y : X.compose(Y); ref = xmul(x, y); nm = "X*Y"; break;
        case 1: Z = g.boolean() ? X * ~Y : X.compose(~Y); ref = xmul(x, xinv(y)); nm = "X*~Y"; break;
        case 2: Z = g.boolean() ? ~X * Y : (~X).compose(Y); ref = xmul(xinv(x), y); nm = "~X*Y"; break;
        default: Z = g.boolean() ? ~X * ~Y : (~X).compose(~Y); ref = xmul(xinv(x), xinv(y)); nm = "~X*~Y"; break;
    }
    X4 z = toX4(Z);
    if (!valid<P>(ctx, nm, z.R)) return;
    if (!judge<P>(ctx, "M:transform composition R", rr::maxAbsDiff(z.R, ref.R), 8 * eps, nm)) return;
    if (!judge<P>(ctx, "M:transform composition p", rr::maxAbs(z.p - ref.p), 8 * eps * sc, nm)) return;
    // inversion: Transform_ from InverseTransform_ (conversion and assignment into a DIFFERENT object), X*~X = identity
    Transform_<P> Xi(~X), Xj; Xj.setToNaN(); Xj = ~X; InverseTransform_<P> IY; IY = Y;     // IY represents Y (stores its inverse)
    X4 xi = toX4(Xi), xr = xinv(x);
    if (!ctx.check(rr::maxAbsDiff(xi.R, xr.R) == 0, "Transform_(~X): rotation is not the exact transpose")) return;
    if (!judge<P>(ctx, "M:Transform_(~X)=inverse p", rr::maxAbs(xi.p - xr.p), 8 * eps * sc)) return;
    if (!ctx.check(Xj == Xi, "assignment from InverseTransform_ differs from conversion")) return;
    X4 iy = toX4(Transform_<P>(IY));
    if (!ctx.check(rr::maxAbsDiff(iy.R, y.R) == 0, "InverseTransform_ = Transform_ changed the rotation")) return;
    if (!judge<P>(ctx, "M:InverseTransform_=Transform_ keeps meaning (p)", rr::maxAbs(iy.p - y.p), 16 * eps * sc)) return;
    // in-place inversion X = ~X (the source comment of Transform_::operator=(InverseTransform_) says it is supported)
    { Transform_<P> W5 = X; ctx.label("transform:inplace-invert");
      if (ctx.known("transform-inplace-invert-aliasing")) ctx.label("excluded:transform-inplace-invert-aliasing");
      else { W5 = ~W5; X4 w5 = toX4(W5); if (!judge<P>(ctx, "M:in-place X=~X", std::max(rr::maxAbsDiff(w5.R, xr.R), rr::maxAbs(w5.p - xr.p) / sc), 8 * eps, "X.R=" + rr::show(x.R) + " result R=" + rr::show(w5.R))) return; } }
    X4 id = toX4(X * ~X);
    if (!judge<P>(ctx, "M:X*~X=identity", std::max(rr::maxAbsDiff(id.R, rr::ident()), rr::maxAbs(id.p) / sc), 16 * eps)) return;
    // vectors and stations through X and ~X
    Vec<3, P> v = toVec<P>(genVec(g)); V3 vl = toV3(v); LD vs = rr::norm(vl) + sc;
    if (!judge<P>(ctx, "M:xformFrameVecToBase", rr::maxAbs(toV3(X.xformFrameVecToBase(v)) - x.R * vl), 4 * eps * vs)) return;
    if (!judge<P>(ctx, "M:xformBaseVecToFrame", rr::maxAbs(toV3(X.xformBaseVecToFrame(v)) - rr::tr(x.R) * vl), 4 * eps * vs)) return;
    if (!judge<P>(ctx, "M:shiftFrameStationToBase", rr::maxAbs(toV3(X.shiftFrameStationToBase(v)) - (x.p + x.R * vl)), 8 * eps * vs)) return;
    if (!judge<P>(ctx, "M:shiftBaseStationToFrame", rr::maxAbs(toV3(X.shiftBaseStationToFrame(v)) - rr::tr(x.R) * (vl - x.p)), 8 * eps * vs)) return;
    if (!judge<P>(ctx, "M:X*v", rr::maxAbs(toV3(X * v) - (x.p + x.R * vl)), 8 * eps * vs)) return;
    if (!judge<P>(ctx, "M:~X*v", rr::maxAbs(toV3(~X * v) - rr::tr(x.R) * (vl - x.p)), 8 * eps * vs)) return;
    if (!judge<P>(ctx, "M:(~X).xformFrameVecToBase", rr::maxAbs(toV3((~X).xformFrameVecToBase(v)) - rr::tr(x.R) * vl), 4 * eps * vs)) return;
    if (!judge<P>(ctx, "M:(~X).xformBaseVecToFrame", rr::maxAbs(toV3((~X).xformBaseVecToFrame(v)) - x.R * vl), 4 * eps * vs)) return;
    if (!judge<P>(ctx, "M:(~X).shiftFrameStationToBase", rr::maxAbs(toV3((~X).shiftFrameStationToBase(v)) - rr::tr(x.R) * (vl - x.p)), 8 * eps * vs)) return;
    if (!judge<P>(ctx, "M:(~X).shiftBaseStationToFrame", rr::maxAbs(toV3((~X).shiftBaseStationToFrame(v)) - (x.p + x.R * vl)), 8 * eps * vs)) return;
    Vec<4, P> a0(v[0], v[1], v[2], 0), a1(v[0], v[1], v[2], 1); Vec<4, P> b0 = X * a0, b1 = X * a1, c0 = ~X * a0, c1 = ~X * a1;
    if (!ctx.check(b0[3] == 0 && b1[3] == 1 && c0[3] == 0 && c1[3] == 1, "4th element of augmented vector not preserved")) return;
    if (!judge<P>(ctx, "M:X*Vec4(w=0)", rr::maxAbs(V3((LD)b0[0], (LD)b0[1], (LD)b0[2]) - x.R * vl), 4 * eps * vs)) return;
    if (!judge<P>(ctx, "M:X*Vec4(w=1)", rr::maxAbs(V3((LD)b1[0], (LD)b1[1], (LD)b1[2]) - (x.p + x.R * vl)), 8 * eps * vs)) return;
    if (!judge<P>(ctx, "M:~X*Vec4(w=0)", rr::maxAbs(V3((LD)c0[0], (LD)c0[1], (LD)c0[2]) - rr::tr(x.R) * vl), 4 * eps * vs)) return;
    if (!judge<P>(ctx, "M:~X*Vec4(w=1)", rr::maxAbs(V3((LD)c1[0], (LD)c1[1], (LD)c1[2]) - rr::tr(x.R) * (vl - x.p)), 8 * eps * vs)) return;
    // translation accessors
    if (!judge<P>(ctx, "M:pInv", rr::maxAbs(toV3(X.pInv()) - xr.p), 8 * eps * sc)) return;
    if (!judge<P>(ctx, "M:(~X).p", rr::maxAbs(toV3((~X).p()) - xr.p), 8 * eps * sc)) return;
    if (!ctx.check((~X).pInv() == X.p() && toM3((~X).R().asMat33()).m[0][1] == x.R[1][0] && toM3(X.RInv().asMat33()).m[0][1] == x.R[1][0] && toM3((~X).RInv().asMat33()).m[0][1] == x.R[0][1], "R()/RInv()/pInv() views of Transform_/InverseTransform_ inconsistent")) return;
    { Transform_<P> W = X; W.setPInv(v); if (!judge<P>(ctx, "RT:setPInv/pInv", rr::maxAbs(toV3(W.pInv()) - vl), 16 * eps * vs)) return;
      Transform_<P> W2 = X; (~W2).setP(v); if (!judge<P>(ctx, "RT:InverseTransform_::setP/p", rr::maxAbs(toV3((~W2).p()) - vl), 16 * eps * vs)) return;
      Transform_<P> W3 = X; (~W3).setPInv(v); if (!ctx.check(W3.p() == v, "InverseTransform_::setPInv must set the stored translation")) return;
      Transform_<P> W4 = X; W4.setP(v); W4.updP() += v; W4 += v; W4 -= v; W4 = W4 - v; W4 = W4 + v; W4 = v + W4; if (!judge<P>(ctx, "M:translation arithmetic", rr::maxAbs(toV3(W4.p()) - 3 * vl), 16 * eps * vs)) return; }
    // matrix views
    Mat<4, 4, P> m44 = X.toMat44(), i44 = (~X).toMat44(); Mat<3, 4, P> m34 = X.toMat34(), a34 = X.asMat34(), i34 = (~X).toMat34();
    LD e = 0, ei = 0;
    for (int i = 0; i < 3; ++i) { for (int j = 0; j < 3; ++j) { e = std::max(e, std::fabs((LD)m44(i, j) - x.R[i][j])); e = std::max(e, std::fabs((LD)m34(i, j) - x.R[i][j])); e = std::max(e, std::fabs((LD)a34(i, j) - x.R[i][j])); ei = std::max(ei, std::fabs((LD)i44(i, j) - xr.R[i][j])); ei = std::max(ei, std::fabs((LD)i34(i, j) - xr.R[i][j])); }
        e = std::max(e, std::fabs((LD)m44(i, 3) - x.p[i])); e = std::max(e, std::fabs((LD)m34(i, 3) - x.p[i])); e = std::max(e, std::fabs((LD)a34(i, 3) - x.p[i])); ei = std::max(ei, std::fabs((LD)i44(i, 3) - xr.p[i]) / sc); ei = std::max(ei, std::fabs((LD)i34(i, 3) - xr.p[i]) / sc); }
    if (!ctx.check(e == 0 && m44(3, 0) == 0 && m44(3, 1) == 0 && m44(3, 2) == 0 && m44(3, 3) == 1 && i44(3, 0) == 0 && i44(3, 3) == 1, "toMat44/toMat34/asMat34 do not hold [R p; 0 0 0 1]")) return;
    if (!judge<P>(ctx, "M:(~X).toMat44/toMat34", ei, 8 * eps)) return;
    if (!ctx.check(toM3(X.x().asVec3() == X.R().x().asVec3() ? X.R().asMat33() : Mat<3, 3, P>(0)).m[0][0] == x.R[0][0] && rr::maxAbs(toV3(X.y().asVec3()) - x.R.col(1)) == 0 && rr::maxAbs(toV3(X.z().asVec3()) - x.R.col(2)) == 0 && rr::maxAbs(toV3((~X).x().asVec3()) - x.R.row(0)) == 0, "x()/y()/z() of Transform_/InverseTransform_ wrong")) return;
    // constructors
    Transform_<P> Tr(X.R()), Tp(p1), T0; Transform_<P> Tz = X; Tz.setToZero();
    if (!ctx.check(Tr.p() == Vec<3, P>(0) && Tr.R() == X.R() && Tp.p() == p1 && Tp.R() == Rotation_<P>() && T0 == Tz && T0.p() == Vec<3, P>(0), "Transform_ constructors / setToZero wrong")) return;
}

// kind 10: UnitVec / UnitRow: normalisation over wide scales, perp(), negate, abs, axis constructors
template <class P> void kindUnitVec(pbt::Reader& g, pbt::Ctx& ctx) {
    const LD eps = Prec<P>::eps; const bool isF = std::is_same<P, float>::value;
    int mode = g.pick(6); V3 d = genUnit(g); LD sc = (LD)g.logreal(isF ? 1e-15 : 1e-140, isF ? 1e15 : 1e140);
    V3 w;
    switch (mode) { default: case 0: case 1: w = sc * d; break;
        case 2: { int ax = g.pick(3); w = V3(0, 0, 0); w[ax] = g.boolean() ? sc : -sc; break; }                                   // along an axis
        case 3: { int ax = g.pick(3); LD t = std::pow((LD)10, -(LD)(1 + g.pick(18))); w = V3(t * d[0], t * d[1], t * d[2]); w[ax] = g.boolean() ? 1 : -1; w = sc * w; break; }  // nearly along an axis
        case 4: { LD s1 = g.boolean() ? 1 : -1, s2 = g.boolean() ? 1 : -1, s3 = g.boolean() ? 1 : -1; int z = g.pick(4); w = V3(s1, s2, s3); if (z < 3) w[z] = 0; w = sc * w; break; }   // ties between components
        case 5: { int ax = g.pick(3); w = sc * d; w[ax] = 0; if (rr::norm(w) == 0) w[(ax + 1) % 3] = sc; break; } }                // in a coordinate plane
    Vec<3, P> v = toVec<P>(w); V3 vl = toV3(v); LD n = rr::norm(vl);
    if (!(n > 0)) { ctx.reject("zero-vector"); return; }
    V3 want = (1 / n) * vl;
    if (ctx.wantDesc) ctx.desc << "unitvec mode=" << mode << " v=" << rr::show(vl) << "\n";
    static const char* mn[] = {"generic", "generic", "along-axis", "near-axis", "ties", "in-plane"};
    ctx.label(std::string("unitvec:") + mn[mode]); ctx.nontrivial(true);
    int ctor = g.pick(3);
    UnitVec<P, 1> u = ctor == 0 ? UnitVec<P, 1>(v) : ctor == 1 ? UnitVec<P, 1>(v[0], v[1], v[2]) : UnitVec<P, 1>(Vec<3, P, 2>(v));
    V3 ul = toV3(u.asVec3());
    if (!judge<P>(ctx, "V:UnitVec unit length", std::fabs(rr::norm(ul) - 1), 4 * eps, "v=" + rr::show(vl))) return;
    if (!judge<P>(ctx, "R:UnitVec direction", rr::maxAbs(ul - want), 4 * eps, "v=" + rr::show(vl))) return;
    UnitRow<P, 1> r = ctor == 0 ? UnitRow<P, 1>(~v) : ctor == 1 ? UnitRow<P, 1>(v[0], v[1], v[2]) : UnitRow<P, 1>(Row<3, P, 2>(~v));
    if (!ctx.check(rr::maxAbs(toV3(r.asRow3()) - ul) == 0 && rr::maxAbs(toV3((~u).asRow3()) - ul) == 0 && rr::maxAbs(toV3((~r).asVec3()) - ul) == 0, "UnitRow differs from UnitVec of the same vector / transpose view wrong")) return;
    V3 pl = toV3(u.perp().asVec3()), prl = toV3(r.perp().asRow3());
    if (!judge<P>(ctx, "V:perp unit length", std::fabs(rr::norm(pl) - 1), 4 * eps, "u=" + rr::show(ul))) return;
    if (!judge<P>(ctx, "V:perp orthogonal", std::fabs(rr::dot(pl, ul)), 4 * eps, "u=" + rr::show(ul) + " perp=" + rr::show(pl))) return;
    if (!judge<P>(ctx, "V:UnitRow perp unit+orthogonal", std::max(std::fabs(rr::norm(prl) - 1), std::fabs(rr::dot(prl, ul))), 4 * eps)) return;
    V3 nl = toV3((-u).asVec3()), al = toV3(u.abs().asVec3()), nrl = toV3(u.negate().asVec3());
    if (!ctx.check(rr::maxAbs(nl + ul) == 0 && rr::maxAbs(nrl + ul) == 0 && al[0] == std::fabs(ul[0]) && al[1] == std::fabs(ul[1]) && al[2] == std::fabs(ul[2]) && rr::maxAbs(toV3((-r).asRow3()) + ul) == 0 && rr::maxAbs(toV3(r.abs().asRow3()) - al) == 0, "negate()/operator-/abs() wrong")) return;
    for (int i = 0; i < 3; ++i) if (!ctx.check((LD)u[i] == ul[i] && (LD)u(i) == ul[i] && (LD)r[i] == ul[i], "element access wrong")) return;
    UnitVec<P, 3> us(u); UnitVec<P, 1> ub; ub = us;
    if (!ctx.check(ub == u && !(ub != u) && us == u, "stride conversion / comparison changed the unit vector")) return;
    UnitVec<P, 1> dflt; if (!ctx.check(std::isnan((double)dflt[0]) && std::isnan((double)dflt[1]) && std::isnan((double)dflt[2]), "default UnitVec must be NaN")) return;
}

// kind 11: CoordinateAxis / CoordinateDirection algebra vs unit vectors (exhaustive over the tape's choice)
template <class P> void kindCoordAxis(pbt::Reader& g, pbt::Ctx& ctx) {
    int a = g.pick(3), b = g.pick(3), c = g.pick(3), sa = g.boolean() ? 1 : -1, sb = g.boolean() ? 1 : -1;
    if (ctx.wantDesc) ctx.desc << "coordaxis a=" << a << " b=" << b << " c=" << c << " sa=" << sa << " sb=" << sb << "\n";
    ctx.label("coordaxis"); ctx.nontrivial(a != b);
    const CoordinateAxis &A = AX(a), &B = AX(b), &C = AX(c);
    V3 ea, eb; ea[a] = 1; eb[b] = 1; V3 cr = rr::cross(ea, eb);
    bool ok = int(A) == a && int(A.getNextAxis()) == (a + 1) % 3 && int(A.getPreviousAxis()) == (a + 2) % 3 && A.isXAxis() == (a == 0) && A.isYAxis() == (a == 1) && A.isZAxis() == (a == 2)
        && A.isNextAxis(B) == (b == (a + 1) % 3) && A.isPreviousAxis(B) == (b == (a + 2) % 3) && A.isSameAxis(B) == (a == b) && A.isDifferentAxis(B) == (a != b)
        && A.areAllSameAxes(B, C) == (a == b && b == c) && A.areAllDifferentAxes(B, C) == (a != b && b != c && a != c)
        && A.isForwardCyclical(B) == (b == (a + 1) % 3) && A.isReverseCyclical(B) == (b == (a + 2) % 3)
        && A.dotProduct(B) == (int)rr::dot(ea, eb) && A.crossProductSign(B) == (int)(cr[0] + cr[1] + cr[2]);
    if (a != b) { ok = ok && int(A.getThirdAxis(B)) == 3 - a - b && int(A.crossProductAxis(B)) == 3 - a - b; int s = 7; ok = ok && int(A.crossProduct(B, s)) == 3 - a - b && s == (int)(cr[0] + cr[1] + cr[2]); }
    else ok = ok && int(A.crossProductAxis(B)) == a;
    if (!ctx.check(ok, "CoordinateAxis algebra wrong for axes " + std::to_string(a) + "," + std::to_string(b) + "," + std::to_string(c))) return;
    CoordinateDirection DA(A, sa), DB(B, sb); V3 da = (LD)sa * ea, db = (LD)sb * eb, dc = rr::cross(da, db);
    bool ok2 = int(DA.getAxis()) == a && DA.getDirection() == sa && DA.hasSameAxis(DB) == (a == b) && DA.isSameAxisAndDirection(DB) == (a == b && sa == sb)
        && DA.dotProduct(DB) == (int)rr::dot(da, db) && DA.crossProductSign(DB) == (int)(dc[0] + dc[1] + dc[2]);
    if (a != b) ok2 = ok2 && int(DA.crossProductAxis(DB)) == 3 - a - b;
    if (!ctx.check(ok2, "CoordinateDirection algebra wrong")) return;
    UnitVec<P, 1> ua(A), uda(DA), ui(a); V3 ual = toV3(ua.asVec3()), udal = toV3(uda.asVec3());
    if (!ctx.check(rr::maxAbs(ual - ea) == 0 && rr::maxAbs(udal - da) == 0 && ui == ua, "UnitVec from CoordinateAxis / CoordinateDirection wrong")) return;
}

template <class P> void runUnit(int kind, pbt::Reader& g, pbt::Ctx& ctx) {
    switch (kind) {
        case 0: kindThreeAngles<P>(g, ctx); break;   case 1: kindGeneralToAngles<P>(g, ctx); break;
        case 2: kindTwoAngles<P>(g, ctx); break;     case 3: kindOneAngle<P>(g, ctx); break;
        case 4: kindAngleAxis<P>(g, ctx); break;     case 5: kindQuaternion<P>(g, ctx); break;
        case 6: kindAxes<P>(g, ctx); break;          case 7: kindApprox<P>(g, ctx); break;
        case 8: kindCompose<P>(g, ctx); break;       case 9: kindTransform<P>(g, ctx); break;
        case 10: kindUnitVec<P>(g, ctx); break;      default: kindCoordAxis<P>(g, ctx); break;
    }
}

void property(const pbt::Tape& t, pbt::Ctx& ctx) {
    pbt::Reader g0(t[0]); bool isFloat = g0.boolean();
    ctx.label(isFloat ? "float" : "double");
    for (size_t k = 1; k < t.size() && !ctx.failed; ++k) {
        pbt::Reader g(t[k]);
        // kind weights: the Euler conversions (0,1) and quaternion (5) get double weight
        static const int table[] = {0, 0, 1, 1, 2, 3, 4, 5, 5, 6, 7, 8, 9, 10, 11, 0};
        int kind = table[g.pick(16)];
        if (isFloat) runUnit<float>(kind, g, ctx); else runUnit<double>(kind, g, ctx);
    }
}

// compile-time detection: does R / ~S compile for precision P ?
template <class P, class = void> struct CanDivideByInverse : std::false_type {};
template <class P> struct CanDivideByInverse<P, std::void_t<decltype(std::declval<const Rotation_<P>&>() / std::declval<const InverseRotation_<P>&>())>> : std::true_type {};

pbt::Config config() {
    pbt::Config c; c.prop = "C27"; c.K = 40; c.minUnits = 1;
    c.quick = {20000, 400000, 12, 8}; c.thorough = {100000, 3000000, 16, 60};
    c.rule = "tape -> precision (float/double) + 1..n independent units; unit = API family {three-angle sequence from angles, general rotation -> angles -> rotation, two-angle, one-angle, angle-axis, quaternion, one/two-axes construction, approximate Mat33, Rotation/InverseRotation composition, Transform/InverseTransform, UnitVec/UnitRow, CoordinateAxis}; angles from {uniform, near 0, near +-pi/2, near +-pi, exact P(k pi/2), several turns}; rotations from {uniform quaternion, near identity, near pi, 24 cube rotations, coordinate-axis, Euler-lock neighbourhood 1e-1..1e-17}. Non-trivial: any unit other than a body-XYZ sequence / x-axis rotation with generic angles.";
    c.assumptions = {"long double reference algebra (gen/rotref.h) is exact enough to judge float/double results", "rotations handed to the library as 'trusted' matrices are reference rotations rounded to P (orthonormal to eps/2 per element)", "Euler round-trip accuracy is demanded as 64 eps (1+1/d), capped at 64 sqrt(eps) (d = distance from the coordinate singularity)"};
    c.directed.push_back({"euler-near-lock-noisy-rotation", "euler-near-lock-roundtrip", [](pbt::Ctx& ctx) {
        // body XYZ angles (0.3, pi/2 - 1e-13, -0.7) re-orthonormalised through a quaternion (absolute rounding noise on the
        // small elements): converting to body-XYZ angles and back must reproduce the rotation
        double worst[2] = {0, 0};
        for (int it = 0; it < 50; ++it) {
            Rotation_<double> Rd0(BodyRotationSequence, 0.3 + 0.01 * it, XAxis, Pi / 2 - 1e-13, YAxis, -0.7 + 0.013 * it, ZAxis); Rotation_<double> Rd(Rd0.convertRotationToQuaternion());
            Vec3 q = Rd.convertThreeAxesRotationToThreeAngles(BodyRotationSequence, XAxis, YAxis, ZAxis);
            worst[0] = std::max(worst[0], (double)Rd.getMaxAbsDifferenceInRotationElements(Rotation_<double>(BodyRotationSequence, q[0], XAxis, q[1], YAxis, q[2], ZAxis)));
            Rotation_<float> Rf0(BodyRotationSequence, 0.3f + 0.01f * it, XAxis, (float)(Pi / 2 - 3e-7), YAxis, -0.7f + 0.013f * it, ZAxis); Rotation_<float> Rf(Rf0.convertRotationToQuaternion());
            Vec<3, float> qf = Rf.convertThreeAxesRotationToThreeAngles(BodyRotationSequence, XAxis, YAxis, ZAxis);
            worst[1] = std::max(worst[1], (double)Rf.getMaxAbsDifferenceInRotationElements(Rotation_<float>(BodyRotationSequence, qf[0], XAxis, qf[1], YAxis, qf[2], ZAxis)));
        }
        ctx.desc << "R -> body-XYZ angles -> R near gimbal lock: worst element error double (cos q2 ~ 1e-13) " << worst[0] << ", float (cos q2 ~ 3e-7) " << worst[1] << "\n";
        ctx.check(worst[0] <= 64 * std::sqrt(2.2e-16) && worst[1] <= 64 * std::sqrt(1.2e-7), "round trip error double " + pbt::str(worst[0]) + " (limit 9.5e-7), float " + pbt::str(worst[1]) + " (limit 2.2e-2)");
    }});
    c.directed.push_back({"twoaxes-nearly-parallel", "twoaxes-nearly-parallel-not-orthonormal", [](pbt::Ctx& ctx) {
        double worst[2] = {0, 0};
        for (int it = 0; it < 50; ++it) {
            UnitVec<float, 1> uf(1.f + 0.1f * it, 2.f, -3.f + 0.2f * it); Vec<3, float> vf = uf.asVec3() * 2.5f + uf.perp().asVec3() * 1e-3f;
            Rotation_<float> Rf(uf, XAxis, vf, YAxis); Mat<3, 3, float> Ef = ~Rf.asMat33() * Rf.asMat33() - Mat<3, 3, float>(1);
            for (int i = 0; i < 3; ++i) for (int j = 0; j < 3; ++j) worst[1] = std::max(worst[1], (double)std::abs(Ef(i, j)));
            UnitVec<double, 1> ud(1. + 0.1 * it, 2., -3. + 0.2 * it); Vec3 vd = ud.asVec3() * 2.5 + ud.perp().asVec3() * 1e-3;
            Rotation_<double> Rd(ud, XAxis, vd, YAxis); Mat33 Ed = ~Rd.asMat33() * Rd.asMat33() - Mat33(1);
            for (int i = 0; i < 3; ++i) for (int j = 0; j < 3; ++j) worst[0] = std::max(worst[0], std::abs(Ed(i, j)));
        }
        ctx.desc << "setRotationFromTwoAxes(u, X, v, Y) with v 4e-4 rad from u: max |R^T R - I| double " << worst[0] << " float " << worst[1] << "\n";
        ctx.check(worst[0] <= 128 * 2.2e-16 && worst[1] <= 128 * 1.2e-7, "produced Rotation is not orthonormal: |R^T R - I| = " + pbt::str(worst[0]) + " (double), " + pbt::str(worst[1]) + " (float)");
    }});
    c.directed.push_back({"transform-inplace-invert", "transform-inplace-invert-aliasing", [](pbt::Ctx& ctx) {
        Transform X(Rotation(0.3, UnitVec3(1, 2, 3)), Vec3(1, 2, 3)), Y = X, Z; Z = ~X; Y = ~Y;
        double e = (Y.toMat44() - Z.toMat44()).norm();
        ctx.desc << "X = ~X in place vs Z = ~X: |difference| = " << e << "\n";
        ctx.check(e <= 1e-14, "X = ~X (in place) differs from the inverse by " + pbt::str(e));
    }});
    c.directed.push_back({"float-rotation-div-inverse", "rotation-div-inverserotation-float-overload", [](pbt::Ctx& ctx) {
        ctx.desc << "does Rotation_<P> / InverseRotation_<P> compile: double " << CanDivideByInverse<double>::value << " float " << CanDivideByInverse<float>::value << "\n";
        ctx.check(CanDivideByInverse<double>::value && CanDivideByInverse<float>::value, "operator/(Rotation_<P>, InverseRotation_<P>) exists for double only (declared with the non-template typedef InverseRotation)");
    }});
    c.requiredLabels = {"float", "double", "seq3:ijk", "seq3:iji", "seq3:space", "seq3:body", "seq3:repeated-axis", "lock:exact-branch", "lock:d<1e-6", "quat:branch0", "quat:branch1", "quat:branch2", "quat:branch3", "axes:parallel-fallback", "axes:generic", "approx:delta>=1e-6", "transform:compose3", "unitvec:along-axis", "unitvec:ties", "coordaxis", "seq3:angles-compared"};
    return c;
}
} // namespace

PBT_MAIN(config(), property)
